(* Lemmas about the public entry points of the stochastic models (Model/NoiseEntry.v), property C18. *)
From Coq Require Import Reals Lra QArith Qreals Qcanon Qround.
From LV Require Import Lib.Cis.
From LV Require Export Proofs.NoiseP Model.NoiseEntry.

(* ------------------------------------------------------------------------------------------ *)
(** * seeds and method strings *)
Definition seed_valid (s : seed) : Prop :=
  match s with SeedInt z => 0 <= z | SeedList l => Forall (fun z => 0 <= z) l | SeedFloat => False end.
Definition seed_error (s : seed) : errkind :=
  match s with SeedFloat => TypeError | _ => ValueError end.

Lemma seed_check_ok s : seed_check s = Ok tt <-> seed_valid s.
Proof. destruct s as [z|l|]; cbn [seed_check seed_valid].
  - destruct (z <? 0) eqn:E; split; intros H; try discriminate; try reflexivity; lia.
  - destruct (existsb (fun z => z <? 0) l) eqn:E; split; intros H; try discriminate; try reflexivity.
    + apply existsb_exists in E. destruct E as (z & Hz & Hneg). rewrite Forall_forall in H.
      specialize (H z Hz). lia.
    + apply Forall_forall. intros z Hz. destruct (z <? 0) eqn:E2; [|lia].
      assert (existsb (fun z => z <? 0) l = true) by (apply existsb_exists; eauto). congruence.
  - split; [discriminate | intros []]. Qed.
Lemma seed_check_err s : ~ seed_valid s -> seed_check s = Err (seed_error s).
Proof. intros H. destruct (seed_check s) as [[]|e] eqn:E.
  - apply seed_check_ok in E. contradiction.
  - destruct s as [z|l|]; cbn [seed_check seed_error] in *.
    + destruct (z <? 0); congruence. + destruct (existsb _ l); congruence. + congruence. Qed.
Lemma seed_check_cases s : seed_check s = Ok tt \/ seed_check s = Err (seed_error s).
Proof. destruct s as [z|l|]; cbn; [destruct (z <? 0) | destruct (existsb _ l) |]; auto. Qed.

Lemma str_eqb_eq a b : str_eqb a b = true <-> a = b.
Proof. revert b. induction a as [|x a IH]; intros [|y b]; cbn [str_eqb]; split; intros H;
  try discriminate; try reflexivity.
  - apply andb_true_iff in H. destruct H as [H1 H2]. apply Z.eqb_eq in H1. apply IH in H2. congruence.
  - injection H as -> ->. rewrite Z.eqb_refl. cbn. now apply IH. Qed.
Lemma parse_poisson : parse_method str_poisson = Some Poisson. Proof. vm_compute. reflexivity. Qed.
Lemma parse_gaussian : parse_method str_gaussian = Some Gaussian. Proof. vm_compute. reflexivity. Qed.

Lemma parse_method_poisson m : parse_method m = Some Poisson <-> m = str_poisson.
Proof. unfold parse_method. destruct (str_eqb m str_poisson) eqn:E.
  - apply str_eqb_eq in E. split; auto.
  - assert (m <> str_poisson) by (intros ->; rewrite (proj2 (str_eqb_eq _ _) eq_refl) in E; discriminate).
    destruct (str_eqb m str_gaussian); split; intros; try discriminate; contradiction. Qed.
Lemma parse_method_gaussian m : parse_method m = Some Gaussian <-> m = str_gaussian.
Proof. unfold parse_method. destruct (str_eqb m str_poisson) eqn:E.
  - apply str_eqb_eq in E. subst. split; [discriminate|]. intros H. discriminate H.
  - destruct (str_eqb m str_gaussian) eqn:E2.
    + apply str_eqb_eq in E2. split; auto.
    + split; [discriminate|]. intros ->. rewrite (proj2 (str_eqb_eq _ _) eq_refl) in E2. discriminate. Qed.
Lemma parse_method_none m : parse_method m = None <-> m <> str_poisson /\ m <> str_gaussian.
Proof. split.
  - intros H. split; intros ->; [rewrite parse_poisson in H | rewrite parse_gaussian in H]; discriminate.
  - intros [H1 H2]. destruct (parse_method m) as [[]|] eqn:E; [| |reflexivity].
    + apply parse_method_poisson in E. contradiction. + apply parse_method_gaussian in E. contradiction. Qed.

(* ------------------------------------------------------------------------------------------ *)
(** * shot_noise entry *)
Definition counts_ok (img : arr QS) : Prop :=
  forall i j, in_range img i j -> (0 <= get img i j)%Qc /\ (get img i j <= LAM_MAX)%Qc.

Lemma shot_kernel_ok_iff (img : arr QS) r :
  (r = shot_poisson img \/ r = shot_gaussian true img) ->
  forall draw, (exists f, shot_to_result (r draw) = Ok f) <-> counts_ok img.
Proof. intros Hr draw. split.
  - intros (f & H). destruct (r draw) as [fr|e m] eqn:E; [|discriminate].
    destruct Hr as [-> | ->].
    + apply shot_poisson_frame in E. exact (proj1 E).
    + apply shot_gaussian_frame in E. destruct E as (A & B & _). intros i j Hij. split; [now apply A | now apply B].
  - intros H. destruct Hr as [-> | ->].
    + rewrite shot_poisson_accepts by exact H. eexists. reflexivity.
    + unfold shot_gaussian.
      assert (H0 : has_neg img = false) by (apply has_neg_false; intros; now apply H).
      assert (H1 : has_big img = false) by (apply has_big_false; intros; now apply H).
      rewrite H0, H1. eexists. reflexivity. Qed.
Lemma shot_kernel_err (img : arr QS) r draw e :
  (r = shot_poisson img \/ r = shot_gaussian true img) ->
  shot_to_result (r draw) = Err e -> e = ValueError.
Proof. intros [-> | ->] H.
  - unfold shot_poisson in H. destruct (has_neg img); [cbn in H; congruence|].
    destruct (has_big img); cbn in H; congruence.
  - unfold shot_gaussian in H. destruct (has_neg img); [cbn in H; congruence|].
    destruct (true && has_big img); cbn in H; congruence. Qed.

(* the result of the entry point, completely: which inputs are accepted, which error otherwise, in which order *)
Lemma shot_noise_entry_spec (rng : egenerator) (sq img : arr QS) m s :
  (* 1. an unknown method string is an AssertionError, whatever the seed and the frame *)
  (m <> str_poisson /\ m <> str_gaussian -> shot_noise_entry rng sq img m s = Err AssertionErr) /\
  (* 2. then the seed: ValueError for a negative integer, TypeError for a float, whatever the frame *)
  (m = str_poisson \/ m = str_gaussian -> ~ seed_valid s ->
     shot_noise_entry rng sq img m s = Err (seed_error s)) /\
  (* 3. then the kernels *)
  (m = str_poisson -> seed_valid s ->
     shot_noise_entry rng sq img m s = shot_to_result (shot_poisson img (rng s (ReqPoisson img)))) /\
  (m = str_gaussian -> seed_valid s ->
     shot_noise_entry rng sq img m s = shot_to_result (shot_gaussian true img (rng s (ReqNormalArr img sq)))) /\
  (* 4. accepted exactly when all three hold; every other refusal is a ValueError *)
  ((exists f, shot_noise_entry rng sq img m s = Ok f) <->
     (m = str_poisson \/ m = str_gaussian) /\ seed_valid s /\ counts_ok img) /\
  ((m = str_poisson \/ m = str_gaussian) -> seed_valid s -> ~ counts_ok img ->
     shot_noise_entry rng sq img m s = Err ValueError).
Proof.
  assert (P1 : m <> str_poisson /\ m <> str_gaussian -> shot_noise_entry rng sq img m s = Err AssertionErr).
  { intros H. apply parse_method_none in H. unfold shot_noise_entry. now rewrite H. }
  assert (P2 : m = str_poisson \/ m = str_gaussian -> ~ seed_valid s ->
               shot_noise_entry rng sq img m s = Err (seed_error s)).
  { intros Hm Hs. unfold shot_noise_entry.
    destruct Hm as [-> | ->]; [rewrite parse_poisson | rewrite parse_gaussian];
      rewrite (seed_check_err s Hs); reflexivity. }
  assert (P3 : m = str_poisson -> seed_valid s ->
     shot_noise_entry rng sq img m s = shot_to_result (shot_poisson img (rng s (ReqPoisson img)))).
  { intros -> Hs. apply seed_check_ok in Hs. unfold shot_noise_entry. rewrite parse_poisson, Hs. reflexivity. }
  assert (P4 : m = str_gaussian -> seed_valid s ->
     shot_noise_entry rng sq img m s = shot_to_result (shot_gaussian true img (rng s (ReqNormalArr img sq)))).
  { intros -> Hs. apply seed_check_ok in Hs. unfold shot_noise_entry. rewrite parse_gaussian, Hs. reflexivity. }
  split; [exact P1|]. split; [exact P2|]. split; [exact P3|]. split; [exact P4|]. split.
  - split.
    + intros (f & H).
      destruct (parse_method m) as [mth|] eqn:Em.
      2:{ apply parse_method_none in Em. rewrite (P1 Em) in H. discriminate. }
      assert (Hm : m = str_poisson \/ m = str_gaussian).
      { destruct mth; [left; now apply parse_method_poisson | right; now apply parse_method_gaussian]. }
      destruct (seed_check_cases s) as [Hs|Hs].
      2:{ assert (~ seed_valid s) as Hn by (intros Hv; apply seed_check_ok in Hv; congruence).
          rewrite (P2 Hm Hn) in H. discriminate. }
      apply seed_check_ok in Hs. split; [exact Hm|]. split; [exact Hs|].
      destruct Hm as [Hm|Hm].
      * rewrite (P3 Hm Hs) in H. apply (shot_kernel_ok_iff img (shot_poisson img) (or_introl eq_refl) (rng s (ReqPoisson img))). eauto.
      * rewrite (P4 Hm Hs) in H. apply (shot_kernel_ok_iff img (shot_gaussian true img) (or_intror eq_refl) (rng s (ReqNormalArr img sq))). eauto.
    + intros (Hm & Hs & Hc). destruct Hm as [Hm|Hm].
      * rewrite (P3 Hm Hs). now apply (shot_kernel_ok_iff img (shot_poisson img) (or_introl eq_refl)).
      * rewrite (P4 Hm Hs). now apply (shot_kernel_ok_iff img (shot_gaussian true img) (or_intror eq_refl)).
  - intros Hm Hs Hc. destruct Hm as [Hm|Hm].
    + rewrite (P3 Hm Hs).
      destruct (shot_to_result (shot_poisson img (rng s (ReqPoisson img)))) as [f|e] eqn:E.
      * exfalso. apply Hc. apply (shot_kernel_ok_iff img (shot_poisson img) (or_introl eq_refl) (rng s (ReqPoisson img))). eauto.
      * f_equal. exact (shot_kernel_err img (shot_poisson img) _ e (or_introl eq_refl) E).
    + rewrite (P4 Hm Hs).
      destruct (shot_to_result (shot_gaussian true img (rng s (ReqNormalArr img sq)))) as [f|e] eqn:E.
      * exfalso. apply Hc. apply (shot_kernel_ok_iff img (shot_gaussian true img) (or_intror eq_refl) (rng s (ReqNormalArr img sq))). eauto.
      * f_equal. exact (shot_kernel_err img (shot_gaussian true img) _ e (or_intror eq_refl) E). Qed.

(* ------------------------------------------------------------------------------------------ *)
(** * read_noise entry *)
Lemma read_noise_entry_spec (rng : egenerator) (img : arr QS) e s :
  (~ seed_valid s -> read_noise_entry rng img e s = Err (seed_error s)) /\
  (seed_valid s -> (e < 0)%Qc -> read_noise_entry rng img e s = Err ValueError) /\
  (seed_valid s -> (0 <= e)%Qc ->
     read_noise_entry rng img e s = Ok (read_noise img (rng s (ReqNormal 0%Qc e (nr img) (nc img))))) /\
  ((exists f, read_noise_entry rng img e s = Ok f) <-> seed_valid s /\ (0 <= e)%Qc).
Proof.
  assert (P1 : ~ seed_valid s -> read_noise_entry rng img e s = Err (seed_error s)).
  { intros Hs. unfold read_noise_entry. now rewrite (seed_check_err s Hs). }
  assert (P2 : seed_valid s -> (e < 0)%Qc -> read_noise_entry rng img e s = Err ValueError).
  { intros Hs He. apply seed_check_ok in Hs. apply Qcltb_true in He. unfold read_noise_entry. now rewrite Hs, He. }
  assert (P3 : seed_valid s -> (0 <= e)%Qc ->
     read_noise_entry rng img e s = Ok (read_noise img (rng s (ReqNormal 0%Qc e (nr img) (nc img))))).
  { intros Hs He. apply seed_check_ok in Hs. apply Qcltb_false in He. unfold read_noise_entry. now rewrite Hs, He. }
  split; [exact P1|]. split; [exact P2|]. split; [exact P3|]. split.
  - intros (f & H). destruct (seed_check_cases s) as [Hs|Hs].
    + apply seed_check_ok in Hs. split; [exact Hs|].
      destruct (Qcltb e 0%Qc) eqn:E; [|now apply Qcltb_false].
      apply Qcltb_true in E. rewrite (P2 Hs E) in H. discriminate.
    + assert (~ seed_valid s) as Hn by (intros Hv; apply seed_check_ok in Hv; congruence).
      rewrite (P1 Hn) in H. discriminate.
  - intros (Hs & He). rewrite (P3 Hs He). eauto. Qed.

(* ------------------------------------------------------------------------------------------ *)
(** * dark_current entry *)
Definition dims_valid (l : list Z) : Prop := Forall (fun d => 0 <= d) l.
Lemma dims_ok_true l : dims_ok l = true <-> dims_valid l.
Proof. unfold dims_ok, dims_valid. rewrite forallb_forall, Forall_forall.
  split; intros H d Hd; specialize (H d Hd); lia. Qed.
Lemma dims_ok_false l : dims_ok l = false <-> ~ dims_valid l.
Proof. rewrite <- dims_ok_true. destruct (dims_ok l); split; intros; congruence. Qed.

(* without pattern noise the generator and the seed are never consulted (an invalid seed included) *)
Lemma dark_entry_no_fpn rate shape fpn :
  ~ (0 < fpn)%Qc ->
  (forall (rng1 rng2 : fgenerator) s1 s2,
     dark_current_entry rng1 rate shape fpn s1 = dark_current_entry rng2 rate shape fpn s2) /\
  (forall rng s, dims_valid (shape_dims shape) ->
     exists f, dark_current_entry rng rate shape fpn s = Ok f /\ fdims f = shape_dims shape /\
               forall k, fget f k = Qcfloor rate) /\
  (forall rng s, ~ dims_valid (shape_dims shape) -> dark_current_entry rng rate shape fpn s = Err ValueError).
Proof. intros Hf.
  assert (E : Qcltb 0 fpn = false) by (destruct (Qcltb 0 fpn) eqn:E; [apply Qcltb_true in E; contradiction|reflexivity]).
  unfold dark_current_entry. rewrite E. cbv zeta. split; [reflexivity|]. split.
  - intros rng s Hd. apply dims_ok_true in Hd. rewrite Hd. eexists. split; [reflexivity|].
    cbn [fdims fget]. split; [reflexivity|]. intros _. f_equal. ring.
  - intros rng s Hd. apply dims_ok_false in Hd. now rewrite Hd. Qed.

Lemma dark_entry_fpn (rng : fgenerator) rate shape fpn s :
  (0 < fpn)%Qc ->
  (~ seed_valid s -> dark_current_entry rng rate shape fpn s = Err (seed_error s)) /\
  (seed_valid s -> ~ dims_valid (shape_dims shape) -> dark_current_entry rng rate shape fpn s = Err ValueError) /\
  (seed_valid s -> dims_valid (shape_dims shape) ->
     exists f, dark_current_entry rng rate shape fpn s = Ok f /\ fdims f = shape_dims shape /\
       forall k, fget f k = Qcfloor (rate * rng s (fpn, shape_dims shape) k)%Qc).
Proof. intros Hf. apply Qcltb_true in Hf. unfold dark_current_entry. rewrite Hf. cbv zeta. split; [|split].
  - intros Hs. now rewrite (seed_check_err s Hs).
  - intros Hs Hd. apply seed_check_ok in Hs. apply dims_ok_false in Hd. now rewrite Hs, Hd.
  - intros Hs Hd. apply seed_check_ok in Hs. apply dims_ok_true in Hd. rewrite Hs, Hd.
    eexists. split; [reflexivity|]. cbn [fdims fget]. split; [reflexivity|]. intros k. f_equal. ring. Qed.

(* the 2-d frames of Model/Noise.v are the rank-2 instance (row-major flat index i*m + j) *)
Lemma dark_entry_2d (rng : fgenerator) rate n m fpn s (draw : arr QS) f :
  (forall i j, get draw i j = rng s (fpn, [n; m]) (i * m + j)) ->
  dark_current_entry rng rate (ShapeDims [n; m]) fpn s = Ok f ->
  fdims f = [n; m] /\ forall i j, fget f (i * m + j) = get (dark_current rate n m fpn draw) i j.
Proof. intros Hd. unfold dark_current_entry. cbv zeta. cbn [shape_dims dark_current get]. unfold dark_fpn.
  destruct (Qcltb 0 fpn).
  - destruct (seed_check s); [|discriminate]. destruct (dims_ok [n; m]); [|discriminate].
    intros H. injection H as <-. cbn [fdims fget]. split; [reflexivity|]. intros i j. now rewrite Hd.
  - destruct (dims_ok [n; m]); [|discriminate].
    intros H. injection H as <-. cbn [fdims fget]. split; reflexivity. Qed.

(* ------------------------------------------------------------------------------------------ *)
(** * power_spectrum entry *)
Lemma power_spectrum_entry_spec (S : Scalar) isz nrm (filt : seed -> arr S) mdims (mask : arr S) rms s :
  (~ seed_valid s -> power_spectrum_entry isz nrm filt mdims mask rms s = Err (seed_error s)) /\
  (seed_valid s -> (forall n m, mdims = [n; m] -> n = 0 \/ m = 0) ->
     power_spectrum_entry isz nrm filt mdims mask rms s = Err ValueError) /\
  (forall n m, seed_valid s -> mdims = [n; m] -> n <> 0 -> m <> 0 ->
     power_spectrum_entry isz nrm filt mdims mask rms s
     = Ok (power_spectrum_post isz nrm (filt s) (mkArr n m (get mask)) rms)).
Proof. unfold power_spectrum_entry. split; [|split].
  - intros Hs. now rewrite (seed_check_err s Hs).
  - intros Hs H. apply seed_check_ok in Hs. rewrite Hs.
    destruct mdims as [|n [|m [|x l]]]; try reflexivity.
    destruct (H n m eq_refl) as [-> | ->]; [reflexivity|]. now rewrite orb_true_r.
  - intros n m Hs -> Hn Hm. apply seed_check_ok in Hs. rewrite Hs.
    apply Z.eqb_neq in Hn. apply Z.eqb_neq in Hm. now rewrite Hn, Hm. Qed.

(* ------------------------------------------------------------------------------------------ *)
(** * cosmic rays: number of rays and consumption of the global generator *)
Lemma Qctrunc_bounds (x : Qc) : (0 <= x)%Qc ->
  (inject_Z (Qctrunc x) <= x)%Q /\ (x < inject_Z (Qctrunc x + 1))%Q /\ 0 <= Qctrunc x.
Proof. unfold Qctrunc, Qcle. destruct x as [[n d] Hc]. cbn [this Qnum Qden]. unfold Qle, Qlt. cbn [Qnum Qden inject_Z].
  change (Qnum (Q2Qc 0)) with 0. change (Z.pos (Qden (Q2Qc 0))) with 1.
  intros H. assert (Hn : 0 <= n) by lia. pose proof (Pos2Z.is_pos d) as Hd.
  rewrite Z.quot_div_nonneg by lia. rewrite !Z.mul_1_r.
  pose proof (Z.mul_div_le n (Zpos d) Hd). pose proof (Z.mul_succ_div_gt n (Zpos d) Hd).
  assert (0 <= n / Z.pos d) by (apply Z.div_pos; lia).
  repeat split; nia. Qed.

Lemma nrays_spec (x u : Qc) :
  ((1 <= x)%Qc -> nrays x u = Qctrunc x /\ 1 <= nrays x u /\
                 (inject_Z (nrays x u) <= x)%Q /\ (x < inject_Z (nrays x u + 1))%Q) /\
  ((x < 1)%Qc -> (u <= x)%Qc -> nrays x u = 1) /\
  ((x < 1)%Qc -> (x < u)%Qc -> nrays x u = 0) /\
  0 <= nrays x u.
Proof.
  assert (A : (1 <= x)%Qc -> nrays x u = Qctrunc x /\ 1 <= nrays x u /\
                 (inject_Z (nrays x u) <= x)%Q /\ (x < inject_Z (nrays x u + 1))%Q).
  { intros H. assert (E : Qcltb x 1 = false) by now apply Qcltb_false. unfold nrays. rewrite E.
    assert (H0 : (0 <= x)%Qc) by (eapply Qcle_trans; [|exact H]; discriminate).
    destruct (Qctrunc_bounds x H0) as (B1 & B2 & B3). split; [reflexivity|]. split; [|split; assumption].
    unfold Qcle in H. assert ((1 < inject_Z (Qctrunc x + 1))%Q) by (eapply Qle_lt_trans; [exact H | exact B2]).
    unfold Qlt in H1. cbn in H1. lia. }
  assert (B : (x < 1)%Qc -> (u <= x)%Qc -> nrays x u = 1).
  { intros H1 H2. apply Qcltb_true in H1. apply Qcltb_false in H2. unfold nrays. now rewrite H1, H2. }
  assert (Cc : (x < 1)%Qc -> (x < u)%Qc -> nrays x u = 0).
  { intros H1 H2. apply Qcltb_true in H1. apply Qcltb_true in H2. unfold nrays. now rewrite H1, H2. }
  split; [exact A|]. split; [exact B|]. split; [exact Cc|].
  destruct (Qcltb x 1) eqn:E.
  - apply Qcltb_true in E. destruct (Qcltb x u) eqn:E2.
    + apply Qcltb_true in E2. rewrite (Cc E E2). lia.
    + apply Qcltb_false in E2. rewrite (B E E2). lia.
  - apply Qcltb_false in E. destruct (A E) as (_ & H & _). lia. Qed.

Lemma draws_consumed_spec (x : Qc) k :
  ((x < 1)%Qc -> draws_consumed x k = 1 + 5 * k) /\ ((1 <= x)%Qc -> draws_consumed x k = 5 * k).
Proof. unfold draws_consumed. split; intros H.
  - apply Qcltb_true in H. now rewrite H. - apply Qcltb_false in H. now rewrite H. Qed.

Lemma In_firstn {A} (x : A) n l : In x (firstn n l) -> In x l.
Proof. revert l. induction n as [|n IH]; intros [|y l] H; cbn in *; try contradiction.
  destruct H as [H|H]; [now left | right; now apply IH]. Qed.

Section CosmicEntryReal.
Local Open Scope R_scope.
Lemma cosmic_entry_nonneg (gt09 : K RS -> bool) n m x u (alpha proton : K RS) (rays : list (@ray RS)) frame :
  0 <= alpha -> 0 <= proton ->
  (forall r t, In r rays -> In t (rsegs r) -> exists q, snd t = sqrt q) ->
  fst (cosmic_rays_entry gt09 n m x u alpha proton rays) = Ok frame ->
  nr frame = n /\ nc frame = m /\ forall i j, 0 <= get frame i j.
Proof. intros Ha Hp Hd. unfold cosmic_rays_entry. cbn [fst]. apply cosmic_nonneg.
  intros ds d Hds Hin. apply in_map_iff in Hds. destruct Hds as (r & <- & Hr).
  apply In_firstn in Hr. unfold ray_deposits in Hin. apply in_map_iff in Hin.
  destruct Hin as ([[row col] dist] & <- & Ht). unfold dep_nonneg. cbn [dflux ddist]. split.
  - destruct (gt09 (rpart r)); assumption.
  - exact (Hd r _ Hr Ht). Qed.
End CosmicEntryReal.

(* the frame is built from exactly the first nrays rays, and the generator is advanced by
   (one draw when fewer than one ray is expected) + five per ray *)
Lemma cosmic_entry_uses (S : Scalar) gt09 n m x u (alpha proton : S) (rays : list (@ray S)) :
  cosmic_rays_entry gt09 n m x u alpha proton rays
  = (cosmic_rays n m (map (ray_deposits gt09 alpha proton) (firstn (Z.to_nat (nrays x u)) rays)),
     (if Qcltb x 1%Qc then 1 else 0) + 5 * nrays x u).
Proof. reflexivity. Qed.

(* ------------------------------------------------------------------------------------------ *)
(** * The same statements with every predicate spelled out in terms of the model (for Properties/C18.v) *)
Lemma seed_check_err_inv s e : seed_check s = Err e -> ~ seed_valid s /\ e = seed_error s.
Proof. intros H. split.
  - intros Hv. apply seed_check_ok in Hv. congruence.
  - destruct (seed_check_cases s) as [H1|H1]; congruence. Qed.

Lemma seed_validation_x s :
  (seed_check s = Ok tt <->
     match s with SeedInt z => 0 <= z | SeedList l => Forall (fun z => 0 <= z) l | SeedFloat => False end) /\
  (seed_check s = Ok tt \/
   seed_check s = Err (match s with SeedFloat => TypeError | _ => ValueError end)).
Proof. split; [exact (seed_check_ok s)|]. destruct (seed_check_cases s) as [H|H]; [now left|right].
  rewrite H. destruct s; reflexivity. Qed.

Lemma shot_noise_entry_x (rng : egenerator) (sq img : arr QS) m s :
  (m <> str_poisson /\ m <> str_gaussian -> shot_noise_entry rng sq img m s = Err AssertionErr) /\
  (m = str_poisson \/ m = str_gaussian -> forall e, seed_check s = Err e ->
     shot_noise_entry rng sq img m s = Err e) /\
  (m = str_poisson -> seed_check s = Ok tt ->
     shot_noise_entry rng sq img m s = shot_to_result (shot_poisson img (rng s (ReqPoisson img)))) /\
  (m = str_gaussian -> seed_check s = Ok tt ->
     shot_noise_entry rng sq img m s = shot_to_result (shot_gaussian true img (rng s (ReqNormalArr img sq)))) /\
  ((exists f, shot_noise_entry rng sq img m s = Ok f) <->
     (m = str_poisson \/ m = str_gaussian) /\ seed_check s = Ok tt /\
     forall i j, 0 <= i < nr img /\ 0 <= j < nc img -> (0 <= get img i j)%Qc /\ (get img i j <= LAM_MAX)%Qc) /\
  ((m = str_poisson \/ m = str_gaussian) -> seed_check s = Ok tt ->
     ~ (forall i j, 0 <= i < nr img /\ 0 <= j < nc img -> (0 <= get img i j)%Qc /\ (get img i j <= LAM_MAX)%Qc) ->
     shot_noise_entry rng sq img m s = Err ValueError).
Proof. destruct (shot_noise_entry_spec rng sq img m s) as (A & B & Cc & D & E & F).
  split; [exact A|]. split.
  { intros Hm e He. apply seed_check_err_inv in He. destruct He as [Hn ->]. now apply B. }
  split. { intros Hm Hs. apply Cc; [exact Hm | now apply seed_check_ok]. }
  split. { intros Hm Hs. apply D; [exact Hm | now apply seed_check_ok]. }
  split.
  - rewrite E. unfold counts_ok, in_range. rewrite <- seed_check_ok. reflexivity.
  - intros Hm Hs Hc. apply F; [exact Hm | now apply seed_check_ok | exact Hc]. Qed.

Lemma read_noise_entry_x (rng : egenerator) (img : arr QS) e s :
  (forall err, seed_check s = Err err -> read_noise_entry rng img e s = Err err) /\
  (seed_check s = Ok tt -> (e < 0)%Qc -> read_noise_entry rng img e s = Err ValueError) /\
  (seed_check s = Ok tt -> (0 <= e)%Qc ->
     read_noise_entry rng img e s = Ok (read_noise img (rng s (ReqNormal 0%Qc e (nr img) (nc img))))) /\
  ((exists f, read_noise_entry rng img e s = Ok f) <-> seed_check s = Ok tt /\ (0 <= e)%Qc).
Proof. destruct (read_noise_entry_spec rng img e s) as (A & B & Cc & D).
  split. { intros err He. apply seed_check_err_inv in He. destruct He as [Hn ->]. now apply A. }
  split. { intros Hs. apply B. now apply seed_check_ok. }
  split. { intros Hs. apply Cc. now apply seed_check_ok. }
  rewrite D, <- seed_check_ok. reflexivity. Qed.

Lemma dark_entry_no_fpn_x rate shape fpn :
  ~ (0 < fpn)%Qc ->
  (forall (rng1 rng2 : fgenerator) s1 s2,
     dark_current_entry rng1 rate shape fpn s1 = dark_current_entry rng2 rate shape fpn s2) /\
  (forall rng s, Forall (fun d => 0 <= d) (shape_dims shape) ->
     exists f, dark_current_entry rng rate shape fpn s = Ok f /\ fdims f = shape_dims shape /\
               forall k, fget f k = Qfloor rate) /\
  (forall rng s, ~ Forall (fun d => 0 <= d) (shape_dims shape) ->
     dark_current_entry rng rate shape fpn s = Err ValueError).
Proof. exact (dark_entry_no_fpn rate shape fpn). Qed.

Lemma dark_entry_fpn_x (rng : fgenerator) rate shape fpn s :
  (0 < fpn)%Qc ->
  (forall e, seed_check s = Err e -> dark_current_entry rng rate shape fpn s = Err e) /\
  (seed_check s = Ok tt -> ~ Forall (fun d => 0 <= d) (shape_dims shape) ->
     dark_current_entry rng rate shape fpn s = Err ValueError) /\
  (seed_check s = Ok tt -> Forall (fun d => 0 <= d) (shape_dims shape) ->
     exists f, dark_current_entry rng rate shape fpn s = Ok f /\ fdims f = shape_dims shape /\
       forall k, fget f k = Qfloor (rate * rng s (fpn, shape_dims shape) k)%Qc).
Proof. intros Hf. destruct (dark_entry_fpn rng rate shape fpn s Hf) as (A & B & Cc).
  split. { intros e He. apply seed_check_err_inv in He. destruct He as [Hn ->]. now apply A. }
  split. { intros Hs. apply B. now apply seed_check_ok. }
  intros Hs. apply Cc. now apply seed_check_ok. Qed.

Lemma power_spectrum_entry_x (S : Scalar) isz nrm (filt : seed -> arr S) mdims (mask : arr S) rms s :
  (forall e, seed_check s = Err e -> power_spectrum_entry isz nrm filt mdims mask rms s = Err e) /\
  (seed_check s = Ok tt -> (forall n m, mdims = [n; m] -> n = 0 \/ m = 0) ->
     power_spectrum_entry isz nrm filt mdims mask rms s = Err ValueError) /\
  (forall n m, seed_check s = Ok tt -> mdims = [n; m] -> n <> 0 -> m <> 0 ->
     power_spectrum_entry isz nrm filt mdims mask rms s
     = Ok (power_spectrum_post isz nrm (filt s) (mkArr n m (get mask)) rms)).
Proof. destruct (power_spectrum_entry_spec S isz nrm filt mdims mask rms s) as (A & B & Cc).
  split. { intros e He. apply seed_check_err_inv in He. destruct He as [Hn ->]. now apply A. }
  split. { intros Hs. apply B. now apply seed_check_ok. }
  intros n m Hs. apply Cc. now apply seed_check_ok. Qed.

Lemma cosmic_generator_consumption_x (S : Scalar) gt09 n m x u (alpha proton : S) (rays : list (@ray S)) :
  cosmic_rays_entry gt09 n m x u alpha proton rays
  = (cosmic_rays n m (map (ray_deposits gt09 alpha proton) (firstn (Z.to_nat (nrays x u)) rays)),
     draws_consumed x (nrays x u)) /\
  ((x < 1)%Qc -> draws_consumed x (nrays x u) = 1 + 5 * nrays x u) /\
  ((1 <= x)%Qc -> draws_consumed x (nrays x u) = 5 * nrays x u).
Proof. split; [reflexivity|]. exact (draws_consumed_spec x (nrays x u)). Qed.
