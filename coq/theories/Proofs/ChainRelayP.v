(* WP-K (two-leg relay): pupil -> image -> pupil with the FORWARD kernel on both legs, as the code does.
   The forward transform applied twice over one full period is the mirror about the origin sample (times the period):
   composition of C01's inverse theorem (Lib/Cis.v: roots-of-unity orthogonality [ke_roots_sum], [idft1c_dft1c]) with
   C02's field rendering (Proofs/PropagateP.v, Proofs/ChainP.v), C09's (Proofs/FftP.v) and C07/C03's plane products.
   No new model code.  Over the complex numbers [CS]. *)
From Coq Require Import Reals Lra QArith Qreals Qcanon.
From Coquelicot Require Import Complex.
From LV Require Import Lib.Cis Model.Tilt Proofs.TiltP Model.Fft Proofs.FftP Proofs.FftDeepP Proofs.DftInvP.
From LV Require Import Model.Segment Proofs.ArrP Proofs.ExtentP Proofs.FieldP Proofs.DftP Proofs.PlaneP
                       Proofs.PropagateP Proofs.SegmentP Proofs.ChainP.
Local Open Scope Z_scope.

(* ================================================================== the forward transform applied twice *)
(* index of the sample whose coordinate (relative to floor(P/2)) is minus the coordinate u', modulo the period P *)
Definition mirror_idx (P u' : Z) : Z := (P / 2 - u') mod P.

(* odd P: every coordinate of the centred period has its mirror partner -u' inside the period;
   even P: so has every coordinate except -P/2 (index 0), whose mirror +P/2 lies outside and wraps onto itself *)
Lemma mirror_idx_spec P u' : 0 < P -> - (P / 2) <= u' <= P - 1 - P / 2 ->
  mirror_idx P u' - P / 2 = (if (P mod 2 =? 0) && (u' =? - (P / 2)) then u' else - u').
Proof.
  intros HP Hu. unfold mirror_idx.
  destruct ((P mod 2 =? 0) && (u' =? - (P / 2))) eqn:E.
  - assert (E1 : P mod 2 = 0) by lia. assert (E2 : u' = - (P / 2)) by lia. subst u'.
    replace (P / 2 - - (P / 2)) with (0 + 1 * P) by lia. rewrite Z.mod_add by lia. rewrite Z.mod_0_l by lia. lia.
  - assert (0 <= P / 2 - u' < P) by lia. rewrite Z.mod_small by assumption. lia.
Qed.

Lemma ke_qz_congr (a b n : Z) : n <> 0 -> (a - b) mod n = 0 -> @ke CS (qz a n) = @ke CS (qz b n).
Proof.
  intros Hn H. assert (E : a = b + ((a - b) / n) * n) by lia. rewrite E at 1.
  rewrite qz_add, qz_mul_n by assumption. rewrite (ke_add CS CS_kernel), CS_ke_Z. exact (Cmult_1_r _).
Qed.

(* the forward centred transform at ANY output index is n times the inverse transform at the mirrored index *)
Lemma dft1c_mirror n c (F : Z -> C) u : 0 < n ->
  dft1c n c c F u = Cmult (RtoC (IZR n)) (idft1c n c c F ((2 * c - u) mod n)).
Proof.
  intros Hn. unfold dft1c, idft1c. set (y := (2 * c - u) mod n).
  assert (E : RtoC (IZR n) <> RtoC 0). { intro E. apply RtoC_inj in E. apply eq_IZR in E. lia. }
  rewrite RtoC_inv by (apply not_0_IZR; lia).
  transitivity (@sumZ CS n (fun x => Cmult (F x) (@ke CS (qz (- ((y - c) * (x - c))) n)))).
  - apply (sumZ_ext CS); intros x _. f_equal. apply ke_qz_congr; [lia|].
    replace ((x - c) * (u - c) - - ((y - c) * (x - c))) with ((x - c) * (y - (2 * c - u))) by ring.
    assert (Hy : (y - (2 * c - u)) mod n = 0).
    { unfold y. rewrite Zminus_mod, Z.mod_mod, Z.sub_diag by lia. apply Z.mod_0_l. lia. }
    rewrite Z.mul_mod, Hy, Z.mul_0_r by lia. apply Z.mod_0_l. lia.
  - set (T := @sumZ CS n _). clearbody T. cbn in T |- *.
    transitivity (Cmult (Cmult (RtoC (IZR n)) (Cinv (RtoC (IZR n)))) T); [|ring].
    rewrite Cinv_r by exact E. ring.
Qed.

(* C01's inverse theorem read for the forward kernel: transforming twice mirrors the samples about the origin *)
Theorem dft1c_twice n c (f : Z -> C) u : 0 < n ->
  dft1c n c c (dft1c n c c f) u = Cmult (RtoC (IZR n)) (f ((2 * c - u) mod n)).
Proof. intros Hn. rewrite dft1c_mirror by assumption. rewrite idft1c_dft1c; [reflexivity|assumption|].
  apply Z.mod_pos_bound. lia. Qed.

Lemma dft1c_scale n cx cu (k : C) (f : Z -> C) u :
  dft1c n cx cu (fun x => Cmult k (f x)) u = Cmult k (dft1c n cx cu f u).
Proof. unfold dft1c. pose proof CS_ring as Rg. change Cmult with (@kmul CS). rewrite <- (sumZ_scale_l CS Rg).
  apply (sumZ_ext CS); intros x _. cbn; ring. Qed.

(* the full-period centred 2-D transform at output indices (i', j') (any integers: coordinates i' - P/2, j' - Q/2) *)
Definition dft_full (g : arr CS) (i' j' : Z) : C :=
  fourier_sum g (/ zq (nr g))%Qc (/ zq (nc g))%Qc 0 0 (zq (i' - nr g / 2) - 0)%Qc (zq (j' - nc g / 2) - 0)%Qc.

Theorem dft_full_twice (g : arr CS) (s : C) i' j' : 0 < nr g -> 0 < nc g ->
  dft_full (@mkArr CS (nr g) (nc g) (fun x y => Cmult s (dft_full g x y))) i' j'
  = Cmult (Cmult s (RtoC (IZR (nr g) * IZR (nc g))))
          (get g ((2 * (nr g / 2) - i') mod nr g) ((2 * (nc g / 2) - j') mod nc g)).
Proof.
  intros HP HQ. unfold dft_full at 1. cbn [nr nc].
  pose proof (fourier_sum_cols (@mkArr CS (nr g) (nc g) (fun x y => Cmult s (dft_full g x y))) i' j') as E.
  cbn [nr nc get] in E. rewrite E by lia. clear E.
  rewrite (dft1c_ext (nc g) _ _ _ (fun y => Cmult (Cmult s (RtoC (IZR (nr g))))
             (dft1c (nc g) (nc g / 2) (nc g / 2) (fun y' => get g ((2 * (nr g / 2) - i') mod nr g) y') y))).
  - rewrite dft1c_scale, dft1c_twice by assumption. rewrite RtoC_mult. ring.
  - intros y _.
    rewrite (dft1c_ext (nr g) _ _ _ (fun x => Cmult s
               (dft1c (nr g) (nr g / 2) (nr g / 2) (fun x' => dft1c (nc g) (nc g / 2) (nc g / 2) (fun y' => get g x' y') y) x))).
    + rewrite dft1c_scale, dft1c_twice by assumption. ring.
    + intros x _. f_equal. unfold dft_full. apply fourier_sum_rows; lia.
Qed.

(* ================================================================== the relay through propagate_dft *)
Section RelayDft.
Variable sq : Qc -> C.

(* the fields an unmasked propagate_dft leaves behind are array fields inside the output array *)
Lemma propagate_fields_in_box shift_of (w w' : wavefront CS) dur duc shape pshape os dxr dxc Sr Sc Pr Pc :
  wptype w <> PtNone -> wps w = Some (dxr, dxc) ->
  (forall f, In f (wdata w) -> exists a, fd f = D2 a) ->
  match shape with None => wshape w | Some s => s end = (Sr, Sc) ->
  match pshape with None => (Sr, Sc) | Some p => p end = (Pr, Pc) ->
  0 < Sr -> 0 < Sc -> 0 < Pr -> 0 < Pc -> 1 <= os -> Sr * os < maxsize -> Sc * os < maxsize ->
  propagate_dft (S := CS) sq shift_of w dur duc shape pshape os None = Ok w' ->
  forall g, In g (wdata w') -> fsized g /\ fbounded CS g /\
    forall r c, inr (Sr * os) (r + (Sr * os) / 2) && inr (Sc * os) (c + (Sc * os) / 2) = false -> embed g r c = RtoC 0.
Proof.
  intros Hpt Hps Hd Hshape Hpshape HSr HSc HPr HPc Hos HbR HbC Hw g Hg.
  destruct (propagate_fields_ok CS CS_ring CS_kernel sq shift_of w w' dur duc shape pshape os None dxr dxc Sr Sc Pr Pc
              (0, Sr * os - 1, 0, Sc * os - 1) Hpt Hps Hd Hshape Hpshape HSr HSc HPr HPc Hos HbR HbC
              ltac:(discriminate) eq_refl Hw g Hg) as [Vg Bg].
  split; [exact Vg|]. split; [exact Bg|].
  set (ar := dft_alpha1 dxr dur (wwl w) (wfocal w) os). set (ac := dft_alpha1 dxc duc (wwl w) (wfocal w) os).
  assert (HRo : 0 < Sr * os) by nia. assert (HCo : 0 < Sc * os) by nia.
  assert (HPro : 0 < Pr * os) by nia. assert (HPco : 0 < Pc * os) by nia.
  set (oe := array_extent (Sr * os) (Sc * os) 0 0).
  assert (Hv : evalid oe) by (apply array_extent_valid; assumption).
  destruct (prop_fields_spec CS CS_ring CS_kernel sq shift_of oe (Pr * os) (Pc * os) ar ac (wdata w) Hv HPro HPco Hd) as (l & Hl & _ & _).
  pose proof (prop_fields_extent CS sq shift_of oe (Pr * os) (Pc * os) (Some (ar, ac)) (wdata w) Hv HPro HPco l Hl) as Xl.
  assert (El : wdata w' = l).
  { unfold propagate_dft in Hw. destruct (wptype w) eqn:Ept; [congruence| |]; cbn [propagate_ptype rbind] in Hw;
      rewrite Hshape, Hpshape in Hw; cbn [out_extent rbind] in Hw; rewrite Hps in Hw; fold ar ac oe in Hw; rewrite Hl in Hw;
      cbn [rbind] in Hw; injection Hw as <-; reflexivity. }
  rewrite El in Hg. intros r c E. apply (embed_outside CS g oe r c (Xl g Hg)).
  unfold oe, inE, array_extent, inb. unfold inr in E. lia.
Qed.

(* the unitary factors of two full-period legs cancel the period: s * s * (Pr Pc) = 1 *)
Lemma unitary_factors_cancel (Pr Pc : Z) : sq_spec sq -> 0 < Pr -> 0 < Pc ->
  Cmult (Cmult (sq (qabs (/ zq Pr * / zq Pc)%Qc)) (sq (qabs (/ zq Pr * / zq Pc)%Qc))) (RtoC (IZR Pr * IZR Pc)) = RtoC 1.
Proof.
  intros Hsq HPr HPc. destruct (unitary_scale_norm2 sq Pr Pc Hsq HPr HPc) as [Hn Hc].
  unfold norm2 in Hn. cbn [kmul kconj CS] in Hn. rewrite Hc in Hn. rewrite Hn, <- RtoC_mult. f_equal.
  assert (0 < IZR Pr)%R by (apply IZR_lt; lia). assert (0 < IZR Pc)%R by (apply IZR_lt; lia).
  apply Rinv_l. apply Rmult_integral_contrapositive_currified; lra.
Qed.

(* Chain_relay: pupil -> image (full period) -> pupil, forward kernel on both legs *)
Theorem relay_dft (w : wavefront CS) dur duc shape1 os1 du2r du2c shape2 pshape2 os2 dxr dxc z
        S1r S1c S2r S2c P2r P2c :
  wptype w = PtPupil -> wps w = Some (dxr, dxc) -> wfocal w = Some z -> z <> 0%Qc ->
  (forall f, In f (wdata w) -> fsized f /\ ftilt f = []) ->
  match shape1 with None => wshape w | Some s => s end = (S1r, S1c) ->
  0 < S1r -> 0 < S1c -> 1 <= os1 -> S1r * os1 < maxsize -> S1c * os1 < maxsize ->
  (forall r c, inr (S1r * os1) (r + (S1r * os1) / 2) && inr (S1c * os1) (c + (S1c * os1) / 2) = false ->
     embed_sum (wdata w) r c = RtoC 0) ->
  ((dxr * dur) / (wwl w * z * zq os1))%Qc = (/ zq (S1r * os1))%Qc ->
  ((dxc * duc) / (wwl w * z * zq os1))%Qc = (/ zq (S1c * os1))%Qc ->
  match shape2 with None => (S1r * os1, S1c * os1) | Some s => s end = (S2r, S2c) ->
  match pshape2 with None => (S2r, S2c) | Some p => p end = (P2r, P2c) ->
  0 < S2r -> 0 < S2c -> 0 < P2r -> 0 < P2c -> 1 <= os2 -> S2r * os2 < maxsize -> S2c * os2 < maxsize ->
  ((dur / zq os1 * du2r) / (wwl w * z * zq os2))%Qc = (/ zq (S1r * os1))%Qc ->
  ((duc / zq os1 * du2c) / (wwl w * z * zq os2))%Qc = (/ zq (S1c * os1))%Qc ->
  let Pr := S1r * os1 in let Pc := S1c * os1 in
  let s := sq (qabs (/ zq Pr * / zq Pc)%Qc) in
  exists w1 w2 o2 oi2,
    propagate_dft (S := CS) sq (@no_shift CS) w dur duc shape1 None os1 None = Ok w1 /\ wptype w1 = PtImage /\
    propagate_dft (S := CS) sq (@no_shift CS) w1 du2r du2c shape2 pshape2 os2 None = Ok w2 /\ wptype w2 = PtPupil /\
    wfield w2 = Ok o2 /\ wintensity w2 = Ok oi2 /\
    nr o2 = S2r * os2 /\ nc o2 = S2c * os2 /\ nr oi2 = S2r * os2 /\ nc oi2 = S2c * os2 /\
    forall i j, 0 <= i < S2r * os2 -> 0 <= j < S2c * os2 ->
      let u' := i - (S2r * os2) / 2 in let v' := j - (S2c * os2) / 2 in
      get o2 i j =
        (if inE (array_extent (P2r * os2) (P2c * os2) 0 0) u' v'
         then Cmult (Cmult (Cmult s s) (RtoC (IZR Pr * IZR Pc)))
                    (embed_sum (wdata w) (mirror_idx Pr u' - Pr / 2) (mirror_idx Pc v' - Pc / 2))
         else RtoC 0) /\
      (sq_spec sq -> get o2 i j =
        (if inE (array_extent (P2r * os2) (P2c * os2) 0 0) u' v'
         then embed_sum (wdata w) (mirror_idx Pr u' - Pr / 2) (mirror_idx Pc v' - Pc / 2) else RtoC 0)) /\
      get oi2 i j = @norm2 CS (get o2 i j).
Proof.
  intros Hpt Hps Hfo Hz Hd Hshape1 HS1r HS1c Hos1 HbR1 HbC1 Hsup Ear Eac Hshape2 Hpshape2 HS2r HS2c HP2r HP2c Hos2 HbR2 HbC2
         Ear2 Eac2 Pr Pc s.
  assert (HPr : 0 < Pr) by (unfold Pr; nia). assert (HPc : 0 < Pc) by (unfold Pc; nia).
  assert (Hmk : forall k, @None bmask = Some k -> mnr k = Pr /\ mnc k = Pc) by discriminate.
  (* ---- leg 1 ---- *)
  assert (Hd1 : forall f, In f (wdata w) -> @no_shift CS f = (0%Qc, 0%Qc) /\ sized CS f).
  { intros f Hf. split; [reflexivity|]. apply fsized_sized, (Hd f Hf). }
  destruct (propagate_plane_samples CS CS_ring CS_kernel sq (@no_shift CS) w dur duc shape1 None os1 None dxr dxc
              S1r S1c S1r S1c (0, Pr - 1, 0, Pc - 1) Pr Pc 0%Qc 0%Qc ltac:(rewrite Hpt; discriminate) Hps Hd1 HPr HPc Hsup
              Hshape1 eq_refl HS1r HS1c HS1r HS1c Hos1 Hmk eq_refl) as (w1 & o1 & E1 & Sh1 & Fo1 & N1 & M1 & G1).
  fold Pr Pc in Sh1, N1, M1, G1.
  destruct (propagate_metadata CS sq (@no_shift CS) w w1 dur duc shape1 None os1 None E1) as (L1 & _ & Ps1 & Pt1 & _).
  pose proof (propagate_focal_copied CS sq (@no_shift CS) w w1 dur duc shape1 None os1 None z E1 Hfo Hz) as Fz1.
  assert (Pt1' : wptype w1 = PtImage) by (destruct Pt1 as [[_ ?]|[? _]]; [assumption|congruence]).
  assert (Hd1' : forall f, In f (wdata w) -> exists a, fd f = D2 a).
  { intros f Hf. destruct (Hd1 f Hf) as [_ (a & Ea & _)]. now exists a. }
  pose proof (propagate_fields_in_box (@no_shift CS) w w1 dur duc shape1 None os1 dxr dxc S1r S1c S1r S1c
                ltac:(rewrite Hpt; discriminate) Hps Hd1' Hshape1 eq_refl HS1r HS1c HS1r HS1c Hos1 HbR1 HbC1 E1) as Hbox.
  fold Pr Pc in Hbox.
  set (G := @mkArr CS Pr Pc (fun x y => embed_sum (wdata w) (x - Pr / 2) (y - Pc / 2))).
  assert (Go1 : forall x y, 0 <= x < Pr -> 0 <= y < Pc -> get o1 x y = Cmult s (dft_full G x y)).
  { intros x y Hx Hy. rewrite (G1 x y Hx Hy). cbv zeta. rewrite Hfo. cbn [dft_alpha1]. rewrite Ear, Eac. fold Pr Pc.
    replace (inE (0, Pr - 1, 0, Pc - 1) x y) with true by (unfold inE, inb; lia).
    rewrite qfix_0.
    replace (inE (array_extent Pr Pc 0 0) (x - Pr / 2) (y - Pc / 2)) with true by (unfold inE, inb, array_extent; lia).
    cbn [andb]. unfold dft_full, G. cbn [nr nc]. fold s. cbn; ring. }
  destruct (PlaneP.render_spec CS CS_ring (wdata w1) Pr Pc HPr HPc (fun g Hg => proj1 (Hbox g Hg))) as (fa & Efa & _ & _ & Gfa).
  assert (Efo : fa = o1).
  { unfold wfield in Fo1. rewrite Sh1 in Fo1. cbn [fst snd] in Fo1. rewrite Efa in Fo1. now injection Fo1. }
  subst fa.
  (* ---- leg 2 ---- *)
  assert (Hd2 : forall f, In f (wdata w1) -> @no_shift CS f = (0%Qc, 0%Qc) /\ sized CS f).
  { intros f Hf. split; [reflexivity|]. apply fsized_sized, (Hbox f Hf). }
  assert (Hsup2 : forall r c, inr Pr (r + Pr / 2) && inr Pc (c + Pc / 2) = false -> embed_sum (wdata w1) r c = RtoC 0).
  { intros r c E. unfold embed_sum. apply (embed_sum_zero CS CS_ring). intros f Hf. now apply (Hbox f Hf). }
  assert (Hshape2' : match shape2 with None => wshape w1 | Some s0 => s0 end = (S2r, S2c)) by (rewrite Sh1; exact Hshape2).
  assert (Hmk2 : forall k, @None bmask = Some k -> mnr k = S2r * os2 /\ mnc k = S2c * os2) by discriminate.
  destruct (propagate_plane_samples CS CS_ring CS_kernel sq (@no_shift CS) w1 du2r du2c shape2 pshape2 os2 None
              (dur / zq os1)%Qc (duc / zq os1)%Qc S2r S2c P2r P2c (0, S2r * os2 - 1, 0, S2c * os2 - 1) Pr Pc 0%Qc 0%Qc
              ltac:(rewrite Pt1'; discriminate) Ps1 Hd2 HPr HPc Hsup2 Hshape2' Hpshape2 HS2r HS2c HP2r HP2c Hos2 Hmk2 eq_refl)
    as (w2 & o2 & E2 & Sh2 & Fo2 & N2 & M2 & G2).
  assert (Hd2' : forall f, In f (wdata w1) -> exists a, fd f = D2 a).
  { intros f Hf. destruct (Hd2 f Hf) as [_ (a & Ea & _)]. now exists a. }
  destruct (propagate_dft_intensity CS CS_ring CS_kernel sq (@no_shift CS) w1 du2r du2c shape2 pshape2 os2 None
              (dur / zq os1)%Qc (duc / zq os1)%Qc S2r S2c P2r P2c (0, S2r * os2 - 1, 0, S2c * os2 - 1)
              ltac:(rewrite Pt1'; discriminate) Ps1 Hd2' Hshape2' Hpshape2 HS2r HS2c HP2r HP2c Hos2 HbR2 HbC2 Hmk2 eq_refl)
    as (w2' & o2' & oi2 & E2' & Fo2' & Foi2 & Ni2 & Mi2 & Gi2).
  rewrite E2 in E2'. injection E2' as Ew. subst w2'. rewrite Fo2 in Fo2'. injection Fo2' as Eo. subst o2'.
  destruct (propagate_metadata CS sq (@no_shift CS) w1 w2 du2r du2c shape2 pshape2 os2 None E2) as (_ & _ & _ & Pt2 & _).
  assert (Pt2' : wptype w2 = PtPupil) by (destruct Pt2 as [[? _]|[_ ?]]; [congruence|assumption]).
  exists w1, w2, o2, oi2. repeat (split; [assumption|]).
  intros i j Hi Hj. cbv zeta.
  assert (Main : get o2 i j =
        (if inE (array_extent (P2r * os2) (P2c * os2) 0 0) (i - S2r * os2 / 2) (j - S2c * os2 / 2)
         then Cmult (Cmult (Cmult s s) (RtoC (IZR Pr * IZR Pc)))
                    (embed_sum (wdata w) (mirror_idx Pr (i - S2r * os2 / 2) - Pr / 2) (mirror_idx Pc (j - S2c * os2 / 2) - Pc / 2))
         else RtoC 0)).
  { rewrite (G2 i j Hi Hj). cbv zeta. rewrite L1, Fz1. cbn [dft_alpha1]. rewrite Ear2, Eac2. fold Pr Pc s.
    replace (inE (0, S2r * os2 - 1, 0, S2c * os2 - 1) i j) with true by (unfold inE, inb; lia).
    rewrite qfix_0. cbn [andb]. destr_if; [|reflexivity].
    set (u' := i - S2r * os2 / 2). set (v' := j - S2c * os2 / 2).
    rewrite (fourier_sum_ext CS _ (@mkArr CS Pr Pc (fun x y => Cmult s (dft_full G x y))))
      by (try reflexivity; cbn [nr nc get]; intros x y Hx Hy; rewrite <- Gfa by assumption; now apply Go1).
    pose proof (dft_full_twice G s (u' + Pr / 2) (v' + Pc / 2) HPr HPc) as T. unfold dft_full at 1 in T. change (nr G) with Pr in T. change (nc G) with Pc in T. cbn [nr nc] in T.
    replace (u' + Pr / 2 - Pr / 2) with u' in T by lia. replace (v' + Pc / 2 - Pc / 2) with v' in T by lia.
    change (@kmul CS (fourier_sum (@mkArr CS Pr Pc (fun x y => Cmult s (dft_full G x y))) (/ zq Pr)%Qc (/ zq Pc)%Qc 0 0
                         (zq u' - 0)%Qc (zq v' - 0)%Qc) s = Cmult (Cmult (Cmult s s) (RtoC (IZR Pr * IZR Pc)))
                    (embed_sum (wdata w) (mirror_idx Pr u' - Pr / 2) (mirror_idx Pc v' - Pc / 2))).
    rewrite T. unfold G, mirror_idx. cbn [nr nc get kmul CS].
    replace (2 * (Pr / 2) - (u' + Pr / 2)) with (Pr / 2 - u') by lia.
    replace (2 * (Pc / 2) - (v' + Pc / 2)) with (Pc / 2 - v') by lia.
    set (X := embed_sum _ _ _).
    change (Cmult (Cmult (Cmult s (RtoC (IZR Pr * IZR Pc))) (X : C)) s = Cmult (Cmult (Cmult s s) (RtoC (IZR Pr * IZR Pc))) (X : C)).
    ring. }
  split; [exact Main|]. split; [|now apply Gi2].
  intros Hsq. rewrite Main. destr_if; [|reflexivity]. unfold s. rewrite (unitary_factors_cancel Pr Pc Hsq HPr HPc). apply Cmult_1_l.
Qed.
End RelayDft.

(* ================================================================== the relay of a (segmented) pupil *)
Section RelayPupil.
Variable sq : Qc -> C.

(* Chain_relay_segmented (C03 o C07 o C02 o C01): a fresh plane wave through a pupil given by ANY number of pairwise
   disjoint segment masks (or one mask), leg 1 to the image plane (one propagated field per segment), leg 2 back: the
   re-imaged field is the mirrored SUM of the segment fields = the mirrored monolithic pupil function, and the intensity
   its squared modulus - the segments add coherently *)
Theorem relay_pupil (P : plane CS) lam pix foc z dur duc shape1 os1 du2r du2c shape2 pshape2 os2 dxr dxc n m
        S1r S1c S2r S2c P2r P2c :
  plane_ok P n m -> pl_tilt P = [] -> disjoint_masks (masks_of (pl_mask P)) -> 0 < n -> 0 < m ->
  mul_pixelscale (pl_pix P) (pix_broadcast pix) = Ok (Some (dxr, dxc)) -> pl_focal P = Some (FVal z) -> z <> 0%Qc ->
  match shape1 with None => (n, m) | Some s => s end = (S1r, S1c) ->
  0 < S1r -> 0 < S1c -> 1 <= os1 -> S1r * os1 < maxsize -> S1c * os1 < maxsize ->
  n <= S1r * os1 -> m <= S1c * os1 ->
  ((dxr * dur) / (lam * z * zq os1))%Qc = (/ zq (S1r * os1))%Qc ->
  ((dxc * duc) / (lam * z * zq os1))%Qc = (/ zq (S1c * os1))%Qc ->
  match shape2 with None => (S1r * os1, S1c * os1) | Some s => s end = (S2r, S2c) ->
  match pshape2 with None => (S2r, S2c) | Some p => p end = (P2r, P2c) ->
  0 < S2r -> 0 < S2c -> 0 < P2r -> 0 < P2c -> 1 <= os2 -> S2r * os2 < maxsize -> S2c * os2 < maxsize ->
  ((dur / zq os1 * du2r) / (lam * z * zq os2))%Qc = (/ zq (S1r * os1))%Qc ->
  ((duc / zq os1 * du2c) / (lam * z * zq os2))%Qc = (/ zq (S1c * os1))%Qc ->
  sq_spec sq ->
  let w0 := pwf_init (S := CS) lam pix foc [] in
  let Pr := S1r * os1 in let Pc := S1c * os1 in
  let T := fun r c : Z =>
    if existsb (fun a => mask_at a (r + n / 2) (c + m / 2)) (masks_of (pl_mask P))
    then Cmult (amp_at (pl_amp P) (r + n / 2) (c + m / 2)) (@ke CS (- (opd_at (pl_opd P) (r + n / 2) (c + m / 2) / lam))%Qc)
    else RtoC 0 in
  exists w1p v1 v2 o2 oi2,
    plane_multiply P w0 = Ok w1p /\ (forall r c, embed_sum (pw_data w1p) r c = T r c) /\
    chain_propagate (S := CS) sq [P] w0 dur duc shape1 None os1 = Ok v1 /\ wptype v1 = PtImage /\
    propagate_dft (S := CS) sq (@no_shift CS) v1 du2r du2c shape2 pshape2 os2 None = Ok v2 /\ wptype v2 = PtPupil /\
    wfield v2 = Ok o2 /\ wintensity v2 = Ok oi2 /\
    nr o2 = S2r * os2 /\ nc o2 = S2c * os2 /\ nr oi2 = S2r * os2 /\ nc oi2 = S2c * os2 /\
    forall i j, 0 <= i < S2r * os2 -> 0 <= j < S2c * os2 ->
      let u' := i - (S2r * os2) / 2 in let v' := j - (S2c * os2) / 2 in
      get o2 i j = (if inE (array_extent (P2r * os2) (P2c * os2) 0 0) u' v'
                    then T (mirror_idx Pr u' - Pr / 2) (mirror_idx Pc v' - Pc / 2) else RtoC 0) /\
      get oi2 i j = @norm2 CS (get o2 i j).
Proof.
  intros Hok HtP Hdis Hn Hm Hpx Hfo Hz Hshape1 HS1r HS1c Hos1 HbR1 HbC1 Hfr Hfc Ear Eac Hshape2 Hpshape2
         HS2r HS2c HP2r HP2c Hos2 HbR2 HbC2 Ear2 Eac2 Hsq w0 Pr Pc T.
  destruct (plane_multiply_spec CS CS_ring P w0 n m (Some (dxr, dxc)) Hok (fresh_valid CS lam pix foc []) Hpx)
    as (w1p & E1 & L1 & P1 & S1 & F1 & Z1 & G1).
  rewrite Hfo in F1. change (pw_lam w0) with lam in L1, G1.
  assert (GT : forall r c, embed_sum (pw_data w1p) r c = T r c).
  { intros r c. rewrite G1. unfold w0. rewrite (ec_sum_fresh CS CS_ring).
    rewrite (transmission_inside_outside CS CS_ring P lam n m r c Hdis). unfold T, Plane.phase. destr_if; cbn; ring. }
  assert (T1 : forall f, In f (pw_data w1p) -> fsized f /\ ftilt f = []).
  { intros f Hf. split; [now apply Z1|].
    destruct (plane_multiply_untilted CS P w0 w1p HtP E1 f Hf) as (g0 & [<-|[]] & ->). reflexivity. }
  set (w := mkWf lam (Some (dxr, dxc)) (Some z) (n, m) PtPupil (pw_data w1p)).
  assert (Ew : to_wavefront w1p PtPupil = Ok w).
  { rewrite (to_wavefront_ok CS w1p n m PtPupil S1) by (rewrite F1; discriminate). rewrite F1, L1, P1. reflexivity. }
  assert (Hsup : forall r c, inr (S1r * os1) (r + (S1r * os1) / 2) && inr (S1c * os1) (c + (S1c * os1) / 2) = false ->
     embed_sum (wdata w) r c = RtoC 0).
  { intros r c E. cbn [wdata w]. rewrite G1.
    rewrite (transmission_outside CS CS_ring P lam n m r c (ok_layers CS P n m Hok)); [cbn; ring|].
    unfold inr in *. lia. }
  destruct (relay_dft sq w dur duc shape1 os1 du2r du2c shape2 pshape2 os2 dxr dxc z S1r S1c S2r S2c P2r P2c
              eq_refl eq_refl eq_refl Hz T1 Hshape1 HS1r HS1c Hos1 HbR1 HbC1 Hsup Ear Eac Hshape2 Hpshape2
              HS2r HS2c HP2r HP2c Hos2 HbR2 HbC2 Ear2 Eac2)
    as (v1 & v2 & o2 & oi2 & Ev1 & Pt1 & Ev2 & Pt2 & Fo2 & Foi2 & N2 & M2 & Ni2 & Mi2 & G).
  exists w1p, v1, v2, o2, oi2. split; [exact E1|]. split; [exact GT|]. split.
  { unfold chain_propagate. cbn [chain_multiply]. fold w0. rewrite E1. cbn [rbind]. rewrite Ew. cbn [rbind]. exact Ev1. }
  repeat (split; [assumption|]).
  intros i j Hi Hj. destruct (G i j Hi Hj) as (_ & Gs & Gi). split; [|exact Gi].
  rewrite (Gs Hsq). cbv zeta. cbn [wdata w]. destr_if; [|reflexivity]. apply GT.
Qed.
End RelayPupil.

(* ================================================================== the relay through propagate_fft *)
Section RelayFft.
Variable sq : Qc -> C.

Lemma CS_periodic : periodic CS.
Proof. intros k. exact (CS_ke_Z k). Qed.

(* what leg 1 of the FFT path leaves behind when no shape is requested: ONE array field, the whole N0 x N1 grid *)
Lemma fft_leg_structure N0 N1 (w : Fft.wavefront CS) du os scratch pt :
  0 < N0 -> 0 < N1 -> Fft.has_tilt w = false -> Fft.propagate_ptype (Fft.wpt w) = Ok pt ->
  (forall f, In f (Fft.wdata w) -> fgood CS f) -> scratch_ok CS N0 N1 w scratch ->
  exists F sc, propagate_fft_N (S := CS) sq N0 N1 w du None os scratch
               = Ok (Fft.mkWf [mkField (D2 F) 0 0 []] (N0, N1) (prop_wavelength N0 N1 (Fft.wpix w) du (Fft.wz w) os)
                              (fst du / zq os, snd du / zq os)%Qc (Fft.wz w) pt, sc) /\
    nr F = N0 /\ nc F = N1 /\
    forall a b, 0 <= a < N0 -> 0 <= b < N1 ->
      get F a b = Cmult (@ortho_scale CS sq N0 N1)
                    (dft_full (@mkArr CS N0 N1 (fun x y => embed_sum (Fft.wdata w) (x - N0 / 2) (y - N1 / 2))) a b).
Proof.
  intros H0 H1 Ht Hpt Hg Hsc.
  destruct (propagate_fft_N_full_grid CS CS_ring CS_kernel CS_periodic sq N0 N1 w du os scratch pt H0 H1 Ht Hpt Hg Hsc)
    as (F & sc & E & S1 & S2 & V).
  exists F, sc. split; [exact E|].
  split; [exact S1|]. split; [exact S2|]. intros a b Ha Hb. rewrite (V a b Ha Hb).
  unfold dft_full, grid_of. cbn [nr nc kmul CS].
  replace (zq (a - N0 / 2) - 0)%Qc with (zq (a - N0 / 2)) by ring.
  replace (zq (b - N1 / 2) - 0)%Qc with (zq (b - N1 / 2)) by ring. apply Cmult_comm.
Qed.

(* norm='ortho' twice over an N0 x N1 grid cancels the grid size *)
Lemma ortho_factors_cancel N0 N1 : sq_spec sq -> 0 < N0 -> 0 < N1 ->
  Cmult (Cmult (@ortho_scale CS sq N0 N1) (@ortho_scale CS sq N0 N1)) (RtoC (IZR N0 * IZR N1)) = RtoC 1.
Proof.
  intros Hsq H0 H1. pose proof (unitary_factors_cancel sq N0 N1 Hsq H0 H1) as E.
  pose proof (ortho_is_unitary_scale CS sq N0 N1 H0 H1) as U. unfold unitary_scale in U. now rewrite U.
Qed.

(* Chain_relay_fft: pupil -> image -> pupil through propagate_fft on the same N0 x N1 grid, forward FFT on both legs *)
Theorem relay_fft (w : Fft.wavefront CS) N0 N1 du os1 scratch1 du2 s0 s1 os2 scratch2 :
  0 < N0 -> 0 < N1 -> 0 < os2 -> Fft.has_tilt w = false -> Fft.wpt w = PPupil ->
  (forall f, In f (Fft.wdata w) -> fgood CS f) -> scratch_ok CS N0 N1 w scratch1 ->
  0 < s0 -> 0 < s1 -> s0 * os2 <= N0 -> s1 * os2 <= N1 ->
  match scratch2 with Some buf => N0 <= nr buf /\ N1 <= nc buf | None => True end ->
  exists out1 sc1 out2 sc2 o2,
    propagate_fft_N (S := CS) sq N0 N1 w du None os1 scratch1 = Ok (out1, sc1) /\ Fft.wpt out1 = PImage /\
    Fft.wshape out1 = (N0, N1) /\
    propagate_fft_N (S := CS) sq N0 N1 out1 du2 (Some (s0, s1)) os2 scratch2 = Ok (out2, sc2) /\ Fft.wpt out2 = PPupil /\
    Fft.wfield out2 = Ok o2 /\ nr o2 = s0 * os2 /\ nc o2 = s1 * os2 /\
    forall i j, 0 <= i < s0 * os2 -> 0 <= j < s1 * os2 ->
      let u' := i - (s0 * os2) / 2 in let v' := j - (s1 * os2) / 2 in
      get o2 i j = Cmult (Cmult (Cmult (@ortho_scale CS sq N0 N1) (@ortho_scale CS sq N0 N1)) (RtoC (IZR N0 * IZR N1)))
                         (embed_sum (Fft.wdata w) (mirror_idx N0 u' - N0 / 2) (mirror_idx N1 v' - N1 / 2)) /\
      (sq_spec sq -> get o2 i j = embed_sum (Fft.wdata w) (mirror_idx N0 u' - N0 / 2) (mirror_idx N1 v' - N1 / 2)).
Proof.
  intros H0 H1 Hos2 Ht Hpt Hg Hsc1 Hs0 Hs1 Hf0 Hf1 Hsc2.
  assert (Ept : Fft.propagate_ptype (Fft.wpt w) = Ok PImage) by (rewrite Hpt; reflexivity).
  destruct (fft_leg_structure N0 N1 w du os1 scratch1 PImage H0 H1 Ht Ept Hg Hsc1) as (F & sc1 & E1 & S1 & S2 & V).
  set (out1 := Fft.mkWf [mkField (D2 F) 0 0 []] (N0, N1) (prop_wavelength N0 N1 (Fft.wpix w) du (Fft.wz w) os1)
                        (fst du / zq os1, snd du / zq os1)%Qc (Fft.wz w) PImage) in *.
  set (G := @mkArr CS N0 N1 (fun x y => embed_sum (Fft.wdata w) (x - N0 / 2) (y - N1 / 2))) in *.
  assert (Hg1 : forall f, In f (Fft.wdata out1) -> fgood CS f).
  { intros f [<-|[]]. unfold fgood. cbn [fd]. lia. }
  assert (Hemb : forall r c, embed (mkField (D2 F) 0 0 []) r c = embedA CS F 0 0 r c) by (intros; apply embed_D2).
  assert (Hsc2' : scratch_ok CS N0 N1 out1 scratch2).
  { destruct scratch2 as [buf|]; [exact Hsc2|]. cbn [scratch_ok Fft.wshape out1 fst snd]. split; [lia|]. split; [lia|].
    intros f r c [<-|[]] E. rewrite Hemb. unfold embedA. rewrite S1, S2.
    replace (r - 0 + N0 / 2) with (r + N0 / 2) by ring. replace (c - 0 + N1 / 2) with (c + N1 / 2) by ring.
    cbn [Fft.wshape out1 fst snd] in E. rewrite E. reflexivity. }
  destruct (propagate_fft_samples CS CS_ring CS_kernel CS_periodic sq N0 N1 out1 du2 (Some (s0, s1)) os2 scratch2 PPupil
              H0 H1 Hos2 eq_refl eq_refl Hg1 ltac:(cbn [accepted_shape fst snd]; lia) Hsc2')
    as (out2 & sc2 & E2 & _ & _ & Pt2 & _ & o2 & Fo2 & N2 & M2 & G2).
  cbn [shape_out fst snd] in N2, M2.
  exists out1, sc1, out2, sc2, o2. split; [exact E1|]. split; [reflexivity|]. split; [reflexivity|].
  split; [exact E2|]. split; [exact Pt2|]. split; [exact Fo2|]. split; [exact N2|]. split; [exact M2|].
  intros i j Hi Hj. cbv zeta.
  assert (Main : get o2 i j = Cmult (Cmult (Cmult (@ortho_scale CS sq N0 N1) (@ortho_scale CS sq N0 N1)) (RtoC (IZR N0 * IZR N1)))
     (embed_sum (Fft.wdata w) (mirror_idx N0 (i - s0 * os2 / 2) - N0 / 2) (mirror_idx N1 (j - s1 * os2 / 2) - N1 / 2))).
  { rewrite G2 by lia. rewrite N2, M2. set (u' := i - s0 * os2 / 2). set (v' := j - s1 * os2 / 2).
    rewrite (fourier_sum_ext CS _ (@mkArr CS N0 N1 (fun x y => Cmult (@ortho_scale CS sq N0 N1) (dft_full G x y)))).
    2: reflexivity. 2: reflexivity.
    2:{ cbn [grid_of nr nc get Fft.wdata out1]. intros x y Hx Hy. rewrite embed_sum_esum. unfold esum. cbn [fold_left].
        rewrite Hemb. unfold embedA. rewrite S1, S2.
        replace (x - N0 / 2 - 0 + N0 / 2) with x by ring. replace (y - N1 / 2 - 0 + N1 / 2) with y by ring.
        replace (inr N0 x) with true by (unfold inr; lia). replace (inr N1 y) with true by (unfold inr; lia). cbn [andb].
        rewrite (V x y Hx Hy). cbn; ring. }
    pose proof (dft_full_twice G (@ortho_scale CS sq N0 N1) (u' + N0 / 2) (v' + N1 / 2) H0 H1) as T.
    unfold dft_full at 1 in T. change (nr G) with N0 in T. change (nc G) with N1 in T. cbn [nr nc] in T.
    replace (u' + N0 / 2 - N0 / 2) with u' in T by lia. replace (v' + N1 / 2 - N1 / 2) with v' in T by lia.
    replace (zq u' - 0)%Qc with (zq u') in T by ring. replace (zq v' - 0)%Qc with (zq v') in T by ring.
    cbn [grid_of nr nc].
    change (@kmul CS (fourier_sum (@mkArr CS N0 N1 (fun x y => Cmult (@ortho_scale CS sq N0 N1) (dft_full G x y)))
                        (/ zq N0)%Qc (/ zq N1)%Qc 0 0 (zq u') (zq v')) (@ortho_scale CS sq N0 N1)
            = Cmult (Cmult (Cmult (@ortho_scale CS sq N0 N1) (@ortho_scale CS sq N0 N1)) (RtoC (IZR N0 * IZR N1)))
                    (embed_sum (Fft.wdata w) (mirror_idx N0 u' - N0 / 2) (mirror_idx N1 v' - N1 / 2))).
    rewrite T. unfold G, mirror_idx. cbn [nr nc get kmul CS].
    replace (2 * (N0 / 2) - (u' + N0 / 2)) with (N0 / 2 - u') by lia.
    replace (2 * (N1 / 2) - (v' + N1 / 2)) with (N1 / 2 - v') by lia.
    set (X := embed_sum _ _ _). set (o := @ortho_scale CS sq N0 N1).
    change (Cmult (Cmult (Cmult o (RtoC (IZR N0 * IZR N1))) (X : C)) o = Cmult (Cmult (Cmult o o) (RtoC (IZR N0 * IZR N1))) (X : C)).
    ring. }
  split; [exact Main|]. intros Hsq. rewrite Main, (ortho_factors_cancel N0 N1 Hsq H0 H1). apply Cmult_1_l.
Qed.
End RelayFft.
