(* Lemmas about Model/Zernike.v: Noll's ordering (closed form, bijection, link to the code's
   list-building, float = exact on a bounded range), the radial polynomials (bounded checks in
   exact arithmetic), the mode's factorisation and mask laws, zernike_coordinates. *)
From LV Require Import Model.Zernike.

(* ------------------------------------------------------------------------------------------ *)
(** * Triangular numbers and the row of a Noll index *)

Lemma tri_double n : 2 * tri n = n * (n + 1).
Proof. unfold tri. assert (H : (n * (n + 1)) mod 2 = 0).
  { destruct (Z.Even_or_Odd n) as [[k ->]|[k ->]].
    - replace (2 * k * (2 * k + 1)) with (k * (2 * k + 1) * 2) by ring. apply Z.mod_mul; lia.
    - replace ((2 * k + 1) * (2 * k + 1 + 1)) with ((2 * k + 1) * (k + 1) * 2) by ring. apply Z.mod_mul; lia. }
  pose proof (Z.div_mod (n * (n + 1)) 2 ltac:(lia)). lia. Qed.
Lemma tri_succ n : tri (n + 1) = tri n + n + 1.
Proof. pose proof (tri_double n). pose proof (tri_double (n+1)). nia. Qed.

Lemma row_spec j : 1 <= j -> 0 <= row_exact j /\ tri (row_exact j) < j <= tri (row_exact j + 1).
Proof.
  intros Hj. unfold row_exact. set (s := Z.sqrt (8 * j + 1)).
  assert (Hs : s * s <= 8 * j + 1 < (s + 1) * (s + 1)) by (apply Z.sqrt_spec; lia).
  assert (Hs3 : 3 <= s) by nia.
  set (n := (s - 1) / 2).
  assert (Hn : 2 * n <= s - 1 <= 2 * n + 1) by (subst n; lia).
  pose proof (tri_double n) as T0. pose proof (tri_double (n + 1)) as T1. pose proof (tri_double (n - 1)) as Tm.
  destruct (Z.eqb_spec (tri n) j) as [E|E].
  - replace (n - 1 + 1) with n by ring. split; [nia|]. split; [nia|lia].
  - split; [nia|]. split; nia.
Qed.
Lemma row_unique j n : 0 <= n -> tri n < j <= tri (n + 1) -> 1 <= j -> row_exact j = n.
Proof.
  intros Hn Hb Hj. destruct (row_spec j Hj) as [H0 H1].
  pose proof (tri_double n). pose proof (tri_double (n+1)).
  pose proof (tri_double (row_exact j)). pose proof (tri_double (row_exact j + 1)).
  assert (~ row_exact j < n) by nia. assert (~ n < row_exact j) by nia. lia.
Qed.
(* the exact row is the real-number expression of the source: row + 1 = ceil((-1 + sqrt(1+8j))/2),
   i.e. row + 1 is the least integer c >= 0 with (2c+1)^2 >= 1 + 8j *)
Lemma row_exact_is_ceil j c : 1 <= j -> 0 <= c ->
  (1 + 8 * j <= (2 * c + 1) * (2 * c + 1) <-> row_exact j + 1 <= c).
Proof.
  intros Hj Hc. destruct (row_spec j Hj) as [H0 [H1 H2]].
  pose proof (tri_double (row_exact j)). pose proof (tri_double (row_exact j + 1)). pose proof (tri_double c).
  set (n := row_exact j) in *. split; intros Hc2.
  - assert (~ c <= n) by nia. lia.
  - nia.
Qed.
Lemma row_mono j1 j2 : 1 <= j1 -> j1 <= j2 -> row_exact j1 <= row_exact j2.
Proof.
  intros H1 H2. destruct (row_spec j1 H1) as [A0 A1]. destruct (row_spec j2 ltac:(lia)) as [B0 B1].
  pose proof (tri_double (row_exact j1)). pose proof (tri_double (row_exact j2 + 1)).
  assert (~ row_exact j2 + 1 <= row_exact j1) by nia. lia.
Qed.

(* ------------------------------------------------------------------------------------------ *)
(** * The closed form is Noll's ordering: well-formed, injective, surjective, ordered *)

Theorem noll_wf j : 1 <= j -> let '(m, n) := noll j in
  0 <= n /\ Z.abs m <= n /\ Z.even (n - Z.abs m) = true /\ (0 < m -> Z.even j = true) /\ (m < 0 -> Z.odd j = true).
Proof.
  intros Hj. unfold noll. destruct (row_spec j Hj) as [H0 H1]. rewrite tri_succ in H1.
  set (n := row_exact j) in *. set (p := j - tri n - 1).
  assert (Hp : 0 <= p <= n) by (subst p; lia).
  unfold am. rewrite <- Z.negb_even.
  destruct (Z.eqb_spec n 0) as [E|E]; destruct (Z.even n) eqn:En; destruct (Z.even j) eqn:Ej; cbn [negb];
  rewrite ?Z.abs_opp; repeat split; try lia;
  try (apply Z.even_spec in En || (rewrite <- Z.negb_odd in En; apply negb_false_iff, Z.odd_spec in En); destruct En as [k Hk]);
  try (rewrite Z.abs_eq by lia); try lia.
  all: try (apply Z.even_spec; exists (k - (p+1)/2); lia).
  all: try (apply Z.even_spec; exists (k - p/2); lia).
Qed.

Theorem noll_inj j1 j2 : 1 <= j1 -> 1 <= j2 -> noll j1 = noll j2 -> j1 = j2.
Proof.
  intros H1 H2 E. unfold noll in E. injection E as Em En.
  destruct (row_spec j1 H1) as [A0 A1]. destruct (row_spec j2 H2) as [B0 B1]. rewrite tri_succ in A1, B1.
  rewrite <- En in *. set (n := row_exact j1) in *.
  set (p1 := j1 - tri n - 1) in *. set (p2 := j2 - tri n - 1) in *.
  assert (j1 - j2 = p1 - p2) by (subst p1 p2; lia).
  unfold am in Em. rewrite <- !Z.negb_even in Em.
  destruct (Z.eqb_spec n 0) as [E0|E0].
  - lia.
  - destruct (Z.even n) eqn:En'; destruct (Z.even j1) eqn:Ej1; destruct (Z.even j2) eqn:Ej2; cbn [negb] in Em;
    try (apply Z.even_spec in Ej1; destruct Ej1 as [a1 Ha1]);
    try (apply Z.even_spec in Ej2; destruct Ej2 as [a2 Ha2]);
    try (rewrite <- Z.negb_odd in Ej1; apply negb_false_iff, Z.odd_spec in Ej1; destruct Ej1 as [a1 Ha1]);
    try (rewrite <- Z.negb_odd in Ej2; apply negb_false_iff, Z.odd_spec in Ej2; destruct Ej2 as [a2 Ha2]);
    lia.
Qed.

Lemma even_ex z : Z.even z = true -> exists k, z = 2 * k.
Proof. intros H. apply Z.even_spec in H. exact H. Qed.
Lemma odd_ex z : Z.even z = false -> exists k, z = 2 * k + 1.
Proof. intros H. rewrite <- Z.negb_odd in H. apply negb_false_iff, Z.odd_spec in H. exact H. Qed.

(* position p of row n carries |m| = am n p *)
Lemma noll_at n p : 0 <= n -> 0 <= p <= n ->
  noll (tri n + 1 + p) =
  ((if Z.odd (tri n + 1 + p) then - (if n =? 0 then 0 else am n p) else (if n =? 0 then 0 else am n p)), n).
Proof.
  intros Hn Hp. unfold noll.
  assert (T : 0 <= tri n) by (pose proof (tri_double n); nia).
  rewrite (row_unique (tri n + 1 + p) n) by (rewrite ?tri_succ; lia).
  replace (tri n + 1 + p - tri n - 1) with p by ring. reflexivity.
Qed.

Theorem noll_surj m n : 0 <= n -> Z.abs m <= n -> Z.even (n - Z.abs m) = true ->
  exists j, 1 <= j /\ noll j = (m, n).
Proof.
  intros Hn Ha He.
  assert (T : 0 <= tri n) by (pose proof (tri_double n); nia).
  set (t := tri n) in *.
  destruct (Z.eq_dec m 0) as [->|Hm].
  - exists (t + 1 + 0). split; [lia|]. unfold t. rewrite noll_at by lia.
    assert (E : (if n =? 0 then 0 else am n 0) = 0).
    { destruct (n =? 0); [reflexivity|]. unfold am. cbn in He. rewrite Z.sub_0_r in He. rewrite He. reflexivity. }
    rewrite E. destruct (Z.odd _); reflexivity.
  - set (a := Z.abs m) in *. assert (Ha1 : 1 <= a) by (subst a; lia).
    (* the two positions carrying |m| = a are a-1 and a; their indices have opposite parities *)
    assert (Ham : forall p, p = a - 1 \/ p = a -> (if n =? 0 then 0 else am n p) = a).
    { intros p Hp. destruct (Z.eqb_spec n 0); [lia|]. unfold am.
      destruct (Z.even n) eqn:En.
      - apply even_ex in En. destruct En as [k Hk]. apply even_ex in He. destruct He as [q Hq]. lia.
      - apply odd_ex in En. destruct En as [k Hk]. apply even_ex in He. destruct He as [q Hq]. lia. }
    destruct (Z.even (t + 1 + (a - 1))) eqn:Ej.
    + (* index t + a is even *)
      destruct (Z_lt_le_dec 0 m) as [Hpos|Hneg].
      * exists (t + 1 + (a - 1)). split; [lia|]. unfold t. rewrite noll_at by lia. fold t.
        rewrite Ham by lia. rewrite <- Z.negb_even, Ej. cbn. f_equal. subst a. lia.
      * exists (t + 1 + a). split; [lia|]. unfold t. rewrite noll_at by lia. fold t.
        rewrite Ham by lia. rewrite <- Z.negb_even.
        replace (t + 1 + a) with (Z.succ (t + 1 + (a - 1))) by lia. rewrite Z.even_succ, <- Z.negb_even, Ej.
        cbn. f_equal. subst a. lia.
    + destruct (Z_lt_le_dec 0 m) as [Hpos|Hneg].
      * exists (t + 1 + a). split; [lia|]. unfold t. rewrite noll_at by lia. fold t.
        rewrite Ham by lia. rewrite <- Z.negb_even.
        replace (t + 1 + a) with (Z.succ (t + 1 + (a - 1))) by lia. rewrite Z.even_succ, <- Z.negb_even, Ej.
        cbn. f_equal. subst a. lia.
      * exists (t + 1 + (a - 1)). split; [lia|]. unfold t. rewrite noll_at by lia. fold t.
        rewrite Ham by lia. rewrite <- Z.negb_even, Ej. cbn. f_equal. subst a. lia.
Qed.

(* rows are ordered by n, and within a row |m| does not decrease *)
Theorem noll_ordered j1 j2 : 1 <= j1 -> j1 <= j2 ->
  snd (noll j1) <= snd (noll j2) /\
  (snd (noll j1) = snd (noll j2) -> Z.abs (fst (noll j1)) <= Z.abs (fst (noll j2))).
Proof.
  intros H1 H2. unfold noll. cbn [fst snd]. split; [apply row_mono; assumption|].
  intros En. rewrite <- En. set (n := row_exact j1).
  destruct (n =? 0); [destruct (Z.odd j1), (Z.odd j2); cbn; lia|].
  assert (Hm : forall p q, p <= q -> am n p <= am n q).
  { intros p q Hpq. unfold am. destruct (Z.even n); lia. }
  assert (Hp : 0 <= am n (j1 - tri n - 1)).
  { destruct (row_spec j1 H1) as [_ [A _]]. fold n in A. unfold am. destruct (Z.even n); lia. }
  specialize (Hm (j1 - tri n - 1) (j2 - tri n - 1) ltac:(lia)).
  destruct (Z.odd j1), (Z.odd j2); rewrite ?Z.abs_opp; lia.
Qed.

(* ------------------------------------------------------------------------------------------ *)
(** * The code's list-building computes the closed form *)

Definition tab (f : Z -> Z) (len : nat) : list Z := map (fun k => f (Z.of_nat k)) (seq 0 len).
Lemma tab_S f len : tab f (Datatypes.S len) = tab f len ++ [f (Z.of_nat len)].
Proof. unfold tab. rewrite seq_S, map_app. reflexivity. Qed.
Lemma tab_length f len : length (tab f len) = len.
Proof. unfold tab. now rewrite map_length, seq_length. Qed.
Lemma last_tab f len d : (0 < len)%nat -> last (tab f len) d = f (Z.of_nat len - 1).
Proof. destruct len as [|l]; [lia|]. intros _. rewrite tab_S, last_last. f_equal. lia. Qed.
Lemma nth_error_tab f len p : (p < len)%nat -> nth_error (tab f len) p = Some (f (Z.of_nat p)).
Proof. intros H. unfold tab. rewrite nth_error_map, nth_error_nth' with (d := 0%nat) by (rewrite seq_length; lia).
  rewrite seq_nth by lia. reflexivity. Qed.

Lemma append2_tab f len : (0 < len)%nat ->
  f (Z.of_nat len) = f (Z.of_nat len - 1) + 2 -> f (Z.of_nat len + 1) = f (Z.of_nat len) ->
  append2 (tab f len) = tab f (Datatypes.S (Datatypes.S len)).
Proof.
  intros Hl H1 H2. unfold append2. rewrite last_tab by assumption. rewrite <- H1, <- tab_S.
  rewrite last_tab by lia. rewrite (tab_S f (Datatypes.S len)).
  replace (Z.of_nat (Datatypes.S len) - 1) with (Z.of_nat len) by lia.
  rewrite <- H2. replace (Z.of_nat (Datatypes.S len)) with (Z.of_nat len + 1) by lia. reflexivity.
Qed.

Lemma grow_tab f i : forall len, (0 < len)%nat ->
  (forall q : nat, (len <= q)%nat -> Nat.even (q - len) = true ->
     f (Z.of_nat q) = f (Z.of_nat q - 1) + 2 /\ f (Z.of_nat q + 1) = f (Z.of_nat q)) ->
  grow i (tab f len) = tab f (len + 2 * i).
Proof.
  induction i as [|i IH]; intros len Hl H.
  - cbn [grow]. f_equal. lia.
  - cbn [grow]. destruct (H len (le_n _)) as [A B]; [now rewrite Nat.sub_diag|].
    rewrite append2_tab by assumption. rewrite IH.
    + f_equal. lia.
    + lia.
    + intros q Hq Hev. apply H; [lia|].
      replace (q - len)%nat with (Datatypes.S (Datatypes.S (q - Datatypes.S (Datatypes.S len)))) by lia.
      exact Hev.
Qed.

Lemma nat_even_ex q : Nat.even q = true -> exists k, q = (2 * k)%nat.
Proof. intros H. apply Nat.even_spec in H. exact H. Qed.

Lemma row_m_tab n : 0 <= n -> row_m n = tab (am n) (Z.to_nat (n + 1)).
Proof.
  intros Hn. unfold row_m. rewrite <- Z.negb_even. destruct (Z.even n) eqn:En; cbn [negb].
  - apply even_ex in En. destruct En as [k Hk].
    replace [0] with (tab (am n) 1).
    2:{ unfold tab, am. cbn [seq map]. replace (Z.even n) with true by (symmetry; apply Z.even_spec; exists k; lia).
        reflexivity. }
    rewrite grow_tab.
    + f_equal. lia.
    + lia.
    + intros q Hq Hev. apply nat_even_ex in Hev. destruct Hev as [c Hc]. unfold am.
      replace (Z.even n) with true by (symmetry; apply Z.even_spec; exists k; lia). lia.
  - apply odd_ex in En. destruct En as [k Hk].
    replace [1; 1] with (tab (am n) 2).
    2:{ unfold tab, am. cbn [seq map]. replace (Z.even n) with false.
        reflexivity. symmetry. rewrite <- Z.negb_odd. apply negb_false_iff, Z.odd_spec. exists k; lia. }
    rewrite grow_tab.
    + f_equal. lia.
    + lia.
    + intros q Hq Hev. apply nat_even_ex in Hev. destruct Hev as [c Hc]. unfold am.
      replace (Z.even n) with false by (symmetry; rewrite <- Z.negb_odd; apply negb_false_iff, Z.odd_spec; exists k; lia).
      lia.
Qed.

(* zernike_index with the exact row formula is the closed form; in particular the negative list
   index never leaves the list *)
Theorem noll_code_closed j : 1 <= j -> noll_exact j = Ok (noll j).
Proof.
  intros Hj. unfold noll_exact, noll_code, noll.
  destruct (row_spec j Hj) as [H0 [H1 H2]]. rewrite tri_succ in H2.
  set (n := row_exact j) in *.
  replace (j <? 1) with false by lia.
  destruct (Z.eqb_spec n 0) as [E|E].
  - rewrite E. destruct (Z.odd j); reflexivity.
  - rewrite row_m_tab by assumption.
    replace ((n + 1) * (n + 2) / 2) with (tri (n + 1)) by (unfold tri; f_equal; ring).
    rewrite tri_succ. unfold py_index. rewrite tab_length.
    set (p := j - tri n - 1).
    replace (j - (tri n + n + 1) - 1 <? 0) with true by lia.
    replace (j - (tri n + n + 1) - 1 + Z.of_nat (Z.to_nat (n + 1))) with p by (subst p; lia).
    replace ((0 <=? p) && (p <? Z.of_nat (Z.to_nat (n + 1)))) with true by (subst p; lia).
    rewrite nth_error_tab by (subst p; lia). cbn [rbind].
    rewrite Z2Nat.id by (subst p; lia).
    destruct (Z.odd j); do 2 f_equal; lia.
Qed.
Theorem noll_code_error j : j < 1 -> forall rowf, noll_code rowf j = Err ValueError.
Proof. intros H rowf. unfold noll_code. replace (j <? 1) with true by lia. reflexivity. Qed.

Lemma noll_range_nth cnt : forall lo k, (k < cnt)%nat ->
  nth k (noll_range cnt lo) (0, 0) = noll (lo + Z.of_nat k).
Proof. induction cnt as [|c IH]; intros lo k Hk; [lia|]. cbn [noll_range]. destruct k as [|k].
  - cbn. f_equal. lia.
  - cbn [nth]. rewrite IH by lia. f_equal. lia. Qed.


(* ------------------------------------------------------------------------------------------ *)
(** * Radial polynomials: bounded checks in exact rational arithmetic *)

Lemma zrange_In N x : In x (zrange N) <-> 0 <= x < N.
Proof. unfold zrange. rewrite in_map_iff. split.
  - intros [k [<- Hk]]. apply in_seq in Hk. lia.
  - intros H. exists (Z.to_nat x). split; [lia|]. apply in_seq. lia. Qed.
Lemma forallb_zrange N p : forallb p (zrange N) = true -> forall x, 0 <= x < N -> p x = true.
Proof. intros H x Hx. rewrite forallb_forall in H. apply H. apply zrange_In. exact Hx. Qed.

Definition valid_nm (n m : Z) : bool := (0 <=? m) && (m <=? n) && Z.even (n - m).
(* for all admissible (n, m) with n < N *)
Definition all_nm (N : Z) (p : Z -> Z -> bool) : bool :=
  forallb (fun n => forallb (fun m => negb (valid_nm n m) || p n m) (zrange N)) (zrange N).
Lemma all_nm_sound N p : all_nm N p = true ->
  forall n m, 0 <= m <= n -> n < N -> Z.even (n - m) = true -> p n m = true.
Proof.
  intros H n m Hm Hn He. unfold all_nm in H.
  pose proof (forallb_zrange _ _ H n ltac:(lia)) as H1. cbv beta in H1.
  pose proof (forallb_zrange _ _ H1 m ltac:(lia)) as H2. cbv beta in H2.
  unfold valid_nm in H2. rewrite He in H2.
  replace ((0 <=? m) && (m <=? n)) with true in H2 by lia. exact H2.
Qed.


(* ------------------------------------------------------------------------------------------ *)
(** * One sample of a mode: factorisation, normalisation, mask laws (any commutative ring) *)

Section ModeP.
Variable S : Scalar.
Hypothesis Sring : is_ring S.
Add Ring Sr_zern : Sring.
Variable sq : Qc -> S.

(* the azimuthal factor as the code has it: cos(m theta) for m > 0, sin(m theta) with m < 0 *)
Definition azimuthal (m : Z) (t : Qc) : S :=
  if m =? 0 then k1 else if 0 <? m then kcos (zQ m * t)%Qc else ksin (zQ m * t)%Qc.

Lemma radial_00 rho : radial 0 0 rho = 1%Qc.
Proof. apply Qc_is_canon. reflexivity. Qed.

(* value = normalisation * R_n^|m|(rho) * azimuthal factor * mask *)
Theorem zernike_pt_factor m n nz rho t b : @kofq S 1%Qc = k1 ->
  zernike_pt sq m n nz rho t b
  = (norm_factor sq m n nz * kofq (radial m n rho) * azimuthal m t * kmask b)%K.
Proof.
  intros Hq1. unfold zernike_pt, norm_factor, azimuthal.
  destruct (Z.eqb_spec m 0) as [->|Hm].
  - destruct (Z.eqb_spec n 0) as [->|Hn].
    + rewrite radial_00, Hq1. ring.
    + destruct nz; ring.
  - destruct (0 <? m); destruct nz; ring.
Qed.

(* the extracted model runs with sq = 1 and reports norm2: the code's factor multiplies it *)
Theorem zernike_pt_unnormalised m n nz rho t b :
  zernike_pt sq m n nz rho t b = (norm_factor sq m n nz * zernike_pt (fun _ => k1) m n nz rho t b)%K.
Proof.
  unfold zernike_pt, norm_factor.
  destruct (m =? 0); [destruct (n =? 0)|destruct (0 <? m)]; destruct nz; ring.
Qed.
Theorem norm_factor_square m n nz :
  (forall q, (sq q * sq q)%K = kofq q) -> (forall a b : Qc, @kofq S (a * b)%Qc = (kofq a * kofq b)%K) ->
  @kofq S 1%Qc = k1 -> 0 <= n ->
  (norm_factor sq m n nz * norm_factor sq m n nz)%K = kofq (zQ (norm2 m n nz)).
Proof.
  intros Hsq Hmul Hq1 Hn. unfold norm_factor, norm2.
  assert (E2 : forall a b, zQ (a * b) = (zQ a * zQ b)%Qc).
  { intros a b. apply Qc_is_canon. unfold zQ, Qcmult, Q2Qc. cbn [this].
    rewrite !Qred_correct. unfold Qeq, inject_Z, Qmult; cbn. ring. }
  destruct (m =? 0); [destruct (n =? 0)|]; destruct nz;
    try (change (zQ 1) with 1%Qc; rewrite Hq1; ring).
  - apply Hsq.
  - rewrite E2, Hmul, <- !Hsq. ring.
Qed.

(* zero outside the mask *)
Theorem zernike_pt_outside m n nz rho t : zernike_pt sq m n nz rho t false = k0.
Proof. unfold zernike_pt, kmask.
  destruct (m =? 0); [destruct (n =? 0)|destruct (0 <? m)]; destruct nz; ring. Qed.

(* the mask enters only through its support *)
Theorem zernike_support_only rowf j nz (pts1 pts2 : list (Qc * Qc * Qc)) :
  Forall2 (fun p q => fst p = fst q /\ mask_bool (snd p) = mask_bool (snd q)) pts1 pts2 ->
  zernike sq rowf j nz pts1 = zernike sq rowf j nz pts2.
Proof.
  intros H. unfold zernike. destruct (noll_code rowf j) as [mn|e]; [|reflexivity]. cbn [rbind]. f_equal.
  induction H as [|p q l1 l2 [H1 H2] _ IH]; [reflexivity|]. cbn [map]. rewrite IH, H1, H2. reflexivity.
Qed.
End ModeP.
Arguments azimuthal {S}.

(* ------------------------------------------------------------------------------------------ *)
(** * zernike_coordinates *)

Lemma QS_ring : is_ring QS. Proof. exact Qcrt. Qed.

Lemma Qle_bool_Qcle a b : Qle_bool (this a) (this b) = true <-> (a <= b)%Qc.
Proof. unfold Qcle. apply Qle_bool_iff. Qed.
Lemma qmax_ge_l a b : (a <= qmax a b)%Qc.
Proof. unfold qmax. destruct (Qle_bool (this a) (this b)) eqn:E.
  - apply Qle_bool_Qcle. exact E. - apply Qcle_refl. Qed.
Lemma qmax_ge_r a b : (b <= qmax a b)%Qc.
Proof. unfold qmax. destruct (Qle_bool (this a) (this b)) eqn:E.
  - apply Qcle_refl.
  - destruct (Qcle_lt_or_eq b a) as [H|H].
    + destruct (Qclt_le_dec b a) as [H1|H1]; [apply Qclt_le_weak; exact H1|].
      apply Qle_bool_Qcle in H1. congruence.
    + apply Qclt_le_weak. exact H.
    + rewrite H. apply Qcle_refl. Qed.
Lemma qmax_cases a b : qmax a b = a \/ qmax a b = b.
Proof. unfold qmax. destruct (Qle_bool (this a) (this b)); auto. Qed.

Lemma fold_qmax_init l : forall init, (init <= fold_left qmax l init)%Qc.
Proof. induction l as [|x l IH]; intros init; cbn [fold_left]; [apply Qcle_refl|].
  eapply Qcle_trans; [apply qmax_ge_l|apply IH]. Qed.
Lemma fold_qmax_ge l : forall init x, In x l -> (x <= fold_left qmax l init)%Qc.
Proof. induction l as [|y l IH]; intros init x Hx; [destruct Hx|]. cbn [fold_left]. destruct Hx as [->|Hx].
  - eapply Qcle_trans; [apply qmax_ge_r|apply fold_qmax_init].
  - apply IH. exact Hx. Qed.
Lemma fold_qmax_attained l : forall init, fold_left qmax l init = init \/ In (fold_left qmax l init) l.
Proof. induction l as [|y l IH]; intros init; cbn [fold_left]; [left; reflexivity|].
  destruct (IH (qmax init y)) as [H|H].
  - rewrite H. destruct (qmax_cases init y) as [E|E]; rewrite E; [left; reflexivity|right; left; reflexivity].
  - right. right. exact H. Qed.

Lemma In_rows {S : Scalar} (g : nat -> nat -> S) n m x :
  In x (rows n m g) <-> exists i j, (i < n)%nat /\ (j < m)%nat /\ x = g i j.
Proof. unfold rows. rewrite in_flat_map. split.
  - intros [i [Hi Hx]]. apply in_map_iff in Hx. destruct Hx as [j [<- Hj]].
    apply in_seq in Hi. apply in_seq in Hj. exists i, j. repeat split; lia.
  - intros [i [j [Hi [Hj ->]]]]. exists i. split; [apply in_seq; lia|]. apply in_map. apply in_seq. lia. Qed.
Lemma In_tabulate {S : Scalar} (a : arr S) x :
  In x (tabulate a) <-> exists i j, 0 <= i < nr a /\ 0 <= j < nc a /\ x = get a i j.
Proof. unfold tabulate. rewrite In_rows. split.
  - intros [i [j [Hi [Hj ->]]]]. exists (Z.of_nat i), (Z.of_nat j). repeat split; lia.
  - intros [i [j [Hi [Hj ->]]]]. exists (Z.to_nat i), (Z.to_nat j). repeat split; try lia.
    rewrite !Z2Nat.id by lia. reflexivity. Qed.
Lemma rows_ext {S : Scalar} (g h : nat -> nat -> S) n m :
  (forall i j, (i < n)%nat -> (j < m)%nat -> g i j = h i j) -> rows n m g = rows n m h.
Proof. intros H. unfold rows.
  assert (E : forall l, (forall i, In i l -> (i < n)%nat) ->
     flat_map (fun i => map (g i) (seq 0 m)) l = flat_map (fun i => map (h i) (seq 0 m)) l).
  { induction l as [|i l IH]; intros Hl; [reflexivity|]. cbn [flat_map]. rewrite IH by (intros; apply Hl; now right).
    f_equal. apply map_ext_in. intros j Hj. apply in_seq in Hj. apply H; [apply Hl; now left|lia]. }
  apply E. intros i Hi. apply in_seq in Hi. lia. Qed.

Lemma sum2_ext n m f g : (forall i j, 0 <= i < n -> 0 <= j < m -> f i j = g i j) -> sum2 n m f = sum2 n m g.
Proof. intros H. unfold sum2. apply (sumZ_ext QS). intros i Hi. apply (sumZ_ext QS). intros j Hj. apply H; assumption. Qed.
Lemma sum2_div n m f (c : Qc) : sum2 n m (fun i j => (f i j / c)%Qc) = (sum2 n m f / c)%Qc.
Proof. unfold sum2, Qcdiv.
  rewrite <- (sumZ_scale_r QS QS_ring). apply (sumZ_ext QS). intros i _.
  rewrite <- (sumZ_scale_r QS QS_ring). reflexivity. Qed.

Lemma mesh1_origin n (c : Qc) i : mesh1 n (c - zQ (n / 2))%Qc i = (zQ i - c)%Qc.
Proof. unfold mesh1. ring. Qed.

Section CoordsP.
Variable mask : arr QS.
Variable c : coords.
Hypothesis Hc : zernike_coordinates mask = Ok c.

Lemma coords_shape : 0 < nr mask /\ 0 < nc mask.
Proof. unfold zernike_coordinates in Hc. destruct ((nr mask <=? 0) || (nc mask <=? 0)) eqn:E; [discriminate|]. lia. Qed.

(* the polar origin is the centroid of the mask's support -- whatever the parity of the array
   size: sum(i * mask)/sum(mask), sum(j * mask)/sum(mask) *)
Theorem coords_origin_is_centroid :
  c_origin_r c = (sum2 (nr mask) (nc mask) (fun i j => (zQ i * mbit mask i j)%Qc) / mcount mask)%Qc /\
  c_origin_c c = (sum2 (nr mask) (nc mask) (fun i j => (zQ j * mbit mask i j)%Qc) / mcount mask)%Qc.
Proof.
  unfold zernike_coordinates in Hc. destruct ((nr mask <=? 0) || (nc mask <=? 0)); [discriminate|].
  injection Hc as <-. cbn [c_origin_r c_origin_c]. unfold centroid_r, centroid_c. split.
  - rewrite <- sum2_div. apply sum2_ext. intros. unfold Qcdiv. ring.
  - rewrite <- sum2_div. apply sum2_ext. intros. unfold Qcdiv. ring.
Qed.

(* rho^2 and the direction of theta are measured from that origin *)
Theorem coords_about_origin i j :
  c_rho2 c i j = ((qsqr (zQ i - c_origin_r c) + qsqr (zQ j - c_origin_c c)) / c_rmax2 c)%Qc /\
  c_dirx c i j = (- (zQ j - c_origin_c c))%Qc /\ c_diry c i j = (- (zQ i - c_origin_r c))%Qc.
Proof.
  unfold zernike_coordinates in Hc. destruct ((nr mask <=? 0) || (nc mask <=? 0)); [discriminate|].
  injection Hc as <-. cbn [c_origin_r c_origin_c c_rho2 c_rmax2 c_dirx c_diry].
  unfold r2_of. rewrite !mesh1_origin. repeat split; reflexivity.
Qed.

Definition dist2 (i j : Z) : Qc := (qsqr (zQ i - c_origin_r c) + qsqr (zQ j - c_origin_c c))%Qc.

Lemma rmax2_eq : c_rmax2 c = rmax2_of mask dist2.
Proof.
  unfold zernike_coordinates in Hc. destruct ((nr mask <=? 0) || (nc mask <=? 0)); [discriminate|].
  unfold dist2. injection Hc as <-. cbn [c_origin_r c_origin_c c_rmax2]. unfold rmax2_of. f_equal. unfold tabulate.
  apply rows_ext. intros i j _ _. cbn [get]. unfold r2_of.
  rewrite !mesh1_origin. reflexivity.
Qed.

(* c_rmax2 is the largest squared distance from the origin over the masked samples *)
Theorem rmax2_is_max :
  (forall i j, 0 <= i < nr mask -> 0 <= j < nc mask -> mask_bool (get mask i j) = true -> (dist2 i j <= c_rmax2 c)%Qc)
  /\ (c_rmax2 c = 0%Qc \/
      exists i j, 0 <= i < nr mask /\ 0 <= j < nc mask /\ mask_bool (get mask i j) = true /\ dist2 i j = c_rmax2 c).
Proof.
  rewrite rmax2_eq. unfold rmax2_of. split.
  - intros i j Hi Hj Hm. apply fold_qmax_ge. apply (In_tabulate (S := QS)). exists i, j. cbn [nr nc get]. repeat split; try lia.
    unfold mbit. rewrite Hm. change (K QS) with Qc. ring.
  - match goal with |- context[fold_left qmax ?l ?z] => set (mx := fold_left qmax l z); destruct (fold_qmax_attained l z) as [H|H] end.
    + left. exact H.
    + apply (In_tabulate (S := QS)) in H. cbn [nr nc get] in H. destruct H as [i [j [Hi [Hj E]]]]. fold mx in E.
      unfold mbit in E. destruct (mask_bool (get mask i j)) eqn:Hm.
      * right. exists i, j. repeat split; try lia; [exact Hm|]. rewrite E. change (K QS) with Qc. ring.
      * left. rewrite E. change (K QS) with Qc. ring.
Qed.

Lemma div_le_1 (a b : Qc) : (0 < b)%Qc -> (a <= b)%Qc -> (a / b <= 1)%Qc.
Proof. intros Hb Hab. apply (Qcmult_lt_0_le_reg_r _ _ b Hb).
  assert (Hne : b <> 0%Qc) by (intro E; rewrite E in Hb; apply (Qclt_not_eq _ _ Hb); reflexivity).
  replace (a / b * b)%Qc with a by (field; exact Hne). rewrite Qcmult_1_l. exact Hab. Qed.

(* rho <= 1 on the mask, rho = 1 at a farthest masked sample *)
Theorem rho_one_at_farthest : (0 < c_rmax2 c)%Qc ->
  (forall i j, 0 <= i < nr mask -> 0 <= j < nc mask -> mask_bool (get mask i j) = true -> (c_rho2 c i j <= 1)%Qc)
  /\ (exists i j, 0 <= i < nr mask /\ 0 <= j < nc mask /\ mask_bool (get mask i j) = true /\ c_rho2 c i j = 1%Qc).
Proof.
  intros Hpos. destruct rmax2_is_max as [Hle Hex]. split.
  - intros i j Hi Hj Hm. rewrite (proj1 (coords_about_origin i j)). apply div_le_1; [exact Hpos|]. apply Hle; assumption.
  - destruct Hex as [E|[i [j [Hi [Hj [Hm E]]]]]].
    + rewrite E in Hpos. exfalso. apply (Qclt_not_eq _ _ Hpos). reflexivity.
    + exists i, j. repeat split; try lia; try assumption.
      rewrite (proj1 (coords_about_origin i j)). fold (dist2 i j). rewrite E. field.
      intro E0. rewrite E0 in Hpos. apply (Qclt_not_eq _ _ Hpos). reflexivity.
Qed.
End CoordsP.

(* the coordinates depend on the mask only through its support *)
Theorem coords_support_only (m1 m2 : arr QS) c1 c2 :
  nr m1 = nr m2 -> nc m1 = nc m2 ->
  (forall i j, 0 <= i < nr m1 -> 0 <= j < nc m1 -> mask_bool (get m1 i j) = mask_bool (get m2 i j)) ->
  zernike_coordinates m1 = Ok c1 -> zernike_coordinates m2 = Ok c2 ->
  c_origin_r c1 = c_origin_r c2 /\ c_origin_c c1 = c_origin_c c2 /\ c_rmax2 c1 = c_rmax2 c2 /\
  (forall i j, c_rho2 c1 i j = c_rho2 c2 i j /\ c_dirx c1 i j = c_dirx c2 i j /\ c_diry c1 i j = c_diry c2 i j).
Proof.
  intros Hr Hcn Hm H1 H2.
  assert (Hb : forall i j, 0 <= i < nr m1 -> 0 <= j < nc m1 -> mbit m1 i j = mbit m2 i j).
  { intros i j Hi Hj. unfold mbit. rewrite Hm by assumption. reflexivity. }
  assert (Ecnt : mcount m1 = mcount m2).
  { unfold mcount. rewrite <- Hr, <- Hcn. apply sum2_ext. exact Hb. }
  destruct (coords_origin_is_centroid m1 c1 H1) as [A1 B1]. destruct (coords_origin_is_centroid m2 c2 H2) as [A2 B2].
  assert (Eor : c_origin_r c1 = c_origin_r c2).
  { rewrite A1, A2, <- Ecnt, <- Hr, <- Hcn. f_equal. apply sum2_ext. intros. rewrite Hb by assumption. reflexivity. }
  assert (Eoc : c_origin_c c1 = c_origin_c c2).
  { rewrite B1, B2, <- Ecnt, <- Hr, <- Hcn. f_equal. apply sum2_ext. intros. rewrite Hb by assumption. reflexivity. }
  assert (Erm : c_rmax2 c1 = c_rmax2 c2).
  { rewrite (rmax2_eq m1 c1 H1), (rmax2_eq m2 c2 H2). unfold rmax2_of. f_equal. unfold tabulate. cbn [nr nc get].
    rewrite <- Hr, <- Hcn. apply rows_ext. intros i j Hi Hj. unfold dist2. rewrite Eor, Eoc, Hb by lia. reflexivity. }
  repeat split; try assumption.
  - rewrite (proj1 (coords_about_origin m1 c1 H1 i j)), (proj1 (coords_about_origin m2 c2 H2 i j)), Eor, Eoc, Erm. reflexivity.
  - rewrite (proj1 (proj2 (coords_about_origin m1 c1 H1 i j))), (proj1 (proj2 (coords_about_origin m2 c2 H2 i j))), Eoc. reflexivity.
  - rewrite (proj2 (proj2 (coords_about_origin m1 c1 H1 i j))), (proj2 (proj2 (coords_about_origin m2 c2 H2 i j))), Eor. reflexivity.
Qed.
