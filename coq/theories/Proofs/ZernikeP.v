(* Lemmas about Model/Zernike.v: Noll's ordering (closed form, bijection, link to the code's
   list-building, float = exact on a bounded range), the radial polynomials (bounded checks in
   exact arithmetic), the mode's factorisation and mask laws, zernike_coordinates. *)
From LV Require Import Model.Zernike.

(* ------------------------------------------------------------------------------------------ *)
(** * Triangular numbers and the row of a Noll index *)

Lemma tri_double n : 2 * tri n = n * (n + 1).
Proof. unfold tri. assert (H : (n * (n + 1)) mod 2 = 0).
  { destruct (Z.Even_or_Odd n) as [[k ->]|[k ->]].
    - replace (2 * k * (2 * k + 1)) with (k * (2 * k + 1) * 2) by ring. apply Z.mod_mul; lia.
    - replace ((2 * k + 1) * (2 * k + 1 + 1)) with ((2 * k + 1) * (k + 1) * 2) by ring. apply Z.mod_mul; lia. }
  pose proof (Z.div_mod (n * (n + 1)) 2 ltac:(lia)). lia. Qed.
Lemma tri_succ n : tri (n + 1) = tri n + n + 1.
Proof. pose proof (tri_double n). pose proof (tri_double (n+1)). nia. Qed.

Lemma row_spec j : 1 <= j -> 0 <= row_exact j /\ tri (row_exact j) < j <= tri (row_exact j + 1).
Proof.
  intros Hj. unfold row_exact. set (s := Z.sqrt (8 * j + 1)).
  assert (Hs : s * s <= 8 * j + 1 < (s + 1) * (s + 1)) by (apply Z.sqrt_spec; lia).
  assert (Hs3 : 3 <= s) by nia.
  set (n := (s - 1) / 2).
  assert (Hn : 2 * n <= s - 1 <= 2 * n + 1) by (subst n; lia).
  pose proof (tri_double n) as T0. pose proof (tri_double (n + 1)) as T1. pose proof (tri_double (n - 1)) as Tm.
  destruct (Z.eqb_spec (tri n) j) as [E|E].
  - replace (n - 1 + 1) with n by ring. split; [nia|]. split; [nia|lia].
  - split; [nia|]. split; nia.
Qed.
Lemma row_unique j n : 0 <= n -> tri n < j <= tri (n + 1) -> 1 <= j -> row_exact j = n.
Proof.
  intros Hn Hb Hj. destruct (row_spec j Hj) as [H0 H1].
  pose proof (tri_double n). pose proof (tri_double (n+1)).
  pose proof (tri_double (row_exact j)). pose proof (tri_double (row_exact j + 1)).
  assert (~ row_exact j < n) by nia. assert (~ n < row_exact j) by nia. lia.
Qed.
(* the exact row is the real-number expression of the source: row + 1 = ceil((-1 + sqrt(1+8j))/2),
   i.e. row + 1 is the least integer c >= 0 with (2c+1)^2 >= 1 + 8j *)
Lemma row_exact_is_ceil j c : 1 <= j -> 0 <= c ->
  (1 + 8 * j <= (2 * c + 1) * (2 * c + 1) <-> row_exact j + 1 <= c).
Proof.
  intros Hj Hc. destruct (row_spec j Hj) as [H0 [H1 H2]].
  pose proof (tri_double (row_exact j)). pose proof (tri_double (row_exact j + 1)). pose proof (tri_double c).
  set (n := row_exact j) in *. split; intros Hc2.
  - assert (~ c <= n) by nia. lia.
  - nia.
Qed.
Lemma row_mono j1 j2 : 1 <= j1 -> j1 <= j2 -> row_exact j1 <= row_exact j2.
Proof.
  intros H1 H2. destruct (row_spec j1 H1) as [A0 A1]. destruct (row_spec j2 ltac:(lia)) as [B0 B1].
  pose proof (tri_double (row_exact j1)). pose proof (tri_double (row_exact j2 + 1)).
  assert (~ row_exact j2 + 1 <= row_exact j1) by nia. lia.
Qed.

(* ------------------------------------------------------------------------------------------ *)
(** * The closed form is Noll's ordering: well-formed, injective, surjective, ordered *)

Theorem noll_wf j : 1 <= j -> let '(m, n) := noll j in
  0 <= n /\ Z.abs m <= n /\ Z.even (n - Z.abs m) = true /\ (0 < m -> Z.even j = true) /\ (m < 0 -> Z.odd j = true).
Proof.
  intros Hj. unfold noll. destruct (row_spec j Hj) as [H0 H1]. rewrite tri_succ in H1.
  set (n := row_exact j) in *. set (p := j - tri n - 1).
  assert (Hp : 0 <= p <= n) by (subst p; lia).
  unfold am. rewrite <- Z.negb_even.
  destruct (Z.eqb_spec n 0) as [E|E]; destruct (Z.even n) eqn:En; destruct (Z.even j) eqn:Ej; cbn [negb];
  rewrite ?Z.abs_opp; repeat split; try lia;
  try (apply Z.even_spec in En || (rewrite <- Z.negb_odd in En; apply negb_false_iff, Z.odd_spec in En); destruct En as [k Hk]);
  try (rewrite Z.abs_eq by lia); try lia.
  all: try (apply Z.even_spec; exists (k - (p+1)/2); lia).
  all: try (apply Z.even_spec; exists (k - p/2); lia).
Qed.

Theorem noll_inj j1 j2 : 1 <= j1 -> 1 <= j2 -> noll j1 = noll j2 -> j1 = j2.
Proof.
  intros H1 H2 E. unfold noll in E. injection E as Em En.
  destruct (row_spec j1 H1) as [A0 A1]. destruct (row_spec j2 H2) as [B0 B1]. rewrite tri_succ in A1, B1.
  rewrite <- En in *. set (n := row_exact j1) in *.
  set (p1 := j1 - tri n - 1) in *. set (p2 := j2 - tri n - 1) in *.
  assert (j1 - j2 = p1 - p2) by (subst p1 p2; lia).
  unfold am in Em. rewrite <- !Z.negb_even in Em.
  destruct (Z.eqb_spec n 0) as [E0|E0].
  - lia.
  - destruct (Z.even n) eqn:En'; destruct (Z.even j1) eqn:Ej1; destruct (Z.even j2) eqn:Ej2; cbn [negb] in Em;
    try (apply Z.even_spec in Ej1; destruct Ej1 as [a1 Ha1]);
    try (apply Z.even_spec in Ej2; destruct Ej2 as [a2 Ha2]);
    try (rewrite <- Z.negb_odd in Ej1; apply negb_false_iff, Z.odd_spec in Ej1; destruct Ej1 as [a1 Ha1]);
    try (rewrite <- Z.negb_odd in Ej2; apply negb_false_iff, Z.odd_spec in Ej2; destruct Ej2 as [a2 Ha2]);
    lia.
Qed.

Lemma even_ex z : Z.even z = true -> exists k, z = 2 * k.
Proof. intros H. apply Z.even_spec in H. exact H. Qed.
Lemma odd_ex z : Z.even z = false -> exists k, z = 2 * k + 1.
Proof. intros H. rewrite <- Z.negb_odd in H. apply negb_false_iff, Z.odd_spec in H. exact H. Qed.

(* position p of row n carries |m| = am n p *)
Lemma noll_at n p : 0 <= n -> 0 <= p <= n ->
  noll (tri n + 1 + p) =
  ((if Z.odd (tri n + 1 + p) then - (if n =? 0 then 0 else am n p) else (if n =? 0 then 0 else am n p)), n).
Proof.
  intros Hn Hp. unfold noll.
  assert (T : 0 <= tri n) by (pose proof (tri_double n); nia).
  rewrite (row_unique (tri n + 1 + p) n) by (rewrite ?tri_succ; lia).
  replace (tri n + 1 + p - tri n - 1) with p by ring. reflexivity.
Qed.

Theorem noll_surj m n : 0 <= n -> Z.abs m <= n -> Z.even (n - Z.abs m) = true ->
  exists j, 1 <= j /\ noll j = (m, n).
Proof.
  intros Hn Ha He.
  assert (T : 0 <= tri n) by (pose proof (tri_double n); nia).
  set (t := tri n) in *.
  destruct (Z.eq_dec m 0) as [->|Hm].
  - exists (t + 1 + 0). split; [lia|]. unfold t. rewrite noll_at by lia.
    assert (E : (if n =? 0 then 0 else am n 0) = 0).
    { destruct (n =? 0); [reflexivity|]. unfold am. cbn in He. rewrite Z.sub_0_r in He. rewrite He. reflexivity. }
    rewrite E. destruct (Z.odd _); reflexivity.
  - set (a := Z.abs m) in *. assert (Ha1 : 1 <= a) by (subst a; lia).
    (* the two positions carrying |m| = a are a-1 and a; their indices have opposite parities *)
    assert (Ham : forall p, p = a - 1 \/ p = a -> (if n =? 0 then 0 else am n p) = a).
    { intros p Hp. destruct (Z.eqb_spec n 0); [lia|]. unfold am.
      destruct (Z.even n) eqn:En.
      - apply even_ex in En. destruct En as [k Hk]. apply even_ex in He. destruct He as [q Hq]. lia.
      - apply odd_ex in En. destruct En as [k Hk]. apply even_ex in He. destruct He as [q Hq]. lia. }
    destruct (Z.even (t + 1 + (a - 1))) eqn:Ej.
    + (* index t + a is even *)
      destruct (Z_lt_le_dec 0 m) as [Hpos|Hneg].
      * exists (t + 1 + (a - 1)). split; [lia|]. unfold t. rewrite noll_at by lia. fold t.
        rewrite Ham by lia. rewrite <- Z.negb_even, Ej. cbn. f_equal. subst a. lia.
      * exists (t + 1 + a). split; [lia|]. unfold t. rewrite noll_at by lia. fold t.
        rewrite Ham by lia. rewrite <- Z.negb_even.
        replace (t + 1 + a) with (Z.succ (t + 1 + (a - 1))) by lia. rewrite Z.even_succ, <- Z.negb_even, Ej.
        cbn. f_equal. subst a. lia.
    + destruct (Z_lt_le_dec 0 m) as [Hpos|Hneg].
      * exists (t + 1 + a). split; [lia|]. unfold t. rewrite noll_at by lia. fold t.
        rewrite Ham by lia. rewrite <- Z.negb_even.
        replace (t + 1 + a) with (Z.succ (t + 1 + (a - 1))) by lia. rewrite Z.even_succ, <- Z.negb_even, Ej.
        cbn. f_equal. subst a. lia.
      * exists (t + 1 + (a - 1)). split; [lia|]. unfold t. rewrite noll_at by lia. fold t.
        rewrite Ham by lia. rewrite <- Z.negb_even, Ej. cbn. f_equal. subst a. lia.
Qed.

(* rows are ordered by n, and within a row |m| does not decrease *)
Theorem noll_ordered j1 j2 : 1 <= j1 -> j1 <= j2 ->
  snd (noll j1) <= snd (noll j2) /\
  (snd (noll j1) = snd (noll j2) -> Z.abs (fst (noll j1)) <= Z.abs (fst (noll j2))).
Proof.
  intros H1 H2. unfold noll. cbn [fst snd]. split; [apply row_mono; assumption|].
  intros En. rewrite <- En. set (n := row_exact j1).
  destruct (n =? 0); [destruct (Z.odd j1), (Z.odd j2); cbn; lia|].
  assert (Hm : forall p q, p <= q -> am n p <= am n q).
  { intros p q Hpq. unfold am. destruct (Z.even n); lia. }
  assert (Hp : 0 <= am n (j1 - tri n - 1)).
  { destruct (row_spec j1 H1) as [_ [A _]]. fold n in A. unfold am. destruct (Z.even n); lia. }
  specialize (Hm (j1 - tri n - 1) (j2 - tri n - 1) ltac:(lia)).
  destruct (Z.odd j1), (Z.odd j2); rewrite ?Z.abs_opp; lia.
Qed.

(* ------------------------------------------------------------------------------------------ *)
(** * The code's list-building computes the closed form *)

Definition tab (f : Z -> Z) (len : nat) : list Z := map (fun k => f (Z.of_nat k)) (seq 0 len).
Lemma tab_S f len : tab f (Datatypes.S len) = tab f len ++ [f (Z.of_nat len)].
Proof. unfold tab. rewrite seq_S, map_app. reflexivity. Qed.
Lemma tab_length f len : length (tab f len) = len.
Proof. unfold tab. now rewrite map_length, seq_length. Qed.
Lemma last_tab f len d : (0 < len)%nat -> last (tab f len) d = f (Z.of_nat len - 1).
Proof. destruct len as [|l]; [lia|]. intros _. rewrite tab_S, last_last. f_equal. lia. Qed.
Lemma nth_error_tab f len p : (p < len)%nat -> nth_error (tab f len) p = Some (f (Z.of_nat p)).
Proof. intros H. unfold tab. rewrite nth_error_map, nth_error_nth' with (d := 0%nat) by (rewrite seq_length; lia).
  rewrite seq_nth by lia. reflexivity. Qed.

Lemma append2_tab f len : (0 < len)%nat ->
  f (Z.of_nat len) = f (Z.of_nat len - 1) + 2 -> f (Z.of_nat len + 1) = f (Z.of_nat len) ->
  append2 (tab f len) = tab f (Datatypes.S (Datatypes.S len)).
Proof.
  intros Hl H1 H2. unfold append2. rewrite last_tab by assumption. rewrite <- H1, <- tab_S.
  rewrite last_tab by lia. rewrite (tab_S f (Datatypes.S len)).
  replace (Z.of_nat (Datatypes.S len) - 1) with (Z.of_nat len) by lia.
  rewrite <- H2. replace (Z.of_nat (Datatypes.S len)) with (Z.of_nat len + 1) by lia. reflexivity.
Qed.

Lemma grow_tab f i : forall len, (0 < len)%nat ->
  (forall q : nat, (len <= q)%nat -> Nat.even (q - len) = true ->
     f (Z.of_nat q) = f (Z.of_nat q - 1) + 2 /\ f (Z.of_nat q + 1) = f (Z.of_nat q)) ->
  grow i (tab f len) = tab f (len + 2 * i).
Proof.
  induction i as [|i IH]; intros len Hl H.
  - cbn [grow]. f_equal. lia.
  - cbn [grow]. destruct (H len (le_n _)) as [A B]; [now rewrite Nat.sub_diag|].
    rewrite append2_tab by assumption. rewrite IH.
    + f_equal. lia.
    + lia.
    + intros q Hq Hev. apply H; [lia|].
      replace (q - len)%nat with (Datatypes.S (Datatypes.S (q - Datatypes.S (Datatypes.S len)))) by lia.
      exact Hev.
Qed.

Lemma nat_even_ex q : Nat.even q = true -> exists k, q = (2 * k)%nat.
Proof. intros H. apply Nat.even_spec in H. exact H. Qed.

Lemma row_m_tab n : 0 <= n -> row_m n = tab (am n) (Z.to_nat (n + 1)).
Proof.
  intros Hn. unfold row_m. rewrite <- Z.negb_even. destruct (Z.even n) eqn:En; cbn [negb].
  - apply even_ex in En. destruct En as [k Hk].
    replace [0] with (tab (am n) 1).
    2:{ unfold tab, am. cbn [seq map]. replace (Z.even n) with true by (symmetry; apply Z.even_spec; exists k; lia).
        reflexivity. }
    rewrite grow_tab.
    + f_equal. lia.
    + lia.
    + intros q Hq Hev. apply nat_even_ex in Hev. destruct Hev as [c Hc]. unfold am.
      replace (Z.even n) with true by (symmetry; apply Z.even_spec; exists k; lia). lia.
  - apply odd_ex in En. destruct En as [k Hk].
    replace [1; 1] with (tab (am n) 2).
    2:{ unfold tab, am. cbn [seq map]. replace (Z.even n) with false.
        reflexivity. symmetry. rewrite <- Z.negb_odd. apply negb_false_iff, Z.odd_spec. exists k; lia. }
    rewrite grow_tab.
    + f_equal. lia.
    + lia.
    + intros q Hq Hev. apply nat_even_ex in Hev. destruct Hev as [c Hc]. unfold am.
      replace (Z.even n) with false by (symmetry; rewrite <- Z.negb_odd; apply negb_false_iff, Z.odd_spec; exists k; lia).
      lia.
Qed.

(* zernike_index with the exact row formula is the closed form; in particular the negative list
   index never leaves the list *)
Theorem noll_code_closed j : 1 <= j -> noll_exact j = Ok (noll j).
Proof.
  intros Hj. unfold noll_exact, noll_code, noll.
  destruct (row_spec j Hj) as [H0 [H1 H2]]. rewrite tri_succ in H2.
  set (n := row_exact j) in *.
  replace (j <? 1) with false by lia.
  destruct (Z.eqb_spec n 0) as [E|E].
  - rewrite E. destruct (Z.odd j); reflexivity.
  - rewrite row_m_tab by assumption.
    replace ((n + 1) * (n + 2) / 2) with (tri (n + 1)) by (unfold tri; f_equal; ring).
    rewrite tri_succ. unfold py_index. rewrite tab_length.
    set (p := j - tri n - 1).
    replace (j - (tri n + n + 1) - 1 <? 0) with true by lia.
    replace (j - (tri n + n + 1) - 1 + Z.of_nat (Z.to_nat (n + 1))) with p by (subst p; lia).
    replace ((0 <=? p) && (p <? Z.of_nat (Z.to_nat (n + 1)))) with true by (subst p; lia).
    rewrite nth_error_tab by (subst p; lia). cbn [rbind].
    rewrite Z2Nat.id by (subst p; lia).
    destruct (Z.odd j); do 2 f_equal; lia.
Qed.
Theorem noll_code_error j : j < 1 -> forall rowf, noll_code rowf j = Err ValueError.
Proof. intros H rowf. unfold noll_code. replace (j <? 1) with true by lia. reflexivity. Qed.

Lemma noll_range_nth cnt : forall lo k, (k < cnt)%nat ->
  nth k (noll_range cnt lo) (0, 0) = noll (lo + Z.of_nat k).
Proof. induction cnt as [|c IH]; intros lo k Hk; [lia|]. cbn [noll_range]. destruct k as [|k].
  - cbn. f_equal. lia.
  - cbn [nth]. rewrite IH by lia. f_equal. lia. Qed.

(* ------------------------------------------------------------------------------------------ *)
(** * The float row formula equals the exact one (bounded, by computation) *)

Definition allZ (p : Z -> bool) (lo : Z) (n : positive) : bool :=
  Pos.peano_rect (fun _ => Z -> bool) (fun lo => p lo) (fun _ rec lo => p lo && rec (lo + 1)) n lo.
Lemma allZ_sound p n : forall lo, allZ p lo n = true -> forall j, lo <= j < lo + Zpos n -> p j = true.
Proof.
  unfold allZ. induction n as [|n IH] using Pos.peano_ind; intros lo H j Hj.
  - rewrite Pos.peano_rect_base in H. replace j with lo by lia. exact H.
  - rewrite Pos.peano_rect_succ in H. apply andb_true_iff in H. destruct H as [H1 H2].
    destruct (Z.eq_dec j lo) as [->|Hne]; [exact H1|]. apply (IH (lo + 1) H2). lia.
Qed.

(* for one j: the search found the true ceiling of the double, and the row equals the exact row *)
Definition row_float_ok (j : Z) : bool :=
  is_ceil (row_arg_float j) (ceil_float j) && (row_float j =? row_exact j).
Definition float_bound : positive := 200000.
Lemma row_float_checked : allZ row_float_ok 1 float_bound = true.
Proof. vm_cast_no_check (eq_refl true). Qed.     (* the kernel evaluates it once, at Qed *)

Theorem row_float_exact j : 1 <= j <= 200000 ->
  is_ceil (row_arg_float j) (ceil_float j) = true /\ row_float j = row_exact j.
Proof.
  intros Hj. pose proof (allZ_sound _ _ _ row_float_checked j ltac:(unfold float_bound; lia)) as H.
  unfold row_float_ok in H. apply andb_true_iff in H. destruct H as [H1 H2]. split; [exact H1|lia].
Qed.
Theorem noll_float_exact j : 1 <= j <= 200000 -> noll_float j = noll_exact j.
Proof. intros Hj. unfold noll_float, noll_exact, noll_code. rewrite (proj2 (row_float_exact j Hj)). reflexivity. Qed.
