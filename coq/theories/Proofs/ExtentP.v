(* Extent queries agree with the sets of integer pixel coordinates they denote (C06, last sentence). *)
From LV Require Import Model.Extent.

Definition evalid (e : extent) : Prop := let '(rmin, rmax, cmin, cmax) := e in rmin <= rmax /\ cmin <= cmax.

Lemma inE_spec e r c : inE e r c = true <->
  let '(rmin, rmax, cmin, cmax) := e in rmin <= r <= rmax /\ cmin <= c <= cmax.
Proof. destruct e as [[[a b] c0] d]. unfold inE, inb. lia. Qed.

Theorem intersect_iff_common_point a b : evalid a -> evalid b ->
  (intersect a b = true <-> exists r c, inE a r c = true /\ inE b r c = true).
Proof.
  destruct a as [[[a1 a2] a3] a4], b as [[[b1 b2] b3] b4]. unfold evalid, intersect. intros Ha Hb. split.
  - intros H. exists (Z.max a1 b1), (Z.max a3 b3). rewrite !inE_spec. lia.
  - intros (r & c & H1 & H2). rewrite inE_spec in H1, H2. lia.
Qed.

Theorem intersection_extent_is_set_intersection a b r c :
  inE (intersection_extent a b) r c = inE a r c && inE b r c.
Proof. destruct a as [[[a1 a2] a3] a4], b as [[[b1 b2] b3] b4]. unfold intersection_extent, inE, inb. lia. Qed.

Theorem intersection_shape_none a b :
  intersection_shape a b = None <-> forall r c, inE a r c && inE b r c = false.
Proof.
  destruct a as [[[a1 a2] a3] a4], b as [[[b1 b2] b3] b4]. unfold intersection_shape, intersection_extent.
  set (r0 := Z.max a1 b1). set (r1 := Z.min a2 b2). set (c0 := Z.max a3 b3). set (c1 := Z.min a4 b4).
  destruct ((r1 - r0 + 1 <=? 0) || (c1 - c0 + 1 <=? 0)) eqn:E; split; intros H; try reflexivity; try discriminate.
  - intros r c. unfold inE, inb. subst r0 r1 c0 c1. lia.
  - exfalso. specialize (H r0 c0). unfold inE, inb in H. subst r0 r1 c0 c1. lia.
Qed.

Theorem intersection_shape_some a b n m : intersection_shape a b = Some (n, m) ->
  (n, m) = ext_shape (intersection_extent a b) /\ 0 < n /\ 0 < m.
Proof.
  destruct a as [[[a1 a2] a3] a4], b as [[[b1 b2] b3] b4]. unfold intersection_shape, intersection_extent, ext_shape.
  set (r0 := Z.max a1 b1). set (r1 := Z.min a2 b2). set (c0 := Z.max a3 b3). set (c1 := Z.min a4 b4).
  destruct ((r1 - r0 + 1 <=? 0) || (c1 - c0 + 1 <=? 0)) eqn:E; intros H; [discriminate|].
  injection H as <- <-. repeat split; lia.
Qed.

(* the slices select exactly the common coordinates, in each operand's own index frame *)
Theorem intersection_slices_select a b i j :
  let '(((ar0, ar1), (ac0, ac1)), ((br0, br1), (bc0, bc1))) := intersection_slices a b in
  let '(armin, _, acmin, _) := a in let '(brmin, _, bcmin, _) := b in
  (((ar0 <=? i) && (i <? ar1) && (ac0 <=? j) && (j <? ac1)) = inE a (armin + i) (acmin + j) && inE b (armin + i) (acmin + j))
  /\ (((br0 <=? i) && (i <? br1) && (bc0 <=? j) && (j <? bc1)) = inE a (brmin + i) (bcmin + j) && inE b (brmin + i) (bcmin + j))
  /\ ar1 - ar0 = br1 - br0 /\ ac1 - ac0 = bc1 - bc0
  /\ armin + ar0 = brmin + br0 /\ acmin + ac0 = bcmin + bc0.
Proof.
  destruct a as [[[a1 a2] a3] a4], b as [[[b1 b2] b3] b4]. unfold intersection_slices, intersection_extent, inE, inb.
  repeat split; lia.
Qed.

Theorem intersection_shift_is_center a b : intersection_shift a b = array_center (intersection_extent a b).
Proof. destruct a as [[[a1 a2] a3] a4], b as [[[b1 b2] b3] b4]. reflexivity. Qed.

Theorem array_extent_center_roundtrip e : evalid e ->
  let '(n, m) := ext_shape e in let '(r, c) := array_center e in array_extent n m r c = e.
Proof.
  destruct e as [[[a1 a2] a3] a4]. unfold evalid, ext_shape, array_center, array_extent. intros [H1 H2].
  repeat f_equal; lia.
Qed.

(* the centre of an array extent is the shift: the origin sample (index floor(n/2)) sits at the shift *)
Theorem array_center_of_array_extent n m r c : 0 < n -> 0 < m -> array_center (array_extent n m r c) = (r, c).
Proof. intros Hn Hm. unfold array_center, array_extent. f_equal; lia. Qed.

Theorem array_extent_shape n m r c : ext_shape (array_extent n m r c) = (n, m).
Proof. unfold ext_shape, array_extent. f_equal; lia. Qed.

(* membership in an array extent: sample (i,j) of the array sits at coordinate (i - n/2 + r, j - m/2 + c) *)
Theorem array_extent_mem n m r c x y :
  inE (array_extent n m r c) x y = inr n (x - r + n / 2) && inr m (y - c + m / 2).
Proof. unfold inE, array_extent, inb, inr. lia. Qed.
