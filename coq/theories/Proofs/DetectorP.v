(* Lemmas about the detector model (Model/Detector.v): charge collection is the per-pixel sum over
   wavelength slices, bilinear; the colour filter array selects the efficiency of the tiled pattern;
   digitisation is floor(poly(min(e, sat))) clipped at zero, monotone for non-negative gain curves. *)
From LV Require Import Model.Detector.

Lemma bdim_same a : bdim a a = Ok a.
Proof. unfold bdim. now rewrite Z.eqb_refl. Qed.
Lemma bidx_in n i : 0 <= i < n -> bidx n i = i.
Proof. intros H. unfold bidx. destruct (n =? 1) eqn:E; lia. Qed.

(* ------------------------------------------------------------------ format_bayer_string *)
Lemma format_bayer_ok l p : format_bayer l = Ok p ->
  forallb chan_ok l = true /\ Z.of_nat (length l) = pk p * pk p /\ 0 <= pk p /\
  forall i j, pch p i j = nth (Z.to_nat (i * pk p + j)) l 0.
Proof.
  unfold format_bayer. destruct (forallb chan_ok l) eqn:E; [|discriminate].
  destruct (Z.of_nat (length l) =? Z.sqrt (Z.of_nat (length l)) * Z.sqrt (Z.of_nat (length l))) eqn:E2; [|discriminate].
  intros H. injection H as <-. cbn [pk pch]. repeat split; try lia. apply Z.sqrt_nonneg.
Qed.
Lemma format_bayer_complete l k : forallb chan_ok l = true -> 0 <= k -> Z.of_nat (length l) = k * k ->
  exists p, format_bayer l = Ok p /\ pk p = k.
Proof.
  intros H Hk Hl. unfold format_bayer. rewrite H, Hl.
  assert (Z.sqrt (k * k) = k) as -> by (apply Z.sqrt_square; lia).
  rewrite Z.eqb_refl. eexists. split; reflexivity.
Qed.
Lemma format_bayer_bad_char l : forallb chan_ok l = false -> format_bayer l = Err ValueError.
Proof. intros H. unfold format_bayer. now rewrite H. Qed.
Lemma format_bayer_not_square l : (forall k, Z.of_nat (length l) <> k * k) -> format_bayer l = Err ValueError.
Proof. intros H. unfold format_bayer. destruct (forallb chan_ok l); [|reflexivity].
  destruct (_ =? _) eqn:E; [|reflexivity]. exfalso. apply (H (Z.sqrt (Z.of_nat (length l)))). lia. Qed.
Lemma pattern_chan_ok l p i j : format_bayer l = Ok p -> 0 <= i < pk p -> 0 <= j < pk p ->
  chan_ok (pch p i j) = true.
Proof.
  intros H Hi Hj. destruct (format_bayer_ok _ _ H) as (Hall & Hlen & Hk & Hget).
  rewrite Hget. rewrite forallb_forall in Hall. apply Hall. apply nth_In. nia.
Qed.

Section CollectP.
Variable S : Scalar.
Hypothesis Sring : is_ring S.
Add Ring Sr : Sring.

(* ------------------------------------------------------------------ collect_charge *)
Lemma qe_asarray_vn (q : qerep S) nw v : qe_asarray q nw = Ok v -> vn v = nw.
Proof. destruct q as [q|w]; cbn [qe_asarray].
  - intros H; injection H as <-. reflexivity.
  - destruct (vn w =? nw) eqn:E; [|discriminate]. intros H; injection H as <-. lia. Qed.

Lemma einsum_ki_ok (c : cube S) (q : vec S) : cnk c = vn q ->
  exists a, einsum_ki c q = Ok a /\ nr a = cnr c /\ nc a = cnc c /\
            forall i j, get a i j = charge_at c q i j.
Proof.
  intros H. unfold einsum_ki. rewrite <- H, bdim_same. cbn [rbind]. eexists. split; [reflexivity|].
  cbn [nr nc get]. repeat split. intros i j. unfold charge_at. apply sumZ_ext. intros k Hk.
  now rewrite bidx_in by lia.
Qed.

Lemma collect_charge_gen (img : imgrep S) (nw : Z) (q : qerep S) (v : vec S) :
  cnk (as_cube img) = nw -> qe_asarray q nw = Ok v ->
  exists a, collect_charge img nw q = Ok a /\ nr a = cnr (as_cube img) /\ nc a = cnc (as_cube img) /\
            forall i j, get a i j = charge_at (as_cube img) v i j.
Proof.
  intros Hk Hq. unfold collect_charge. rewrite Hq. cbn [rbind]. apply einsum_ki_ok.
  rewrite (qe_asarray_vn _ _ _ Hq). exact Hk.
Qed.

Lemma collect_charge_spec (img : imgrep S) (nw : Z) (v : vec S) :
  cnk (as_cube img) = nw -> vn v = nw ->
  exists a, collect_charge img nw (QVec v) = Ok a /\ nr a = cnr (as_cube img) /\ nc a = cnc (as_cube img) /\
            forall i j, get a i j = sumZ nw (fun k => (cget (as_cube img) k i j * vget v k)%K).
Proof.
  intros Hk Hv. destruct (collect_charge_gen img nw (QVec v) v Hk) as (a & H1 & H2 & H3 & H4).
  - cbn [qe_asarray]. now replace (vn v =? nw) with true by lia.
  - exists a. repeat split; try assumption. intros i j. rewrite H4. unfold charge_at. now rewrite Hk.
Qed.

(* bilinearity of the per-pixel sum *)
Lemma charge_at_scale_cube s (a : cube S) q i j :
  charge_at (cube_scale s a) q i j = (s * charge_at a q i j)%K.
Proof. unfold charge_at, cube_scale. cbn [cnk cget]. rewrite <- (sumZ_scale_l S Sring). apply sumZ_ext. intros; ring. Qed.
Lemma charge_at_add_vec (c : cube S) p q i j :
  charge_at c (vec_add p q) i j = (charge_at c p i j + charge_at c q i j)%K.
Proof. unfold charge_at, vec_add. cbn [vget]. rewrite <- (sumZ_add S Sring). apply sumZ_ext. intros; ring. Qed.
Lemma charge_at_scale_vec s (c : cube S) q i j :
  charge_at c (vec_scale s q) i j = (s * charge_at c q i j)%K.
Proof. unfold charge_at, vec_scale. cbn [vget]. rewrite <- (sumZ_scale_l S Sring). apply sumZ_ext. intros; ring. Qed.

Lemma collect_charge_additive_cube (a b : cube S) nw (v : vec S) :
  cnk a = nw -> cnk b = nw -> vn v = nw ->
  exists ra rb rab, collect_charge (Img3 a) nw (QVec v) = Ok ra /\ collect_charge (Img3 b) nw (QVec v) = Ok rb /\
    collect_charge (Img3 (cube_add a b)) nw (QVec v) = Ok rab /\ nr rab = nr ra /\ nc rab = nc ra /\
    forall i j, get rab i j = (get ra i j + get rb i j)%K.
Proof.
  intros Ha Hb Hv.
  destruct (collect_charge_spec (Img3 a) nw v Ha Hv) as (ra & A1 & A2 & A3 & A4).
  destruct (collect_charge_spec (Img3 b) nw v Hb Hv) as (rb & B1 & B2 & B3 & B4).
  destruct (collect_charge_spec (Img3 (cube_add a b)) nw v Ha Hv) as (rab & C1 & C2 & C3 & C4).
  exists ra, rb, rab. repeat split; try assumption.
  - rewrite C2, A2. reflexivity.
  - rewrite C3, A3. reflexivity.
  - intros i j. rewrite A4, B4, C4. cbn [as_cube cube_add cget]. rewrite <- (sumZ_add S Sring). apply sumZ_ext. intros; ring.
Qed.
Lemma collect_charge_homogeneous_cube s (a : cube S) nw (v : vec S) :
  cnk a = nw -> vn v = nw ->
  exists ra rs, collect_charge (Img3 a) nw (QVec v) = Ok ra /\
    collect_charge (Img3 (cube_scale s a)) nw (QVec v) = Ok rs /\ nr rs = nr ra /\ nc rs = nc ra /\
    forall i j, get rs i j = (s * get ra i j)%K.
Proof.
  intros Ha Hv.
  destruct (collect_charge_spec (Img3 a) nw v Ha Hv) as (ra & A1 & A2 & A3 & A4).
  destruct (collect_charge_spec (Img3 (cube_scale s a)) nw v Ha Hv) as (rs & C1 & C2 & C3 & C4).
  exists ra, rs. repeat split; try assumption.
  - rewrite C2, A2. reflexivity.
  - rewrite C3, A3. reflexivity.
  - intros i j. rewrite A4, C4. cbn [as_cube cube_scale cget]. rewrite <- (sumZ_scale_l S Sring). apply sumZ_ext. intros; ring.
Qed.
Lemma collect_charge_additive_qe (img : imgrep S) nw (p q : vec S) :
  cnk (as_cube img) = nw -> vn p = nw -> vn q = nw ->
  exists rp rq rpq, collect_charge img nw (QVec p) = Ok rp /\ collect_charge img nw (QVec q) = Ok rq /\
    collect_charge img nw (QVec (vec_add p q)) = Ok rpq /\ nr rpq = nr rp /\ nc rpq = nc rp /\
    forall i j, get rpq i j = (get rp i j + get rq i j)%K.
Proof.
  intros Hk Hp Hq.
  destruct (collect_charge_spec img nw p Hk Hp) as (rp & A1 & A2 & A3 & A4).
  destruct (collect_charge_spec img nw q Hk Hq) as (rq & B1 & B2 & B3 & B4).
  destruct (collect_charge_spec img nw (vec_add p q) Hk Hp) as (rpq & C1 & C2 & C3 & C4).
  exists rp, rq, rpq. repeat split; try assumption.
  - rewrite C2, A2. reflexivity.
  - rewrite C3, A3. reflexivity.
  - intros i j. rewrite A4, B4, C4. cbn [vec_add vget]. rewrite <- (sumZ_add S Sring). apply sumZ_ext. intros; ring.
Qed.
Lemma collect_charge_homogeneous_qe s (img : imgrep S) nw (q : vec S) :
  cnk (as_cube img) = nw -> vn q = nw ->
  exists rq rs, collect_charge img nw (QVec q) = Ok rq /\
    collect_charge img nw (QVec (vec_scale s q)) = Ok rs /\ nr rs = nr rq /\ nc rs = nc rq /\
    forall i j, get rs i j = (s * get rq i j)%K.
Proof.
  intros Hk Hq.
  destruct (collect_charge_spec img nw q Hk Hq) as (rq & A1 & A2 & A3 & A4).
  destruct (collect_charge_spec img nw (vec_scale s q) Hk Hq) as (rs & C1 & C2 & C3 & C4).
  exists rq, rs. repeat split; try assumption.
  - rewrite C2, A2. reflexivity.
  - rewrite C3, A3. reflexivity.
  - intros i j. rewrite A4, C4. cbn [vec_scale vget]. rewrite <- (sumZ_scale_l S Sring). apply sumZ_ext. intros; ring.
Qed.

(* a scalar efficiency is the constant vector: q times the sum of the slices *)
Lemma collect_charge_scalar (img : imgrep S) nw (q : S) :
  cnk (as_cube img) = nw ->
  exists a b, collect_charge img nw (QScalar q) = Ok a /\
    collect_charge img nw (QVec (mkVec nw (fun _ => q))) = Ok b /\ arr_eq a b /\
    forall i j, get a i j = (q * sumZ nw (fun k => cget (as_cube img) k i j))%K.
Proof.
  intros Hk.
  destruct (collect_charge_gen img nw (QScalar q) _ Hk eq_refl) as (a & A1 & A2 & A3 & A4).
  destruct (collect_charge_spec img nw (mkVec nw (fun _ => q)) Hk eq_refl) as (b & B1 & B2 & B3 & B4).
  exists a, b. split; [exact A1|]. split; [exact B1|].
  assert (forall i j, get a i j = (q * sumZ nw (fun k => cget (as_cube img) k i j))%K) as Hv.
  { intros i j. rewrite A4. unfold charge_at. cbn [vget]. rewrite Hk, <- (sumZ_scale_l S Sring). apply sumZ_ext. intros; ring. }
  split; [|exact Hv]. unfold arr_eq. rewrite A2, A3, B2, B3. repeat split.
  intros i j _ _. rewrite Hv, B4. cbn [vget]. rewrite <- (sumZ_scale_l S Sring). apply sumZ_ext. intros; ring.
Qed.

(* ------------------------------------------------------------------ colour filter array *)
Lemma mosaic_get (p : pattern) (ch nrow ncol os i j : Z) :
  get (mosaic (S:=S) p ch nrow ncol os) i j =
  if pch p ((i / os) mod pk p) ((j / os) mod pk p) =? ch then k1 else k0.
Proof. reflexivity. Qed.
Lemma mosaic_shape (p : pattern) (os n a : Z) : 1 <= pk p -> 1 <= os -> 0 <= a -> n = pk p * os * a ->
  pk p * ((n / os) / pk p) * os = n.
Proof.
  intros Hk Ho Ha ->. replace (pk p * os * a) with ((pk p * a) * os) by ring.
  rewrite Z.div_mul by lia. rewrite (Z.mul_comm (pk p) a), Z.div_mul by lia. ring.
Qed.

Lemma channel_e_spec (c : cube S) (v : vec S) p ch os a b :
  cnk c = vn v -> 1 <= pk p -> 1 <= os -> 0 <= a -> 0 <= b ->
  cnr c = pk p * os * a -> cnc c = pk p * os * b ->
  exists e, channel_e c v (mosaic p ch (cnr c / os) (cnc c / os) os) = Ok e /\ nr e = cnr c /\ nc e = cnc c /\
    forall i j, 0 <= i < cnr c -> 0 <= j < cnc c ->
      get e i j = if pch p ((i / os) mod pk p) ((j / os) mod pk p) =? ch then charge_at c v i j else k0.
Proof.
  intros Hk Hp Ho Ha Hb Hr Hc. unfold channel_e.
  destruct (einsum_ki_ok c v Hk) as (e & E1 & E2 & E3 & E4). rewrite E1. cbn [rbind].
  unfold bmul.
  assert (nr (mosaic (S:=S) p ch (cnr c / os) (cnc c / os) os) = cnr c) as Hmr
    by (cbn [mosaic repeat2 tile kernel nr]; apply (mosaic_shape p os (cnr c) a); assumption).
  assert (nc (mosaic (S:=S) p ch (cnr c / os) (cnc c / os) os) = cnc c) as Hmc
    by (cbn [mosaic repeat2 tile kernel nc]; apply (mosaic_shape p os (cnc c) b); assumption).
  rewrite Hmr, Hmc, E2, E3, !bdim_same. cbn [rbind]. eexists. split; [reflexivity|]. cbn [nr nc get].
  repeat split. intros i j Hi Hj. rewrite !bidx_in by lia. rewrite E4, mosaic_get.
  destruct (_ =? ch); ring.
Qed.

Lemma bayer_channels_spec (img : imgrep S) nw (qr qg qb : qerep S) (vr vg vb : vec S) pat p os a b :
  cnk (as_cube img) = nw ->
  qe_asarray qr nw = Ok vr -> qe_asarray qg nw = Ok vg -> qe_asarray qb nw = Ok vb ->
  format_bayer pat = Ok p -> 1 <= pk p -> 1 <= os -> 0 <= a -> 0 <= b ->
  cnr (as_cube img) = pk p * os * a -> cnc (as_cube img) = pk p * os * b ->
  exists r g bl, collect_charge_bayer_channels img nw qr qg qb pat os = Ok (r, g, bl) /\
    (nr r = cnr (as_cube img) /\ nc r = cnc (as_cube img)) /\
    (nr g = cnr (as_cube img) /\ nc g = cnc (as_cube img)) /\
    (nr bl = cnr (as_cube img) /\ nc bl = cnc (as_cube img)) /\
    forall i j, 0 <= i < cnr (as_cube img) -> 0 <= j < cnc (as_cube img) ->
      get r i j = (if pch p ((i / os) mod pk p) ((j / os) mod pk p) =? 0 then charge_at (as_cube img) vr i j else k0) /\
      get g i j = (if pch p ((i / os) mod pk p) ((j / os) mod pk p) =? 1 then charge_at (as_cube img) vg i j else k0) /\
      get bl i j = (if pch p ((i / os) mod pk p) ((j / os) mod pk p) =? 2 then charge_at (as_cube img) vb i j else k0).
Proof.
  intros Hk Hqr Hqg Hqb Hpat Hp Ho Ha Hb Hr Hc.
  unfold collect_charge_bayer_channels. rewrite Hqr, Hqg, Hqb, Hpat. cbn [rbind].
  replace ((os <? 1) || (pk p <? 1)) with false by lia.
  pose proof (qe_asarray_vn _ _ _ Hqr) as Vr. pose proof (qe_asarray_vn _ _ _ Hqg) as Vg.
  pose proof (qe_asarray_vn _ _ _ Hqb) as Vb.
  destruct (channel_e_spec (as_cube img) vr p 0 os a b) as (r & R1 & R2 & R3 & R4); try assumption; try lia.
  destruct (channel_e_spec (as_cube img) vg p 1 os a b) as (g & G1 & G2 & G3 & G4); try assumption; try lia.
  destruct (channel_e_spec (as_cube img) vb p 2 os a b) as (bl & B1 & B2 & B3 & B4); try assumption; try lia.
  cbv zeta. rewrite R1, G1, B1. cbn [rbind]. exists r, g, bl. split; [reflexivity|].
  repeat split; try assumption; [apply R4 | apply G4 | apply B4]; assumption.
Qed.

(* the flattened image: every sub-pixel collects with the efficiency of its colour *)
Lemma bayer_spec (img : imgrep S) nw (qr qg qb : qerep S) (vr vg vb : vec S) pat p os a b :
  cnk (as_cube img) = nw ->
  qe_asarray qr nw = Ok vr -> qe_asarray qg nw = Ok vg -> qe_asarray qb nw = Ok vb ->
  format_bayer pat = Ok p -> 1 <= pk p -> 1 <= os -> 0 <= a -> 0 <= b ->
  cnr (as_cube img) = pk p * os * a -> cnc (as_cube img) = pk p * os * b ->
  exists o, collect_charge_bayer img nw qr qg qb pat os = Ok o /\
    nr o = cnr (as_cube img) /\ nc o = cnc (as_cube img) /\
    forall i j, 0 <= i < cnr (as_cube img) -> 0 <= j < cnc (as_cube img) ->
      get o i j = charge_at (as_cube img) (qe_of (pch p ((i / os) mod pk p) ((j / os) mod pk p)) vr vg vb) i j.
Proof.
  intros Hk Hqr Hqg Hqb Hpat Hp Ho Ha Hb Hr Hc.
  destruct (bayer_channels_spec img nw qr qg qb vr vg vb pat p os a b) as (r & g & bl & H1 & (R2 & R3) & _ & _ & H4);
    try assumption.
  unfold collect_charge_bayer. rewrite H1. cbn [rbind flatten3]. eexists. split; [reflexivity|]. cbn [nr nc get].
  repeat split; try assumption. intros i j Hi Hj. destruct (H4 i j Hi Hj) as (Er & Eg & Eb). rewrite Er, Eg, Eb.
  assert (chan_ok (pch p ((i / os) mod pk p) ((j / os) mod pk p)) = true) as Hch.
  { apply (pattern_chan_ok pat); [assumption| |]; apply Z.mod_pos_bound; lia. }
  unfold chan_ok in Hch. unfold qe_of.
  set (ch := pch p ((i / os) mod pk p) ((j / os) mod pk p)) in *. clearbody ch.
  destruct (ch =? 0) eqn:E0; destruct (ch =? 1) eqn:E1; destruct (ch =? 2) eqn:E2; try lia; ring.
Qed.

(* the separate channel images sum to the flattened one *)
Lemma bayer_channels_sum (img : imgrep S) nw (qr qg qb : qerep S) pat os r g bl :
  collect_charge_bayer_channels img nw qr qg qb pat os = Ok (r, g, bl) ->
  exists o, collect_charge_bayer img nw qr qg qb pat os = Ok o /\ nr o = nr r /\ nc o = nc r /\
    forall i j, get o i j = (get r i j + get g i j + get bl i j)%K.
Proof. intros H. unfold collect_charge_bayer. rewrite H. cbn [rbind flatten3]. eexists. split; [reflexivity|].
  cbn [nr nc get]. repeat split. Qed.

(* equal efficiencies in all channels reproduce the monochrome result *)
Lemma bayer_equal_qe_is_mono (img : imgrep S) nw (q : qerep S) (v : vec S) pat p os a b :
  cnk (as_cube img) = nw -> qe_asarray q nw = Ok v ->
  format_bayer pat = Ok p -> 1 <= pk p -> 1 <= os -> 0 <= a -> 0 <= b ->
  cnr (as_cube img) = pk p * os * a -> cnc (as_cube img) = pk p * os * b ->
  exists o m, collect_charge_bayer img nw q q q pat os = Ok o /\ collect_charge img nw q = Ok m /\ arr_eq o m.
Proof.
  intros Hk Hq Hpat Hp Ho Ha Hb Hr Hc.
  destruct (bayer_spec img nw q q q v v v pat p os a b) as (o & O1 & O2 & O3 & O4); try assumption.
  destruct (collect_charge_gen img nw q v Hk Hq) as (m & M1 & M2 & M3 & M4).
  exists o, m. split; [exact O1|]. split; [exact M1|]. unfold arr_eq. rewrite O2, O3, M2, M3. repeat split.
  intros i j Hi Hj. rewrite O4 by assumption. rewrite M4. unfold qe_of.
  destruct (_ =? 0); [reflexivity|]. destruct (_ =? 1); reflexivity.
Qed.

End CollectP.

(* ====================================================================================
   adc
   ==================================================================================== *)
Local Open Scope Qc_scope.

Lemma qgt_spec x y : qgt x y = true <-> y < x.
Proof. unfold qgt. change (y < x) with (x > y). rewrite Qcgt_alt. destruct (x ?= y); split; congruence. Qed.
Lemma qgt_false x y : qgt x y = false <-> x <= y.
Proof. unfold qgt. rewrite Qcle_alt. destruct (x ?= y); split; congruence. Qed.

Lemma clip_is_spec sat e : clip sat e = clip_spec sat e.
Proof. reflexivity. Qed.

(* ---- the power cube contracted with the gain is the gain polynomial without constant term ---- *)
Definition hstep (x acc c : Qc) : Qc := acc * x + c.
Lemma polyval_snoc l c x : polyval (l ++ [c]) x = polyval l x * x + c.
Proof. unfold polyval. rewrite fold_left_app. reflexivity. Qed.

Lemma rpoly_horner (c : nat -> Qc) e m :
  @sumn QcS m (fun d => Qcpower e (m - d) * c d) = polyval (map c (seq 0 m)) e * e.
Proof.
  induction m as [|m IH].
  - cbn. ring.
  - cbn [sumn]. rewrite seq_S, map_app. cbn [map Nat.add]. rewrite polyval_snoc.
    rewrite (sumn_ext QcS m _ (fun d => e * (Qcpower e (m - d) * c d))).
    + rewrite (sumn_scale_l QcS Qcrt). rewrite IH. replace (Datatypes.S m - m)%nat with 1%nat by lia.
      cbn [kadd kmul K QcS Qcpower]. ring.
    + intros i Hi. replace (Datatypes.S m - i)%nat with (Datatypes.S (m - i)) by lia. cbn [Qcpower kadd kmul K QcS]. ring.
Qed.

Lemma power_slice_pow n d e : (0 <= d < n)%Z -> power_slice n d e = Qcpower e (Z.to_nat n - Z.to_nat d).
Proof.
  intros H. unfold power_slice. destruct (d <? n - 1)%Z eqn:E.
  - f_equal. lia.
  - replace (Z.to_nat n - Z.to_nat d)%nat with 1%nat by lia. cbn. ring.
Qed.

Lemma gain_model_polyval n coef e :
  gain_model n coef e = polyval (map coef (zrange n) ++ [0]) e.
Proof.
  rewrite polyval_snoc. unfold gain_model, zrange, sumZ. rewrite map_map.
  rewrite <- (rpoly_horner (fun d => coef (Z.of_nat d)) e (Z.to_nat n)).
  assert (forall x : Qc, x + 0 = x) as -> by (intros; ring).
  apply (sumn_ext QcS). intros i Hi. rewrite power_slice_pow by lia. now rewrite Nat2Z.id.
Qed.

Lemma nth_map_seq {A} (f : nat -> A) m n d : (n < m)%nat -> nth n (map f (seq 0 m)) d = f n.
Proof. intros H. rewrite (nth_indep _ d (f 0%nat)) by (now rewrite map_length, seq_length).
  rewrite (map_nth f), seq_nth by assumption. reflexivity. Qed.
Lemma map_nth_zrange (l : list Qc) :
  map (fun d => nth (Z.to_nat d) l 0) (zrange (Z.of_nat (length l))) = l.
Proof.
  unfold zrange. rewrite Nat2Z.id, map_map.
  apply (nth_ext _ _ 0 0).
  - now rewrite map_length, seq_length.
  - intros n Hn. rewrite map_length, seq_length in Hn.
    rewrite nth_map_seq by assumption. now rewrite Nat2Z.id.
Qed.

(* the polynomial the einsum form of gain [g] applies at pixel (i,j) *)
Lemma gcoef_poly g i j : g <> GN ->
  map (fun d => gcoef g d i j) (zrange (gorder g)) = gain_poly g i j.
Proof.
  destruct g as [v|l|a|c|]; intros H; cbn [gcoef gorder gain_poly]; try reflexivity.
  apply map_nth_zrange.
Qed.

(* ---- anyZ ---- *)
Lemma anyn_spec n f : anyn n f = true <-> exists i, (i < n)%nat /\ f i = true.
Proof.
  induction n as [|n IH]; cbn [anyn].
  - split; [discriminate|]. intros (i & Hi & _). lia.
  - rewrite orb_true_iff, IH. split.
    + intros [(i & Hi & Hf)|Hf]; [exists i|exists n]; split; auto; lia.
    + intros (i & Hi & Hf). destruct (Nat.eq_dec i n) as [->|Hne]; [now right|]. left. exists i. split; [lia|assumption].
Qed.
Lemma anyZ_spec n f : anyZ n f = true <-> exists i, (0 <= i < n)%Z /\ f i = true.
Proof.
  unfold anyZ. rewrite anyn_spec. split.
  - intros (i & Hi & Hf). exists (Z.of_nat i). split; [lia|assumption].
  - intros (i & Hi & Hf). exists (Z.to_nat i). split; [lia|]. now rewrite Z2Nat.id by lia.
Qed.

Lemma saturated_spec sat img : saturated sat img = true <-> exceeds sat img.
Proof.
  unfold saturated, exceeds, sat_active. destruct sat as [s|]; [|split; [discriminate|tauto]].
  rewrite anyZ_spec. split.
  - intros (i & Hi & Hf). apply anyZ_spec in Hf. destruct Hf as (j & Hj & Hf). apply qgt_spec in Hf. eauto.
  - intros (i & j & Hi & Hj & Hf). exists i. split; [assumption|]. apply anyZ_spec. exists j. split; [assumption|].
    now apply qgt_spec.
Qed.

(* ---- the four gain forms: DN = max(0, floor(poly(min(e, sat)))) at every pixel ---- *)
Lemma adc_frame_get img g sat r c gr gc i j :
  get (adc_frame img g sat r c gr gc) i j =
  Z.max 0 (qfloor (gain_model (gorder g) (fun d => gcoef g d (bidx gr i) (bidx gc j))
                     (clip sat (get img (bidx (nr img) i) (bidx (nc img) j))))).
Proof. reflexivity. Qed.

Lemma adc_ok img g sat warn : gain_fits g (nr img) (nc img) ->
  exists dn, adc img g sat warn = Ok (warn && saturated sat img, dn) /\ nr dn = nr img /\ nc dn = nc img /\
    forall i j, (0 <= i < nr img)%Z -> (0 <= j < nc img)%Z ->
      get dn i j = Z.max 0 (qfloor (polyval (gain_poly g i j ++ [0]) (clip sat (get img i j)))).
Proof.
  intros Hf. unfold adc.
  destruct g as [v|l|a|c|]; cbn [gain_fits] in Hf; try contradiction; cbn [gdims].
  - eexists. split; [reflexivity|]. cbn [nr nc adc_frame]. repeat split. intros i j Hi Hj.
    rewrite adc_frame_get, gain_model_polyval, (bidx_in (nr img)), (bidx_in (nc img)) by assumption.
    rewrite (gcoef_poly (G0 v)) by discriminate. reflexivity.
  - eexists. split; [reflexivity|]. cbn [nr nc adc_frame]. repeat split. intros i j Hi Hj.
    rewrite adc_frame_get, gain_model_polyval, (bidx_in (nr img)), (bidx_in (nc img)) by assumption.
    rewrite (gcoef_poly (G1 l)) by discriminate. reflexivity.
  - destruct Hf as (Hr & Hc). rewrite Hr, Hc, !bdim_same. cbn [rbind]. eexists. split; [reflexivity|].
    cbn [nr nc adc_frame]. repeat split; try congruence. intros i j Hi Hj.
    rewrite adc_frame_get, gain_model_polyval, !bidx_in by assumption.
    rewrite (gcoef_poly (G2 a)) by discriminate. reflexivity.
  - destruct Hf as (Hr & Hc & Hk). rewrite Hr, Hc, !bdim_same. cbn [rbind]. eexists. split; [reflexivity|].
    cbn [nr nc adc_frame]. repeat split; try congruence. intros i j Hi Hj.
    rewrite adc_frame_get, gain_model_polyval, !bidx_in by assumption.
    rewrite (gcoef_poly (G3 c)) by discriminate. reflexivity.
Qed.

Lemma adc_spec img g sat warn : gain_fits g (nr img) (nc img) ->
  exists w dn, adc img g sat warn = Ok (w, dn) /\ nr dn = nr img /\ nc dn = nc img /\
    (forall i j, (0 <= i < nr img)%Z -> (0 <= j < nc img)%Z ->
       get dn i j = dn_spec (gain_poly g i j) sat (get img i j) /\ (0 <= get dn i j)%Z) /\
    (w = true <-> warn = true /\ exceeds sat img).
Proof.
  intros Hf. destruct (adc_ok img g sat warn Hf) as (dn & H1 & H2 & H3 & H4).
  exists (warn && saturated sat img), dn. repeat split; try assumption.
  - rewrite H4 by assumption. reflexivity.
  - rewrite H4 by assumption. apply Z.le_max_l.
  - apply andb_true_iff in H. tauto.
  - apply saturated_spec. apply andb_true_iff in H. tauto.
  - intros (Hw & He). apply andb_true_iff. split; [assumption|]. now apply saturated_spec.
Qed.

(* error cases *)
Lemma adc_bad_ndim img sat warn : adc img GN sat warn = Err ValueError.
Proof. reflexivity. Qed.
Lemma bdim_err a b : a <> b -> a <> 1%Z -> b <> 1%Z -> bdim a b = Err ValueError.
Proof. intros. unfold bdim. destruct (a =? b)%Z eqn:E1; [lia|]. destruct (a =? 1)%Z eqn:E2; [lia|].
  destruct (b =? 1)%Z eqn:E3; [lia|]. reflexivity. Qed.
Lemma bdim_err_kind a b e : bdim a b = Err e -> e = ValueError.
Proof. unfold bdim. destruct (a =? b)%Z; [discriminate|]. destruct (a =? 1)%Z; [discriminate|].
  destruct (b =? 1)%Z; [discriminate|]. congruence. Qed.
Lemma adc_gain_shape_mismatch img g sat warn gr gc : gdims g = Some (gr, gc) ->
  (nr img <> gr /\ nr img <> 1 /\ gr <> 1)%Z \/ (nc img <> gc /\ nc img <> 1 /\ gc <> 1)%Z ->
  adc img g sat warn = Err ValueError.
Proof.
  intros Hd H. unfold adc.
  destruct g as [v|l|a|c|]; cbn [gdims] in Hd; try discriminate; injection Hd as <- <-; cbn [gdims].
  all: destruct H as [(A & B & C)|(A & B & C)].
  all: try (rewrite (bdim_err (nr img) _) by assumption; reflexivity).
  all: destruct (bdim (nr img) _) eqn:E; cbn [rbind]; [|now rewrite (bdim_err_kind _ _ _ E)].
  all: rewrite (bdim_err (nc img) _) by assumption; reflexivity.
Qed.

(* ---- monotonicity: floor . poly . min is non-decreasing for non-negative gain curves ---- *)
Lemma Qc_mul_nonneg a b : 0 <= a -> 0 <= b -> 0 <= a * b.
Proof. intros Ha Hb. replace 0 with (0 * b) by ring. now apply Qcmult_le_compat_r. Qed.
Lemma Qc_add_nonneg a b : 0 <= a -> 0 <= b -> 0 <= a + b.
Proof. intros Ha Hb. replace 0 with (0 + 0) by ring. now apply Qcplus_le_compat. Qed.
Lemma Qc_mul_mono a1 a2 x y : 0 <= a1 -> a1 <= a2 -> 0 <= x -> x <= y -> a1 * x <= a2 * y.
Proof.
  intros H1 H2 H3 H4. apply Qcle_trans with (a2 * x).
  - now apply Qcmult_le_compat_r.
  - rewrite (Qcmult_comm a2 x), (Qcmult_comm a2 y). apply Qcmult_le_compat_r; [assumption|].
    now apply Qcle_trans with a1.
Qed.

Lemma horner_mono l : Forall (fun c => 0 <= c) l -> forall a1 a2 x y,
  0 <= a1 -> a1 <= a2 -> 0 <= x -> x <= y ->
  0 <= fold_left (fun acc c => acc * x + c) l a1 /\
  fold_left (fun acc c => acc * x + c) l a1 <= fold_left (fun acc c => acc * y + c) l a2.
Proof.
  induction 1 as [|c l Hc Hl IH]; intros a1 a2 x y H1 H2 H3 H4; cbn [fold_left].
  - split; assumption.
  - apply IH; try assumption.
    + apply Qc_add_nonneg; [apply Qc_mul_nonneg|]; assumption.
    + apply Qcplus_le_compat; [now apply Qc_mul_mono|apply Qcle_refl].
Qed.

Lemma polyval_mono l x y : Forall (fun c => 0 <= c) l -> 0 <= x -> x <= y -> polyval l x <= polyval l y.
Proof. intros Hl Hx Hxy. unfold polyval. apply horner_mono; try assumption; apply Qcle_refl. Qed.

Lemma qfloor_mono x y : x <= y -> (qfloor x <= qfloor y)%Z.
Proof. intros H. unfold qfloor. apply Qfloor_resp_le. exact H. Qed.

Lemma clip_spec_mono sat e1 e2 : 0 <= e1 -> e1 <= e2 ->
  clip_spec sat e1 = clip_spec sat e2 \/ (0 <= clip_spec sat e1 /\ clip_spec sat e1 <= clip_spec sat e2).
Proof.
  intros H0 H12. unfold clip_spec. destruct sat as [s|]; [|now right]. unfold qmin.
  destruct (qgt e1 s) eqn:E1; destruct (qgt e2 s) eqn:E2.
  - now left.
  - apply qgt_spec in E1. apply qgt_false in E2. exfalso.
    apply (Qclt_not_le _ _ E1). now apply Qcle_trans with e2.
  - right. split; [assumption|]. now apply qgt_false.
  - now right.
Qed.

Lemma dn_spec_mono coefs sat e1 e2 : Forall (fun c => 0 <= c) coefs -> 0 <= e1 -> e1 <= e2 ->
  (dn_spec coefs sat e1 <= dn_spec coefs sat e2)%Z.
Proof.
  intros Hc H0 H12. unfold dn_spec.
  destruct (clip_spec_mono sat e1 e2 H0 H12) as [->|(Ha & Hb)]; [lia|].
  apply Z.max_le_compat_l. apply qfloor_mono. apply polyval_mono; try assumption.
  apply Forall_app. split; [assumption|]. constructor; [apply Qcle_refl|constructor].
Qed.

(* the frames of two inputs ordered pixel by pixel are ordered pixel by pixel *)
Lemma adc_monotone (img1 img2 : arr QcS) g sat warn1 warn2 :
  gain_fits g (nr img1) (nc img1) -> nr img2 = nr img1 -> nc img2 = nc img1 ->
  (forall i j, (0 <= i < nr img1)%Z -> (0 <= j < nc img1)%Z ->
     Forall (fun c => 0 <= c) (gain_poly g i j) /\ 0 <= get img1 i j /\ get img1 i j <= get img2 i j) ->
  exists w1 w2 d1 d2, adc img1 g sat warn1 = Ok (w1, d1) /\ adc img2 g sat warn2 = Ok (w2, d2) /\
    forall i j, (0 <= i < nr img1)%Z -> (0 <= j < nc img1)%Z -> (get d1 i j <= get d2 i j)%Z.
Proof.
  intros Hf Hr Hc Hle.
  destruct (adc_spec img1 g sat warn1 Hf) as (w1 & d1 & A1 & _ & _ & A4 & _).
  assert (gain_fits g (nr img2) (nc img2)) as Hf2 by (rewrite Hr, Hc; exact Hf).
  destruct (adc_spec img2 g sat warn2 Hf2) as (w2 & d2 & B1 & _ & _ & B4 & _).
  exists w1, w2, d1, d2. repeat split; try assumption. intros i j Hi Hj.
  destruct (A4 i j Hi Hj) as (-> & _). destruct (B4 i j) as (-> & _); try (rewrite ?Hr, ?Hc; assumption).
  destruct (Hle i j Hi Hj) as (P & Q & R). now apply dn_spec_mono.
Qed.

(* zero capacity (`if saturation_capacity is not None:`): every positive count is clipped to 0, so the DN of a
   pixel is that of min(e, 0), and the warning fires exactly when some pixel holds a positive count *)
Lemma adc_zero_capacity (img : arr QcS) g warn : gain_fits g (nr img) (nc img) ->
  exists w dn, adc img g (Some 0) warn = Ok (w, dn) /\
    (forall i j, (0 <= i < nr img)%Z -> (0 <= j < nc img)%Z ->
       get dn i j = Z.max 0 (qfloor (polyval (gain_poly g i j ++ [0]) (qmin (get img i j) 0)))) /\
    (w = true <-> warn = true /\ exists i j, (0 <= i < nr img)%Z /\ (0 <= j < nc img)%Z /\ 0 < get img i j).
Proof.
  intros Hf. destruct (adc_spec img g (Some 0) warn Hf) as (w & dn & H1 & _ & _ & H4 & H5).
  exists w, dn. split; [exact H1|]. split; [|exact H5].
  intros i j Hi Hj. destruct (H4 i j Hi Hj) as (-> & _). reflexivity.
Qed.
Lemma adc_zero_capacity_example :
  exists dn, adc (@mkArr QcS 1 1 (fun _ _ => Q2Qc 5)) (G0 1) (Some 0) true = Ok (true, dn) /\ get dn 0%Z 0%Z = 0%Z.
Proof. eexists. split; [reflexivity|]. vm_compute. reflexivity. Qed.

Local Open Scope Z_scope.
Lemma format_bayer_spec (l : list Z) (k : Z) : forallb chan_ok l = true -> 0 <= k -> Z.of_nat (length l) = k * k ->
  exists p, format_bayer l = Ok p /\ pk p = k /\
    forall i j, pch p i j = nth (Z.to_nat (i * k + j)) l 0.
Proof.
  intros H Hk Hl. destruct (format_bayer_complete l k H Hk Hl) as (p & Hp & <-).
  exists p. split; [exact Hp|]. split; [reflexivity|]. apply (format_bayer_ok l p Hp).
Qed.
Lemma format_bayer_rejects (l : list Z) :
  forallb chan_ok l = false \/ (forall k, Z.of_nat (length l) <> k * k) -> format_bayer l = Err ValueError.
Proof. intros [H|H]; [now apply format_bayer_bad_char | now apply format_bayer_not_square]. Qed.
Lemma adc_rejects (img : arr QcS) (g : gainrep) (sat : option Qc) (warn : bool) :
  g = GN \/ (exists gr gc, gdims g = Some (gr, gc) /\
             ((nr img <> gr /\ nr img <> 1 /\ gr <> 1) \/ (nc img <> gc /\ nc img <> 1 /\ gc <> 1))) ->
  adc img g sat warn = Err ValueError.
Proof.
  intros [->|(gr & gc & Hd & H)]; [apply adc_bad_ndim | now apply (adc_gain_shape_mismatch img g sat warn gr gc)].
Qed.

(* the four gain forms agree when they describe the same gain: a scalar g, the one-coefficient polynomial [g],
   a frame filled with g, a one-slice cube filled with g *)
Lemma adc_gain_forms_agree (img : arr QcS) (v : Qc) (a : arr QcS) (c : cube QcS) sat warn :
  nr a = nr img -> nc a = nc img -> (forall i j, get a i j = v) ->
  cnk c = 1 -> cnr c = nr img -> cnc c = nc img -> (forall i j, cget c 0 i j = v) ->
  exists w d0 d1 d2 d3,
    adc img (G0 v) sat warn = Ok (w, d0) /\ adc img (G1 [v]) sat warn = Ok (w, d1) /\
    adc img (G2 a) sat warn = Ok (w, d2) /\ adc img (G3 c) sat warn = Ok (w, d3) /\
    forall i j, 0 <= i < nr img -> 0 <= j < nc img ->
      get d1 i j = get d0 i j /\ get d2 i j = get d0 i j /\ get d3 i j = get d0 i j.
Proof.
  intros Ha1 Ha2 Ha Hc0 Hc1 Hc2 Hc.
  destruct (adc_ok img (G0 v) sat warn I) as (d0 & A0 & _ & _ & B0).
  destruct (adc_ok img (G1 [v]) sat warn I) as (d1 & A1 & _ & _ & B1).
  destruct (adc_ok img (G2 a) sat warn (conj Ha1 Ha2)) as (d2 & A2 & _ & _ & B2).
  destruct (adc_ok img (G3 c) sat warn) as (d3 & A3 & _ & _ & B3); [cbn [gain_fits]; lia|].
  exists (warn && saturated sat img)%bool, d0, d1, d2, d3. repeat split; try assumption.
  - rewrite B1, B0 by assumption. reflexivity.
  - rewrite B2, B0 by assumption. cbn [gain_poly]. now rewrite Ha.
  - rewrite B3, B0 by assumption. cbn [gain_poly]. rewrite Hc0. change (zrange 1) with [0]. cbn [map]. now rewrite Hc.
Qed.

(* ====================================================================================
   refusals of the charge collection entry points (which inputs raise, and what)
   ==================================================================================== *)
Section CollectRefuse.
Variable S : Scalar.

(* assert qe.size == wave.size *)
Lemma collect_vector_length_refused (img : imgrep S) nw (v : vec S) : vn v <> nw ->
  collect_charge img nw (QVec v) = Err AssertionErr.
Proof. intros H. unfold collect_charge. cbn [qe_asarray]. replace (vn v =? nw) with false by lia. reflexivity. Qed.

(* einsum: the number of slices and the number of wavelengths differ and neither is 1 *)
Lemma collect_slice_count_refused (img : imgrep S) nw (q : qerep S) (v : vec S) :
  qe_asarray q nw = Ok v -> cnk (as_cube img) <> nw -> cnk (as_cube img) <> 1 -> nw <> 1 ->
  collect_charge img nw q = Err ValueError.
Proof. intros Hq H1 H2 H3. unfold collect_charge. rewrite Hq. cbn [rbind]. unfold einsum_ki.
  rewrite (qe_asarray_vn S _ _ _ Hq), bdim_err by assumption. reflexivity. Qed.

(* the efficiencies are looked at first (red, green, blue), then the pattern string *)
Lemma bayer_refusal_order (img : imgrep S) nw (qr qg qb : qerep S) pat os :
  (forall e, qe_asarray qr nw = Err e -> collect_charge_bayer_channels img nw qr qg qb pat os = Err e) /\
  (forall vr e, qe_asarray qr nw = Ok vr -> qe_asarray qg nw = Err e ->
     collect_charge_bayer_channels img nw qr qg qb pat os = Err e) /\
  (forall vr vg e, qe_asarray qr nw = Ok vr -> qe_asarray qg nw = Ok vg -> qe_asarray qb nw = Err e ->
     collect_charge_bayer_channels img nw qr qg qb pat os = Err e) /\
  (forall vr vg vb e, qe_asarray qr nw = Ok vr -> qe_asarray qg nw = Ok vg -> qe_asarray qb nw = Ok vb ->
     format_bayer pat = Err e -> collect_charge_bayer_channels img nw qr qg qb pat os = Err e).
Proof. unfold collect_charge_bayer_channels. repeat split; intros.
  - now rewrite H.
  - now rewrite H, H0.
  - now rewrite H, H0, H1.
  - now rewrite H, H0, H1, H2.
Qed.

(* a frame that is not made of whole tiles of pattern*oversample cannot be multiplied with the mosaic *)
Lemma bayer_frame_not_tiled_refused (img : imgrep S) nw (qr qg qb : qerep S) (vr vg vb : vec S) pat p os :
  cnk (as_cube img) = nw ->
  qe_asarray qr nw = Ok vr -> qe_asarray qg nw = Ok vg -> qe_asarray qb nw = Ok vb ->
  format_bayer pat = Ok p -> 1 <= pk p -> 1 <= os ->
  let c := as_cube img in
  let mr := pk p * (cnr c / os / pk p) * os in let mc := pk p * (cnc c / os / pk p) * os in
  (cnr c <> mr /\ cnr c <> 1 /\ mr <> 1) \/ (cnc c <> mc /\ cnc c <> 1 /\ mc <> 1) ->
  collect_charge_bayer_channels img nw qr qg qb pat os = Err ValueError.
Proof.
  intros Hk Hqr Hqg Hqb Hpat Hp Ho c mr mc H.
  unfold collect_charge_bayer_channels. rewrite Hqr, Hqg, Hqb, Hpat. cbn [rbind].
  replace ((os <? 1) || (pk p <? 1)) with false by lia. cbv zeta. fold c.
  assert (cnk c = vn vr) as Hv by (rewrite (qe_asarray_vn S _ _ _ Hqr); exact Hk).
  unfold channel_e at 1. destruct (einsum_ki_ok S c vr Hv) as (e & E1 & E2 & E3 & _). rewrite E1. cbn [rbind].
  unfold bmul. cbn [mosaic repeat2 tile kernel nr nc]. rewrite E2, E3. fold mr mc.
  destruct H as [(A & B & C0)|(A & B & C0)].
  - rewrite (bdim_err (cnr c) mr) by assumption. reflexivity.
  - destruct (bdim (cnr c) mr) eqn:E; cbn [rbind]; [|now rewrite (bdim_err_kind _ _ _ E)].
    rewrite (bdim_err (cnc c) mc) by assumption. reflexivity.
Qed.
End CollectRefuse.
