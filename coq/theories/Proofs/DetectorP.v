(* Lemmas about the detector model (Model/Detector.v): charge collection is the per-pixel sum over
   wavelength slices, bilinear; the colour filter array selects the efficiency of the tiled pattern;
   digitisation is floor(poly(min(e, sat))) clipped at zero, monotone for non-negative gain curves. *)
From LV Require Import Model.Detector.

Lemma bdim_same a : bdim a a = Ok a.
Proof. unfold bdim. now rewrite Z.eqb_refl. Qed.
Lemma bidx_in n i : 0 <= i < n -> bidx n i = i.
Proof. intros H. unfold bidx. destruct (n =? 1) eqn:E; lia. Qed.

(* ------------------------------------------------------------------ format_bayer_string *)
Lemma format_bayer_ok l p : format_bayer l = Ok p ->
  forallb chan_ok l = true /\ Z.of_nat (length l) = pk p * pk p /\ 0 <= pk p /\
  forall i j, pch p i j = nth (Z.to_nat (i * pk p + j)) l 0.
Proof.
  unfold format_bayer. destruct (forallb chan_ok l) eqn:E; [|discriminate].
  destruct (Z.of_nat (length l) =? Z.sqrt (Z.of_nat (length l)) * Z.sqrt (Z.of_nat (length l))) eqn:E2; [|discriminate].
  intros H. injection H as <-. cbn [pk pch]. repeat split; try lia. apply Z.sqrt_nonneg.
Qed.
Lemma format_bayer_complete l k : forallb chan_ok l = true -> 0 <= k -> Z.of_nat (length l) = k * k ->
  exists p, format_bayer l = Ok p /\ pk p = k.
Proof.
  intros H Hk Hl. unfold format_bayer. rewrite H, Hl.
  assert (Z.sqrt (k * k) = k) as -> by (apply Z.sqrt_square; lia).
  rewrite Z.eqb_refl. eexists. split; reflexivity.
Qed.
Lemma format_bayer_bad_char l : forallb chan_ok l = false -> format_bayer l = Err ValueError.
Proof. intros H. unfold format_bayer. now rewrite H. Qed.
Lemma format_bayer_not_square l : (forall k, Z.of_nat (length l) <> k * k) -> format_bayer l = Err ValueError.
Proof. intros H. unfold format_bayer. destruct (forallb chan_ok l); [|reflexivity].
  destruct (_ =? _) eqn:E; [|reflexivity]. exfalso. apply (H (Z.sqrt (Z.of_nat (length l)))). lia. Qed.
Lemma pattern_chan_ok l p i j : format_bayer l = Ok p -> 0 <= i < pk p -> 0 <= j < pk p ->
  chan_ok (pch p i j) = true.
Proof.
  intros H Hi Hj. destruct (format_bayer_ok _ _ H) as (Hall & Hlen & Hk & Hget).
  rewrite Hget. rewrite forallb_forall in Hall. apply Hall. apply nth_In. nia.
Qed.

Section CollectP.
Variable S : Scalar.
Hypothesis Sring : is_ring S.
Add Ring Sr : Sring.

(* ------------------------------------------------------------------ collect_charge *)
Lemma qe_asarray_vn (q : qerep S) nw v : qe_asarray q nw = Ok v -> vn v = nw.
Proof. destruct q as [q|w]; cbn [qe_asarray].
  - intros H; injection H as <-. reflexivity.
  - destruct (vn w =? nw) eqn:E; [|discriminate]. intros H; injection H as <-. lia. Qed.

Lemma einsum_ki_ok (c : cube S) (q : vec S) : cnk c = vn q ->
  exists a, einsum_ki c q = Ok a /\ nr a = cnr c /\ nc a = cnc c /\
            forall i j, get a i j = charge_at c q i j.
Proof.
  intros H. unfold einsum_ki. rewrite <- H, bdim_same. cbn [rbind]. eexists. split; [reflexivity|].
  cbn [nr nc get]. repeat split. intros i j. unfold charge_at. apply sumZ_ext. intros k Hk.
  now rewrite bidx_in by lia.
Qed.

Lemma collect_charge_gen (img : imgrep S) (nw : Z) (q : qerep S) (v : vec S) :
  cnk (as_cube img) = nw -> qe_asarray q nw = Ok v ->
  exists a, collect_charge img nw q = Ok a /\ nr a = cnr (as_cube img) /\ nc a = cnc (as_cube img) /\
            forall i j, get a i j = charge_at (as_cube img) v i j.
Proof.
  intros Hk Hq. unfold collect_charge. rewrite Hq. cbn [rbind]. apply einsum_ki_ok.
  rewrite (qe_asarray_vn _ _ _ Hq). exact Hk.
Qed.

Lemma collect_charge_spec (img : imgrep S) (nw : Z) (v : vec S) :
  cnk (as_cube img) = nw -> vn v = nw ->
  exists a, collect_charge img nw (QVec v) = Ok a /\ nr a = cnr (as_cube img) /\ nc a = cnc (as_cube img) /\
            forall i j, get a i j = sumZ nw (fun k => (cget (as_cube img) k i j * vget v k)%K).
Proof.
  intros Hk Hv. destruct (collect_charge_gen img nw (QVec v) v Hk) as (a & H1 & H2 & H3 & H4).
  - cbn [qe_asarray]. now replace (vn v =? nw) with true by lia.
  - exists a. repeat split; try assumption. intros i j. rewrite H4. unfold charge_at. now rewrite Hk.
Qed.

(* bilinearity of the per-pixel sum *)
Lemma charge_at_add_cube (a b : cube S) q i j :
  charge_at (cube_add a b) q i j = (charge_at a q i j + charge_at (mkCube (cnk a) (cnr b) (cnc b) (cget b)) q i j)%K.
Proof. unfold charge_at, cube_add. cbn [cnk cget]. rewrite <- sumZ_add. apply sumZ_ext. intros; ring. Qed.
Lemma charge_at_scale_cube s (a : cube S) q i j :
  charge_at (cube_scale s a) q i j = (s * charge_at a q i j)%K.
Proof. unfold charge_at, cube_scale. cbn [cnk cget]. rewrite <- sumZ_scale_l. apply sumZ_ext. intros; ring. Qed.
Lemma charge_at_add_vec (c : cube S) p q i j :
  charge_at c (vec_add p q) i j = (charge_at c p i j + charge_at c q i j)%K.
Proof. unfold charge_at, vec_add. cbn [vget]. rewrite <- sumZ_add. apply sumZ_ext. intros; ring. Qed.
Lemma charge_at_scale_vec s (c : cube S) q i j :
  charge_at c (vec_scale s q) i j = (s * charge_at c q i j)%K.
Proof. unfold charge_at, vec_scale. cbn [vget]. rewrite <- sumZ_scale_l. apply sumZ_ext. intros; ring. Qed.

Lemma collect_charge_additive_cube (a b : cube S) nw (v : vec S) :
  cnk a = nw -> cnk b = nw -> vn v = nw ->
  exists ra rb rab, collect_charge (Img3 a) nw (QVec v) = Ok ra /\ collect_charge (Img3 b) nw (QVec v) = Ok rb /\
    collect_charge (Img3 (cube_add a b)) nw (QVec v) = Ok rab /\ nr rab = nr ra /\ nc rab = nc ra /\
    forall i j, get rab i j = (get ra i j + get rb i j)%K.
Proof.
  intros Ha Hb Hv.
  destruct (collect_charge_spec (Img3 a) nw v Ha Hv) as (ra & A1 & A2 & A3 & A4).
  destruct (collect_charge_spec (Img3 b) nw v Hb Hv) as (rb & B1 & B2 & B3 & B4).
  destruct (collect_charge_spec (Img3 (cube_add a b)) nw v Ha Hv) as (rab & C1 & C2 & C3 & C4).
  exists ra, rb, rab. repeat split; try assumption.
  - rewrite C2, A2. reflexivity.
  - rewrite C3, A3. reflexivity.
  - intros i j. rewrite A4, B4, C4. cbn [as_cube cube_add cget]. rewrite <- sumZ_add. apply sumZ_ext. intros; ring.
Qed.
Lemma collect_charge_homogeneous_cube s (a : cube S) nw (v : vec S) :
  cnk a = nw -> vn v = nw ->
  exists ra rs, collect_charge (Img3 a) nw (QVec v) = Ok ra /\
    collect_charge (Img3 (cube_scale s a)) nw (QVec v) = Ok rs /\ nr rs = nr ra /\ nc rs = nc ra /\
    forall i j, get rs i j = (s * get ra i j)%K.
Proof.
  intros Ha Hv.
  destruct (collect_charge_spec (Img3 a) nw v Ha Hv) as (ra & A1 & A2 & A3 & A4).
  destruct (collect_charge_spec (Img3 (cube_scale s a)) nw v Ha Hv) as (rs & C1 & C2 & C3 & C4).
  exists ra, rs. repeat split; try assumption.
  - rewrite C2, A2. reflexivity.
  - rewrite C3, A3. reflexivity.
  - intros i j. rewrite A4, C4. cbn [as_cube cube_scale cget]. rewrite <- sumZ_scale_l. apply sumZ_ext. intros; ring.
Qed.
Lemma collect_charge_additive_qe (img : imgrep S) nw (p q : vec S) :
  cnk (as_cube img) = nw -> vn p = nw -> vn q = nw ->
  exists rp rq rpq, collect_charge img nw (QVec p) = Ok rp /\ collect_charge img nw (QVec q) = Ok rq /\
    collect_charge img nw (QVec (vec_add p q)) = Ok rpq /\ nr rpq = nr rp /\ nc rpq = nc rp /\
    forall i j, get rpq i j = (get rp i j + get rq i j)%K.
Proof.
  intros Hk Hp Hq.
  destruct (collect_charge_spec img nw p Hk Hp) as (rp & A1 & A2 & A3 & A4).
  destruct (collect_charge_spec img nw q Hk Hq) as (rq & B1 & B2 & B3 & B4).
  destruct (collect_charge_spec img nw (vec_add p q) Hk Hp) as (rpq & C1 & C2 & C3 & C4).
  exists rp, rq, rpq. repeat split; try assumption.
  - rewrite C2, A2. reflexivity.
  - rewrite C3, A3. reflexivity.
  - intros i j. rewrite A4, B4, C4. cbn [vec_add vget]. rewrite <- sumZ_add. apply sumZ_ext. intros; ring.
Qed.
Lemma collect_charge_homogeneous_qe s (img : imgrep S) nw (q : vec S) :
  cnk (as_cube img) = nw -> vn q = nw ->
  exists rq rs, collect_charge img nw (QVec q) = Ok rq /\
    collect_charge img nw (QVec (vec_scale s q)) = Ok rs /\ nr rs = nr rq /\ nc rs = nc rq /\
    forall i j, get rs i j = (s * get rq i j)%K.
Proof.
  intros Hk Hq.
  destruct (collect_charge_spec img nw q Hk Hq) as (rq & A1 & A2 & A3 & A4).
  destruct (collect_charge_spec img nw (vec_scale s q) Hk Hq) as (rs & C1 & C2 & C3 & C4).
  exists rq, rs. repeat split; try assumption.
  - rewrite C2, A2. reflexivity.
  - rewrite C3, A3. reflexivity.
  - intros i j. rewrite A4, C4. cbn [vec_scale vget]. rewrite <- sumZ_scale_l. apply sumZ_ext. intros; ring.
Qed.

(* a scalar efficiency is the constant vector: q times the sum of the slices *)
Lemma collect_charge_scalar (img : imgrep S) nw (q : S) :
  cnk (as_cube img) = nw ->
  exists a b, collect_charge img nw (QScalar q) = Ok a /\
    collect_charge img nw (QVec (mkVec nw (fun _ => q))) = Ok b /\ arr_eq a b /\
    forall i j, get a i j = (q * sumZ nw (fun k => cget (as_cube img) k i j))%K.
Proof.
  intros Hk.
  destruct (collect_charge_gen img nw (QScalar q) _ Hk eq_refl) as (a & A1 & A2 & A3 & A4).
  destruct (collect_charge_spec img nw (mkVec nw (fun _ => q)) Hk eq_refl) as (b & B1 & B2 & B3 & B4).
  exists a, b. split; [exact A1|]. split; [exact B1|].
  assert (forall i j, get a i j = (q * sumZ nw (fun k => cget (as_cube img) k i j))%K) as Hv.
  { intros i j. rewrite A4. unfold charge_at. cbn [vget]. rewrite Hk, <- sumZ_scale_l. apply sumZ_ext. intros; ring. }
  split; [|exact Hv]. unfold arr_eq. rewrite A2, A3, B2, B3. repeat split.
  intros i j _ _. rewrite Hv, B4. cbn [vget]. rewrite <- sumZ_scale_l. apply sumZ_ext. intros; ring.
Qed.

(* ------------------------------------------------------------------ colour filter array *)
Lemma mosaic_get p ch nrow ncol os i j :
  get (mosaic (S:=S) p ch nrow ncol os) i j =
  if pch p ((i / os) mod pk p) ((j / os) mod pk p) =? ch then k1 else k0.
Proof. reflexivity. Qed.
Lemma mosaic_shape p ch os n a : 1 <= pk p -> 1 <= os -> 0 <= a -> n = pk p * os * a ->
  pk p * ((n / os) / pk p) * os = n.
Proof.
  intros Hk Ho Ha ->. replace (pk p * os * a) with ((pk p * a) * os) by ring.
  rewrite Z.div_mul by lia. rewrite (Z.mul_comm (pk p) a), Z.div_mul by lia. ring.
Qed.

Lemma channel_e_spec (c : cube S) (v : vec S) p ch os a b :
  cnk c = vn v -> 1 <= pk p -> 1 <= os -> 0 <= a -> 0 <= b ->
  cnr c = pk p * os * a -> cnc c = pk p * os * b ->
  exists e, channel_e c v (mosaic p ch (cnr c / os) (cnc c / os) os) = Ok e /\ nr e = cnr c /\ nc e = cnc c /\
    forall i j, 0 <= i < cnr c -> 0 <= j < cnc c ->
      get e i j = if pch p ((i / os) mod pk p) ((j / os) mod pk p) =? ch then charge_at c v i j else k0.
Proof.
  intros Hk Hp Ho Ha Hb Hr Hc. unfold channel_e.
  destruct (einsum_ki_ok c v Hk) as (e & E1 & E2 & E3 & E4). rewrite E1. cbn [rbind].
  unfold bmul.
  assert (nr (mosaic (S:=S) p ch (cnr c / os) (cnc c / os) os) = cnr c) as Hmr
    by (cbn [mosaic repeat2 tile kernel nr]; eapply mosaic_shape; eauto).
  assert (nc (mosaic (S:=S) p ch (cnr c / os) (cnc c / os) os) = cnc c) as Hmc
    by (cbn [mosaic repeat2 tile kernel nc]; eapply mosaic_shape; eauto).
  rewrite Hmr, Hmc, E2, E3, !bdim_same. cbn [rbind]. eexists. split; [reflexivity|]. cbn [nr nc get].
  repeat split. intros i j Hi Hj. rewrite !bidx_in by lia. rewrite E4, mosaic_get.
  destruct (_ =? ch); ring.
Qed.

Lemma bayer_channels_spec (img : imgrep S) nw (qr qg qb : qerep S) (vr vg vb : vec S) pat p os a b :
  cnk (as_cube img) = nw ->
  qe_asarray qr nw = Ok vr -> qe_asarray qg nw = Ok vg -> qe_asarray qb nw = Ok vb ->
  format_bayer pat = Ok p -> 1 <= pk p -> 1 <= os -> 0 <= a -> 0 <= b ->
  cnr (as_cube img) = pk p * os * a -> cnc (as_cube img) = pk p * os * b ->
  exists r g bl, collect_charge_bayer_channels img nw qr qg qb pat os = Ok (r, g, bl) /\
    (nr r = cnr (as_cube img) /\ nc r = cnc (as_cube img)) /\
    (nr g = cnr (as_cube img) /\ nc g = cnc (as_cube img)) /\
    (nr bl = cnr (as_cube img) /\ nc bl = cnc (as_cube img)) /\
    forall i j, 0 <= i < cnr (as_cube img) -> 0 <= j < cnc (as_cube img) ->
      get r i j = (if pch p ((i / os) mod pk p) ((j / os) mod pk p) =? 0 then charge_at (as_cube img) vr i j else k0) /\
      get g i j = (if pch p ((i / os) mod pk p) ((j / os) mod pk p) =? 1 then charge_at (as_cube img) vg i j else k0) /\
      get bl i j = (if pch p ((i / os) mod pk p) ((j / os) mod pk p) =? 2 then charge_at (as_cube img) vb i j else k0).
Proof.
  intros Hk Hqr Hqg Hqb Hpat Hp Ho Ha Hb Hr Hc.
  unfold collect_charge_bayer_channels. rewrite Hqr, Hqg, Hqb, Hpat. cbn [rbind].
  replace ((os <? 1) || (pk p <? 1)) with false by lia.
  pose proof (qe_asarray_vn _ _ _ Hqr) as Vr. pose proof (qe_asarray_vn _ _ _ Hqg) as Vg.
  pose proof (qe_asarray_vn _ _ _ Hqb) as Vb.
  destruct (channel_e_spec (as_cube img) vr p 0 os a b) as (r & R1 & R2 & R3 & R4); try assumption; try lia.
  destruct (channel_e_spec (as_cube img) vg p 1 os a b) as (g & G1 & G2 & G3 & G4); try assumption; try lia.
  destruct (channel_e_spec (as_cube img) vb p 2 os a b) as (bl & B1 & B2 & B3 & B4); try assumption; try lia.
  cbv zeta. rewrite R1, G1, B1. cbn [rbind]. exists r, g, bl. split; [reflexivity|].
  repeat split; try assumption; [apply R4 | apply G4 | apply B4]; assumption.
Qed.

(* the flattened image: every sub-pixel collects with the efficiency of its colour *)
Lemma bayer_spec (img : imgrep S) nw (qr qg qb : qerep S) (vr vg vb : vec S) pat p os a b :
  cnk (as_cube img) = nw ->
  qe_asarray qr nw = Ok vr -> qe_asarray qg nw = Ok vg -> qe_asarray qb nw = Ok vb ->
  format_bayer pat = Ok p -> 1 <= pk p -> 1 <= os -> 0 <= a -> 0 <= b ->
  cnr (as_cube img) = pk p * os * a -> cnc (as_cube img) = pk p * os * b ->
  exists o, collect_charge_bayer img nw qr qg qb pat os = Ok o /\
    nr o = cnr (as_cube img) /\ nc o = cnc (as_cube img) /\
    forall i j, 0 <= i < cnr (as_cube img) -> 0 <= j < cnc (as_cube img) ->
      get o i j = charge_at (as_cube img) (qe_of (pch p ((i / os) mod pk p) ((j / os) mod pk p)) vr vg vb) i j.
Proof.
  intros Hk Hqr Hqg Hqb Hpat Hp Ho Ha Hb Hr Hc.
  destruct (bayer_channels_spec img nw qr qg qb vr vg vb pat p os a b) as (r & g & bl & H1 & (R2 & R3) & _ & _ & H4);
    try assumption.
  unfold collect_charge_bayer. rewrite H1. cbn [rbind flatten3]. eexists. split; [reflexivity|]. cbn [nr nc get].
  repeat split; try assumption. intros i j Hi Hj. destruct (H4 i j Hi Hj) as (Er & Eg & Eb). rewrite Er, Eg, Eb.
  assert (chan_ok (pch p ((i / os) mod pk p) ((j / os) mod pk p)) = true) as Hch.
  { apply (pattern_chan_ok pat); [assumption| |]; apply Z.mod_pos_bound; lia. }
  unfold chan_ok in Hch. unfold qe_of.
  set (ch := pch p ((i / os) mod pk p) ((j / os) mod pk p)) in *. clearbody ch.
  destruct (ch =? 0) eqn:E0; destruct (ch =? 1) eqn:E1; destruct (ch =? 2) eqn:E2; try lia; ring.
Qed.

(* the separate channel images sum to the flattened one *)
Lemma bayer_channels_sum (img : imgrep S) nw (qr qg qb : qerep S) pat os r g bl :
  collect_charge_bayer_channels img nw qr qg qb pat os = Ok (r, g, bl) ->
  exists o, collect_charge_bayer img nw qr qg qb pat os = Ok o /\ nr o = nr r /\ nc o = nc r /\
    forall i j, get o i j = (get r i j + get g i j + get bl i j)%K.
Proof. intros H. unfold collect_charge_bayer. rewrite H. cbn [rbind flatten3]. eexists. split; [reflexivity|].
  cbn [nr nc get]. repeat split. Qed.

(* equal efficiencies in all channels reproduce the monochrome result *)
Lemma bayer_equal_qe_is_mono (img : imgrep S) nw (q : qerep S) (v : vec S) pat p os a b :
  cnk (as_cube img) = nw -> qe_asarray q nw = Ok v ->
  format_bayer pat = Ok p -> 1 <= pk p -> 1 <= os -> 0 <= a -> 0 <= b ->
  cnr (as_cube img) = pk p * os * a -> cnc (as_cube img) = pk p * os * b ->
  exists o m, collect_charge_bayer img nw q q q pat os = Ok o /\ collect_charge img nw q = Ok m /\ arr_eq o m.
Proof.
  intros Hk Hq Hpat Hp Ho Ha Hb Hr Hc.
  destruct (bayer_spec img nw q q q v v v pat p os a b) as (o & O1 & O2 & O3 & O4); try assumption.
  destruct (collect_charge_gen img nw q v Hk Hq) as (m & M1 & M2 & M3 & M4).
  exists o, m. split; [exact O1|]. split; [exact M1|]. unfold arr_eq. rewrite O2, O3, M2, M3. repeat split.
  intros i j Hi Hj. rewrite O4, M4 by assumption. unfold qe_of. now destruct (_ =? 0), (_ =? 1).
Qed.

End CollectP.
