(* Lemmas about the Spectrum integration / binning / resizing model (Model/SpectrumEdit.v). *)
From LV Require Import Model.SpectrumEdit.
From Coq Require Import Lqa Sorting.Sorted Field.
Local Open Scope Qc_scope.

(* ------------------------------------------------------------------ *)
(* order reasoning on Qc through Q: push [this] inside, then lra/nra   *)
Lemma this_plus (x y : Qc) : (this (x + y) == this x + this y)%Q.
Proof. apply Qred_correct. Qed.
Lemma this_mult (x y : Qc) : (this (x * y) == this x * this y)%Q.
Proof. apply Qred_correct. Qed.
Lemma this_opp (x : Qc) : (this (- x) == - this x)%Q.
Proof. apply Qred_correct. Qed.
Lemma this_minus (x y : Qc) : (this (x - y) == this x - this y)%Q.
Proof. unfold Qcminus. rewrite this_plus, this_opp. reflexivity. Qed.
Lemma this_inv (x : Qc) : (this (/ x) == / this x)%Q.
Proof. apply Qred_correct. Qed.
Lemma this_div (x y : Qc) : (this (x / y) == this x / this y)%Q.
Proof. unfold Qcdiv. rewrite this_mult, this_inv. reflexivity. Qed.
Lemma Qc_eq_this (x y : Qc) : x = y <-> (this x == this y)%Q.
Proof. split; [intros ->; reflexivity | apply Qc_is_canon]. Qed.

Ltac qc2q :=
  repeat match goal with
  | H : @eq Qc _ _ |- _ => apply Qc_eq_this in H
  | H : ~ @eq Qc _ _ |- _ => rewrite Qc_eq_this in H
  | |- @eq Qc _ _ => apply Qc_is_canon
  | |- ~ @eq Qc _ _ => rewrite Qc_eq_this
  end;
  unfold Qcle, Qclt in *;
  repeat (rewrite ?this_plus, ?this_mult, ?this_minus, ?this_opp, ?this_div, ?this_inv in * );
  change (this (Q2Qc 0)) with 0%Q in *; change (this (Q2Qc 1)) with 1%Q in *;
  change (this two) with 2%Q in *; change (this three) with 3%Q in *;
  change (this four) with 4%Q in *; change (this six) with 6%Q in *;
  unfold Qdiv in *;
  change (/ 2)%Q with (1#2)%Q in *; change (/ 3)%Q with (1#3)%Q in *;
  change (/ 4)%Q with (1#4)%Q in *; change (/ 6)%Q with (1#6)%Q in *.

Lemma two_neq0 : two <> 0. Proof. discriminate. Qed.
Lemma six_neq0 : six <> 0. Proof. discriminate. Qed.
Lemma two_eq : two = 1 + 1. Proof. apply Qc_is_canon. reflexivity. Qed.
Lemma four_eq : four = (1 + 1) * (1 + 1). Proof. apply Qc_is_canon. reflexivity. Qed.
Lemma six_eq : six = (1 + 1) * (1 + 1 + 1). Proof. apply Qc_is_canon. reflexivity. Qed.
Lemma opo_neq0 : 1 + 1 <> 0. Proof. intro K. apply (f_equal this) in K. vm_compute in K. discriminate K. Qed.
Lemma opopo_neq0 : 1 + 1 + 1 <> 0. Proof. intro K. apply (f_equal this) in K. vm_compute in K. discriminate K. Qed.
Ltac qc_neq0 := repeat split; try (let K := fresh in intro K; apply (f_equal this) in K; vm_compute in K; discriminate K).
Lemma lt_minus_neq0 x0 x1 : x0 < x1 -> x1 - x0 <> 0.
Proof.
  intros H K. apply (Qclt_not_eq _ _ H). symmetry. transitivity (x1 - x0 + x0); [ring | rewrite K; ring].
Qed.

(* ------------------------------------------------------------------ *)
(* boolean comparisons                                                 *)
Lemma qlt_iff a b : qlt a b = true <-> a < b.
Proof. unfold qlt. rewrite Qclt_alt. destruct (a ?= b); split; congruence. Qed.
Lemma qle_iff a b : qle a b = true <-> a <= b.
Proof. unfold qle. rewrite Qcle_alt. destruct (a ?= b); split; congruence. Qed.
Lemma qeqb_iff a b : qeqb a b = true <-> a = b.
Proof. unfold qeqb. rewrite Qceq_alt. destruct (a ?= b); split; congruence. Qed.
Lemma qlt_false a b : qlt a b = false <-> b <= a.
Proof.
  split; intro H.
  - apply Qcnot_lt_le. intro K. apply qlt_iff in K. congruence.
  - destruct (qlt a b) eqn:E; auto. apply qlt_iff in E. exfalso. eapply Qcle_not_lt; eauto.
Qed.
Lemma qle_false a b : qle a b = false <-> b < a.
Proof.
  split; intro H.
  - apply Qcnot_le_lt. intro K. apply qle_iff in K. congruence.
  - destruct (qle a b) eqn:E; auto. apply qle_iff in E. exfalso. eapply Qclt_not_le; eauto.
Qed.
Lemma qeqb_false a b : qeqb a b = false <-> a <> b.
Proof.
  split; intro H.
  - intro K. apply qeqb_iff in K. congruence.
  - destruct (qeqb a b) eqn:E; auto. apply qeqb_iff in E. contradiction.
Qed.
Lemma qeqb_refl a : qeqb a a = true. Proof. apply qeqb_iff. reflexivity. Qed.

(* turn boolean facts about comparisons into propositions *)
Ltac qb :=
  repeat match goal with
  | H : qlt _ _ = true |- _ => apply qlt_iff in H
  | H : qlt _ _ = false |- _ => apply qlt_false in H
  | H : qle _ _ = true |- _ => apply qle_iff in H
  | H : qle _ _ = false |- _ => apply qle_false in H
  | H : qeqb _ _ = true |- _ => apply qeqb_iff in H
  | H : qeqb _ _ = false |- _ => apply qeqb_false in H
  end.

Lemma qmin_le_l a b : qmin a b <= a.
Proof. unfold qmin. destruct (qle a b) eqn:E; qb; [apply Qcle_refl | apply Qclt_le_weak; auto]. Qed.
Lemma qmin_le_r a b : qmin a b <= b.
Proof. unfold qmin. destruct (qle a b) eqn:E; qb; [auto | apply Qcle_refl]. Qed.
Lemma qmin_cases a b : qmin a b = a \/ qmin a b = b.
Proof. unfold qmin. destruct (qle a b); auto. Qed.
Lemma qmax_ge_l a b : a <= qmax a b.
Proof. unfold qmax. destruct (qle a b) eqn:E; qb; [auto | apply Qcle_refl]. Qed.
Lemma qmax_ge_r a b : b <= qmax a b.
Proof. unfold qmax. destruct (qle a b) eqn:E; qb; [apply Qcle_refl | apply Qclt_le_weak; auto]. Qed.
Lemma qmax_cases a b : qmax a b = a \/ qmax a b = b.
Proof. unfold qmax. destruct (qle a b); auto. Qed.

(* ------------------------------------------------------------------ *)
(* strictly increasing lists                                           *)
Lemma increasing_SS w : increasing w <-> StronglySorted Qclt w.
Proof.
  induction w as [|a [|b t] IH].
  - split; constructor.
  - split; intros; repeat constructor.
  - change (increasing (a :: b :: t)) with (a < b /\ increasing (b :: t)). rewrite IH. split.
    + intros [H1 H2]. constructor; auto. constructor; auto.
      inversion H2; subst. eapply Forall_impl; [|eassumption]. intros c Hc. eapply Qclt_trans; eauto.
    + intros H. inversion H; subst. split; auto. inversion H3; auto.
Qed.
Lemma SS_filter {A} (R : A -> A -> Prop) f l : StronglySorted R l -> StronglySorted R (filter f l).
Proof.
  induction 1; simpl; [constructor|]. destruct (f a); auto. constructor; auto.
  apply Forall_forall. intros x Hx. apply filter_In in Hx. rewrite Forall_forall in H0. apply H0. tauto.
Qed.
Lemma SS_app_inv_l {A} (R : A -> A -> Prop) l1 l2 : StronglySorted R (l1 ++ l2) -> StronglySorted R l1.
Proof.
  induction l1; simpl; intros H; [constructor|]. inversion H; subst. constructor; auto.
  apply Forall_app in H3. tauto.
Qed.
Lemma SS_app_inv_r {A} (R : A -> A -> Prop) l1 l2 : StronglySorted R (l1 ++ l2) -> StronglySorted R l2.
Proof. induction l1; simpl; intros H; auto. inversion H; auto. Qed.
Lemma SS_firstn {A} (R : A -> A -> Prop) n l : StronglySorted R l -> StronglySorted R (firstn n l).
Proof. intros H. rewrite <- (firstn_skipn n l) in H. eapply SS_app_inv_l; eauto. Qed.
Lemma SS_skipn {A} (R : A -> A -> Prop) n l : StronglySorted R l -> StronglySorted R (skipn n l).
Proof. intros H. rewrite <- (firstn_skipn n l) in H. eapply SS_app_inv_r; eauto. Qed.
Lemma SS_NoDup w : StronglySorted Qclt w -> NoDup w.
Proof.
  induction 1; constructor; auto. intro K. rewrite Forall_forall in H0. apply H0 in K.
  eapply Qclt_not_eq; eauto.
Qed.

(* ------------------------------------------------------------------ *)
(* the wave setter accepts exactly the positive strictly increasing grids *)
Lemma any_nonpos_false w : any_nonpos w = false <-> Forall (fun x => 0 < x) w.
Proof.
  unfold any_nonpos. induction w; simpl.
  - split; auto.
  - rewrite orb_false_iff, IHw, qle_false. split; [intros []; constructor; auto | intros H; inversion H; auto].
Qed.
Lemma sorted_nodup_increasing w : is_sorted w = true -> has_dup w = false -> increasing w.
Proof.
  induction w as [|a [|b t] IH]; simpl; auto.
  intros H1 H2. apply andb_prop in H1. destruct H1 as [H1 H3]. apply orb_false_iff in H2. destruct H2 as [H2 H4].
  split; [|apply IH; auto]. qb. destruct (Qcle_lt_or_eq _ _ H1); auto. subst. exfalso. apply H2. ring.
Qed.
Lemma increasing_sorted_nodup w : increasing w -> is_sorted w = true /\ has_dup w = false.
Proof.
  induction w as [|a [|b t] IH]; simpl; auto.
  intros [H1 H2]. destruct (IH H2) as [H3 H4]. simpl in H3, H4. rewrite H3, H4. split.
  - apply andb_true_intro. split; auto. apply qle_iff. apply Qclt_le_weak; auto.
  - apply orb_false_iff. split; auto. apply qeqb_false. intro K. apply (Qclt_not_eq _ _ H1).
    symmetry. transitivity (b - a + a); [ring | rewrite K; ring].
Qed.
Lemma wave_check_ok w w' : wave_check w = Ok w' -> w' = w /\ increasing w /\ Forall (fun x => 0 < x) w.
Proof.
  unfold wave_check. destruct (any_nonpos w) eqn:E1; [discriminate|].
  destruct (is_sorted w) eqn:E2; simpl; [|discriminate].
  destruct (has_dup w) eqn:E3; [discriminate|]. intros H. inversion H; subst.
  split; auto. split; [apply sorted_nodup_increasing; auto | apply any_nonpos_false; auto].
Qed.
Lemma wave_check_accepts w : increasing w -> Forall (fun x => 0 < x) w -> wave_check w = Ok w.
Proof.
  intros H1 H2. unfold wave_check. apply any_nonpos_false in H2. rewrite H2.
  destruct (increasing_sorted_nodup _ H1) as [-> ->]. reflexivity.
Qed.
Lemma wave_check_err w e : wave_check w = Err e -> e = ValueError.
Proof. unfold wave_check. repeat destr_if; congruence. Qed.

(* ------------------------------------------------------------------ *)
(* tables of pairs                                                     *)
Lemma combine_fst_snd {A B} (l : list (A * B)) : combine (map fst l) (map snd l) = l.
Proof. induction l as [|[a b] l IH]; simpl; congruence. Qed.
Lemma map_fst_combine {A B} (a : list A) (b : list B) : length a = length b -> map fst (combine a b) = a.
Proof. revert b. induction a; destruct b; simpl; intros; try discriminate; auto. f_equal; auto. Qed.
Lemma map_snd_combine {A B} (a : list A) (b : list B) : length a = length b -> map snd (combine a b) = b.
Proof. revert b. induction a; destruct b; simpl; intros; try discriminate; auto. f_equal; auto. Qed.
Lemma filter_map_fst {A B} (f : A -> bool) (l : list (A * B)) :
  filter f (map fst l) = map fst (filter (fun q => f (fst q)) l).
Proof. induction l as [|[a b] l IH]; simpl; auto. destruct (f a); simpl; congruence. Qed.
Lemma Forall_filter' {A} (P : A -> Prop) f l : Forall P l -> Forall P (filter f l).
Proof. rewrite !Forall_forall. intros H x Hx. apply filter_In in Hx. apply H. tauto. Qed.
Lemma filter_filter {A} (f g : A -> bool) l : filter f (filter g l) = filter (fun x => g x && f x) l.
Proof. induction l; simpl; auto. destruct (g a); simpl; [destruct (f a)|]; simpl; congruence. Qed.
Lemma filter_all {A} (f : A -> bool) l : (forall x, In x l -> f x = true) -> filter f l = l.
Proof. induction l; simpl; intros H; auto. rewrite (H a) by auto. f_equal. auto. Qed.
Lemma filter_none {A} (f : A -> bool) l : (forall x, In x l -> f x = false) -> filter f l = [].
Proof. induction l; simpl; intros H; auto. rewrite (H a) by auto. auto. Qed.

Lemma wf_wave s : wf s -> map fst (samples s) = wave s.
Proof. intros (_ & _ & H). apply map_fst_combine; auto. Qed.
Lemma wf_value s : wf s -> map snd (samples s) = value s.
Proof. intros (_ & _ & H). apply map_snd_combine; auto. Qed.
Lemma wf_of_samples w v : increasing w -> Forall (fun x => 0 < x) w -> length w = length v -> wf (mkSp w v).
Proof. intros. repeat split; auto. Qed.

(* first and last element of an increasing list bound the others *)
Lemma increasing_head_le a t x : increasing (a :: t) -> In x (a :: t) -> a <= x.
Proof.
  intros H [->|Hx]; [apply Qcle_refl|]. apply increasing_SS in H. inversion H; subst.
  rewrite Forall_forall in H3. apply Qclt_le_weak. auto.
Qed.
Lemma increasing_le_last w d x : increasing w -> In x w -> x <= last w d.
Proof.
  revert x. induction w as [|a [|b t] IH]; intros x H Hx.
  - destruct Hx.
  - destruct Hx as [->|[]]. apply Qcle_refl.
  - change (last (a :: b :: t) d) with (last (b :: t) d). destruct H as [H1 H2]. destruct Hx as [->|Hx]; [|apply IH; auto].
    apply Qcle_trans with b; [apply Qclt_le_weak; assumption|]. apply IH; auto. left; auto.
Qed.

(* ------------------------------------------------------------------ *)
(* np.delete by a predicate on the wavelength                          *)
Lemma samples_delete keep w v : length w = length v ->
  combine (filter keep w) (keep_values keep w v) = filter (fun q => keep (fst q)) (combine w v).
Proof.
  intros H. unfold keep_values. rewrite <- (map_fst_combine w v H) at 1. rewrite filter_map_fst. apply combine_fst_snd.
Qed.
Lemma delete_where_spec drop s : wf s ->
  exists s', delete_where drop s = (s', None) /\ wf s' /\
             samples s' = filter (fun q => negb (drop (fst q))) (samples s).
Proof.
  intros (H1 & H2 & H3). unfold delete_where.
  assert (I : increasing (filter (fun x => negb (drop x)) (wave s))).
  { apply increasing_SS. apply SS_filter. apply increasing_SS; auto. }
  assert (P : Forall (fun x => 0 < x) (filter (fun x => negb (drop x)) (wave s))) by (apply Forall_filter'; auto).
  rewrite (wave_check_accepts _ I P). eexists. split; [reflexivity|]. split.
  - apply wf_of_samples; auto. unfold keep_values. rewrite map_length.
    rewrite <- (map_fst_combine _ _ H3) at 1. rewrite filter_map_fst, map_length. reflexivity.
  - unfold samples; simpl. apply samples_delete; auto.
Qed.

(* ------------------------------------------------------------------ *)
(* crop: the samples inside the closed range, whatever the outcome     *)
Lemma crop_spec s a b : wf s ->
  wf (fst (crop s a b)) /\ samples (fst (crop s a b)) = select a b (samples s).
Proof.
  intros W. unfold crop. destruct (wave s) as [|w0 wt] eqn:Ew.
  - simpl. split; auto. unfold samples, select. rewrite Ew. reflexivity.
  - assert (S1 : exists s1 e1, (if qlt w0 a then delete_where (fun x => qlt x a) s else (s, None)) = (s1, e1) /\ e1 = None
              /\ wf s1 /\ samples s1 = filter (fun q => qle a (fst q)) (samples s)).
    { destruct (qlt w0 a) eqn:E.
      - destruct (delete_where_spec (fun x => qlt x a) s W) as (s1 & D1 & D2 & D3).
        exists s1, None. repeat split; auto; try apply D2. rewrite D3. apply filter_ext. intros [x y]. simpl.
        destruct (qlt x a) eqn:F, (qle a x) eqn:G; auto; qb; exfalso; eapply Qclt_not_le; eauto.
      - exists s, None. repeat split; auto; try apply W. symmetry. apply filter_all. intros [x y] Hq. simpl.
        apply qle_iff. qb. eapply Qcle_trans; [eassumption|]. destruct W as (W1 & _ & W3).
        rewrite Ew in W1. eapply increasing_head_le; eauto. rewrite <- Ew. rewrite <- (map_fst_combine _ _ W3).
        apply (in_map fst) in Hq. exact Hq. }
    destruct S1 as (s1 & e1 & -> & -> & W1 & Q1).
    assert (R : forall s2, wf s2 -> samples s2 = filter (fun q => qle (fst q) b) (samples s1) ->
                wf s2 /\ samples s2 = select a b (samples s)).
    { intros s2 W2 Q2. split; auto. rewrite Q2, Q1, filter_filter. reflexivity. }
    destruct (wave s1) as [|w1 wt1] eqn:Ew1.
    + simpl. apply R; auto. unfold samples at 1 2. rewrite Ew1. reflexivity.
    + destruct (qlt b (last (w1 :: wt1) w1)) eqn:E.
      * destruct (delete_where_spec (fun x => qlt b x) s1 W1) as (s2 & D1 & D2 & D3). rewrite D1. simpl.
        apply R; auto. rewrite D3. apply filter_ext. intros [x y]. simpl.
        destruct (qlt b x) eqn:F, (qle x b) eqn:G; auto; qb; exfalso; eapply Qclt_not_le; eauto.
      * simpl. apply R; auto. symmetry. apply filter_all. intros [x y] Hq. simpl. apply qle_iff. qb.
        eapply Qcle_trans; [|eassumption]. destruct W1 as (V1 & _ & V3). rewrite <- Ew1.
        apply increasing_le_last; auto. rewrite <- (map_fst_combine _ _ V3). apply (in_map fst) in Hq. exact Hq.
Qed.

(* ------------------------------------------------------------------ *)
(* slices, ends, trim                                                  *)
Lemma combine_skipn {A B} n (a : list A) (b : list B) : combine (skipn n a) (skipn n b) = skipn n (combine a b).
Proof.
  revert a b. induction n; intros a b; simpl; auto. destruct a as [|x a], b as [|y b]; simpl; auto.
  destruct (skipn n a); reflexivity.
Qed.
Lemma slice_combine {A B} (a : list A) (b : list B) i j : combine (slice a i j) (slice b i j) = slice (combine a b) i j.
Proof. unfold slice. rewrite <- combine_skipn, combine_firstn. reflexivity. Qed.
Lemma In_slice {A} (l : list A) i j x : In x (slice l i j) -> In x l.
Proof.
  unfold slice. intros H. rewrite <- (firstn_skipn i l). apply in_or_app. right.
  rewrite <- (firstn_skipn (j - i) (skipn i l)). apply in_or_app. left. exact H.
Qed.
Lemma slice_length {A} (l : list A) i j : length (slice l i j) = Nat.min (j - i) (length l - i).
Proof. unfold slice. rewrite firstn_length, skipn_length. reflexivity. Qed.

Lemma qmaxl_spec l m : qmaxl l = Ok m -> In m l /\ forall x, In x l -> x <= m.
Proof.
  revert m. induction l as [|a [|b t] IH]; intros m H.
  - discriminate.
  - inversion H; subst. split; [left; auto|]. intros x [->|[]]. apply Qcle_refl.
  - change (qmaxl (a :: b :: t)) with (rbind (qmaxl (b :: t)) (fun m => Ok (qmax a m))) in H.
    destruct (qmaxl (b :: t)) as [m'|] eqn:E; [|discriminate]. simpl in H. inversion H; subst.
    destruct (IH _ eq_refl) as [I1 I2]. split.
    + destruct (qmax_cases a m') as [-> | ->]; [left; auto | right; auto].
    + intros x [->|Hx]; [apply qmax_ge_l|]. eapply Qcle_trans; [apply I2; auto | apply qmax_ge_r].
Qed.
Lemma qminl_spec l m : qminl l = Ok m -> In m l /\ forall x, In x l -> m <= x.
Proof.
  revert m. induction l as [|a [|b t] IH]; intros m H.
  - discriminate.
  - inversion H; subst. split; [left; auto|]. intros x [->|[]]. apply Qcle_refl.
  - change (qminl (a :: b :: t)) with (rbind (qminl (b :: t)) (fun m => Ok (qmin a m))) in H.
    destruct (qminl (b :: t)) as [m'|] eqn:E; [|discriminate]. simpl in H. inversion H; subst.
    destruct (IH _ eq_refl) as [I1 I2]. split.
    + destruct (qmin_cases a m') as [-> | ->]; [left; auto | right; auto].
    + intros x [->|Hx]; [apply qmin_le_l|]. eapply Qcle_trans; [apply qmin_le_r | apply I2; auto].
Qed.

Lemma find_first_spec f l o i d : find_first f l o = Some i ->
  exists k, i = (o + k)%nat /\ (k < length l)%nat /\ f (nth k l d) = true /\
            forall k', (k' < k)%nat -> f (nth k' l d) = false.
Proof.
  revert o. induction l as [|a t IH]; simpl; intros o H; [discriminate|].
  destruct (f a) eqn:E.
  - inversion H; subst. exists 0%nat. repeat split; auto; try lia.
  - destruct (IH _ H) as (k & -> & K1 & K2 & K3). exists (Datatypes.S k). repeat split; auto; try lia.
    intros [|k'] Hk; auto. apply K3. lia.
Qed.
Lemma find_last_spec f l o j d : find_last f l o = Some j ->
  exists k, j = (o + k)%nat /\ (k < length l)%nat /\ f (nth k l d) = true /\
            forall k', (k < k')%nat -> (k' < length l)%nat -> f (nth k' l d) = false.
Proof.
  revert o. induction l as [|a t IH]; simpl; intros o H; [discriminate|].
  destruct (find_last f t (Datatypes.S o)) as [j'|] eqn:E.
  - inversion H; subst. destruct (IH _ E) as (k & -> & K1 & K2 & K3). exists (Datatypes.S k).
    repeat split; auto; try lia. intros [|k'] H1 H2; [lia|]. apply K3; lia.
  - destruct (f a) eqn:F; [|discriminate]. inversion H; subst. exists 0%nat. repeat split; auto; try lia.
    intros [|k'] H1 H2; [lia|]. simpl.
    (* nothing in the tail satisfies f *)
    clear - E H2. remember (Datatypes.S j) as o. clear Heqo. revert o k' E H2.
    induction t as [|b t IHt]; simpl; intros o k' E H2; [lia|].
    destruct (find_last f t (Datatypes.S o)) eqn:G; [discriminate|]. destruct (f b) eqn:Fb; [discriminate|].
    destruct k'; auto. eapply IHt; eauto. lia.
Qed.

(* ends(tol): the first and the last sample whose value relative to the maximum exceeds tol *)
Lemma ends_spec s tol i j : ends s tol = Ok (i, j) ->
  exists m, qmaxl (value s) = Ok m /\ 0 < m /\ (i <= j)%nat /\ (j < length (value s))%nat /\
    tol < nth i (value s) 0 / m /\ tol < nth j (value s) 0 / m /\
    forall k, (k < i)%nat \/ ((j < k)%nat /\ (k < length (value s))%nat) -> ~ tol < nth k (value s) 0 / m.
Proof.
  unfold ends. destruct (qmaxl (value s)) as [m|] eqn:Em; [|discriminate]. simpl.
  destruct (qle m 0) eqn:E0; [discriminate|].
  destruct (find_first _ (value s) 0%nat) as [i'|] eqn:Ei; [|discriminate].
  destruct (find_last _ (value s) 0%nat) as [j'|] eqn:Ej; [|discriminate].
  intros H. inversion H; subst. exists m. qb.
  destruct (find_first_spec _ _ _ _ 0 Ei) as (ki & -> & I1 & I2 & I3).
  destruct (find_last_spec _ _ _ _ 0 Ej) as (kj & -> & J1 & J2 & J3). simpl.
  repeat split; auto; qb; auto.
  - destruct (Nat.le_gt_cases ki kj); auto. apply qlt_iff in I2. rewrite (J3 ki) in I2 by auto. discriminate.
  - intros k [Hk | [Hk1 Hk2]] K; apply qlt_iff in K; [rewrite I3 in K by auto | rewrite J3 in K by auto]; discriminate.
Qed.

Lemma trim_spec s tol : wf s ->
  match trim s tol with
  | (s', None) => wf s' /\
      ((forall v, In v (value s) -> v = 0) /\ s' = s \/
       exists i j, ends s tol = Ok (i, j) /\ samples s' = slice (samples s) i (Datatypes.S j))
  | (s', Some e) => s' = s
  end.
Proof.
  intros W. unfold trim. destruct (forallb _ (value s)) eqn:Ez.
  - split; auto. left. split; auto. intros v Hv. rewrite forallb_forall in Ez. apply Ez in Hv. qb. auto.
  - destruct (ends s tol) as [[i j]|e] eqn:Ee; auto.
    destruct W as (W1 & W2 & W3).
    assert (I : increasing (slice (wave s) i (Datatypes.S j))).
    { apply increasing_SS. apply SS_firstn, SS_skipn. apply increasing_SS; auto. }
    assert (P : Forall (fun x => 0 < x) (slice (wave s) i (Datatypes.S j))).
    { rewrite Forall_forall in *. intros x Hx. apply W2. eapply In_slice; eauto. }
    rewrite (wave_check_accepts _ I P). split.
    + apply wf_of_samples; auto. rewrite !slice_length, W3. reflexivity.
    + right. exists i, j. split; auto. unfold samples. simpl. apply slice_combine.
Qed.

(* ------------------------------------------------------------------ *)
(* pad, append                                                         *)
Lemma combine_app {A B} (a b : list A) (c d : list B) : length a = length c ->
  combine (a ++ b) (c ++ d) = combine a c ++ combine b d.
Proof. revert c. induction a; destruct c; simpl; intros; try discriminate; auto. f_equal; auto. Qed.

Lemma pad_spec s e0 e1 sm md : wf s ->
  match pad s e0 e1 sm md with
  | (s', None) => wf s' /\ exists l r, samples s' = l ++ samples s ++ r
  | (s', Some e) => s' = s
  end.
Proof.
  intros (W1 & W2 & W3). unfold pad, samples. destruct s as [w v]. simpl in *.
  destruct (match md with PadConst a b => Ok (a, b) | PadEdge => _ end) as [[v0 v1]|]; auto.
  destruct (match sm with Some d => Ok d | None => _ end) as [dw|]; auto.
  destruct w as [|w0 wt]; auto.
  repeat (destr_if; auto).
  match goal with |- context[wave_check ?l] => destruct (wave_check l) as [w'|] eqn:Ec; auto end.
  apply wave_check_ok in Ec. destruct Ec as (-> & C1 & C2). split.
  - apply wf_of_samples; auto. rewrite !app_length, !repeat_length, <- W3. reflexivity.
  - eexists _, _. cbn [wave value]. rewrite combine_app by (rewrite repeat_length; reflexivity).
    rewrite combine_app by (rewrite <- W3; reflexivity). reflexivity.
Qed.

Lemma append_spec s o : wf s -> length (wave o) = length (value o) ->
  match append s o with
  | (s', None) => wf s' /\ samples s' = samples s ++ samples o
  | (s', Some e) => s' = s
  end.
Proof.
  intros (W1 & W2 & W3) Ho. unfold append.
  destruct (bcast_any_le (wave o) (wave s)) as [[|]|]; auto.
  destruct (wave_check (wave s ++ wave o)) as [w'|] eqn:Ec; auto.
  apply wave_check_ok in Ec. destruct Ec as (-> & C1 & C2). split.
  - apply wf_of_samples; auto. rewrite !app_length. congruence.
  - unfold samples. simpl. apply combine_app; auto.
Qed.

(* ------------------------------------------------------------------ *)
(* the interpolant passes through the samples; resample                *)
Lemma interp_from_node w v x y : increasing w -> length w = length v -> In (x, y) (combine w v) ->
  interp_from w v x = y.
Proof.
  revert v. induction w as [|x0 wt IH]; intros v I L H; [destruct H|].
  destruct v as [|y0 vt]; [discriminate|]. simpl in L. injection L as L.
  destruct wt as [|x1 wt'].
  - destruct vt; [|discriminate]. destruct H as [H|[]]. inversion H; subst. simpl. rewrite qeqb_refl. reflexivity.
  - destruct vt as [|y1 vt']; [discriminate|]. destruct I as [I1 I2].
    change (interp_from (x0 :: x1 :: wt') (y0 :: y1 :: vt') x)
      with (if qlt x x1 then y0 + ((y1 - y0) / (x1 - x0)) * (x - x0) else interp_from (x1 :: wt') (y1 :: vt') x).
    destruct H as [H|H].
    + inversion H; subst. apply qlt_iff in I1. rewrite I1. unfold Qcdiv. ring.
    + assert (Hx : x1 <= x).
      { apply (increasing_head_le x1 wt'); auto. rewrite <- (map_fst_combine (x1 :: wt') (y1 :: vt') L).
        apply (in_map fst) in H. exact H. }
      apply qlt_false in Hx. rewrite Hx. apply IH; auto.
Qed.
Lemma interp_node w v x y : increasing w -> length w = length v -> In (x, y) (combine w v) -> interp w v x = y.
Proof.
  intros I L H. unfold interp. destruct w as [|x0 wt]; [destruct H|].
  assert (Hx : x0 <= x).
  { eapply increasing_head_le; eauto. rewrite <- (map_fst_combine (x0 :: wt) v) by auto. apply (in_map fst) in H. exact H. }
  apply qlt_false in Hx. rewrite Hx. apply interp_from_node; auto.
Qed.

Lemma resample_spec s g : wf s ->
  match resample s g with
  | (s', None) => wf s' /\ wave s' = g /\ value s' = map (interp (wave s) (value s)) g
  | (s', Some e) => s' = s
  end.
Proof.
  intros (W1 & W2 & W3). unfold resample, sample.
  destruct (length (wave s) =? 0)%nat; auto.
  destruct (length (wave s) =? length (value s))%nat; simpl; auto.
  destruct (wave_check g) as [w'|e] eqn:Ec; auto.
  apply wave_check_ok in Ec. destruct Ec as (-> & C1 & C2). split; auto.
  apply wf_of_samples; auto. rewrite map_length. reflexivity.
Qed.

(* ------------------------------------------------------------------ *)
(* retained samples are unaltered                                      *)
Lemma lookup_In p x y : lookup p x = Some y -> In (x, y) p.
Proof.
  induction p as [|[a b] p IH]; simpl; [discriminate|]. destruct (qeqb x a) eqn:E.
  - intros H. inversion H; subst. qb. subst. left; auto.
  - intros H. right; auto.
Qed.
Lemma keys_unique {A B} (p : list (A * B)) x y y' : NoDup (map fst p) -> In (x, y) p -> In (x, y') p -> y = y'.
Proof.
  induction p as [|[a b] p IH]; simpl; intros N H1 H2; [destruct H1|]. inversion N; subst.
  destruct H1 as [H1|H1], H2 as [H2|H2].
  - congruence.
  - inversion H1; subst. exfalso. apply H3. apply (in_map fst) in H2. exact H2.
  - inversion H2; subst. exfalso. apply H3. apply (in_map fst) in H1. exact H1.
  - auto.
Qed.
Lemma wf_keys_nodup s : wf s -> NoDup (map fst (samples s)).
Proof. intros W. rewrite (wf_wave _ W). apply SS_NoDup. apply increasing_SS. apply W. Qed.
Lemma retained_by_inclusion s s' :
  (wf s /\ incl (samples s') (samples s)) \/ (wf s' /\ incl (samples s) (samples s')) ->
  forall x y y', lookup (samples s') x = Some y' -> lookup (samples s) x = Some y -> y' = y.
Proof.
  intros H x y y' L' L. apply lookup_In in L', L. destruct H as [[W I]|[W I]].
  - eapply keys_unique; [apply wf_keys_nodup; eassumption | apply I; eassumption | eassumption].
  - eapply keys_unique; [apply wf_keys_nodup; eassumption | eassumption | apply I; eassumption].
Qed.
Lemma In_combine_map {A B} (f : A -> B) g x y : In (x, y) (combine g (map f g)) -> y = f x.
Proof. induction g; simpl; intros H; [destruct H|]. destruct H as [H|H]; [inversion H; auto | auto]. Qed.


Lemma exec_wf s o : wf s -> op_ok o -> wf (fst (exec s o)).
Proof.
  intros W Ho. destruct o as [a b|tol|e0 e1 sm md|o'|g]; simpl in *.
  - apply crop_spec; auto.
  - pose proof (trim_spec s tol W) as T. destruct (trim s tol) as [s' [e|]]; simpl; [subst; auto | tauto].
  - pose proof (pad_spec s e0 e1 sm md W) as T. destruct (pad s e0 e1 sm md) as [s' [e|]]; simpl; [subst; auto | tauto].
  - pose proof (append_spec s o' W Ho) as T. destruct (append s o') as [s' [e|]]; simpl; [subst; auto | tauto].
  - pose proof (resample_spec s g W) as T. destruct (resample s g) as [s' [e|]]; simpl in *; [subst; auto | tauto].
Qed.

Lemma exec_retained s o : wf s -> op_ok o ->
  forall x y y', lookup (samples (fst (exec s o))) x = Some y' -> lookup (samples s) x = Some y -> y' = y.
Proof.
  intros W Ho. pose proof (exec_wf s o W Ho) as W'.
  destruct o as [a b|tol|e0 e1 sm md|o'|g]; simpl in *.
  - apply retained_by_inclusion. left. split; auto. destruct (crop_spec s a b W) as [_ ->].
    intros q Hq. apply filter_In in Hq. tauto.
  - apply retained_by_inclusion. left. split; auto.
    pose proof (trim_spec s tol W) as T. destruct (trim s tol) as [s' [e|]]; simpl in *; [subst; apply incl_refl|].
    destruct T as [_ [[_ ->]|(i & j & _ & ->)]]; [apply incl_refl|]. intros q Hq. eapply In_slice; eauto.
  - pose proof (pad_spec s e0 e1 sm md W) as T. destruct (pad s e0 e1 sm md) as [s' [e|]]; simpl in *.
    + subst. apply retained_by_inclusion. left. split; auto. apply incl_refl.
    + apply retained_by_inclusion. right. split; auto. destruct T as [_ (l & r & ->)].
      intros q Hq. apply in_or_app. right. apply in_or_app. left. auto.
  - pose proof (append_spec s o' W Ho) as T. destruct (append s o') as [s' [e|]]; simpl in *.
    + subst. apply retained_by_inclusion. left. split; auto. apply incl_refl.
    + apply retained_by_inclusion. right. split; auto. destruct T as [_ ->]. intros q Hq. apply in_or_app. auto.
  - pose proof (resample_spec s g W) as T. destruct (resample s g) as [s' [e|]]; simpl in *.
    + subst. intros x y y' L' L. congruence.
    + destruct T as (_ & T1 & T2). intros x y y' L' L. apply lookup_In in L', L.
      unfold samples in L'. rewrite T1, T2 in L'. apply In_combine_map in L'. subst y'.
      apply interp_node; auto; apply W.
Qed.

(* ------------------------------------------------------------------ *)
(* the invariant over call sequences                                   *)
Lemma run_wf ops : forall s, wf s -> Forall op_ok ops -> wf (run s ops).
Proof.
  induction ops as [|o t IH]; simpl; intros s W Ho; auto.
  inversion Ho; subst. apply IH; auto. apply exec_wf; auto.
Qed.
Lemma trace_wf ops : forall s, wf s -> Forall op_ok ops -> Forall (fun r => wf (fst r)) (trace s ops).
Proof.
  induction ops as [|o t IH]; simpl; intros s W Ho; constructor.
  - inversion Ho; subst. apply exec_wf; tauto.
  - inversion Ho; subst. apply IH; auto. apply exec_wf; tauto.
Qed.

(* a refused call leaves the object untouched, with one exception: crop above the range empties the object
   and then raises IndexError (the emptied object is still exactly the samples inside the range) *)
Lemma refused_unchanged s o e : wf s -> op_ok o -> snd (exec s o) = Some e ->
  match o with
  | OCrop a b => samples (fst (exec s o)) = select a b (samples s)
  | _ => fst (exec s o) = s
  end.
Proof.
  intros W Ho He. destruct o as [a b|tol|e0 e1 sm md|o'|g]; simpl in *.
  - apply crop_spec; auto.
  - pose proof (trim_spec s tol W) as T. destruct (trim s tol) as [s' [e'|]]; simpl in *; [auto|discriminate].
  - pose proof (pad_spec s e0 e1 sm md W) as T. destruct (pad s e0 e1 sm md) as [s' [e'|]]; simpl in *; [auto|discriminate].
  - pose proof (append_spec s o' W Ho) as T. destruct (append s o') as [s' [e'|]]; simpl in *; [auto|discriminate].
  - pose proof (resample_spec s g W) as T. destruct (resample s g) as [s' [e'|]]; simpl in *; [auto|discriminate].
Qed.

(* ------------------------------------------------------------------ *)
(* (a) integrate is linear in the values                                *)
Inductive lin3 (a b : Qc) : list (Qc * Qc) -> list (Qc * Qc) -> list (Qc * Qc) -> Prop :=
| lin3_nil : lin3 a b [] [] []
| lin3_cons x y z P Q R : lin3 a b P Q R -> lin3 a b ((x, y) :: P) ((x, z) :: Q) ((x, a * y + b * z) :: R).
Lemma lin3_combine a b w v u : length v = length w -> length u = length w ->
  lin3 a b (combine w v) (combine w u) (combine w (lincomb a v b u)).
Proof.
  revert v u. induction w as [|x w IH]; intros v u Hv Hu; simpl; [constructor|].
  destruct v as [|y v], u as [|z u]; try discriminate. simpl. constructor. apply IH; simpl in *; congruence.
Qed.
Lemma lin3_filter a b f P Q R : lin3 a b P Q R ->
  lin3 a b (filter (fun q => f (fst q)) P) (filter (fun q => f (fst q)) Q) (filter (fun q => f (fst q)) R).
Proof. induction 1; simpl; [constructor|]. destruct (f x); [constructor|]; auto. Qed.
Lemma lin3_length a b P Q R : lin3 a b P Q R -> length Q = length P /\ length R = length P.
Proof. induction 1; simpl; [auto|]. destruct IHlin3. split; congruence. Qed.
Lemma lin3_trapz a b P Q R : lin3 a b P Q R -> trapz R = a * trapz P + b * trapz Q.
Proof.
  induction 1 as [|x y z P Q R H IH]; simpl; [ring|].
  destruct H as [|x' y' z' P' Q' R' H']; [simpl; ring|].
  change (trapz ((x', a * y' + b * z') :: R')) with (trapz ((x', a * y' + b * z') :: R')) in IH.
  rewrite IH. unfold Qcdiv. ring.
Qed.
Lemma lin3_simpson_basic a b P Q R : lin3 a b P Q R ->
  simpson_basic R = a * simpson_basic P + b * simpson_basic Q.
Proof.
  (* panels advance two samples at a time: prove the statement for a list and for its tail together *)
  assert (G : forall n P Q R, (length P <= n)%nat -> lin3 a b P Q R ->
              simpson_basic R = a * simpson_basic P + b * simpson_basic Q).
  { induction n as [|n IH]; intros P0 Q0 R0 Hn H.
    - destruct H; [simpl; ring | simpl in Hn; lia].
    - destruct H as [|x0 y0 z0 P1 Q1 R1 H1]; [simpl; ring|].
      destruct H1 as [|x1 y1 z1 P2 Q2 R2 H2]; [simpl; ring|].
      destruct H2 as [|x2 y2 z2 P3 Q3 R3 H3]; [simpl; ring|].
      change (simpson_basic ((x0, a * y0 + b * z0) :: (x1, a * y1 + b * z1) :: (x2, a * y2 + b * z2) :: R3))
        with (simpson_panel x0 (a * y0 + b * z0) x1 (a * y1 + b * z1) x2 (a * y2 + b * z2)
              + simpson_basic ((x2, a * y2 + b * z2) :: R3)).
      change (simpson_basic ((x0, y0) :: (x1, y1) :: (x2, y2) :: P3))
        with (simpson_panel x0 y0 x1 y1 x2 y2 + simpson_basic ((x2, y2) :: P3)).
      change (simpson_basic ((x0, z0) :: (x1, z1) :: (x2, z2) :: Q3))
        with (simpson_panel x0 z0 x1 z1 x2 z2 + simpson_basic ((x2, z2) :: Q3)).
      rewrite (IH ((x2, y2) :: P3) ((x2, z2) :: Q3) ((x2, a * y2 + b * z2) :: R3)).
      + unfold simpson_panel, Qcdiv. ring.
      + simpl in *. lia.
      + constructor. exact H3. }
  intros H. eapply G; eauto.
Qed.
Lemma lin3_app a b P1 Q1 R1 P2 Q2 R2 : lin3 a b P1 Q1 R1 -> lin3 a b P2 Q2 R2 ->
  lin3 a b (P1 ++ P2) (Q1 ++ Q2) (R1 ++ R2).
Proof. induction 1; simpl; auto. intros. constructor. auto. Qed.
Lemma lin3_rev a b P Q R : lin3 a b P Q R -> lin3 a b (rev P) (rev Q) (rev R).
Proof. induction 1; simpl; [constructor|]. apply lin3_app; auto. repeat constructor. Qed.
Lemma lin3_removelast a b P Q R : lin3 a b P Q R -> lin3 a b (removelast P) (removelast Q) (removelast R).
Proof.
  induction 1 as [|x y z P Q R H IH]; [constructor|].
  destruct H; [constructor|]. 
  change (lin3 a b ((x, y) :: removelast ((x0, y0) :: P)) ((x, z) :: removelast ((x0, z0) :: Q))
            ((x, a * y + b * z) :: removelast ((x0, a * y0 + b * z0) :: R))).
  constructor. exact IH.
Qed.
Lemma simpson_ge3 p0 p1 p2 l :
  simpson (p0 :: p1 :: p2 :: l) =
  if Nat.even (length (p0 :: p1 :: p2 :: l)) then
    match last3 (p0 :: p1 :: p2 :: l) with
    | Some ((xa, ya), (xb, yb), (xc, yc)) =>
        Ok (simpson_basic (removelast (p0 :: p1 :: p2 :: l)) + simpson_last xa ya xb yb xc yc)
    | None => Err ValueError end
  else Ok (simpson_basic (p0 :: p1 :: p2 :: l)).
Proof. destruct p0, p1. reflexivity. Qed.

Definition rlin (a b : Qc) (rP rQ rR : result Qc) : Prop :=
  match rP, rQ, rR with
  | Ok x, Ok y, Ok z => z = a * x + b * y
  | Err e1, Err e2, Err e3 => e1 = e2 /\ e2 = e3
  | _, _, _ => False
  end.
Lemma lin3_simpson a b P Q R : lin3 a b P Q R -> rlin a b (simpson P) (simpson Q) (simpson R).
Proof.
  intros H. pose proof (lin3_length _ _ _ _ _ H) as [LQ LR].
  pose proof (lin3_simpson_basic _ _ _ _ _ (lin3_removelast _ _ _ _ _ H)) as HB.
  pose proof (lin3_simpson_basic _ _ _ _ _ H) as HF.
  pose proof (lin3_rev _ _ _ _ _ H) as HR.
  destruct H as [|x0 y0 z0 P1 Q1 R1 H1]; [simpl; auto|].
  destruct H1 as [|x1 y1 z1 P2 Q2 R2 H2]; [simpl; ring|].
  destruct H2 as [|x2 y2 z2 P3 Q3 R3 H3]; [simpl; unfold Qcdiv; ring|].
  rewrite !simpson_ge3. rewrite LQ, LR.
  destruct (Nat.even (length ((x0, y0) :: (x1, y1) :: (x2, y2) :: P3))).
  - unfold last3.
    set (rp := rev ((x0, y0) :: (x1, y1) :: (x2, y2) :: P3)) in *.
    set (rq := rev ((x0, z0) :: (x1, z1) :: (x2, z2) :: Q3)) in *.
    set (rr := rev ((x0, a * y0 + b * z0) :: (x1, a * y1 + b * z1) :: (x2, a * y2 + b * z2) :: R3)) in *.
    clearbody rp rq rr.
    destruct HR as [|xc yc zc ? ? ? HR1]; [lazy beta iota; unfold rlin; auto|].
    destruct HR1 as [|xb yb zb ? ? ? HR2]; [lazy beta iota; unfold rlin; auto|].
    destruct HR2 as [|xa ya za ? ? ? HR3]; [lazy beta iota; unfold rlin; auto|].
    lazy beta iota. unfold rlin. rewrite HB. unfold simpson_last, Qcdiv. ring.
  - simpl. exact HF.
Qed.

Lemma integrate_linear w v u a b lo hi r : length v = length w -> length u = length w ->
  rlin a b (integrate (mkSp w v) lo hi r) (integrate (mkSp w u) lo hi r)
           (integrate (mkSp w (lincomb a v b u)) lo hi r).
Proof.
  intros Hv Hu. unfold integrate, samples. simpl.
  destruct (match lo with Some x => Ok x | None => qminl w end) as [l|e]; simpl; auto.
  destruct (match hi with Some x => Ok x | None => qmaxl w end) as [h|e]; simpl; auto.
  pose proof (lin3_filter a b (in_range l h) _ _ _ (lin3_combine a b w v u Hv Hu)) as L.
  destruct r; simpl.
  - apply lin3_trapz. exact L.
  - apply lin3_simpson. exact L.
Qed.

(* ------------------------------------------------------------------ *)
(* (b) the trapezoid integral is additive at a sample point             *)
Lemma SS_app_lt {A} (R : A -> A -> Prop) l1 l2 : StronglySorted R (l1 ++ l2) ->
  forall x y, In x l1 -> In y l2 -> R x y.
Proof.
  induction l1 as [|a l1 IH]; simpl; intros H x y Hx Hy; [destruct Hx|]. inversion H; subst.
  destruct Hx as [->|Hx]; [|eapply IH; eauto]. rewrite Forall_forall in H3. apply H3. apply in_or_app. auto.
Qed.
Lemma trapz_split A m B : trapz (A ++ m :: B) = trapz (A ++ [m]) + trapz (m :: B).
Proof.
  induction A as [|[x0 y0] A IH].
  - destruct m. simpl. ring.
  - destruct A as [|[x1 y1] A'].
    + destruct m as [xm ym]. simpl app. 
      change (trapz ((x0, y0) :: (xm, ym) :: B)) with ((xm - x0) * (ym + y0) / two + trapz ((xm, ym) :: B)).
      simpl. ring.
    + change (((x0, y0) :: (x1, y1) :: A') ++ m :: B) with ((x0, y0) :: (x1, y1) :: (A' ++ m :: B)).
      change (((x0, y0) :: (x1, y1) :: A') ++ [m]) with ((x0, y0) :: (x1, y1) :: (A' ++ [m])).
      change (trapz ((x0, y0) :: (x1, y1) :: A' ++ m :: B))
        with ((x1 - x0) * (y1 + y0) / two + trapz (((x1, y1) :: A') ++ m :: B)).
      change (trapz ((x0, y0) :: (x1, y1) :: A' ++ [m]))
        with ((x1 - x0) * (y1 + y0) / two + trapz (((x1, y1) :: A') ++ [m])).
      rewrite IH. ring.
Qed.

(* a sorted table splits at a sample point into the samples below and above it *)
Lemma sorted_split (P : list (Qc * Qc)) mid : increasing (map fst P) -> In mid (map fst P) ->
  exists P1 y P2, P = P1 ++ (mid, y) :: P2 /\
    (forall q, In q P1 -> fst q < mid) /\ (forall q, In q P2 -> mid < fst q).
Proof.
  intros I H. apply in_map_iff in H. destruct H as ([x y] & Hx & Hq). simpl in Hx. subst x.
  apply in_split in Hq. destruct Hq as (P1 & P2 & ->). exists P1, y, P2. split; auto.
  apply increasing_SS in I. rewrite map_app in I. simpl in I. split.
  - intros q Hq. apply (SS_app_lt _ _ _ I (fst q) mid); [apply (in_map fst); auto | left; auto].
  - intros q Hq. apply SS_app_inv_r in I. inversion I; subst. rewrite Forall_forall in H2. apply H2. apply (in_map fst); auto.
Qed.
(* the three selections around a sample point *)
Lemma select_split (P1 : list (Qc * Qc)) y P2 lo mid hi : lo <= mid -> mid <= hi ->
  (forall q, In q P1 -> fst q < mid) -> (forall q, In q P2 -> mid < fst q) ->
  let A := filter (fun q => qle lo (fst q)) P1 in
  let B := filter (fun q => qle (fst q) hi) P2 in
  select lo hi (P1 ++ (mid, y) :: P2) = A ++ (mid, y) :: B /\
  select lo mid (P1 ++ (mid, y) :: P2) = A ++ [(mid, y)] /\
  select mid hi (P1 ++ (mid, y) :: P2) = (mid, y) :: B.
Proof.
  intros H1 H2 L1 L2 A B. unfold select. rewrite !filter_app. simpl. unfold in_range at 2 4 6. simpl.
  pose proof (proj2 (qle_iff _ _) H1) as E1. pose proof (proj2 (qle_iff _ _) H2) as E2.
  pose proof (proj2 (qle_iff _ _) (Qcle_refl mid)) as E3. rewrite E1, E2, E3. simpl.
  assert (F1 : forall hi', mid <= hi' -> filter (fun q => in_range lo hi' (fst q)) P1 = A).
  { intros hi' Hh. apply filter_ext_in. intros q Hq. unfold in_range.
    replace (qle (fst q) hi') with true; [apply andb_true_r|]. symmetry. apply qle_iff.
    apply Qclt_le_weak. eapply Qclt_le_trans; [apply L1; auto | auto]. }
  assert (F2 : forall lo', lo' <= mid -> filter (fun q => in_range lo' hi (fst q)) P2 = B).
  { intros lo' Hl. apply filter_ext_in. intros q Hq. unfold in_range.
    replace (qle lo' (fst q)) with true; [reflexivity|]. symmetry. apply qle_iff.
    apply Qclt_le_weak. eapply Qcle_lt_trans; [eassumption | apply L2; auto]. }
  assert (F3 : filter (fun q => in_range mid hi (fst q)) P1 = []).
  { apply filter_none. intros q Hq. unfold in_range. replace (qle mid (fst q)) with false; auto.
    symmetry. apply qle_false. apply L1; auto. }
  assert (F4 : filter (fun q => in_range lo mid (fst q)) P2 = []).
  { apply filter_none. intros q Hq. unfold in_range. replace (qle (fst q) mid) with false; [apply andb_false_r|].
    symmetry. apply qle_false. apply L2; auto. }
  rewrite (F1 hi H2), (F1 mid (Qcle_refl _)), (F2 lo H1), (F2 mid (Qcle_refl _)), F3, F4.
  unfold in_range. rewrite E2, E3. simpl. auto.
Qed.
Lemma trapz_additive (P : list (Qc * Qc)) lo mid hi : increasing (map fst P) -> In mid (map fst P) -> lo <= mid -> mid <= hi ->
  trapz (select lo hi P) = trapz (select lo mid P) + trapz (select mid hi P).
Proof.
  intros I H H1 H2. destruct (sorted_split P mid I H) as (P1 & y & P2 & -> & L1 & L2).
  destruct (select_split P1 y P2 lo mid hi H1 H2 L1 L2) as (-> & -> & ->). apply trapz_split.
Qed.

(* ------------------------------------------------------------------ *)
(* (c) the trapezoid rule is the integral of the piecewise-linear interpolant between sample points *)
Lemma qmax_l a b : b <= a -> qmax a b = a.
Proof. intros H. unfold qmax. destruct (qle a b) eqn:E; auto. qb. apply Qcle_antisym; auto. Qed.
Lemma qmax_r a b : a <= b -> qmax a b = b.
Proof. intros H. unfold qmax. apply qle_iff in H. rewrite H. reflexivity. Qed.
Lemma qmin_l a b : a <= b -> qmin a b = a.
Proof. intros H. unfold qmin. apply qle_iff in H. rewrite H. reflexivity. Qed.
Lemma qmin_r a b : b <= a -> qmin a b = b.
Proof. intros H. unfold qmin. destruct (qle a b) eqn:E; auto. qb. apply Qcle_antisym; auto. Qed.

Lemma pl_split A m B lo hi :
  pl_integral (A ++ m :: B) lo hi = pl_integral (A ++ [m]) lo hi + pl_integral (m :: B) lo hi.
Proof.
  induction A as [|[x0 y0] A IH].
  - destruct m. simpl. ring.
  - destruct A as [|[x1 y1] A'].
    + destruct m as [xm ym]. simpl app.
      change (pl_integral ((x0, y0) :: (xm, ym) :: B) lo hi)
        with ((if qlt (qmax lo x0) (qmin hi xm) then piece x0 y0 xm ym (qmax lo x0) (qmin hi xm) else 0)
              + pl_integral ((xm, ym) :: B) lo hi).
      simpl. ring.
    + change (((x0, y0) :: (x1, y1) :: A') ++ m :: B) with ((x0, y0) :: (x1, y1) :: (A' ++ m :: B)).
      change (((x0, y0) :: (x1, y1) :: A') ++ [m]) with ((x0, y0) :: (x1, y1) :: (A' ++ [m])).
      change (pl_integral ((x0, y0) :: (x1, y1) :: A' ++ m :: B) lo hi)
        with ((if qlt (qmax lo x0) (qmin hi x1) then piece x0 y0 x1 y1 (qmax lo x0) (qmin hi x1) else 0)
              + pl_integral (((x1, y1) :: A') ++ m :: B) lo hi).
      change (pl_integral ((x0, y0) :: (x1, y1) :: A' ++ [m]) lo hi)
        with ((if qlt (qmax lo x0) (qmin hi x1) then piece x0 y0 x1 y1 (qmax lo x0) (qmin hi x1) else 0)
              + pl_integral (((x1, y1) :: A') ++ [m]) lo hi).
      rewrite IH. ring.
Qed.
Lemma pl_zero_right (P : list (Qc * Qc)) lo hi : (forall q, In q P -> hi <= fst q) -> pl_integral P lo hi = 0.
Proof.
  induction P as [|[x0 y0] [|[x1 y1] t] IH]; intros H; try reflexivity.
  change (pl_integral ((x0, y0) :: (x1, y1) :: t) lo hi)
    with ((if qlt (qmax lo x0) (qmin hi x1) then piece x0 y0 x1 y1 (qmax lo x0) (qmin hi x1) else 0)
          + pl_integral ((x1, y1) :: t) lo hi).
  rewrite IH by (intros q Hq; apply H; right; auto).
  replace (qlt (qmax lo x0) (qmin hi x1)) with false; [ring|]. symmetry. apply qlt_false.
  eapply Qcle_trans; [apply qmin_le_l|]. eapply Qcle_trans; [apply (H (x0, y0)); left; auto|]. apply qmax_ge_r.
Qed.
Lemma pl_zero_left (P : list (Qc * Qc)) lo hi : (forall q, In q P -> fst q <= lo) -> pl_integral P lo hi = 0.
Proof.
  induction P as [|[x0 y0] [|[x1 y1] t] IH]; intros H; try reflexivity.
  change (pl_integral ((x0, y0) :: (x1, y1) :: t) lo hi)
    with ((if qlt (qmax lo x0) (qmin hi x1) then piece x0 y0 x1 y1 (qmax lo x0) (qmin hi x1) else 0)
          + pl_integral ((x1, y1) :: t) lo hi).
  rewrite IH by (intros q Hq; apply H; right; auto).
  replace (qlt (qmax lo x0) (qmin hi x1)) with false; [ring|]. symmetry. apply qlt_false.
  eapply Qcle_trans; [apply qmin_le_r|]. eapply Qcle_trans; [apply (H (x1, y1)); right; left; auto|]. apply qmax_ge_l.
Qed.
Lemma piece_full x0 y0 x1 y1 : x0 < x1 -> piece x0 y0 x1 y1 x0 x1 = (x1 - x0) * (y1 + y0) / two.
Proof.
  intros H. unfold piece. rewrite two_eq. field. split; [apply opo_neq0 | apply lt_minus_neq0; auto].
Qed.
Lemma pl_full (P : list (Qc * Qc)) lo hi : increasing (map fst P) ->
  (forall q, In q P -> lo <= fst q /\ fst q <= hi) -> pl_integral P lo hi = trapz P.
Proof.
  induction P as [|[x0 y0] [|[x1 y1] t] IH]; intros I H; try reflexivity.
  change (pl_integral ((x0, y0) :: (x1, y1) :: t) lo hi)
    with ((if qlt (qmax lo x0) (qmin hi x1) then piece x0 y0 x1 y1 (qmax lo x0) (qmin hi x1) else 0)
          + pl_integral ((x1, y1) :: t) lo hi).
  change (trapz ((x0, y0) :: (x1, y1) :: t)) with ((x1 - x0) * (y1 + y0) / two + trapz ((x1, y1) :: t)).
  destruct I as [I1 I2]. rewrite IH; auto; [|intros q Hq; apply H; right; auto].
  rewrite (qmax_r lo x0) by (apply (H (x0, y0)); left; auto).
  rewrite (qmin_r hi x1) by (apply (H (x1, y1)); right; left; auto).
  simpl in I1. pose proof (proj2 (qlt_iff _ _) I1) as E. rewrite E. rewrite piece_full; auto.
Qed.

Lemma trapz_is_pl_integral (P : list (Qc * Qc)) lo hi : increasing (map fst P) ->
  In lo (map fst P) -> In hi (map fst P) -> lo <= hi ->
  trapz (select lo hi P) = pl_integral P lo hi.
Proof.
  intros I Hlo Hhi Hle.
  destruct (sorted_split P hi I Hhi) as (P1 & yb & P2 & -> & L1 & L2).
  destruct (select_split P1 yb P2 lo hi hi Hle (Qcle_refl _) L1 L2) as (_ & S & _). rewrite S. clear S.
  rewrite pl_split. rewrite (pl_zero_right ((hi, yb) :: P2)).
  2:{ intros q [<-|Hq]; [apply Qcle_refl | apply Qclt_le_weak; auto]. }
  (* now split P1 ++ [b] at lo *)
  assert (I' : increasing (map fst (P1 ++ [(hi, yb)]))).
  { apply increasing_SS. apply increasing_SS in I. rewrite map_app in *. simpl in *.
    replace (map fst P1 ++ hi :: map fst P2) with ((map fst P1 ++ [hi]) ++ map fst P2) in I
      by (rewrite <- app_assoc; reflexivity).
    eapply SS_app_inv_l; eauto. }
  assert (Hlo' : In lo (map fst (P1 ++ [(hi, yb)]))).
  { rewrite map_app in *. simpl in *. apply in_app_or in Hlo. apply in_or_app. destruct Hlo as [Hl|[Hl|Hl]]; auto.
    - right. left. auto.
    - exfalso. apply in_map_iff in Hl. destruct Hl as (q & <- & Hq). apply L2 in Hq.
      eapply Qcle_not_lt; eauto. }
  destruct (sorted_split _ lo I' Hlo') as (S1 & ya & S2 & E & M1 & M2).
  replace (filter (fun q => qle lo (fst q)) P1 ++ [(hi, yb)]) with (filter (fun q => qle lo (fst q)) (P1 ++ [(hi, yb)])).
  2:{ rewrite filter_app. simpl. apply qle_iff in Hle. rewrite Hle. reflexivity. }
  rewrite E. rewrite filter_app. simpl. rewrite (proj2 (qle_iff _ _) (Qcle_refl lo)).
  rewrite filter_none by (intros q Hq; apply qle_false; auto).
  rewrite filter_all by (intros q Hq; apply qle_iff; apply Qclt_le_weak; auto). simpl.
  rewrite pl_split. rewrite (pl_zero_left (S1 ++ [(lo, ya)])).
  2:{ intros q Hq. apply in_app_or in Hq. destruct Hq as [Hq|[<-|[]]]; [apply Qclt_le_weak; auto | apply Qcle_refl]. }
  rewrite pl_full.
  - rewrite Qcplus_0_l, Qcplus_0_r. reflexivity.
  - rewrite E in I'. rewrite map_app in I'. apply increasing_SS. apply increasing_SS in I'.
    eapply SS_app_inv_r; eauto.
  - (* every sample of (lo, ya) :: S2 lies in [lo, hi] *)
    intros q Hq. split.
    + destruct Hq as [<-|Hq]; [apply Qcle_refl | apply Qclt_le_weak; auto].
    + assert (Hin : In q (P1 ++ [(hi, yb)])) by (rewrite E; apply in_or_app; right; exact Hq).
      apply in_app_or in Hin. destruct Hin as [Hin|[<-|[]]]; [apply Qclt_le_weak; auto | apply Qcle_refl].
Qed.
(* the whole table (bounds at or beyond its ends) *)
Lemma trapz_is_pl_integral_whole (P : list (Qc * Qc)) lo hi : increasing (map fst P) ->
  (forall q, In q P -> lo <= fst q /\ fst q <= hi) ->
  trapz (select lo hi P) = pl_integral P lo hi.
Proof.
  intros I H. rewrite pl_full; auto. unfold select. rewrite filter_all; auto.
  intros q Hq. destruct (H q Hq) as [H1 H2]. unfold in_range. apply andb_true_intro. split; apply qle_iff; auto.
Qed.

(* ------------------------------------------------------------------ *)
(* (d) bins: one value per centre                                      *)
Lemma halfdiffs_length c : length (halfdiffs c) = pred (length c).
Proof. induction c as [|a [|b t] IH]; auto. change (halfdiffs (a :: b :: t)) with ((b - a) / two :: halfdiffs (b :: t)). simpl in *. rewrite IH. reflexivity. Qed.
Lemma mids_length c : length (mids c) = pred (length c).
Proof. induction c as [|a [|b t] IH]; auto. change (mids (a :: b :: t)) with ((a + (b - a) / two) :: mids (b :: t)). simpl in *. rewrite IH. reflexivity. Qed.
Lemma chain_trapz_length p : length (chain_trapz p) = pred (length p).
Proof.
  induction p as [|[x0 f0] [|[x1 f1] t] IH]; auto.
  change (chain_trapz ((x0, f0) :: (x1, f1) :: t)) with ((1 / two) * (f0 + f1) * (x1 - x0) :: chain_trapz ((x1, f1) :: t)).
  simpl in *. rewrite IH. reflexivity.
Qed.
Lemma chain_simps_length n : forall p, length p = (2 * n + 1)%nat -> length (chain_simps p) = n.
Proof.
  induction n as [|n IH]; intros p H.
  - destruct p as [|[x0 f0] [|? ?]]; simpl in *; try lia; reflexivity.
  - destruct p as [|[x0 f0] [|[x1 f1] [|[x2 f2] t]]]; simpl in H; try lia.
    change (chain_simps ((x0, f0) :: (x1, f1) :: (x2, f2) :: t))
      with (((x2 - x0) / six) * (f0 + four * f1 + f2) :: chain_simps ((x2, f2) :: t)).
    cbn [length]. f_equal. apply IH. cbn [length]. lia.
Qed.
Lemma interleave_length c m : length m = pred (length c) -> length (interleave c m) = (length c + length m)%nat.
Proof.
  revert m. induction c as [|a c IH]; intros m H; [destruct m; simpl in *; auto; discriminate|].
  destruct m as [|b m]; simpl in *.
  - destruct c; simpl in *; [reflexivity | discriminate].
  - destruct c as [|a' c']; [discriminate|]. rewrite IH; simpl in *; lia.
Qed.
Lemma removelast_length {A} (l : list A) : length (removelast l) = pred (length l).
Proof. induction l as [|a [|b t] IH]; auto. change (removelast (a :: b :: t)) with (a :: removelast (b :: t)). simpl in *. rewrite IH. reflexivity. Qed.

Lemma bin_edges_trapz_length e c : (1 <= length c)%nat -> length (bin_edges_trapz e c) = Datatypes.S (length c).
Proof. intros H. destruct e; unfold bin_edges_trapz; simpl; rewrite app_length, mids_length; simpl; lia. Qed.
Lemma bin_nodes_simps_length e c : (2 <= length c)%nat -> length (bin_nodes_simps e c) = (2 * length c + 1)%nat.
Proof.
  intros H. pose proof (interleave_length c (mids c) (mids_length c)) as L. rewrite mids_length in L.
  destruct e; unfold bin_nodes_simps.
  - simpl. rewrite app_length, L. simpl. lia.
  - destruct (interleave c (mids c)) as [|a [|b t]] eqn:E; simpl in L; try lia.
    unfold insert_before_last. rewrite app_length, removelast_length. simpl in *. lia.
Qed.
Lemma raw_bins_length s c r e b : raw_bins s c r e = Ok b -> length b = length c.
Proof.
  unfold raw_bins. destruct (length c <? 2)%nat eqn:E; [discriminate|]. apply Nat.ltb_ge in E.
  assert (S : forall x f, sample s x = Ok f -> length f = length x).
  { intros x f. unfold sample. destruct (length (wave s) =? 0)%nat; [discriminate|].
    destruct (negb _); [discriminate|]. intros H. inversion H. apply map_length. }
  destruct r.
  - destruct (sample s _) as [f|] eqn:Ef; [|discriminate]. simpl. intros H. inversion H; subst. clear H.
    apply S in Ef. rewrite chain_trapz_length, combine_length, Ef, Nat.min_id, bin_edges_trapz_length by lia. reflexivity.
  - destruct (sample s _) as [f|] eqn:Ef; [|discriminate]. simpl. intros H. inversion H; subst. clear H.
    apply S in Ef. apply chain_simps_length. rewrite combine_length, Ef, Nat.min_id. apply bin_nodes_simps_length. lia.
Qed.

Lemma qsum_scale l k : qsum (map (fun x => x * k) l) = qsum l * k.
Proof. induction l; simpl; [ring|]. rewrite IHl. ring. Qed.
(* with power preservation: as many bins, and they sum to integrate(min centre, max centre) *)
Lemma bin_spec s c r e pp b : bin s c r e pp = Ok (Some b) ->
  length b = length c /\
  (pp = true -> exists raw lo hi tot, raw_bins s c r e = Ok raw /\ qminl c = Ok lo /\ qmaxl c = Ok hi /\
                 integrate s (Some lo) (Some hi) r = Ok tot /\ qsum raw <> 0 /\
                 b = map (fun x => x * (tot / qsum raw)) raw /\ qsum b = tot) /\
  (pp = false -> raw_bins s c r e = Ok b).
Proof.
  unfold bin. destruct (raw_bins s c r e) as [raw|] eqn:Er; [|discriminate]. simpl.
  pose proof (raw_bins_length _ _ _ _ _ Er) as L. destruct pp.
  - destruct (qminl c) as [lo|]; [|discriminate]. destruct (qmaxl c) as [hi|]; [|discriminate]. simpl.
    destruct (integrate s (Some lo) (Some hi) r) as [tot|] eqn:Ei; [|discriminate]. simpl.
    destruct (qeqb (qsum raw) 0) eqn:E0; [discriminate|]. intros H. inversion H; subst. clear H. qb.
    split; [rewrite map_length; auto|]. split; [|discriminate]. intros _.
    exists raw, lo, hi, tot. repeat split; auto. rewrite qsum_scale. field. auto.
  - intros H. inversion H; subst. split; auto. split; [discriminate | auto].
Qed.

(* ------------------------------------------------------------------ *)
(* (d) bins of a non-negative spectrum are non-negative (trapezoid rule, any increasing centres) *)
Lemma chord_nonneg x0 x1 x y0 y1 : x0 <= x -> x < x1 -> 0 <= y0 -> 0 <= y1 ->
  0 <= y0 + ((y1 - y0) / (x1 - x0)) * (x - x0).
Proof.
  intros. qc2q.
  set (d := (this x1 - this x0)%Q) in *.
  assert (Hd : (0 < d)%Q) by (unfold d; lra).
  assert (Hi : (0 < / d)%Q) by (apply Qinv_lt_0_compat; auto).
  assert (Hm : (/ d * d == 1)%Q) by (rewrite Qmult_comm; apply Qmult_inv_r; lra).
  set (i := (/ d)%Q) in *. clearbody i.
  assert (U0 : (0 <= i * (this x - this x0))%Q) by nra.
  assert (U1 : (i * (this x - this x0) <= 1)%Q) by (unfold d in *; nra).
  set (u := (i * (this x - this x0))%Q) in *.
  setoid_replace ((this y1 - this y0) * i * (this x - this x0))%Q with ((this y1 - this y0) * u)%Q by (unfold u; ring).
  clearbody u. nra.
Qed.
Lemma interp_from_nonneg w v x : length w = length v -> Forall (fun y => 0 <= y) v ->
  (forall x0, hd_error w = Some x0 -> x0 <= x) -> 0 <= interp_from w v x.
Proof.
  revert v. induction w as [|x0 wt IH]; intros v L N Hx; [apply Qcle_refl|].
  destruct v as [|y0 vt]; [discriminate|]. simpl in L. injection L as L. inversion N; subst.
  destruct wt as [|x1 wt'].
  - simpl. destruct (qeqb x x0); [auto | apply Qcle_refl].
  - destruct vt as [|y1 vt']; [discriminate|].
    change (interp_from (x0 :: x1 :: wt') (y0 :: y1 :: vt') x)
      with (if qlt x x1 then y0 + ((y1 - y0) / (x1 - x0)) * (x - x0) else interp_from (x1 :: wt') (y1 :: vt') x).
    destruct (qlt x x1) eqn:E; qb.
    + inversion H2; subst. apply chord_nonneg; auto.
    + apply IH; auto. intros x' Hx'. inversion Hx'; subst. auto.
Qed.
Lemma interp_nonneg w v x : length w = length v -> Forall (fun y => 0 <= y) v -> 0 <= interp w v x.
Proof.
  intros L N. unfold interp. destruct w as [|x0 wt]; [apply Qcle_refl|].
  destruct (qlt x x0) eqn:E; [apply Qcle_refl|]. qb. apply interp_from_nonneg; auto.
  intros x' Hx'. inversion Hx'; subst. auto.
Qed.

Fixpoint nondecr (w : list Qc) : Prop :=
  match w with a :: ((b :: _) as t) => a <= b /\ nondecr t | _ => True end.
Lemma increasing_nondecr w : increasing w -> nondecr w.
Proof. induction w as [|a [|b t] IH]; simpl; auto. intros [H1 H2]. split; [apply Qclt_le_weak; auto | apply IH; auto]. Qed.
Lemma half_nonneg_prod f0 f1 x0 x1 : 0 <= f0 -> 0 <= f1 -> x0 <= x1 -> 0 <= (1 / two) * (f0 + f1) * (x1 - x0).
Proof. intros. qc2q. nra. Qed.
Lemma chain_trapz_nonneg p : nondecr (map fst p) -> Forall (fun y => 0 <= y) (map snd p) ->
  Forall (fun y => 0 <= y) (chain_trapz p).
Proof.
  induction p as [|[x0 f0] [|[x1 f1] t] IH]; intros S N; try constructor.
  - simpl in S, N. destruct S as [S1 S2]. inversion N; subst. inversion H2; subst. apply half_nonneg_prod; auto.
  - apply IH; [apply S | inversion N; auto].
Qed.
Lemma trapz_term_nonneg f0 f1 x0 x1 : 0 <= f0 -> 0 <= f1 -> x0 <= x1 -> 0 <= (x1 - x0) * (f1 + f0) / two.
Proof. intros. qc2q. nra. Qed.
Lemma trapz_nonneg p : nondecr (map fst p) -> Forall (fun y => 0 <= y) (map snd p) -> 0 <= trapz p.
Proof.
  induction p as [|[x0 f0] [|[x1 f1] t] IH]; intros S N; try apply Qcle_refl.
  change (trapz ((x0, f0) :: (x1, f1) :: t)) with ((x1 - x0) * (f1 + f0) / two + trapz ((x1, f1) :: t)).
  simpl in S, N. destruct S as [S1 S2]. inversion N; subst. inversion H2; subst.
  replace 0 with (0 + 0) by ring. apply Qcplus_le_compat; [apply trapz_term_nonneg; auto | apply IH; auto].
Qed.

(* the bin edges of increasing centres are non-decreasing *)
Lemma mid_le_mid a b c : a < b -> b < c -> a + (b - a) / two <= b + (c - b) / two.
Proof. intros. qc2q. lra. Qed.
Lemma mid_le_right a b : a < b -> a + (b - a) / two <= b.
Proof. intros. qc2q. lra. Qed.
Lemma left_le_mid a b : a < b -> a <= a + (b - a) / two.
Proof. intros. qc2q. lra. Qed.
Lemma mids_then_end_sorted a t z : increasing (a :: t) -> last (a :: t) 0 <= z -> nondecr (mids (a :: t) ++ [z]).
Proof.
  revert a. induction t as [|b t IH]; intros a I Hz; [simpl; auto|].
  destruct I as [I1 I2].
  change (mids (a :: b :: t)) with ((a + (b - a) / two) :: mids (b :: t)).
  change (last (a :: b :: t) 0) with (last (b :: t) 0) in Hz.
  specialize (IH b I2 Hz). destruct t as [|c t'].
  - simpl in *. split; auto. eapply Qcle_trans; [apply mid_le_right; auto | auto].
  - change (mids (b :: c :: t')) with ((b + (c - b) / two) :: mids (c :: t')) in *.
    simpl app in *. split; auto. apply mid_le_mid; auto. apply I2.
Qed.
Lemma last_halfdiffs_nonneg c : increasing c -> 0 <= last (halfdiffs c) 0.
Proof.
  induction c as [|a [|b t] IH]; intros I; try apply Qcle_refl. destruct I as [I1 I2].
  change (halfdiffs (a :: b :: t)) with ((b - a) / two :: halfdiffs (b :: t)).
  destruct t as [|c t'].
  - simpl. qc2q. lra.
  - change (halfdiffs (b :: c :: t')) with ((c - b) / two :: halfdiffs (c :: t')) in *.
    change (last ((b - a) / two :: (c - b) / two :: halfdiffs (c :: t')) 0) with (last ((c - b) / two :: halfdiffs (c :: t')) 0).
    apply IH; auto.
Qed.
Lemma bin_edges_trapz_sorted e c : increasing c -> (2 <= length c)%nat -> nondecr (bin_edges_trapz e c).
Proof.
  intros I L. destruct c as [|a [|b t]]; simpl in L; try lia.
  pose proof (last_halfdiffs_nonneg _ I) as HL.
  assert (M : forall z, last (a :: b :: t) 0 <= z -> forall e0, e0 <= a + (b - a) / two ->
              nondecr (e0 :: mids (a :: b :: t) ++ [z])).
  { intros z Hz e0 He. pose proof (mids_then_end_sorted a (b :: t) z I Hz) as S.
    change (mids (a :: b :: t)) with ((a + (b - a) / two) :: mids (b :: t)) in *. simpl app in *. split; auto. }
  destruct I as [I1 I2]. unfold bin_edges_trapz. destruct e.
  - apply M.
    + set (l := last (a :: b :: t) 0) in *. set (h := last (halfdiffs (a :: b :: t)) 0) in *. clearbody l h. qc2q. lra.
    + change (hd 0 (halfdiffs (a :: b :: t))) with ((b - a) / two). cbn [hd]. qc2q. lra.
  - apply M; [apply Qcle_refl|]. cbn [hd]. apply left_le_mid; auto.
Qed.

Lemma Forall_map_nonneg_interp w v x : length w = length v -> Forall (fun y => 0 <= y) v ->
  Forall (fun y => 0 <= y) (map (interp w v) x).
Proof. intros. apply Forall_forall. intros y Hy. apply in_map_iff in Hy. destruct Hy as (z & <- & _). apply interp_nonneg; auto. Qed.
Lemma qsum_nonneg l : Forall (fun y => 0 <= y) l -> 0 <= qsum l.
Proof. induction 1; simpl; [apply Qcle_refl|]. replace 0 with (0 + 0) by ring. apply Qcplus_le_compat; auto. Qed.
Lemma scale_nonneg x tot sb : 0 <= x -> 0 <= tot -> 0 <= sb -> sb <> 0 -> 0 <= x * (tot / sb).
Proof.
  intros H1 H2 H3 H4. assert (P : 0 < sb) by (destruct (Qcle_lt_or_eq _ _ H3); auto; congruence).
  qc2q. assert (Hi : (0 < / this sb)%Q) by (apply Qinv_lt_0_compat; auto).
  set (i := (/ this sb)%Q) in *. clearbody i. assert (0 <= this tot * i)%Q by nra.
  set (u := (this tot * i)%Q) in *. clearbody u. nra.
Qed.

Lemma raw_bins_trapz_nonneg s c e b : length (wave s) = length (value s) -> Forall (fun y => 0 <= y) (value s) ->
  increasing c -> raw_bins s c Trapz e = Ok b -> Forall (fun y => 0 <= y) b.
Proof.
  intros L N I. unfold raw_bins. destruct (length c <? 2)%nat eqn:E; [discriminate|]. apply Nat.ltb_ge in E.
  unfold sample. destruct (length (wave s) =? 0)%nat; [discriminate|]. destruct (negb _); [discriminate|]. simpl.
  intros H. inversion H; subst. clear H. apply chain_trapz_nonneg.
  - rewrite map_fst_combine by (rewrite map_length; reflexivity). apply bin_edges_trapz_sorted; auto.
  - rewrite map_snd_combine by (rewrite map_length; reflexivity). apply Forall_map_nonneg_interp; auto.
Qed.
Lemma bin_trapz_nonneg s c e pp b : wf s -> Forall (fun y => 0 <= y) (value s) -> increasing c ->
  bin s c Trapz e pp = Ok (Some b) -> Forall (fun y => 0 <= y) b.
Proof.
  intros W N I H. destruct (bin_spec _ _ _ _ _ _ H) as (_ & Hp & Hn). destruct pp.
  - destruct (Hp eq_refl) as (raw & lo & hi & tot & R & _ & _ & T & Z & -> & _).
    pose proof (raw_bins_trapz_nonneg _ _ _ _ (proj2 (proj2 W)) N I R) as RN.
    assert (TN : 0 <= tot).
    { unfold integrate in T. simpl in T. inversion T; subst. apply trapz_nonneg.
      - apply increasing_nondecr. unfold select. rewrite <- filter_map_fst. apply increasing_SS, SS_filter, increasing_SS.
        rewrite (wf_wave _ W). apply W.
      - apply Forall_forall. intros y Hy. apply in_map_iff in Hy. destruct Hy as ([x y'] & <- & Hq).
        apply filter_In in Hq. destruct Hq as [Hq _]. apply (in_map snd) in Hq. rewrite (wf_value _ W) in Hq.
        rewrite Forall_forall in N. apply N. exact Hq. }
    apply Forall_forall. intros y Hy. apply in_map_iff in Hy. destruct Hy as (x & <- & Hx).
    apply scale_nonneg; auto. + rewrite Forall_forall in RN. auto. + apply qsum_nonneg; auto.
  - eapply raw_bins_trapz_nonneg; eauto. apply W.
Qed.

(* ------------------------------------------------------------------ *)
(* (d) bins are exact for a spectrum that is one straight line over the binned range *)
Lemma chord_line al be x0 x1 x : x0 < x1 ->
  (al * x0 + be) + (((al * x1 + be) - (al * x0 + be)) / (x1 - x0)) * (x - x0) = al * x + be.
Proof. intros H. field. apply lt_minus_neq0; auto. Qed.
Lemma interp_from_line al be w v x : increasing w -> length w = length v ->
  (forall a y, In (a, y) (combine w v) -> y = al * a + be) ->
  (forall x0, hd_error w = Some x0 -> x0 <= x) -> x <= last w 0 -> w <> [] ->
  interp_from w v x = al * x + be.
Proof.
  revert v. induction w as [|x0 wt IH]; intros v I L H Hx Hl Hn; [congruence|].
  destruct v as [|y0 vt]; [discriminate|]. simpl in L. injection L as L.
  assert (E0 : y0 = al * x0 + be) by (apply H; left; auto).
  destruct wt as [|x1 wt'].
  - destruct vt; [|discriminate]. simpl in *. assert (x = x0) by (apply Qcle_antisym; auto).
    subst x. rewrite qeqb_refl. auto.
  - destruct vt as [|y1 vt']; [discriminate|]. destruct I as [I1 I2].
    assert (E1 : y1 = al * x1 + be) by (apply H; right; left; auto).
    change (interp_from (x0 :: x1 :: wt') (y0 :: y1 :: vt') x)
      with (if qlt x x1 then y0 + ((y1 - y0) / (x1 - x0)) * (x - x0) else interp_from (x1 :: wt') (y1 :: vt') x).
    destruct (qlt x x1) eqn:E; qb.
    + subst y0 y1. apply chord_line; auto.
    + apply IH; auto.
      * intros a y Hq. apply H. right. exact Hq.
      * intros x' Hx'. inversion Hx'; subst. auto.
      * discriminate.
Qed.
Lemma interp_line al be w v x : increasing w -> length w = length v ->
  (forall a y, In (a, y) (combine w v) -> y = al * a + be) ->
  hd 0 w <= x -> x <= last w 0 -> w <> [] -> interp w v x = al * x + be.
Proof.
  intros I L H H0 H1 Hn. unfold interp. destruct w as [|x0 wt]; [congruence|]. simpl in H0.
  apply qlt_false in H0. rewrite H0. qb. apply interp_from_line; auto.
  intros x' Hx'. inversion Hx'; subst. auto.
Qed.
Lemma trapz_bin_line al be x0 x1 :
  (1 / two) * ((al * x0 + be) + (al * x1 + be)) * (x1 - x0) = line_integral al be x0 x1.
Proof. unfold line_integral. rewrite two_eq. field. apply opo_neq0. Qed.
Lemma chain_trapz_line al be x : chain_trapz (combine x (map (fun t => al * t + be) x)) = line_bins al be x.
Proof.
  induction x as [|x0 [|x1 t] IH]; auto.
  change (chain_trapz (combine (x0 :: x1 :: t) (map (fun t => al * t + be) (x0 :: x1 :: t))))
    with ((1 / two) * ((al * x0 + be) + (al * x1 + be)) * (x1 - x0)
          :: chain_trapz (combine (x1 :: t) (map (fun t => al * t + be) (x1 :: t)))).
  rewrite IH, trapz_bin_line. reflexivity.
Qed.
(* Simpson: exact when the node is the middle of its two edges *)
Fixpoint midpointed (x : list Qc) : Prop :=
  match x with x0 :: x1 :: ((x2 :: _) as t) => x1 = (x0 + x2) / two /\ midpointed t | _ => True end.
Lemma simps_bin_line al be x0 x2 :
  ((x2 - x0) / six) * ((al * x0 + be) + four * (al * ((x0 + x2) / two) + be) + (al * x2 + be)) = line_integral al be x0 x2.
Proof. unfold line_integral. rewrite two_eq, four_eq, six_eq. field. qc_neq0. Qed.
Lemma chain_simps_line al be x : midpointed x ->
  chain_simps (combine x (map (fun t => al * t + be) x)) = line_bins2 al be x.
Proof.
  assert (G : forall n x, (length x <= n)%nat -> midpointed x ->
              chain_simps (combine x (map (fun t => al * t + be) x)) = line_bins2 al be x).
  { induction n as [|n IH]; intros x0 Hn M.
    - destruct x0; [reflexivity | simpl in Hn; lia].
    - destruct x0 as [|a [|b [|c t]]]; try reflexivity. destruct M as [M1 M2].
      change (chain_simps (combine (a :: b :: c :: t) (map (fun t => al * t + be) (a :: b :: c :: t))))
        with (((c - a) / six) * ((al * a + be) + four * (al * b + be) + (al * c + be))
              :: chain_simps (combine (c :: t) (map (fun t => al * t + be) (c :: t)))).
      change (line_bins2 al be (a :: b :: c :: t)) with (line_integral al be a c :: line_bins2 al be (c :: t)).
      rewrite IH; auto; [|simpl in *; lia]. rewrite M1, simps_bin_line. reflexivity. }
  intros. eapply G; eauto.
Qed.

Lemma raw_bins_line s c r e al be : wf s -> wave s <> [] -> (2 <= length c)%nat ->
  (forall a y, In (a, y) (samples s) -> y = al * a + be) ->
  let x := match r with Trapz => bin_edges_trapz e c | Simps => bin_nodes_simps e c end in
  (forall t, In t x -> hd 0 (wave s) <= t /\ t <= last (wave s) 0) ->
  (r = Simps -> midpointed x) ->
  raw_bins s c r e = Ok (match r with Trapz => line_bins al be x | Simps => line_bins2 al be x end).
Proof.
  intros (W1 & W2 & W3) Hn L H x Hx Hm. unfold raw_bins.
  replace (length c <? 2)%nat with false by (symmetry; apply Nat.ltb_ge; auto).
  assert (S : sample s x = Ok (map (fun t => al * t + be) x)).
  { unfold sample. destruct (wave s) as [|w0 wt] eqn:Ew; [congruence|]. simpl Nat.eqb at 1. cbv iota.
    rewrite <- Ew in *. rewrite W3, Nat.eqb_refl. simpl. f_equal. apply map_ext_in. intros t Ht.
    destruct (Hx t Ht). apply interp_line; auto. }
  destruct r; fold x; rewrite S; simpl; f_equal.
  - apply chain_trapz_line.
  - apply chain_simps_line. auto.
Qed.

(* uniformly spaced centres: every Simpson node is the middle of its bin (symmetric ends) *)
Lemma last_halfdiffs_uniform h c : uniform_step h c -> (2 <= length c)%nat -> last (halfdiffs c) 0 = h / two.
Proof.
  induction c as [|a [|b t] IH]; intros U L; simpl in L; try lia.
  change (halfdiffs (a :: b :: t)) with ((b - a) / two :: halfdiffs (b :: t)). destruct U as [U1 U2].
  destruct t as [|c t'].
  - simpl. rewrite U1. reflexivity.
  - change (halfdiffs (b :: c :: t')) with ((c - b) / two :: halfdiffs (c :: t')) in *.
    change (last ((b - a) / two :: (c - b) / two :: halfdiffs (c :: t')) 0) with (last ((c - b) / two :: halfdiffs (c :: t')) 0).
    apply IH; auto. simpl. lia.
Qed.
Lemma mid_of_halves a h : a = ((a - h / two) + (a + h / two)) / two.
Proof. rewrite two_eq. field. qc_neq0. Qed.
Lemma sym_nodes_midpointed h t : forall a p z, uniform_step h (a :: t) -> p = a - h / two ->
  z = last (a :: t) 0 + h / two -> midpointed (p :: interleave (a :: t) (mids (a :: t)) ++ [z]).
Proof.
  induction t as [|b t' IH]; intros a p z U Hp Hz.
  - simpl in *. subst. split; auto. apply mid_of_halves.
  - destruct U as [U1 U2].
    change (mids (a :: b :: t')) with ((a + (b - a) / two) :: mids (b :: t')).
    change (interleave (a :: b :: t') ((a + (b - a) / two) :: mids (b :: t')))
      with (a :: (a + (b - a) / two) :: interleave (b :: t') (mids (b :: t'))).
    change (p :: (a :: (a + (b - a) / two) :: interleave (b :: t') (mids (b :: t'))) ++ [z])
      with (p :: a :: ((a + (b - a) / two) :: interleave (b :: t') (mids (b :: t')) ++ [z])).
    assert (M : midpointed ((a + (b - a) / two) :: interleave (b :: t') (mids (b :: t')) ++ [z])).
    { apply IH; auto. rewrite U1. replace b with (a + h) by (rewrite <- U1; ring). rewrite two_eq. field. qc_neq0. }
    destruct (interleave (b :: t') (mids (b :: t')) ++ [z]) eqn:E.
    + destruct (interleave (b :: t') (mids (b :: t'))); discriminate.
    + split; auto. subst p. rewrite U1. apply mid_of_halves.
Qed.
Lemma bin_nodes_symmetric_midpointed h c : uniform_step h c -> (2 <= length c)%nat ->
  midpointed (bin_nodes_simps Symmetric c).
Proof.
  intros U L. unfold bin_nodes_simps. rewrite (last_halfdiffs_uniform h c U L).
  destruct c as [|a [|b t]]; simpl in L; try lia.
  apply (sym_nodes_midpointed h (b :: t) a); auto.
  change (halfdiffs (a :: b :: t)) with ((b - a) / two :: halfdiffs (b :: t)). cbn [hd]. destruct U as [-> _]. reflexivity.
Qed.

(* ... and with 'inside' ends: the two extra nodes are mid-points by construction *)
Lemma interleave_head a t M : exists r, interleave (a :: t) M = a :: r.
Proof. destruct M; simpl; eauto. Qed.
Lemma insert_before_last_cons2 (a b : Qc) Y v : (2 <= length Y)%nat ->
  insert_before_last (a :: b :: Y) v = a :: b :: insert_before_last Y v.
Proof.
  intros L. destruct Y as [|y0 [|y1 Y']]; simpl in L; try lia. unfold insert_before_last.
  change (removelast (a :: b :: y0 :: y1 :: Y')) with (a :: b :: removelast (y0 :: y1 :: Y')).
  change (last (a :: b :: y0 :: y1 :: Y') 0) with (last (y0 :: y1 :: Y') 0). reflexivity.
Qed.
Lemma last_cons2 (a b : Qc) Y d : (2 <= length Y)%nat -> last (a :: b :: Y) d = last Y d.
Proof. intros L. destruct Y as [|y0 [|y1 Y']]; simpl in L; try lia. reflexivity. Qed.
Lemma last_removelast_cons2 (a b : Qc) Y d : (2 <= length Y)%nat ->
  last (removelast (a :: b :: Y)) d = last (removelast Y) d.
Proof. intros L. destruct Y as [|y0 [|y1 Y']]; simpl in L; try lia. reflexivity. Qed.
Lemma insert_before_last_head y0 y1 Y v : exists r, insert_before_last (y0 :: y1 :: Y) v = y0 :: r.
Proof. unfold insert_before_last. change (removelast (y0 :: y1 :: Y)) with (y0 :: removelast (y1 :: Y)). simpl. eauto. Qed.
Lemma mid_of_ends a b : a + (b - a) / two = (a + b) / two.
Proof. rewrite two_eq. field. qc_neq0. Qed.
Lemma inside_tail_midpointed h t : forall b mp v, uniform_step h (b :: t) -> mp = b - h / two ->
  v = last (mp :: interleave (b :: t) (mids (b :: t))) 0
      + (last (removelast (mp :: interleave (b :: t) (mids (b :: t)))) 0
         - last (mp :: interleave (b :: t) (mids (b :: t))) 0) / two ->
  midpointed (insert_before_last (mp :: interleave (b :: t) (mids (b :: t))) v).
Proof.
  induction t as [|c t' IH]; intros b mp v U Hp Hv.
  - simpl in *. subst v. split; auto. rewrite mid_of_ends. rewrite two_eq. field. qc_neq0.
  - destruct U as [U1 U2].
    change (mids (b :: c :: t')) with ((b + (c - b) / two) :: mids (c :: t')) in *.
    change (interleave (b :: c :: t') ((b + (c - b) / two) :: mids (c :: t')))
      with (b :: (b + (c - b) / two) :: interleave (c :: t') (mids (c :: t'))) in *.
    set (Y' := (b + (c - b) / two) :: interleave (c :: t') (mids (c :: t'))) in *.
    assert (L2 : (2 <= length Y')%nat).
    { unfold Y'. destruct (interleave_head c t' (mids (c :: t'))) as (r & ->). simpl. lia. }
    rewrite insert_before_last_cons2 by auto.
    assert (M : midpointed (insert_before_last Y' v)).
    { apply IH; auto.
      - rewrite U1. replace c with (b + h) by (rewrite <- U1; ring). rewrite two_eq. field. qc_neq0.
      - rewrite Hv, last_cons2, last_removelast_cons2 by auto. reflexivity. }
    assert (Hh : exists r, insert_before_last Y' v = (b + (c - b) / two) :: r).
    { unfold Y'. destruct (interleave_head c t' (mids (c :: t'))) as (r & ->). apply insert_before_last_head. }
    destruct Hh as (r & Er). rewrite Er in *. split; auto.
    subst mp. rewrite U1. apply mid_of_halves.
Qed.
Lemma bin_nodes_inside_midpointed h c : uniform_step h c -> (2 <= length c)%nat ->
  midpointed (bin_nodes_simps Inside c).
Proof.
  intros U L. unfold bin_nodes_simps. destruct c as [|a [|b t]]; simpl in L; try lia. destruct U as [U1 U2].
  change (mids (a :: b :: t)) with ((a + (b - a) / two) :: mids (b :: t)).
  change (interleave (a :: b :: t) ((a + (b - a) / two) :: mids (b :: t)))
    with (a :: (a + (b - a) / two) :: interleave (b :: t) (mids (b :: t))).
  cbv beta iota.
  set (Y := (a + (b - a) / two) :: interleave (b :: t) (mids (b :: t))).
  assert (L2 : (2 <= length Y)%nat).
  { unfold Y. destruct (interleave_head b t (mids (b :: t))) as (r & ->). simpl. lia. }
  set (v := last (a :: (a + ((a + (b - a) / two) - a) / two) :: Y) 0
            + (last (removelast (a :: (a + ((a + (b - a) / two) - a) / two) :: Y)) 0
               - last (a :: (a + ((a + (b - a) / two) - a) / two) :: Y) 0) / two).
  rewrite insert_before_last_cons2 by auto.
  assert (M : midpointed (insert_before_last Y v)).
  { apply (inside_tail_midpointed h t b); auto.
    - rewrite U1. replace b with (a + h) by (rewrite <- U1; ring). rewrite two_eq. field. qc_neq0.
    - unfold v. rewrite last_cons2, last_removelast_cons2 by auto. reflexivity. }
  assert (Hh : exists r, insert_before_last Y v = (a + (b - a) / two) :: r).
  { unfold Y. destruct (interleave_head b t (mids (b :: t))) as (r & ->). apply insert_before_last_head. }
  destruct Hh as (r & Er). rewrite Er in *. split; auto. apply mid_of_ends.
Qed.
Lemma bin_nodes_midpointed h e c : uniform_step h c -> (2 <= length c)%nat -> midpointed (bin_nodes_simps e c).
Proof. destruct e; [apply bin_nodes_symmetric_midpointed | apply bin_nodes_inside_midpointed]. Qed.

(* ------------------------------------------------------------------ *)
(* statements as used in Properties/C15.v                              *)
Lemma integrate_additive s lo mid hi : wf s -> In mid (wave s) -> lo <= mid -> mid <= hi ->
  exists i1 i2 i, integrate s (Some lo) (Some mid) Trapz = Ok i1 /\ integrate s (Some mid) (Some hi) Trapz = Ok i2 /\
                  integrate s (Some lo) (Some hi) Trapz = Ok i /\ i = i1 + i2.
Proof.
  intros W Hm H1 H2. unfold integrate. simpl. eexists _, _, _. repeat split.
  apply trapz_additive; auto; rewrite (wf_wave _ W); auto. apply W.
Qed.
Lemma integrate_exact s lo hi : wf s ->
  (In lo (wave s) /\ In hi (wave s) /\ lo <= hi) \/ (forall x, In x (wave s) -> lo <= x /\ x <= hi) ->
  integrate s (Some lo) (Some hi) Trapz = Ok (pl_integral (samples s) lo hi).
Proof.
  intros W H. unfold integrate. simpl. f_equal.
  assert (I : increasing (map fst (samples s))) by (rewrite (wf_wave _ W); apply W).
  destruct H as [(H1 & H2 & H3)|H].
  - apply trapz_is_pl_integral; auto; rewrite (wf_wave _ W); auto.
  - apply trapz_is_pl_integral_whole; auto. intros p Hp. apply H. rewrite <- (wf_wave _ W). apply (in_map fst). exact Hp.
Qed.
Lemma bin_exact_line s c e al be h : wf s -> wave s <> [] -> (2 <= length c)%nat ->
  (forall a y, In (a, y) (samples s) -> y = al * a + be) ->
  ((forall t, In t (bin_edges_trapz e c) -> hd 0 (wave s) <= t /\ t <= last (wave s) 0) ->
   raw_bins s c Trapz e = Ok (line_bins al be (bin_edges_trapz e c))) /\
  (uniform_step h c -> (forall t, In t (bin_nodes_simps e c) -> hd 0 (wave s) <= t /\ t <= last (wave s) 0) ->
   raw_bins s c Simps e = Ok (line_bins2 al be (bin_nodes_simps e c))).
Proof.
  intros W Hn L H. split.
  - intros Hx. apply (raw_bins_line s c Trapz e al be W Hn L H Hx). discriminate.
  - intros U Hx. apply (raw_bins_line s c Simps e al be W Hn L H Hx). intros _. eapply bin_nodes_midpointed; eauto.
Qed.

(* concrete witnesses *)
Definition qq (n d : Z) : Qc := Q2Qc (n # Z.to_pos d).
Lemma wf_by_check w v : wave_check w = Ok w -> length w = length v -> wf (mkSp w v).
Proof. intros H L. apply wave_check_ok in H. destruct H as (_ & I & P). repeat split; auto. Qed.
Fixpoint leqb (l1 l2 : list Qc) : bool :=
  match l1, l2 with [], [] => true | a :: t, b :: u => qeqb a b && leqb t u | _, _ => false end.
Lemma leqb_eq l1 l2 : leqb l1 l2 = true -> l1 = l2.
Proof.
  revert l2. induction l1; destruct l2; simpl; intros H; try discriminate; auto.
  apply andb_prop in H. destruct H as [H1 H2]. qb. subst. f_equal. auto.
Qed.
Ltac qc_eval := apply qeqb_iff; vm_compute; reflexivity.
Ltac qcl_eval := apply leqb_eq; vm_compute; reflexivity.
(* evaluate [f args = Ok q] / [= Ok (Some l)] / a spectrum, comparing rationals by value (the canonicity proofs inside
   two equal Qc need not be syntactically equal) *)
Ltac res_q := match goal with |- ?l = Ok _ => let v := eval vm_compute in l in
  match v with Ok ?y => transitivity (Ok y); [vm_compute; reflexivity | f_equal; qc_eval] end end.
Ltac res_l := match goal with |- ?l = Ok (Some _) => let v := eval vm_compute in l in
  match v with Ok (Some ?y) => transitivity (Ok (Some y)); [vm_compute; reflexivity | do 2 f_equal; qcl_eval] end end.
Lemma integrate_truncation_witness :
  let sp := mkSp [qq 1 1; qq 2 1; qq 3 1; qq 4 1] [qq 1 1; qq 1 1; qq 1 1; qq 1 1] in
  wf sp /\
  integrate sp (Some (qq 3 2)) (Some (qq 7 2)) Trapz = Ok (qq 1 1) /\
  pl_integral (samples sp) (qq 3 2) (qq 7 2) = qq 2 1 /\
  bin sp [qq 3 2; qq 5 2; qq 7 2] Trapz Inside false = Ok (Some [qq 1 2; qq 1 1; qq 1 2]) /\
  bin sp [qq 3 2; qq 5 2; qq 7 2] Trapz Inside true = Ok (Some [qq 1 4; qq 1 2; qq 1 4]).
Proof.
  split; [apply wf_by_check; reflexivity|]. split; [|split; [|split]].
  - res_q.
  - qc_eval.
  - res_l.
  - res_l.
Qed.
Lemma spectrum_eq a b : leqb (wave a) (wave b) && leqb (value a) (value b) = true -> a = b.
Proof. intros H. apply andb_prop in H. destruct H as [H1 H2]. apply leqb_eq in H1, H2. destruct a, b; simpl in *; congruence. Qed.
Lemma nonvacuous_example :
  let spx := mkSp [qq 1 1; qq 3 2; qq 5 2; qq 9 2; qq 5 1] [qq 0 1; qq 2 1; qq 4 1; qq 1 1; qq 0 1] in
  let opsx := [OTrim (qq 1 8); OPad (qq 1 2) (qq 11 2) None PadEdge; OPad (qq 3 1) (qq 6 1) None (PadConst 0 0);
               OCrop (qq 1 1) (qq 9 2); OAppend (mkSp [qq 6 1] [qq 3 1]); OResample [qq 3 1; qq 2 1; qq 1 1; qq 1 2];
               OResample [qq 1 1; qq 2 1; qq 5 2; qq 6 1; qq 7 1]] in
  wf spx /\ Forall op_ok opsx /\
  map snd (trace spx opsx) = [None; None; Some ValueError; None; None; Some ValueError; None] /\
  run spx opsx = mkSp [qq 1 1; qq 2 1; qq 5 2; qq 6 1; qq 7 1] [qq 0 1; qq 3 1; qq 4 1; qq 3 1; qq 0 1] /\
  integrate spx (Some (qq 3 2)) (Some (qq 9 2)) Trapz = Ok (qq 8 1) /\
  pl_integral (samples spx) (qq 3 2) (qq 9 2) = qq 8 1 /\
  bin spx [qq 3 2; qq 5 2; qq 9 2] Trapz Inside true = Ok (Some [qq 80 57; qq 88 19; qq 112 57]).
Proof.
  intros spx opsx. split; [apply wf_by_check; reflexivity|].
  split; [repeat constructor|].
  split; [vm_compute; reflexivity|]. split; [apply spectrum_eq; vm_compute; reflexivity|].
  split; [res_q|]. split; [qc_eval | res_l].
Qed.

(* ------------------------------------------------------------------ *)
(* Simpson bins without power preservation are non-negative for ANY increasing centres: the weights
   (1, 4, 1) * (bin width) / 6 are positive whether or not the node is the middle of the bin *)
Fixpoint edges_ordered (x : list Qc) : Prop :=
  match x with x0 :: x1 :: ((x2 :: _) as t) => x0 <= x2 /\ edges_ordered t | _ => True end.
Lemma simps_term_nonneg x0 x2 f0 f1 f2 : x0 <= x2 -> 0 <= f0 -> 0 <= f1 -> 0 <= f2 ->
  0 <= ((x2 - x0) / six) * (f0 + four * f1 + f2).
Proof. intros. qc2q. nra. Qed.
Lemma chain_simps_nonneg : forall n p, (length p <= n)%nat -> edges_ordered (map fst p) ->
  Forall (fun y => 0 <= y) (map snd p) -> Forall (fun y => 0 <= y) (chain_simps p).
Proof.
  induction n as [|n IH]; intros p Hn O N.
  - destruct p; [constructor | simpl in Hn; lia].
  - destruct p as [|[x0 f0] [|[x1 f1] [|[x2 f2] t]]]; try (constructor; fail).
    change (chain_simps ((x0, f0) :: (x1, f1) :: (x2, f2) :: t))
      with (((x2 - x0) / six) * (f0 + four * f1 + f2) :: chain_simps ((x2, f2) :: t)).
    constructor.
    + simpl in O, N. destruct O as [O1 _]. inversion N as [|? ? N0 N']; subst. inversion N' as [|? ? N1 N'']; subst.
      inversion N'' as [|? ? N2 _]; subst. apply simps_term_nonneg; auto.
    + apply IH; [simpl in *; lia | apply O |]. inversion N as [|? ? _ N']; subst. inversion N'; auto.
Qed.
Lemma mid_ge_left a b : a < b -> a <= a + (b - a) / two.
Proof. intros. qc2q. lra. Qed.
Lemma sym_nodes_ordered t : forall a p z, increasing (a :: t) -> p <= a -> last (a :: t) 0 <= z ->
  edges_ordered (p :: interleave (a :: t) (mids (a :: t)) ++ [z]).
Proof.
  induction t as [|b t' IH]; intros a p z I Hp Hz.
  - simpl in *. split; auto. eapply Qcle_trans; eauto.
  - destruct I as [I1 I2]. change (last (a :: b :: t') 0) with (last (b :: t') 0) in Hz.
    change (mids (a :: b :: t')) with ((a + (b - a) / two) :: mids (b :: t')).
    change (interleave (a :: b :: t') ((a + (b - a) / two) :: mids (b :: t')))
      with (a :: (a + (b - a) / two) :: interleave (b :: t') (mids (b :: t'))).
    change (p :: (a :: (a + (b - a) / two) :: interleave (b :: t') (mids (b :: t'))) ++ [z])
      with (p :: a :: ((a + (b - a) / two) :: interleave (b :: t') (mids (b :: t')) ++ [z])).
    assert (M : edges_ordered ((a + (b - a) / two) :: interleave (b :: t') (mids (b :: t')) ++ [z])).
    { apply IH; auto. apply mid_le_right; auto. }
    destruct (interleave (b :: t') (mids (b :: t')) ++ [z]) eqn:E.
    + destruct (interleave (b :: t') (mids (b :: t'))); discriminate.
    + split; auto. eapply Qcle_trans; [eassumption | apply mid_ge_left; auto].
Qed.
Lemma inside_tail_ordered t : forall b mp v, increasing (b :: t) -> mp <= b ->
  edges_ordered (insert_before_last (mp :: interleave (b :: t) (mids (b :: t))) v).
Proof.
  induction t as [|c t' IH]; intros b mp v I Hp.
  - simpl. auto.
  - destruct I as [I1 I2].
    change (mids (b :: c :: t')) with ((b + (c - b) / two) :: mids (c :: t')) in *.
    change (interleave (b :: c :: t') ((b + (c - b) / two) :: mids (c :: t')))
      with (b :: (b + (c - b) / two) :: interleave (c :: t') (mids (c :: t'))) in *.
    set (Y' := (b + (c - b) / two) :: interleave (c :: t') (mids (c :: t'))) in *.
    assert (L2 : (2 <= length Y')%nat).
    { unfold Y'. destruct (interleave_head c t' (mids (c :: t'))) as (r & ->). simpl. lia. }
    rewrite insert_before_last_cons2 by auto.
    assert (M : edges_ordered (insert_before_last Y' v)).
    { apply IH; auto. apply mid_le_right; auto. }
    assert (Hh : exists r, insert_before_last Y' v = (b + (c - b) / two) :: r).
    { unfold Y'. destruct (interleave_head c t' (mids (c :: t'))) as (r & ->). apply insert_before_last_head. }
    destruct Hh as (r & Er). rewrite Er in *. split; auto.
    eapply Qcle_trans; [eassumption | apply mid_ge_left; auto].
Qed.
Lemma bin_nodes_ordered e c : increasing c -> (2 <= length c)%nat -> edges_ordered (bin_nodes_simps e c).
Proof.
  intros I L. destruct c as [|a [|b t]]; simpl in L; try lia. unfold bin_nodes_simps. destruct e.
  - pose proof (last_halfdiffs_nonneg _ I) as HL. apply (sym_nodes_ordered (b :: t) a); auto.
    + change (halfdiffs (a :: b :: t)) with ((b - a) / two :: halfdiffs (b :: t)). cbn [hd]. destruct I as [I1 _]. qc2q. lra.
    + set (l := last (a :: b :: t) 0) in *. set (h := last (halfdiffs (a :: b :: t)) 0) in *. clearbody l h. qc2q. lra.
  - destruct I as [I1 I2].
    change (mids (a :: b :: t)) with ((a + (b - a) / two) :: mids (b :: t)).
    change (interleave (a :: b :: t) ((a + (b - a) / two) :: mids (b :: t)))
      with (a :: (a + (b - a) / two) :: interleave (b :: t) (mids (b :: t))).
    cbv beta iota.
    set (Y := (a + (b - a) / two) :: interleave (b :: t) (mids (b :: t))).
    assert (L2 : (2 <= length Y)%nat).
    { unfold Y. destruct (interleave_head b t (mids (b :: t))) as (r & ->). simpl. lia. }
    match goal with |- edges_ordered (insert_before_last _ ?v) => set (v0 := v) end.
    rewrite insert_before_last_cons2 by auto.
    assert (M : edges_ordered (insert_before_last Y v0)).
    { apply (inside_tail_ordered t b); auto. apply mid_le_right; auto. }
    assert (Hh : exists r, insert_before_last Y v0 = (a + (b - a) / two) :: r).
    { unfold Y. destruct (interleave_head b t (mids (b :: t))) as (r & ->). apply insert_before_last_head. }
    destruct Hh as (r & Er). rewrite Er in *. split; auto. apply mid_ge_left; auto.
Qed.
Lemma raw_bins_simps_nonneg s c e b : length (wave s) = length (value s) -> Forall (fun y => 0 <= y) (value s) ->
  increasing c -> raw_bins s c Simps e = Ok b -> Forall (fun y => 0 <= y) b.
Proof.
  intros L N I. unfold raw_bins. destruct (length c <? 2)%nat eqn:E; [discriminate|]. apply Nat.ltb_ge in E.
  unfold sample. destruct (length (wave s) =? 0)%nat; [discriminate|]. destruct (negb _); [discriminate|]. simpl.
  intros H. inversion H; subst. clear H. eapply chain_simps_nonneg; [apply Nat.le_refl | |].
  - rewrite map_fst_combine by (rewrite map_length; reflexivity). apply bin_nodes_ordered; auto.
  - rewrite map_snd_combine by (rewrite map_length; reflexivity). apply Forall_map_nonneg_interp; auto.
Qed.

(* ------------------------------------------------------------------ *)
(* scipy's composite Simpson rule has positive weights on uniformly sampled data (odd and even number of
   samples): the integral of non-negative uniform data is non-negative, hence so are power-preserved Simpson bins *)
Lemma three_eq : three = 1 + 1 + 1. Proof. apply Qc_is_canon. reflexivity. Qed.
Ltac hneq H := repeat split; try (let K := fresh in intro K; apply H; rewrite <- K; ring);
  try (let K := fresh in let K2 := fresh in let K3 := fresh in intro K;
       match type of H with ?h <> _ => assert (K2 : (1 + 1) * h = 0) by (rewrite <- K; ring) end;
       destruct (Qcmult_integral _ _ K2) as [K3|K3]; [exact (opo_neq0 K3) | exact (H K3)]);
  qc_neq0.
Lemma panel_uniform x0 y0 y1 y2 h : h <> 0 ->
  simpson_panel x0 y0 (x0 + h) y1 (x0 + h + h) y2 = h * (y0 + four * y1 + y2) / three.
Proof. intros H. unfold simpson_panel. rewrite two_eq, four_eq, six_eq, three_eq. field. hneq H. Qed.
Lemma last_uniform x0 y0 y1 y2 h : h <> 0 ->
  simpson_last x0 y0 (x0 + h) y1 (x0 + h + h) y2
  = h * ((1 + 1 + 1 + 1 + 1) * y2 + (1 + 1) * (1 + 1) * (1 + 1) * y1 - y0) / ((1 + 1) * (1 + 1) * (1 + 1 + 1)).
Proof. intros H. unfold simpson_last. rewrite two_eq, six_eq, three_eq. field. hneq H. Qed.
Lemma step_eq a b h : b - a = h -> b = a + h.
Proof. intros <-. ring. Qed.
Lemma pos_neq0 h : 0 < h -> h <> 0.
Proof. intros H K. subst. apply (Qclt_not_eq _ _ H). reflexivity. Qed.
Lemma panel_uniform_nonneg x0 y0 y1 y2 h : 0 < h -> 0 <= y0 -> 0 <= y1 -> 0 <= y2 ->
  0 <= simpson_panel x0 y0 (x0 + h) y1 (x0 + h + h) y2.
Proof. intros H H0 H1 H2. rewrite panel_uniform by (apply pos_neq0; auto). qc2q. nra. Qed.
Lemma simpson_basic_uniform_nonneg h : 0 < h -> forall n p, (length p <= n)%nat ->
  uniform_step h (map fst p) -> Forall (fun y => 0 <= y) (map snd p) -> 0 <= simpson_basic p.
Proof.
  intros Hh. induction n as [|n IH]; intros p Hn U N.
  - destruct p; [apply Qcle_refl | simpl in Hn; lia].
  - destruct p as [|[x0 y0] [|[x1 y1] [|[x2 y2] t]]]; try apply Qcle_refl.
    change (simpson_basic ((x0, y0) :: (x1, y1) :: (x2, y2) :: t))
      with (simpson_panel x0 y0 x1 y1 x2 y2 + simpson_basic ((x2, y2) :: t)).
    simpl in U, N. destruct U as (U1 & U2 & U3). apply step_eq in U1. apply step_eq in U2. subst x1 x2.
    inversion N as [|? ? N0 N']. inversion N' as [|? ? N1 N'']. inversion N'' as [|? ? N2 N3].
    replace 0 with (0 + 0) by ring. apply Qcplus_le_compat; [apply panel_uniform_nonneg; auto|].
    apply IH; [simpl in *; lia | exact U3 | constructor; auto].
Qed.

Definition simpson_even (p : list (Qc * Qc)) : Qc :=
  match last3 p with
  | Some ((xa, ya), (xb, yb), (xc, yc)) => simpson_basic (removelast p) + simpson_last xa ya xb yb xc yc
  | None => 0
  end.
Lemma last3_cons2 (q0 q1 : Qc * Qc) L : (3 <= length L)%nat -> last3 (q0 :: q1 :: L) = last3 L.
Proof.
  intros H. unfold last3. simpl rev. rewrite <- (rev_length L) in H.
  destruct (rev L) as [|c [|b [|a r]]]; simpl in H; try lia. reflexivity.
Qed.
Lemma simpson_even_step q0 q1 q2 R : (3 <= length (q2 :: R))%nat ->
  simpson_even (q0 :: q1 :: q2 :: R) =
  simpson_panel (fst q0) (snd q0) (fst q1) (snd q1) (fst q2) (snd q2) + simpson_even (q2 :: R).
Proof.
  intros H. unfold simpson_even. rewrite last3_cons2 by auto.
  destruct (last3 (q2 :: R)) as [[[[xa ya] [xb yb]] [xc yc]]|] eqn:E.
  - destruct R as [|r0 R']; [simpl in H; lia|].
    change (removelast (q0 :: q1 :: q2 :: r0 :: R')) with (q0 :: q1 :: q2 :: removelast (r0 :: R')).
    change (removelast (q2 :: r0 :: R')) with (q2 :: removelast (r0 :: R')).
    destruct q0 as [x0 y0], q1 as [x1 y1], q2 as [x2 y2].
    change (simpson_basic ((x0, y0) :: (x1, y1) :: (x2, y2) :: removelast (r0 :: R')))
      with (simpson_panel x0 y0 x1 y1 x2 y2 + simpson_basic ((x2, y2) :: removelast (r0 :: R'))).
    simpl fst. simpl snd. ring.
  - exfalso. unfold last3 in E. rewrite <- (rev_length (q2 :: R)) in H.
    destruct (rev (q2 :: R)) as [|c [|b [|a r]]]; simpl in H; try lia. discriminate.
Qed.
Lemma even4_nonneg x0 y0 y1 y2 y3 h : 0 < h -> 0 <= y0 -> 0 <= y1 -> 0 <= y2 -> 0 <= y3 ->
  0 <= simpson_panel x0 y0 (x0 + h) y1 (x0 + h + h) y2 + simpson_last (x0 + h) y1 (x0 + h + h) y2 (x0 + h + h + h) y3.
Proof.
  intros H H0 H1 H2 H3. rewrite panel_uniform by (apply pos_neq0; auto).
  rewrite (last_uniform (x0 + h) y1 y2 y3 h) by (apply pos_neq0; auto). rewrite four_eq, three_eq.
  qc2q. change (/ (1 + 1 + 1))%Q with (1 # 3)%Q. change (/ ((1 + 1) * (1 + 1) * (1 + 1 + 1)))%Q with (1 # 12)%Q. nra.
Qed.
Lemma simpson_even_uniform_nonneg h : 0 < h -> forall n p, (length p <= n)%nat ->
  Nat.even (length p) = true -> (4 <= length p)%nat ->
  uniform_step h (map fst p) -> Forall (fun y => 0 <= y) (map snd p) -> 0 <= simpson_even p.
Proof.
  intros Hh. induction n as [|n IH]; intros p Hn Ev L4 U N; [lia|].
  destruct p as [|[x0 y0] [|[x1 y1] [|[x2 y2] [|[x3 y3] t]]]]; simpl in L4; try lia.
  simpl in U, N. destruct U as (U1 & U2 & U3). apply step_eq in U1. apply step_eq in U2. subst x1 x2.
  inversion N as [|? ? N0 N']. inversion N' as [|? ? N1 N'']. inversion N'' as [|? ? N2 N3].
  destruct t as [|q4 t'].
  - (* four samples *)
    destruct U3 as [U3 _]. apply step_eq in U3. subst x3. inversion N3 as [|? ? N4 _].
    unfold simpson_even. simpl. rewrite Qcplus_0_r. apply even4_nonneg; auto.
  - rewrite simpson_even_step by (simpl; lia). simpl fst. simpl snd.
    replace 0 with (0 + 0) by ring. apply Qcplus_le_compat; [apply panel_uniform_nonneg; auto|].
    apply IH.
    + simpl in *. lia.
    + simpl in Ev |- *. destruct t' as [|q5 t'']; [discriminate|]. exact Ev.
    + destruct t' as [|q5 t'']; [simpl in Ev; discriminate | simpl; lia].
    + exact U3.
    + constructor; auto.
Qed.
Lemma Ok_inj {A} (a b : A) : @Ok A a = Ok b -> a = b.
Proof. congruence. Qed.
Lemma simpson_uniform_nonneg h p r : 0 < h -> uniform_step h (map fst p) -> Forall (fun y => 0 <= y) (map snd p) ->
  simpson p = Ok r -> 0 <= r.
Proof.
  intros Hh U N. destruct p as [|[x0 y0] [|[x1 y1] [|q2 t]]].
  - discriminate.
  - simpl. intros H. inversion H. apply Qcle_refl.
  - simpl. intros H. inversion H. simpl in U, N. destruct U as [U _]. rewrite U.
    inversion N as [|? ? N0 N']. inversion N' as [|? ? N1 _]. qc2q. nra.
  - rewrite simpson_ge3. destruct (Nat.even (length ((x0, y0) :: (x1, y1) :: q2 :: t))) eqn:Ev.
    + pose proof (simpson_even_uniform_nonneg h Hh _ _ (Nat.le_refl _) Ev) as G.
      unfold simpson_even in G.
      destruct (last3 ((x0, y0) :: (x1, y1) :: q2 :: t)) as [[[[xa ya] [xb yb]] [xc yc]]|]; [|discriminate].
      intros H. apply Ok_inj in H. rewrite <- H. apply G; auto.
      destruct t; [simpl in Ev; discriminate | simpl; lia].
    + intros H. apply Ok_inj in H. rewrite <- H. apply (simpson_basic_uniform_nonneg h Hh _ _ (Nat.le_refl _)); auto.
Qed.

(* the samples of a uniform grid inside a closed range are again uniform *)
Lemma uniform_increasing h w : 0 < h -> uniform_step h w -> increasing w.
Proof.
  intros Hh. induction w as [|a [|b t] IH]; simpl; auto. intros [U1 U2]. split; [|apply IH; exact U2].
  apply step_eq in U1. subst b. qc2q. lra.
Qed.
Lemma uniform_filter_range h lo hi w : 0 < h -> uniform_step h w -> uniform_step h (filter (in_range lo hi) w).
Proof.
  intros Hh. induction w as [|a [|b t] IH]; intros U.
  - simpl. auto.
  - simpl. destruct (in_range lo hi a); simpl; auto.
  - pose proof (uniform_increasing h _ Hh U) as I. destruct U as [U1 U2]. specialize (IH U2).
    change (filter (in_range lo hi) (a :: b :: t))
      with (if in_range lo hi a then a :: filter (in_range lo hi) (b :: t) else filter (in_range lo hi) (b :: t)).
    destruct (in_range lo hi a) eqn:Ea; auto.
    change (filter (in_range lo hi) (b :: t))
      with (if in_range lo hi b then b :: filter (in_range lo hi) t else filter (in_range lo hi) t) in *.
    destruct (in_range lo hi b) eqn:Eb.
    + split; auto.
    + (* b is above the range (it is above a, which is inside): so is everything after it *)
      rewrite filter_none; [simpl; auto|]. intros x Hx. unfold in_range in *.
      apply andb_prop in Ea. destruct Ea as [Ea1 Ea2]. qb.
      destruct I as [I1 I2].
      assert (Hb : qle lo b = true) by (apply qle_iff; eapply Qcle_trans; [eassumption | apply Qclt_le_weak; auto]).
      rewrite Hb in Eb. simpl in Eb. qb.
      replace (qle x hi) with false; [apply andb_false_r|]. symmetry. apply qle_false.
      eapply Qclt_le_trans; [eassumption|]. eapply increasing_head_le; eauto. right. exact Hx.
Qed.

Lemma bin_simps_nonneg s c e pp b h : wf s -> 0 < h -> uniform_step h (wave s) ->
  Forall (fun y => 0 <= y) (value s) -> increasing c ->
  bin s c Simps e pp = Ok (Some b) -> Forall (fun y => 0 <= y) b.
Proof.
  intros W Hh U N I H. destruct (bin_spec _ _ _ _ _ _ H) as (_ & Hp & Hn). destruct pp.
  - destruct (Hp eq_refl) as (raw & lo & hi & tot & R & _ & _ & T & Z & -> & _).
    pose proof (raw_bins_simps_nonneg _ _ _ _ (proj2 (proj2 W)) N I R) as RN.
    assert (TN : 0 <= tot).
    { unfold integrate in T. simpl in T. eapply (simpson_uniform_nonneg h); eauto.
      - unfold select. rewrite <- filter_map_fst. rewrite (wf_wave _ W). apply uniform_filter_range; auto.
      - apply Forall_forall. intros y Hy. apply in_map_iff in Hy. destruct Hy as ([x y'] & <- & Hq).
        apply filter_In in Hq. destruct Hq as [Hq _]. apply (in_map snd) in Hq. rewrite (wf_value _ W) in Hq.
        rewrite Forall_forall in N. apply N. exact Hq. }
    apply Forall_forall. intros y Hy. apply in_map_iff in Hy. destruct Hy as (x & <- & Hx).
    apply scale_nonneg; auto. + rewrite Forall_forall in RN. auto. + apply qsum_nonneg; auto.
  - eapply raw_bins_simps_nonneg; eauto. apply W.
Qed.

(* ------------------------------------------------------------------ *)
(* (d) a trapezoid bin lying inside ONE interval of the table is the integral of the interpolant over the bin *)
(* the interpolant inside one interval of the table *)
Lemma interp_from_interval A x0 y0 x1 y1 B x :
  increasing (map fst (A ++ (x0, y0) :: (x1, y1) :: B)) -> x0 <= x -> x <= x1 ->
  interp_from (map fst (A ++ (x0, y0) :: (x1, y1) :: B)) (map snd (A ++ (x0, y0) :: (x1, y1) :: B)) x
  = y0 + ((y1 - y0) / (x1 - x0)) * (x - x0).
Proof.
  induction A as [|[a ya] A' IH]; intros I H0 H1.
  - simpl app in *. simpl map in *. destruct I as [I1 I2].
    change (interp_from (x0 :: x1 :: map fst B) (y0 :: y1 :: map snd B) x)
      with (if qlt x x1 then y0 + ((y1 - y0) / (x1 - x0)) * (x - x0) else interp_from (x1 :: map fst B) (y1 :: map snd B) x).
    destruct (qlt x x1) eqn:E; [reflexivity|]. qb. assert (x = x1) by (apply Qcle_antisym; auto). subst x.
    transitivity y1.
    + destruct B as [|[x2 y2] B'].
      * simpl. rewrite qeqb_refl. reflexivity.
      * simpl map. simpl in I2. destruct I2 as [I2 _].
        change (interp_from (x1 :: x2 :: map fst B') (y1 :: y2 :: map snd B') x1)
          with (if qlt x1 x2 then y1 + ((y2 - y1) / (x2 - x1)) * (x1 - x1) else interp_from (x2 :: map fst B') (y2 :: map snd B') x1).
        apply qlt_iff in I2. rewrite I2. unfold Qcdiv. ring.
    + field. apply lt_minus_neq0; auto.
  - assert (I' : increasing (map fst (A' ++ (x0, y0) :: (x1, y1) :: B))).
    { simpl app in I. simpl map in I. destruct (map fst (A' ++ (x0, y0) :: (x1, y1) :: B)) eqn:E; [simpl; auto|]. apply I. }
    rewrite <- (IH I' H0 H1).
    (* the head of the remaining table is <= x0 <= x *)
    assert (Hn : exists nx ny rest, A' ++ (x0, y0) :: (x1, y1) :: B = (nx, ny) :: rest /\ nx <= x0).
    { destruct A' as [|[b yb] A'']; [exists x0, y0, ((x1, y1) :: B); split; [reflexivity | apply Qcle_refl]|].
      exists b, yb, (A'' ++ (x0, y0) :: (x1, y1) :: B). split; [reflexivity|].
      apply increasing_SS in I'. simpl app in I'. simpl map in I'. inversion I' as [|? ? S1 F1]; subst.
      rewrite Forall_forall in F1. apply Qclt_le_weak. apply F1. rewrite map_app. apply in_or_app. right. left. reflexivity. }
    destruct Hn as (nx & ny & rest & En & Hle). simpl app. rewrite En in *. simpl map.
    change (interp_from (a :: nx :: map fst rest) (ya :: ny :: map snd rest) x)
      with (if qlt x nx then ya + ((ny - ya) / (nx - a)) * (x - a) else interp_from (nx :: map fst rest) (ny :: map snd rest) x).
    replace (qlt x nx) with false; [reflexivity|]. symmetry. apply qlt_false. eapply Qcle_trans; eauto.
Qed.

Lemma interp_interval A x0 y0 x1 y1 B x :
  increasing (map fst (A ++ (x0, y0) :: (x1, y1) :: B)) -> x0 <= x -> x <= x1 ->
  interp (map fst (A ++ (x0, y0) :: (x1, y1) :: B)) (map snd (A ++ (x0, y0) :: (x1, y1) :: B)) x
  = y0 + ((y1 - y0) / (x1 - x0)) * (x - x0).
Proof.
  intros I H0 H1. unfold interp.
  destruct (map fst (A ++ (x0, y0) :: (x1, y1) :: B)) as [|w0 wt] eqn:E.
  - destruct A; discriminate.
  - assert (Hw : w0 <= x0).
    { rewrite <- E in I. destruct A as [|[a ya] A'].
      - simpl in E. inversion E. apply Qcle_refl.
      - simpl in E. inversion E; subst. apply increasing_SS in I. simpl app in I. simpl map in I.
        inversion I as [|? ? S1 F1]; subst. rewrite Forall_forall in F1. apply Qclt_le_weak. apply F1.
        rewrite map_app. apply in_or_app. right. left. reflexivity. }
    replace (qlt x w0) with false by (symmetry; apply qlt_false; eapply Qcle_trans; eauto).
    rewrite <- E. apply interp_from_interval; auto. rewrite E. exact I.
Qed.
Lemma piece_is_trapezoid x0 y0 x1 y1 l h : x0 < x1 ->
  piece x0 y0 x1 y1 l h =
  (1 / two) * ((y0 + ((y1 - y0) / (x1 - x0)) * (l - x0)) + (y0 + ((y1 - y0) / (x1 - x0)) * (h - x0))) * (h - l).
Proof. intros H. unfold piece. rewrite two_eq. field. split; [apply lt_minus_neq0; auto | apply opo_neq0]. Qed.
Lemma pl_interval A x0 y0 x1 y1 B l h :
  let P := A ++ (x0, y0) :: (x1, y1) :: B in
  increasing (map fst P) -> x0 <= l -> l <= h -> h <= x1 ->
  pl_integral P l h = (1 / two) * (interp (map fst P) (map snd P) l + interp (map fst P) (map snd P) h) * (h - l).
Proof.
  intros P I H0 H1 H2. unfold P in *.
  rewrite (interp_interval A x0 y0 x1 y1 B l), (interp_interval A x0 y0 x1 y1 B h); auto;
    try (eapply Qcle_trans; eauto).
  assert (S : StronglySorted Qclt (map fst (A ++ (x0, y0) :: (x1, y1) :: B))) by (apply increasing_SS; auto).
  rewrite map_app in S. simpl map in S.
  assert (X01 : x0 < x1).
  { apply SS_app_inv_r in S. inversion S as [|? ? S1 F1]; subst. rewrite Forall_forall in F1. apply F1. left; auto. }
  rewrite pl_split. rewrite (pl_zero_left (A ++ [(x0, y0)])).
  2:{ intros q Hq. apply in_app_or in Hq. destruct Hq as [Hq|[<-|[]]]; simpl; auto.
      eapply Qcle_trans; [|eassumption]. apply Qclt_le_weak.
      apply (SS_app_lt _ _ _ S (fst q) x0); [apply (in_map fst); auto | left; auto]. }
  change (pl_integral ((x0, y0) :: (x1, y1) :: B) l h)
    with ((if qlt (qmax l x0) (qmin h x1) then piece x0 y0 x1 y1 (qmax l x0) (qmin h x1) else 0)
          + pl_integral ((x1, y1) :: B) l h).
  rewrite (pl_zero_right ((x1, y1) :: B)).
  2:{ intros q [<-|Hq]; simpl; auto. eapply Qcle_trans; [eassumption|]. apply Qclt_le_weak.
      apply SS_app_inv_r in S. inversion S as [|? ? S1 F1]; subst. inversion S1 as [|? ? S2 F2]; subst.
      rewrite Forall_forall in F2. apply F2. apply (in_map fst); auto. }
  rewrite (qmax_l l x0) by auto. rewrite (qmin_l h x1) by auto.
  destruct (qlt l h) eqn:E; qb.
  - rewrite piece_is_trapezoid by auto. ring.
  - assert (l = h) by (apply Qcle_antisym; auto). subst. unfold Qcdiv. ring.
Qed.
Lemma chain_trapz_nth x (f : Qc -> Qc) k : (Datatypes.S k < length x)%nat ->
  nth k (chain_trapz (combine x (map f x))) 0
  = (1 / two) * (f (nth k x 0) + f (nth (Datatypes.S k) x 0)) * (nth (Datatypes.S k) x 0 - nth k x 0).
Proof.
  revert k. induction x as [|x0 [|x1 t] IH]; intros k H; simpl in H; try lia.
  change (chain_trapz (combine (x0 :: x1 :: t) (map f (x0 :: x1 :: t))))
    with ((1 / two) * (f x0 + f x1) * (x1 - x0) :: chain_trapz (combine (x1 :: t) (map f (x1 :: t)))).
  destruct k as [|k]; [reflexivity|].
  change (nth (Datatypes.S k) ((1 / two) * (f x0 + f x1) * (x1 - x0) :: chain_trapz (combine (x1 :: t) (map f (x1 :: t)))) 0)
    with (nth k (chain_trapz (combine (x1 :: t) (map f (x1 :: t)))) 0).
  rewrite IH by (simpl; lia). reflexivity.
Qed.
Lemma raw_bins_trapz_interval s c e b k A x0 y0 x1 y1 B :
  raw_bins s c Trapz e = Ok b -> wf s -> samples s = A ++ (x0, y0) :: (x1, y1) :: B -> (k < length c)%nat ->
  let x := bin_edges_trapz e c in
  x0 <= nth k x 0 -> nth k x 0 <= nth (Datatypes.S k) x 0 -> nth (Datatypes.S k) x 0 <= x1 ->
  nth k b 0 = pl_integral (samples s) (nth k x 0) (nth (Datatypes.S k) x 0).
Proof.
  intros R W E Hk x H0 H1 H2. unfold raw_bins in R.
  destruct (length c <? 2)%nat eqn:E2; [discriminate|]. apply Nat.ltb_ge in E2.
  unfold sample in R. destruct (length (wave s) =? 0)%nat; [discriminate|]. destruct (negb _); [discriminate|].
  simpl in R. apply Ok_inj in R. subst b. fold x.
  rewrite chain_trapz_nth by (unfold x; rewrite bin_edges_trapz_length; lia).
  rewrite <- (wf_wave _ W), <- (wf_value _ W). rewrite E. symmetry. apply pl_interval; auto.
  rewrite <- E, (wf_wave _ W). apply W.
Qed.

(* ------------------------------------------------------------------ *)
(* integrate with ARBITRARY bounds: the integral of the interpolant between the first and the last sample inside
   the closed range (nothing is interpolated at the bounds themselves) *)
Lemma last_In {A} (l : list A) d : l <> [] -> In (last l d) l.
Proof.
  induction l as [|a [|b t] IH]; intros H; [congruence | left; reflexivity |].
  right. apply IH. discriminate.
Qed.
Lemma select_hull (P : list (Qc * Qc)) lo hi a ya t : increasing (map fst P) ->
  select lo hi P = (a, ya) :: t ->
  let b := last (map fst ((a, ya) :: t)) 0 in
  In a (map fst P) /\ In b (map fst P) /\ a <= b /\ select a b P = select lo hi P.
Proof.
  intros I E b.
  assert (IS : increasing (map fst ((a, ya) :: t))).
  { rewrite <- E. unfold select. rewrite <- filter_map_fst. apply increasing_SS, SS_filter, increasing_SS. exact I. }
  assert (Hin : forall x, In x (map fst ((a, ya) :: t)) -> In x (map fst P) /\ lo <= x /\ x <= hi).
  { intros x Hx. apply in_map_iff in Hx. destruct Hx as (q & <- & Hq). rewrite <- E in Hq.
    apply filter_In in Hq. destruct Hq as [H1 H2]. split; [apply (in_map fst); auto|].
    unfold in_range in H2. apply andb_prop in H2. destruct H2. qb. auto. }
  assert (Hb : In b (map fst ((a, ya) :: t))) by (apply last_In; discriminate).
  assert (Ha : In a (map fst ((a, ya) :: t))) by (left; reflexivity).
  destruct (Hin _ Ha) as (A1 & A2 & A3). destruct (Hin _ Hb) as (B1 & B2 & B3).
  assert (Hab : a <= b) by (apply (increasing_head_le a (map fst t)); auto).
  repeat split; auto.
  unfold select. apply filter_ext_in. intros q Hq. unfold in_range.
  destruct (qle lo (fst q) && qle (fst q) hi) eqn:R.
  - (* a selected sample lies between the first and the last selected one *)
    assert (Hs : In (fst q) (map fst ((a, ya) :: t))).
    { rewrite <- E. apply (in_map fst). apply filter_In. split; auto. }
    apply andb_true_intro. split; apply qle_iff.
    + apply (increasing_head_le a (map fst t)); auto.
    + apply increasing_le_last; auto.
  - apply andb_false_iff in R. apply andb_false_iff. destruct R as [R|R]; qb.
    + left. apply qle_false. eapply Qclt_le_trans; eauto.
    + right. apply qle_false. eapply Qcle_lt_trans; eauto.
Qed.
Lemma integrate_any_bounds s lo hi : wf s ->
  integrate s (Some lo) (Some hi) Trapz =
  Ok (match select lo hi (samples s) with
      | [] => 0
      | (a, ya) :: t => pl_integral (samples s) a (last (map fst ((a, ya) :: t)) 0)
      end).
Proof.
  intros W. unfold integrate. simpl. f_equal.
  assert (I : increasing (map fst (samples s))) by (rewrite (wf_wave _ W); apply W).
  destruct (select lo hi (samples s)) as [|[a ya] t] eqn:E; [reflexivity|].
  destruct (select_hull _ _ _ _ _ _ I E) as (H1 & H2 & H3 & H4).
  rewrite <- E, <- H4. apply trapz_is_pl_integral; auto.
Qed.

(* ------------------------------------------------------------------ *)
(* sessions on one live object: resizing calls, value assignments, queries *)
Lemma do_call_wf s c : wf s -> call_ok s c -> wf (fst (fst (do_call s c))).
Proof.
  intros W H. destruct c as [o|v|a b r|c r e pp|o|]; simpl in *.
  - apply exec_wf; auto.
  - destruct W as (W1 & W2 & W3). repeat split; auto.
  - destruct (integrate s a b r); auto.
  - destruct (bin s c r e pp); auto.
  - destruct (append s o) as [s' [e|]]; auto.
  - destruct (length (wave s) =? length (value s))%nat; auto.
Qed.
Lemma session_wf cs : forall s, wf s -> session_ok s cs ->
  wf (after_session s cs) /\ Forall (fun r => wf (fst (fst r))) (session s cs).
Proof.
  induction cs as [|c t IH]; simpl; intros s W H; [split; auto|]. destruct H as [H1 H2].
  pose proof (do_call_wf s c W H1) as W'. destruct (IH _ W' H2) as [I1 I2]. split; auto.
Qed.
(* a query leaves the object alone and answers from the object it is given *)
Lemma query_pure s :
  (forall a b r, fst (fst (do_call s (CIntegrate a b r))) = s /\
     match integrate s a b r with
     | Ok x => do_call s (CIntegrate a b r) = ((s, None), ANum x)
     | Err e => do_call s (CIntegrate a b r) = ((s, Some e), ANone) end) /\
  (forall c r e pp, fst (fst (do_call s (CBin c r e pp))) = s /\
     match bin s c r e pp with
     | Ok b => do_call s (CBin c r e pp) = ((s, None), ABins b)
     | Err e' => do_call s (CBin c r e pp) = ((s, Some e'), ANone) end).
Proof.
  split; intros; simpl.
  - destruct (integrate s a b r); auto.
  - destruct (bin s c r e pp); auto.
Qed.
Lemma lincomb_scale k v : lincomb k v 0 v = map (Qcmult k) v.
Proof. unfold lincomb. induction v as [|y v IH]; simpl; auto. rewrite IH. f_equal. ring. Qed.
(* new values k*v assigned on the same grid: every integral is multiplied by k *)
Lemma integrate_scaled s k lo hi r : length (value s) = length (wave s) ->
  match integrate s lo hi r, integrate (set_value s (map (Qcmult k) (value s))) lo hi r with
  | Ok i, Ok j => j = k * i
  | Err e1, Err e2 => e1 = e2
  | _, _ => False
  end.
Proof.
  intros L. destruct s as [w v]. simpl in *. unfold set_value. simpl.
  pose proof (integrate_linear w v v k 0 lo hi r L L) as H. rewrite lincomb_scale in H. unfold rlin in H.
  destruct (integrate {| wave := w; value := v |} lo hi r) as [i|e1];
    destruct (integrate {| wave := w; value := map (Qcmult k) v |} lo hi r) as [j|e2]; auto.
  - rewrite H. ring.
  - tauto.
Qed.

(* ------------------------------------------------------------------ *)
(* two refusals of pad: whichever is raised, the object is untouched *)
Lemma pad_other_refusal_spec s e0 e1 sm md e' : pad_other_refusal s e0 e1 sm md = Some e' ->
  exists e, pad s e0 e1 sm md = (s, Some e) /\ e <> e' /\ (e' = ValueError \/ e' = IndexError).
Proof.
  unfold pad_other_refusal, pad_counts, pad, count_refusal.
  destruct md as [a b|]; [|destruct (value s) as [|y0 vt]; [discriminate|]];
    (destruct (match sm with Some d => Ok d | None => min_diff (wave s) end) as [dw|]; [|discriminate]);
    (destruct (wave s) as [|w0 wt]; [discriminate|]);
    set (nl := (Qceiling ((w0 - e0) / dw) + 1)%Z); set (nr := (Qceiling ((e1 - last (w0 :: wt) w0) / dw) + 1)%Z);
    destruct (nl <? 0)%Z eqn:L1; [| destruct (nl =? 0)%Z eqn:L2; [|discriminate] | | destruct (nl =? 0)%Z eqn:L2; [|discriminate]];
    (destruct (nr <? 0)%Z eqn:R1; [| destruct (nr =? 0)%Z eqn:R2; [|discriminate]]); simpl; intros H; inversion H; subst;
    eexists; (split; [reflexivity | split; [discriminate | auto]]).
Qed.

(* ================================================================== *)
(* deepen: refusal paths - exactly which inputs raise, and what        *)
Lemma wave_check_exact w :
  (wave_check w = Ok w <-> increasing w /\ Forall (fun x => 0 < x) w) /\
  (wave_check w = Ok w \/ wave_check w = Err ValueError).
Proof.
  split; [split|].
  - intros H. apply wave_check_ok in H. tauto.
  - intros [H1 H2]. apply wave_check_accepts; auto.
  - unfold wave_check. repeat destr_if; auto.
Qed.
Lemma make_exact w v :
  (forall s, make w v = Ok s <-> s = mkSp w v /\ wf (mkSp w v)) /\
  (make w v = Ok (mkSp w v) \/ make w v = Err ValueError).
Proof.
  unfold make. destruct (wave_check_exact w) as [[E1 E2] [E3|E3]]; rewrite E3; simpl.
  - destruct (length w =? length v)%nat eqn:L.
    + apply Nat.eqb_eq in L. split; auto. intros s. split.
      * intros H. inversion H; subst. split; auto. destruct (E1 E3). repeat split; auto.
      * intros [-> _]. reflexivity.
    + apply Nat.eqb_neq in L. split; auto. intros s. split; [discriminate|]. intros [_ (_ & _ & W)]. simpl in W. contradiction.
  - split; auto. intros s. split; [discriminate|]. intros [_ (W1 & W2 & _)]. simpl in *.
    rewrite (E2 (conj W1 W2)) in E3. discriminate.
Qed.

Lemma last3_some (p : list (Qc * Qc)) : (3 <= length p)%nat -> last3 p <> None.
Proof.
  intros H. unfold last3. rewrite <- (rev_length p) in H.
  destruct (rev p) as [|c [|b [|a r]]]; simpl in H; try lia. discriminate.
Qed.
Lemma simpson_refuses_exactly p : (simpson p = Err ValueError <-> p = []) /\ (p <> [] -> exists x, simpson p = Ok x).
Proof.
  destruct p as [|[x0 y0] [|[x1 y1] [|q2 t]]].
  - split; [tauto|congruence].
  - split; [split; discriminate | intros _; simpl; eauto].
  - split; [split; discriminate | intros _; simpl; eauto].
  - rewrite simpson_ge3. destruct (Nat.even _).
    + pose proof (last3_some ((x0, y0) :: (x1, y1) :: q2 :: t)) as L.
      destruct (last3 ((x0, y0) :: (x1, y1) :: q2 :: t)) as [[[[xa ya] [xb yb]] [xc yc]]|].
      * split; [split; discriminate | intros _; eauto].
      * exfalso. apply L; [simpl; lia | reflexivity].
    + split; [split; discriminate | intros _; eauto].
Qed.
Lemma qminl_ok l : l <> [] -> exists m, qminl l = Ok m.
Proof.
  induction l as [|a [|b t] IH]; intros H; [congruence | simpl; eauto |].
  destruct IH as [m Hm]; [discriminate|].
  change (qminl (a :: b :: t)) with (rbind (qminl (b :: t)) (fun m => Ok (qmin a m))). rewrite Hm. simpl. eauto.
Qed.
Lemma qmaxl_ok l : l <> [] -> exists m, qmaxl l = Ok m.
Proof.
  induction l as [|a [|b t] IH]; intros H; [congruence | simpl; eauto |].
  destruct IH as [m Hm]; [discriminate|].
  change (qmaxl (a :: b :: t)) with (rbind (qmaxl (b :: t)) (fun m => Ok (qmax a m))). rewrite Hm. simpl. eauto.
Qed.
(* integrate: the trapezoid rule never refuses explicit bounds; Simpson refuses exactly an empty selection; a missing
   bound is refused exactly on an empty spectrum; every refusal is a ValueError *)
Lemma integrate_refusals s :
  (forall lo hi, exists x, integrate s (Some lo) (Some hi) Trapz = Ok x) /\
  (forall lo hi, (integrate s (Some lo) (Some hi) Simps = Err ValueError <-> select lo hi (samples s) = []) /\
                 (select lo hi (samples s) <> [] -> exists x, integrate s (Some lo) (Some hi) Simps = Ok x)) /\
  (wave s = [] -> forall a b r, (a = None \/ b = None) -> integrate s a b r = Err ValueError) /\
  (forall a b r e, integrate s a b r = Err e -> e = ValueError).
Proof.
  split; [|split; [|split]].
  - intros lo hi. unfold integrate. simpl. eauto.
  - intros lo hi. unfold integrate. simpl. apply simpson_refuses_exactly.
  - intros E a b r H. unfold integrate. rewrite E. destruct a as [a|]; simpl; auto.
    destruct b as [b|]; simpl; auto. destruct H; congruence.
  - intros a b r e. unfold integrate.
    destruct (match a with Some x => Ok x | None => qminl (wave s) end) as [lo|e1] eqn:Ea; simpl.
    + destruct (match b with Some x => Ok x | None => qmaxl (wave s) end) as [hi|e2] eqn:Eb; simpl.
      * destruct r; simpl; [discriminate|]. intros H.
        destruct (select lo hi (samples s)) as [|q t] eqn:Es.
        -- simpl in H. congruence.
        -- destruct (proj2 (simpson_refuses_exactly (q :: t))) as [x Hx]; [discriminate|]. congruence.
      * intros H. inversion H; subst. destruct b; [discriminate|]. destruct (wave s) as [|w0 wt]; [simpl in Eb; congruence|].
        destruct (qmaxl_ok (w0 :: wt)) as [m Hm]; [discriminate|]. congruence.
    + intros H. inversion H; subst. destruct a; [discriminate|]. destruct (wave s) as [|w0 wt]; [simpl in Ea; congruence|].
      destruct (qminl_ok (w0 :: wt)) as [m Hm]; [discriminate|]. congruence.
Qed.

Lemma find_first_none f l o : find_first f l o = None <-> forall x, In x l -> f x = false.
Proof.
  revert o. induction l as [|a t IH]; intros o; simpl; [split; auto; intros _ x []|].
  destruct (f a) eqn:E.
  - split; [discriminate|]. intros H. rewrite (H a) in E by auto. discriminate.
  - rewrite IH. split; [intros H x [<-|Hx]; auto | intros H x Hx; auto].
Qed.
Lemma find_last_none f l o : find_last f l o = None <-> forall x, In x l -> f x = false.
Proof.
  revert o. induction l as [|a t IH]; intros o; simpl; [split; auto; intros _ x []|].
  destruct (find_last f t (Datatypes.S o)) eqn:E.
  - split; [discriminate|]. intros H. assert (K : find_last f t (Datatypes.S o) = None) by (apply (proj2 (IH _)); auto). congruence.
  - pose proof (proj1 (IH _) E) as E'. clear E. rename E' into E. destruct (f a) eqn:Fa.
    + split; [discriminate|]. intros H. rewrite (H a) in Fa by auto. discriminate.
    + split; auto. intros _ x [<-|Hx]; auto.
Qed.
(* ends: ValueError exactly without a positive value, IndexError exactly when the maximum is positive but no value
   relative to it exceeds the tolerance *)
Lemma ends_refusals s tol :
  (ends s tol = Err ValueError <-> value s = [] \/ exists m, qmaxl (value s) = Ok m /\ m <= 0) /\
  (ends s tol = Err IndexError <-> exists m, qmaxl (value s) = Ok m /\ 0 < m /\ forall v, In v (value s) -> ~ tol < v / m) /\
  (forall e, ends s tol = Err e -> e = ValueError \/ e = IndexError).
Proof.
  unfold ends. destruct (value s) as [|v0 vt] eqn:Ev.
  - simpl. split; [split; auto|]. split; [split; [discriminate | intros (m & H & _); discriminate]|]. intros e H. inversion H. auto.
  - set (l := v0 :: vt) in *. assert (Hl : l <> []) by discriminate. clearbody l.
    destruct (qmaxl_ok l Hl) as [m Hm]. rewrite Hm. cbn [rbind].
    destruct (qle m 0) eqn:E0.
    + qb. split; [split; auto; intros _; right; eauto|]. split.
      * split; [discriminate|]. intros (m' & H1 & H2 & _). (assert (m' = m) by congruence). subst m'. exfalso. eapply Qcle_not_lt; eauto.
      * intros e H. inversion H. auto.
    + qb. set (above := fun v => qlt tol (v / m)).
      destruct (find_first above l 0%nat) as [i|] eqn:Ei.
      * destruct (find_last above l 0%nat) as [j|] eqn:Ej.
        -- split; [split; [discriminate | intros [H|(m' & H1 & H2)]; [congruence | (assert (m' = m) by congruence); subst m'; exfalso; eapply Qcle_not_lt; eauto]]|].
           split; [|discriminate]. split; [discriminate|]. intros (m' & H1 & _ & H3). (assert (m' = m) by congruence). subst m'.
           destruct (find_first_spec _ _ _ _ 0 Ei) as (k & _ & K1 & K2 & _). exfalso. apply (H3 (nth k l 0)).
           ++ apply nth_In. exact K1.
           ++ apply qlt_iff. exact K2.
        -- exfalso. pose proof (proj1 (find_last_none _ _ _) Ej) as Ej'. destruct (find_first_spec _ _ _ _ 0 Ei) as (k & _ & K1 & K2 & _).
           rewrite Ej' in K2; [discriminate | apply nth_In; exact K1].
      * pose proof (proj1 (find_first_none _ _ _) Ei) as Ei'.
        split; [split; [discriminate | intros [H|(m' & H1 & H2)]; [congruence | (assert (m' = m) by congruence); subst m'; exfalso; eapply Qcle_not_lt; eauto]]|].
        split; [|intros e H; inversion H; auto]. split; auto. intros _. exists m. repeat split; auto.
        intros v Hv K. apply qlt_iff in K. unfold above in Ei'. rewrite (Ei' v Hv) in K. discriminate.
Qed.

(* sample / bin: every refusal is a ValueError, and exactly these inputs are refused *)
Lemma sample_exact s xs :
  (sample s xs = Err ValueError <-> wave s = [] \/ length (wave s) <> length (value s)) /\
  (wave s <> [] -> length (wave s) = length (value s) -> sample s xs = Ok (map (interp (wave s) (value s)) xs)) /\
  (forall e, sample s xs = Err e -> e = ValueError).
Proof.
  unfold sample. destruct (wave s) as [|w0 wt] eqn:Ew.
  - simpl. split; [split; auto|]. split; [congruence|]. intros e H. inversion H. auto.
  - change (length (w0 :: wt) =? 0)%nat with false. cbv iota.
    set (w := w0 :: wt) in *. assert (Hw : w <> []) by discriminate. clearbody w.
    destruct (length w =? length (value s))%nat eqn:L; simpl.
    + apply Nat.eqb_eq in L. split; [split; [discriminate | intros [H|H]; [contradiction | contradiction]]|].
      split; [reflexivity | discriminate].
    + apply Nat.eqb_neq in L. split; [split; auto|]. split; [intros _ K; contradiction|]. intros e H. inversion H. auto.
Qed.
Lemma raw_bins_refusals s c r e :
  (raw_bins s c r e = Err ValueError <->
     (length c < 2)%nat \/ wave s = [] \/ length (wave s) <> length (value s)) /\
  (forall err, raw_bins s c r e = Err err -> err = ValueError).
Proof.
  unfold raw_bins. destruct (length c <? 2)%nat eqn:L.
  - apply Nat.ltb_lt in L. split; [split; auto|]. intros err H. inversion H. auto.
  - apply Nat.ltb_ge in L.
    set (x := match r with Trapz => bin_edges_trapz e c | Simps => bin_nodes_simps e c end).
    destruct (sample_exact s x) as (S1 & S2 & S3).
    destruct (sample s x) as [f|e1] eqn:Es; simpl.
    + split; [|discriminate]. split; [discriminate|]. intros [H|H]; [lia|]. apply S1 in H. discriminate.
    + pose proof (S3 _ eq_refl). subst e1. split; [|intros err H; inversion H; auto].
      split; [intros _; right; apply S1; reflexivity | auto].
Qed.
Lemma bin_refusals s c r e pp :
  (bin s c r e pp = Err ValueError <->
     (length c < 2)%nat \/ wave s = [] \/ length (wave s) <> length (value s) \/
     (pp = true /\ r = Simps /\ exists lo hi, qminl c = Ok lo /\ qmaxl c = Ok hi /\ select lo hi (samples s) = [])) /\
  (forall err, bin s c r e pp = Err err -> err = ValueError).
Proof.
  unfold bin. destruct (raw_bins_refusals s c r e) as [R1 R2].
  destruct (raw_bins s c r e) as [b|e1] eqn:Er; simpl.
  - assert (Lc : (2 <= length c)%nat).
    { unfold raw_bins in Er. destruct (length c <? 2)%nat eqn:L; [discriminate|]. apply Nat.ltb_ge in L. exact L. }
    assert (NR : ~ ((length c < 2)%nat \/ wave s = [] \/ length (wave s) <> length (value s))).
    { intros H. apply R1 in H. discriminate. }
    destruct pp.
    + assert (Hc : c <> []) by (destruct c; simpl in Lc; [lia | discriminate]).
      destruct (qminl_ok c Hc) as [lo Hlo]. destruct (qmaxl_ok c Hc) as [hi Hhi]. rewrite Hlo, Hhi. simpl.
      destruct (integrate_refusals s) as (I1 & I2 & _ & I4). destruct r.
      * destruct (I1 lo hi) as [x Hx]. rewrite Hx. simpl. split.
        -- split; [destruct (qeqb (qsum b) 0); discriminate|]. intros [H|[H|[H|(_ & H & _)]]]; try discriminate; exfalso; apply NR; auto.
        -- intros err. destruct (qeqb (qsum b) 0); discriminate.
      * destruct (I2 lo hi) as [J1 J2]. destruct (integrate s (Some lo) (Some hi) Simps) as [x|e2] eqn:Ei; simpl.
        -- split; [|intros err; destruct (qeqb (qsum b) 0); discriminate].
           split; [destruct (qeqb (qsum b) 0); discriminate|].
           intros [H|[H|[H|(_ & _ & lo' & hi' & H1 & H2 & H3)]]]; try (exfalso; apply NR; auto; fail).
           assert (lo' = lo) by congruence. assert (hi' = hi) by congruence. subst. apply J1 in H3. discriminate.
        -- pose proof (I4 _ _ _ _ Ei). subst e2. split; [|intros err H; inversion H; auto].
           split; auto. intros _. right. right. right. repeat split; auto. exists lo, hi. repeat split; auto. apply J1. reflexivity.
    + split; [|discriminate]. split; [discriminate|]. intros [H|[H|[H|(H & _)]]]; try discriminate; exfalso; apply NR; auto.
  - pose proof (R2 _ eq_refl). subst e1. split; [|intros err H; inversion H; auto].
    split; auto. intros _. destruct (proj1 R1 eq_refl) as [H|[H|H]]; auto.
Qed.

(* append: accepted exactly when the two grids broadcast (equal lengths, or one of them has one sample) and the
   appended grid starts above the caller's last wavelength; every refusal is a ValueError *)
Definition bcompat (a b : nat) : Prop := a = b \/ a = 1%nat \/ b = 1%nat.
Lemma existsb_false {A} (f : A -> bool) l : existsb f l = false <-> forall x, In x l -> f x = false.
Proof.
  induction l; simpl; [split; auto; intros _ x []|]. rewrite orb_false_iff, IHl. split.
  - intros [H1 H2] x [<-|Hx]; auto.
  - intros H. split; auto.
Qed.
Lemma bcast_compat a b : (exists r, bcast_any_le a b = Ok r) <-> bcompat (length a) (length b).
Proof.
  unfold bcast_any_le, bcompat. destruct (length a =? length b)%nat eqn:E.
  - apply Nat.eqb_eq in E. split; eauto.
  - apply Nat.eqb_neq in E. destruct a as [|x [|x' a']].
    + destruct b as [|y [|y' b']]; simpl in *; split; try (intros [r H]; discriminate); try (intros [H|[H|H]]; congruence); eauto.
    + split; eauto.
    + destruct b as [|y [|y' b']]; simpl in *; split; try (intros [r H]; discriminate); try (intros [H|[H|H]]; try congruence; try lia); eauto.
Qed.
Lemma increasing_app w1 w2 : increasing w1 -> increasing w2 ->
  (w1 = [] \/ w2 = [] \/ last w1 0 < hd 0 w2) -> increasing (w1 ++ w2).
Proof.
  induction w1 as [|a [|b t] IH]; intros I1 I2 H; simpl app; auto.
  - destruct w2 as [|c u]; [simpl; auto|]. destruct H as [H|[H|H]]; try discriminate. simpl in H. split; auto.
  - destruct I1 as [J1 J2]. change (increasing (a :: (b :: t) ++ w2)). 
    assert (K : increasing ((b :: t) ++ w2)).
    { apply IH; auto. destruct H as [H|[H|H]]; [discriminate | auto | right; right; exact H]. }
    simpl app in *. split; auto.
Qed.
Lemma increasing_app_inv w1 w2 : increasing (w1 ++ w2) -> w1 <> [] -> w2 <> [] -> last w1 0 < hd 0 w2.
Proof.
  intros I H1 H2. apply increasing_SS in I. apply (SS_app_lt _ _ _ I).
  - apply last_In. auto.
  - destruct w2; [congruence | left; reflexivity].
Qed.
Lemma append_accepts_exactly s o : wf s -> wf o ->
  (snd (append s o) = None <->
     bcompat (length (wave o)) (length (wave s)) /\ (wave s = [] \/ wave o = [] \/ last (wave s) 0 < hd 0 (wave o))) /\
  (forall e, snd (append s o) = Some e -> e = ValueError /\ fst (append s o) = s).
Proof.
  intros (S1 & S2 & S3) (O1 & O2 & O3).
  assert (WC : wave s = [] \/ wave o = [] \/ last (wave s) 0 < hd 0 (wave o) -> wave_check (wave s ++ wave o) = Ok (wave s ++ wave o)).
  { intros H. apply wave_check_accepts; [apply increasing_app; auto | apply Forall_app; auto]. }
  assert (WC' : forall w', wave_check (wave s ++ wave o) = Ok w' -> wave s = [] \/ wave o = [] \/ last (wave s) 0 < hd 0 (wave o)).
  { intros w' H. apply wave_check_ok in H. destruct H as (_ & I & _).
    destruct (wave s) as [|a t] eqn:Es; auto. destruct (wave o) as [|b u] eqn:Eo; auto.
    right. right. apply increasing_app_inv; auto; discriminate. }
  (* above the last wavelength: no element of the appended grid is <= any element of the caller's grid *)
  assert (GAP : wave s = [] \/ wave o = [] \/ last (wave s) 0 < hd 0 (wave o) ->
                forall x y, In x (wave o) -> In y (wave s) -> qle x y = false).
  { intros H x y Hx Hy. destruct H as [H|[H|H]]; [rewrite H in Hy; destruct Hy | rewrite H in Hx; destruct Hx |].
    apply qle_false. eapply Qcle_lt_trans; [apply (increasing_le_last _ 0 _ S1 Hy)|].
    eapply Qclt_le_trans; [exact H|]. destruct (wave o) as [|b u]; [destruct Hx|]. apply (increasing_head_le b u); auto. }
  unfold append. split.
  - split.
    + intros H. destruct (bcast_any_le (wave o) (wave s)) as [[|]|] eqn:Eb; try discriminate.
      destruct (wave_check (wave s ++ wave o)) as [w'|] eqn:Ec; [|discriminate]. split; [|eapply WC'; eauto].
      apply bcast_compat. eauto.
    + intros [C G]. apply bcast_compat in C. destruct C as [r Hr]. rewrite Hr.
      assert (r = false).
      { unfold bcast_any_le in Hr. specialize (GAP G).
        destruct (length (wave o) =? length (wave s))%nat.
        - apply Ok_inj in Hr. rewrite <- Hr. apply existsb_false. intros [x y] Hq. simpl. apply GAP; [eapply in_combine_l | eapply in_combine_r]; eauto.
        - destruct (wave o) as [|x [|x' ot]].
          + destruct (wave s) as [|y [|y' st]]; inversion Hr; auto.
          + apply Ok_inj in Hr. rewrite <- Hr. apply existsb_false. intros y Hy. apply GAP; [left; auto | auto].
          + destruct (wave s) as [|y [|y' st]]; try discriminate. apply Ok_inj in Hr. rewrite <- Hr.
            apply existsb_false. intros x0 Hx0. apply GAP; [auto | left; auto]. }
      subst r. rewrite (WC G). reflexivity.
  - intros e. destruct (bcast_any_le (wave o) (wave s)) as [[|]|e1] eqn:Eb; simpl.
    + intros H. inversion H. auto.
    + destruct (wave_check (wave s ++ wave o)) as [w'|e2] eqn:Ec; simpl; [discriminate|]. intros H. inversion H; subst.
      split; auto. eapply wave_check_err; eauto.
    + intros H. inversion H; subst. split; auto. unfold bcast_any_le in Eb.
      destruct (length (wave o) =? length (wave s))%nat; [discriminate|].
      destruct (wave o) as [|x [|x' ot]]; destruct (wave s) as [|y [|y' st]]; inversion Eb; auto.
Qed.

(* the interpolant vanishes outside the table *)
Lemma interp_from_above w v x : increasing w -> length w = length v -> w <> [] -> last w 0 < x -> interp_from w v x = 0.
Proof.
  revert v. induction w as [|x0 wt IH]; intros v I L N H; [congruence|].
  destruct v as [|y0 vt]; [discriminate|]. simpl in L. injection L as L.
  destruct wt as [|x1 wt'].
  - simpl in *. replace (qeqb x x0) with false; auto. symmetry. apply qeqb_false. intro K. subst. eapply Qclt_not_eq; eauto.
  - destruct vt as [|y1 vt']; [discriminate|]. destruct I as [I1 I2].
    change (interp_from (x0 :: x1 :: wt') (y0 :: y1 :: vt') x)
      with (if qlt x x1 then y0 + ((y1 - y0) / (x1 - x0)) * (x - x0) else interp_from (x1 :: wt') (y1 :: vt') x).
    change (last (x0 :: x1 :: wt') 0) with (last (x1 :: wt') 0) in H.
    destruct (qlt x x1) eqn:E; [|apply IH; auto; discriminate]. qb. exfalso.
    apply (Qclt_not_le _ _ E). apply Qclt_le_weak. eapply Qcle_lt_trans; [|exact H].
    apply increasing_le_last; auto. left; auto.
Qed.
Lemma interp_outside w v x : increasing w -> length w = length v ->
  (w = [] \/ x < hd 0 w \/ last w 0 < x) -> interp w v x = 0.
Proof.
  intros I L H. unfold interp. destruct w as [|x0 wt]; auto. destruct H as [H|[H|H]]; [discriminate | |].
  - simpl in H. apply qlt_iff in H. rewrite H. reflexivity.
  - destruct (qlt x x0); auto. apply interp_from_above; auto. discriminate.
Qed.

(* ------------------------------------------------------------------ *)
(* pad, exactly: how many samples are added on each side, where they start and stop, what they carry *)
Lemma linspace_length a b n : (1 <= n)%Z -> length (linspace a b n) = Z.to_nat n.
Proof.
  intros H. unfold linspace. destruct (n =? 1)%Z eqn:E; [apply Z.eqb_eq in E; subst; reflexivity|].
  rewrite map_length, seq_length. reflexivity.
Qed.
Lemma ofZ_0 : ofZ 0 = 0. Proof. apply Qc_is_canon. reflexivity. Qed.
Lemma ofZ_neq0 z : z <> 0%Z -> ofZ z <> 0.
Proof.
  intros H K. apply H. apply Qc_eq_this in K. unfold ofZ, Q2Qc in K. cbn [this] in K.
  pose proof (Qred_correct (inject_Z z)) as R. rewrite R in K. change (Qred 0) with 0%Q in K.
  unfold Qeq, inject_Z in K. simpl in K. lia.
Qed.
Lemma linspace_hd a b n : (2 <= n)%Z -> hd 0 (linspace a b n) = a.
Proof.
  intros H. unfold linspace. replace (n =? 1)%Z with false by (symmetry; apply Z.eqb_neq; lia).
  destruct (Z.to_nat n) as [|k] eqn:E; [lia|]. simpl. change (Z.of_nat 0) with 0%Z. rewrite ofZ_0. ring.
Qed.
Lemma last_map_seq {A} (f : nat -> A) k d : last (map f (seq 0 (Datatypes.S k))) d = f k.
Proof. rewrite seq_S, map_app. simpl. apply last_last. Qed.
Lemma linspace_last a b n : (2 <= n)%Z -> last (linspace a b n) 0 = b.
Proof.
  intros H. unfold linspace. replace (n =? 1)%Z with false by (symmetry; apply Z.eqb_neq; lia).
  destruct (Z.to_nat n) as [|k] eqn:E; [lia|]. rewrite last_map_seq.
  replace (Z.of_nat k) with (n - 1)%Z by lia. field. apply ofZ_neq0. lia.
Qed.
Lemma hd_removelast (l : list Qc) d : (2 <= length l)%nat -> hd d (removelast l) = hd d l.
Proof. destruct l as [|a [|b t]]; simpl; intros; try lia; reflexivity. Qed.
Lemma last_tl (l : list Qc) d : (2 <= length l)%nat -> last (tl l) d = last l d.
Proof. destruct l as [|a [|b t]]; simpl; intros; try lia; reflexivity. Qed.
Lemma tl_length {A} (l : list A) : length (tl l) = pred (length l).
Proof. destruct l; reflexivity. Qed.

Lemma last_indep {A} (l : list A) d d' : l <> [] -> last l d = last l d'.
Proof. induction l as [|a [|b t] IH]; intros H; [congruence | reflexivity |]. apply IH. discriminate. Qed.
Lemma pad_exact s e0 e1 sm md s' : wf s -> pad s e0 e1 sm md = (s', None) ->
  exists v0 v1 dw w0 L R,
    (match md with PadConst a b => v0 = a /\ v1 = b | PadEdge => v0 = hd 0 (value s) /\ v1 = last (value s) 0 end) /\
    (match sm with Some d => dw = d | None => min_diff (wave s) = Ok dw end) /\
    hd_error (wave s) = Some w0 /\
    let nl := (Qceiling ((w0 - e0) / dw) + 1)%Z in
    let nr := (Qceiling ((e1 - last (wave s) 0%Qc) / dw) + 1)%Z in
    (1 <= nl)%Z /\ (1 <= nr)%Z /\
    wave s' = L ++ wave s ++ R /\ value s' = repeat v0 (length L) ++ value s ++ repeat v1 (length R) /\
    Z.of_nat (length L) = (nl - 1)%Z /\ Z.of_nat (length R) = (nr - 1)%Z /\
    (L <> [] -> hd 0 L = e0) /\ (R <> [] -> last R 0 = e1) /\
    (forall x, In x L -> x < w0) /\ (forall x, In x R -> last (wave s) 0 < x) /\ wf s'.
Proof.
  intros W H. pose proof (pad_spec s e0 e1 sm md W) as PS. rewrite H in PS. destruct PS as [W' _].
  unfold pad in H.
  destruct (match md with PadConst a b => Ok (a, b) | PadEdge => _ end) as [[v0 v1]|] eqn:Em; [|inversion H].
  destruct (match sm with Some d => Ok d | None => min_diff (wave s) end) as [dw|] eqn:Es; [|inversion H].
  destruct (wave s) as [|w0 wt] eqn:Ew; [inversion H|].
  set (wl := last (w0 :: wt) w0) in *.
  set (nl := (Qceiling ((w0 - e0) / dw) + 1)%Z) in *. set (nr := (Qceiling ((e1 - wl) / dw) + 1)%Z) in *.
  destruct (nl <? 0)%Z eqn:L1; [inversion H|]. destruct (nl =? 0)%Z eqn:L2; [inversion H|].
  destruct (nr <? 0)%Z eqn:R1; [inversion H|]. destruct (nr =? 0)%Z eqn:R2; [inversion H|].
  apply Z.ltb_ge in L1, R1. apply Z.eqb_neq in L2, R2.
  set (L := removelast (linspace e0 w0 nl)) in *. set (R := tl (linspace wl e1 nr)) in *.
  destruct (wave_check (L ++ (w0 :: wt) ++ R)) as [w'|] eqn:Ec; [|inversion H].
  apply wave_check_ok in Ec. destruct Ec as (-> & C1 & C2). inversion H; subst s'. clear H.
  assert (Wl : wl = last (w0 :: wt) 0) by (unfold wl; apply last_indep; discriminate).
  exists v0, v1, dw, w0, L, R. rewrite <- Wl. fold nl nr.
  assert (LL : Z.of_nat (length L) = (nl - 1)%Z).
  { unfold L. rewrite removelast_length, linspace_length by lia. lia. }
  assert (LR : Z.of_nat (length R) = (nr - 1)%Z).
  { unfold R. rewrite tl_length, linspace_length by lia. lia. }
  split.
  { destruct md as [a b|]; [inversion Em; auto|]. destruct (value s) as [|y0 vt] eqn:Ev; [discriminate|].
    inversion Em; subst. split; [reflexivity|]. change (last (v0 :: vt) v0 = last (v0 :: vt) 0). apply last_indep. discriminate. }
  split; [destruct sm; [inversion Es; auto | exact Es]|].
  split; [reflexivity|]. cbv zeta.
  split; [lia|]. split; [lia|]. split; [reflexivity|]. split; [reflexivity|]. split; [exact LL|]. split; [exact LR|].
  apply increasing_SS in C1.
  split; [|split; [|split; [|split; [|exact W']]]].
  - intros HL. assert (2 <= nl)%Z by (destruct L; [congruence | simpl in LL; lia]).
    unfold L. rewrite hd_removelast by (rewrite linspace_length by lia; lia). apply linspace_hd. auto.
  - intros HR. assert (2 <= nr)%Z by (destruct R; [congruence | simpl in LR; lia]).
    unfold R. rewrite last_tl by (rewrite linspace_length by lia; lia). apply linspace_last. auto.
  - intros x Hx. apply (SS_app_lt _ _ _ C1 x w0); auto. left. reflexivity.
  - intros x Hx. rewrite app_assoc in C1. apply (SS_app_lt _ _ _ C1 wl x); auto.
    apply in_or_app. right. rewrite Wl. apply last_In. discriminate.
Qed.

(* concrete instances for the refusal / exactness statements *)
Lemma deepen_examples :
  let sp := mkSp [qq 1 1; qq 2 1; qq 4 1; qq 8 1] [qq 1 1; qq 3 1; qq 7 1; qq 2 1] in
  let e := mkSp [] [] in
  (* wave setter, constructor *)
  wave_check [qq 2 1; qq 1 1] = Err ValueError /\ wave_check [qq 1 1; qq 1 1] = Err ValueError /\
  wave_check [qq 0 1; qq 1 1] = Err ValueError /\ (exists w, wave_check [qq 1 1; qq 2 1; qq 4 1] = Ok w) /\
  make [qq 1 1; qq 2 1] [qq 5 1] = Err ValueError /\ (exists s, make [qq 1 1; qq 2 1] [qq 5 1; qq 6 1] = Ok s) /\
  (* integrate *)
  integrate sp (Some (qq 5 2)) (Some (qq 3 1)) Simps = Err ValueError /\ select (qq 5 2) (qq 3 1) (samples sp) = [] /\
  (exists x, integrate sp (Some (qq 5 2)) (Some (qq 3 1)) Trapz = Ok x) /\
  integrate e None (Some (qq 3 1)) Trapz = Err ValueError /\
  (* ends *)
  ends (mkSp [qq 1 1; qq 2 1; qq 3 1] [qq (-1) 1; qq 0 1; qq (-2) 1]) (qq 0 1) = Err ValueError /\
  ends (mkSp [qq 1 1; qq 2 1; qq 3 1] [qq 1 1; qq 0 1; qq 2 1]) (qq 1 1) = Err IndexError /\
  ends (mkSp [qq 1 1; qq 2 1; qq 3 1] [qq 1 1; qq 0 1; qq 2 1]) (qq 1 4) = Ok (0%nat, 2%nat) /\
  (* sample, bin *)
  sample e [qq 1 1] = Err ValueError /\ (exists f, sample sp [qq 3 1; qq 9 1] = Ok f) /\
  bin sp [qq 2 1] Trapz Inside false = Err ValueError /\
  bin sp [qq 5 1; qq 6 1; qq 7 1] Simps Inside true = Err ValueError /\
  (exists b, bin sp [qq 5 1; qq 6 1; qq 7 1] Simps Inside false = Ok b) /\
  (* append *)
  snd (append (mkSp [qq 1 1; qq 2 1; qq 13 2] [qq 1 1; qq 1 1; qq 1 1]) (mkSp [qq 5 1; qq 6 1; qq 7 1] [qq 2 1; qq 2 1; qq 2 1]))
    = Some ValueError /\
  snd (append (mkSp [qq 1 1; qq 2 1; qq 3 1] [qq 1 1; qq 1 1; qq 1 1]) (mkSp [qq 4 1; qq 5 1] [qq 2 1; qq 2 1])) = Some ValueError /\
  snd (append (mkSp [qq 1 1; qq 2 1; qq 3 1] [qq 1 1; qq 1 1; qq 1 1]) (mkSp [qq 4 1; qq 5 1; qq 6 1] [qq 2 1; qq 2 1; qq 2 1])) = None /\
  (* pad *)
  (exists s', pad (mkSp [qq 3 2; qq 5 2; qq 9 2] [qq 2 1; qq 4 1; qq 1 1]) (qq 1 2) (qq 11 2) None PadEdge = (s', None) /\
              length (wave s') = 5%nat) /\
  pad_other_refusal (mkSp [qq 2 1; qq 3 1; qq 4 1] [qq 1 1; qq 1 1; qq 1 1]) (qq 4 1) (qq 3 1) None (PadConst 0 0) = Some IndexError.
Proof.
  intros sp e. repeat match goal with |- _ /\ _ => split end.
  all: try (vm_compute; reflexivity).
  all: try (eexists; vm_compute; reflexivity).
  all: try (eexists; split; vm_compute; reflexivity).
Qed.

(* append(copy=True) and asarray: the caller is not touched; the copy is the accepted in-place result *)
Lemma copy_calls s : wf s ->
  (forall o, length (wave o) = length (value o) ->
     fst (fst (do_call s (CAppendCopy o))) = s /\
     match append s o with
     | (s', None) => do_call s (CAppendCopy o) = ((s, None), ASpec s') /\ wf s' /\ samples s' = samples s ++ samples o
     | (_, Some e) => do_call s (CAppendCopy o) = ((s, Some e), ANone)
     end) /\
  do_call s CAsArray = ((s, None), ASpec s).
Proof.
  intros W. split.
  - intros o Ho. pose proof (append_spec s o W Ho) as A. simpl. destruct (append s o) as [s' [e|]]; simpl; auto.
  - simpl. destruct W as (_ & _ & L). rewrite L, Nat.eqb_refl. reflexivity.
Qed.
