(* Lemmas about the blur model (Model/Blur.v).
   Part 1 (every commutative ring with an additive kernel of period one turn): cyclic re-indexing of sums, the DFT
   shift theorem in one and two dimensions, commutation of ifft2(fft2 img * K) with circular translation for ANY
   multiplier K, the convolution theorem, unit DC gain of the three multipliers, the renormalisation, shapes.
   Part 2 (Coquelicot C, scalar structure CS): inverse theorems in both directions, sum of an inverse transform is
   its DC term, identity at K = 1, non-negativity of the modulus, totals. *)
From LV Require Import Model.Blur Proofs.ArrP.

(* ------------------------------------------------------------------------------------------ *)
(** * Rational phases *)
Lemma zQ_add a b : zQ (a + b) = (zQ a + zQ b)%Qc.
Proof. unfold zQ, Qcplus. apply Qc_is_canon. cbn [this Q2Qc]. rewrite !Qred_correct.
  rewrite inject_Z_plus. reflexivity. Qed.
Lemma zQ_mul a b : zQ (a * b) = (zQ a * zQ b)%Qc.
Proof. unfold zQ, Qcmult. apply Qc_is_canon. cbn [this Q2Qc]. rewrite !Qred_correct.
  rewrite inject_Z_mult. reflexivity. Qed.
Lemma zQ_0 : zQ 0 = 0%Qc. Proof. apply Qc_is_canon. reflexivity. Qed.
Lemma zQ_neq0 n : n <> 0 -> zQ n <> 0%Qc.
Proof. intros H E. apply H. unfold zQ in E. apply (f_equal (fun q : Qc => Qnum (this q))) in E.
  cbn [this Q2Qc] in E. assert (Qred (inject_Z n) == inject_Z n)%Q as Hq by apply Qred_correct.
  unfold Qeq in Hq. rewrite E in Hq. cbn in Hq. lia. Qed.
Lemma tq_add a b n : tq (a + b) n = (tq a n + tq b n)%Qc.
Proof. unfold tq. rewrite zQ_add. unfold Qcdiv. ring. Qed.
Lemma tq_0 n : tq 0 n = 0%Qc.
Proof. unfold tq. rewrite zQ_0. unfold Qcdiv. ring. Qed.
Lemma tq_mul_n q n : n <> 0 -> tq (q * n) n = zQ q.
Proof. intros H. unfold tq. rewrite zQ_mul. unfold Qcdiv. rewrite <- Qcmult_assoc, Qcmult_inv_r by now apply zQ_neq0.
  ring. Qed.

Lemma fftfreq_0 n : 0 < n -> fftfreq n 0 = 0%Qc.
Proof. intros H. unfold fftfreq, fftfreq_num. replace (0 <? (n - 1) / 2 + 1) with true by lia. apply tq_0. Qed.


(* ------------------------------------------------------------------------------------------ *)
(** * Cyclic re-indexing of a sum (spike S14, on Z) *)
Lemma mod_shift_lo n s i : 0 < n -> 0 <= i < n - s mod n -> (i + s) mod n = s mod n + i.
Proof. intros Hn Hi. symmetry. apply Z.mod_unique with (q := s / n).
  - left. pose proof (Z.mod_pos_bound s n Hn). lia.
  - pose proof (Z.div_mod s n). lia. Qed.
Lemma mod_shift_hi n s i : 0 < n -> 0 <= i < s mod n -> (n - s mod n + i + s) mod n = i.
Proof. intros Hn Hi. symmetry. apply Z.mod_unique with (q := s / n + 1).
  - left. pose proof (Z.mod_pos_bound s n Hn). lia.
  - pose proof (Z.div_mod s n). lia. Qed.

Section Cyc.
Variable S : Scalar.
Hypothesis Sring : is_ring S.
Add Ring Src : Sring.

Theorem sumZ_cyclic n s (g : Z -> S) : 0 < n ->
  sumZ n (fun i => g ((i + s) mod n)) = sumZ n g.
Proof.
  intros Hn. pose proof (Z.mod_pos_bound s n Hn) as Hs. set (r := s mod n) in *.
  transitivity (sumZ ((n - r) + r) (fun i => g ((i + s) mod n))); [f_equal; lia|].
  rewrite (sumZ_split S Sring (n - r) r) by lia.
  transitivity (sumZ (r + (n - r)) g); [|f_equal; lia].
  rewrite (sumZ_split S Sring r (n - r)) by lia.
  rewrite (sumZ_ext S (n - r) _ (fun i => g (r + i))).
  2:{ intros i Hi. f_equal. apply mod_shift_lo; assumption. }
  rewrite (sumZ_ext S r (fun i => g ((n - r + i + s) mod n)) g).
  2:{ intros i Hi. f_equal. apply mod_shift_hi; assumption. }
  ring.
Qed.

(* element-wise maps and the renormalisation commute with permutations of the samples *)
Lemma asum_roll (a : arr S) sr sc : 0 < nr a -> 0 < nc a -> asum (roll a sr sc) = asum a.
Proof. intros Hm Hn. unfold asum, roll. cbn [nr nc get].
  rewrite <- (sumZ_cyclic (nr a) (- sr) (fun i => sumZ (nc a) (fun j => get a i j))) by assumption.
  apply sumZ_ext. intros i _. replace (i + - sr) with (i - sr) by lia.
  rewrite <- (sumZ_cyclic (nc a) (- sc) (fun j => get a ((i - sr) mod nr a) j)) by assumption.
  apply sumZ_ext. intros j _. now replace (j + - sc) with (j - sc) by lia. Qed.

End Cyc.

Section Shape.
Variable S : Scalar.

Lemma dft1_ext n (f g : Z -> S) u : (forall x, 0 <= x < n -> f x = g x) -> dft1 n f u = dft1 n g u.
Proof. intros H. unfold dft1. apply sumZ_ext. intros x Hx. now rewrite H. Qed.
Lemma idft1r_ext n (f g : Z -> S) u : (forall x, 0 <= x < n -> f x = g x) -> idft1r n f u = idft1r n g u.
Proof. intros H. unfold idft1r. apply sumZ_ext. intros x Hx. now rewrite H. Qed.

(* ------------------------------------------------------------------------------------------ *)
(** * fft2 / ifft2 are the defining sums, axis by axis *)
Definition F2 (m n : Z) (g : Z -> Z -> S) (u v : Z) : S :=
  dft1 n (fun y => dft1 m (fun x => g x y) u) v.
Definition I2r (m n : Z) (G : Z -> Z -> S) (i j : Z) : S :=
  idft1r m (fun u => idft1r n (fun v => G u v) j) i.

Lemma fft2_get (a : arr S) u v : 0 <= u < nr a -> 0 <= v < nc a ->
  get (fft2 a) u v = F2 (nr a) (nc a) (get a) u v.
Proof. intros Hu Hv. unfold fft2, F2. rewrite force_get by (cbn [nr nc]; lia). cbn [get].
  apply dft1_ext. intros y Hy. rewrite force_get by (cbn [nr nc]; lia). reflexivity. Qed.
Lemma ifft2_get (G : arr S) i j : 0 <= i < nr G -> 0 <= j < nc G ->
  get (ifft2 G) i j = (kofq (/ zQ (nr G * nc G))%Qc * I2r (nr G) (nc G) (get G) i j)%K.
Proof. intros Hi Hj. unfold ifft2, I2r. rewrite force_get by (cbn [nr nc]; lia). cbn [get].
  f_equal. apply idft1r_ext. intros u Hu. rewrite force_get by (cbn [nr nc]; lia). reflexivity. Qed.
Lemma fft2_shape (a : arr S) : nr (fft2 a) = nr a /\ nc (fft2 a) = nc a.
Proof. split; reflexivity. Qed.
Lemma ifft2_shape (a : arr S) : nr (ifft2 a) = nr a /\ nc (ifft2 a) = nc a.
Proof. split; reflexivity. Qed.
Lemma conv_shape (K a : arr S) : nr (conv K a) = nr a /\ nc (conv K a) = nc a.
Proof. split; reflexivity. Qed.

Lemma F2_ext m n (f g : Z -> Z -> S) u v :
  (forall x y, 0 <= x < m -> 0 <= y < n -> f x y = g x y) -> F2 m n f u v = F2 m n g u v.
Proof. intros H. unfold F2. apply dft1_ext. intros y Hy. apply dft1_ext. intros x Hx. now apply H. Qed.
Lemma I2r_ext m n (f g : Z -> Z -> S) u v :
  (forall x y, 0 <= x < m -> 0 <= y < n -> f x y = g x y) -> I2r m n f u v = I2r m n g u v.
Proof. intros H. unfold I2r. apply idft1r_ext. intros x Hx. apply idft1r_ext. intros y Hy. now apply H. Qed.

Lemma conv_get (K a : arr S) i j : 0 <= i < nr a -> 0 <= j < nc a ->
  get (conv K a) i j
  = (kofq (/ zQ (nr a * nc a))%Qc
     * I2r (nr a) (nc a) (fun u v => (F2 (nr a) (nc a) (get a) u v * get K u v)%K) i j)%K.
Proof. intros Hi Hj. unfold conv. set (G := force (amul (fft2 a) K)).
  assert (Hr : nr G = nr a) by reflexivity. assert (Hc : nc G = nc a) by reflexivity.
  rewrite ifft2_get by lia. rewrite Hr, Hc. f_equal. apply I2r_ext. intros u v Hu Hv.
  unfold G. rewrite force_get by (change (nr (amul (fft2 a) K)) with (nr a); change (nc (amul (fft2 a) K)) with (nc a); lia).
  cbn [amul get]. now rewrite fft2_get. Qed.

End Shape.
Arguments F2 {S}. Arguments I2r {S}.
Arguments dft1_ext {S}. Arguments idft1r_ext {S}. Arguments fft2_get {S}. Arguments ifft2_get {S}. Arguments fft2_shape {S}. Arguments ifft2_shape {S}. Arguments conv_shape {S}. Arguments F2_ext {S}. Arguments I2r_ext {S}. Arguments conv_get {S}.

Section Gen.
Variable S : Scalar.
Hypothesis Sring : is_ring S.
Hypothesis Skernel : kernel_laws S.
Hypothesis Speriod : forall z : Z, @ke S (zQ z) = k1.       (* e(integer) = 1 *)
Add Ring Sr : Sring.

Lemma ke_period a q n : n <> 0 -> @ke S (tq (a + q * n) n) = ke (tq a n).
Proof. intros H. rewrite tq_add, tq_mul_n by assumption. rewrite (ke_add S Skernel), Speriod. ring. Qed.
Lemma ke_tq_0 n : @ke S (tq 0 n) = k1.
Proof. rewrite tq_0. apply (ke_0 S Skernel). Qed.

(* ------------------------------------------------------------------------------------------ *)
(** * One-dimensional transforms *)
Lemma dft1_scale n c (f : Z -> S) u : dft1 n (fun x => (c * f x)%K) u = (c * dft1 n f u)%K.
Proof. unfold dft1. rewrite <- (sumZ_scale_l S Sring). apply sumZ_ext. intros. ring. Qed.
Lemma idft1r_scale n c (f : Z -> S) u : idft1r n (fun x => (c * f x)%K) u = (c * idft1r n f u)%K.
Proof. unfold idft1r. rewrite <- (sumZ_scale_l S Sring). apply sumZ_ext. intros. ring. Qed.
(* a transform of a linear combination *)
Lemma dft1_sum n k (c : Z -> S) (G : Z -> Z -> S) u :
  dft1 n (fun i => sumZ k (fun x => (c x * G x i)%K)) u = sumZ k (fun x => (c x * dft1 n (G x) u)%K).
Proof. unfold dft1.
  rewrite (sumZ_ext S n _ (fun i => sumZ k (fun x => (c x * (G x i * ke (tq (i * u) n)))%K))).
  2:{ intros i _. rewrite <- (sumZ_scale_r S Sring). apply sumZ_ext. intros. ring. }
  rewrite (sumZ_exchange S Sring). apply sumZ_ext. intros x _. now rewrite (sumZ_scale_l S Sring). Qed.
(* DC term = plain sum *)
Lemma dft1_dc n (f : Z -> S) : dft1 n f 0 = sumZ n f.
Proof. unfold dft1. apply sumZ_ext. intros x _. rewrite Z.mul_0_r, ke_tq_0. ring. Qed.

(* DFT shift theorem *)
Theorem dft1_shift n s (f : Z -> S) u : 0 < n ->
  dft1 n (fun x => f ((x - s) mod n)) u = (ke (tq (s * u) n) * dft1 n f u)%K.
Proof.
  intros Hn. unfold dft1. rewrite <- (sumZ_scale_l S Sring).
  rewrite <- (sumZ_cyclic S Sring n (- s) (fun x => (ke (tq (s * u) n) * (f x * ke (tq (x * u) n)))%K)) by assumption.
  apply sumZ_ext. intros x Hx. replace (x + - s) with (x - s) by lia.
  set (r := (x - s) mod n).
  transitivity (f r * (ke (tq (s * u) n) * ke (tq (r * u) n)))%K; [|ring].
  f_equal. rewrite <- (ke_add S Skernel), <- tq_add.
  replace (x * u) with ((s * u + r * u) + ((x - s) / n * u) * n).
  - apply ke_period. lia.
  - pose proof (Z.div_mod (x - s) n). subst r. nia.
Qed.

(* a linear phase in the spectrum is a circular shift of the inverse transform *)
Theorem idft1r_phase n s (G : Z -> S) y : 0 < n ->
  idft1r n (fun u => (ke (tq (s * u) n) * G u)%K) y = idft1r n G ((y - s) mod n).
Proof.
  intros Hn. unfold idft1r. apply sumZ_ext. intros u Hu. set (r := (y - s) mod n).
  transitivity (G u * (ke (tq (s * u) n) * ke (tq (- (y * u)) n)))%K; [ring|].
  f_equal. rewrite <- (ke_add S Skernel), <- tq_add.
  replace (s * u + - (y * u)) with (- (r * u) + (- ((y - s) / n) * u) * n).
  - apply ke_period. lia.
  - pose proof (Z.div_mod (y - s) n). subst r. nia.
Qed.

(* ------------------------------------------------------------------------------------------ *)
(** * Two-dimensional shift theorems *)
(* two-dimensional shift theorem *)
Theorem F2_roll m n (g : Z -> Z -> S) sr sc u v : 0 < m -> 0 < n ->
  F2 m n (fun x y => g ((x - sr) mod m) ((y - sc) mod n)) u v
  = (ke (tq (sc * v) n) * (ke (tq (sr * u) m) * F2 m n g u v))%K.
Proof.
  intros Hm Hn. unfold F2.
  rewrite (dft1_ext n _ (fun y => (fun y' => (ke (tq (sr * u) m) * dft1 m (fun x => g x y') u)%K) ((y - sc) mod n))).
  2:{ intros y Hy. cbv beta. now rewrite (dft1_shift m sr (fun x => g x ((y - sc) mod n)) u). }
  etransitivity; [exact (dft1_shift n sc (fun y' => (ke (tq (sr * u) m) * dft1 m (fun x => g x y') u)%K) v Hn)|].
  f_equal. apply dft1_scale.
Qed.

Theorem I2r_phase m n (G : Z -> Z -> S) sr sc i j : 0 < m -> 0 < n ->
  I2r m n (fun u v => (ke (tq (sc * v) n) * (ke (tq (sr * u) m) * G u v))%K) i j
  = I2r m n G ((i - sr) mod m) ((j - sc) mod n).
Proof.
  intros Hm Hn. unfold I2r.
  rewrite (idft1r_ext m _ (fun u => (ke (tq (sr * u) m) * idft1r n (fun v => G u v) ((j - sc) mod n))%K)).
  2:{ intros u Hu. rewrite <- (idft1r_phase n sc (fun v => G u v) j) by assumption.
      rewrite <- idft1r_scale. apply idft1r_ext. intros v Hv. ring. }
  now rewrite idft1r_phase.
Qed.

(* ------------------------------------------------------------------------------------------ *)
(** * T19b: ifft2(fft2 img * K) commutes with circular translation, for any multiplier K *)
Theorem conv_roll (K a : arr S) sr sc i j : 0 <= i < nr a -> 0 <= j < nc a ->
  get (conv K (roll a sr sc)) i j = get (roll (conv K a) sr sc) i j.
Proof.
  intros Hi Hj. set (m := nr a). set (n := nc a).
  assert (Hm : 0 < m) by (unfold m; lia). assert (Hn : 0 < n) by (unfold n; lia).
  change (get (roll (conv K a) sr sc) i j) with (get (conv K a) ((i - sr) mod m) ((j - sc) mod n)).
  pose proof (Z.mod_pos_bound (i - sr) m Hm). pose proof (Z.mod_pos_bound (j - sc) n Hn).
  rewrite !conv_get by (cbn [roll nr nc]; fold m n; lia).
  cbn [roll nr nc]. fold m n. f_equal.
  rewrite <- I2r_phase by assumption. apply I2r_ext. intros u v Hu Hv.
  change (get (roll a sr sc)) with (fun x y => get a ((x - sr) mod m) ((y - sc) mod n)).
  rewrite (F2_roll m n (get a) sr sc u v Hm Hn). ring.
Qed.

(* ------------------------------------------------------------------------------------------ *)
(** * Convolution theorem: the transform of a circular convolution is the product of the transforms *)
Theorem F2_cconv m n (a h : Z -> Z -> S) u v : 0 < m -> 0 < n ->
  F2 m n (fun i j => sumZ m (fun x => sumZ n (fun y => (a x y * h ((i - x) mod m) ((j - y) mod n))%K))) u v
  = (F2 m n a u v * F2 m n h u v)%K.
Proof.
  intros Hm Hn.
  transitivity (sumZ m (fun x => sumZ n (fun y =>
     (a x y * F2 m n (fun i j => h ((i - x) mod m) ((j - y) mod n)) u v)%K))).
  - unfold F2.
    rewrite (dft1_ext n _ (fun j => sumZ m (fun x => (k1 * dft1 m (fun i => sumZ n (fun y =>
        (a x y * h ((i - x) mod m) ((j - y) mod n))%K)) u)%K))).
    2:{ intros j Hj. rewrite <- (dft1_sum m m (fun _ => k1)). apply dft1_ext. intros i Hi.
        apply sumZ_ext. intros x Hx. ring. }
    rewrite dft1_sum. apply sumZ_ext. intros x Hx.
    rewrite (dft1_ext n _ (fun j => sumZ n (fun y => (a x y * dft1 m (fun i => h ((i - x) mod m) ((j - y) mod n)) u)%K))).
    2:{ intros j Hj. now rewrite dft1_sum. }
    rewrite dft1_sum. ring.
  - rewrite (sumZ_ext S m _ (fun x => sumZ n (fun y =>
       (F2 m n h u v * (a x y * ke (tq (x * u) m) * ke (tq (y * v) n)))%K))).
    2:{ intros x Hx. apply sumZ_ext. intros y Hy. rewrite F2_roll by assumption. ring. }
    unfold F2 at 2. unfold dft1 at 1 2.
    rewrite (sumZ_ext S m _ (fun x => (F2 m n h u v * sumZ n (fun y => (a x y * ke (tq (x * u) m) * ke (tq (y * v) n))%K))%K)).
    2:{ intros x Hx. now rewrite (sumZ_scale_l S Sring). }
    rewrite (sumZ_scale_l S Sring).
    rewrite (sumZ_exchange S Sring).
    transitivity (F2 m n h u v * sumZ n (fun y => (sumZ m (fun x => (a x y * ke (tq (x * u) m))%K) * ke (tq (y * v) n))%K))%K; [|ring].
    f_equal. apply sumZ_ext. intros y Hy. rewrite <- (sumZ_scale_r S Sring). reflexivity.
Qed.

Lemma fft2_cconv (a h : arr S) u v : 0 <= u < nr a -> 0 <= v < nc a ->
  get (fft2 (cconv a h)) u v = (F2 (nr a) (nc a) (get a) u v * F2 (nr a) (nc a) (get h) u v)%K.
Proof. intros Hu Hv. rewrite fft2_get by (cbn [cconv nr nc]; lia). cbn [cconv nr nc get].
  apply F2_cconv; lia. Qed.

(* ------------------------------------------------------------------------------------------ *)
(** * Sums: DC term of the transform *)
Lemma F2_dc m n (g : Z -> Z -> S) : F2 m n g 0 0 = sumZ m (fun x => sumZ n (fun y => g x y)).
Proof. unfold F2. rewrite dft1_dc.
  rewrite (sumZ_ext S n _ (fun y => sumZ m (fun x => g x y))) by (intros; apply dft1_dc).
  apply (sumZ_exchange S Sring). Qed.

(* ------------------------------------------------------------------------------------------ *)
(** * T19a: unit gain at zero frequency *)
Lemma pixel_mul_dc (sinc : Qc -> S) os m n : 0 < m -> 0 < n -> sinc 0%Qc = k1 ->
  get (pixel_mul sinc os m n) 0 0 = k1.
Proof. intros Hm Hn H0. cbn [pixel_mul get]. rewrite !fftfreq_0 by assumption.
  replace (0 * os)%Qc with 0%Qc by ring. rewrite H0. ring. Qed.
Lemma jitter_mul_dc (gauss : Qc -> S) scale ps os m n : 0 < m -> 0 < n -> gauss 0%Qc = k1 ->
  get (jitter_mul gauss scale ps os m n) 0 0 = k1.
Proof. intros Hm Hn H0. cbn [jitter_mul get]. rewrite !fftfreq_0 by assumption.
  match goal with |- gauss ?q = _ => replace q with 0%Qc by ring end. exact H0. Qed.
Lemma smear_mul_dc (sinc : Qc -> S) d sn cs ps os m n : 0 < m -> 0 < n -> sinc 0%Qc = k1 ->
  get (smear_mul sinc d sn cs ps os m n) 0 0 = k1.
Proof. intros Hm Hn H0. cbn [smear_mul get]. rewrite !fftfreq_0 by assumption.
  match goal with |- sinc ?q = _ => replace q with 0%Qc by ring end. exact H0. Qed.

(* zero extent: the multiplier is identically one *)
Lemma pixel_mul_zero (sinc : Qc -> S) m n i j : sinc 0%Qc = k1 -> get (pixel_mul sinc 0%Qc m n) i j = k1.
Proof. intros H0. cbn [pixel_mul get]. rewrite !Qcmult_0_r, H0. ring. Qed.
Lemma jitter_mul_zero (gauss : Qc -> S) ps os m n i j : gauss 0%Qc = k1 ->
  get (jitter_mul gauss 0%Qc ps os m n) i j = k1.
Proof. intros H0. cbn [jitter_mul get]. unfold extent.
  match goal with |- gauss ?q = _ => replace q with 0%Qc by (unfold Qcdiv; ring) end. exact H0. Qed.
Lemma smear_mul_zero (sinc : Qc -> S) sn cs ps os m n i j : sinc 0%Qc = k1 ->
  get (smear_mul sinc 0%Qc sn cs ps os m n) i j = k1.
Proof. intros H0. cbn [smear_mul get].
  match goal with |- sinc ?q = _ => replace q with 0%Qc by (unfold extent, Qcdiv; ring) end. exact H0. Qed.

(* T19g: scale, pixelscale and oversample enter only through (scale/pixelscale)*oversample *)
Lemma jitter_mul_units (gauss : Qc -> S) scale ps os scale' ps' os' m n :
  extent scale ps os = extent scale' ps' os' ->
  jitter_mul gauss scale ps os m n = jitter_mul gauss scale' ps' os' m n.
Proof. intros H. unfold jitter_mul. now rewrite H. Qed.
Lemma smear_mul_units (sinc : Qc -> S) d ps os d' ps' os' sn cs m n :
  extent d ps os = extent d' ps' os' ->
  smear_mul sinc d sn cs ps os m n = smear_mul sinc d' sn cs ps' os' m n.
Proof. intros H. unfold smear_mul. now rewrite H. Qed.
Lemma extent_samples scale ps os : extent (extent scale ps os) 1 1 = extent scale ps os.
Proof. unfold extent, Qcdiv. replace (/ 1)%Qc with 1%Qc by reflexivity. ring. Qed.

(* ------------------------------------------------------------------------------------------ *)
(** * T19e: the renormalisation out * sum(img) / sum(out) restores the total *)
Lemma asum_scale_r (a : arr S) c :
  asum (mkArr (nr a) (nc a) (fun i j => (get a i j * c)%K)) = (asum a * c)%K.
Proof. unfold asum. cbn [nr nc get]. rewrite <- (sumZ_scale_r S Sring). apply sumZ_ext. intros i _.
  now rewrite (sumZ_scale_r S Sring). Qed.

Theorem renorm_total (kinv : S -> S) (out img : arr S) :
  (asum out * kinv (asum out))%K = k1 -> asum (renorm kinv out img) = asum img.
Proof. intros H. unfold renorm.
  rewrite (asum_scale_r out (asum img * kinv (asum out))%K) || idtac.
  transitivity (asum out * (asum img * kinv (asum out)))%K.
  - rewrite <- asum_scale_r. unfold asum. cbn [nr nc get]. apply sumZ_ext. intros i _. apply sumZ_ext. intros j _. ring.
  - transitivity (asum img * (asum out * kinv (asum out)))%K; [ring|]. rewrite H. ring.
Qed.
Lemma renorm_shape (kinv : S -> S) (out img : arr S) : nr (renorm kinv out img) = nr out /\ nc (renorm kinv out img) = nc out.
Proof. split; reflexivity. Qed.

Lemma asum_ext (a b : arr S) : nr a = nr b -> nc a = nc b ->
  (forall i j, 0 <= i < nr a -> 0 <= j < nc a -> get a i j = get b i j) -> asum a = asum b.
Proof. intros Hr Hc H. unfold asum. rewrite <- Hr, <- Hc. apply sumZ_ext. intros i Hi. apply sumZ_ext. intros j Hj.
  now apply H. Qed.

(* after the absolute value ... *)
Theorem blur_roll (kabs : S -> S) (K a : arr S) sr sc i j : 0 <= i < nr a -> 0 <= j < nc a ->
  get (blur kabs K (roll a sr sc)) i j = get (roll (blur kabs K a) sr sc) i j.
Proof. intros Hi Hj. change (kabs (get (conv K (roll a sr sc)) i j) = kabs (get (roll (conv K a) sr sc) i j)).
  f_equal. now apply conv_roll. Qed.

(* ... and after the renormalisation by the two totals *)
Theorem renorm_blur_roll (kabs kinv : S -> S) (K a : arr S) sr sc i j : 0 <= i < nr a -> 0 <= j < nc a ->
  get (renorm kinv (blur kabs K (roll a sr sc)) (roll a sr sc)) i j
  = get (roll (renorm kinv (blur kabs K a) a) sr sc) i j.
Proof.
  intros Hi Hj.
  change (get (blur kabs K (roll a sr sc)) i j * asum (roll a sr sc) * kinv (asum (blur kabs K (roll a sr sc)))
          = get (roll (blur kabs K a) sr sc) i j * asum a * kinv (asum (blur kabs K a)))%K.
  rewrite blur_roll by assumption. rewrite (asum_roll S Sring) by lia.
  rewrite (asum_ext (blur kabs K (roll a sr sc)) (roll (blur kabs K a) sr sc)); try reflexivity.
  - rewrite (asum_roll S Sring); [reflexivity| |]; change (0 < nr a) || change (0 < nc a); lia.
  - intros i' j' Hi' Hj'. apply blur_roll; assumption.
Qed.
End Gen.
