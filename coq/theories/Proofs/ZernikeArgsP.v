(* The public entry points of lentil/zernike.py around the numeric kernel: zernike_basis as a function of its
   own (cube / vectorised matrix), which calls return and which are refused (and with which exception), and the
   shapes of the results.  Lemmas for Properties/C12.v (group "deepen"). *)
From LV Require Import Model.ZernikeFit Proofs.ZernikeFitP.

Section ZBasis.
Variable S : Scalar.
Variable Crd : Type.
Variable is0 : S -> bool.
Variable zpoly : bool -> option Crd -> Z -> Z -> Z -> S.
Notation zern := (zernike is0 zpoly).
Notation cube := (zernike_basis_cube is0 zpoly).
Notation vec := (zernike_basis_vec is0 zpoly).
Notation klen modes := (Z.of_nat (length modes)).
Notation npix mask := (nr mask * nc mask).

(* ---- zernike_basis ---- *)
Lemma basis_cube_spec mask modes nrm crd :
  (forall e, cube mask modes nrm crd = Err e -> e = ValueError /\ modes_ok modes = false) /\
  (forall cb, cube mask modes nrm crd = Ok cb ->
     modes_ok modes = true /\ length cb = length modes /\
     forall i, 0 <= i < klen modes ->
       nth (Z.to_nat i) cb (azeros 0 0) = zern mask (nthmode modes i) nrm crd).
Proof. unfold zernike_basis_cube. destruct (modes_ok modes); cbn [negb]; split.
  - intros e H. discriminate.
  - intros cb H. injection H as <-. split; [reflexivity|]. split; [apply map_length|].
    intros i Hi. unfold nthmode.
    rewrite (nth_indep _ (azeros 0 0) (zern mask 0 nrm crd)) by (rewrite map_length; lia).
    apply (map_nth (fun j => zern mask j nrm crd)).
  - intros e H. injection H as <-. split; reflexivity.
  - intros cb H. discriminate. Qed.

Lemma basis_vec_spec mask modes nrm crd :
  (forall e, vec mask modes nrm crd = Err e -> e = ValueError /\ (modes_ok modes = false \/ modes = [])) /\
  (forall B, vec mask modes nrm crd = Ok B ->
     modes_ok modes = true /\ modes <> [] /\ nr B = klen modes /\ nc B = npix mask /\
     forall cb, cube mask modes nrm crd = Ok cb ->
     forall i p, 0 <= i < klen modes ->
       get B i p = ravel (nth (Z.to_nat i) cb (azeros 0 0)) p).
Proof. unfold zernike_basis_vec. destruct (modes_ok modes) eqn:Em; cbn [negb].
  - destruct modes as [|j modes]; cbn [length Nat.eqb]; split.
    + intros e H. injection H as <-. split; [reflexivity|right; reflexivity].
    + intros B H. discriminate.
    + intros e H. discriminate.
    + intros B H. injection H as <-. cbn [nr nc get]. repeat split; try reflexivity; [discriminate|].
      intros cb Hcb i p Hi. destruct (basis_cube_spec mask (j :: modes) nrm crd) as [_ Hc].
      destruct (Hc cb Hcb) as (_ & _ & Hn). rewrite (Hn i Hi). reflexivity.
  - split.
    + intros e H. injection H as <-. split; [reflexivity|left; reflexivity].
    + intros B H. discriminate. Qed.

End ZBasis.

Section ZArgs.
Variable S : Scalar.
Hypothesis Sring : is_ring S.
Hypothesis FR : formally_real S.
Variable Crd : Type.
Variable is0 : S -> bool.
Variable zpoly : bool -> option Crd -> Z -> Z -> Z -> S.
Variable solve : Z -> Z -> (Z -> Z -> S) -> (Z -> S) -> result (list S).
Hypothesis solve_sound : forall k N B y c,
  solve k N B y = Ok c -> Z.of_nat (length c) = k /\ NE k N B y (nthZ c).
Hypothesis solve_total : forall k N B y, 0 <= k -> indep k N B -> exists c, solve k N B y = Ok c.
Hypothesis solve_err : forall k N B y e, solve k N B y = Err e -> e = ValueError.

Notation zern := (zernike is0 zpoly).
Notation bmat := (basis_mat is0 zpoly).
Notation cube := (zernike_basis_cube is0 zpoly).
Notation vec := (zernike_basis_vec is0 zpoly).
Notation fit_a := (zernike_fit_a is0 zpoly solve).
Notation remove_a := (zernike_remove_a is0 zpoly solve).
Notation compose_a := (zernike_compose_a is0 zpoly).
Notation basis_a := (zernike_basis_a is0 zpoly).
Notation klen modes := (Z.of_nat (length modes)).
Notation npix mask := (nr mask * nc mask).

(* ---- which calls return ---- *)
Lemma compose_a_returns mask coeffs nrm a :
  ((exists y, compose_a mask coeffs nrm a = Ok y) <-> coords_err a (length coeffs) = false) /\
  (forall e, compose_a mask coeffs nrm a = Err e -> e = ValueError) /\
  (forall y, compose_a mask coeffs nrm a = Ok y ->
     y = zernike_compose is0 zpoly mask coeffs nrm (coords_of a) /\ nr y = nr mask /\ nc y = nc mask).
Proof. unfold zernike_compose_a. destruct (coords_err a (length coeffs)).
  - split; [split|split].
    + intros [y H]. discriminate.
    + discriminate.
    + intros e H. injection H as <-. reflexivity.
    + intros y H. discriminate.
  - split; [split|split].
    + reflexivity.
    + intros _. eexists. reflexivity.
    + intros e H. discriminate.
    + intros y H. injection H as <-. repeat split; reflexivity. Qed.

Lemma fit_err_kind opd mask modes nrm crd e :
  zernike_fit is0 zpoly solve opd mask modes nrm crd = Err e -> e = ValueError.
Proof. unfold zernike_fit, zernike_basis_vec. destruct (modes_ok modes); cbn [negb rbind]; [|intros H; injection H as <-; reflexivity].
  destruct (Nat.eqb (length modes) 0); cbn [rbind]; [intros H; injection H as <-; reflexivity|].
  cbn [nr nc get]. destruct (negb _); [intros H; injection H as <-; reflexivity|]. apply solve_err. Qed.

Lemma fit_a_returns opd mask modes nrm a :
  (modes <> [] -> modes_ok modes = true -> indep (klen modes) (npix mask) (bmat mask modes nrm (coords_of a))) ->
  ((exists c, fit_a opd mask modes nrm a = Ok c) <->
   (coords_err a (length modes) = false /\ modes_ok modes = true /\ modes <> [] /\ nr opd * nc opd = npix mask)) /\
  (forall e, fit_a opd mask modes nrm a = Err e -> e = ValueError) /\
  (forall c, fit_a opd mask modes nrm a = Ok c -> length c = length modes).
Proof. intros Hind. unfold zernike_fit_a. destruct (coords_err a (length modes)).
  - split; [split|split].
    + intros [c H]. discriminate.
    + intros (H & _). discriminate.
    + intros e H. injection H as <-. reflexivity.
    + intros c H. discriminate.
  - split; [split|split].
    + intros [c H]. pose proof (fit_ok S Crd is0 zpoly solve solve_sound _ _ _ _ _ _ H) as (H1 & H2 & _).
      pose proof (fit_nonempty S Crd is0 zpoly solve _ _ _ _ _ _ H). tauto.
    + intros (_ & H1 & H2 & H3).
      exact (fit_total S Crd is0 zpoly solve solve_sound solve_total opd mask modes nrm (coords_of a) H2 H1 H3 (Hind H2 H1)).
    + intros e. apply fit_err_kind.
    + intros c H. pose proof (fit_ok S Crd is0 zpoly solve solve_sound _ _ _ _ _ _ H) as (_ & _ & H3 & _). exact H3. Qed.

Lemma remove_a_returns opd mask modes a :
  (modes <> [] -> modes_ok modes = true -> indep (klen modes) (npix mask) (bmat mask modes true (coords_of a))) ->
  ((exists r, remove_a opd mask modes a = Ok r) <->
   (coords_err a (length modes) = false /\ modes_ok modes = true /\ modes <> [] /\
    nr opd = nr mask /\ nc opd = nc mask)) /\
  (forall e, remove_a opd mask modes a = Err e -> e = ValueError) /\
  (forall r, remove_a opd mask modes a = Ok r -> nr r = nr opd /\ nc r = nc opd).
Proof. intros Hind. unfold zernike_remove_a. destruct (coords_err a (length modes)).
  - split; [split|split].
    + intros [c H]. discriminate.
    + intros (H & _). discriminate.
    + intros e H. injection H as <-. reflexivity.
    + intros c H. discriminate.
  - split; [split|split].
    + intros [r H]. pose proof (remove_ok S Crd is0 zpoly solve _ _ _ _ _ H) as (c & Hc & E1 & E2 & _).
      pose proof (fit_ok S Crd is0 zpoly solve solve_sound _ _ _ _ _ _ Hc) as (H1 & _).
      pose proof (fit_nonempty S Crd is0 zpoly solve _ _ _ _ _ _ Hc). tauto.
    + intros (_ & H1 & H2 & E1 & E2).
      exact (remove_total S Crd is0 zpoly solve solve_sound solve_total opd mask modes (coords_of a) H2 H1 E1 E2 (Hind H2 H1)).
    + intros e. unfold zernike_remove.
      destruct (zernike_fit is0 zpoly solve opd mask modes true (coords_of a)) as [c|e'] eqn:Ef; cbn [rbind].
      * destruct (negb _); intros H; [injection H as <-; reflexivity|discriminate].
      * intros H. injection H as <-. exact (fit_err_kind _ _ _ _ _ _ Ef).
    + intros r H. pose proof (remove_ok S Crd is0 zpoly solve _ _ _ _ _ H) as (c & _ & _ & _ & R1 & R2 & _). tauto. Qed.

Lemma basis_a_returns mask modes vectorize nrm a :
  ((exists b, basis_a mask modes vectorize nrm a = Ok b) <->
   (coords_err a (length modes) = false /\ modes_ok modes = true /\ (vectorize = true -> modes <> []))) /\
  (forall e, basis_a mask modes vectorize nrm a = Err e -> e = ValueError).
Proof. unfold zernike_basis_a. destruct (coords_err a (length modes)).
  - split; [split|].
    + intros [c H]. discriminate.
    + intros (H & _). discriminate.
    + intros e H. injection H as <-. reflexivity.
  - destruct vectorize.
    + unfold zernike_basis_vec. destruct (modes_ok modes); cbn [negb rbind].
      * destruct modes as [|j modes]; cbn [length Nat.eqb rbind]; (split; [split|]).
        -- intros [b H]. discriminate.
        -- intros (_ & _ & H). exfalso. apply H; reflexivity.
        -- intros e H. injection H as <-. reflexivity.
        -- intros _. split; [reflexivity|]. split; [reflexivity|]. discriminate.
        -- intros _. eexists. reflexivity.
        -- intros e H. discriminate.
      * split; [split|].
        -- intros [b H]. discriminate.
        -- intros (_ & H & _). discriminate.
        -- intros e H. injection H as <-. reflexivity.
    + unfold zernike_basis_cube. destruct (modes_ok modes); cbn [negb rbind]; (split; [split|]).
      * intros _. split; [reflexivity|]. split; [reflexivity|]. discriminate.
      * intros _. eexists. reflexivity.
      * intros e H. discriminate.
      * intros [b H]. discriminate.
      * intros (_ & H & _). discriminate.
      * intros e H. injection H as <-. reflexivity. Qed.
End ZArgs.

(* the executed solver refuses with ValueError only *)
Lemma q_solve_err k N (B : Z -> Z -> QS) (y : Z -> QS) e : q_solve k N B y = Err e -> e = ValueError.
Proof. unfold q_solve, gauss_solve. destruct (forward _ _); [|intros H; injection H as <-; reflexivity].
  destruct (check_normal_eqs _ _ _ _ _); [discriminate|intros H; injection H as <-; reflexivity]. Qed.
