(* C14 (deepen) - Blackbody.sample, Blackbody.vegamag and sample_vegamag: what they compute and that a
   Vega-magnitude star is the same irradiance in whichever units it is built, converted or sampled. *)
From Coq Require Import Reals Lra Field.
From LV Require Import Lib.Base Model.UnitsBase Gen.UnitTable Model.Units Proofs.UnitsP.
Local Open Scope R_scope.

Section Vega.
Variables H C : R.
Hypothesis HC : H * C <> 0.
Variables Kb cpi : R.
Variable expf : R -> R.
Notation fc := (flux_conv RF H C).
Notation c2pi := (Q2R (2 # 1) * cpi).
Notation Bx := (planck_si RF H C Kb expf c2pi).

(* ---- Blackbody.sample ---- *)
Lemma bb_sample_spec : forall (s : spectrum RF) (T : R) (pts : list R) (wn : uname) (a : wunit) (g : funit),
  wave_name wn = Some a -> s_vu RF s = Some g ->
  bb_sample RF H C Kb expf s T pts wn = Ok (map (in_units H C Kb expf (Q2R (2 # 1)) T a g) pts).
Proof.
  intros s T pts wn a g Hw Hv. unfold bb_sample. rewrite Hv.
  apply (radiances_spec H C Kb expf T wn (fname g) a g pts Hw (flux_name_fname g)).
Qed.

(* sampling a Blackbody in the wave unit b at the object's own wavelengths expressed in b gives the values
   the object has after to(b): the sampled curve and the converted object are the same curve *)
Lemma bb_sample_is_converted : forall (T : R) (a b : wunit) (g : funit) (ws : list R) (s s' : spectrum RF),
  Forall (fun w => w <> 0) ws ->
  blackbody RF H C Kb expf ws T (wname a) (fname g) = Ok s ->
  to RF H C s [wname b] = Ok s' ->
  bb_sample RF H C Kb expf s T (s_wave RF s') (wname b) = Ok (s_value RF s').
Proof.
  intros T a b g ws s s' Hn Hs Ht.
  rewrite (blackbody_spec H C Kb expf T _ _ a g ws (wave_name_wname a) (flux_name_fname g)) in Hs.
  inversion Hs; subst s; clear Hs.
  cbn [Units.to] in Ht. rewrite (to1_wave_density H C _ g b) in Ht by reflexivity.
  cbn [rbind s_wave s_value s_wu] in Ht. inversion Ht; subst s'; clear Ht. cbn [s_wave s_value].
  rewrite (bb_sample_spec _ T _ (wname b) b g (wave_name_wname b)) by reflexivity.
  unfold Units.scale, Units.unscale. rewrite !map_map. apply f_equal.
  apply map_ext_in. intros w Hin. rewrite Forall_forall in Hn. specialize (Hn w Hin). cbn [fmul fdiv RF].
  transitivity (conv1 H C b g g (in_units H C Kb expf (Q2R (2 # 1)) T a g w / wf RF a b) (w * wf RF a b)).
  - symmetry. exact (in_units_convert H C HC Kb expf (Q2R (2 # 1)) T a g b g w Hn).
  - apply conv1_id.
Qed.

(* ---- vegamag ---- *)
Variables w0 jy pw T : R.
Hypothesis Hw0 : w0 <> 0.
Definition Fsi : R := jy * Q2R (1 # 100000000000000000000000000) * C / (w0 * w0) * w0 / (H * C).
(* the star's irradiance in the units (a, g) at the wavelength w (in a) *)
Definition Ex (a : wunit) (g : funit) (w : R) : R :=
  fc Fphotlam g Fsi w0 / wf RF Wm a
  * (in_units H C Kb expf c2pi T a g w / in_units H C Kb expf c2pi T a g (w0 * wf RF Wm a)) * pw.

Lemma exitances_spec : forall wn vn a g ws, wave_name wn = Some a -> flux_name vn = Some g ->
  exitances RF H C Kb cpi expf ws T wn vn = Ok (map (in_units H C Kb expf c2pi T a g) ws).
Proof.
  intros wn vn a g ws Hw Hg. induction ws as [|w ws IH]; [reflexivity|].
  cbn [exitances]. unfold planck_exitance.
  change (@fmul RF (fofq (2 # 1)) cpi) with c2pi.
  rewrite (planck_gen_spec H C Kb expf c2pi w T wn vn a g Hw Hg). cbn [rbind]. rewrite IH. reflexivity.
Qed.

Lemma vega_irradiance_spec : forall wn vn a g ws, wave_name wn = Some a -> flux_name vn = Some g ->
  vega_irradiance RF H C Kb cpi expf w0 jy pw T ws wn vn = Ok (map (Ex a g) ws).
Proof.
  intros wn vn a g ws Hw Hg. unfold vega_irradiance.
  rewrite (vegaflux_spec H C w0 jy wn vn a g Hw Hg). cbn [rbind fst snd]. unfold planck_exitance.
  change (@fmul RF (fofq (2 # 1)) cpi) with c2pi.
  rewrite (planck_gen_spec H C Kb expf c2pi _ T wn vn a g Hw Hg). cbn [rbind].
  fold (planck_exitance RF H C Kb cpi expf).
  rewrite (exitances_spec wn vn a g ws Hw Hg). cbn [rbind]. rewrite map_map. reflexivity.
Qed.

Lemma vegamag_spec : forall wn vn a g ws, wave_name wn = Some a -> flux_name vn = Some g ->
  vegamag RF H C Kb cpi expf w0 jy pw T ws wn vn = Ok (mkSpec RF ws (map (Ex a g) ws) a (Some g)).
Proof.
  intros wn vn a g ws Hw Hg. unfold vegamag. rewrite (vega_irradiance_spec wn vn a g ws Hw Hg). cbn [rbind].
  rewrite (blackbody_spec H C Kb expf T wn vn a g ws Hw Hg). reflexivity.
Qed.

(* the reference exitance, at Vega's band centre, in any wave unit *)
Lemma in_units_ref : forall a g,
  in_units H C Kb expf c2pi T a g (w0 * wf RF Wm a) = fc Fwlam g (Bx w0 T) w0 / wf RF Wm a.
Proof.
  intros a g. unfold in_units.
  assert (E : w0 * wf RF Wm a * wf RF a Wm = w0) by (rewrite Rmult_assoc, wf_inv; apply Rmult_1_r).
  rewrite E. reflexivity.
Qed.
Lemma fc_scalar : forall g h X w, w <> 0 -> fc g h X w = X * fc g h 1 w.
Proof. intros g h X w Hw. rewrite <- (flux_linear H C HC g h X 1 w Hw). f_equal. symmetry. apply Rmult_1_r. Qed.
Lemma fc_unit_nonzero : forall g h w, w <> 0 -> fc g h 1 w <> 0.
Proof.
  intros g h w Hw E. pose proof (flux_round H C HC g h 1 w Hw) as R1.
  rewrite (fc_scalar h g _ w Hw), E in R1. lra.
Qed.

Hypothesis HB0 : Bx w0 T <> 0.     (* the star's exitance at Vega's band centre is not zero *)

(* one sample of the star, converted by the rules of Spectrum.to from (a, g) to (b, h) *)
Lemma Ex_convert : forall a b g h w, w <> 0 ->
  conv1 H C b g h (Ex a g w / wf RF a b) (w * wf RF a b) = Ex b h (w * wf RF a b).
Proof.
  intros a b g h w Hw. unfold conv1, Ex. rewrite !in_units_ref. unfold in_units.
  assert (Hm : w * wf RF a b * wf RF b Wm = w * wf RF a Wm) by (rewrite Rmult_assoc, wf_comp; reflexivity).
  rewrite Hm. set (wm := w * wf RF a Wm).
  assert (Hwm : wm <> 0) by (apply Rmult_integral_contrapositive_currified; auto; apply wf_neq0).
  set (B := Bx wm T). set (B0 := Bx w0 T) in *.
  (* every conversion as a scalar times the conversion of 1 *)
  pose proof (fc_unit_nonzero g h w0 Hw0) as Hc.
  assert (Ph : fc Fphotlam h Fsi w0 = fc Fphotlam g Fsi w0 * fc g h 1 w0)
    by (rewrite <- (flux_comp H C HC Fphotlam g h Fsi w0 Hw0); apply fc_scalar; auto).
  assert (Qh : fc Fwlam h B0 w0 = fc Fwlam g B0 w0 * fc g h 1 w0)
    by (rewrite <- (flux_comp H C HC Fwlam g h B0 w0 Hw0); apply fc_scalar; auto).
  assert (Xh : fc Fwlam h B wm = fc g h (fc Fwlam g B wm) wm)
    by (symmetry; apply (flux_comp H C HC Fwlam g h B wm Hwm)).
  assert (Qg : fc Fwlam g B0 w0 <> 0).
  { rewrite (fc_scalar Fwlam g B0 w0 Hw0). apply Rmult_integral_contrapositive_currified; auto.
    apply fc_unit_nonzero; auto. }
  rewrite Ph, Qh, Xh.
  set (P := fc Fphotlam g Fsi w0) in *. set (Q := fc Fwlam g B0 w0) in *. set (X := fc Fwlam g B wm) in *.
  set (c := fc g h 1 w0) in *.
  pose proof (wf_neq0 Wm a) as Hma. pose proof (wf_neq0 a b) as Hab. pose proof (wf_neq0 b Wm) as Hbm.
  pose proof (wf_neq0 Wm b) as Hmb.
  assert (E1 : wf RF Wm a * wf RF a b * wf RF b Wm = 1) by (rewrite !wf_comp; apply wf_id).
  (* pull the scalar out of the g -> h conversion *)
  replace (P / wf RF Wm a * (X / wf RF Wm a / (Q / wf RF Wm a)) * pw / wf RF a b / wf RF b Wm)
    with ((P / Q * pw) * X).
  - rewrite (flux_linear H C HC g h (P / Q * pw) X wm Hwm). field. repeat split; auto.
  - apply (Rmult_eq_reg_r (wf RF Wm a * wf RF a b * wf RF b Wm)); [|rewrite E1; lra].
    rewrite E1 at 1. field. repeat split; auto.
Qed.

(* a star built in (a, g), converted with Spectrum.to to (b, h), is the star built directly in (b, h) at the
   converted wavelengths *)
Lemma vegamag_unit_independent : forall (a b : wunit) (g h : funit) (ws : list R) (s : spectrum RF),
  Forall (fun w => w <> 0) ws ->
  vegamag RF H C Kb cpi expf w0 jy pw T ws (wname a) (fname g) = Ok s ->
  to RF H C s [wname b; fname h]
  = vegamag RF H C Kb cpi expf w0 jy pw T (scale RF (wf RF a b) ws) (wname b) (fname h).
Proof.
  intros a b g h ws s Hn Hs.
  rewrite (vegamag_spec _ _ a g ws (wave_name_wname a) (flux_name_fname g)) in Hs.
  inversion Hs; subst s; clear Hs.
  rewrite (vegamag_spec _ _ b h _ (wave_name_wname b) (flux_name_fname h)).
  cbn [Units.to]. rewrite (to1_wave_density H C _ g b) by reflexivity. cbn [rbind s_wu s_wave s_value].
  rewrite (to1_flux H C _ g h) by reflexivity. cbn [rbind s_wu s_wave s_value]. f_equal. f_equal.
  unfold Units.scale, Units.unscale. rewrite !map_map.
  induction ws as [|w ws IH]; [reflexivity|]. inversion Hn; subst. cbn [map combine fst snd]. f_equal.
  - cbn [fmul fdiv RF]. apply Ex_convert; auto.
  - apply IH; auto.
Qed.

(* sampling the star in the wave unit b at its own wavelengths expressed in b gives the values it has after
   to(b), whatever units it was built in and whatever its current value unit is *)
Lemma star_sample_is_converted : forall (a b : wunit) (g h : funit) (ws : list R) (s s' : spectrum RF),
  Forall (fun w => w <> 0) ws ->
  vegamag RF H C Kb cpi expf w0 jy pw T ws (wname a) (fname g) = Ok s ->
  to RF H C s [wname b; fname h] = Ok s' ->
  star_sample RF H C Kb cpi expf s' w0 jy pw T (s_wave RF s') (wname b) = Ok (s_value RF s').
Proof.
  intros a b g h ws s s' Hn Hs Ht.
  rewrite (vegamag_unit_independent a b g h ws s Hn Hs) in Ht.
  rewrite (vegamag_spec _ _ b h _ (wave_name_wname b) (flux_name_fname h)) in Ht.
  inversion Ht; subst s'; clear Ht. unfold star_sample. cbn [s_vu s_wave s_value].
  apply (vega_irradiance_spec (wname b) (fname h) b h _ (wave_name_wname b) (flux_name_fname h)).
Qed.
End Vega.
