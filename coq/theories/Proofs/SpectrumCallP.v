(* C13 (deepen) - the public entry points with all their arguments: refusal paths, method kinds, constructor, to. *)
From Coq Require Import Lqa.
From LV Require Import Model.Spectrum Proofs.SpectrumP.
Open Scope Qc_scope.

Lemma conv_nonempty s u : wave s <> [] -> wave (conv s u) <> [].
Proof. unfold conv. destruct (wunit_eqb (wu s) u); auto. unfold to_wu; simpl. destruct (wave s); simpl; congruence. Qed.

Lemma spec_call_nonempty mt o s1 s2 a f : wave s1 <> [] -> wave (conv s2 (wu s1)) <> [] ->
  spec_call mt o s1 s2 a f = spec_call_args mt o s1 s2 a f.
Proof. intros N1 N2. unfold spec_call. destruct (wave s1); [congruence|].
  destruct (wave (conv s2 (wu s1))); [congruence|]. reflexivity. Qed.
Lemma spec_call_empty mt o s1 s2 a f : wave s1 = [] \/ wave (conv s2 (wu s1)) = [] ->
  spec_call mt o s1 s2 a f = Err ValueError.
Proof. unfold spec_call. intros [-> | ->]; [reflexivity|]. destruct (wave s1); reflexivity. Qed.

Lemma call_is_spec_op o s1 s2 m f : wf s1 -> wf s2 ->
  spec_call MLinear o s1 s2 (AOk m) f = spec_op o s1 s2 m f.
Proof. intros (_ & _ & N1) W2. destruct (conv_wf s2 (wu s1) W2) as (_ & _ & N2).
  rewrite spec_call_nonempty by assumption. reflexivity. Qed.

Lemma sampling_of_err w1 w2 m e : sampling_of w1 w2 m = Err e -> e = ValueError.
Proof. destruct m; simpl.
  - destruct (lmin (diffs w1)) eqn:E1; simpl; [|intros H; injection H as <-; eapply lmin_err; eauto].
    destruct (lmin (diffs w2)) eqn:E2; simpl; [discriminate|intros H; injection H as <-; eapply lmin_err; eauto].
  - apply lmin_err.
  - apply lmin_err.
  - destruct (qc_is0 d); congruence. Qed.

Section Refusals.
Variables (mt : meth) (o : binop) (s1 s2 : spectrum) (a : sampling_arg) (f : fillv).
Let w1 := wave s1.
Let w2 := wave (conv s2 (wu s1)).
Let mn := qmin (wmin w1) (wmin w2).
Let mx := qmax (wmax w1) (wmax w2).
Let E := spec_call mt o s1 s2 a f.

Lemma refusal_table :
  (w1 = [] \/ w2 = [] -> E = Err ValueError) /\
  (w1 <> [] -> w2 <> [] ->
     (a = ABadOther -> E = Err ValueError) /\
     (a = ABadStr -> E = Err TypeError) /\
     (forall m, a = AOk m ->
        (forall e, sampling_of w1 w2 m = Err e -> e = ValueError /\ E = Err ValueError) /\
        (forall dw, sampling_of w1 w2 m = Ok dw ->
           let num := qceil ((mx - mn) / dw) in
           ((num < -1)%Z -> E = Err ValueError) /\
           ((-1 <= num)%Z ->
              (mt = MUnknown -> E = Err NotImplementedErr) /\
              (mt <> MUnknown -> (length w1 < meth_min_points mt)%nat \/ (length w2 < meth_min_points mt)%nat ->
                 E = Err ValueError) /\
              (mt <> MUnknown -> (meth_min_points mt <= length w1)%nat -> (meth_min_points mt <= length w2)%nat ->
                 exists r, E = Ok r /\ rwave r = linspace mn mx num /\ rwu r = wu s1 /\ rvu r = vu s1 /\
                           length (rvalue r) = length (rwave r)))))).
Proof. unfold E. split.
  - apply spec_call_empty.
  - intros N1 N2. rewrite (spec_call_nonempty mt o s1 s2 a f N1 N2). unfold spec_call_args. fold w1 w2.
    split; [intros ->; reflexivity|]. split; [intros ->; reflexivity|].
    intros m ->. split.
    + intros e Hs. pose proof (sampling_of_err _ _ _ _ Hs) as ->. split; auto.
      destruct mt; unfold spec_op, core, common_grid; fold w1 w2; rewrite Hs; reflexivity.
    + intros dw Hs.
      assert (G : common_grid w1 w2 m =
                  if (qceil ((mx - mn) / dw) + 1 <? 0)%Z then Err ValueError else Ok (linspace mn mx (qceil ((mx - mn) / dw)))).
      { unfold common_grid. fold mn mx. rewrite Hs. reflexivity. }
      split.
      * intros Hn. assert (T : (qceil ((mx - mn) / dw) + 1 <? 0)%Z = true) by (apply Z.ltb_lt; lia).
        rewrite T in G. destruct mt; unfold spec_op, core; fold w1 w2; rewrite G; reflexivity.
      * intros Hn. assert (T : (qceil ((mx - mn) / dw) + 1 <? 0)%Z = false) by (apply Z.ltb_ge; lia).
        rewrite T in G. split; [|split].
        -- intros ->. rewrite G. reflexivity.
        -- intros Hm Hl. destruct mt; try congruence.
           ++ exfalso. simpl in Hl. destruct Hl as [Hl|Hl]; [destruct w1|destruct w2]; simpl in Hl; try congruence; lia.
           ++ rewrite G. cbn -[Nat.leb linspace spline_vals] in *.
              destruct (Nat.leb 3 (length w1)) eqn:L1; cbn -[Nat.leb linspace spline_vals]; [|reflexivity].
              destruct (Nat.leb 3 (length w2)) eqn:L2; cbn -[Nat.leb linspace spline_vals]; [|reflexivity].
              apply Nat.leb_le in L1, L2. lia.
           ++ rewrite G. cbn -[Nat.leb linspace spline_vals] in *.
              destruct (Nat.leb 4 (length w1)) eqn:L1; cbn -[Nat.leb linspace spline_vals]; [|reflexivity].
              destruct (Nat.leb 4 (length w2)) eqn:L2; cbn -[Nat.leb linspace spline_vals]; [|reflexivity].
              apply Nat.leb_le in L1, L2. lia.
        -- intros Hm L1 L2. destruct mt; try congruence.
           ++ unfold spec_op, core. fold w1 w2. rewrite G. simpl. eexists. split; [reflexivity|]. simpl.
              repeat split; auto. rewrite map2_length; rewrite !sample_on_length; auto using fillarr_length.
           ++ rewrite G. cbn -[Nat.leb linspace spline_vals] in *.
              apply Nat.leb_le in L1, L2. rewrite L1, L2. cbn -[linspace spline_vals]. eexists. split; [reflexivity|].
              cbn -[linspace spline_vals]. repeat split; auto. unfold spline_vals. apply map_length.
           ++ rewrite G. cbn -[Nat.leb linspace spline_vals] in *.
              apply Nat.leb_le in L1, L2. rewrite L1, L2. cbn -[linspace spline_vals]. eexists. split; [reflexivity|].
              cbn -[linspace spline_vals]. repeat split; auto. unfold spline_vals. apply map_length. Qed.
End Refusals.

(* ------------------------------------------------------------------ the grid does not depend on the interpolation kind *)
Lemma fillarr_nth_at f w g i : (i < length g)%nat -> nth i (fillarr f w g) 0 = fill_at f w (nth i g 0).
Proof. intros Hi. destruct f; simpl; rewrite nth_map_in with (da := 0) by exact Hi; reflexivity. Qed.

Lemma call_grid_any_method mt o s1 s2 m f r : wave s1 <> [] -> wave (conv s2 (wu s1)) <> [] ->
  spec_call mt o s1 s2 (AOk m) f = Ok r ->
  exists r', spec_call MLinear o s1 s2 (AOk m) f = Ok r' /\
    rwave r = rwave r' /\ rwu r = rwu r' /\ rvu r = rvu r' /\
    length (rvalue r) = length (rwave r) /\ length (rvalue r') = length (rwave r) /\
    forall i, (i < length (rwave r))%nat ->
      nth i (rvalue r) XUnmodelled = nth i (rvalue r') XUnmodelled \/
      (mt <> MLinear /\ nth i (rvalue r) XUnmodelled = XUnmodelled /\
       (inrange (wave s1) (nth i (rwave r) 0) = true \/ inrange (wave (conv s2 (wu s1))) (nth i (rwave r) 0) = true)).
Proof. intros N1 N2. rewrite !spec_call_nonempty by assumption. unfold spec_call_args.
  set (w1 := wave s1). set (w2 := wave (conv s2 (wu s1))).
  destruct mt.
  - intros E. exists r. split; auto. unfold spec_op, core in E. fold w1 w2 in E.
    destruct (common_grid w1 w2 m) as [g|]; simpl in E; [|discriminate]. injection E as <-. simpl.
    repeat split; auto; try (rewrite map2_length; rewrite !sample_on_length; auto using fillarr_length).
  - destruct (common_grid w1 w2 m) as [g|] eqn:G; destruct (interp_ctor MQuadratic w1) eqn:C1; destruct (interp_ctor MQuadratic w2) eqn:C2;
      cbn [rbind]; try discriminate.
    intros E. injection E as <-. unfold spec_op, core. fold w1 w2. rewrite G. simpl. eexists. split; [reflexivity|]. simpl.
    assert (LS : length (map2 (apply o) (sample_on w1 (value s1) (fillarr f w1 g) g) (sample_on w2 (value (conv s2 (wu s1))) (fillarr f w2 g) g)) = length g)
      by (rewrite map2_length; rewrite !sample_on_length; auto using fillarr_length).
    repeat split; auto; try (unfold spline_vals; apply map_length).
    intros i Hi. unfold spline_vals. rewrite nth_map_in with (da := 0) by exact Hi.
    destruct (inrange w1 (nth i g 0)) eqn:R1; simpl.
    + right. split; [discriminate|]. auto.
    + destruct (inrange w2 (nth i g 0)) eqn:R2; simpl.
      * right. split; [discriminate|]. auto.
      * left. rewrite map2_nth with (da := 0) (db := 0) by (rewrite sample_on_length; auto using fillarr_length; lia).
        unfold sample_on. rewrite !map2_nth with (da := 0) (db := 0) by (rewrite ?fillarr_length; lia).
        rewrite R1, R2, !fillarr_nth_at by exact Hi. reflexivity.
  - destruct (common_grid w1 w2 m) as [g|] eqn:G; destruct (interp_ctor MCubic w1) eqn:C1; destruct (interp_ctor MCubic w2) eqn:C2;
      cbn [rbind]; try discriminate.
    intros E. injection E as <-. unfold spec_op, core. fold w1 w2. rewrite G. simpl. eexists. split; [reflexivity|]. simpl.
    assert (LS : length (map2 (apply o) (sample_on w1 (value s1) (fillarr f w1 g) g) (sample_on w2 (value (conv s2 (wu s1))) (fillarr f w2 g) g)) = length g)
      by (rewrite map2_length; rewrite !sample_on_length; auto using fillarr_length).
    repeat split; auto; try (unfold spline_vals; apply map_length).
    intros i Hi. unfold spline_vals. rewrite nth_map_in with (da := 0) by exact Hi.
    destruct (inrange w1 (nth i g 0)) eqn:R1; simpl.
    + right. split; [discriminate|]. auto.
    + destruct (inrange w2 (nth i g 0)) eqn:R2; simpl.
      * right. split; [discriminate|]. auto.
      * left. rewrite map2_nth with (da := 0) (db := 0) by (rewrite sample_on_length; auto using fillarr_length; lia).
        unfold sample_on. rewrite !map2_nth with (da := 0) (db := 0) by (rewrite ?fillarr_length; lia).
        rewrite R1, R2, !fillarr_nth_at by exact Hi. reflexivity.
  - destruct (common_grid w1 w2 m) as [g|]; cbn [rbind interp_ctor]; discriminate. Qed.

(* ------------------------------------------------------------------ a negative numeric sampling *)
Lemma qceil_nonpos x : x <= 0 -> (qceil x <= 0)%Z.
Proof. intros H. destruct (qceil_spec x) as [C1 _]. assert (L : zq (qceil x) < 1) by (qc2q; lra).
  unfold Qclt in L. rewrite this_zq in L. change (this 1) with (inject_Z 1) in L. rewrite <- Zlt_Qlt in L. lia. Qed.
Lemma qdiv_nonpos r d : 0 <= r -> d < 0 -> r / d <= 0.
Proof. intros Hr Hd. assert (N : d <> 0) by (intros ->; apply (Qclt_not_eq _ _ Hd); reflexivity).
  assert (E : r = r / d * d) by (field; exact N). set (x := r / d) in *. clearbody x. qc2q. nra. Qed.

Lemma negative_sampling o s1 s2 d f : wf s1 -> wf s2 -> d < 0 ->
  let w1 := wave s1 in let w2 := wave (conv s2 (wu s1)) in
  let mn := qmin (wmin w1) (wmin w2) in let mx := qmax (wmax w1) (wmax w2) in
  let num := qceil ((mx - mn) / d) in
  (num <= 0)%Z /\
  ((num < -1)%Z -> spec_op o s1 s2 (SNum d) f = Err ValueError) /\
  (num = (-1)%Z -> spec_op o s1 s2 (SNum d) f = Ok (mkR [] [] (wu s1) (vu s1))) /\
  (num = 0%Z -> exists r, spec_op o s1 s2 (SNum d) f = Ok r /\ rwave r = [mn] /\ length (rvalue r) = 1%nat).
Proof. intros (I1 & _ & _) W2 Hd w1 w2 mn mx num. destruct (conv_wf s2 (wu s1) W2) as (I2 & _ & _).
  assert (Hr : 0 <= mx - mn). { pose proof (union_range w1 w2 I1 I2). fold mn mx in H. qc2q; lra. }
  assert (Z : qc_is0 d = false).
  { destruct (qc_is0 d) eqn:Q; auto. apply qc_is0_true in Q. subst d. exfalso. apply (Qclt_not_eq _ _ Hd). reflexivity. }
  split; [apply qceil_nonpos, qdiv_nonpos; auto|].
  unfold spec_op, core, common_grid. fold w1 w2 mn mx. simpl sampling_of. rewrite Z. simpl rbind. fold num.
  split; [|split].
  - intros H. assert (T : (num + 1 <? 0)%Z = true) by (apply Z.ltb_lt; lia). rewrite T. reflexivity.
  - intros E. rewrite E. reflexivity.
  - intros E. rewrite E. cbn [Z.add Z.ltb Z.compare rbind fst snd]. eexists. split; [reflexivity|].
    unfold linspace. simpl. split; [reflexivity|]. rewrite map2_length; rewrite !sample_on_length; auto using fillarr_length. Qed.

(* ------------------------------------------------------------------ the constructor *)
Lemma forallb_pos w : forallb (fun x => qltb 0 x) w = true <-> forall x, In x w -> 0 < x.
Proof. rewrite forallb_forall. split; intros H x Hx; [apply qltb_iff|apply qltb_iff]; auto. Qed.
Lemma mk_cond (w v : list Qc) : forallb (fun x => qltb 0 x) w && incrb w && Nat.eqb (length w) (length v) = true <->
  (forall x, In x w -> 0 < x) /\ incr w /\ length w = length v.
Proof. rewrite !Bool.andb_true_iff, forallb_pos, incrb_iff, Nat.eqb_eq. tauto. Qed.
Lemma mk_spectrum_spec w v u y :
  ((forall x, In x w -> 0 < x) /\ incr w /\ length w = length v -> mk_spectrum w v u y = Ok (mkS w v u y)) /\
  (~ ((forall x, In x w -> 0 < x) /\ incr w /\ length w = length v) -> mk_spectrum w v u y = Err ValueError) /\
  (forall s, mk_spectrum w v u y = Ok s -> wave s = w /\ value s = v /\ wu s = u /\ vu s = y /\
     (forall x, In x (wave s) -> 0 < x) /\ incr (wave s) /\ length (wave s) = length (value s)).
Proof. unfold mk_spectrum.
  destruct (forallb (fun x => qltb 0 x) w && incrb w && Nat.eqb (length w) (length v)) eqn:B.
  - apply mk_cond in B. split; [reflexivity|]. split; [tauto|]. intros s E. injection E as <-. simpl. tauto.
  - assert (N : ~ ((forall x, In x w -> 0 < x) /\ incr w /\ length w = length v)).
    { intros H. apply mk_cond in H. congruence. }
    split; [tauto|]. split; [reflexivity|]. discriminate. Qed.

(* ------------------------------------------------------------------ Spectrum.to on the wavelength unit *)
Lemma ufac_inv a b : ufac a b * ufac b a = 1.
Proof. rewrite ufac_trans. apply ufac_refl. Qed.
Lemma ufac_neq0 a b : ufac a b <> 0.
Proof. apply qc_pos_neq0, ufac_pos. Qed.
Lemma to_wu_compose s u v : to_wu (to_wu s u) v = to_wu s v.
Proof. destruct s as [w vals su sy]. unfold to_wu; simpl. f_equal.
  - rewrite map_map. apply map_ext. intros x. rewrite <- Qcmult_assoc, ufac_trans. reflexivity.
  - destruct sy; auto; rewrite map_map; apply map_ext; intros x; unfold Qcdiv;
      rewrite <- Qcmult_assoc, <- Qcinv_mult_distr, ufac_trans; reflexivity. Qed.
Lemma to_wu_id s : to_wu s (wu s) = s.
Proof. destruct s as [w vals su sy]. unfold to_wu; simpl. rewrite ufac_refl. f_equal.
  - rewrite <- (map_id w) at 2. apply map_ext. intros; ring.
  - destruct sy; auto; rewrite <- (map_id vals) at 2; apply map_ext; intros; field; discriminate. Qed.
Lemma to_wu_roundtrip s u : to_wu (to_wu s u) (wu s) = s.
Proof. rewrite to_wu_compose. apply to_wu_id. Qed.
Lemma to_wu_laws s u v :
  to_wu (to_wu s u) v = to_wu s v /\ to_wu s (wu s) = s /\ to_wu (to_wu s u) (wu s) = s /\ (wf s -> wf (to_wu s u)).
Proof. split; [apply to_wu_compose|]. split; [apply to_wu_id|]. split; [apply to_wu_roundtrip|apply to_wu_wf]. Qed.

Lemma method_call_ignores mt o s a f c l :
  method_call mt o s (PScalar c) a f = Ok (scalar_op o s c) /\
  method_call mt o s (PVector l) a f = vector_op o s l /\
  method_call mt o s POther a f = Err TypeError.
Proof. repeat split. Qed.

(* ------------------------------------------------------------------ Spectrum.sample with every argument form *)
Lemma sample_call_linear s pts f u : wave (conv s u) <> [] ->
  sample_call MLinear s pts (FOk f) u = Ok (map XQ (sample s pts f u)).
Proof. intros N. unfold sample_call, sample. simpl meth_min_points.
  destruct (wave (conv s u)) as [|a t] eqn:E; [congruence|]. simpl Nat.leb. rewrite map_map. f_equal.
  apply map_ext. intros x. destruct (inrange (a :: t) x); reflexivity. Qed.

Lemma out_of_range_fill w f x : incr w ->
  (x < wmin w -> inrange w x = false /\ fill_at f w x = fill_below f) /\
  (wmax w < x -> inrange w x = false /\ fill_at f w x = fill_above f).
Proof. intros Hi. pose proof (incr_wmin_le_wmax _ Hi) as Hw. split; intros Hx.
  - split.
    + destruct (inrange w x) eqn:R; auto. apply inrange_true in R. destruct R. exfalso. qc2q; lra.
    + unfold fill_at. destruct f; simpl; auto. destruct (qltb x (wmin w)) eqn:Q; auto.
      apply qltb_false in Q. exfalso. qc2q; lra.
  - split.
    + destruct (inrange w x) eqn:R; auto. apply inrange_true in R. destruct R. exfalso. qc2q; lra.
    + unfold fill_at. destruct f; simpl; auto. destruct (qltb x (wmin w)) eqn:Q; auto.
      apply qltb_iff in Q. exfalso. qc2q; lra. Qed.

Lemma sample_call_table mt s pts fa u :
  let s' := conv s u in
  (mt = MUnknown -> sample_call mt s pts fa u = Err NotImplementedErr) /\
  (mt <> MUnknown -> (length (wave s') < meth_min_points mt)%nat \/ fa = FBadShape ->
     sample_call mt s pts fa u = Err ValueError) /\
  (mt <> MUnknown -> (meth_min_points mt <= length (wave s'))%nat -> forall f, fa = FOk f ->
     exists vals, sample_call mt s pts fa u = Ok vals /\ length vals = length pts /\
       forall i, (i < length pts)%nat -> let x := nth i pts 0 in
         (x < wmin (wave s') -> incr (wave s') -> nth i vals XUnmodelled = XQ (fill_below f)) /\
         (wmax (wave s') < x -> incr (wave s') -> nth i vals XUnmodelled = XQ (fill_above f)) /\
         (inrange (wave s') x = true -> mt = MLinear -> nth i vals XUnmodelled = XQ (interp (wave s') (value s') x)) /\
         (inrange (wave s') x = true -> mt <> MLinear -> nth i vals XUnmodelled = XUnmodelled)).
Proof. intros s'. unfold sample_call. fold s'. split; [intros ->; reflexivity|]. split.
  - intros Hm [Hl| ->]; destruct mt; try congruence;
      destruct (Nat.leb _ (length (wave s'))) eqn:L; try reflexivity;
      apply Nat.leb_le in L; simpl in *; lia.
  - intros Hm Hl f ->. apply Nat.leb_le in Hl.
    assert (G : forall g : Qc -> xval, exists vals, Ok (map g pts) = Ok vals /\ length vals = length pts /\
               forall i, (i < length pts)%nat -> nth i vals XUnmodelled = g (nth i pts 0)).
    { intros g. exists (map g pts). split; auto. split; [apply map_length|]. intros i Hi. apply nth_map_in, Hi. }
    destruct mt; try congruence; rewrite Hl;
      match goal with |- exists vals, Ok (map ?g pts) = _ /\ _ => destruct (G g) as (vals & E & L & N) end;
      exists vals; (split; [exact E|]); (split; [exact L|]); intros i Hi; cbv zeta; rewrite (N i Hi); set (x := nth i pts 0);
      (split; [|split; [|split]]).
    all: try (intros Hx Hi'; destruct (out_of_range_fill (wave s') f x Hi') as [A B];
              first [destruct (A Hx) as [R ->] | destruct (B Hx) as [R ->]]; rewrite R; reflexivity).
    all: try (intros R _; rewrite R; reflexivity).
    all: try (intros R Hc; congruence). Qed.
