(* The centred, orthonormal FFT is the unitary matrix-triple-product DFT at alpha = 1/N (both parities);
   pad keeps the floor(n/2) origin; the FFT propagator computes the unitary Fraunhofer sum of the
   input plane at alpha = 1/N; the scratch buffer is transparent; tilted wavefronts are refused (C09). *)
From LV Require Import Model.Fft Proofs.ArrP Proofs.ExtentP Proofs.FieldP Proofs.DftP.

(* ------------------------------------------------------------------ rationals *)
Lemma zq_mul a b : zq (a * b) = (zq a * zq b)%Qc.
Proof. unfold zq, Qcmult. apply Qc_is_canon. cbn [this Q2Qc]. rewrite !Qred_correct.
  rewrite inject_Z_mult. reflexivity. Qed.
Lemma zq_eq0 n : zq n = 0%Qc -> n = 0.
Proof. intros H. apply (f_equal this) in H. unfold zq in H. cbn [this Q2Qc] in H.
  assert (E : Qeq (Qred (inject_Z n)) (Qred 0)) by (rewrite H; reflexivity).
  rewrite !Qred_correct in E. unfold Qeq, inject_Z in E. cbn in E. lia. Qed.
Lemma zq_neq0 n : n <> 0 -> zq n <> 0%Qc.
Proof. intros H E. apply H. now apply zq_eq0. Qed.

(* whole turns can be split off a phase *)
Lemma turn_split b m n : n <> 0 -> turn (b + n * m) n = (turn b n + zq m)%Qc.
Proof. intros H. unfold turn. rewrite zq_add, zq_mul. field. now apply zq_neq0. Qed.
Lemma turn_as_product p u n : n <> 0 -> turn (p * u) n = (/ zq n * zq p * zq u)%Qc.
Proof. intros H. unfold turn. rewrite zq_mul. field. now apply zq_neq0. Qed.

Lemma mul_mod_congr a a' k k' n : n <> 0 -> a mod n = a' mod n -> k mod n = k' mod n ->
  (a * k) mod n = (a' * k') mod n.
Proof. intros Hn H1 H2. rewrite (Z.mul_mod a k), (Z.mul_mod a' k') by assumption. now rewrite H1, H2. Qed.

Section PadP.
Variable S : Scalar.
(* ------------------------------------------------------------------ lentil.util.pad keeps the floor(n/2) origin *)
Lemma pad_axis_spec n N i : 0 < n -> 0 < N -> 0 <= i < N ->
  let p := pad_axis n N in
  ((t_lo p <=? i) && (i <? t_hi p)) = inr n (i - N / 2 + n / 2)
  /\ (t_lo p <= i < t_hi p -> i - t_lo p + s_lo p = i - N / 2 + n / 2).
Proof.
  intros Hn HN Hi. unfold pad_axis, inr.
  destruct (N - n <=? 0) eqn:E; cbn [s_lo s_hi t_lo t_hi]; split; lia.
Qed.

(* growing or cropping, any parities: output sample i, j is the sample of the zero-extended input that
   has the same coordinates relative to the index floor(n/2) *)
Theorem pad_origin (a : arr S) Nr Nc i j : 0 < nr a -> 0 < nc a -> 0 <= i < Nr -> 0 <= j < Nc ->
  get (pad2 a Nr Nc) i j = embedA S a 0 0 (i - Nr / 2) (j - Nc / 2).
Proof.
  intros Ha1 Ha2 Hi Hj. unfold pad2. rewrite force_get by (cbn [nr nc]; lia). cbn [get].
  destruct (pad_axis_spec (nr a) Nr i Ha1 ltac:(lia) Hi) as [Ar Br].
  destruct (pad_axis_spec (nc a) Nc j Ha2 ltac:(lia) Hj) as [Ac Bc].
  set (pr := pad_axis (nr a) Nr) in *. set (pc := pad_axis (nc a) Nc) in *. clearbody pr pc.
  unfold embedA.
  replace (i - Nr / 2 - 0 + nr a / 2) with (i - Nr / 2 + nr a / 2) by ring.
  replace (j - Nc / 2 - 0 + nc a / 2) with (j - Nc / 2 + nc a / 2) by ring.
  rewrite <- Ar, <- Ac.
  replace ((t_lo pr <=? i) && (i <? t_hi pr) && (t_lo pc <=? j) && (j <? t_hi pc))
    with ((t_lo pr <=? i) && (i <? t_hi pr) && ((t_lo pc <=? j) && (j <? t_hi pc))) by (now rewrite !andb_assoc).
  destruct ((t_lo pr <=? i) && (i <? t_hi pr)) eqn:Er; cbn [andb]; [|reflexivity].
  destruct ((t_lo pc <=? j) && (j <? t_hi pc)) eqn:Ec; [|reflexivity].
  rewrite Br, Bc by lia. reflexivity.
Qed.
Lemma pad2_shape (a : arr S) Nr Nc : nr (pad2 a Nr Nc) = Nr /\ nc (pad2 a Nr Nc) = Nc.
Proof. split; reflexivity. Qed.
End PadP.

(* the kernel has period one turn (a definition, so that [lia] does not drag the hypothesis into unrelated proofs) *)
Definition periodic (S : Scalar) : Prop := forall z : Z, @ke S (zq z) = k1.

Section FftP.
Variable S : Scalar.
Hypothesis Sring : is_ring S.
Hypothesis Skernel : kernel_laws S.
Hypothesis Speriod : periodic S.
Variable sq : Qc -> S.
Add Ring Sr : Sring.

(* ------------------------------------------------------------------ periodicity of the kernel *)
Lemma ke_turn_congr a b n : n <> 0 -> a mod n = b mod n -> @ke S (turn a n) = ke (turn b n).
Proof.
  intros Hn H.
  assert (E : forall c, @ke S (turn c n) = ke (turn (c mod n) n)).
  { intros c. rewrite (Z.div_mod c n Hn) at 1. rewrite Z.add_comm, turn_split by assumption.
    rewrite (ke_add S Skernel), Speriod. ring. }
  rewrite (E a), (E b), H. reflexivity.
Qed.
Lemma ke_turn_congr_l a b n (T : Qc) : n <> 0 -> a mod n = b mod n ->
  @ke S (turn a n + T)%Qc = ke (turn b n + T)%Qc.
Proof. intros Hn H. rewrite !(ke_add S Skernel), (ke_turn_congr a b n Hn H). reflexivity. Qed.
Lemma ke_turn_congr_r a b n (T : Qc) : n <> 0 -> a mod n = b mod n ->
  @ke S (T + turn a n)%Qc = ke (T + turn b n)%Qc.
Proof. intros Hn H. rewrite !(ke_add S Skernel), (ke_turn_congr a b n Hn H). reflexivity. Qed.

(* ------------------------------------------------------------------ a sum over a rotated index *)
Lemma sumZ_rot n h (g : Z -> S) : 0 <= h < n ->
  sumZ n (fun a => g ((a + h) mod n)) = sumZ n g.
Proof.
  intros H.
  assert (L : sumZ (n - h + h) (fun a => g ((a + h) mod n))
              = (sumZ (n - h) (fun i => g (h + i)%Z) + sumZ h g)%K).
  { rewrite (sumZ_split S Sring) by lia. f_equal.
    - apply sumZ_ext. intros i Hi. f_equal. rewrite Z.mod_small by lia. ring.
    - apply sumZ_ext. intros i Hi. f_equal. replace (n - h + i + h) with (i + 1 * n) by ring.
      rewrite Z_mod_plus_full. apply Z.mod_small. lia. }
  assert (R : sumZ (h + (n - h)) g = (sumZ h g + sumZ (n - h) (fun i => g (h + i)%Z))%K).
  { rewrite (sumZ_split S Sring) by lia. reflexivity. }
  replace (n - h + h) with n in L by ring. replace (h + (n - h)) with n in R by ring.
  rewrite L, R. ring.
Qed.

(* ------------------------------------------------------------------ np.fft.fft2: row-column = double sum *)
Theorem fft2_plain_defining_sum (x : arr S) k l : 0 <= k < nr x -> 0 <= l < nc x ->
  get (fft2_plain x) k l
  = sumZ (nr x) (fun a => sumZ (nc x) (fun b =>
      (get x a b * ke (turn (a * k) (nr x) + turn (b * l) (nc x))%Qc)%K)).
Proof.
  intros Hk Hl. unfold fft2_plain.
  rewrite force_get by (cbn [nr nc]; lia). cbn [get].
  transitivity (sumZ (nc x) (fun b => sumZ (nr x) (fun a =>
     (get x a b * ke (turn (a * k) (nr x) + turn (b * l) (nc x))%Qc)%K))).
  - apply sumZ_ext. intros b Hb. rewrite force_get by (cbn [nr nc]; lia). cbn [get].
    rewrite <- (sumZ_scale_r S Sring). apply sumZ_ext. intros a Ha.
    rewrite (ke_add S Skernel). ring.
  - apply sumZ_exchange. exact Sring.
Qed.
Lemma fft2_plain_shape (x : arr S) : nr (fft2_plain x) = nr x /\ nc (fft2_plain x) = nc x.
Proof. split; reflexivity. Qed.

(* ------------------------------------------------------------------ _fft2 = fftshift(fft2(ifftshift x), ortho) *)
Lemma fft2c_shape (x : arr S) : nr (fft2c sq x) = nr x /\ nc (fft2c sq x) = nc x.
Proof. split; reflexivity. Qed.

Theorem fft2c_is_fourier_sum (x : arr S) u v : 0 <= u < nr x -> 0 <= v < nc x ->
  get (fft2c sq x) u v
  = (fourier_sum x (/ zq (nr x))%Qc (/ zq (nc x))%Qc 0 0 (zq (u - nr x / 2)) (zq (v - nc x / 2))
     * ortho_scale sq (nr x) (nc x))%K.
Proof.
  intros Hu Hv. set (Nr := nr x). set (Nc := nc x).
  assert (HNr : Nr <> 0) by (subst Nr; lia). assert (HNc : Nc <> 0) by (subst Nc; lia).
  set (hr := Nr / 2). set (hc := Nc / 2).
  assert (Hhr : 0 <= hr < Nr) by (subst hr Nr; lia). assert (Hhc : 0 <= hc < Nc) by (subst hc Nc; lia).
  unfold fft2c. rewrite force_get by (cbn [nr nc fftshift fft2_ortho amap fft2_plain force of_list ifftshift]; lia).
  unfold fftshift. cbn [get]. unfold fft2_ortho. cbn [amap get nr nc].
  change (nr (fft2_plain (force (ifftshift x)))) with Nr. change (nc (fft2_plain (force (ifftshift x)))) with Nc.
  change (nr (force (ifftshift x))) with Nr. change (nc (force (ifftshift x))) with Nc.
  fold hr hc. f_equal.
  set (k := (u - hr) mod Nr). set (l := (v - hc) mod Nc).
  assert (Hk : 0 <= k < Nr) by (subst k; apply Z.mod_pos_bound; lia).
  assert (Hl : 0 <= l < Nc) by (subst l; apply Z.mod_pos_bound; lia).
  rewrite fft2_plain_defining_sum by (cbn [nr nc force of_list ifftshift]; assumption).
  cbn [nr nc force of_list ifftshift]. fold Nr Nc.
  unfold fourier_sum. fold Nr Nc hr hc.
  (* make the summand a function of the rotated indices, then rotate both sums *)
  pose (G := fun p q : Z =>
      (get x p q * ke (turn ((p - hr) * (u - hr)) Nr + turn ((q - hc) * (v - hc)) Nc)%Qc)%K).
  transitivity (sumZ Nr (fun a => sumZ Nc (fun b => G ((a + hr) mod Nr) ((b + hc) mod Nc)))).
  - apply sumZ_ext. intros a Ha. apply sumZ_ext. intros b Hb. unfold G.
    rewrite force_get by (cbn [nr nc ifftshift]; lia). cbn [ifftshift get]. fold Nr Nc hr hc. f_equal.
    assert (E1 : (a * k) mod Nr = (((a + hr) mod Nr - hr) * (u - hr)) mod Nr).
    { apply mul_mod_congr; [assumption| |subst k; apply Z.mod_mod; assumption].
      rewrite Zminus_mod_idemp_l. f_equal. ring. }
    assert (E2 : (b * l) mod Nc = (((b + hc) mod Nc - hc) * (v - hc)) mod Nc).
    { apply mul_mod_congr; [assumption| |subst l; apply Z.mod_mod; assumption].
      rewrite Zminus_mod_idemp_l. f_equal. ring. }
    rewrite (ke_turn_congr_l _ _ Nr _ HNr E1). apply ke_turn_congr_r; assumption.
  - transitivity (sumZ Nr (fun a => sumZ Nc (fun q => G ((a + hr) mod Nr) q))).
    + apply sumZ_ext. intros a Ha. exact (sumZ_rot Nc hc (fun q => G ((a + hr) mod Nr) q) Hhc).
    + transitivity (sumZ Nr (fun p => sumZ Nc (fun q => G p q))).
      * exact (sumZ_rot Nr hr (fun p => sumZ Nc (fun q => G p q)) Hhr).
      * apply sumZ_ext; intros p Hp. apply sumZ_ext; intros q Hq. unfold G. f_equal. f_equal.
        rewrite !turn_as_product by assumption. rewrite !Z.add_0_r. reflexivity.
Qed.

(* norm='ortho' is dft2's unitary factor at alpha = (1/N_r, 1/N_c) *)
Lemma qabs_inv_pos M : 0 < M -> qabs (/ zq M)%Qc = (/ zq M)%Qc.
Proof.
  intros H. unfold qabs. destruct (Qle_bool (this (/ zq M)%Qc) 0) eqn:E; [exfalso|reflexivity].
  apply Qle_bool_iff in E. unfold zq in E. cbn [this Qcinv Q2Qc] in E. rewrite !Qred_correct in E.
  destruct M as [|p|p]; try lia. unfold Qle in E. cbn in E. lia.
Qed.
Lemma ortho_is_unitary_scale Nr Nc : 0 < Nr -> 0 < Nc ->
  ortho_scale sq Nr Nc = unitary_scale sq true (/ zq Nr)%Qc (/ zq Nc)%Qc.
Proof.
  intros Hr Hc. unfold ortho_scale, unitary_scale. f_equal.
  replace (/ zq Nr * / zq Nc)%Qc with (/ zq (Nr * Nc))%Qc.
  - symmetry. apply qabs_inv_pos. nia.
  - rewrite zq_mul. field. split; apply zq_neq0; lia.
Qed.

(* T09a in the design's form: the centred orthonormal FFT is lentil.fourier.dft2 at alpha = 1/N, shape N, unitary *)
Theorem fft2_centered_is_dft2 (x : arr S) u v : 0 <= u < nr x -> 0 <= v < nc x ->
  get (fft2c sq x) u v
  = get (dft2 sq x (/ zq (nr x))%Qc (/ zq (nc x))%Qc (nr x) (nc x) 0 0 0 0 true) u v.
Proof.
  intros Hu Hv. rewrite fft2c_is_fourier_sum by assumption.
  rewrite (dft2_defining_sum S Sring Skernel) by assumption.
  rewrite ortho_is_unitary_scale by lia.
  replace (zq (u - nr x / 2) - 0)%Qc with (zq (u - nr x / 2)) by ring.
  replace (zq (v - nc x / 2) - 0)%Qc with (zq (v - nc x / 2)) by ring. reflexivity.
Qed.

(* ------------------------------------------------------------------ an array placed on a larger grid *)
(* a grid that shows the zero-extended array [a] (centre offset (orr, occ)) and contains all of it has the
   Fourier sum of [a] taken with that offset: the origin convention of C01 *)
Lemma fourier_sum_embedded (G a : arr S) orr occ ar ac U V :
  0 < nr a -> 0 < nc a ->
  0 <= nr G / 2 - nr a / 2 + orr -> nr G / 2 - nr a / 2 + orr + nr a <= nr G ->
  0 <= nc G / 2 - nc a / 2 + occ -> nc G / 2 - nc a / 2 + occ + nc a <= nc G ->
  (forall i j, 0 <= i < nr G -> 0 <= j < nc G -> get G i j = embedA S a orr occ (i - nr G / 2) (j - nc G / 2)) ->
  fourier_sum G ar ac 0 0 U V = fourier_sum a ar ac orr occ U V.
Proof.
  intros Ha1 Ha2 H1 H2 H3 H4 HG.
  set (r0 := nr G / 2 - nr a / 2 + orr) in *. set (c0 := nc G / 2 - nc a / 2 + occ) in *.
  rewrite <- (fourier_sum_subarray S Sring sq G r0 (r0 + nr a) c0 (c0 + nc a) ar ac 0 0 U V); try lia.
  - replace (0 + slice_off r0 (r0 + nr a) (nr G)) with orr by (unfold slice_off; subst r0; lia).
    replace (0 + slice_off c0 (c0 + nc a) (nc G)) with occ by (unfold slice_off; subst c0; lia).
    apply fourier_sum_ext; cbn [aslice nr nc get]; try lia.
    intros x y Hx Hy. rewrite HG by lia. unfold embedA, inr.
    replace (x + r0 - nr G / 2 - orr + nr a / 2) with x by (subst r0; ring).
    replace (y + c0 - nc G / 2 - occ + nc a / 2) with y by (subst c0; ring).
    replace ((0 <=? x) && (x <? nr a) && ((0 <=? y) && (y <? nc a))) with true by lia. reflexivity.
  - intros x y Hx Hy Hout. rewrite HG by lia. unfold embedA, inr.
    destr_if; [exfalso; subst r0 c0; lia|reflexivity].
Qed.

(* T09b: zero-padding with lentil.pad does not move the origin: same transform, offset 0 *)
Theorem pad_preserves_transform (a : arr S) Nr Nc ar ac U V :
  0 < nr a -> 0 < nc a -> nr a <= Nr -> nc a <= Nc ->
  fourier_sum (pad2 a Nr Nc) ar ac 0 0 U V = fourier_sum a ar ac 0 0 U V.
Proof.
  intros Ha1 Ha2 H1 H2. apply fourier_sum_embedded; try assumption.
  1-4: change (nr (pad2 a Nr Nc)) with Nr; change (nc (pad2 a Nr Nc)) with Nc; lia.
  change (nr (pad2 a Nr Nc)) with Nr. change (nc (pad2 a Nr Nc)) with Nc.
  intros i j Hi Hj. now apply pad_origin.
Qed.

(* ------------------------------------------------------------------ rendering fields into an array *)
Definition fgood (f : field S) : Prop := match fd f with D0 _ => False | D2 d => 0 < nr d /\ 0 < nc d end.
Definition esum (fs : list (field S)) (r c : Z) (a : S) : S := fold_left (fun acc f => (acc + embed f r c)%K) fs a.
Definition rstep (acc : result (arr S)) (f : field S) : result (arr S) :=
  rbind acc (fun o => rbind (insert (fun x => x) f o k1) (fun o' => Ok (force o'))).
Lemma render_unfold fs n m : render fs n m = fold_left rstep fs (Ok (azeros n m)).
Proof. reflexivity. Qed.
Lemma embed_sum_esum fs r c : embed_sum fs r c = esum fs r c k0. Proof. reflexivity. Qed.

Lemma rfold_spec (fs : list (field S)) : forall out : arr S,
  (forall f, In f fs -> fgood f) -> 0 < nr out -> 0 < nc out ->
  exists o, fold_left rstep fs (Ok out) = Ok o /\ nr o = nr out /\ nc o = nc out /\
  forall i j, 0 <= i < nr out -> 0 <= j < nc out ->
    get o i j = esum fs (i - nr out / 2) (j - nc out / 2) (get out i j).
Proof.
  induction fs as [|f fs IH]; intros out Hg H1 H2.
  - exists out. cbn. repeat split; reflexivity.
  - assert (Gf : fgood f) by (apply Hg; now left). unfold fgood in Gf.
    destruct (fd f) as [v|d] eqn:Ed; [contradiction|]. destruct Gf as [Gd1 Gd2].
    destruct (insert_spec S Sring (fun x => x) f d out k1 Ed Gd1 Gd2 H1 H2 eq_refl) as (o1 & E1 & S1 & S2 & V1).
    cbn [fold_left]. unfold rstep at 2. cbn [rbind]. rewrite E1. cbn [rbind].
    destruct (IH (force o1)) as (o & E & T1 & T2 & V).
    + intros g Hin. apply Hg. now right.
    + rewrite force_nr. lia.
    + rewrite force_nc. lia.
    + exists o. rewrite force_nr, force_nc in *. repeat split; try congruence.
      intros i j Hi Hj. rewrite S1, S2 in V. rewrite V by lia. rewrite force_get by lia. rewrite V1 by lia.
      unfold esum. cbn [fold_left]. f_equal. ring.
Qed.

Theorem render_spec (fs : list (field S)) n m : (forall f, In f fs -> fgood f) -> 0 < n -> 0 < m ->
  exists o, render fs n m = Ok o /\ nr o = n /\ nc o = m /\
  forall i j, 0 <= i < n -> 0 <= j < m -> get o i j = embed_sum fs (i - n / 2) (j - m / 2).
Proof.
  intros Hg Hn Hm. rewrite render_unfold.
  destruct (rfold_spec fs (azeros n m) Hg Hn Hm) as (o & E & S1 & S2 & V).
  exists o. split; [exact E|split; [exact S1|split; [exact S2|]]]. cbn [azeros nr nc get] in V.
  intros i j Hi Hj. now rewrite V.
Qed.

(* ------------------------------------------------------------------ the scratch buffer *)
Lemma scratch_fold_spec N0 N1 (fs : list (field S)) : forall b : arr S,
  (forall f, In f fs -> fgood f) -> 0 < N0 <= nr b -> 0 < N1 <= nc b ->
  exists b', fold_left (scratch_step N0 N1) fs (Ok b) = Ok b' /\ nr b' = nr b /\ nc b' = nc b /\
  forall i j, 0 <= i < N0 -> 0 <= j < N1 -> get b' i j = esum fs (i - N0 / 2) (j - N1 / 2) (get b i j).
Proof.
  induction fs as [|f fs IH]; intros b Hg H1 H2.
  - exists b. cbn. repeat split; reflexivity.
  - assert (Gf : fgood f) by (apply Hg; now left). unfold fgood in Gf.
    destruct (fd f) as [v|d] eqn:Ed; [contradiction|]. destruct Gf as [Gd1 Gd2].
    set (view := aslice b 0 N0 0 N1).
    assert (Hv1 : nr view = N0) by (cbn; lia). assert (Hv2 : nc view = N1) by (cbn; lia).
    destruct (insert_spec S Sring (fun x => x) f d view k1 Ed Gd1 Gd2 ltac:(lia) ltac:(lia) eq_refl)
      as (o1 & E1 & S1 & S2 & V1).
    cbn [fold_left]. unfold scratch_step at 2. cbn [rbind]. fold view. rewrite E1. cbn [rbind].
    destruct (IH (force (assign_region b N0 N1 o1))) as (b' & E & T1 & T2 & V).
    + intros g Hin. apply Hg. now right.
    + rewrite force_nr. cbn [assign_region nr]. lia.
    + rewrite force_nc. cbn [assign_region nc]. lia.
    + exists b'. rewrite force_nr, force_nc in *. cbn [assign_region nr nc] in *. repeat split; try assumption.
      intros i j Hi Hj. rewrite V by lia. rewrite force_get by (cbn [assign_region nr nc]; lia).
      cbn [assign_region get]. replace ((0 <=? i) && (i <? N0) && (0 <=? j) && (j <? N1)) with true by lia.
      rewrite V1 by lia. rewrite Hv1, Hv2. subst view. cbn [aslice get].
      rewrite !Z.add_0_r. unfold esum. cbn [fold_left]. f_equal. ring.
Qed.

Theorem scratch_fill_spec N0 N1 (fs : list (field S)) (buf : arr S) :
  (forall f, In f fs -> fgood f) -> 0 < N0 <= nr buf -> 0 < N1 <= nc buf ->
  exists b', scratch_fill fs N0 N1 buf = Ok b' /\ nr b' = nr buf /\ nc b' = nc buf /\
  forall i j, 0 <= i < N0 -> 0 <= j < N1 -> get b' i j = embed_sum fs (i - N0 / 2) (j - N1 / 2).
Proof.
  intros Hg H1 H2. unfold scratch_fill.
  destruct (scratch_fold_spec N0 N1 fs (assign_region buf N0 N1 (azeros N0 N1)) Hg H1 H2) as (b' & E & S1 & S2 & V).
  exists b'. split; [exact E|split; [exact S1|split; [exact S2|]]].
  intros i j Hi Hj. rewrite V by assumption.
  cbn [assign_region get azeros]. replace ((0 <=? i) && (i <? N0) && (0 <=? j) && (j <? N1)) with true by lia.
  reflexivity.
Qed.

(* ------------------------------------------------------------------ the grid the FFT is applied to *)
(* the input plane (sum of the zero-extended fields) seen through the centred N0 x N1 window *)
Definition grid_of (fs : list (field S)) (N0 N1 : Z) : arr S :=
  mkArr N0 N1 (fun a b => embed_sum fs (a - N0 / 2) (b - N1 / 2)).
(* every field lies inside the wavefront's own shape (true of every product Wavefront * Plane) *)
Definition inside_shape (w : wavefront S) : Prop :=
  forall f r c, In f (wdata w) ->
    inr (fst (wshape w)) (r + fst (wshape w) / 2) && inr (snd (wshape w)) (c + snd (wshape w) / 2) = false ->
    embed f r c = k0.
Definition scratch_ok (N0 N1 : Z) (w : wavefront S) (scratch : option (arr S)) : Prop :=
  match scratch with
  | Some buf => N0 <= nr buf /\ N1 <= nc buf
  | None => 0 < fst (wshape w) /\ 0 < snd (wshape w) /\ inside_shape w
  end.

Lemma fft2c_ext (x y : arr S) u v : nr x = nr y -> nc x = nc y ->
  (forall i j, 0 <= i < nr x -> 0 <= j < nc x -> get x i j = get y i j) ->
  0 <= u < nr x -> 0 <= v < nc x -> get (fft2c sq x) u v = get (fft2c sq y) u v.
Proof.
  intros E1 E2 H Hu Hv. rewrite !fft2c_is_fourier_sum by lia. rewrite <- E1, <- E2. f_equal.
  apply fourier_sum_ext; assumption.
Qed.

Lemma fft_field_spec N0 N1 (w : wavefront S) scratch :
  0 < N0 -> 0 < N1 -> (forall f, In f (wdata w) -> fgood f) -> scratch_ok N0 N1 w scratch ->
  exists F sc, fft_field sq N0 N1 w scratch = Ok (F, sc) /\ nr F = N0 /\ nc F = N1 /\
  forall u v, 0 <= u < N0 -> 0 <= v < N1 ->
    get F u v = (fourier_sum (grid_of (wdata w) N0 N1) (/ zq N0)%Qc (/ zq N1)%Qc 0 0
                             (zq (u - N0 / 2)) (zq (v - N1 / 2)) * ortho_scale sq N0 N1)%K.
Proof.
  intros H0 H1 Hg Hs. unfold fft_field. destruct scratch as [buf|]; cbn [scratch_ok] in Hs.
  - destruct Hs as [B0 B1]. replace (negb ((N0 <=? nr buf) && (N1 <=? nc buf))) with false by lia.
    destruct (scratch_fill_spec N0 N1 (wdata w) buf Hg ltac:(lia) ltac:(lia)) as (b & E & S1 & S2 & V).
    rewrite E. cbn [rbind]. eexists; eexists. split; [reflexivity|].
    split; [cbn; lia|]. split; [cbn; lia|]. intros u v Hu Hv.
    rewrite (fft2c_ext (aslice b 0 N0 0 N1) (grid_of (wdata w) N0 N1)); cbn [aslice grid_of nr nc get]; try lia.
    + rewrite fft2c_is_fourier_sum by (cbn [grid_of nr nc]; lia). reflexivity.
    + intros i j Hi Hj. rewrite !Z.add_0_r. apply V; lia.
  - destruct Hs as (W0 & W1 & Hin).
    destruct (render_spec (wdata w) _ _ Hg W0 W1) as (R & E & S1 & S2 & V).
    rewrite E. cbn [rbind]. eexists; eexists. split; [reflexivity|].
    split; [reflexivity|]. split; [reflexivity|]. intros u v Hu Hv.
    rewrite (fft2c_ext (pad2 R N0 N1) (grid_of (wdata w) N0 N1)); try reflexivity.
    + rewrite fft2c_is_fourier_sum by (cbn [grid_of nr nc]; lia). reflexivity.
    + change (nr (pad2 R N0 N1)) with N0. change (nc (pad2 R N0 N1)) with N1.
      intros i j Hi Hj. rewrite pad_origin by lia. cbn [grid_of get]. unfold embedA. rewrite S1, S2.
      replace (i - N0 / 2 - 0 + fst (wshape w) / 2) with (i - N0 / 2 + fst (wshape w) / 2) by ring.
      replace (j - N1 / 2 - 0 + snd (wshape w) / 2) with (j - N1 / 2 + snd (wshape w) / 2) by ring.
      destruct (inr (fst (wshape w)) (i - N0 / 2 + fst (wshape w) / 2) &&
                inr (snd (wshape w)) (j - N1 / 2 + snd (wshape w) / 2)) eqn:Ew.
      * unfold inr in Ew. rewrite V by lia. f_equal; ring.
      * rewrite embed_sum_esum. unfold esum. rewrite (embed_sum_zero S Sring); [reflexivity|].
        intros f Hf. apply Hin; assumption.
    + exact Hu. + exact Hv.
Qed.

(* ------------------------------------------------------------------ propagate_fft *)
Definition accepted_shape (N0 N1 : Z) (shape : option (Z * Z)) (os : Z) : Prop :=
  match shape with
  | None => True
  | Some s => 0 < fst s /\ 0 < snd s /\ fst s * os <= N0 /\ snd s * os <= N1
  end.
Definition shape_out (N0 N1 : Z) (shape : option (Z * Z)) (os : Z) : Z * Z :=
  match shape with None => (N0, N1) | Some s => (fst s * os, snd s * os) end.

(* T09d: every output sample is the unitary Fraunhofer sum, at alpha = 1/N, of the input plane on the grid,
   evaluated on the centred output window *)
Theorem propagate_fft_samples N0 N1 (w : wavefront S) du shape os scratch pt :
  0 < N0 -> 0 < N1 -> 0 < os -> has_tilt w = false -> propagate_ptype (wpt w) = Ok pt ->
  (forall f, In f (wdata w) -> fgood f) -> accepted_shape N0 N1 shape os -> scratch_ok N0 N1 w scratch ->
  exists out sc, propagate_fft_N sq N0 N1 w du shape os scratch = Ok (out, sc) /\
    wshape out = shape_out N0 N1 shape os /\
    wlam out = prop_wavelength N0 N1 (wpix w) du (wz w) os /\ wpt out = pt /\ wz out = wz w /\
    exists o, wfield out = Ok o /\ nr o = fst (shape_out N0 N1 shape os) /\ nc o = snd (shape_out N0 N1 shape os) /\
    forall i j, 0 <= i < nr o -> 0 <= j < nc o ->
      get o i j = (fourier_sum (grid_of (wdata w) N0 N1) (/ zq N0)%Qc (/ zq N1)%Qc 0 0
                               (zq (i - nr o / 2)) (zq (j - nc o / 2)) * ortho_scale sq N0 N1)%K.
Proof.
  intros H0 H1 Hos Ht Hpt Hg Hsh Hsc. unfold propagate_fft_N. rewrite Ht, Hpt. cbn [rbind].
  assert (Eso : out_shape N0 N1 shape os = Ok (shape_out N0 N1 shape os)).
  { unfold out_shape, shape_out. destruct shape as [s|]; [|reflexivity]. cbn [accepted_shape] in Hsh.
    replace ((N0 <? fst s * os) || (N1 <? snd s * os)) with false by lia. reflexivity. }
  assert (Hso : 0 < fst (shape_out N0 N1 shape os) <= N0 /\ 0 < snd (shape_out N0 N1 shape os) <= N1).
  { unfold shape_out. destruct shape as [s|]; cbn [fst snd accepted_shape] in *; nia. }
  rewrite Eso. cbn [rbind]. set (so := shape_out N0 N1 shape os) in *. clearbody so. destruct so as [so0 so1].
  cbn [fst snd] in *.
  destruct (fft_field_spec N0 N1 w scratch H0 H1 Hg Hsc) as (F & sc & E & S1 & S2 & V).
  rewrite E. cbn [rbind fst snd]. eexists; eexists. split; [reflexivity|]. cbn [wshape wlam wpt wz].
  do 4 (split; [reflexivity|]). unfold wfield. cbn [wdata wshape fst snd].
  destruct (render_spec [mkField (D2 (pad2 F so0 so1)) 0 0 []] so0 so1) as (o & Eo & T1 & T2 & W); try lia.
  { intros f [<-|[]]. unfold fgood. cbn [fd]. change (nr (pad2 F so0 so1)) with so0. change (nc (pad2 F so0 so1)) with so1. lia. }
  exists o. split; [exact Eo|]. split; [exact T1|]. split; [exact T2|]. rewrite T1, T2.
  intros i j Hi Hj. rewrite W by assumption. rewrite embed_sum_esum. unfold esum. cbn [fold_left].
  (* the stored field is the crop of the grid to the output shape: same samples, same origin *)
  rewrite embed_D2. unfold embedA at 1. change (nr (pad2 F so0 so1)) with so0. change (nc (pad2 F so0 so1)) with so1.
  replace (i - so0 / 2 - 0 + so0 / 2) with i by ring. replace (j - so1 / 2 - 0 + so1 / 2) with j by ring.
  replace (inr so0 i && inr so1 j) with true by (unfold inr; lia).
  rewrite pad_origin by lia.
  unfold embedA, inr. rewrite S1, S2.
  replace ((0 <=? i - so0 / 2 - 0 + N0 / 2) && (i - so0 / 2 - 0 + N0 / 2 <? N0) &&
           ((0 <=? j - so1 / 2 - 0 + N1 / 2) && (j - so1 / 2 - 0 + N1 / 2 <? N1))) with true by lia.
  rewrite V by lia.
  replace (i - so0 / 2 - 0 + N0 / 2 - N0 / 2) with (i - so0 / 2) by ring.
  replace (j - so1 / 2 - 0 + N1 / 2 - N1 / 2) with (j - so1 / 2) by ring. ring.
Qed.

(* ------------------------------------------------------------------ the grid transform is the sum of the field transforms *)
(* the Fourier sum of one field, taken with its offset: what lentil.fourier.dft2(field.data, alpha, offset=field.offset)
   computes (C01) and propagate_dft adds up over the fields of an untilted wavefront (C02) *)
Definition field_ft (ar ac U V : Qc) (f : field S) : S :=
  match fd f with D2 d => fourier_sum d ar ac (offr f) (offc f) U V | D0 _ => k0 end.
Definition fits (N0 N1 : Z) (f : field S) : Prop :=
  match fd f with
  | D2 d => 0 <= N0 / 2 - nr d / 2 + offr f /\ N0 / 2 - nr d / 2 + offr f + nr d <= N0 /\
            0 <= N1 / 2 - nc d / 2 + offc f /\ N1 / 2 - nc d / 2 + offc f + nc d <= N1
  | D0 _ => False
  end.

Lemma fourier_sum_zero n m ar ac U V : fourier_sum (mkArr n m (fun _ _ => @k0 S)) ar ac 0 0 U V = k0.
Proof. unfold fourier_sum. cbn [nr nc get]. apply (sumZ_zero_ext S Sring). intros x Hx.
  apply (sumZ_zero_ext S Sring). intros y Hy. ring. Qed.

Lemma grid_transform_acc N0 N1 ar ac U V (fs : list (field S)) : forall A : Z -> Z -> S,
  (forall f, In f fs -> fgood f /\ fits N0 N1 f) ->
  fourier_sum (mkArr N0 N1 (fun a b => esum fs (a - N0 / 2) (b - N1 / 2) (A a b))) ar ac 0 0 U V
  = fold_left (fun acc f => (acc + field_ft ar ac U V f)%K) fs (fourier_sum (mkArr N0 N1 A) ar ac 0 0 U V).
Proof.
  induction fs as [|f fs IH]; intros A H; [reflexivity|].
  destruct (H f (or_introl eq_refl)) as [Gf Ff].
  cbn [fold_left]. unfold esum in *. cbn [fold_left].
  rewrite (IH (fun a b => (A a b + embed f (a - N0 / 2) (b - N1 / 2))%K)) by (intros g Hg; apply H; now right).
  f_equal.
  pose proof (fourier_sum_add S Sring (mkArr N0 N1 A) (mkArr N0 N1 (fun a b => embed f (a - N0 / 2) (b - N1 / 2)))
                ar ac 0 0 U V eq_refl eq_refl) as Hadd. cbn [nr nc get] in Hadd. rewrite Hadd. f_equal.
  unfold field_ft, fgood, fits in *. destruct f as [fdf orr occ tl]. cbn [fd offr offc] in *.
  destruct fdf as [v|d]; [contradiction|].
  apply fourier_sum_embedded; cbn [nr nc get]; try lia.
  intros i j Hi Hj. apply embed_D2.
Qed.

Theorem grid_transform_is_sum_of_fields N0 N1 ar ac U V (fs : list (field S)) :
  (forall f, In f fs -> fgood f /\ fits N0 N1 f) ->
  fourier_sum (grid_of fs N0 N1) ar ac 0 0 U V
  = fold_left (fun acc f => (acc + field_ft ar ac U V f)%K) fs k0.
Proof.
  intros H. unfold grid_of. rewrite <- (fourier_sum_zero N0 N1 ar ac U V).
  rewrite <- (grid_transform_acc N0 N1 ar ac U V fs (fun _ _ => k0) H). reflexivity.
Qed.

(* ------------------------------------------------------------------ refusals *)
Theorem tilt_refused N0 N1 (w : wavefront S) du shape os scratch :
  has_tilt w = true -> propagate_fft_N sq N0 N1 w du shape os scratch = Err NotImplementedErr.
Proof. intros H. unfold propagate_fft_N. now rewrite H. Qed.
Lemma has_tilt_iff (w : wavefront S) : has_tilt w = true <-> exists f, In f (wdata w) /\ ftilt f <> [].
Proof.
  unfold has_tilt. rewrite existsb_exists. split; intros (f & Hin & Hf); exists f; (split; [assumption|]);
  unfold tilted in *; destruct (ftilt f); congruence.
Qed.

Theorem shape_refused N0 N1 (w : wavefront S) du s os scratch pt :
  has_tilt w = false -> propagate_ptype (wpt w) = Ok pt -> (N0 < fst s * os \/ N1 < snd s * os) ->
  propagate_fft_N sq N0 N1 w du (Some s) os scratch = Err ValueError.
Proof.
  intros Ht Hpt Hs. unfold propagate_fft_N. rewrite Ht, Hpt. cbn [rbind out_shape].
  replace ((N0 <? fst s * os) || (N1 <? snd s * os)) with true by lia. reflexivity.
Qed.

Theorem small_scratch_refused N0 N1 (w : wavefront S) du shape os buf pt so :
  has_tilt w = false -> propagate_ptype (wpt w) = Ok pt -> out_shape N0 N1 shape os = Ok so ->
  (nr buf < N0 \/ nc buf < N1) ->
  propagate_fft_N sq N0 N1 w du shape os (Some buf) = Err ValueError.
Proof.
  intros Ht Hpt Hso Hb. unfold propagate_fft_N. rewrite Ht, Hpt, Hso. cbn [rbind fft_field].
  replace (negb ((N0 <=? nr buf) && (N1 <=? nc buf))) with true by lia. reflexivity.
Qed.

(* ------------------------------------------------------------------ the scratch buffer is transparent *)
(* two scratch buffers of any sufficient shapes and any contents: same metadata, same field *)
Theorem scratch_content_irrelevant N0 N1 (w : wavefront S) du shape os (buf1 buf2 : arr S) pt :
  0 < N0 -> 0 < N1 -> 0 < os -> has_tilt w = false -> propagate_ptype (wpt w) = Ok pt ->
  (forall f, In f (wdata w) -> fgood f) -> accepted_shape N0 N1 shape os ->
  N0 <= nr buf1 -> N1 <= nc buf1 -> N0 <= nr buf2 -> N1 <= nc buf2 ->
  exists out1 sc1 out2 sc2 o1 o2,
    propagate_fft_N sq N0 N1 w du shape os (Some buf1) = Ok (out1, sc1) /\
    propagate_fft_N sq N0 N1 w du shape os (Some buf2) = Ok (out2, sc2) /\
    wshape out1 = wshape out2 /\ wlam out1 = wlam out2 /\ wpt out1 = wpt out2 /\
    wfield out1 = Ok o1 /\ wfield out2 = Ok o2 /\ nr o1 = nr o2 /\ nc o1 = nc o2 /\
    forall i j, 0 <= i < nr o1 -> 0 <= j < nc o1 -> get o1 i j = get o2 i j.
Proof.
  intros H0 H1 Hos Ht Hpt Hg Hsh A1 A2 B1 B2.
  destruct (propagate_fft_samples N0 N1 w du shape os (Some buf1) pt H0 H1 Hos Ht Hpt Hg Hsh (conj A1 A2))
    as (out1 & sc1 & E1 & P1 & Q1 & R1 & _ & o1 & F1 & G1 & K1 & V1).
  destruct (propagate_fft_samples N0 N1 w du shape os (Some buf2) pt H0 H1 Hos Ht Hpt Hg Hsh (conj B1 B2))
    as (out2 & sc2 & E2 & P2 & Q2 & R2 & _ & o2 & F2 & G2 & K2 & V2).
  exists out1, sc1, out2, sc2, o1, o2. repeat (split; [congruence|]).
  intros i j Hi Hj. rewrite V1, V2 by congruence. congruence.
Qed.

(* with a scratch buffer or without: same metadata, same field *)
Theorem scratch_equals_unbuffered N0 N1 (w : wavefront S) du shape os (buf : arr S) pt :
  0 < N0 -> 0 < N1 -> 0 < os -> has_tilt w = false -> propagate_ptype (wpt w) = Ok pt ->
  (forall f, In f (wdata w) -> fgood f) -> accepted_shape N0 N1 shape os ->
  N0 <= nr buf -> N1 <= nc buf ->
  0 < fst (wshape w) -> 0 < snd (wshape w) -> inside_shape w ->
  exists out1 sc1 out2 o1 o2,
    propagate_fft_N sq N0 N1 w du shape os (Some buf) = Ok (out1, sc1) /\
    propagate_fft_N sq N0 N1 w du shape os None = Ok (out2, None) /\
    wshape out1 = wshape out2 /\ wlam out1 = wlam out2 /\ wpt out1 = wpt out2 /\
    wfield out1 = Ok o1 /\ wfield out2 = Ok o2 /\ nr o1 = nr o2 /\ nc o1 = nc o2 /\
    forall i j, 0 <= i < nr o1 -> 0 <= j < nc o1 -> get o1 i j = get o2 i j.
Proof.
  intros H0 H1 Hos Ht Hpt Hg Hsh A1 A2 W0 W1 Hin.
  destruct (propagate_fft_samples N0 N1 w du shape os (Some buf) pt H0 H1 Hos Ht Hpt Hg Hsh (conj A1 A2))
    as (out1 & sc1 & E1 & P1 & Q1 & R1 & _ & o1 & F1 & G1 & K1 & V1).
  destruct (propagate_fft_samples N0 N1 w du shape os None pt H0 H1 Hos Ht Hpt Hg Hsh (conj W0 (conj W1 Hin)))
    as (out2 & sc2 & E2 & P2 & Q2 & R2 & _ & o2 & F2 & G2 & K2 & V2).
  assert (sc2 = None).
  { unfold propagate_fft_N in E2. rewrite Ht, Hpt in E2. cbn [rbind] in E2.
    destruct (out_shape N0 N1 shape os); cbn [rbind] in E2; [|discriminate].
    unfold fft_field in E2. destruct (render (wdata w) (fst (wshape w)) (snd (wshape w))); cbn [rbind fst snd] in E2; congruence. }
  subst sc2. exists out1, sc1, out2, o1, o2. repeat (split; [congruence|]).
  intros i j Hi Hj. rewrite V1, V2 by congruence. congruence.
Qed.

(* the code's own grid: propagate_fft is propagate_fft_N at _fft_shape's grid, so every statement above holds for it *)
Lemma propagate_fft_unfold (w : wavefront S) du shape os scratch :
  propagate_fft sq w du shape os scratch
  = propagate_fft_N sq (fst (fft_grid (wpix w) du (wz w) (wlam w) os)) (snd (fft_grid (wpix w) du (wz w) (wlam w) os))
                    w du shape os scratch.
Proof. reflexivity. Qed.

(* a scratch buffer of exactly scratch_shape(wavelength, dx, du, z, oversample) is accepted *)
Theorem scratch_exact_accepted (w : wavefront S) du shape os (buf : arr S) pt :
  let N := scratch_shape [wlam w] (wpix w) du (wz w) os in
  nr buf = fst N -> nc buf = snd N ->
  0 < fst N -> 0 < snd N -> 0 < os -> has_tilt w = false -> propagate_ptype (wpt w) = Ok pt ->
  (forall f, In f (wdata w) -> fgood f) -> accepted_shape (fst N) (snd N) shape os ->
  exists out sc, propagate_fft sq w du shape os (Some buf) = Ok (out, sc).
Proof.
  intros N B0 B1 H0 H1 Hos Ht Hpt Hg Hsh. rewrite propagate_fft_unfold.
  change (fft_grid (wpix w) du (wz w) (wlam w) os) with N.
  destruct (propagate_fft_samples (fst N) (snd N) w du shape os (Some buf) pt H0 H1 Hos Ht Hpt Hg Hsh)
    as (out & sc & E & _); [cbn [scratch_ok]; lia|].
  now exists out, sc.
Qed.
End FftP.

(* ------------------------------------------------------------------ the reported wavelength *)
Lemma qleb_refl a : qleb a a = true.
Proof. unfold qleb. apply Qle_bool_iff. apply Qle_refl. Qed.
Lemma qmin_same a : qmin a a = a. Proof. unfold qmin. now rewrite qleb_refl. Qed.

(* on the axis whose value the minimum takes, the DFT sampling ratio at the reported wavelength is exactly 1/N *)
Theorem reported_wavelength_axis0 N0 N1 dx du z os :
  N0 <> 0 -> os <> 0 -> fst dx <> 0%Qc -> fst du <> 0%Qc -> z <> 0%Qc ->
  qleb ((zq N0 / zq os * fst dx * fst du) / z)%Qc ((zq N1 / zq os * snd dx * snd du) / z)%Qc = true ->
  fst (dft_alpha dx du (prop_wavelength N0 N1 dx du z os) z os) = (/ zq N0)%Qc.
Proof.
  intros HN Hos Hdx Hdu Hz Hle. unfold prop_wavelength, qmin. rewrite Hle. unfold dft_alpha. cbn [fst].
  field. repeat split; try assumption; apply zq_neq0; assumption.
Qed.
Theorem reported_wavelength_axis1 N0 N1 dx du z os :
  N1 <> 0 -> os <> 0 -> snd dx <> 0%Qc -> snd du <> 0%Qc -> z <> 0%Qc ->
  qleb ((zq N0 / zq os * fst dx * fst du) / z)%Qc ((zq N1 / zq os * snd dx * snd du) / z)%Qc = false ->
  snd (dft_alpha dx du (prop_wavelength N0 N1 dx du z os) z os) = (/ zq N1)%Qc.
Proof.
  intros HN Hos Hdx Hdu Hz Hle. unfold prop_wavelength, qmin. rewrite Hle. unfold dft_alpha. cbn [snd].
  field. repeat split; try assumption; apply zq_neq0; assumption.
Qed.
(* T09c, isotropic regime (square pixels in both planes, hence a square grid): 1/N on both axes *)
Theorem fft_shape_wavelength N d u z os :
  N <> 0 -> os <> 0 -> d <> 0%Qc -> u <> 0%Qc -> z <> 0%Qc ->
  dft_alpha (d, d) (u, u) (prop_wavelength N N (d, d) (u, u) z os) z os = ((/ zq N)%Qc, (/ zq N)%Qc).
Proof.
  intros HN Hos Hd Hu Hz. unfold prop_wavelength. cbn [fst snd]. rewrite qmin_same. unfold dft_alpha. cbn [fst snd].
  assert (E : (d * u / (zq N / zq os * d * u / z * z * zq os) = / zq N)%Qc).
  { field. repeat split; try assumption; apply zq_neq0; assumption. }
  now rewrite E.
Qed.
(* the wavelength _fft_shape reports is prop_wavelength at the grid it returns; scratch_shape is that grid at the
   largest wavelength *)
Lemma fft_shape_reports dx du z wl os :
  fft_shape dx du z wl os
  = (fft_grid dx du z wl os, prop_wavelength (fst (fft_grid dx du z wl os)) (snd (fft_grid dx du z wl os)) dx du z os).
Proof. reflexivity. Qed.
Lemma scratch_shape_is_grid wls dx du z os : scratch_shape wls dx du z os = fft_grid dx du z (qmaxl wls) os.
Proof. reflexivity. Qed.

(* ------------------------------------------------------------------ scratch_shape for a list of wavelengths *)
(* np.round: within half a unit of its argument (in integers: |2n - 2dr| <= d for q = n/d) *)
Lemma rhe_bounds q : let n := Qnum (this q) in let d := Zpos (Qden (this q)) in let r := round_half_even q in
  d * (2 * r - 1) <= 2 * n <= d * (2 * r + 1).
Proof.
  cbv zeta. unfold round_half_even.
  set (n := Qnum (this q)). set (d := Zpos (Qden (this q))). assert (Hd : 0 < d) by (subst d; lia).
  pose proof (Z.div_mod n d ltac:(lia)) as E. pose proof (Z.mod_pos_bound n d Hd) as B.
  set (f := n / d) in *. set (m := n mod d) in *. clearbody f m n d.
  destruct (2 * m <? d) eqn:E1; [nia|]. destruct (d <? 2 * m) eqn:E2; [nia|].
  destruct (Z.even f); nia.
Qed.

Lemma rhe_mono q1 q2 : (q1 <= q2)%Qc -> round_half_even q1 <= round_half_even q2.
Proof.
  intros H. destruct (Qc_eq_dec q1 q2) as [->|Hne]; [lia|].
  assert (Hlt : (q1 < q2)%Qc) by (apply Qcle_lt_or_eq in H; destruct H; [assumption|contradiction]).
  unfold Qclt, Qlt in Hlt.
  pose proof (rhe_bounds q1) as B1. pose proof (rhe_bounds q2) as B2. cbv zeta in B1, B2.
  set (n1 := Qnum (this q1)) in *. set (d1 := Zpos (Qden (this q1))) in *.
  set (n2 := Qnum (this q2)) in *. set (d2 := Zpos (Qden (this q2))) in *.
  assert (Hd1 : 0 < d1) by (subst d1; lia). assert (Hd2 : 0 < d2) by (subst d2; lia).
  set (r1 := round_half_even q1) in *. set (r2 := round_half_even q2) in *.
  clearbody r1 r2 n1 n2 d1 d2.
  destruct (Z_le_gt_dec r1 r2) as [|Hgt]; [assumption|exfalso].
  assert (A : d1 * d2 * (2 * r2 + 1) <= d1 * d2 * (2 * r1 - 1)) by nia.
  assert (B : 2 * n1 * d2 >= d1 * d2 * (2 * r1 - 1)) by nia.
  assert (C : 2 * n2 * d1 <= d1 * d2 * (2 * r2 + 1)) by nia.
  nia.
Qed.

(* ---- order facts on Qc ---- *)
Lemma zq_pos n : 0 < n -> (0 < zq n)%Qc.
Proof. intros H. unfold Qclt, zq. cbn [this Q2Qc]. rewrite !Qred_correct. unfold Qlt, inject_Z. cbn. lia. Qed.
Lemma qc_pos_neq0 (a : Qc) : (0 < a)%Qc -> a <> 0%Qc.
Proof. intros H E. rewrite E in H. exact (Qclt_not_eq _ _ H eq_refl). Qed.
Lemma qleb_true a b : qleb a b = true -> (a <= b)%Qc.
Proof. unfold qleb, Qcle. apply Qle_bool_iff. Qed.
Lemma qleb_false a b : qleb a b = false -> (b <= a)%Qc.
Proof. unfold qleb, Qcle. intros H. apply Qlt_le_weak. apply Qnot_le_lt. intro L.
  apply Qle_bool_iff in L. congruence. Qed.
Lemma qmax_ge_l a b : (a <= qmax a b)%Qc.
Proof. unfold qmax. destruct (qleb a b) eqn:E; [now apply qleb_true|apply Qcle_refl]. Qed.
Lemma qmax_ge_r a b : (b <= qmax a b)%Qc.
Proof. unfold qmax. destruct (qleb a b) eqn:E; [apply Qcle_refl|now apply qleb_false]. Qed.
Lemma fold_qmax_ge r : forall x, (x <= fold_left qmax r x)%Qc /\ forall y, In y r -> (y <= fold_left qmax r x)%Qc.
Proof.
  induction r as [|a r IH]; intros x; cbn [fold_left].
  - split; [apply Qcle_refl|intros y []].
  - destruct (IH (qmax x a)) as [I1 I2]. split.
    + eapply Qcle_trans; [apply qmax_ge_l|exact I1].
    + intros y [<-|Hy]; [eapply Qcle_trans; [apply qmax_ge_r|exact I1]|now apply I2].
Qed.
(* np.max(wavelengths) bounds every listed wavelength *)
Lemma qmaxl_ge l y : In y l -> (y <= qmaxl l)%Qc.
Proof. destruct l as [|x r]; [intros []|]. cbn [qmaxl]. destruct (fold_qmax_ge r x) as [I1 I2].
  intros [<-|Hy]; [exact I1|now apply I2]. Qed.

(* 1/alpha grows with the wavelength *)
Lemma inv_alpha_mono (c z o l1 l2 : Qc) : (0 < c)%Qc -> (0 < z)%Qc -> (0 < o)%Qc -> (0 < l1)%Qc -> (l1 <= l2)%Qc ->
  (/ (c / (z * l1 * o)) <= / (c / (z * l2 * o)))%Qc.
Proof.
  intros Hc Hz Ho H1 H12.
  assert (H2 : (0 < l2)%Qc) by (eapply Qclt_le_trans; eassumption).
  pose proof (qc_pos_neq0 _ Hc). pose proof (qc_pos_neq0 _ Hz). pose proof (qc_pos_neq0 _ Ho).
  pose proof (qc_pos_neq0 _ H1). pose proof (qc_pos_neq0 _ H2).
  apply (Qcmult_lt_0_le_reg_r _ _ c Hc).
  replace (/ (c / (z * l1 * o)) * c)%Qc with (l1 * z * o)%Qc by (field; auto).
  replace (/ (c / (z * l2 * o)) * c)%Qc with (l2 * z * o)%Qc by (field; auto).
  apply Qcmult_le_compat_r; [apply Qcmult_le_compat_r; [assumption|]|]; now apply Qclt_le_weak.
Qed.

(* the advertised scratch shape for a list of wavelengths covers the grid of each of them *)
Theorem scratch_shape_covers (wls : list Qc) dx du z os lam :
  In lam wls -> (0 < lam)%Qc -> (0 < fst dx * fst du)%Qc -> (0 < snd dx * snd du)%Qc -> (0 < z)%Qc -> 0 < os ->
  fst (fft_grid dx du z lam os) <= fst (scratch_shape wls dx du z os) /\
  snd (fft_grid dx du z lam os) <= snd (scratch_shape wls dx du z os).
Proof.
  intros Hin Hl H0 H1 Hz Hos. rewrite scratch_shape_is_grid. unfold fft_grid, dft_alpha. cbn [fst snd].
  pose proof (qmaxl_ge wls lam Hin) as Hle. pose proof (zq_pos os Hos) as Ho.
  split; apply rhe_mono; apply inv_alpha_mono; assumption.
Qed.

(* hence a buffer of exactly scratch_shape(wavelengths, ...) is accepted at every listed wavelength *)
Theorem scratch_list_accepted (S : Scalar) (Sring : is_ring S) (Skernel : kernel_laws S) (Speriod : periodic S)
        (sq : Qc -> S) (w : wavefront S) du shape os (buf : arr S) pt (wls : list Qc) :
  let N := fft_grid (wpix w) du (wz w) (wlam w) os in
  In (wlam w) wls -> (0 < wlam w)%Qc -> (0 < fst (wpix w) * fst du)%Qc -> (0 < snd (wpix w) * snd du)%Qc -> (0 < wz w)%Qc ->
  nr buf = fst (scratch_shape wls (wpix w) du (wz w) os) -> nc buf = snd (scratch_shape wls (wpix w) du (wz w) os) ->
  0 < fst N -> 0 < snd N -> 0 < os -> has_tilt w = false -> propagate_ptype (wpt w) = Ok pt ->
  (forall f, In f (wdata w) -> fgood S f) -> accepted_shape (fst N) (snd N) shape os ->
  exists out sc, propagate_fft sq w du shape os (Some buf) = Ok (out, sc).
Proof.
  intros N Hin Hl H0 H1 Hz B0 B1 N0 N1 Hos Ht Hpt Hg Hsh. rewrite propagate_fft_unfold. fold N.
  destruct (scratch_shape_covers wls (wpix w) du (wz w) os (wlam w) Hin Hl H0 H1 Hz Hos) as [C0 C1]. fold N in C0, C1.
  destruct (propagate_fft_samples S Sring Skernel Speriod sq (fst N) (snd N) w du shape os (Some buf) pt N0 N1 Hos Ht Hpt Hg Hsh)
    as (out & sc & E & _); [cbn [scratch_ok]; lia|].
  now exists out, sc.
Qed.

(* ------------------------------------------------------------------ sensitivity: the shift order before fix f003478 *)
From LV Require Import Lib.GRing.

(* the order of shifts before fix f003478: ifftshift(fft2(fftshift x)) *)
Definition fft2c_old {S : Scalar} (sq : Qc -> S) (x : arr S) : arr S :=
  force (ifftshift (fft2_ortho sq (force (fftshift x)))).

(* it is not the centred transform on an odd grid: 1 x 3 delta at index 0, group ring of the cube roots of unity *)
Theorem old_shift_order_odd_refuted :
  let sq : Qc -> GRS 3 := fun _ => @k1 (GRS 3) in
  let x : arr (GRS 3) := mkArr 1 3 (fun _ j => if j =? 0 then @k1 (GRS 3) else @k0 (GRS 3)) in
  get (fft2c_old sq x) 0 1 <> get (dft2 sq x (/ zq 1)%Qc (/ zq 3)%Qc 1 3 0 0 0 0 true) 0 1
  /\ get (fft2c sq x) 0 1 = get (dft2 sq x (/ zq 1)%Qc (/ zq 3)%Qc 1 3 0 0 0 0 true) 0 1.
Proof. cbv zeta. split; [vm_compute; discriminate|vm_compute; reflexivity]. Qed.
