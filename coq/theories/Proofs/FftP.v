(* The centred, orthonormal FFT is the unitary matrix-triple-product DFT at alpha = 1/N (both parities);
   pad keeps the floor(n/2) origin; the FFT propagator computes the unitary Fraunhofer sum of the
   input plane at alpha = 1/N; the scratch buffer is transparent; tilted wavefronts are refused (C09). *)
From LV Require Import Model.Fft Proofs.ArrP Proofs.ExtentP Proofs.FieldP Proofs.DftP.

(* ------------------------------------------------------------------ rationals *)
Lemma zq_mul a b : zq (a * b) = (zq a * zq b)%Qc.
Proof. unfold zq, Qcmult. apply Qc_is_canon. cbn [this Q2Qc]. rewrite !Qred_correct.
  rewrite inject_Z_mult. reflexivity. Qed.
Lemma zq_eq0 n : zq n = 0%Qc -> n = 0.
Proof. intros H. apply (f_equal this) in H. unfold zq in H. cbn [this Q2Qc] in H.
  assert (E : Qeq (Qred (inject_Z n)) (Qred 0)) by (rewrite H; reflexivity).
  rewrite !Qred_correct in E. unfold Qeq, inject_Z in E. cbn in E. lia. Qed.
Lemma zq_neq0 n : n <> 0 -> zq n <> 0%Qc.
Proof. intros H E. apply H. now apply zq_eq0. Qed.

(* whole turns can be split off a phase *)
Lemma turn_split b m n : n <> 0 -> turn (b + n * m) n = (turn b n + zq m)%Qc.
Proof. intros H. unfold turn. rewrite zq_add, zq_mul. field. now apply zq_neq0. Qed.
Lemma turn_as_product p u n : n <> 0 -> turn (p * u) n = (/ zq n * zq p * zq u)%Qc.
Proof. intros H. unfold turn. rewrite zq_mul. field. now apply zq_neq0. Qed.

Lemma mul_mod_congr a a' k k' n : n <> 0 -> a mod n = a' mod n -> k mod n = k' mod n ->
  (a * k) mod n = (a' * k') mod n.
Proof. intros Hn H1 H2. rewrite (Z.mul_mod a k), (Z.mul_mod a' k') by assumption. now rewrite H1, H2. Qed.

Section FftP.
Variable S : Scalar.
Hypothesis Sring : is_ring S.
Hypothesis Skernel : kernel_laws S.
Hypothesis Speriod : forall z : Z, @ke S (zq z) = k1.     (* the kernel has period one turn *)
Variable sq : Qc -> S.
Add Ring Sr : Sring.

(* ------------------------------------------------------------------ periodicity of the kernel *)
Lemma ke_turn_congr a b n : n <> 0 -> a mod n = b mod n -> @ke S (turn a n) = ke (turn b n).
Proof.
  intros Hn H.
  assert (E : forall c, @ke S (turn c n) = ke (turn (c mod n) n)).
  { intros c. rewrite (Z.div_mod c n Hn) at 1. rewrite Z.add_comm, turn_split by assumption.
    rewrite (ke_add S Skernel), Speriod. ring. }
  rewrite (E a), (E b), H. reflexivity.
Qed.
Lemma ke_turn_congr_l a b n (T : Qc) : n <> 0 -> a mod n = b mod n ->
  @ke S (turn a n + T)%Qc = ke (turn b n + T)%Qc.
Proof. intros Hn H. rewrite !(ke_add S Skernel), (ke_turn_congr a b n Hn H). reflexivity. Qed.
Lemma ke_turn_congr_r a b n (T : Qc) : n <> 0 -> a mod n = b mod n ->
  @ke S (T + turn a n)%Qc = ke (T + turn b n)%Qc.
Proof. intros Hn H. rewrite !(ke_add S Skernel), (ke_turn_congr a b n Hn H). reflexivity. Qed.

(* ------------------------------------------------------------------ a sum over a rotated index *)
Lemma sumZ_rot n h (g : Z -> S) : 0 <= h < n ->
  sumZ n (fun a => g ((a + h) mod n)) = sumZ n g.
Proof.
  intros H.
  assert (L : sumZ (n - h + h) (fun a => g ((a + h) mod n))
              = (sumZ (n - h) (fun i => g (h + i)%Z) + sumZ h g)%K).
  { rewrite (sumZ_split S Sring) by lia. f_equal.
    - apply sumZ_ext. intros i Hi. f_equal. rewrite Z.mod_small by lia. ring.
    - apply sumZ_ext. intros i Hi. f_equal. replace (n - h + i + h) with (i + 1 * n) by ring.
      rewrite Z_mod_plus_full. apply Z.mod_small. lia. }
  assert (R : sumZ (h + (n - h)) g = (sumZ h g + sumZ (n - h) (fun i => g (h + i)%Z))%K).
  { rewrite (sumZ_split S Sring) by lia. reflexivity. }
  replace (n - h + h) with n in L by ring. replace (h + (n - h)) with n in R by ring.
  rewrite L, R. ring.
Qed.

(* ------------------------------------------------------------------ np.fft.fft2: row-column = double sum *)
Theorem fft2_plain_defining_sum (x : arr S) k l : 0 <= k < nr x -> 0 <= l < nc x ->
  get (fft2_plain x) k l
  = sumZ (nr x) (fun a => sumZ (nc x) (fun b =>
      (get x a b * ke (turn (a * k) (nr x) + turn (b * l) (nc x))%Qc)%K)).
Proof.
  intros Hk Hl. unfold fft2_plain.
  rewrite force_get by (cbn [nr nc]; lia). cbn [get].
  transitivity (sumZ (nc x) (fun b => sumZ (nr x) (fun a =>
     (get x a b * ke (turn (a * k) (nr x) + turn (b * l) (nc x))%Qc)%K))).
  - apply sumZ_ext. intros b Hb. rewrite force_get by (cbn [nr nc]; lia). cbn [get].
    rewrite <- (sumZ_scale_r S Sring). apply sumZ_ext. intros a Ha.
    rewrite (ke_add S Skernel). ring.
  - apply sumZ_exchange. exact Sring.
Qed.
Lemma fft2_plain_shape (x : arr S) : nr (fft2_plain x) = nr x /\ nc (fft2_plain x) = nc x.
Proof. split; reflexivity. Qed.

(* ------------------------------------------------------------------ _fft2 = fftshift(fft2(ifftshift x), ortho) *)
Lemma fft2c_shape (x : arr S) : nr (fft2c sq x) = nr x /\ nc (fft2c sq x) = nc x.
Proof. split; reflexivity. Qed.

Theorem fft2c_is_fourier_sum (x : arr S) u v : 0 <= u < nr x -> 0 <= v < nc x ->
  get (fft2c sq x) u v
  = (fourier_sum x (/ zq (nr x))%Qc (/ zq (nc x))%Qc 0 0 (zq (u - nr x / 2)) (zq (v - nc x / 2))
     * ortho_scale sq (nr x) (nc x))%K.
Proof.
  intros Hu Hv. set (Nr := nr x). set (Nc := nc x).
  assert (HNr : Nr <> 0) by (subst Nr; lia). assert (HNc : Nc <> 0) by (subst Nc; lia).
  set (hr := Nr / 2). set (hc := Nc / 2).
  assert (Hhr : 0 <= hr < Nr) by (subst hr Nr; lia). assert (Hhc : 0 <= hc < Nc) by (subst hc Nc; lia).
  unfold fft2c. rewrite force_get by (cbn [nr nc fftshift fft2_ortho amap fft2_plain force of_list ifftshift]; lia).
  unfold fftshift. cbn [get]. unfold fft2_ortho. cbn [amap get nr nc].
  change (nr (fft2_plain (force (ifftshift x)))) with Nr. change (nc (fft2_plain (force (ifftshift x)))) with Nc.
  change (nr (force (ifftshift x))) with Nr. change (nc (force (ifftshift x))) with Nc.
  fold hr hc. f_equal.
  set (k := (u - hr) mod Nr). set (l := (v - hc) mod Nc).
  assert (Hk : 0 <= k < Nr) by (subst k; apply Z.mod_pos_bound; lia).
  assert (Hl : 0 <= l < Nc) by (subst l; apply Z.mod_pos_bound; lia).
  rewrite fft2_plain_defining_sum by (cbn [nr nc force of_list ifftshift]; assumption).
  cbn [nr nc force of_list ifftshift]. fold Nr Nc.
  unfold fourier_sum. fold Nr Nc hr hc.
  (* make the summand a function of the rotated indices, then rotate both sums *)
  pose (G := fun p q : Z =>
      (get x p q * ke (turn ((p - hr) * (u - hr)) Nr + turn ((q - hc) * (v - hc)) Nc)%Qc)%K).
  transitivity (sumZ Nr (fun a => sumZ Nc (fun b => G ((a + hr) mod Nr) ((b + hc) mod Nc)))).
  - apply sumZ_ext. intros a Ha. apply sumZ_ext. intros b Hb. unfold G.
    rewrite force_get by (cbn [nr nc ifftshift]; lia). cbn [ifftshift get]. fold Nr Nc hr hc. f_equal.
    assert (E1 : (a * k) mod Nr = (((a + hr) mod Nr - hr) * (u - hr)) mod Nr).
    { apply mul_mod_congr; [assumption| |subst k; apply Z.mod_mod; assumption].
      rewrite Zminus_mod_idemp_l. f_equal. ring. }
    assert (E2 : (b * l) mod Nc = (((b + hc) mod Nc - hc) * (v - hc)) mod Nc).
    { apply mul_mod_congr; [assumption| |subst l; apply Z.mod_mod; assumption].
      rewrite Zminus_mod_idemp_l. f_equal. ring. }
    rewrite (ke_turn_congr_l _ _ Nr _ HNr E1). apply ke_turn_congr_r; assumption.
  - transitivity (sumZ Nr (fun a => sumZ Nc (fun q => G ((a + hr) mod Nr) q))).
    + apply sumZ_ext. intros a Ha. exact (sumZ_rot Nc hc (fun q => G ((a + hr) mod Nr) q) Hhc).
    + transitivity (sumZ Nr (fun p => sumZ Nc (fun q => G p q))).
      * exact (sumZ_rot Nr hr (fun p => sumZ Nc (fun q => G p q)) Hhr).
      * apply sumZ_ext; intros p Hp. apply sumZ_ext; intros q Hq. unfold G. f_equal. f_equal.
        rewrite !turn_as_product by assumption. rewrite !Z.add_0_r. reflexivity.
Qed.

(* norm='ortho' is dft2's unitary factor at alpha = (1/N_r, 1/N_c) *)
Lemma qabs_inv_pos M : 0 < M -> qabs (/ zq M)%Qc = (/ zq M)%Qc.
Proof.
  intros H. unfold qabs. destruct (Qle_bool (this (/ zq M)%Qc) 0) eqn:E; [exfalso|reflexivity].
  apply Qle_bool_iff in E. unfold zq in E. cbn [this Qcinv Q2Qc] in E. rewrite !Qred_correct in E.
  destruct M as [|p|p]; try lia. unfold Qle in E. cbn in E. lia.
Qed.
Lemma ortho_is_unitary_scale Nr Nc : 0 < Nr -> 0 < Nc ->
  ortho_scale sq Nr Nc = unitary_scale sq true (/ zq Nr)%Qc (/ zq Nc)%Qc.
Proof.
  intros Hr Hc. unfold ortho_scale, unitary_scale. f_equal.
  replace (/ zq Nr * / zq Nc)%Qc with (/ zq (Nr * Nc))%Qc.
  - symmetry. apply qabs_inv_pos. nia.
  - rewrite zq_mul. field. split; apply zq_neq0; lia.
Qed.

(* T09a in the design's form: the centred orthonormal FFT is lentil.fourier.dft2 at alpha = 1/N, shape N, unitary *)
Theorem fft2_centered_is_dft2 (x : arr S) u v : 0 <= u < nr x -> 0 <= v < nc x ->
  get (fft2c sq x) u v
  = get (dft2 sq x (/ zq (nr x))%Qc (/ zq (nc x))%Qc (nr x) (nc x) 0 0 0 0 true) u v.
Proof.
  intros Hu Hv. rewrite fft2c_is_fourier_sum by assumption.
  rewrite (dft2_defining_sum S Sring Skernel) by assumption.
  rewrite ortho_is_unitary_scale by lia.
  replace (zq (u - nr x / 2) - 0)%Qc with (zq (u - nr x / 2)) by ring.
  replace (zq (v - nc x / 2) - 0)%Qc with (zq (v - nc x / 2)) by ring. reflexivity.
Qed.

(* ------------------------------------------------------------------ lentil.util.pad keeps the floor(n/2) origin *)
Lemma pad_axis_spec n N i : 0 < n -> 0 < N -> 0 <= i < N ->
  let p := pad_axis n N in
  ((t_lo p <=? i) && (i <? t_hi p)) = inr n (i - N / 2 + n / 2)
  /\ (t_lo p <= i < t_hi p -> i - t_lo p + s_lo p = i - N / 2 + n / 2).
Proof.
  intros Hn HN Hi. unfold pad_axis, inr.
  destruct (N - n <=? 0) eqn:E; cbn [s_lo s_hi t_lo t_hi]; split; lia.
Qed.

(* growing or cropping, any parities: output sample i, j is the sample of the zero-extended input that
   has the same coordinates relative to the index floor(n/2) *)
Theorem pad_origin (a : arr S) Nr Nc i j : 0 < nr a -> 0 < nc a -> 0 <= i < Nr -> 0 <= j < Nc ->
  get (pad2 a Nr Nc) i j = embedA S a 0 0 (i - Nr / 2) (j - Nc / 2).
Proof.
  intros Ha1 Ha2 Hi Hj. unfold pad2. rewrite force_get by (cbn [nr nc]; lia). cbn [get].
  destruct (pad_axis_spec (nr a) Nr i Ha1 ltac:(lia) Hi) as [Ar Br].
  destruct (pad_axis_spec (nc a) Nc j Ha2 ltac:(lia) Hj) as [Ac Bc].
  set (pr := pad_axis (nr a) Nr) in *. set (pc := pad_axis (nc a) Nc) in *. clearbody pr pc.
  unfold embedA.
  replace (i - Nr / 2 - 0 + nr a / 2) with (i - Nr / 2 + nr a / 2) by ring.
  replace (j - Nc / 2 - 0 + nc a / 2) with (j - Nc / 2 + nc a / 2) by ring.
  rewrite <- Ar, <- Ac.
  replace ((t_lo pr <=? i) && (i <? t_hi pr) && (t_lo pc <=? j) && (j <? t_hi pc))
    with ((t_lo pr <=? i) && (i <? t_hi pr) && ((t_lo pc <=? j) && (j <? t_hi pc))) by (now rewrite !andb_assoc).
  destruct ((t_lo pr <=? i) && (i <? t_hi pr)) eqn:Er; cbn [andb]; [|reflexivity].
  destruct ((t_lo pc <=? j) && (j <? t_hi pc)) eqn:Ec; [|reflexivity].
  rewrite Br, Bc by lia. reflexivity.
Qed.
Lemma pad2_shape (a : arr S) Nr Nc : nr (pad2 a Nr Nc) = Nr /\ nc (pad2 a Nr Nc) = Nc.
Proof. split; reflexivity. Qed.

(* ------------------------------------------------------------------ an array placed on a larger grid *)
(* a grid that shows the zero-extended array [a] (centre offset (orr, occ)) and contains all of it has the
   Fourier sum of [a] taken with that offset: the origin convention of C01 *)
Lemma fourier_sum_embedded (G a : arr S) orr occ ar ac U V :
  0 < nr a -> 0 < nc a ->
  0 <= nr G / 2 - nr a / 2 + orr -> nr G / 2 - nr a / 2 + orr + nr a <= nr G ->
  0 <= nc G / 2 - nc a / 2 + occ -> nc G / 2 - nc a / 2 + occ + nc a <= nc G ->
  (forall i j, 0 <= i < nr G -> 0 <= j < nc G -> get G i j = embedA S a orr occ (i - nr G / 2) (j - nc G / 2)) ->
  fourier_sum G ar ac 0 0 U V = fourier_sum a ar ac orr occ U V.
Proof.
  intros Ha1 Ha2 H1 H2 H3 H4 HG.
  set (r0 := nr G / 2 - nr a / 2 + orr) in *. set (c0 := nc G / 2 - nc a / 2 + occ) in *.
  rewrite <- (fourier_sum_subarray S Sring sq G r0 (r0 + nr a) c0 (c0 + nc a) ar ac 0 0 U V); try lia.
  - replace (0 + slice_off r0 (r0 + nr a) (nr G)) with orr by (unfold slice_off; subst r0; lia).
    replace (0 + slice_off c0 (c0 + nc a) (nc G)) with occ by (unfold slice_off; subst c0; lia).
    apply fourier_sum_ext; cbn [aslice nr nc get]; try lia.
    intros x y Hx Hy. rewrite HG by lia. unfold embedA, inr.
    replace (x + r0 - nr G / 2 - orr + nr a / 2) with x by (subst r0; ring).
    replace (y + c0 - nc G / 2 - occ + nc a / 2) with y by (subst c0; ring).
    replace ((0 <=? x) && (x <? nr a) && ((0 <=? y) && (y <? nc a))) with true by lia. reflexivity.
  - intros x y Hx Hy Hout. rewrite HG by lia. unfold embedA, inr.
    destr_if; [exfalso; subst r0 c0; lia|reflexivity].
Qed.

(* T09b: zero-padding with lentil.pad does not move the origin: same transform, offset 0 *)
Theorem pad_preserves_transform (a : arr S) Nr Nc ar ac U V :
  0 < nr a -> 0 < nc a -> nr a <= Nr -> nc a <= Nc ->
  fourier_sum (pad2 a Nr Nc) ar ac 0 0 U V = fourier_sum a ar ac 0 0 U V.
Proof.
  intros Ha1 Ha2 H1 H2. apply fourier_sum_embedded; try assumption.
  1-4: change (nr (pad2 a Nr Nc)) with Nr; change (nc (pad2 a Nr Nc)) with Nc; lia.
  change (nr (pad2 a Nr Nc)) with Nr. change (nc (pad2 a Nr Nc)) with Nc.
  intros i j Hi Hj. now apply pad_origin.
Qed.
