(* Tactics shared by the proofs of the source-translation layers (WP-T2): the definitions src_<f> of the
   Gen/*Src.v files are regenerated from the lentil source text, so the scripts that prove them equal to the
   hand-written models must not depend on how the source spells its arithmetic.  Generic recipe: destruct the
   tuples, unfold both sides, one spelling per comparison, destruct every [if] innermost first, then lia.
   (Proofs/ExtentSrcP.v, the C06 layer, carries its own identical copy.) *)
From LV Require Export Lib.Base.

Ltac destr_prods :=
  repeat match goal with x : ?T |- _ => lazymatch eval hnf in T with prod _ _ => destruct x end end.
Ltac src_norm := cbv beta iota zeta delta [fst snd].
Ltac cmp_norm := rewrite ?Z.gtb_ltb, ?Z.geb_leb.
Ltac split_eq :=
  repeat match goal with
         | |- (_, _) = (_, _) => f_equal
         | |- Some _ = Some _ => f_equal
         | |- Ok _ = Ok _ => f_equal
         end.
Ltac destr_inner_if :=
  match goal with
  | |- context[if ?b then _ else _] =>
      lazymatch b with
      | context[if _ then _ else _] => fail
      | _ => destruct b eqn:?
      end
  end.
(* (the f_equal/ring alternative: the same quotient with its dividend spelled in another order, e.g. (p*n)/q) *)
Ltac feq_ring := first [ring | (progress f_equal; feq_ring)].
Ltac src_close := split_eq; first [reflexivity | lia | solve [feq_ring] | exfalso; lia].
Ltac src_finish := src_norm; cmp_norm; repeat (destr_inner_if; src_norm); src_close.
