(* Rational-arithmetic lemmas of C20: centroid is scale free and moves with pad by the difference of the
   origin indices; the array size chosen by hex_segments covers the aperture plus its padding. *)
From LV Require Import Model.Geometry Model.Shapes Proofs.GeometryP.

Local Notation qsum := (@sumZ QS).

Lemma qdiv_scale (k x t : Qc) : k <> 0%Qc -> ((k * x) / (k * t) = x / t)%Qc.
Proof.
  intros Hk. destruct (Qc_eq_dec t 0%Qc) as [->|Ht].
  - replace (k * 0)%Qc with 0%Qc by ring. unfold Qcdiv. replace (/ 0)%Qc with 0%Qc by reflexivity. ring.
  - field. split; assumption.
Qed.

(* centroid (k * a) = centroid a: no absolute scale enters *)
Theorem centroid_scale (a : arr QS) (k : Qc) : k <> 0%Qc ->
  centroid (@mkArr QS (nr a) (nc a) (fun i j => (k * get a i j)%Qc)) = centroid a.
Proof.
  intros Hk. unfold centroid. cbn [nr nc get].
  assert (T : asum (@mkArr QS (nr a) (nc a) (fun i j => (k * get a i j)%Qc)) = (k * asum a)%Qc).
  { unfold asum. cbn [nr nc get].
    rewrite <- (sumZ_scale_l QS QS_ring). apply sumZ_ext. intros i _.
    rewrite <- (sumZ_scale_l QS QS_ring). reflexivity. }
  rewrite T. f_equal; apply sumZ_ext; intros i _; apply sumZ_ext; intros j _; rewrite qdiv_scale by assumption; reflexivity.
Qed.

(* sums of the padded (grown) array are sums over the embedded block *)
Lemma pad_grow_sum (a : arr QS) N M (w : Z -> Z -> Qc -> Qc) :
  0 <= nr a <= N -> 0 <= nc a <= M -> (forall i j, w i j 0%Qc = 0%Qc) ->
  qsum N (fun i => qsum M (fun j => w i j (pad_get (nr a) (nc a) N M (get a) i j))) =
  qsum (nr a) (fun i => qsum (nc a) (fun j => w (ctr N - ctr (nr a) + i) (ctr M - ctr (nc a) + j) (get a i j))).
Proof.
  intros Hn Hm Hw.
  assert (G : forall i j, 0 <= i < N -> 0 <= j < M ->
            pad_get (nr a) (nc a) N M (get a) i j =
            if inr (nr a) (i - ctr N + ctr (nr a)) && inr (nc a) (j - ctr M + ctr (nc a))
            then get a (i - ctr N + ctr (nr a)) (j - ctr M + ctr (nc a)) else k0)
    by (intros; apply pad_get_spec; lia).
  assert (Lr : 0 <= ctr N - ctr (nr a) /\ ctr N - ctr (nr a) + nr a <= N) by (unfold ctr; lia).
  assert (Lc : 0 <= ctr M - ctr (nc a) /\ ctr M - ctr (nc a) + nc a <= M) by (unfold ctr; lia).
  rewrite (sumZ_support QS QS_ring N (ctr N - ctr (nr a)) (nr a)); try lia.
  - apply sumZ_ext. intros i Hi.
    rewrite (sumZ_support QS QS_ring M (ctr M - ctr (nc a)) (nc a)); try lia.
    + apply sumZ_ext. intros j Hj. rewrite G by lia. unfold inr.
      replace (ctr N - ctr (nr a) + i - ctr N + ctr (nr a)) with i by lia.
      replace (ctr M - ctr (nc a) + j - ctr M + ctr (nc a)) with j by lia.
      replace ((0 <=? i) && (i <? nr a) && ((0 <=? j) && (j <? nc a))) with true by lia. reflexivity.
    + intros j Hj Hout. rewrite G by lia. unfold inr.
      replace ((0 <=? ctr N - ctr (nr a) + i - ctr N + ctr (nr a)) && (ctr N - ctr (nr a) + i - ctr N + ctr (nr a) <? nr a) &&
               ((0 <=? j - ctr M + ctr (nc a)) && (j - ctr M + ctr (nc a) <? nc a))) with false by lia.
      apply Hw.
  - intros i Hi Hout. apply (sumZ_zero_ext QS QS_ring). intros j Hj. rewrite G by lia. unfold inr.
    replace ((0 <=? i - ctr N + ctr (nr a)) && (i - ctr N + ctr (nr a) <? nr a) &&
             ((0 <=? j - ctr M + ctr (nc a)) && (j - ctr M + ctr (nc a) <? nc a))) with false by lia.
    apply Hw.
Qed.

Lemma zq_add a b : zq (a + b) = (zq a + zq b)%Qc.
Proof. unfold zq. apply Qc_is_canon. unfold Qcplus, Q2Qc. cbn [this]. rewrite !Qred_correct, inject_Z_plus. reflexivity. Qed.

Lemma qsum2_scale_l n m (c : Qc) (f : Z -> Z -> Qc) :
  qsum n (fun i => qsum m (fun j => (c * f i j)%Qc)) = (c * qsum n (fun i => qsum m (fun j => f i j)))%Qc.
Proof. rewrite <- (sumZ_scale_l QS QS_ring). apply sumZ_ext. intros i _. apply (sumZ_scale_l QS QS_ring). Qed.
Lemma qsum2_add n m (f g : Z -> Z -> Qc) :
  qsum n (fun i => qsum m (fun j => (f i j + g i j)%Qc)) =
  (qsum n (fun i => qsum m (fun j => f i j)) + qsum n (fun i => qsum m (fun j => g i j)))%Qc.
Proof. rewrite <- (sumZ_add QS QS_ring). apply sumZ_ext. intros i _. apply (sumZ_add QS QS_ring). Qed.
Lemma qsum2_div n m (t : Qc) (f : Z -> Z -> Qc) :
  qsum n (fun i => qsum m (fun j => (f i j / t)%Qc)) = (qsum n (fun i => qsum m (fun j => f i j)) / t)%Qc.
Proof. unfold Qcdiv. rewrite <- (sumZ_scale_r QS QS_ring). apply sumZ_ext. intros i _. apply (sumZ_scale_r QS QS_ring). Qed.

(* zero-padding (growing on both axes) moves the centroid by the difference of the origin indices *)
Theorem centroid_pad_shift (a : arr QS) N M b :
  0 <= nr a <= N -> 0 <= nc a <= M -> asum a <> 0%Qc -> pad2 a N M = Ok b ->
  centroid b = ((fst (centroid a) + zq (ctr N - ctr (nr a)))%Qc, (snd (centroid a) + zq (ctr M - ctr (nc a)))%Qc).
Proof.
  intros Hn Hm Ht H. unfold pad2 in H. replace ((N <? 0) || (M <? 0)) with false in H by lia.
  injection H as <-. unfold centroid. cbn [nr nc get fst snd].
  assert (T : asum (@mkArr QS N M (pad_get (nr a) (nc a) N M (get a))) = asum a).
  { unfold asum. cbn [nr nc get]. rewrite (pad_grow_sum a N M (fun _ _ v => v)) by (try assumption; intros; reflexivity). reflexivity. }
  rewrite T. set (t := asum a) in *.
  assert (One : (qsum (nr a) (fun i => qsum (nc a) (fun j => get a i j)) / t = 1)%Qc).
  { fold (asum a). fold t. unfold Qcdiv. apply Qcmult_inv_r. assumption. }
  f_equal.
  - rewrite (pad_grow_sum a N M (fun i _ v => (zq i * (v / t))%Qc)) by (try assumption; intros; unfold Qcdiv; ring).
    rewrite (sumZ_ext QS (nr a) _ (fun i => qsum (nc a) (fun j =>
               (zq i * (get a i j / t) + zq (ctr N - ctr (nr a)) * (get a i j / t))%Qc))).
    2:{ intros i _. apply sumZ_ext. intros j _. rewrite zq_add.
        match goal with |- @eq _ ?l ?r => change (@eq Qc l r) end. ring. }
    rewrite qsum2_add, qsum2_scale_l, qsum2_div, One.
    match goal with |- @eq _ ?l ?r => change (@eq Qc l r) end. ring.
  - rewrite (pad_grow_sum a N M (fun _ j v => (zq j * (v / t))%Qc)) by (try assumption; intros; unfold Qcdiv; ring).
    rewrite (sumZ_ext QS (nr a) _ (fun i => qsum (nc a) (fun j =>
               (zq j * (get a i j / t) + zq (ctr M - ctr (nc a)) * (get a i j / t))%Qc))).
    2:{ intros i _. apply sumZ_ext. intros j _. rewrite zq_add.
        match goal with |- @eq _ ?l ?r => change (@eq Qc l r) end. ring. }
    rewrite qsum2_add, qsum2_scale_l, qsum2_div, One.
    match goal with |- @eq _ ?l ?r => change (@eq Qc l r) end. ring.
Qed.

(* ---- hex_segments array size: the ceiling is not below the extent of the rings plus the padding ---- *)
Lemma qceil_ge (x : Qc) : (x <= zq (qceil x))%Qc.
Proof.
  unfold Qcle, zq, qceil, Q2Qc. cbn [this]. rewrite Qred_correct.
  destruct x as [[n d] Hx]. cbn [this Qnum Qden]. unfold Qle, inject_Z. cbn [Qnum Qden].
  pose proof (Z.mul_div_le (- n) (Z.pos d)) as A. lia.
Qed.

Theorem hex_size_covers rings radius gap s3 pad :
  (zq (rings * 2 + 1) * (radius * s3 * Q2Qc (1 # 2)) * zq 2 + zq (rings * 2) * gap + zq (pad * 2)
   <= zq (hex_size rings radius gap s3 pad))%Qc.
Proof. unfold hex_size. apply qceil_ge. Qed.
