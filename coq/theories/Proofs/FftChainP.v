(* C09 deepen: the FFT path equals the DFT path on NON-SQUARE grids (anisotropic pixel scales), whenever one wavelength
   serves both axes: N0 dx0 du0 = N1 dx1 du1 (true of every geometry whose ideal grid lambda z os / (dx du) is a whole
   number on both axes).  Composition of Proofs/FftP.v (C09) with Proofs/PropagateP.v (C02), generalising
   Proofs/ChainP.v:fft_equals_dft, which is the square case. *)
From Coq Require Import QArith Qcanon.
From LV Require Import Model.Fft Proofs.FftP.
From LV Require Import Model.Propagate Proofs.ArrP Proofs.ExtentP Proofs.FieldP Proofs.DftP Proofs.PropagateP Proofs.ChainP.
Local Open Scope Z_scope.

(* both axes attain the minimum that propagate_fft reports as its wavelength *)
Definition commensurate (N0 N1 : Z) (dx du : Qc * Qc) (z : Qc) (os : Z) : Prop :=
  ((zq N0 / zq os * fst dx * fst du) / z)%Qc = ((zq N1 / zq os * snd dx * snd du) / z)%Qc.

Lemma reported_alpha_axes N0 N1 dx du z os :
  N0 <> 0 -> N1 <> 0 -> os <> 0 -> fst dx <> 0%Qc -> fst du <> 0%Qc -> snd dx <> 0%Qc -> snd du <> 0%Qc -> z <> 0%Qc ->
  commensurate N0 N1 dx du z os ->
  dft_alpha1 (fst dx) (fst du) (prop_wavelength N0 N1 dx du z os) (Some z) os = (/ zq N0)%Qc /\
  dft_alpha1 (snd dx) (snd du) (prop_wavelength N0 N1 dx du z os) (Some z) os = (/ zq N1)%Qc.
Proof.
  intros H0 H1 Hos Hd0 Hu0 Hd1 Hu1 Hz Hc. unfold commensurate in Hc. unfold dft_alpha1.
  split.
  - unfold prop_wavelength. rewrite <- Hc, qmin_same. field.
    repeat split; try assumption; apply zq_neq0; assumption.
  - unfold prop_wavelength. rewrite Hc, qmin_same. field.
    repeat split; try assumption; apply zq_neq0; assumption.
Qed.

Section FftChain.
Variable S : Scalar.
Hypothesis Sring : is_ring S.
Hypothesis Skernel : kernel_laws S.
Hypothesis Speriod : periodic S.
Variable sq : Qc -> S.
Add Ring SrFC : Sring.

Lemma ortho_is_unitary_scale2 N0 N1 : 0 < N0 -> 0 < N1 ->
  sq (/ zq (N0 * N1))%Qc = sq (qabs (/ zq N0 * / zq N1)%Qc).
Proof. intros H0 H1. pose proof (ortho_is_unitary_scale S sq N0 N1 H0 H1) as E.
  unfold ortho_scale, unitary_scale in E. exact E. Qed.

Theorem fft_equals_dft_anisotropic (wF : Fft.wavefront S) (N0 N1 : Z) (dx du : Qc * Qc) (z : Qc) (os s0 s1 : Z)
        (scratch : option (arr S)) :
  0 < N0 -> 0 < N1 -> 0 < os ->
  fst dx <> 0%Qc -> fst du <> 0%Qc -> snd dx <> 0%Qc -> snd du <> 0%Qc -> z <> 0%Qc ->
  Fft.wpix wF = dx -> Fft.wz wF = z ->
  fft_grid dx du z (Fft.wlam wF) os = (N0, N1) ->
  commensurate N0 N1 dx du z os ->
  Fft.has_tilt wF = false -> Fft.wpt wF <> PNone ->
  (forall f, In f (Fft.wdata wF) -> fgood S f /\ fits S N0 N1 f) ->
  0 < s0 -> 0 < s1 -> s0 * os <= N0 -> s1 * os <= N1 ->
  scratch_ok S N0 N1 wF scratch ->
  let lamF := prop_wavelength N0 N1 dx du z os in
  let wD := mkWf lamF (Some dx) (Some z) (Fft.wshape wF) (pt_conv (Fft.wpt wF)) (Fft.wdata wF) in
  exists outF sc oF outD oD,
    propagate_fft sq wF du (Some (s0, s1)) os scratch = Ok (outF, sc) /\
    Fft.wfield outF = Ok oF /\ Fft.wlam outF = lamF /\ Fft.wshape outF = (s0 * os, s1 * os) /\
    propagate_dft sq (@no_shift S) wD (fst du) (snd du) (Some (s0, s1)) None os None = Ok outD /\
    wfield outD = Ok oD /\ wwl outD = lamF /\ wshape outD = (s0 * os, s1 * os) /\
    nr oF = s0 * os /\ nc oF = s1 * os /\ nr oD = s0 * os /\ nc oD = s1 * os /\
    forall i j, 0 <= i < s0 * os -> 0 <= j < s1 * os ->
      get oF i j = get oD i j /\
      get oF i j =
        (fold_right (fun f acc =>
           (match fd f with
            | D2 a => fourier_sum a (/ zq N0)%Qc (/ zq N1)%Qc (offr f) (offc f)
                                  (zq (i - (s0 * os) / 2)) (zq (j - (s1 * os) / 2))
            | D0 _ => k0
            end + acc)%K) k0 (Fft.wdata wF)
         * sq (/ zq (N0 * N1))%Qc)%K.
Proof.
  intros HN0 HN1 Hos Hd0 Hu0 Hd1 Hu1 Hz Epix Ez Egrid Hcom Ht Hpt Hg Hs0 Hs1 Hf0 Hf1 Hsc lamF wD.
  assert (Hpt' : exists pt, Fft.propagate_ptype (Fft.wpt wF) = Ok pt).
  { destruct (Fft.wpt wF); [congruence|eexists; reflexivity|eexists; reflexivity]. }
  destruct Hpt' as (pt & Ept).
  unfold propagate_fft. rewrite Epix, Ez, Egrid. cbn [fst snd].
  destruct (propagate_fft_samples S Sring Skernel Speriod sq N0 N1 wF du (Some (s0, s1)) os scratch pt
              HN0 HN1 Hos Ht Ept (fun f Hf => proj1 (Hg f Hf))) as (outF & sc & EF & ShF & LamF & _ & _ & oF & FoF & NF & MF & GF).
  { cbn [accepted_shape fst snd]. lia. } { exact Hsc. }
  cbn [shape_out fst snd] in ShF, NF, MF. rewrite Epix, Ez in LamF.
  assert (Hb : mask_bbox None (s0 * os) (s1 * os) = Ok (0, s0 * os - 1, 0, s1 * os - 1)) by reflexivity.
  assert (HptD : wptype wD <> PtNone) by (cbn [wptype wD]; destruct (Fft.wpt wF); [congruence|discriminate|discriminate]).
  assert (HdD : forall f, In f (wdata wD) -> @no_shift S f = (0%Qc, 0%Qc) /\ exists a, fd f = D2 a).
  { intros f Hf. split; [reflexivity|]. destruct (Hg f Hf) as [G _]. unfold fgood in G.
    destruct (fd f) as [|a]; [contradiction|now exists a]. }
  assert (Eps : wps wD = Some (fst dx, snd dx)) by (cbn [wps wD]; now destruct dx).
  destruct (propagate_dft_samples S Sring Skernel sq (@no_shift S) wD (fst du) (snd du) (Some (s0, s1)) None os None
              (fst dx) (snd dx) s0 s1 s0 s1
              (0, s0 * os - 1, 0, s1 * os - 1) HptD Eps HdD eq_refl eq_refl Hs0 Hs1 Hs0 Hs1 ltac:(lia)
              ltac:(discriminate) Hb) as (outD & oD & ED & ShD & FoD & ND & MD & GD).
  pose proof (propagate_metadata S sq (@no_shift S) wD outD (fst du) (snd du) (Some (s0, s1)) None os None ED) as (LamD & _).
  exists outF, sc, oF, outD, oD. repeat (split; [assumption|]).
  assert (Hcommon : forall i j, 0 <= i < s0 * os -> 0 <= j < s1 * os ->
    get oF i j = (lsum S (map (fun f => match fd f with
                                        | D2 a => fourier_sum a (/ zq N0)%Qc (/ zq N1)%Qc (offr f) (offc f)
                                                    (zq (i - (s0 * os) / 2)) (zq (j - (s1 * os) / 2))
                                        | D0 _ => k0 end) (Fft.wdata wF))
                  * sq (/ zq (N0 * N1))%Qc)%K).
  { intros i j Hi Hj. rewrite GF by lia. rewrite NF, MF.
    rewrite (grid_transform_is_sum_of_fields S Sring sq) by exact Hg.
    rewrite (fold_left_add_lsum S Sring). unfold ortho_scale, field_ft. ring. }
  destruct (reported_alpha_axes N0 N1 dx du z os ltac:(lia) ltac:(lia) ltac:(lia) Hd0 Hu0 Hd1 Hu1 Hz Hcom) as [A0 A1].
  intros i j Hi Hj. split.
  - rewrite Hcommon by assumption. rewrite (GD i j Hi Hj). cbv zeta. cbn [wwl wfocal wdata wD].
    fold lamF in A0, A1. rewrite A0, A1.
    replace (inE (0, s0 * os - 1, 0, s1 * os - 1) i j) with true by (unfold inE, inb; lia).
    replace (inE (array_extent (s0 * os) (s1 * os) 0 0) (i - s0 * os / 2) (j - s1 * os / 2)) with true
      by (unfold inE, inb, array_extent; lia).
    cbn [andb]. f_equal. now apply ortho_is_unitary_scale2.
  - rewrite Hcommon by assumption. now rewrite (lsum_map_fold S).
Qed.

(* the same with the vocabulary of Proofs/FftP.v unfolded (the form quoted in Properties/C09.v) *)
Theorem fft_equals_dft_anisotropic_explicit (wF : Fft.wavefront S) (N0 N1 : Z) (dx du : Qc * Qc) (z : Qc) (os s0 s1 : Z)
        (scratch : option (arr S)) :
  0 < N0 -> 0 < N1 -> 0 < os ->
  fst dx <> 0%Qc -> fst du <> 0%Qc -> snd dx <> 0%Qc -> snd du <> 0%Qc -> z <> 0%Qc ->
  Fft.wpix wF = dx -> Fft.wz wF = z ->
  fft_grid dx du z (Fft.wlam wF) os = (N0, N1) ->
  ((zq N0 / zq os * fst dx * fst du) / z)%Qc = ((zq N1 / zq os * snd dx * snd du) / z)%Qc ->
  Fft.has_tilt wF = false -> Fft.wpt wF <> PNone ->
  (forall f, In f (Fft.wdata wF) ->
     match fd f with
     | D2 a => (0 < nr a /\ 0 < nc a) /\
               0 <= N0 / 2 - nr a / 2 + offr f /\ N0 / 2 - nr a / 2 + offr f + nr a <= N0 /\
               0 <= N1 / 2 - nc a / 2 + offc f /\ N1 / 2 - nc a / 2 + offc f + nc a <= N1
     | D0 _ => False
     end) ->
  0 < s0 -> 0 < s1 -> s0 * os <= N0 -> s1 * os <= N1 ->
  match scratch with
  | Some buf => N0 <= nr buf /\ N1 <= nc buf
  | None => 0 < fst (Fft.wshape wF) /\ 0 < snd (Fft.wshape wF) /\
            forall f r c, In f (Fft.wdata wF) ->
              inr (fst (Fft.wshape wF)) (r + fst (Fft.wshape wF) / 2) && inr (snd (Fft.wshape wF)) (c + snd (Fft.wshape wF) / 2) = false ->
              embed f r c = k0
  end ->
  let lamF := prop_wavelength N0 N1 dx du z os in
  let wD := mkWf lamF (Some dx) (Some z) (Fft.wshape wF)
                 (match Fft.wpt wF with PNone => PtNone | PPupil => PtPupil | PImage => PtImage end) (Fft.wdata wF) in
  exists outF sc oF outD oD,
    propagate_fft sq wF du (Some (s0, s1)) os scratch = Ok (outF, sc) /\
    Fft.wfield outF = Ok oF /\ Fft.wlam outF = lamF /\ Fft.wshape outF = (s0 * os, s1 * os) /\
    propagate_dft sq (@no_shift S) wD (fst du) (snd du) (Some (s0, s1)) None os None = Ok outD /\
    wfield outD = Ok oD /\ wwl outD = lamF /\ wshape outD = (s0 * os, s1 * os) /\
    nr oF = s0 * os /\ nc oF = s1 * os /\ nr oD = s0 * os /\ nc oD = s1 * os /\
    forall i j, 0 <= i < s0 * os -> 0 <= j < s1 * os ->
      get oF i j = get oD i j /\
      get oF i j =
        (fold_right (fun f acc =>
           (match fd f with
            | D2 a => sumZ (nr a) (fun x => sumZ (nc a) (fun y =>
                (get a x y * ke (/ zq N0 * zq (x - nr a / 2 + offr f) * zq (i - (s0 * os) / 2)
                                 + / zq N1 * zq (y - nc a / 2 + offc f) * zq (j - (s1 * os) / 2))%Qc)%K))
            | D0 _ => k0
            end + acc)%K) k0 (Fft.wdata wF)
         * sq (/ zq (N0 * N1))%Qc)%K.
Proof.
  intros H1 H2 H3 H4 H5 H6 H7 H8 H9 H10 H11 H12 H13 H14 Hfit.
  apply (fft_equals_dft_anisotropic wF N0 N1 dx du z os s0 s1 scratch H1 H2 H3 H4 H5 H6 H7 H8 H9 H10 H11 H12 H13 H14).
  intros f Hf. specialize (Hfit f Hf). unfold fgood, fits. destruct (fd f); [contradiction|]. tauto.
Qed.
End FftChain.

(* the side condition holds whenever the ideal grid lambda z os / (dx du) is a whole number on both axes; the reported
   wavelength is then the requested one *)
Lemma whole_grids_commensurate N0 N1 dx du z os lam :
  os <> 0 -> fst dx <> 0%Qc -> fst du <> 0%Qc -> snd dx <> 0%Qc -> snd du <> 0%Qc -> z <> 0%Qc ->
  (lam * z * zq os / (fst dx * fst du))%Qc = zq N0 -> (lam * z * zq os / (snd dx * snd du))%Qc = zq N1 ->
  ((zq N0 / zq os * fst dx * fst du) / z)%Qc = ((zq N1 / zq os * snd dx * snd du) / z)%Qc /\
  prop_wavelength N0 N1 dx du z os = lam.
Proof.
  intros Hos Hd0 Hu0 Hd1 Hu1 Hz E0 E1. pose proof (zq_neq0 os Hos) as Ho.
  assert (A0 : ((zq N0 / zq os * fst dx * fst du) / z)%Qc = lam) by (rewrite <- E0; field; auto).
  assert (A1 : ((zq N1 / zq os * snd dx * snd du) / z)%Qc = lam) by (rewrite <- E1; field; auto).
  split; [congruence|]. unfold prop_wavelength. rewrite A0, A1. apply qmin_same.
Qed.
