(* WP-T4, C18: the integer/rational bookkeeping of lentil/wfe.py:power_spectrum (the frequency grid, the integers
   under the two scalar square roots) and of the cosmic-ray generator of lentil/detector.py (the integer box handed to
   _propagate_ray, the shapes handed on), translated from the source text on every check (Gen/NoiseSrc.v).
   Model/Noise.v takes the filtered draw and the deposits of the rays as oracle inputs; harness/props/c18.py computes
   them with exactly this grid (ps_filtered_draw) and this box (cosmic_ray_deposits): the theorems say that the source
   still uses the grid and the box the oracle inputs are computed with. *)
From LV Require Import Model.Rescale Gen.NoiseSrc Proofs.SrcTac Proofs.SrcQ.

(* the frequency (cycles/px) of sample i of an axis of n samples: (i - (floor(n/2) + 1))/n - index floor(n/2) + 1 is
   frequency 0 (one sample past the fftshift centre) *)
Definition ps_freq (n i : Z) : Qc := (zq (i - (n / 2 + 1))%Z / zq n)%Qc.

Lemma src_ps_freq_ok : forall n m i j : Z, (0 < n)%Z -> (0 < m)%Z ->
  let '(y, x, s2, mn) := src_ps_freq (n, m) i j in
  (zq (fst y) / zq (snd y))%Qc = ps_freq n i /\ (zq (fst x) / zq (snd x))%Qc = ps_freq m j /\
  s2 = (n * n + m * m)%Z /\ mn = (n * m)%Z.
Proof.
  intros n m i j Hn Hm. unfold src_ps_freq, ps_freq. src_norm. cbn [fst snd].
  repeat split; first [apply zq_frac_eq; first [lia | nia | ring] | ring | nia].
Qed.

(* the box of the cosmic-ray tracer: rows 0..n-1, columns 0..m-1, one pixel deep (z from 0 down to -1) *)
Definition cosmic_box (n m : Z) : Z * Z * Z * Z * Z * Z := (0, n - 1, 0, m - 1, 0, -1)%Z.

Lemma src_cosmic_extent_ok : forall n m : Z, src_cosmic_extent (n, m) = (cosmic_box n m, (n, m)).
Proof. intros; unfold src_cosmic_extent, cosmic_box; src_finish. Qed.

Lemma src_cosmic_shape_ok : forall n m : Z, src_cosmic_shape (n, m) = ((n, m), (n, m), (n, m)).
Proof. intros; unfold src_cosmic_shape; src_finish. Qed.
