(* C03: what is propagated depends on the wavefront's fields only through the sum of their embeddings,
   so the segmented and the monolithic description of an aperture give the same far field. *)
From LV Require Import Model.Segment Proofs.FieldP Proofs.PlaneP Proofs.PropagateP.

(* helper.slice_offset: which index expressions give which offset, which are refused *)
Theorem slice_offset_any_outcome (s : slice_arg) (sr sc : Z) :
  match slice_offset_any s sr sc with
  | Ok o => ((s = SlEllipsis \/ s = SlEllFull) /\ o = (0, 0)) \/
            exists r0 r1 c0 c1, s = SlPair r0 r1 c0 c1 /\
              o = (r0 + (r1 - r0) / 2 - sr / 2, c0 + (c1 - c0) / 2 - sc / 2)
  | Err e => e = ValueError /\ s = SlEllOther
  end.
Proof. destruct s; cbn; auto. right. now exists r0, r1, c0, c1. Qed.

Section SegmentP.
Variable S : Scalar.
Hypothesis Sring : is_ring S.
Hypothesis Skernel : kernel_laws S.
Variable sq : Qc -> S.

(* two untilted wavefronts with equal attributes whose fields add up to the same plane: propagate_dft
   succeeds on both and Wavefront.field of the results agree at every sample *)
Theorem propagate_same_plane shift_of (w1 w2 : wavefront S) dur duc shape pshape os mask dxr dxc Sr Sc Pr Pc b B :
  wwl w1 = wwl w2 -> wfocal w1 = wfocal w2 -> wshape w1 = wshape w2 -> wptype w1 = wptype w2 ->
  wptype w1 <> PtNone -> wps w1 = Some (dxr, dxc) -> wps w2 = Some (dxr, dxc) ->
  (forall f, In f (wdata w1) -> shift_of f = (0%Qc, 0%Qc) /\ sized S f /\ in_box B (fextent f)) ->
  (forall f, In f (wdata w2) -> shift_of f = (0%Qc, 0%Qc) /\ sized S f /\ in_box B (fextent f)) ->
  (forall r c, embed_sum (wdata w1) r c = embed_sum (wdata w2) r c) ->
  match shape with None => wshape w1 | Some s => s end = (Sr, Sc) ->
  match pshape with None => (Sr, Sc) | Some p => p end = (Pr, Pc) ->
  0 < Sr -> 0 < Sc -> 0 < Pr -> 0 < Pc -> 1 <= os -> Sr * os < maxsize -> Sc * os < maxsize ->
  (forall m, mask = Some m -> mnr m = Sr * os /\ mnc m = Sc * os) ->
  mask_bbox mask (Sr * os) (Sc * os) = Ok b ->
  exists w1' w2' o1 o2 i1 i2,
    propagate_dft sq shift_of w1 dur duc shape pshape os mask = Ok w1' /\
    propagate_dft sq shift_of w2 dur duc shape pshape os mask = Ok w2' /\
    wshape w1' = (Sr * os, Sc * os) /\ wshape w2' = (Sr * os, Sc * os) /\
    wfield w1' = Ok o1 /\ wfield w2' = Ok o2 /\ nr o1 = Sr * os /\ nc o1 = Sc * os /\
    wintensity w1' = Ok i1 /\ wintensity w2' = Ok i2 /\
    forall i j, 0 <= i < Sr * os -> 0 <= j < Sc * os -> get o1 i j = get o2 i j /\ get i1 i j = get i2 i j.
Proof.
  intros El Ef Es Et Hpt Hp1 Hp2 Hd1 Hd2 He Hshape Hpshape HSr HSc HPr HPc Hos HbR HbC Hm Hb.
  assert (D1 : forall f, In f (wdata w1) -> shift_of f = (0%Qc, 0%Qc) /\ exists a, fd f = D2 a).
  { intros f Hf. destruct (Hd1 f Hf) as (A & (a & Ea & _) & _). split; [exact A|now exists a]. }
  assert (D2' : forall f, In f (wdata w2) -> shift_of f = (0%Qc, 0%Qc) /\ exists a, fd f = D2 a).
  { intros f Hf. destruct (Hd2 f Hf) as (A & (a & Ea & _) & _). split; [exact A|now exists a]. }
  assert (Hpt2 : wptype w2 <> PtNone) by (rewrite <- Et; exact Hpt).
  assert (Hshape2 : match shape with None => wshape w2 | Some s => s end = (Sr, Sc)) by (rewrite <- Es; exact Hshape).
  destruct (propagate_dft_samples S Sring Skernel sq shift_of w1 dur duc shape pshape os mask dxr dxc Sr Sc Pr Pc b
              Hpt Hp1 D1 Hshape Hpshape HSr HSc HPr HPc Hos Hm Hb) as (w1' & o1 & E1 & S1 & F1 & Nn & Nm & G1).
  destruct (propagate_dft_samples S Sring Skernel sq shift_of w2 dur duc shape pshape os mask dxr dxc Sr Sc Pr Pc b
              Hpt2 Hp2 D2' Hshape2 Hpshape HSr HSc HPr HPc Hos Hm Hb) as (w2' & o2 & E2 & S2 & F2 & _ & _ & G2).
  destruct (propagate_dft_intensity S Sring Skernel sq shift_of w1 dur duc shape pshape os mask dxr dxc Sr Sc Pr Pc b
              Hpt Hp1 (fun f Hf => proj2 (D1 f Hf)) Hshape Hpshape HSr HSc HPr HPc Hos HbR HbC Hm Hb)
    as (w1'' & o1' & i1 & E1' & F1' & I1 & _ & _ & GI1).
  destruct (propagate_dft_intensity S Sring Skernel sq shift_of w2 dur duc shape pshape os mask dxr dxc Sr Sc Pr Pc b
              Hpt2 Hp2 (fun f Hf => proj2 (D2' f Hf)) Hshape2 Hpshape HSr HSc HPr HPc Hos HbR HbC Hm Hb)
    as (w2'' & o2' & i2 & E2' & F2' & I2 & _ & _ & GI2).
  rewrite E1 in E1'. injection E1' as <-. rewrite E2 in E2'. injection E2' as <-.
  rewrite F1 in F1'. injection F1' as <-. rewrite F2 in F2'. injection F2' as <-.
  exists w1', w2', o1, o2, i1, i2. repeat (split; [assumption|]).
  assert (Gf : forall i j, 0 <= i < Sr * os -> 0 <= j < Sc * os -> get o1 i j = get o2 i j); cycle 1.
  { intros i j Hi Hj. split; [now apply Gf|]. rewrite GI1, GI2 by assumption. f_equal. now apply Gf. }
  intros i j Hi Hj. rewrite (G1 i j Hi Hj), (G2 i j Hi Hj). cbv zeta. rewrite <- El, <- Ef.
  destr_if; [|reflexivity]. f_equal.
  rewrite (fields_sum_is_plane_transform S Sring sq (wdata w1) B) by (intros f Hf; destruct (Hd1 f Hf) as (_ & A & Bx); now split).
  rewrite (fields_sum_is_plane_transform S Sring sq (wdata w2) B) by (intros f Hf; destruct (Hd2 f Hf) as (_ & A & Bx); now split).
  apply plane_fraunhofer_ext. exact He.
Qed.

Lemma fsized_sized (f : field S) : fsized f -> sized S f.
Proof. unfold fsized, sized. destruct (fd f) as [v|d]; [contradiction|]. intros H. exists d. now split. Qed.

(* C03, end to end: Wavefront * P1 * ... * Pk -> propagate_dft gives the same complex field and intensity at
   every output sample whether every Pi is given by its segment masks or by their union *)
Theorem segmented_eq_monolithic (segs monos : list (plane S)) (w ws wm : pwf S) dur duc shape pshape os
        dxr dxc n m Sr Sc Pr Pc B :
  Forall2 (fun Ps Pm => exists n m, partition_of Ps Pm n m) segs monos -> segs <> [] ->
  (forall f, In f (pw_data w) -> fwell f) ->
  chain_multiply segs w = Ok ws -> chain_multiply monos w = Ok wm ->
  (forall f, In f (pw_data ws) -> in_box B (fextent f)) -> (forall f, In f (pw_data wm) -> in_box B (fextent f)) ->
  pw_shape ws = Some (n, m) -> pw_pix ws = Some (dxr, dxc) -> pw_focal ws <> FNone ->
  match shape with None => (n, m) | Some s => s end = (Sr, Sc) ->
  match pshape with None => (Sr, Sc) | Some p => p end = (Pr, Pc) ->
  0 < Sr -> 0 < Sc -> 0 < Pr -> 0 < Pc -> 1 <= os -> Sr * os < maxsize -> Sc * os < maxsize ->
  exists v1 v2 o1 o2 i1 i2,
    chain_propagate sq segs w dur duc shape pshape os = Ok v1 /\
    chain_propagate sq monos w dur duc shape pshape os = Ok v2 /\
    wfield v1 = Ok o1 /\ wfield v2 = Ok o2 /\ nr o1 = Sr * os /\ nc o1 = Sc * os /\
    wintensity v1 = Ok i1 /\ wintensity v2 = Ok i2 /\
    forall i j, 0 <= i < Sr * os -> 0 <= j < Sc * os -> get o1 i j = get o2 i j /\ get i1 i j = get i2 i j.
Proof.
  intros Hp Hne Hf R1 R2 B1 B2 Hsh Hpx Hfo Hshape Hpshape HSr HSc HPr HPc Hos HbR HbC.
  destruct (chain_partition S Sring segs monos Hp w ws wm Hf R1 R2) as (El & Es & Epx & Efo & Ee).
  assert (Ok1 : forall P, In P segs -> exists n m, plane_ok P n m).
  { clear - Hp. induction Hp as [|Ps Pm l1 l2 (n & m & Hq) F IH]; intros P HP; [destruct HP|].
    destruct HP as [<-|HP]; [|now apply IH]. exists n, m. now destruct Hq as (_ & _ & _ & _ & O1 & _). }
  assert (Ok2 : forall P, In P monos -> exists n m, plane_ok P n m).
  { clear - Hp. induction Hp as [|Ps Pm l1 l2 (n & m & Hq) F IH]; intros P HP; [destruct HP|].
    destruct HP as [<-|HP]; [|now apply IH]. exists n, m. now destruct Hq as (_ & _ & _ & _ & _ & O2 & _). }
  assert (Hne2 : monos <> []) by (destruct Hp; [congruence|discriminate]).
  pose proof (chain_multiply_sized S Sring segs Ok1 Hne w ws Hf R1) as N1.
  pose proof (chain_multiply_sized S Sring monos Ok2 Hne2 w wm Hf R2) as N2.
  unfold chain_propagate. rewrite R1, R2. cbn [rbind].
  unfold to_wavefront. rewrite <- Es, <- Efo, Hsh.
  assert (Hgo : forall z : option Qc,
    let a := mkWf (pw_lam ws) (pw_pix ws) z (n, m) PtPupil (pw_data ws) in
    let b := mkWf (pw_lam wm) (pw_pix wm) z (n, m) PtPupil (pw_data wm) in
    exists v1 v2 o1 o2 i1 i2,
      propagate_dft sq (@no_shift S) a dur duc shape pshape os None = Ok v1 /\
      propagate_dft sq (@no_shift S) b dur duc shape pshape os None = Ok v2 /\
      wfield v1 = Ok o1 /\ wfield v2 = Ok o2 /\ nr o1 = Sr * os /\ nc o1 = Sc * os /\
      wintensity v1 = Ok i1 /\ wintensity v2 = Ok i2 /\
      forall i j, 0 <= i < Sr * os -> 0 <= j < Sc * os -> get o1 i j = get o2 i j /\ get i1 i j = get i2 i j).
  { intros z a b.
    assert (Hb : mask_bbox None (Sr * os) (Sc * os) = Ok (0, Sr * os - 1, 0, Sc * os - 1)) by reflexivity.
    destruct (propagate_same_plane (@no_shift S) a b dur duc shape pshape os None dxr dxc Sr Sc Pr Pc (0, Sr * os - 1, 0, Sc * os - 1) B)
      as (v1 & v2 & o1 & o2 & i1 & i2 & E1 & E2 & S1 & S2 & F1 & F2 & Nn & Nm & I1 & I2 & G); subst a b; cbn [wwl wfocal wshape wptype wps wdata];
      try assumption; try reflexivity; try congruence; try discriminate.
    - intros f Hf'. split; [reflexivity|]. split; [now apply fsized_sized, N1|now apply B1].
    - intros f Hf'. split; [reflexivity|]. split; [now apply fsized_sized, N2|now apply B2].
    - intros r c. rewrite <- !(sized_ec S Sring) by assumption. apply Ee.
    - exists v1, v2, o1, o2, i1, i2. repeat (split; [assumption|]). exact G. }
  destruct (pw_focal ws) as [| |q]; [apply Hgo|congruence|apply Hgo].
Qed.

(* the tilt-aware call coincides with the untilted one on wavefronts whose fields carry no tilt *)
Lemma ang_shift_untilted z dur duc os (f : field S) : ftilt f = [] -> ang_shift z dur duc os f = (0%Qc, 0%Qc).
Proof. intros H. unfold ang_shift. rewrite H. cbn [fold_left fst snd]. f_equal; unfold Qcdiv; ring. Qed.

Lemma prop_fields_shift_ext (s1 s2 : field S -> Qc * Qc) oe Pro Pco alpha (fs : list (field S)) :
  (forall f, In f fs -> s1 f = s2 f) ->
  prop_fields sq s1 oe Pro Pco alpha fs = prop_fields sq s2 oe Pro Pco alpha fs.
Proof. induction fs as [|f r IH]; intros H; cbn [prop_fields]; [reflexivity|].
  rewrite (H f) by now left. rewrite IH by (intros; apply H; now right). reflexivity. Qed.

Theorem propagate_dft_shift_ext (s1 s2 : field S -> Qc * Qc) (w : wavefront S) dur duc shape pshape os mask :
  (forall f, In f (wdata w) -> s1 f = s2 f) ->
  propagate_dft sq s1 w dur duc shape pshape os mask = propagate_dft sq s2 w dur duc shape pshape os mask.
Proof. intros H. unfold propagate_dft.
  destruct (propagate_ptype (wptype w)) as [t|e]; cbn [rbind]; [|reflexivity].
  destruct (match shape with Some s => s | None => wshape w end) as [Sr Sc].
  destruct (match pshape with Some p => p | None => (Sr, Sc) end) as [Pr Pc].
  destruct (out_extent (Sr * os) (Sc * os) mask) as [oe|e]; cbn [rbind]; [|reflexivity].
  now rewrite (prop_fields_shift_ext s1 s2 _ _ _ _ _ H). Qed.

Theorem chain_propagate_tilted_untilted (ps : list (plane S)) (w w1 : pwf S) dur duc shape pshape os :
  chain_multiply ps w = Ok w1 -> (forall f, In f (pw_data w1) -> ftilt f = []) ->
  chain_propagate_tilted sq ps w dur duc shape pshape os = chain_propagate sq ps w dur duc shape pshape os.
Proof.
  intros E H. unfold chain_propagate_tilted, chain_propagate. rewrite E. cbn [rbind].
  unfold to_wavefront. destruct (pw_shape w1) as [sh|]; [|reflexivity].
  destruct (pw_focal w1); cbn [rbind]; try reflexivity;
    apply propagate_dft_shift_ext; cbn [wdata wfocal]; intros f Hf; now rewrite ang_shift_untilted by (now apply H).
Qed.
(* what the offset is for: the crop g[r0:r1, c0:c1] carried as a Field at helper.slice_offset of its slice pair occupies
   exactly the samples of the box, with the parent's values (the parent carried whole, offset (0, 0)) *)
Theorem slice_offset_places_crop (g : arr S) r0 r1 c0 c1 o tl r c :
  slice_offset_any (SlPair r0 r1 c0 c1) (nr g) (nc g) = Ok o ->
  0 <= r0 -> r0 <= r1 -> r1 <= nr g -> 0 <= c0 -> c0 <= c1 -> c1 <= nc g ->
  embed (mkField (D2 (force (aslice g r0 r1 c0 c1))) (fst o) (snd o) tl) r c
  = if (r0 <=? r + nr g / 2) && (r + nr g / 2 <? r1) && (c0 <=? c + nc g / 2) && (c + nc g / 2 <? c1)
    then embed (mkField (D2 (force g)) 0 0 tl) r c else k0.
Proof.
  intros E A1 A2 A3 B1 B2 B3. cbn [slice_offset_any] in E. injection E as <-.
  change (r0 + (r1 - r0) / 2 - nr g / 2, c0 + (c1 - c0) / 2 - nc g / 2) with (slice_offset (SBox r0 r1 c0 c1) (nr g) (nc g)).
  rewrite (box_embed S (aslice g r0 r1 c0 c1) r0 r1 c0 c1 (nr g) (nc g) tl r c) by (cbn [aslice nr nc]; lia).
  rewrite (full_embed S). unfold inr.
  destruct ((r0 <=? r + nr g / 2) && (r + nr g / 2 <? r1) && (c0 <=? c + nc g / 2) && (c + nc g / 2 <? c1)) eqn:Eb;
    [|reflexivity].
  replace ((0 <=? r + nr g / 2) && (r + nr g / 2 <? nr g) && ((0 <=? c + nc g / 2) && (c + nc g / 2 <? nc g))) with true by lia.
  cbn [aslice get]. f_equal; lia.
Qed.
End SegmentP.
