(* Lemmas about the hand-written model of the plane-type code (Model/PTypeMeta.v): what it does to
   the whole wavefront record, that it abstracts to the hand-written transition function of
   Model/PTypeSpec.v (lists of any length: induction), and that this function is the observed one
   (finite case analysis, re-checked against the regenerated table on every run). *)
From LV Require Import Model.PTypeSpec Proofs.PTypeP.

(* ---- tables ---- *)
Lemma hand_table_is_doc : forall w p, hand_table w p = doc_mul w p.
Proof. intros; fin; reflexivity. Qed.

Lemma propagate_ptype_is_doc : forall m w,
  match propagate_ptype w with Ok t => Some t | Err _ => None end = doc_prop m w.
Proof. intros; fin; reflexivity. Qed.

Lemma propagate_ptype_refusal : forall w e, propagate_ptype w = Err e -> e = TypeError /\ w = WNone.
Proof. intros [] e H; inversion H; auto. Qed.

(* ---- ptype() and the Wavefront.ptype setter ---- *)
Lemma set_wavefront_ptype_spec : forall a,
  match set_wavefront_ptype a with
  | Ok w => make_ptype a = Ok (ptype_of_wtype w)
  | Err e => e = TypeError /\
             (make_ptype a = Err TypeError \/ make_ptype a = Ok PTilt \/ make_ptype a = Ok PTransform)
  end.
Proof.
  intros [| [] | []]; cbn; auto.
Qed.

(* ---- _mul_pixelscale ---- *)
Lemma mul_pixelscale_spec : forall a b,
  mul_pixelscale a b =
  if mism_of a b then Err ValueError
  else Ok (match a with Some x => Some x | None => b end).
Proof.
  intros [x|] [y|]; cbn; try reflexivity. destruct (psc_eqb x y); reflexivity.
Qed.

(* ---- the field loop ---- *)
Lemma filter_none : forall (A : Type) (f : A -> bool) l, (forall x, f x = false) -> filter f l = [].
Proof. induction l as [| x l IH]; intros H; cbn; [reflexivity|]. rewrite H. auto. Qed.

Lemma seq_from_In : forall n k x, In x (seq_from k n) <-> (k <= x < k + n)%nat.
Proof.
  induction n as [| n IH]; intros k x; cbn.
  - split; [tauto | lia].
  - rewrite IH. split; [intros [->|H]; lia | intros H; destruct (Nat.eq_dec k x); [auto | right; lia]].
Qed.

Lemma mul_fields_clip : forall fs i nseg pt ov,
  (forall i n, ov i n = false) -> mul_fields i fs nseg pt ov = [].
Proof.
  induction fs as [| f fs IH]; intros i nseg pt ov H; cbn; [reflexivity|].
  rewrite filter_none by (intro; apply H). cbn. apply IH. exact H.
Qed.

Lemma mul_fields_entries : forall fs i nseg pt ov x,
  In x (mul_fields i fs nseg pt ov) -> exists f, In f fs /\ x = f + pt.
Proof.
  induction fs as [| f fs IH]; intros i nseg pt ov x H; cbn in H; [contradiction|].
  apply in_app_or in H. destruct H as [H | H].
  - apply in_map_iff in H. destruct H as [_ [E _]]. exists f. split; [left; reflexivity | auto].
  - destruct (IH _ _ _ _ _ H) as [g [G E]]. exists g. split; [right; exact G | exact E].
Qed.

Lemma mul_fields_nonempty : forall f fs i nseg pt ov,
  (exists n, (n < nseg)%nat /\ ov i n = true) -> mul_fields i (f :: fs) nseg pt ov <> [].
Proof.
  intros f fs i nseg pt ov [n [L O]]. cbn.
  assert (In n (filter (ov i) (seq_from 0 nseg))) as I.
  { apply filter_In. split; [apply seq_from_In; lia | exact O]. }
  destruct (filter (ov i) (seq_from 0 nseg)); [contradiction | cbn; discriminate].
Qed.

(* number of products = number of overlapping (field, segment) pairs *)
Lemma mul_fields_length : forall fs i nseg pt ov,
  length (mul_fields i fs nseg pt ov) =
  fold_right (fun k acc => (length (filter (ov k) (seq_from 0 nseg)) + acc)%nat) 0%nat
             (seq_from i (length fs)).
Proof.
  induction fs as [| f fs IH]; intros; cbn; [reflexivity|].
  rewrite app_length, map_length, IH. reflexivity.
Qed.

(* ---- content ---- *)
Definition all0 (fs : list Z) : bool := forallb (fun f => f =? 0) fs.
Definition alln0 (fs : list Z) : bool := forallb (fun f => negb (f =? 0)) fs.

Lemma has_tilt_all0 : forall fs, has_tilt fs = negb (all0 fs).
Proof.
  induction fs as [| f fs IH]; cbn; [reflexivity|]. unfold has_tilt, all0 in *. cbn.
  rewrite IH. destruct (f =? 0); reflexivity.
Qed.

Lemma content_all0 : forall fs, fs <> [] -> all0 fs = true -> content_of fs = Plain.
Proof. intros [| f fs] N H; [contradiction|]. unfold content_of. rewrite has_tilt_all0, H. reflexivity. Qed.

Lemma alln0_not_all0 : forall fs, fs <> [] -> alln0 fs = true -> all0 fs = false.
Proof.
  intros [| f fs] N H; [contradiction|]. unfold alln0, all0 in *. cbn in *.
  apply andb_prop in H. destruct H as [H _]. destruct (f =? 0); [discriminate | reflexivity].
Qed.

Lemma content_alln0 : forall fs, fs <> [] -> alln0 fs = true -> content_of fs = Tilted.
Proof.
  intros fs N H. pose proof (alln0_not_all0 fs N H) as A. destruct fs; [contradiction|].
  unfold content_of. rewrite has_tilt_all0, A. reflexivity.
Qed.

Lemma content_cases : forall fs, uniform fs = true ->
  (fs = [] /\ content_of fs = Empty) \/
  (fs <> [] /\ all0 fs = true /\ content_of fs = Plain) \/
  (fs <> [] /\ alln0 fs = true /\ content_of fs = Tilted).
Proof.
  intros fs U. destruct fs as [| f fs]; [left; auto|]. right.
  assert (f :: fs <> []) as N by discriminate.
  unfold uniform in U. apply orb_prop in U. destruct U as [U | U].
  - left. split; [exact N|]. split; [exact U | apply content_all0; assumption].
  - right. split; [exact N|]. split; [exact U | apply content_alln0; assumption].
Qed.

Lemma forallb_sub : forall (P : Z -> bool) l l',
  forallb P l = true -> (forall x, In x l' -> In x l) -> forallb P l' = true.
Proof.
  intros P l l' H S. apply forallb_forall. intros x I. apply (proj1 (forallb_forall P l) H). auto.
Qed.

Lemma mul_fields_sub : forall fs i nseg ov x, In x (mul_fields i fs nseg 0 ov) -> In x fs.
Proof.
  intros fs i nseg ov x H. destruct (mul_fields_entries _ _ _ _ _ _ H) as [f [I E]].
  rewrite Z.add_0_r in E. subst x. exact I.
Qed.

Definition covers (ov : nat -> nat -> bool) (nseg : nat) (fs : list Z) (clip : bool) : Prop :=
  (clip = true -> forall i n, ov i n = false) /\
  (clip = false -> forall i, (i < length fs)%nat -> exists n, (n < nseg)%nat /\ ov i n = true).

Lemma mul_fields_content : forall fs nseg ov clip,
  uniform fs = true -> covers ov nseg fs clip ->
  let r := mul_fields 0 fs nseg 0 ov in
  content_of r = mul_content MKPlane clip (content_of fs) /\
  (r = [] <-> mul_content MKPlane clip (content_of fs) = Empty) /\
  uniform r = true /\ (nonneg fs = true -> nonneg r = true).
Proof.
  intros fs nseg ov clip U [Hc Hn] r.
  assert (nonneg fs = true -> nonneg r = true) as NN.
  { intro H. unfold nonneg. eapply forallb_sub; [exact H | apply mul_fields_sub]. }
  destruct clip.
  - assert (r = []) as E by (apply mul_fields_clip; auto). rewrite E.
    destruct (content_cases fs U) as [[_ C] | [[_ [_ C]] | [_ [_ C]]]]; rewrite C; cbn; repeat split; auto.
  - destruct (content_cases fs U) as [[E C] | [[N [A C]] | [N [A C]]]]; rewrite C; cbn.
    + subst fs. cbn. repeat split; auto.
    + assert (r <> []) as RN.
      { destruct fs as [| f fs]; [contradiction|]. apply mul_fields_nonempty. apply Hn; cbn; [reflexivity | lia]. }
      assert (all0 r = true) as RA by (unfold all0; eapply forallb_sub; [exact A | apply mul_fields_sub]).
      split; [apply content_all0; assumption|]. split; [split; [contradiction | discriminate]|].
      split; [unfold uniform; fold (all0 r); rewrite RA; reflexivity | exact NN].
    + assert (r <> []) as RN.
      { destruct fs as [| f fs]; [contradiction|]. apply mul_fields_nonempty. apply Hn; cbn; [reflexivity | lia]. }
      assert (alln0 r = true) as RA by (unfold alln0; eapply forallb_sub; [exact A | apply mul_fields_sub]).
      split; [apply content_alln0; assumption|]. split; [split; [contradiction | discriminate]|].
      split; [unfold uniform; fold (alln0 r); rewrite RA; apply orb_true_r | exact NN].
Qed.

Lemma tilt_tag_content : forall l, nonneg l = true ->
  content_of (map (fun f => f + 1) l) = match l with [] => Empty | _ => Tilted end /\
  uniform (map (fun f => f + 1) l) = true /\ nonneg (map (fun f => f + 1) l) = true.
Proof.
  intros l H.
  assert (alln0 (map (fun f => f + 1) l) = true /\ nonneg (map (fun f => f + 1) l) = true) as [A B].
  { unfold alln0, nonneg in *. induction l as [| f l IH]; cbn; [auto|].
    cbn in H. apply andb_prop in H. destruct H as [H0 H1]. destruct (IH H1) as [A B].
    rewrite A, B. split; apply andb_true_intro; split; auto; lia. }
  split; [| split; [unfold uniform; fold (alln0 (map (fun f => f + 1) l)); rewrite A; apply orb_true_r | exact B]].
  destruct l as [| f l]; [reflexivity|]. apply content_alln0; [discriminate | exact A].
Qed.

(* ---- Plane.multiply and its overrides abstract to the hand-written transition function ---- *)
Lemma multiply_abstracts : forall pl ov w clip,
  p_ntilt pl = 0 -> uniform (w_fields w) = true -> nonneg (w_fields w) = true ->
  covers ov (p_nseg pl) (w_fields w) clip ->
  abs_mul_out w (multiply pl ov w) =
  hand_mul_outcome (mk_of (p_kind pl)) (p_ty pl) clip (mism_of (p_ps pl) (w_ps w)) (abs_state w).
Proof.
  intros pl ov w clip PT U NN CV. unfold multiply, plane_multiply, hand_mul_outcome. cbn [abs_state ty body].
  destruct (hand_table (w_ty w) (p_ty pl)) as [t|]; [| reflexivity].
  rewrite mul_pixelscale_spec. destruct (mism_of (p_ps pl) (w_ps w)); [reflexivity|].
  rewrite PT.
  destruct (mul_fields_content (w_fields w) (p_nseg pl) ov clip U CV) as [C [_ [_ N']]].
  specialize (N' NN).
  destruct (p_kind pl) as [| [f|] | |]; unfold abs_mul_out, abs_state; cbn -[content_of mul_fields mul_content];
    try (rewrite C; reflexivity).
  destruct (tilt_tag_content _ N') as [T _]. rewrite T.
  destruct (mul_fields_content (w_fields w) (p_nseg pl) ov clip U CV) as [C' [E' _]].
  destruct (mul_fields 0 (w_fields w) (p_nseg pl) 0 ov) eqn:R.
  - assert (mul_content MKPlane clip (content_of (w_fields w)) = Empty) as X by (apply E'; reflexivity).
    f_equal. f_equal. destruct (content_of (w_fields w)), clip; cbn in X |- *; try reflexivity; discriminate X.
  - assert (mul_content MKPlane clip (content_of (w_fields w)) <> Empty) as X
      by (intro Y; apply E' in Y; discriminate Y).
    f_equal. f_equal. destruct (content_of (w_fields w)), clip; cbn in X |- *; try reflexivity; contradiction X; reflexivity.
Qed.

(* the invariant survives *)
Lemma multiply_keeps_invariant : forall pl ov w clip r,
  p_ntilt pl = 0 -> uniform (w_fields w) = true -> nonneg (w_fields w) = true ->
  covers ov (p_nseg pl) (w_fields w) clip ->
  (multiply pl ov w = MOk r \/ multiply pl ov w = MOkNoFocal r) ->
  uniform (w_fields r) = true /\ nonneg (w_fields r) = true.
Proof.
  intros pl ov w clip r PT U NN CV H. unfold multiply, plane_multiply in H.
  destruct (hand_table (w_ty w) (p_ty pl)); [| destruct H; discriminate].
  destruct (mul_pixelscale (p_ps pl) (w_ps w)); [| destruct H; discriminate].
  rewrite PT in H.
  destruct (mul_fields_content (w_fields w) (p_nseg pl) ov clip U CV) as [_ [_ [U' N']]].
  specialize (N' NN). destruct (tilt_tag_content _ N') as [_ [U'' N'']].
  destruct (p_kind pl) as [| [f|] | |]; destruct H as [H | H]; inversion H; subst r; cbn; auto.
Qed.

(* ---- the whole product record ---- *)
Lemma multiply_record : forall pl ov w,
  match hand_table (w_ty w) (p_ty pl) with
  | None => multiply pl ov w = MErr TypeError                 (* whatever the sampling *)
  | Some t =>
      if mism_of (p_ps pl) (w_ps w) then multiply pl ov w = MErr ValueError
      else exists r,
        (multiply pl ov w = MOk r \/ (p_kind pl = KindPupil None /\ multiply pl ov w = MOkNoFocal r)) /\
        w_ty r = (match p_kind pl with KindImage => WImage | _ => t end) /\
        w_ps r = (match p_ps pl with Some x => Some x | None => w_ps w end) /\
        w_wl r = w_wl w /\
        w_shape r = (match p_shape pl with Some s => Some s | None => w_shape w end) /\
        w_focal r = (match p_kind pl with KindPupil (Some f) => f | _ => w_focal w end) /\
        w_fields r = map (fun f => match p_kind pl with KindTilt => f + 1 | _ => f end)
                         (mul_fields 0 (w_fields w) (p_nseg pl) (p_ntilt pl) ov)
  end.
Proof.
  intros pl ov w. unfold multiply, plane_multiply.
  destruct (hand_table (w_ty w) (p_ty pl)) as [t|]; [| reflexivity].
  rewrite mul_pixelscale_spec. destruct (mism_of (p_ps pl) (w_ps w)); [reflexivity|].
  destruct (p_kind pl) as [| [f|] | |]; eexists; (split; [first [left; reflexivity | right; split; reflexivity] |]);
    cbn; repeat split; try reflexivity; symmetry; apply map_id.
Qed.

(* an Image plane always has ptype image, and then the forced type is the table's *)
Lemma image_force_is_redundant : forall w t, hand_table w PImage = Some t -> t = WImage.
Proof. intros [] t H; inversion H; reflexivity. Qed.

(* ---- propagation ---- *)
Lemma count_kept_all : forall fs i keep, (forall i, keep i = true) ->
  count_kept i fs keep = map (fun _ => 0) fs.
Proof. induction fs as [| f fs IH]; intros i keep H; cbn; [reflexivity|]. rewrite H. cbn. f_equal. auto. Qed.

Lemma content_zeros : forall (fs : list Z),
  content_of (map (fun _ => 0) fs) = match fs with [] => Empty | _ => Plain end.
Proof.
  intros [| f fs]; [reflexivity|]. apply content_all0; [discriminate|].
  unfold all0. apply forallb_forall. intros x I. apply in_map_iff in I. destruct I as [_ [E _]]. subst x. reflexivity.
Qed.

Lemma content_empty_iff : forall fs, content_of fs = Empty <-> fs = [].
Proof.
  intros [| f fs]; [split; reflexivity|]. unfold content_of.
  destruct (has_tilt (f :: fs)); split; discriminate.
Qed.

Lemma tilted_abs : forall w, tilted (abs_state w) = has_tilt (w_fields w).
Proof.
  intros w. unfold abs_state, tilted, content_of. cbn.
  destruct (w_fields w) as [| f fs]; [reflexivity|]. destruct (has_tilt (f :: fs)); reflexivity.
Qed.

Lemma propagate_dft_abstracts : forall du os shape keep w,
  w_ps w <> None -> (forall i, keep i = true) ->
  abs_result w (propagate_dft du os shape keep w) = hand_prop_outcome Dft (abs_state w).
Proof.
  intros du os shape keep w P K. unfold propagate_dft, hand_prop_outcome. cbn [abs_state ty body].
  destruct (propagate_ptype (w_ty w)) as [t | e] eqn:T.
  - destruct (w_ps w); [| contradiction]. unfold abs_result, abs_state. cbn [w_ty w_fields].
    rewrite count_kept_all by exact K. rewrite content_zeros.
    destruct (w_fields w) as [| f fs]; [reflexivity|].
    unfold content_of. destruct (has_tilt (f :: fs)); reflexivity.
  - destruct (propagate_ptype_refusal _ _ T) as [-> _]. reflexivity.
Qed.

Lemma propagate_dft_record : forall du os shape keep w t dx,
  propagate_ptype (w_ty w) = Ok t -> w_ps w = Some dx ->
  exists r, propagate_dft du os shape keep w = Ok r /\
    w_ty r = t /\ w_ps r = Some (fst du / qz os, snd du / qz os)%Q /\
    w_focal r = w_focal w /\ w_wl r = w_wl w /\
    w_shape r = (match (match shape with Some s => Some s | None => w_shape w end) with
                 | Some (a, b) => Some (a * os, b * os) | None => None end) /\
    has_tilt (w_fields r) = false /\ (length (w_fields r) <= length (w_fields w))%nat.
Proof.
  intros du os shape keep w t dx T P. unfold propagate_dft. rewrite T, P. eexists. split; [reflexivity|].
  cbn. repeat split; try reflexivity.
  - generalize 0%nat. induction (w_fields w) as [| f fs IH]; intro i; cbn; [reflexivity|].
    destruct (keep i); cbn; apply IH.
  - generalize 0%nat. induction (w_fields w) as [| f fs IH]; intro i; cbn; [lia|].
    destruct (keep i); cbn; specialize (IH (S i)); lia.
Qed.

Lemma propagate_fft_abstracts : forall du os shape w dx z,
  w_ps w = Some dx -> w_focal w = Some z ->
  (forall r c, shape = Some (r, c) ->
     let '((nr, nc), _) := fft_shape dx du z (w_wl w) os in q_gt_z r nr os || q_gt_z c nc os = false) ->
  abs_result w (propagate_fft du os shape w) = hand_prop_outcome Fft (abs_state w).
Proof.
  intros du os shape w dx z P F S. unfold propagate_fft, hand_prop_outcome.
  rewrite tilted_abs. destruct (has_tilt (w_fields w)); [reflexivity|].
  cbn [abs_state ty body].
  destruct (propagate_ptype (w_ty w)) as [t | e] eqn:T.
  - rewrite P, F. destruct (fft_shape dx du z (w_wl w) os) as [[nr nc] lam] eqn:FS.
    destruct shape as [[r c]|]; [| reflexivity].
    specialize (S r c eq_refl). rewrite S. reflexivity.
  - destruct (propagate_ptype_refusal _ _ T) as [-> _]. reflexivity.
Qed.

(* fitted tilt is refused before the type is looked at; an untyped wavefront is refused whatever
   its sampling, focal length or the requested shape *)
Lemma propagate_refusal_order : forall du os shape keep w,
  (has_tilt (w_fields w) = true -> propagate_fft du os shape w = Err NotImplementedErr) /\
  (has_tilt (w_fields w) = false -> w_ty w = WNone -> propagate_fft du os shape w = Err TypeError) /\
  (w_ty w = WNone -> propagate_dft du os shape keep w = Err TypeError).
Proof.
  intros du os shape keep w. unfold propagate_fft, propagate_dft. repeat split.
  - intros ->. reflexivity.
  - intros -> ->. reflexivity.
  - intros ->. reflexivity.
Qed.

(* ---- the hand-written transition function is the observed one ---- *)
Lemma hand_mul_is_observed : forall s p clip mism,
  hand_mul_outcome MKPlane p clip mism s = observed_mul s p clip mism.
Proof. intros; fin; reflexivity. Qed.

Lemma hand_class_is_observed : forall k po clip mism s mk,
  ckind k = Some mk -> op_claimed (MulClass k po clip mism) = true ->
  hand_mul_outcome mk (inst_ptype k po) clip mism s = observed_class_mul k po clip mism s.
Proof.
  intros k po clip mism s mk K C.
  destruct k; cbn in K; inversion K; subst mk; destruct po as [[]|]; cbn in C; try discriminate C;
    destruct s as [[] []], clip, mism; reflexivity.
Qed.

Lemma hand_prop_is_observed : forall m s, hand_prop_outcome m s = observed_prop m s.
Proof. intros; fin; reflexivity. Qed.
