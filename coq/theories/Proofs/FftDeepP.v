(* C09 deepen: the complete refusal table of propagate_fft with its precedence, the metadata of the result, the state
   the call leaves in the scratch buffer (frame statement), and np.round as nearest-integer-ties-to-even. *)
From LV Require Import Model.Fft Proofs.ArrP Proofs.ExtentP Proofs.FieldP Proofs.DftP Proofs.FftP.

(* ------------------------------------------------------------------ np.round on rationals *)
(* round_half_even q is an integer within 1/2 of q (q = n/d in lowest terms: |2n - 2dr| <= d) ... *)
Theorem round_half_even_nearest q :
  let n := Qnum (this q) in let d := Zpos (Qden (this q)) in let r := round_half_even q in
  d * (2 * r - 1) <= 2 * n <= d * (2 * r + 1).
Proof. exact (rhe_bounds q). Qed.
(* ... and at a tie (q = r +- 1/2 exactly) it is the even neighbour *)
Theorem round_half_even_tie q :
  let n := Qnum (this q) in let d := Zpos (Qden (this q)) in let r := round_half_even q in
  (2 * n = d * (2 * r - 1) \/ 2 * n = d * (2 * r + 1)) -> Z.even r = true.
Proof.
  cbv zeta. unfold round_half_even.
  set (n := Qnum (this q)). set (d := Zpos (Qden (this q))). assert (Hd : 0 < d) by (subst d; lia).
  pose proof (Z.div_mod n d ltac:(lia)) as E. pose proof (Z.mod_pos_bound n d Hd) as B.
  set (f := n / d) in *. set (m := n mod d) in *. clearbody f m n d.
  destruct (2 * m <? d) eqn:E1; [intros [H|H]; exfalso; nia|].
  destruct (d <? 2 * m) eqn:E2; [intros [H|H]; exfalso; nia|].
  destruct (Z.even f) eqn:Ef; [intros _; exact Ef|].
  intros _. rewrite Z.even_add. rewrite Ef. reflexivity.
Qed.

Section FftDeep.
Variable S : Scalar.
Hypothesis Sring : is_ring S.
Variable sq : Qc -> S.
Add Ring SrD : Sring.

(* ------------------------------------------------------------------ the refusal table *)
(* which exception, if any, propagate_fft raises: the checks in the order of the code *)
Definition too_large (N0 N1 : Z) (shape : option (Z * Z)) (os : Z) : bool :=
  match shape with None => false | Some s => (N0 <? fst s * os) || (N1 <? snd s * os) end.
Definition too_small (N0 N1 : Z) (scratch : option (arr S)) : bool :=
  match scratch with None => false | Some buf => negb ((N0 <=? nr buf) && (N1 <=? nc buf)) end.
Definition expected_error (N0 N1 : Z) (w : wavefront S) (shape : option (Z * Z)) (os : Z) (scratch : option (arr S))
  : option errkind :=
  if has_tilt w then Some NotImplementedErr
  else match wpt w with PNone => Some TypeError | _ =>
       if too_large N0 N1 shape os then Some ValueError
       else if too_small N0 N1 scratch then Some ValueError else None end.

Lemma out_shape_ok N0 N1 shape os : too_large N0 N1 shape os = false ->
  out_shape N0 N1 shape os = Ok (shape_out N0 N1 shape os).
Proof. unfold too_large, out_shape, shape_out. destruct shape as [s|]; [|reflexivity]. intros ->. reflexivity. Qed.

(* the transform step succeeds on well-formed fields (it refuses only 0-d data) *)
Lemma fft_field_ok N0 N1 (w : wavefront S) scratch :
  0 < N0 -> 0 < N1 -> (forall f, In f (wdata w) -> fgood S f) -> too_small N0 N1 scratch = false ->
  (scratch = None -> 0 < fst (wshape w) /\ 0 < snd (wshape w)) ->
  exists F sc, fft_field sq N0 N1 w scratch = Ok (F, sc) /\ nr F = N0 /\ nc F = N1 /\
    (scratch = None <-> sc = None).
Proof.
  intros H0 H1 Hg Hs Hw. unfold fft_field. destruct scratch as [buf|].
  - cbn [too_small] in Hs. rewrite Hs.
    destruct (scratch_fill_spec S Sring N0 N1 (wdata w) buf Hg) as (b & E & _); try lia.
    rewrite E. cbn [rbind]. eexists; eexists. split; [reflexivity|]. split; [cbn; lia|]. split; [cbn; lia|].
    split; discriminate.
  - destruct (Hw eq_refl) as [W0 W1].
    destruct (render_spec S Sring (wdata w) _ _ Hg W0 W1) as (R & E & _).
    rewrite E. cbn [rbind]. eexists; eexists. split; [reflexivity|]. repeat split; reflexivity.
Qed.

(* the table is exact: the call raises exactly the listed exception, and succeeds when none is listed; the result then
   carries the requested shape, the reported wavelength, the oversampled output pixel scale, the focal length of the
   input, the opposite plane type, and ONE untilted field at offset (0, 0) of exactly the shape of the result (the part
   of the N0 x N1 grid the result covers: fix 1b12b57) *)
Theorem propagate_fft_verdict N0 N1 (w : wavefront S) du shape os scratch :
  0 < N0 -> 0 < N1 -> (forall f, In f (wdata w) -> fgood S f) ->
  (scratch = None -> 0 < fst (wshape w) /\ 0 < snd (wshape w)) ->
  match expected_error N0 N1 w shape os scratch with
  | Some e => propagate_fft_N sq N0 N1 w du shape os scratch = Err e
  | None =>
    exists out sc F, propagate_fft_N sq N0 N1 w du shape os scratch = Ok (out, sc) /\
      wshape out = shape_out N0 N1 shape os /\
      wlam out = prop_wavelength N0 N1 (wpix w) du (wz w) os /\
      wpix out = (fst du / zq os, snd du / zq os)%Qc /\
      wz out = wz w /\
      propagate_ptype (wpt w) = Ok (wpt out) /\
      wdata out = [mkField (D2 F) 0 0 []] /\
      nr F = fst (shape_out N0 N1 shape os) /\ nc F = snd (shape_out N0 N1 shape os) /\
      (scratch = None <-> sc = None)
  end.
Proof.
  intros H0 H1 Hg Hw. unfold expected_error, propagate_fft_N.
  destruct (has_tilt w); [reflexivity|].
  destruct (wpt w) eqn:Ept; cbn [propagate_ptype rbind]; [reflexivity| |].
  all: destruct (too_large N0 N1 shape os) eqn:El;
    [unfold too_large in El; unfold out_shape; destruct shape as [s|]; [rewrite El; reflexivity|discriminate]|];
    rewrite (out_shape_ok _ _ _ _ El); cbn [rbind];
    destruct (too_small N0 N1 scratch) eqn:Es;
    [unfold too_small in Es; destruct scratch as [buf|]; [|discriminate]; unfold fft_field; rewrite Es; reflexivity|];
    destruct (fft_field_ok N0 N1 w scratch H0 H1 Hg Es Hw) as (F & sc & E & F0 & F1 & Hsc);
    rewrite E; cbn [rbind fst snd]; eexists; exists sc; eexists; split; [reflexivity|]; cbn [wshape wlam wpix wz wpt wdata];
    repeat split; try reflexivity; try assumption; apply Hsc.
Qed.

(* the result is a well-formed wavefront in the sense the theorems need of their INPUT: its field is an array and lies
   inside the wavefront's own shape - so a result can be propagated again, with or without scratch (second leg of a relay) *)
Theorem propagate_fft_output_wellformed N0 N1 (w : wavefront S) du shape os scratch out sc :
  0 < N0 -> 0 < N1 -> (forall f, In f (wdata w) -> fgood S f) ->
  (scratch = None -> 0 < fst (wshape w) /\ 0 < snd (wshape w)) ->
  0 < fst (shape_out N0 N1 shape os) -> 0 < snd (shape_out N0 N1 shape os) ->
  propagate_fft_N sq N0 N1 w du shape os scratch = Ok (out, sc) ->
  (forall f, In f (wdata out) -> fgood S f) /\ has_tilt out = false /\
  0 < fst (wshape out) /\ 0 < snd (wshape out) /\ inside_shape S out.
Proof.
  intros H0 H1 Hg Hw P0 P1 E.
  pose proof (propagate_fft_verdict N0 N1 w du shape os scratch H0 H1 Hg Hw) as V.
  destruct (expected_error N0 N1 w shape os scratch); [congruence|].
  destruct V as (out' & sc' & F & E' & Sh & _ & _ & _ & _ & D & F0 & F1 & _).
  rewrite E in E'. injection E' as <- <-.
  assert (G : forall f, In f (wdata out) -> fgood S f).
  { rewrite D. intros f [<-|[]]. unfold fgood. cbn [fd]. lia. }
  split; [exact G|]. split; [unfold has_tilt; rewrite D; reflexivity|]. rewrite Sh. split; [exact P0|]. split; [exact P1|].
  unfold inside_shape. rewrite D, Sh. intros f r c [<-|[]] Hout. rewrite embed_D2. unfold embedA. rewrite F0, F1.
  replace (r - 0 + fst (shape_out N0 N1 shape os) / 2) with (r + fst (shape_out N0 N1 shape os) / 2) by ring.
  replace (c - 0 + snd (shape_out N0 N1 shape os) / 2) with (c + snd (shape_out N0 N1 shape os) / 2) by ring.
  rewrite Hout. reflexivity.
Qed.

(* ------------------------------------------------------------------ what the call leaves in the scratch buffer *)
Lemma scratch_fold_frame N0 N1 (fs : list (field S)) : forall b : arr S,
  (forall f, In f fs -> fgood S f) -> 0 < N0 <= nr b -> 0 < N1 <= nc b ->
  forall b', fold_left (scratch_step N0 N1) fs (Ok b) = Ok b' ->
  forall i j, 0 <= i < nr b -> 0 <= j < nc b -> ~ (i < N0 /\ j < N1) -> get b' i j = get b i j.
Proof.
  induction fs as [|f fs IH]; intros b Hg H1 H2 b' E i j Hi Hj Hout.
  - cbn in E. now injection E as <-.
  - assert (Gf : fgood S f) by (apply Hg; now left). unfold fgood in Gf.
    destruct (fd f) as [v|d] eqn:Ed; [contradiction|]. destruct Gf as [Gd1 Gd2].
    set (view := aslice b 0 N0 0 N1).
    destruct (insert_spec S Sring (fun x => x) f d view k1 Ed Gd1 Gd2 ltac:(cbn; lia) ltac:(cbn; lia) eq_refl)
      as (o1 & E1 & S1 & S2 & _).
    cbn [fold_left] in E. unfold scratch_step at 2 in E. cbn [rbind] in E. fold view in E. rewrite E1 in E. cbn [rbind] in E.
    set (b1 := force (assign_region b N0 N1 o1)) in *.
    assert (A1 : nr b1 = nr b) by reflexivity. assert (A2 : nc b1 = nc b) by reflexivity.
    rewrite (IH b1 (fun g Hin => Hg g (or_intror Hin)) ltac:(lia) ltac:(lia) b' E i j ltac:(lia) ltac:(lia) Hout).
    subst b1. rewrite force_get by (cbn [assign_region nr nc]; lia). cbn [assign_region get].
    replace ((0 <=? i) && (i <? N0) && (0 <=? j) && (j <? N1)) with false by lia. reflexivity.
Qed.

(* after an accepted call the buffer has its shape, holds the input plane (sum of the zero-extended fields, centred)
   in the N0 x N1 corner - whatever it held before - and is untouched everywhere else *)
Theorem scratch_after_call N0 N1 (w : wavefront S) du shape os (buf : arr S) out sc :
  0 < N0 -> 0 < N1 -> (forall f, In f (wdata w) -> fgood S f) ->
  propagate_fft_N sq N0 N1 w du shape os (Some buf) = Ok (out, sc) ->
  exists b', sc = Some b' /\ nr b' = nr buf /\ nc b' = nc buf /\ N0 <= nr buf /\ N1 <= nc buf /\
    forall i j, 0 <= i < nr buf -> 0 <= j < nc buf ->
      get b' i j = if (i <? N0) && (j <? N1) then embed_sum (wdata w) (i - N0 / 2) (j - N1 / 2) else get buf i j.
Proof.
  intros H0 H1 Hg E. unfold propagate_fft_N in E.
  destruct (has_tilt w); [discriminate|].
  destruct (propagate_ptype (wpt w)); cbn [rbind] in E; [|discriminate].
  destruct (out_shape N0 N1 shape os); cbn [rbind] in E; [|discriminate].
  unfold fft_field in E.
  destruct (negb ((N0 <=? nr buf) && (N1 <=? nc buf))) eqn:Es; [discriminate|].
  assert (B0 : N0 <= nr buf) by lia. assert (B1 : N1 <= nc buf) by lia.
  destruct (scratch_fill_spec S Sring N0 N1 (wdata w) buf Hg ltac:(lia) ltac:(lia)) as (b & Eb & S1 & S2 & V).
  rewrite Eb in E. cbn [rbind fst snd] in E. injection E as _ <-.
  exists b. repeat (split; [assumption || reflexivity|]).
  intros i j Hi Hj. destruct ((i <? N0) && (j <? N1)) eqn:Ein.
  - apply V; lia.
  - unfold scratch_fill in Eb.
    rewrite (scratch_fold_frame N0 N1 (wdata w) (assign_region buf N0 N1 (azeros N0 N1)) Hg) with (b' := b);
      cbn [assign_region nr nc get]; try lia; try assumption.
    replace ((0 <=? i) && (i <? N0) && (0 <=? j) && (j <? N1)) with false by lia. reflexivity.
Qed.
End FftDeep.

(* what a call without a requested shape returns, as one equation: ONE array field of the grid's shape whose samples are
   the unitary Fourier sums of the input plane on the grid (for composing two legs: Proofs/ChainRelayP.v) *)
Section FullGrid.
Variable S : Scalar.
Hypothesis Sring : is_ring S.
Hypothesis Skernel : kernel_laws S.
Hypothesis Speriod : periodic S.
Variable sq : Qc -> S.

Lemma propagate_fft_N_full_grid N0 N1 (w : wavefront S) du os scratch pt :
  0 < N0 -> 0 < N1 -> has_tilt w = false -> propagate_ptype (wpt w) = Ok pt ->
  (forall f, In f (wdata w) -> fgood S f) -> scratch_ok S N0 N1 w scratch ->
  exists F sc, propagate_fft_N sq N0 N1 w du None os scratch
               = Ok (mkWf [mkField (D2 F) 0 0 []] (N0, N1) (prop_wavelength N0 N1 (wpix w) du (wz w) os)
                          (fst du / zq os, snd du / zq os)%Qc (wz w) pt, sc) /\
    nr F = N0 /\ nc F = N1 /\
    forall a b, 0 <= a < N0 -> 0 <= b < N1 ->
      get F a b = (fourier_sum (grid_of S (wdata w) N0 N1) (/ zq N0)%Qc (/ zq N1)%Qc 0 0
                               (zq (a - N0 / 2)) (zq (b - N1 / 2)) * ortho_scale sq N0 N1)%K.
Proof.
  intros H0 H1 Ht Hpt Hg Hsc.
  destruct (fft_field_spec S Sring Skernel Speriod sq N0 N1 w scratch H0 H1 Hg Hsc) as (F0 & sc & E & S1 & S2 & V).
  exists (pad2 F0 N0 N1), sc. split.
  { unfold propagate_fft_N. rewrite Ht, Hpt. cbn [rbind out_shape]. rewrite E. cbn [rbind fst snd]. reflexivity. }
  split; [reflexivity|]. split; [reflexivity|]. intros a b Ha Hb.
  rewrite pad_origin by lia. unfold embedA, inr. rewrite S1, S2.
  replace (a - N0 / 2 - 0 + N0 / 2) with a by ring. replace (b - N1 / 2 - 0 + N1 / 2) with b by ring.
  replace ((0 <=? a) && (a <? N0) && ((0 <=? b) && (b <? N1))) with true by lia.
  now apply V.
Qed.
End FullGrid.
