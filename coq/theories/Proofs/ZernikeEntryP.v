(* C11: the public entry points zernike / zernike_basis - argument branches, refusals, the
   default-coordinate path and the row structure of zernike_basis (structural lemmas, no reals). *)
From LV Require Import Model.Zernike Proofs.ZernikeP.

(* ------------------------------------------------------------------------------------------ *)
(** * The public entry points: argument branches, default-coordinate path, zernike_basis *)

Lemma zernike_branch_spec a :
  (zernike_branch a = Err ValueError <-> a = ArgRhoOnly) /\
  (zernike_branch a = Ok true <-> (a = ArgNone \/ a = ArgThetaOnly)) /\
  (zernike_branch a = Ok false <-> a = ArgBoth).
Proof. destruct a; cbn; repeat split; intros H; try discriminate; try reflexivity; auto;
  destruct H; discriminate. Qed.

Lemma zernike_coordinates_err mask e : zernike_coordinates mask = Err e -> e = ValueError.
Proof. unfold zernike_coordinates. destruct ((nr mask <=? 0) || (nc mask <=? 0)); intros H; [|discriminate].
  injection H as <-. reflexivity. Qed.
Lemma noll_exact_err j e : noll_exact j = Err e -> j < 1 /\ e = ValueError.
Proof. intros H. destruct (Z_lt_le_dec j 1) as [Hj|Hj].
  - unfold noll_exact in H. rewrite noll_code_error in H by exact Hj. injection H as <-. split; [lia|reflexivity].
  - rewrite noll_code_closed in H by lia. discriminate. Qed.

Theorem zernike_default_ok mask j nz d : zernike_default mask j nz = Ok d ->
  exists c, zernike_coordinates mask = Ok c /\ 1 <= j /\
    dm_norm2 d = norm2 (fst (noll j)) (snd (noll j)) nz /\ dm_odd d = Z.odd (fst (noll j)) /\
    dm_rmax2 d = c_rmax2 c /\
    forall i k, dm_val d i k = zernike_default_pt (fst (noll j)) (snd (noll j)) c i k (mask_bool (get mask i k)).
Proof.
  unfold zernike_default. destruct (zernike_coordinates mask) as [c|e]; [|discriminate]. cbn [rbind].
  destruct (noll_exact j) as [mn|e] eqn:E; [|discriminate]. cbn [rbind]. intros H. injection H as <-.
  assert (Hj : 1 <= j).
  { destruct (Z_lt_le_dec j 1) as [Hlt|]; [|lia]. unfold noll_exact in E. rewrite noll_code_error in E by exact Hlt. discriminate. }
  rewrite noll_code_closed in E by exact Hj. injection E as <-.
  exists c. cbn [dm_norm2 dm_odd dm_rmax2 dm_val]. repeat split; auto.
Qed.
Theorem zernike_default_err mask j nz e : zernike_default mask j nz = Err e -> e = ValueError.
Proof.
  unfold zernike_default. destruct (zernike_coordinates mask) as [c|e0] eqn:Ec; cbn [rbind].
  - destruct (noll_exact j) as [mn|e1] eqn:E; cbn [rbind]; [discriminate|]. intros H. injection H as <-.
    apply (noll_exact_err j e1 E).
  - intros H. injection H as <-. apply (zernike_coordinates_err mask e0 Ec).
Qed.
Theorem zernike_default_refuses mask j nz : j < 1 -> zernike_default mask j nz = Err ValueError.
Proof.
  intros Hj. destruct (zernike_default mask j nz) as [d|e] eqn:E.
  - apply zernike_default_ok in E. destruct E as [c [_ [H _]]]. lia.
  - f_equal. apply (zernike_default_err mask j nz e E).
Qed.

(* zernike_basis: row k is zernike(mask, modes[k]); any refusal is a ValueError *)
Theorem zernike_basis_rows mask modes nz : forall ds, zernike_basis_default mask modes nz = Ok ds ->
  Forall2 (fun j d => zernike_default mask j nz = Ok d) modes ds.
Proof.
  induction modes as [|j rest IH]; intros ds H; cbn [zernike_basis_default] in H.
  - injection H as <-. constructor.
  - destruct (zernike_default mask j nz) as [d|e] eqn:E; cbn [rbind] in H; [|discriminate].
    destruct (zernike_basis_default mask rest nz) as [ds'|e]; cbn [rbind] in H; [|discriminate].
    injection H as <-. constructor; [exact E|apply IH; reflexivity].
Qed.
Theorem zernike_basis_err mask modes nz e : zernike_basis_default mask modes nz = Err e -> e = ValueError.
Proof.
  induction modes as [|j rest IH]; cbn [zernike_basis_default]; [discriminate|].
  destruct (zernike_default mask j nz) as [d|e0] eqn:E; cbn [rbind].
  - destruct (zernike_basis_default mask rest nz) as [ds'|e1]; cbn [rbind]; [discriminate|].
    intros H. injection H as <-. apply IH. reflexivity.
  - intros H. injection H as <-. apply (zernike_default_err mask j nz e0 E).
Qed.
Theorem zernike_basis_refuses mask modes nz : (exists j, In j modes /\ j < 1) ->
  zernike_basis_default mask modes nz = Err ValueError.
Proof.
  intros [j [Hin Hj]]. destruct (zernike_basis_default mask modes nz) as [ds|e] eqn:E.
  - exfalso. apply zernike_basis_rows in E. revert Hin. induction E as [|j0 d l l' H0 _ IH]; intros Hin; [destruct Hin|].
    destruct Hin as [->|Hin]; [|apply IH; exact Hin]. rewrite zernike_default_refuses in H0 by exact Hj. discriminate.
  - f_equal. apply (zernike_basis_err mask modes nz e E).
Qed.

(* vectorize only regroups the samples: the row count is kept and the number of samples is conserved *)
Lemma result_shape_spec basis nmodes nr nc vec :
  fold_right Z.mul 1 (zernike_result_shape basis nmodes nr nc vec) = (if basis then nmodes else 1) * (nr * nc)
  /\ (basis = true -> hd 0 (zernike_result_shape basis nmodes nr nc vec) = nmodes)
  /\ zernike_result_shape false nmodes nr nc vec = [nr; nc]
  /\ zernike_result_shape true nmodes nr nc false = [nmodes; nr; nc]
  /\ zernike_result_shape true nmodes nr nc true = [nmodes; nr * nc].
Proof. unfold zernike_result_shape. destruct basis, vec; cbn [fold_right hd]; repeat split; try reflexivity; try ring;
  intros; try discriminate; reflexivity. Qed.

(* ---- zernike_coordinates with an explicit shift ---- *)
Lemma mesh1_shift n (s : Qc) i : mesh1 n s i = (zQ i - (zQ (n / 2) + s))%Qc.
Proof. unfold mesh1. ring. Qed.

(* the default call is the explicit one with shift = centroid - shape//2 *)
Theorem coordinates_default_is_shift mask c :
  zernike_coordinates mask = Ok c ->
  exists c', zernike_coordinates_shift mask (centroid_r mask (mcount mask) - zQ (nr mask / 2))%Qc
                                            (centroid_c mask (mcount mask) - zQ (nc mask / 2))%Qc = Ok c'
    /\ c_origin_r c' = c_origin_r c /\ c_origin_c c' = c_origin_c c /\ c_rmax2 c' = c_rmax2 c
    /\ forall i j, c_rho2 c' i j = c_rho2 c i j /\ c_dirx c' i j = c_dirx c i j /\ c_diry c' i j = c_diry c i j.
Proof.
  unfold zernike_coordinates, zernike_coordinates_shift.
  destruct ((nr mask <=? 0) || (nc mask <=? 0)); [discriminate|]. intros H. injection H as <-.
  eexists. split; [reflexivity|]. cbn [c_origin_r c_origin_c c_rmax2 c_rho2 c_dirx c_diry].
  repeat split; try reflexivity; ring.
Qed.

(* with an explicit shift the origin is shape//2 + shift for every array size, rho^2 and the direction
   are measured from it, and rmax2 is again the largest squared distance over the masked samples *)
Theorem coordinates_shift_origin mask sr sc c : zernike_coordinates_shift mask sr sc = Ok c ->
  c_origin_r c = (zQ (nr mask / 2) + sr)%Qc /\ c_origin_c c = (zQ (nc mask / 2) + sc)%Qc /\
  (forall i j,
    c_rho2 c i j = ((qsqr (zQ i - c_origin_r c) + qsqr (zQ j - c_origin_c c)) / c_rmax2 c)%Qc /\
    c_dirx c i j = (- (zQ j - c_origin_c c))%Qc /\ c_diry c i j = (- (zQ i - c_origin_r c))%Qc) /\
  (forall i j, 0 <= i < nr mask -> 0 <= j < nc mask -> mask_bool (get mask i j) = true ->
     ((qsqr (zQ i - c_origin_r c) + qsqr (zQ j - c_origin_c c)) <= c_rmax2 c)%Qc).
Proof.
  unfold zernike_coordinates_shift. destruct ((nr mask <=? 0) || (nc mask <=? 0)); [discriminate|].
  intros H. injection H as <-. cbn [c_origin_r c_origin_c c_rmax2 c_rho2 c_dirx c_diry].
  split; [reflexivity|]. split; [reflexivity|]. split.
  - intros i j. unfold r2_of. rewrite !mesh1_shift. repeat split; reflexivity.
  - intros i j Hi Hj Hm. unfold rmax2_of. apply fold_qmax_ge. apply (In_tabulate (S := QS)).
    exists i, j. cbn [nr nc get]. repeat split; try lia. unfold mbit, r2_of. rewrite Hm, !mesh1_shift.
    change (K QS) with Qc. ring.
Qed.
