(* C11: the IEEE-double row formula of zernike_index equals the exact one on a bounded range
   (one kernel evaluation of about 12 s; kept in its own file). *)
From LV Require Import Model.Zernike Proofs.ZernikeP.

(* ------------------------------------------------------------------------------------------ *)
(** * The float row formula equals the exact one (bounded, by computation) *)

Definition allZ (p : Z -> bool) (lo : Z) (n : positive) : bool :=
  Pos.peano_rect (fun _ => Z -> bool) (fun lo => p lo) (fun _ rec lo => p lo && rec (lo + 1)) n lo.
Lemma allZ_sound p n : forall lo, allZ p lo n = true -> forall j, lo <= j < lo + Zpos n -> p j = true.
Proof.
  unfold allZ. induction n as [|n IH] using Pos.peano_ind; intros lo H j Hj.
  - rewrite Pos.peano_rect_base in H. replace j with lo by lia. exact H.
  - rewrite Pos.peano_rect_succ in H. apply andb_true_iff in H. destruct H as [H1 H2].
    destruct (Z.eq_dec j lo) as [->|Hne]; [exact H1|]. apply (IH (lo + 1) H2). lia.
Qed.

(* for one j: the search found the true ceiling of the double, and the row equals the exact row *)
Definition row_float_ok (j : Z) : bool :=
  is_ceil (row_arg_float j) (ceil_float j) && (row_float j =? row_exact j).
Definition float_bound : positive := 200000.
Lemma row_float_checked : allZ row_float_ok 1 float_bound = true.
Proof. vm_cast_no_check (eq_refl true). Qed.     (* the kernel evaluates it once, at Qed *)

Theorem row_float_exact j : 1 <= j <= 200000 ->
  is_ceil (row_arg_float j) (ceil_float j) = true /\ row_float j = row_exact j.
Proof.
  intros Hj. pose proof (allZ_sound _ _ _ row_float_checked j ltac:(unfold float_bound; lia)) as H.
  unfold row_float_ok in H. apply andb_true_iff in H. destruct H as [H1 H2]. split; [exact H1|lia].
Qed.
Theorem noll_float_exact j : 1 <= j <= 200000 -> noll_float j = noll_exact j.
Proof. intros Hj. unfold noll_float, noll_exact, noll_code. rewrite (proj2 (row_float_exact j Hj)). reflexivity. Qed.
