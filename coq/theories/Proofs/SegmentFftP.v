(* C03 through the FFT propagator: lentil.propagate_fft sees a wavefront only through the sum of its zero-extended
   fields, so a segmented pupil and its monolithic description give the same image-plane field. *)
From LV Require Import Model.SegmentFft Proofs.ArrP Proofs.FieldP Proofs.DftP Proofs.PlaneP.
From LV Require Proofs.FftP.

Section SegmentFftP.
Variable S : Scalar.
Hypothesis Sring : is_ring S.
Hypothesis Skernel : kernel_laws S.
Hypothesis Speriod : FftP.periodic S.
Variable sq : Qc -> S.

Lemma no_tilt (w : Fft.wavefront S) : (forall f, In f (Fft.wdata w) -> ftilt f = []) -> Fft.has_tilt w = false.
Proof.
  intros H. destruct (Fft.has_tilt w) eqn:E; [|reflexivity]. apply FftP.has_tilt_iff in E.
  destruct E as (f & Hf & Ht). now rewrite (H f Hf) in Ht.
Qed.

(* two wavefronts with the same attributes and the same plane function: same transformed field *)
Theorem fft_same_plane N0 N1 (w1 w2 : Fft.wavefront S) du shape os sc1 sc2 pt :
  0 < N0 -> 0 < N1 -> 0 < os -> Fft.has_tilt w1 = false -> Fft.has_tilt w2 = false ->
  Fft.wpt w1 = Fft.wpt w2 -> Fft.propagate_ptype (Fft.wpt w1) = Ok pt ->
  Fft.wpix w1 = Fft.wpix w2 -> Fft.wz w1 = Fft.wz w2 ->
  (forall f, In f (Fft.wdata w1) -> fsized f) -> (forall f, In f (Fft.wdata w2) -> fsized f) ->
  FftP.accepted_shape N0 N1 shape os -> FftP.scratch_ok S N0 N1 w1 sc1 -> FftP.scratch_ok S N0 N1 w2 sc2 ->
  (forall r c, embed_sum (Fft.wdata w1) r c = embed_sum (Fft.wdata w2) r c) ->
  exists o1 s1 o2 s2 F1 F2,
    Fft.propagate_fft_N sq N0 N1 w1 du shape os sc1 = Ok (o1, s1) /\
    Fft.propagate_fft_N sq N0 N1 w2 du shape os sc2 = Ok (o2, s2) /\
    Fft.wshape o1 = Fft.wshape o2 /\ Fft.wlam o1 = Fft.wlam o2 /\ Fft.wpt o1 = Fft.wpt o2 /\ Fft.wz o1 = Fft.wz o2 /\
    Fft.wfield o1 = Ok F1 /\ Fft.wfield o2 = Ok F2 /\ nr F1 = nr F2 /\ nc F1 = nc F2 /\
    nr F1 = fst (FftP.shape_out N0 N1 shape os) /\ nc F1 = snd (FftP.shape_out N0 N1 shape os) /\
    forall i j, 0 <= i < nr F1 -> 0 <= j < nc F1 -> get F1 i j = get F2 i j.
Proof.
  intros H0 H1 Hos T1 T2 Ept Hpt Epx Ez G1 G2 Hsh Sc1 Sc2 He.
  destruct (FftP.propagate_fft_samples S Sring Skernel Speriod sq N0 N1 w1 du shape os sc1 pt H0 H1 Hos T1 Hpt G1 Hsh Sc1)
    as (o1 & s1 & E1 & A1 & B1 & C1 & D1 & F1 & V1 & R1 & K1 & W1).
  rewrite Ept in Hpt.
  destruct (FftP.propagate_fft_samples S Sring Skernel Speriod sq N0 N1 w2 du shape os sc2 pt H0 H1 Hos T2 Hpt G2 Hsh Sc2)
    as (o2 & s2 & E2 & A2 & B2 & C2 & D2 & F2 & V2 & R2 & K2 & W2).
  exists o1, s1, o2, s2, F1, F2.
  split; [exact E1|]. split; [exact E2|]. split; [congruence|]. split; [congruence|]. split; [congruence|].
  split; [congruence|]. split; [exact V1|]. split; [exact V2|]. split; [congruence|]. split; [congruence|].
  split; [exact R1|]. split; [exact K1|].
  intros i j Hi Hj. rewrite W1 by assumption. rewrite W2 by (rewrite ?R2, ?K2, <- ?R1, <- ?K1; assumption).
  rewrite R1, K1, R2, K2. f_equal.
  apply (fourier_sum_ext S); [reflexivity|reflexivity|]. intros x y Hx Hy. cbn [FftP.grid_of get]. apply He.
Qed.

(* a chain of segmented pupils against the chain of their monolithic descriptions, through propagate_fft *)
Theorem fft_segmented_eq_monolithic (segs monos : list (plane S)) (w ws wm : pwf S) N0 N1 du shape os sc1 sc2
        (n m : Z) (px : Qc * Qc) (z : Qc) :
  Forall2 (fun Ps Pm => exists n m, partition_of Ps Pm n m) segs monos -> segs <> [] ->
  (forall f, In f (pw_data w) -> fwell f) ->
  chain_multiply segs w = Ok ws -> chain_multiply monos w = Ok wm ->
  pw_shape ws = Some (n, m) -> pw_pix ws = Some px -> pw_focal ws = FVal z ->
  (forall f, In f (pw_data ws) -> ftilt f = []) -> (forall f, In f (pw_data wm) -> ftilt f = []) ->
  0 < N0 -> 0 < N1 -> 0 < os -> FftP.accepted_shape N0 N1 shape os ->
  FftP.scratch_ok S N0 N1 (Fft.mkWf (pw_data ws) (n, m) (pw_lam ws) px z Fft.PPupil) sc1 ->
  FftP.scratch_ok S N0 N1 (Fft.mkWf (pw_data wm) (n, m) (pw_lam wm) px z Fft.PPupil) sc2 ->
  exists o1 s1 o2 s2 F1 F2,
    chain_propagate_fft sq segs w N0 N1 du shape os sc1 = Ok (o1, s1) /\
    chain_propagate_fft sq monos w N0 N1 du shape os sc2 = Ok (o2, s2) /\
    Fft.wshape o1 = Fft.wshape o2 /\ Fft.wlam o1 = Fft.wlam o2 /\ Fft.wpt o1 = Fft.wpt o2 /\ Fft.wz o1 = Fft.wz o2 /\
    Fft.wfield o1 = Ok F1 /\ Fft.wfield o2 = Ok F2 /\ nr F1 = nr F2 /\ nc F1 = nc F2 /\
    nr F1 = fst (FftP.shape_out N0 N1 shape os) /\ nc F1 = snd (FftP.shape_out N0 N1 shape os) /\
    forall i j, 0 <= i < nr F1 -> 0 <= j < nc F1 -> get F1 i j = get F2 i j.
Proof.
  intros Hp Hne Hf R1 R2 Hsh Hpx Hfo T1 T2 H0 H1 Hos Hacc Sc1 Sc2.
  destruct (chain_partition S Sring segs monos Hp w ws wm Hf R1 R2) as (El & Es & Epx & Efo & Ee).
  assert (Ok1 : forall P, In P segs -> exists n m, plane_ok P n m).
  { clear - Hp. induction Hp as [|Ps Pm l1 l2 (n & m & Hq) F IH]; intros P HP; [destruct HP|].
    destruct HP as [<-|HP]; [|now apply IH]. exists n, m. now destruct Hq as (_ & _ & _ & _ & O1 & _). }
  assert (Ok2 : forall P, In P monos -> exists n m, plane_ok P n m).
  { clear - Hp. induction Hp as [|Ps Pm l1 l2 (n & m & Hq) F IH]; intros P HP; [destruct HP|].
    destruct HP as [<-|HP]; [|now apply IH]. exists n, m. now destruct Hq as (_ & _ & _ & _ & _ & O2 & _). }
  assert (Hne2 : monos <> []) by (destruct Hp; [congruence|discriminate]).
  pose proof (chain_multiply_sized S Sring segs Ok1 Hne w ws Hf R1) as Z1.
  pose proof (chain_multiply_sized S Sring monos Ok2 Hne2 w wm Hf R2) as Z2.
  unfold chain_propagate_fft. rewrite R1, R2. cbn [rbind]. unfold to_fft.
  rewrite <- Es, <- Epx, <- Efo, Hsh, Hpx, Hfo. cbn [rbind].
  apply (fft_same_plane N0 N1 _ _ du shape os sc1 sc2 Fft.PImage); cbn [Fft.wdata Fft.wpt Fft.wpix Fft.wz];
    try assumption; try reflexivity.
  - now apply no_tilt.
  - now apply no_tilt.
  - intros r c. rewrite <- !(sized_ec S Sring) by assumption. apply Ee.
Qed.
End SegmentFftP.
