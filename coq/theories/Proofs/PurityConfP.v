(* C10 - confluence of plane histories: multiply/propagate see a plane only through its array contents and the
   per-segment tilt sums.  Continues Proofs/PurityP.v. *)
From LV Require Import Lib.Base Model.Purity Proofs.PurityP.
Lemma tsum_acc tl : forall acc,
  fold_left (fun acc t => (fst acc + fst t, snd acc + snd t)) tl acc = (fst acc + fst (tsum tl), snd acc + snd (tsum tl)).
Proof.
  unfold tsum. induction tl as [|t r IH]; intros acc; cbn [fold_left].
  - destruct acc; cbn; f_equal; lia.
  - rewrite IH. symmetry. rewrite IH. cbn [fst snd]. f_equal; lia.
Qed.
Lemma tsum_cons t r : tsum (t :: r) = (fst t + fst (tsum r), snd t + snd (tsum r)).
Proof. unfold tsum at 1. cbn [fold_left]. rewrite tsum_acc. cbn [fst snd]. f_equal; lia. Qed.
Lemma shift_of_acc z tl : forall acc,
  fold_left (shift_step z) tl acc = (fst acc - z * fst (tsum tl), snd acc - z * snd (tsum tl)).
Proof.
  induction tl as [|t r IH]; intros acc; cbn [fold_left].
  - destruct acc; cbn; f_equal; lia.
  - rewrite IH, tsum_cons. unfold shift_step. cbn [fst snd]. f_equal; ring.
Qed.
(* Field.shift sees the tilt list only through its sum *)
Lemma shift_of_tsum z tl : shift_of z tl = (- z * fst (tsum tl), - z * snd (tsum tl)).
Proof. unfold shift_of. rewrite shift_of_acc. cbn [fst snd]. f_equal; ring. Qed.
Lemma tsum_app a b : tsum (a ++ b) = (fst (tsum a) + fst (tsum b), snd (tsum a) + snd (tsum b)).
Proof. unfold tsum at 1. rewrite fold_left_app. fold (tsum a). rewrite tsum_acc. auto. Qed.
Lemma shift_of_app z a b :
  shift_of z (a ++ b) = (fst (shift_of z a) - z * fst (tsum b), snd (shift_of z a) - z * snd (tsum b)).
Proof. rewrite !shift_of_tsum, tsum_app. cbn [fst snd]. f_equal; ring. Qed.

Definition cv (h : heap) (i : aid) : arrv := match nth_error h i with Some c => cval c | None => [] end.
Lemma readback {T U} (g : T -> U) : forall (vs : list arrv) (ts : list T) (h : heap),
  length ts = length vs ->
  map (fun x => (cv (h ++ map (fun v => mkcell v false) vs) (fst x), g (snd x))) (combine (seq (length h) (length vs)) ts)
  = combine vs (map g ts).
Proof.
  induction vs as [|v vs IH]; intros [|t ts] h L; cbn in L; try discriminate; auto.
  cbn [length seq combine map]. f_equal.
  - cbn [fst snd]. unfold cv. rewrite nth_error_app2 by lia. rewrite Nat.sub_diag. auto.
  - specialize (IH ts (h ++ [mkcell v false])). rewrite app_length in IH. cbn [length] in IH.
    rewrite Nat.add_1_r in IH. rewrite <- app_assoc in IH. cbn [app] in IH. apply IH. lia.
Qed.
Lemma readback1 : forall (vs : list arrv) (h : heap),
  map (cv (h ++ map (fun v => mkcell v false) vs)) (seq (length h) (length vs)) = vs.
Proof.
  induction vs as [|v vs IH]; intros h; auto.
  cbn [length seq map]. f_equal.
  - unfold cv. rewrite nth_error_app2 by lia. rewrite Nat.sub_diag. auto.
  - specialize (IH (h ++ [mkcell v false])). rewrite app_length in IH. cbn [length] in IH.
    rewrite Nat.add_1_r in IH. rewrite <- app_assoc in IH. cbn [app] in IH. apply IH.
Qed.
Lemma combine_fst_snd {A B C} (g : B -> C) (l : list (A * B)) :
  combine (map fst l) (map g (map snd l)) = map (fun x => (fst x, g (snd x))) l.
Proof. induction l as [|[a b] l IH]; cbn; auto. f_equal; auto. Qed.
Lemma map_flat_map {A B C} (h : B -> C) (g : A -> list B) (l : list A) :
  map h (flat_map g l) = flat_map (fun x => map h (g x)) l.
Proof. induction l as [|a l IH]; cbn; auto. rewrite map_app, IH. auto. Qed.
Lemma flat_map_obs {A B C} (h1 h2 : A -> B) (g1 g2 : A -> list C) : forall l1 l2,
  map h1 l1 = map h2 l2 -> (forall x y, h1 x = h2 y -> g1 x = g2 y) -> flat_map g1 l1 = flat_map g2 l2.
Proof.
  induction l1 as [|x l1 IH]; intros [|y l2] E H; cbn in *; try discriminate; auto.
  injection E as E1 E2. rewrite (H x y E1), (IH l2 E2 H). auto.
Qed.
Lemma map_seq_ext {A} (f g : nat -> A) a n : map f (seq a n) = map g (seq a n) -> forall k, (a <= k < a + n)%nat -> f k = g k.
Proof.
  revert a. induction n as [|n IH]; intros a E k Hk; [lia|]. cbn in E. injection E as E1 E2.
  destruct (Nat.eq_dec k a) as [->|Hne]; auto. apply (IH (S a)); auto. lia.
Qed.

Section Confluence.
Variable K : kernels.

(* the product, observed: data of every (field, segment) pair and its accumulated shift *)
Definition mul_obs (z : Z) (s : state) (a d m : aid) (tl : list tilt) (nseg : nat) (fs : list field) : list (arrv * (Z * Z)) :=
  map (fun x => (fst x, shift_of z (snd x))) (mul_fields K s a d m tl nseg fs).

Lemma do_mul_result z s p w jp a d m tl nseg kind jw fs :
  getobj s p = Some (jp, Plane a d m tl nseg kind) -> getobj s w = Some (jw, Wave fs) ->
  exists fs', o_res (snd (do_mul K s p w)) = VObj (length (ob s)) /\
              nth_error (ob (fst (do_mul K s p w))) (length (ob s)) = Some (Wave fs') /\
              map (field_obs z (fst (do_mul K s p w))) fs' = mul_obs z s a d m tl nseg fs.
Proof.
  intros Ep Ew. unfold do_mul. rewrite Ep, Ew. unfold alloc_list, push_obj, ret. cbn.
  eexists. split; [reflexivity|]. split.
  - rewrite nth_error_app2 by lia. rewrite Nat.sub_diag. reflexivity.
  - rewrite map_map. unfold field_obs, valof, hget. cbn.
    set (prods := mul_fields K s a d m tl nseg fs).
    rewrite (map_length fst prods), <- (map_length fst prods).
    change (map (fun x => (cv (hp s ++ map (fun v => mkcell v false) (map fst prods)) (fst x), shift_of z (snd x)))
                (combine (seq (length (hp s)) (length (map fst prods))) (map snd prods)) = mul_obs z s a d m tl nseg fs).
    rewrite (readback (shift_of z)) by (rewrite !map_length; auto).
    apply combine_fst_snd.
Qed.

Lemma mul_obs_confluent z s1 s2 a1 d1 m1 tl1 n1 k1 fs1 a2 d2 m2 tl2 n2 k2 fs2 :
  plane_obs s1 (Plane a1 d1 m1 tl1 n1 k1) = plane_obs s2 (Plane a2 d2 m2 tl2 n2 k2) ->
  wave_obs z s1 (Wave fs1) = wave_obs z s2 (Wave fs2) ->
  mul_obs z s1 a1 d1 m1 tl1 n1 fs1 = mul_obs z s2 a2 d2 m2 tl2 n2 fs2.
Proof.
  cbn. intros [= Ea Ed Em En Es] [= Ew]. unfold mul_obs, mul_fields. rewrite !map_flat_map.
  apply (flat_map_obs (field_obs z s1) (field_obs z s2)); auto.
  intros x y [= Ev Eh]. rewrite !map_map. cbn [fst snd]. rewrite <- En in *.
  apply map_ext_in. intros n Hn. apply in_seq in Hn.
  rewrite Ev, Ea, Ed, Em. f_equal. rewrite !shift_of_app, Eh.
  rewrite (map_seq_ext _ _ _ _ Es n) by lia. reflexivity.
Qed.

Lemma do_prop_result s w z cvs jw fs :
  getobj s w = Some (jw, Wave fs) ->
  o_status (snd (do_prop_dft K s w z cvs)) = 0 /\
  result_values (fst (do_prop_dft K s w z cvs)) (snd (do_prop_dft K s w z cvs)) = Some (prop_vals K s z fs cvs).
Proof.
  intros Ew. unfold do_prop_dft. rewrite Ew. unfold alloc_list, push_obj, ret, result_values. cbn.
  split; auto. rewrite nth_error_app2 by lia. rewrite Nat.sub_diag. cbn. f_equal.
  rewrite map_map. cbn. unfold valof, hget. cbn. apply readback1.
Qed.

Lemma prop_vals_obs z s1 s2 : forall fs1 fs2 cvs,
  map (field_obs z s1) fs1 = map (field_obs z s2) fs2 -> prop_vals K s1 z fs1 cvs = prop_vals K s2 z fs2 cvs.
Proof.
  unfold prop_vals. induction fs1 as [|x fs1 IH]; intros [|y fs2] cvs E; cbn in E; try discriminate; auto.
  unfold field_obs in E at 1 3. injection E as Ev Eh E2. destruct cvs as [|c cvs]; cbn; auto.
  cbn [fst snd]. rewrite Ev, Eh. f_equal. apply IH; auto.
Qed.

Lemma step_prop_values s w z keys jw fs :
  inv s -> getobj s w = Some (jw, Wave fs) ->
  result_values (fst (step K s (OPropDft w z keys))) (snd (step K s (OPropDft w z keys)))
  = Some (prop_vals K s z fs (map coords (firstn (length fs) keys))).
Proof.
  intros I Ew. unfold step. cbn [cache_phase]. rewrite Ew.
  destruct (cache_get_list_spec (firstn (length fs) keys) s I) as (SP & I1 & Ec).
  destruct (cache_get_list s (firstn (length fs) keys)) as [s1 cvs]. cbn [fst snd] in *. subst cvs.
  cbn [main]. assert (getobj s1 w = Some (jw, Wave fs)) as Ew1 by (rewrite (same_public_getobj _ _ _ SP); auto).
  destruct (do_prop_result s1 w z (map coords (firstn (length fs) keys)) jw fs Ew1) as (_ & ->). f_equal.
  apply prop_vals_obs. apply map_ext_in. intros f Hf. unfold field_obs. f_equal.
  apply same_public_valof; auto. apply (proj1 I). eapply wave_vis; eauto.
Qed.

Lemma propagated_spec z keys s p w jp a d m tl nseg kind jw fs :
  inv s -> getobj s p = Some (jp, Plane a d m tl nseg kind) -> getobj s w = Some (jw, Wave fs) ->
  exists sa fs', inv sa /\ map (field_obs z sa) fs' = mul_obs z s a d m tl nseg fs /\
                 propagated K z keys s p w = Some (prop_vals K sa z fs' (map coords (firstn (length fs') keys))).
Proof.
  intros I Ep Ew. unfold propagated.
  pose proof (step_inv K s (OMul p w) I) as Ia. pose proof (registers_append K s (OMul p w)) as Ee.
  assert (step K s (OMul p w) = do_mul K s p w) as Es by reflexivity. rewrite Es in *.
  destruct (do_mul_result z s p w jp a d m tl nseg kind jw fs Ep Ew) as (fs' & Hr & Ho & Hobs).
  set (sa := fst (do_mul K s p w)) in *.
  assert (getobj sa (length (env s)) = Some (length (ob s), Wave fs')) as Eg.
  { unfold getobj. rewrite Ee, Hr. rewrite nth_error_app2 by lia. rewrite Nat.sub_diag. cbn. rewrite Ho. auto. }
  exists sa, fs'. split; auto. split; auto. apply (step_prop_values sa _ z keys _ fs' Ia Eg).
Qed.

(* (c) two planes with the same amplitude, mask and OPD contents and the same per-segment tilt sums - however the
   histories of attribute updates and tilt fits produced them - give the same propagated fields *)
Lemma plane_history_confluence z keys s1 s2 p1 w1 p2 w2 jp1 a1 d1 m1 tl1 n1 k1 jw1 fs1 jp2 a2 d2 m2 tl2 n2 k2 jw2 fs2 :
  inv s1 -> inv s2 ->
  getobj s1 p1 = Some (jp1, Plane a1 d1 m1 tl1 n1 k1) -> getobj s2 p2 = Some (jp2, Plane a2 d2 m2 tl2 n2 k2) ->
  getobj s1 w1 = Some (jw1, Wave fs1) -> getobj s2 w2 = Some (jw2, Wave fs2) ->
  plane_obs s1 (Plane a1 d1 m1 tl1 n1 k1) = plane_obs s2 (Plane a2 d2 m2 tl2 n2 k2) ->
  wave_obs z s1 (Wave fs1) = wave_obs z s2 (Wave fs2) ->
  propagated K z keys s1 p1 w1 = propagated K z keys s2 p2 w2 /\ propagated K z keys s1 p1 w1 <> None.
Proof.
  intros I1 I2 Ep1 Ep2 Ew1 Ew2 Hp Hw.
  destruct (propagated_spec z keys s1 p1 w1 _ _ _ _ _ _ _ _ _ I1 Ep1 Ew1) as (sa1 & f1 & Ia1 & O1 & ->).
  destruct (propagated_spec z keys s2 p2 w2 _ _ _ _ _ _ _ _ _ I2 Ep2 Ew2) as (sa2 & f2 & Ia2 & O2 & ->).
  pose proof (mul_obs_confluent z s1 s2 _ _ _ _ _ k1 _ _ _ _ _ _ k2 _ Hp Hw) as E. rewrite <- O1, <- O2 in E.
  assert (length f1 = length f2) as L by (rewrite <- (map_length (field_obs z sa1)), E, map_length; auto).
  split; [|discriminate]. f_equal. rewrite L. apply prop_vals_obs; auto.
Qed.

Lemma plane_history_confluence_explicit z keys s1 s2 p1 w1 p2 w2 jp1 a1 d1 m1 tl1 n1 k1 jw1 fs1 jp2 a2 d2 m2 tl2 n2 k2 jw2 fs2 :
  inv s1 -> inv s2 ->
  getobj s1 p1 = Some (jp1, Plane a1 d1 m1 tl1 n1 k1) -> getobj s2 p2 = Some (jp2, Plane a2 d2 m2 tl2 n2 k2) ->
  getobj s1 w1 = Some (jw1, Wave fs1) -> getobj s2 w2 = Some (jw2, Wave fs2) ->
  (valof s1 a1, valof s1 d1, valof s1 m1, Nat.max n1 1,
   map (fun n => tsum (stride tl1 n (Nat.max n1 1))) (seq 0 (Nat.max n1 1)))
  = (valof s2 a2, valof s2 d2, valof s2 m2, Nat.max n2 1,
     map (fun n => tsum (stride tl2 n (Nat.max n2 1))) (seq 0 (Nat.max n2 1))) ->
  map (fun f => (valof s1 (f_data f), shift_of z (f_tilt f))) fs1
  = map (fun f => (valof s2 (f_data f), shift_of z (f_tilt f))) fs2 ->
  propagated K z keys s1 p1 w1 = propagated K z keys s2 p2 w2 /\ propagated K z keys s1 p1 w1 <> None.
Proof.
  intros I1 I2 P1 P2 W1 W2 Hp Hw.
  apply (plane_history_confluence z keys s1 s2 p1 w1 p2 w2 jp1 a1 d1 m1 tl1 n1 k1 jw1 fs1 jp2 a2 d2 m2 tl2 n2 k2 jw2 fs2); auto.
  - cbn. f_equal. exact Hp.
  - cbn. f_equal. exact Hw.
Qed.

End Confluence.
