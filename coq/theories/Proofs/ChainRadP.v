(* WP-K (radiometry chain): composition of C13 (Spectrum arithmetic on the common grid, Spectrum.to), C15 (integrate,
   bin) and C14 (unit factor table).  Nothing here is about new model code: every lemma combines theorems of
   Proofs/SpectrumP.v and Proofs/SpectrumEditP.v about the model functions of Model/Spectrum.v (C13: spectra with units,
   [spec_op], [to_wu]) and Model/SpectrumEdit.v (C15: tables [mkSp wave value], [integrate], [bin]) and the generated
   table Gen/UnitTable.v (C14).  The two models have separate records for a Spectrum; [as_table] reads the result of the
   arithmetic as the table the integration methods work on.  Imported in this order so that unqualified names
   (spectrum, wave, value, wf, interp, ...) are C13's and C15's are written SpectrumEdit.xxx. *)
From LV Require Import Model.UnitsBase Gen.UnitTable.
From LV Require Import Model.SpectrumEdit Proofs.SpectrumEditP.
From LV Require Import Model.Spectrum Proofs.SpectrumP.
Local Open Scope Qc_scope.

(* ------------------------------------------------------------------ vocabulary *)
(* a finite float result as a rational (non-finite / unmodelled results do not occur for + and finite operands) *)
Definition xq (x : xval) : Qc := match x with XQ q => q | _ => 0 end.
(* the result of Spectrum arithmetic as the (wave, value) table integrate / bin work on *)
Definition as_table (r : rspectrum) : SpectrumEdit.spectrum := SpectrumEdit.mkSp (rwave r) (map xq (rvalue r)).
(* what a spectrum contributes at the points of a grid g: its linear interpolant inside its range, the fill value
   (below, above) outside - the array s_value that _interp_common builds *)
Definition on_grid (s : spectrum) (f : fillv) (g : list Qc) : list Qc :=
  sample_on (wave s) (value s) (fillarr f (wave s) g) g.

Lemma map_xq_XQ l : map xq (map XQ l) = l.
Proof. induction l as [|x l IH]; cbn; [reflexivity|]. now rewrite IH. Qed.

Lemma on_grid_length s f g : length (on_grid s f g) = length g.
Proof. unfold on_grid. apply sample_on_length, fillarr_length. Qed.

Lemma on_grid_denotes s f g i : wf s -> (i < length g)%nat ->
  denotes (wave s) (value s) f (nth i g 0) (nth i (on_grid s f g) 0).
Proof. intros (Hi & Hl & Hn) H. unfold on_grid. now apply sample_on_denotes. Qed.

(* ------------------------------------------------------------------ sums on the common grid *)
Lemma map2_add_lincomb a (V1 V2 : list Qc) :
  map2 (apply OAdd) (map (fun y => y * a) V1) V2 = map XQ (lincomb a V1 1 V2).
Proof.
  revert V2. induction V1 as [|x V1 IH]; intros [|y V2]; cbn; try reflexivity.
  unfold lincomb in IH. rewrite IH. f_equal. f_equal. ring.
Qed.

Lemma map_scale_one (V : list Qc) : map (fun y => y * 1) V = V.
Proof. induction V as [|x V IH]; cbn; [reflexivity|]. rewrite IH. f_equal. ring. Qed.

(* linear interpolation is homogeneous in the values *)
Lemma interp_scale_values w : forall v a x, interp w (map (fun y => y * a) v) x = interp w v x * a.
Proof.
  induction w as [|w0 wt IH]; intros v a x.
  - destruct v; cbn; ring.
  - destruct wt as [|w1 wt'].
    + destruct v; cbn; ring.
    + destruct v as [|v0 [|v1 vt']]; cbn [map interp]; try ring.
      destruct (qleb x w1); [unfold chord, Qcdiv; ring|exact (IH (v1 :: vt') a x)].
Qed.

Lemma on_grid_scaled w v u y a g :
  on_grid (mkS w (map (fun t => t * a) v) u y) (FScalar 0) g = map (fun t => t * a) (on_grid (mkS w v u y) (FScalar 0) g).
Proof.
  unfold on_grid, sample_on, fillarr. cbn [wave value].
  induction g as [|x g IH]; cbn [map map2]; [reflexivity|]. rewrite IH. f_equal.
  destruct (inrange w x); [apply interp_scale_values|ring].
Qed.

(* C13: Spectrum + Spectrum on the common grid is the sum of what the operands contribute there *)
Lemma spec_add_values s1 s2 m f r : spec_op OAdd s1 s2 m f = Ok r ->
  rvalue r = map2 (apply OAdd) (on_grid s1 f (rwave r)) (on_grid (conv s2 (wu s1)) f (rwave r)).
Proof.
  intros H. destruct (spec_op_inv _ _ _ _ _ _ H) as (E & _ & _). unfold core in E.
  destruct (common_grid _ _ _) as [g|]; cbn [rbind] in E; [|discriminate].
  injection E as Eg Ev. rewrite <- Eg. symmetry. exact Ev.
Qed.

(* C13 o C15: (a S1 + S2), default fill value 0, any sampling: on the common grid g the values are a V1 + V2 with V_k
   what S_k contributes at g, and integrate (either rule, any bounds) of the result is a int(S1|g) + int(S2|g) *)
Theorem scaled_sum_integrates s1 s2 a m r lo hi rl :
  spec_op OAdd (mkS (wave s1) (map (fun y => y * a) (value s1)) (wu s1) (vu s1)) s2 m (FScalar 0) = Ok r ->
  let g := rwave r in
  let V1 := on_grid s1 (FScalar 0) g in let V2 := on_grid (conv s2 (wu s1)) (FScalar 0) g in
  rvalue (scalar_op OMul s1 a) = map XQ (map (fun y => y * a) (value s1)) /\
  rvalue r = map XQ (lincomb a V1 1 V2) /\ length V1 = length g /\ length V2 = length g /\
  match SpectrumEdit.integrate (SpectrumEdit.mkSp g V1) lo hi rl, SpectrumEdit.integrate (SpectrumEdit.mkSp g V2) lo hi rl,
        SpectrumEdit.integrate (as_table r) lo hi rl with
  | Ok i1, Ok i2, Ok i => i = a * i1 + 1 * i2
  | Err e1, Err e2, Err e3 => e1 = e2 /\ e2 = e3
  | _, _, _ => False
  end.
Proof.
  intros H g V1 V2.
  assert (Ev : rvalue r = map XQ (lincomb a V1 1 V2)).
  { rewrite (spec_add_values _ _ _ _ _ H). cbn [wu]. fold g.
    destruct s1 as [w1 v1 u1 y1]. cbn [wave value wu vu] in *. rewrite on_grid_scaled. apply map2_add_lincomb. }
  split. { unfold scalar_op. cbn [rvalue]. now rewrite map_map. }
  split; [exact Ev|]. split; [apply on_grid_length|]. split; [apply on_grid_length|].
  unfold as_table. rewrite Ev, map_xq_XQ. fold g.
  exact (integrate_linear g V1 V2 a 1 lo hi rl (on_grid_length _ _ _) (on_grid_length _ _ _)).
Qed.

(* the plain sum, ANY fill value (scalar or (below, above) pair) *)
Theorem sum_integrates s1 s2 m f r lo hi rl :
  spec_op OAdd s1 s2 m f = Ok r ->
  let g := rwave r in
  let V1 := on_grid s1 f g in let V2 := on_grid (conv s2 (wu s1)) f g in
  rvalue r = map XQ (lincomb 1 V1 1 V2) /\ length V1 = length g /\ length V2 = length g /\
  match SpectrumEdit.integrate (SpectrumEdit.mkSp g V1) lo hi rl, SpectrumEdit.integrate (SpectrumEdit.mkSp g V2) lo hi rl,
        SpectrumEdit.integrate (as_table r) lo hi rl with
  | Ok i1, Ok i2, Ok i => i = 1 * i1 + 1 * i2
  | Err e1, Err e2, Err e3 => e1 = e2 /\ e2 = e3
  | _, _, _ => False
  end.
Proof.
  intros H g V1 V2.
  assert (Ev : rvalue r = map XQ (lincomb 1 V1 1 V2)).
  { rewrite (spec_add_values _ _ _ _ _ H). fold g V1 V2. rewrite <- (map_scale_one V1) at 1. apply map2_add_lincomb. }
  split; [exact Ev|]. split; [apply on_grid_length|]. split; [apply on_grid_length|].
  unfold as_table. rewrite Ev, map_xq_XQ. fold g.
  exact (integrate_linear g V1 V2 1 1 lo hi rl (on_grid_length _ _ _) (on_grid_length _ _ _)).
Qed.

(* C15 (bin) on top: power-preserving bins of the summed spectrum add up to a int(S1|g) + int(S2|g) between the
   first and the last bin centre *)
Theorem scaled_sum_bins s1 s2 a m r c rl e b :
  spec_op OAdd (mkS (wave s1) (map (fun y => y * a) (value s1)) (wu s1) (vu s1)) s2 m (FScalar 0) = Ok r ->
  SpectrumEdit.bin (as_table r) c rl e true = Ok (Some b) ->
  let g := rwave r in
  let V1 := on_grid s1 (FScalar 0) g in let V2 := on_grid (conv s2 (wu s1)) (FScalar 0) g in
  exists lo hi i1 i2, qminl c = Ok lo /\ qmaxl c = Ok hi /\
    SpectrumEdit.integrate (SpectrumEdit.mkSp g V1) (Some lo) (Some hi) rl = Ok i1 /\
    SpectrumEdit.integrate (SpectrumEdit.mkSp g V2) (Some lo) (Some hi) rl = Ok i2 /\
    length b = length c /\ qsum b = a * i1 + 1 * i2.
Proof.
  intros H Hb g V1 V2.
  destruct (bin_spec _ _ _ _ _ _ Hb) as (Lb & Hpp & _).
  destruct (Hpp eq_refl) as (raw & lo & hi & tot & _ & Elo & Ehi & Etot & _ & _ & Es).
  destruct (scaled_sum_integrates s1 s2 a m r (Some lo) (Some hi) rl H) as (_ & _ & _ & _ & L).
  fold g V1 V2 in L. rewrite Etot in L.
  destruct (SpectrumEdit.integrate (SpectrumEdit.mkSp g V1) (Some lo) (Some hi) rl) as [i1|] eqn:E1;
    destruct (SpectrumEdit.integrate (SpectrumEdit.mkSp g V2) (Some lo) (Some hi) rl) as [i2|] eqn:E2; try contradiction.
  exists lo, hi, i1, i2. repeat (split; [assumption|]). now rewrite Es.
Qed.

(* ------------------------------------------------------------------ unit conversion and integration *)
(* C13's wavelength units as C14's *)
Definition w14 (u : wunit) : UnitsBase.wunit :=
  match u with UM => Wm | UUm => Wum | UNm => Wnm | UAng => Wangstrom end.

(* the factor table Spectrum.to uses in the C13 model IS the table C14 observes through the real classes *)
Lemma ufac_is_table a b : ufac a b = Q2Qc (wave_factor (w14 a) (w14 b)).
Proof. destruct a, b; apply Qc_is_canon; reflexivity. Qed.

Lemma qle_scale f a b : 0 < f -> SpectrumEdit.qle (a * f) (b * f) = SpectrumEdit.qle a b.
Proof.
  intros Hf. destruct (SpectrumEdit.qle a b) eqn:E.
  - apply SpectrumEditP.qle_iff in E. apply SpectrumEditP.qle_iff. apply Qcmult_le_compat_r; [exact E|now apply Qclt_le_weak].
  - apply SpectrumEditP.qle_false in E. apply SpectrumEditP.qle_false. now apply Qcmult_lt_compat_r.
Qed.

Lemma select_scale f lo hi (h : Qc -> Qc) : 0 < f -> forall w v,
  SpectrumEdit.select (lo * f) (hi * f) (combine (map (fun x => x * f) w) (map h v))
  = map (fun p => (fst p * f, h (snd p))) (SpectrumEdit.select lo hi (combine w v)).
Proof.
  intros Hf. induction w as [|x w IH]; intros [|y v]; cbn [map combine]; try reflexivity.
  unfold SpectrumEdit.select in *. cbn [filter fst]. unfold in_range. rewrite !qle_scale by exact Hf.
  destruct (SpectrumEdit.qle lo x && SpectrumEdit.qle x hi); cbn [map fst snd]; now rewrite IH.
Qed.

Lemma trapz_cons2 x0 y0 x1 y1 t :
  SpectrumEdit.trapz ((x0, y0) :: (x1, y1) :: t) = (x1 - x0) * (y1 + y0) / two + SpectrumEdit.trapz ((x1, y1) :: t).
Proof. reflexivity. Qed.

(* wavelengths times f, densities divided by f: the trapezoid integral is unchanged *)
Lemma trapz_scale_density f : f <> 0 -> forall P,
  SpectrumEdit.trapz (map (fun p => (fst p * f, snd p / f)) P) = SpectrumEdit.trapz P.
Proof.
  intros Hf. induction P as [|[x0 y0] P IH]; [reflexivity|]. destruct P as [|[x1 y1] P']; [reflexivity|].
  cbn [map fst snd] in *. rewrite !trapz_cons2, IH. f_equal. field. split; [exact two_neq0|exact Hf].
Qed.
(* wavelengths times f, values kept: the trapezoid integral is multiplied by f *)
Lemma trapz_scale_unitless f : forall P,
  SpectrumEdit.trapz (map (fun p => (fst p * f, snd p)) P) = f * SpectrumEdit.trapz P.
Proof.
  induction P as [|[x0 y0] P IH]; [cbn; ring|]. destruct P as [|[x1 y1] P']; [cbn; ring|].
  cbn [map fst snd] in *. rewrite !trapz_cons2, IH. unfold Qcdiv. ring.
Qed.

(* C13 (Spectrum.to) o C15 (integrate) with C14's factor: expressing a spectrum in another wavelength unit and integrating
   between the converted bounds gives the same number for a density (photlam/flam/wlam: values are divided by the factor)
   and the factor times it for a unitless spectrum *)
Theorem to_wu_integrates (s : spectrum) (u : wunit) (lo hi : Qc) :
  let f := ufac (wu s) u in
  f = Q2Qc (wave_factor (w14 (wu s)) (w14 u)) /\ 0 < f /\
  exists I, SpectrumEdit.integrate (SpectrumEdit.mkSp (wave s) (value s)) (Some lo) (Some hi) Trapz = Ok I /\
    SpectrumEdit.integrate (SpectrumEdit.mkSp (wave (to_wu s u)) (value (to_wu s u))) (Some (lo * f)) (Some (hi * f)) Trapz
    = Ok (match vu s with VNone => f * I | _ => I end).
Proof.
  intros f. split; [apply ufac_is_table|]. split; [apply ufac_pos|].
  eexists. split; [reflexivity|]. unfold SpectrumEdit.integrate, samples, to_wu. cbn [rbind quad SpectrumEdit.wave SpectrumEdit.value wave value].
  fold f. f_equal. destruct (vu s).
  - rewrite <- (map_id (value s)) at 1. rewrite (select_scale f lo hi (fun y => y) (ufac_pos _ _)).
    apply trapz_scale_unitless.
  - rewrite (select_scale f lo hi (fun y => y / f) (ufac_pos _ _)). apply trapz_scale_density, qc_pos_neq0, ufac_pos.
  - rewrite (select_scale f lo hi (fun y => y / f) (ufac_pos _ _)). apply trapz_scale_density, qc_pos_neq0, ufac_pos.
  - rewrite (select_scale f lo hi (fun y => y / f) (ufac_pos _ _)). apply trapz_scale_density, qc_pos_neq0, ufac_pos.
Qed.
