(* np.fft.fftfreq as an index -> frequency map, the reflection symmetry of the three multipliers, and the consequence
   for the array handed to np.abs: it is REAL for real images whenever the multiplier is real and even
   (K[-u mod m, -v mod n] = K[u,v]) - which holds for pixel and jitter on every shape and for smear away from the
   unpaired Nyquist sample of even axes (the exception the property names). *)
From LV Require Import Model.Blur Proofs.ArrP Proofs.BlurP.

(* the index of the opposite frequency *)
Definition refl (n k : Z) : Z := (n - k) mod n.

Lemma zQ_opp a : zQ (- a) = (- zQ a)%Qc.
Proof. unfold zQ, Qcopp. apply Qc_is_canon. cbn [this Q2Qc]. rewrite !Qred_correct.
  rewrite inject_Z_opp. reflexivity. Qed.
Lemma tq_opp a n : tq (- a) n = (- tq a n)%Qc.
Proof. unfold tq. rewrite zQ_opp. unfold Qcdiv. ring. Qed.

(* ---- fftfreq ---- *)
Lemma fftfreq_num_spec n k : 0 < n -> 0 <= k < n ->
  - (n / 2) <= fftfreq_num n k <= (n - 1) / 2 /\ (fftfreq_num n k = k \/ fftfreq_num n k = k - n).
Proof. intros Hn Hk. unfold fftfreq_num. destruct (k <? (n - 1) / 2 + 1) eqn:E; lia. Qed.

Lemma refl_range n k : 0 < n -> 0 <= refl n k < n.
Proof. intros Hn. unfold refl. apply Z.mod_pos_bound. assumption. Qed.
Lemma refl_0 n : 0 < n -> refl n 0 = 0.
Proof. intros Hn. unfold refl. rewrite Z.sub_0_r. apply Z.mod_same. lia. Qed.
Lemma refl_pos n k : 0 < k < n -> refl n k = n - k.
Proof. intros H. unfold refl. apply Z.mod_small. lia. Qed.
Lemma refl_nyquist n k : 0 < n -> 2 * k = n -> refl n k = k.
Proof. intros Hn H. rewrite refl_pos by lia. lia. Qed.

Lemma fftfreq_num_refl n k : 0 < n -> 0 <= k < n -> 2 * k <> n ->
  fftfreq_num n (refl n k) = - fftfreq_num n k.
Proof.
  intros Hn Hk Hny. destruct (Z.eq_dec k 0) as [->|H0].
  - rewrite refl_0 by assumption. unfold fftfreq_num. destruct (0 <? (n - 1) / 2 + 1) eqn:E; lia.
  - rewrite refl_pos by lia. unfold fftfreq_num.
    destruct (k <? (n - 1) / 2 + 1) eqn:E1; destruct (n - k <? (n - 1) / 2 + 1) eqn:E2; lia.
Qed.

Theorem fftfreq_refl n k : 0 < n -> 0 <= k < n -> 2 * k <> n ->
  fftfreq n (refl n k) = (- fftfreq n k)%Qc.
Proof. intros Hn Hk Hny. unfold fftfreq. rewrite fftfreq_num_refl by assumption. apply tq_opp. Qed.

(* value range and congruence, in the rationals *)
Lemma zQ_le a b : a <= b -> (zQ a <= zQ b)%Qc.
Proof. intros H. unfold Qcle, zQ. cbn [this Q2Qc]. rewrite !Qred_correct. unfold Qle. cbn. lia. Qed.

(* ---- reflection symmetry of the multipliers ---- *)
Section Even.
Variable S : Scalar.
Variables sinc gauss : Qc -> S.

(* an index and its reflection carry equal or opposite frequencies: equal squares, always *)
Lemma fftfreq_refl_sq n k : 0 < n -> 0 <= k < n ->
  (fftfreq n (refl n k) * fftfreq n (refl n k) = fftfreq n k * fftfreq n k)%Qc.
Proof. intros Hn Hk. destruct (Z.eq_dec (2 * k) n) as [E|E].
  - now rewrite refl_nyquist.
  - rewrite fftfreq_refl by assumption. ring. Qed.

Theorem jitter_mul_even scale ps os m n i j : 0 < m -> 0 < n -> 0 <= i < m -> 0 <= j < n ->
  get (jitter_mul gauss scale ps os m n) (refl m i) (refl n j) = get (jitter_mul gauss scale ps os m n) i j.
Proof. intros Hm Hn Hi Hj. cbn [jitter_mul get]. f_equal.
  rewrite (fftfreq_refl_sq n j), (fftfreq_refl_sq m i) by assumption. reflexivity. Qed.

Hypothesis sinc_even : forall q : Qc, sinc (- q)%Qc = sinc q.

Lemma sinc_fftfreq_refl os n k : 0 < n -> 0 <= k < n ->
  sinc (fftfreq n (refl n k) * os)%Qc = sinc (fftfreq n k * os)%Qc.
Proof. intros Hn Hk. destruct (Z.eq_dec (2 * k) n) as [E|E].
  - now rewrite refl_nyquist.
  - rewrite fftfreq_refl by assumption. rewrite <- sinc_even. f_equal. ring. Qed.

Theorem pixel_mul_even os m n i j : 0 < m -> 0 < n -> 0 <= i < m -> 0 <= j < n ->
  get (pixel_mul sinc os m n) (refl m i) (refl n j) = get (pixel_mul sinc os m n) i j.
Proof. intros Hm Hn Hi Hj. cbn [pixel_mul get].
  now rewrite (sinc_fftfreq_refl os m i), (sinc_fftfreq_refl os n j). Qed.

(* smear: the argument is a linear form in the two frequencies; it changes sign only when BOTH do *)
Theorem smear_mul_even d sn cs ps os m n i j : 0 < m -> 0 < n -> 0 <= i < m -> 0 <= j < n ->
  2 * i <> m -> 2 * j <> n ->
  get (smear_mul sinc d sn cs ps os m n) (refl m i) (refl n j) = get (smear_mul sinc d sn cs ps os m n) i j.
Proof. intros Hm Hn Hi Hj Ni Nj. cbn [smear_mul get].
  rewrite (fftfreq_refl m i), (fftfreq_refl n j) by assumption. rewrite <- sinc_even. f_equal. ring. Qed.
End Even.

(* ---- reversal and reflection of sums ---- *)
Section Real.
Variable S : Scalar.
Hypothesis Sring : is_ring S.
Hypothesis Skernel : kernel_laws S.
Hypothesis Speriod : forall z : Z, @ke S (zQ z) = k1.
Hypothesis Sconj : conj_laws S.
Hypothesis Sconj_q : forall q : Qc, @kconj S (kofq q) = kofq q.
Add Ring Sre : Sring.

Lemma sumn_rev k (f : nat -> S) : sumn k (fun i => f (k - 1 - i)%nat) = sumn k f.
Proof.
  revert f. induction k as [|k IH]; intros f; [reflexivity|].
  rewrite (sumn_head S Sring k f). cbn [sumn].
  rewrite (sumn_ext S k _ (fun i => f (Datatypes.S (k - 1 - i)))).
  - rewrite (IH (fun i => f (Datatypes.S i))). replace (Datatypes.S k - 1 - k)%nat with 0%nat by lia. ring.
  - intros i Hi. f_equal. lia.
Qed.

Lemma sumZ_rev k (f : Z -> S) : sumZ k (fun i => f (k - 1 - i)) = sumZ k f.
Proof.
  destruct (Z_lt_le_dec k 0) as [H|H]; [now rewrite !(sumZ_nonpos S) by lia|].
  unfold sumZ. rewrite <- (sumn_rev (Z.to_nat k) (fun i => f (Z.of_nat i))).
  apply sumn_ext. intros i Hi. f_equal. lia.
Qed.

Theorem sumZ_refl n (g : Z -> S) : 0 < n -> sumZ n (fun u => g (refl n u)) = sumZ n g.
Proof.
  intros Hn.
  transitivity (sumZ (1 + (n - 1)) (fun u => g (refl n u))); [f_equal; lia|].
  rewrite (sumZ_split S Sring 1 (n - 1)) by lia.
  transitivity (sumZ (1 + (n - 1)) g); [|f_equal; lia].
  rewrite (sumZ_split S Sring 1 (n - 1) g) by lia. f_equal.
  - apply sumZ_ext. intros u Hu. assert (u = 0) by lia. subst u. now rewrite refl_0.
  - rewrite <- (sumZ_rev (n - 1) (fun i => g (1 + i))). apply sumZ_ext. intros i Hi.
    f_equal. rewrite refl_pos by lia. lia.
Qed.

Lemma kconj_sumZ' n (f : Z -> S) : kconj (sumZ n f) = sumZ n (fun i => kconj (f i)).
Proof. unfold sumZ. induction (Z.to_nat n) as [|k IH]; cbn [sumn].
  - apply (kconj_0 S Sconj). - rewrite (kconj_add S Sconj), IH. reflexivity. Qed.

(* the kernel at a reflected index is the conjugate kernel *)
Lemma ke_refl n x u : 0 < n -> @ke S (tq (x * refl n u) n) = ke (tq (- (x * u)) n).
Proof. intros Hn. unfold refl. pose proof (Z.div_mod (n - u) n ltac:(lia)) as E.
  replace (x * ((n - u) mod n)) with (- (x * u) + (x * (1 - (n - u) / n)) * n) by nia.
  apply (ke_period S Sring Skernel Speriod). lia. Qed.
Lemma kconj_ke_tq a n : @kconj S (ke (tq a n)) = ke (tq (- a) n).
Proof. rewrite (kconj_e S Sconj). now rewrite tq_opp. Qed.

(* transform of a real sequence at the opposite frequency = conjugate *)
Lemma dft1_refl_conj n (f : Z -> S) u : 0 < n -> (forall x, 0 <= x < n -> kconj (f x) = f x) ->
  dft1 n f (refl n u) = kconj (dft1 n f u).
Proof. intros Hn Hr. unfold dft1. rewrite kconj_sumZ'. apply sumZ_ext. intros x Hx.
  rewrite (kconj_mul S Sconj), Hr, kconj_ke_tq, ke_refl by assumption. reflexivity. Qed.

Lemma F2_refl_conj m n (g : Z -> Z -> S) u v : 0 < m -> 0 < n ->
  (forall x y, 0 <= x < m -> 0 <= y < n -> kconj (g x y) = g x y) ->
  F2 m n g (refl m u) (refl n v) = kconj (F2 m n g u v).
Proof.
  intros Hm Hn Hr. unfold F2, dft1 at 1 3. rewrite kconj_sumZ'. apply sumZ_ext. intros y Hy.
  rewrite (kconj_mul S Sconj), kconj_ke_tq, ke_refl by assumption. f_equal.
  apply dft1_refl_conj; [assumption|]. intros x Hx. now apply Hr.
Qed.

(* inverse transform of a Hermitian spectrum is real *)
Lemma idft1r_conj n (G : Z -> S) y : 0 < n ->
  kconj (idft1r n G y) = idft1r n (fun u => kconj (G (refl n u))) y.
Proof.
  intros Hn. unfold idft1r. rewrite kconj_sumZ'.
  rewrite <- (sumZ_refl n (fun u => kconj (G u * ke (tq (- (y * u)) n))%K)) by assumption.
  apply sumZ_ext. intros u Hu. rewrite (kconj_mul S Sconj). f_equal.
  rewrite kconj_ke_tq, Z.opp_involutive, ke_refl by assumption. reflexivity.
Qed.

Lemma I2r_conj m n (G : Z -> Z -> S) i j : 0 < m -> 0 < n ->
  kconj (I2r m n G i j) = I2r m n (fun u v => kconj (G (refl m u) (refl n v))) i j.
Proof.
  intros Hm Hn. unfold I2r. rewrite idft1r_conj by assumption.
  apply idft1r_ext. intros u Hu. now rewrite idft1r_conj.
Qed.

(* T: real image, real and even multiplier => ifft2(fft2 img * K) is real *)
Theorem conv_real (K a : arr S) i j : 0 <= i < nr a -> 0 <= j < nc a ->
  (forall x y, 0 <= x < nr a -> 0 <= y < nc a -> kconj (get a x y) = get a x y) ->
  (forall u v, 0 <= u < nr a -> 0 <= v < nc a -> kconj (get K u v) = get K u v) ->
  (forall u v, 0 <= u < nr a -> 0 <= v < nc a -> get K (refl (nr a) u) (refl (nc a) v) = get K u v) ->
  kconj (get (conv K a) i j) = get (conv K a) i j.
Proof.
  intros Hi Hj Ha HK HE. set (m := nr a) in *. set (n := nc a) in *.
  assert (Hm : 0 < m) by lia. assert (Hn : 0 < n) by lia.
  rewrite conv_get by assumption. fold m n.
  rewrite (kconj_mul S Sconj), Sconj_q, I2r_conj by assumption. f_equal.
  apply I2r_ext. intros u v Hu Hv.
  rewrite (kconj_mul S Sconj), F2_refl_conj by assumption.
  rewrite (kconj_inv S Sconj), HE by assumption. rewrite HK by assumption. reflexivity.
Qed.
End Real.

(* np.fft.fftfreq(n)[k] = a/n with a the representative of k modulo n in [-(n//2), (n-1)//2]; the opposite frequency
   sits at index (n - k) mod n, except that the Nyquist sample of an even axis (2k = n) is its own partner *)
Theorem fftfreq_characterisation n k : 0 < n -> 0 <= k < n ->
  fftfreq n k = tq (fftfreq_num n k) n
  /\ - (n / 2) <= fftfreq_num n k <= (n - 1) / 2
  /\ (fftfreq_num n k = k \/ fftfreq_num n k = k - n)
  /\ 0 <= refl n k < n
  /\ (2 * k <> n -> fftfreq n (refl n k) = (- fftfreq n k)%Qc)
  /\ (2 * k = n -> refl n k = k).
Proof. intros Hn Hk. pose proof (fftfreq_num_spec n k Hn Hk) as [H1 H2].
  repeat split; try tauto; try lia.
  - apply refl_range; assumption. - apply refl_range; assumption.
  - intros; now apply fftfreq_refl. - intros; now apply refl_nyquist. Qed.

Theorem multipliers_even (S : Scalar) (sinc gauss : Qc -> S) (os scale d sn cs ps : Qc) (m n i j : Z) :
  0 < m -> 0 < n -> 0 <= i < m -> 0 <= j < n ->
  get (jitter_mul gauss scale ps os m n) ((m - i) mod m) ((n - j) mod n) = get (jitter_mul gauss scale ps os m n) i j
  /\ ((forall q : Qc, sinc (- q)%Qc = sinc q) ->
      get (pixel_mul sinc os m n) ((m - i) mod m) ((n - j) mod n) = get (pixel_mul sinc os m n) i j
      /\ (2 * i <> m -> 2 * j <> n ->
          get (smear_mul sinc d sn cs ps os m n) ((m - i) mod m) ((n - j) mod n) = get (smear_mul sinc d sn cs ps os m n) i j)).
Proof. intros Hm Hn Hi Hj. split; [now apply jitter_mul_even|].
  intros He. split; [now apply pixel_mul_even|]. intros. now apply smear_mul_even. Qed.
