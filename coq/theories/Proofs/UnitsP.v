(* C14 - lemmas about the unit model.  The theorem instance is the field of real numbers [RF]
   (flux, wavelength, temperature, H, C range over all reals); the wavelength factors are decided
   in Q by computation over the finite unit type and transported with Q2R. *)
From Coq Require Import Reals Lra Field Qreals.
From LV Require Import Lib.Base Model.UnitsBase Gen.UnitTable Model.Units.

Definition RF : Fld := mkFld R 0%R 1%R Rplus Rmult Rminus Rdiv Ropp Q2R.
Local Open Scope R_scope.

(* ------------------------------------------------------------------ wavelength factors (finite) *)
Lemma wave_factors_compose : forall a b c : wunit,
  (wave_factor a b * wave_factor b c == wave_factor a c)%Q /\ (wave_factor a a == 1)%Q
  /\ (wave_factor a b * wave_factor b a == 1)%Q /\ (0 < wave_factor a b)%Q.
Proof. intros a b c; destruct a, b, c; vm_compute; repeat split; reflexivity. Qed.

Lemma wf_comp : forall a b c, wf RF a b * wf RF b c = wf RF a c.
Proof.
  intros a b c. unfold wf; cbn [fofq RF]. rewrite <- Q2R_mult. apply Qeq_eqR.
  apply (wave_factors_compose a b c).
Qed.
Lemma wf_id : forall a, wf RF a a = 1.
Proof.
  intros a. unfold wf; cbn [fofq RF]. replace 1 with (Q2R 1) by (unfold Q2R; cbn; field).
  apply Qeq_eqR. apply (wave_factors_compose a a a).
Qed.
Lemma wf_inv : forall a b, wf RF a b * wf RF b a = 1.
Proof. intros a b. rewrite wf_comp. apply wf_id. Qed.
Lemma wf_pos : forall a b, 0 < wf RF a b.
Proof.
  intros a b. unfold wf; cbn [fofq RF]. replace 0 with (Q2R 0) by (unfold Q2R; cbn; field).
  apply Qlt_Rlt. apply (wave_factors_compose a b a).
Qed.
Lemma wf_neq0 : forall a b, wf RF a b <> 0.
Proof. intros a b. pose proof (wf_pos a b). lra. Qed.
Lemma wf_back : forall a b, wf RF b a = / wf RF a b.
Proof.
  intros a b. pose proof (wf_inv a b). pose proof (wf_neq0 a b).
  apply (Rmult_eq_reg_l (wf RF a b)); auto. rewrite H. field; auto.
Qed.

(* ------------------------------------------------------------------ flux conversions (generated terms) *)
Section Flux.
Variables H C : R.
Hypothesis HC : H * C <> 0.
Let Hn0 : H <> 0. Proof. intro; subst; apply HC; ring. Qed.
Let Cn0 : C <> 0. Proof. intro; subst; apply HC; ring. Qed.
Notation fc := (flux_conv RF H C).

Lemma flux_comp : forall (a b c : funit) (flux wave : R), wave <> 0 ->
  fc b c (fc a b flux wave) wave = fc a c flux wave.
Proof.
  intros a b c flux wave Hw.
  destruct a, b, c; cbn; unfold Q2R; cbn; try (field; auto).
Qed.
Lemma flux_id : forall (a : funit) (flux wave : R), fc a a flux wave = flux.
Proof. intros a flux wave. destruct a; cbn; unfold Q2R; cbn; try reflexivity; try (field; auto). Qed.
Lemma flux_round : forall (a b : funit) (flux wave : R), wave <> 0 ->
  fc b a (fc a b flux wave) wave = flux.
Proof. intros. rewrite flux_comp by auto. apply flux_id. Qed.
(* every conversion is linear in the flux (the factor depends on the wavelength only) *)
Lemma flux_linear : forall (a b : funit) (k flux wave : R), wave <> 0 ->
  fc a b (k * flux) wave = k * fc a b flux wave.
Proof.
  intros a b k flux wave Hw.
  destruct a, b; cbn; unfold Q2R; cbn; try reflexivity; try (field; auto).
Qed.

(* ------------------------------------------------------------------ Spectrum.to *)
Notation to1 := (to1 RF H C).
Notation to := (to RF H C).
Notation trapz := (trapz RF).
Notation scale := (scale RF).
Notation unscale := (unscale RF).

Lemma scale_scale : forall f g l, scale g (scale f l) = scale (f * g) l.
Proof.
  intros f g l. unfold Units.scale. rewrite map_map. apply map_ext. intros x; cbn. ring.
Qed.
Lemma unscale_unscale : forall f g l, f <> 0 -> g <> 0 -> unscale g (unscale f l) = unscale (f * g) l.
Proof.
  intros f g l Hf Hg. unfold Units.unscale. rewrite map_map. apply map_ext. intros x; cbn. field; auto.
Qed.
Lemma scale_1 : forall l, scale 1 l = l.
Proof.
  intros l. unfold Units.scale. rewrite <- (map_id l) at 2. apply map_ext. intros x; cbn. ring.
Qed.
Lemma unscale_1 : forall l, unscale 1 l = l.
Proof.
  intros l. unfold Units.unscale. rewrite <- (map_id l) at 2. apply map_ext. intros x; cbn. field.
Qed.
Lemma scale_length : forall f l, length (scale f l) = length l.
Proof. intros; apply map_length. Qed.
Lemma unscale_length : forall f l, length (unscale f l) = length l.
Proof. intros; apply map_length. Qed.

(* the trapezoid integral of a density is invariant under wave *= f, value /= f *)
Lemma trapz_scale : forall f, f <> 0 -> forall ws vs,
  trapz (scale f ws) (unscale f vs) = trapz ws vs.
Proof.
  intros f Hf. induction ws as [|w0 ws IH]; intros vs.
  - reflexivity.
  - destruct vs as [|v0 vs]; [reflexivity|].
    destruct ws as [|w1 ws]; [reflexivity|].
    destruct vs as [|v1 vs]; [reflexivity|].
    specialize (IH (v1 :: vs)).
    change (trapz (scale f (w0 :: w1 :: ws)) (unscale f (v0 :: v1 :: vs)))
      with (Q2R (1 # 2) * (v0 / f + v1 / f) * (w1 * f - w0 * f)
            + trapz (scale f (w1 :: ws)) (unscale f (v1 :: vs))).
    change (trapz (w0 :: w1 :: ws) (v0 :: v1 :: vs))
      with (Q2R (1 # 2) * (v0 + v1) * (w1 - w0) + trapz (w1 :: ws) (v1 :: vs)).
    rewrite IH. set (t := trapz (w1 :: ws) (v1 :: vs)). clearbody t. clear IH. cbn [F RF] in *. unfold Q2R; cbn. field; auto.
Qed.

(* wavelength-unit conversion of a spectrum: the result, for the two kinds of value unit *)
Lemma to1_wave_density : forall (s : spectrum RF) (g : funit) (b : wunit), s_vu RF s = Some g ->
  to1 s (wname b) = Ok (mkSpec RF (scale (wf RF (s_wu RF s) b) (s_wave RF s))
                                  (unscale (wf RF (s_wu RF s) b) (s_value RF s)) b (Some g)).
Proof. intros s g b Hv. unfold Units.to1. destruct b; cbn; rewrite Hv; reflexivity. Qed.
Lemma to1_wave_unitless : forall (s : spectrum RF) (b : wunit), s_vu RF s = None ->
  to1 s (wname b) = Ok (mkSpec RF (scale (wf RF (s_wu RF s) b) (s_wave RF s)) (s_value RF s) b None).
Proof. intros s b Hv. unfold Units.to1. destruct b; cbn; rewrite Hv; reflexivity. Qed.

Lemma to_preserves_integral : forall (s : spectrum RF) (b : wunit),
  exists s', to1 s (wname b) = Ok s'
    /\ s_wu RF s' = b /\ s_vu RF s' = s_vu RF s
    /\ s_wave RF s' = scale (wf RF (s_wu RF s) b) (s_wave RF s)
    /\ (forall g, s_vu RF s = Some g ->
          trapz (s_wave RF s') (s_value RF s') = trapz (s_wave RF s) (s_value RF s))
    /\ (s_vu RF s = None -> s_value RF s' = s_value RF s).
Proof.
  intros s b. destruct (s_vu RF s) as [g|] eqn:Hv.
  - eexists. split; [apply (to1_wave_density s g b Hv)|]. cbn. repeat split; auto.
    + intros _ _. apply trapz_scale. apply wf_neq0.
    + discriminate.
  - eexists. split; [apply (to1_wave_unitless s b Hv)|]. cbn. repeat split; auto. discriminate.
Qed.

(* chains of wavelength conversions: a -> b -> c is a -> c (both kinds of value unit) *)
Lemma to_wave_compose : forall (s : spectrum RF) (b c : wunit),
  to s [wname b; wname c] = to s [wname c].
Proof.
  intros s b c. cbn [Units.to]. destruct (s_vu RF s) as [g|] eqn:Hv.
  - rewrite (to1_wave_density s g b Hv), (to1_wave_density s g c Hv). cbn [rbind].
    rewrite (to1_wave_density _ g c) by reflexivity. cbn [s_wu s_wave s_value rbind].
    rewrite scale_scale, unscale_unscale, wf_comp by apply wf_neq0. reflexivity.
  - rewrite (to1_wave_unitless s b Hv), (to1_wave_unitless s c Hv). cbn [rbind].
    rewrite (to1_wave_unitless _ c) by reflexivity. cbn [s_wu s_wave s_value rbind].
    rewrite scale_scale, wf_comp. reflexivity.
Qed.
Lemma to_wave_id : forall (s : spectrum RF), to s [wname (s_wu RF s)] = Ok s.
Proof.
  intros s. cbn [Units.to]. destruct s as [ws vs a [g|]].
  - rewrite (to1_wave_density _ g a) by reflexivity. cbn [s_wu s_wave s_value rbind].
    rewrite wf_id, scale_1, unscale_1. reflexivity.
  - rewrite (to1_wave_unitless _ a) by reflexivity. cbn [s_wu s_wave s_value rbind].
    rewrite wf_id, scale_1. reflexivity.
Qed.
Lemma to_wave_round : forall (s : spectrum RF) (b : wunit), to s [wname b; wname (s_wu RF s)] = Ok s.
Proof. intros. rewrite to_wave_compose. apply to_wave_id. Qed.

(* flux-unit conversion of a spectrum *)
Definition conv1 (a : wunit) (g h : funit) (v w : R) : R :=
  flux_conv RF H C g h (v / wf RF a Wm) (w * wf RF a Wm) / wf RF Wm a.

Lemma conv_values_spec : forall a g h vs ws,
  conv_values RF H C g h (wf RF Wm a) (unscale (wf RF a Wm) vs) (scale (wf RF a Wm) ws)
  = map (fun p => conv1 a g h (fst p) (snd p)) (combine vs ws).
Proof.
  intros a g h. induction vs as [|v vs IH]; intros ws; [reflexivity|].
  destruct ws as [|w ws]; [reflexivity|]. cbn. f_equal. apply IH.
Qed.
Lemma to1_flux : forall (s : spectrum RF) (g h : funit), s_vu RF s = Some g ->
  to1 s (fname h) = Ok (mkSpec RF (s_wave RF s)
        (map (fun p => conv1 (s_wu RF s) g h (fst p) (snd p)) (combine (s_value RF s) (s_wave RF s)))
        (s_wu RF s) (Some h)).
Proof.
  intros s g h Hv. unfold Units.to1. destruct h; cbn [fname short_wave_name flux_name]; rewrite Hv;
  rewrite conv_values_spec; reflexivity.
Qed.
Lemma conv1_comp : forall a g h k v w, w <> 0 ->
  conv1 a h k (conv1 a g h v w) w = conv1 a g k v w.
Proof.
  intros a g h k v w Hw. unfold conv1. pose proof (wf_neq0 a Wm) as Hf.
  rewrite (wf_back a Wm).
  set (f := wf RF a Wm) in *. set (X := fc g h (v / f) (w * f)).
  assert (E : X / / f / f = X) by (field; auto). rewrite E. unfold X.
  rewrite flux_comp; [reflexivity|]. apply Rmult_integral_contrapositive_currified; auto.
Qed.
Lemma conv1_id : forall a g v w, conv1 a g g v w = v.
Proof.
  intros a g v w. unfold conv1. pose proof (wf_neq0 a Wm) as Hf.
  rewrite flux_id, (wf_back a Wm). field; auto.
Qed.

Lemma map_conv_comp : forall a g h k ws vs, Forall (fun w => w <> 0) ws ->
  map (fun p => conv1 a h k (fst p) (snd p))
      (combine (map (fun p => conv1 a g h (fst p) (snd p)) (combine vs ws)) ws)
  = map (fun p => conv1 a g k (fst p) (snd p)) (combine vs ws).
Proof.
  intros a g h k. induction ws as [|w ws IH]; intros vs Hn.
  - destruct vs; reflexivity.
  - destruct vs as [|v vs]; [reflexivity|]. inversion Hn; subst. cbn. f_equal.
    + apply conv1_comp; auto.
    + apply IH; auto.
Qed.
Lemma map_conv_id : forall a g ws vs, length vs = length ws ->
  map (fun p => conv1 a g g (fst p) (snd p)) (combine vs ws) = vs.
Proof.
  intros a g. induction ws as [|w ws IH]; intros vs Hl.
  - destruct vs; [reflexivity|discriminate].
  - destruct vs as [|v vs]; [discriminate|]. cbn. f_equal.
    + apply conv1_id.
    + apply IH. cbn in Hl. congruence.
Qed.

Lemma to_flux_compose : forall (s : spectrum RF) (g h k : funit),
  s_vu RF s = Some g -> Forall (fun w => w <> 0) (s_wave RF s) ->
  to s [fname h; fname k] = to s [fname k].
Proof.
  intros s g h k Hv Hn. cbn [Units.to].
  rewrite (to1_flux s g h Hv), (to1_flux s g k Hv). cbn [rbind].
  rewrite (to1_flux _ h k) by reflexivity. cbn [s_wu s_wave s_value rbind].
  rewrite map_conv_comp by auto. reflexivity.
Qed.
Lemma to_flux_id : forall (s : spectrum RF) (g : funit),
  s_vu RF s = Some g -> length (s_value RF s) = length (s_wave RF s) -> to s [fname g] = Ok s.
Proof.
  intros s g Hv Hl. cbn [Units.to]. rewrite (to1_flux s g g Hv). cbn [rbind].
  rewrite map_conv_id by auto. destruct s; cbn in *; subst; reflexivity.
Qed.
Lemma to_flux_round : forall (s : spectrum RF) (g h : funit),
  s_vu RF s = Some g -> Forall (fun w => w <> 0) (s_wave RF s) ->
  length (s_value RF s) = length (s_wave RF s) -> to s [fname h; fname g] = Ok s.
Proof. intros. rewrite (to_flux_compose s g h g) by auto. apply to_flux_id; auto. Qed.

(* ------------------------------------------------------------------ Planck's law *)
Variables Kb cpi : R.
Variable expf : R -> R.
Notation planck_si := (planck_si RF H C Kb expf).
Notation planck_gen := (planck_gen RF H C Kb expf).

(* the SI value (W m^-2 sr^-1 m^-1 at the wavelength in metres) carried to the units (a, g) *)
Definition in_units (coef T : R) (a : wunit) (g : funit) (w : R) : R :=
  flux_conv RF H C Fwlam g (planck_si coef (w * wf RF a Wm) T) (w * wf RF a Wm) / wf RF Wm a.

Lemma Unit_wave_name : forall wn a, wave_name wn = Some a -> Unit wn = Ok (UW a).
Proof. intros wn a; destruct wn; cbn; intros E; inversion E; reflexivity. Qed.
Lemma Unit_flux_name : forall vn g, flux_name vn = Some g -> Unit vn = Ok (UF g).
Proof. intros vn g; destruct vn; cbn; intros E; inversion E; reflexivity. Qed.

Lemma planck_gen_spec : forall coef w T wn vn a g,
  wave_name wn = Some a -> flux_name vn = Some g ->
  planck_gen coef w T wn vn = Ok (in_units coef T a g w).
Proof.
  intros coef w T wn vn a g Hw Hg. unfold Units.planck_gen, in_units.
  rewrite (Unit_wave_name _ _ Hw). cbn [rbind]. unfold wave_to, flux_to. cbn [wave_name rbind]. rewrite Hw.
  destruct vn; cbn in Hg; inversion Hg; subst; cbn [flux_name rbind]; try reflexivity;
  try (rewrite flux_id; reflexivity).
Qed.

Lemma planck_si_linear : forall k coef w T, planck_si (k * coef) w T = k * planck_si coef w T.
Proof. intros. unfold Units.planck_si. cbn [fmul fdiv fsub f1 RF F]. unfold Rdiv. set (D := Rinv _). clearbody D. ring. Qed.

Lemma exitance_pi_radiance : forall w T wn vn a g,
  wave_name wn = Some a -> flux_name vn = Some g -> w <> 0 ->
  exists r, planck_radiance RF H C Kb expf w T wn vn = Ok r
         /\ planck_exitance RF H C Kb cpi expf w T wn vn = Ok (cpi * r).
Proof.
  intros w T wn vn a g Hw Hg Hw0. unfold planck_radiance, planck_exitance.
  rewrite (planck_gen_spec _ w T wn vn a g Hw Hg), (planck_gen_spec _ w T wn vn a g Hw Hg).
  eexists; split; [reflexivity|]. f_equal. unfold in_units.
  change (@fmul RF (fofq (2 # 1)) cpi) with (Q2R (2 # 1) * cpi).
  change (@fofq RF (2 # 1)%Q) with (Q2R (2 # 1)).
  rewrite (Rmult_comm (Q2R (2 # 1)) cpi), planck_si_linear, flux_linear.
  - unfold Rdiv; ring.
  - apply Rmult_integral_contrapositive_currified; auto. apply wf_neq0.
Qed.

(* unit independence: a sample (w, value) of the Planck function in units (a, g), converted to the
   units (b, h) by the rules of Spectrum.to, is the Planck function evaluated directly in (b, h) *)
Lemma in_units_convert : forall coef T a g b h w, w <> 0 ->
  conv1 b g h (in_units coef T a g w / wf RF a b) (w * wf RF a b)
  = in_units coef T b h (w * wf RF a b).
Proof.
  intros coef T a g b h w Hw. unfold conv1, in_units.
  assert (Hm : w * wf RF a b * wf RF b Wm = w * wf RF a Wm) by (rewrite Rmult_assoc, wf_comp; reflexivity).
  rewrite Hm. set (wm := w * wf RF a Wm). set (B := planck_si coef wm T).
  assert (Hwm : wm <> 0) by (apply Rmult_integral_contrapositive_currified; auto; apply wf_neq0).
  replace (fc Fwlam g B wm / wf RF Wm a / wf RF a b / wf RF b Wm) with (fc Fwlam g B wm).
  - rewrite flux_comp by auto. reflexivity.
  - pose proof (wf_neq0 Wm a). pose proof (wf_neq0 a b). pose proof (wf_neq0 b Wm).
    assert (E : wf RF Wm a * wf RF a b * wf RF b Wm = 1) by (rewrite !wf_comp; apply wf_id).
    apply (Rmult_eq_reg_r (wf RF Wm a * wf RF a b * wf RF b Wm)).
    + rewrite E at 1. field; auto.
    + rewrite E. lra.
Qed.

Lemma radiances_spec : forall T wn vn a g ws,
  wave_name wn = Some a -> flux_name vn = Some g ->
  radiances RF H C Kb expf ws T wn vn = Ok (map (in_units (Q2R (2 # 1)) T a g) ws).
Proof.
  intros T wn vn a g ws Hw Hg. induction ws as [|w ws IH]; [reflexivity|].
  cbn [radiances]. unfold planck_radiance. rewrite (planck_gen_spec _ w T wn vn a g Hw Hg).
  cbn [rbind]. rewrite IH. reflexivity.
Qed.
Lemma blackbody_spec : forall T wn vn a g ws,
  wave_name wn = Some a -> flux_name vn = Some g ->
  blackbody RF H C Kb expf ws T wn vn = Ok (mkSpec RF ws (map (in_units (Q2R (2 # 1)) T a g) ws) a (Some g)).
Proof.
  intros T wn vn a g ws Hw Hg. unfold blackbody. rewrite (radiances_spec T wn vn a g ws Hw Hg).
  cbn [rbind]. rewrite (Unit_wave_name _ _ Hw), (Unit_flux_name _ _ Hg). reflexivity.
Qed.

Lemma wave_name_wname : forall a, wave_name (wname a) = Some a.
Proof. destruct a; reflexivity. Qed.
Lemma flux_name_fname : forall g, flux_name (fname g) = Some g.
Proof. destruct g; reflexivity. Qed.

Lemma blackbody_unit_independent : forall T (a b : wunit) (g h : funit) ws s,
  Forall (fun w => w <> 0) ws ->
  blackbody RF H C Kb expf ws T (wname a) (fname g) = Ok s ->
  to s [wname b; fname h] = blackbody RF H C Kb expf (scale (wf RF a b) ws) T (wname b) (fname h).
Proof.
  intros T a b g h ws s Hn Hs.
  rewrite (blackbody_spec T _ _ a g ws (wave_name_wname a) (flux_name_fname g)) in Hs.
  inversion Hs; subst s; clear Hs.
  rewrite (blackbody_spec T _ _ b h _ (wave_name_wname b) (flux_name_fname h)).
  cbn [Units.to]. rewrite (to1_wave_density _ g b) by reflexivity. cbn [rbind s_wu s_wave s_value].
  rewrite (to1_flux _ g h) by reflexivity. cbn [rbind s_wu s_wave s_value]. f_equal. f_equal.
  unfold Units.scale, Units.unscale. rewrite !map_map.
  induction ws as [|w ws IH]; [reflexivity|]. inversion Hn; subst. cbn [map combine fst snd]. f_equal.
  - cbn [fmul fdiv RF]. apply in_units_convert; auto.
  - apply IH; auto.
Qed.

(* vegaflux: the photon flux in SI carried to the requested units, the wavelength to the wave unit *)
Lemma vegaflux_spec : forall w0 jy wn vn a g,
  wave_name wn = Some a -> flux_name vn = Some g ->
  vegaflux RF H C w0 jy wn vn
  = Ok (flux_conv RF H C Fphotlam g (jy * Q2R (1 # 100000000000000000000000000) * C / (w0 * w0) * w0 / (H * C)) w0
          / wf RF Wm a, w0 * wf RF Wm a).
Proof.
  intros w0 jy wn vn a g Hw Hg. unfold vegaflux, wave_to, flux_to. cbn [wave_name]. rewrite Hw.
  destruct vn; cbn in Hg; inversion Hg; subst; cbn [flux_name rbind]; try reflexivity;
  try (rewrite flux_id; reflexivity).
Qed.

End Flux.

(* non-vacuity: the constants of the source satisfy the hypothesis H*C <> 0 *)
Lemma source_constants_ok : Q2R const_H * Q2R const_C <> 0.
Proof.
  rewrite <- Q2R_mult. replace 0 with (Q2R 0) by (unfold Q2R; cbn; field).
  intro E. apply eqR_Qeq in E. revert E. vm_compute. discriminate.
Qed.
