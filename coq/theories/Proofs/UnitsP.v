(* C14 - lemmas about the unit model.  The theorem instance is the field of real numbers [RF]
   (flux, wavelength, temperature, H, C range over all reals); the wavelength factors are decided
   in Q by computation over the finite unit type and transported with Q2R. *)
From Coq Require Import Reals Lra Field Qreals.
From LV Require Import Lib.Base Model.UnitsBase Gen.UnitTable Model.Units.

Definition RF : Fld := mkFld R 0%R 1%R Rplus Rmult Rminus Rdiv Ropp Q2R.
Local Open Scope R_scope.

(* ------------------------------------------------------------------ wavelength factors (finite) *)
Lemma wave_factors_compose : forall a b c : wunit,
  (wave_factor a b * wave_factor b c == wave_factor a c)%Q /\ (wave_factor a a == 1)%Q
  /\ (wave_factor a b * wave_factor b a == 1)%Q /\ (0 < wave_factor a b)%Q.
Proof. intros a b c; destruct a, b, c; vm_compute; repeat split; reflexivity. Qed.

Lemma wf_comp : forall a b c, wf RF a b * wf RF b c = wf RF a c.
Proof.
  intros a b c. unfold wf; cbn [fofq RF]. rewrite <- Q2R_mult. apply Qeq_eqR.
  apply (wave_factors_compose a b c).
Qed.
Lemma wf_id : forall a, wf RF a a = 1.
Proof.
  intros a. unfold wf; cbn [fofq RF]. replace 1 with (Q2R 1) by (unfold Q2R; cbn; field).
  apply Qeq_eqR. apply (wave_factors_compose a a a).
Qed.
Lemma wf_inv : forall a b, wf RF a b * wf RF b a = 1.
Proof. intros a b. rewrite wf_comp. apply wf_id. Qed.
Lemma wf_pos : forall a b, 0 < wf RF a b.
Proof.
  intros a b. unfold wf; cbn [fofq RF]. replace 0 with (Q2R 0) by (unfold Q2R; cbn; field).
  apply Qlt_Rlt. apply (wave_factors_compose a b a).
Qed.
Lemma wf_neq0 : forall a b, wf RF a b <> 0.
Proof. intros a b. pose proof (wf_pos a b). lra. Qed.
Lemma wf_back : forall a b, wf RF b a = / wf RF a b.
Proof.
  intros a b. pose proof (wf_inv a b). pose proof (wf_neq0 a b).
  apply (Rmult_eq_reg_l (wf RF a b)); auto. rewrite H. field; auto.
Qed.

(* ------------------------------------------------------------------ flux conversions (generated terms) *)
Section Flux.
Variables H C : R.
Hypothesis HC : H * C <> 0.
Let Hn0 : H <> 0. Proof. intro; subst; apply HC; ring. Qed.
Let Cn0 : C <> 0. Proof. intro; subst; apply HC; ring. Qed.
Notation fc := (flux_conv RF H C).

Lemma flux_comp : forall (a b c : funit) (flux wave : R), wave <> 0 ->
  fc b c (fc a b flux wave) wave = fc a c flux wave.
Proof.
  intros a b c flux wave Hw.
  destruct a, b, c; cbn; unfold Q2R; cbn; try (field; auto).
Qed.
Lemma flux_id : forall (a : funit) (flux wave : R), fc a a flux wave = flux.
Proof. intros a flux wave. destruct a; cbn; unfold Q2R; cbn; try reflexivity; try (field; auto). Qed.
Lemma flux_round : forall (a b : funit) (flux wave : R), wave <> 0 ->
  fc b a (fc a b flux wave) wave = flux.
Proof. intros. rewrite flux_comp by auto. apply flux_id. Qed.
(* every conversion is linear in the flux (the factor depends on the wavelength only) *)
Lemma flux_linear : forall (a b : funit) (k flux wave : R), wave <> 0 ->
  fc a b (k * flux) wave = k * fc a b flux wave.
Proof.
  intros a b k flux wave Hw.
  destruct a, b; cbn; unfold Q2R; cbn; try reflexivity; try (field; auto).
Qed.

(* ------------------------------------------------------------------ Spectrum.to *)
Notation to1 := (to1 RF H C).
Notation to := (to RF H C).
Notation trapz := (trapz RF).
Notation scale := (scale RF).
Notation unscale := (unscale RF).

Lemma scale_scale : forall f g l, scale g (scale f l) = scale (f * g) l.
Proof.
  intros f g l. unfold Units.scale. rewrite map_map. apply map_ext. intros x; cbn. ring.
Qed.
Lemma unscale_unscale : forall f g l, f <> 0 -> g <> 0 -> unscale g (unscale f l) = unscale (f * g) l.
Proof.
  intros f g l Hf Hg. unfold Units.unscale. rewrite map_map. apply map_ext. intros x; cbn. field; auto.
Qed.
Lemma scale_1 : forall l, scale 1 l = l.
Proof.
  intros l. unfold Units.scale. rewrite <- (map_id l) at 2. apply map_ext. intros x; cbn. ring.
Qed.
Lemma unscale_1 : forall l, unscale 1 l = l.
Proof.
  intros l. unfold Units.unscale. rewrite <- (map_id l) at 2. apply map_ext. intros x; cbn. field.
Qed.
Lemma scale_length : forall f l, length (scale f l) = length l.
Proof. intros; apply map_length. Qed.
Lemma unscale_length : forall f l, length (unscale f l) = length l.
Proof. intros; apply map_length. Qed.

(* the trapezoid integral of a density is invariant under wave *= f, value /= f *)
Lemma trapz_scale : forall f, f <> 0 -> forall ws vs,
  trapz (scale f ws) (unscale f vs) = trapz ws vs.
Proof.
  intros f Hf. induction ws as [|w0 ws IH]; intros vs.
  - reflexivity.
  - destruct vs as [|v0 vs]; [reflexivity|].
    destruct ws as [|w1 ws]; [reflexivity|].
    destruct vs as [|v1 vs]; [reflexivity|].
    specialize (IH (v1 :: vs)).
    change (trapz (scale f (w0 :: w1 :: ws)) (unscale f (v0 :: v1 :: vs)))
      with (Q2R (1 # 2) * (v0 / f + v1 / f) * (w1 * f - w0 * f)
            + trapz (scale f (w1 :: ws)) (unscale f (v1 :: vs))).
    change (trapz (w0 :: w1 :: ws) (v0 :: v1 :: vs))
      with (Q2R (1 # 2) * (v0 + v1) * (w1 - w0) + trapz (w1 :: ws) (v1 :: vs)).
    rewrite IH. set (t := trapz (w1 :: ws) (v1 :: vs)). clearbody t. clear IH. cbn [F RF] in *. unfold Q2R; cbn. field; auto.
Qed.

(* wavelength-unit conversion of a spectrum: the result, for the two kinds of value unit *)
Lemma to1_wave_density : forall (s : spectrum RF) (g : funit) (b : wunit), s_vu RF s = Some g ->
  to1 s (wname b) = Ok (mkSpec RF (scale (wf RF (s_wu RF s) b) (s_wave RF s))
                                  (unscale (wf RF (s_wu RF s) b) (s_value RF s)) b (Some g)).
Proof. intros s g b Hv. unfold Units.to1. destruct b; cbn; rewrite Hv; reflexivity. Qed.
Lemma to1_wave_unitless : forall (s : spectrum RF) (b : wunit), s_vu RF s = None ->
  to1 s (wname b) = Ok (mkSpec RF (scale (wf RF (s_wu RF s) b) (s_wave RF s)) (s_value RF s) b None).
Proof. intros s b Hv. unfold Units.to1. destruct b; cbn; rewrite Hv; reflexivity. Qed.

Lemma to_preserves_integral : forall (s : spectrum RF) (b : wunit),
  exists s', to1 s (wname b) = Ok s'
    /\ s_wu RF s' = b /\ s_vu RF s' = s_vu RF s
    /\ s_wave RF s' = scale (wf RF (s_wu RF s) b) (s_wave RF s)
    /\ (forall g, s_vu RF s = Some g ->
          trapz (s_wave RF s') (s_value RF s') = trapz (s_wave RF s) (s_value RF s))
    /\ (s_vu RF s = None -> s_value RF s' = s_value RF s).
Proof.
  intros s b. destruct (s_vu RF s) as [g|] eqn:Hv.
  - eexists. split; [apply (to1_wave_density s g b Hv)|]. cbn. repeat split; auto.
    + intros _ _. apply trapz_scale. apply wf_neq0.
    + discriminate.
  - eexists. split; [apply (to1_wave_unitless s b Hv)|]. cbn. repeat split; auto. discriminate.
Qed.

(* chains of wavelength conversions: a -> b -> c is a -> c (both kinds of value unit) *)
Lemma to_wave_compose : forall (s : spectrum RF) (b c : wunit),
  to s [wname b; wname c] = to s [wname c].
Proof.
  intros s b c. cbn [Units.to]. destruct (s_vu RF s) as [g|] eqn:Hv.
  - rewrite (to1_wave_density s g b Hv), (to1_wave_density s g c Hv). cbn [rbind].
    rewrite (to1_wave_density _ g c) by reflexivity. cbn [s_wu s_wave s_value rbind].
    rewrite scale_scale, unscale_unscale, wf_comp by apply wf_neq0. reflexivity.
  - rewrite (to1_wave_unitless s b Hv), (to1_wave_unitless s c Hv). cbn [rbind].
    rewrite (to1_wave_unitless _ c) by reflexivity. cbn [s_wu s_wave s_value rbind].
    rewrite scale_scale, wf_comp. reflexivity.
Qed.
Lemma to_wave_id : forall (s : spectrum RF), to s [wname (s_wu RF s)] = Ok s.
Proof.
  intros s. cbn [Units.to]. destruct s as [ws vs a [g|]].
  - rewrite (to1_wave_density _ g a) by reflexivity. cbn [s_wu s_wave s_value rbind].
    rewrite wf_id, scale_1, unscale_1. reflexivity.
  - rewrite (to1_wave_unitless _ a) by reflexivity. cbn [s_wu s_wave s_value rbind].
    rewrite wf_id, scale_1. reflexivity.
Qed.
Lemma to_wave_round : forall (s : spectrum RF) (b : wunit), to s [wname b; wname (s_wu RF s)] = Ok s.
Proof. intros. rewrite to_wave_compose. apply to_wave_id. Qed.

(* flux-unit conversion of a spectrum *)
Definition conv1 (a : wunit) (g h : funit) (v w : R) : R :=
  flux_conv RF H C g h (v / wf RF a Wm) (w * wf RF a Wm) / wf RF Wm a.

Lemma conv_values_spec : forall a g h vs ws,
  conv_values RF H C g h (wf RF Wm a) (unscale (wf RF a Wm) vs) (scale (wf RF a Wm) ws)
  = map (fun p => conv1 a g h (fst p) (snd p)) (combine vs ws).
Proof.
  intros a g h. induction vs as [|v vs IH]; intros ws; [reflexivity|].
  destruct ws as [|w ws]; [reflexivity|]. cbn. f_equal. apply IH.
Qed.
Lemma to1_flux : forall (s : spectrum RF) (g h : funit), s_vu RF s = Some g ->
  to1 s (fname h) = Ok (mkSpec RF (s_wave RF s)
        (map (fun p => conv1 (s_wu RF s) g h (fst p) (snd p)) (combine (s_value RF s) (s_wave RF s)))
        (s_wu RF s) (Some h)).
Proof.
  intros s g h Hv. unfold Units.to1. destruct h; cbn [fname short_wave_name flux_name]; rewrite Hv;
  rewrite conv_values_spec; reflexivity.
Qed.
Lemma conv1_comp : forall a g h k v w, w <> 0 ->
  conv1 a h k (conv1 a g h v w) w = conv1 a g k v w.
Proof.
  intros a g h k v w Hw. unfold conv1. pose proof (wf_neq0 a Wm) as Hf.
  rewrite (wf_back a Wm).
  set (f := wf RF a Wm) in *. set (X := fc g h (v / f) (w * f)).
  assert (E : X / / f / f = X) by (field; auto). rewrite E. unfold X.
  rewrite flux_comp; [reflexivity|]. apply Rmult_integral_contrapositive_currified; auto.
Qed.
Lemma conv1_id : forall a g v w, conv1 a g g v w = v.
Proof.
  intros a g v w. unfold conv1. pose proof (wf_neq0 a Wm) as Hf.
  rewrite flux_id, (wf_back a Wm). field; auto.
Qed.

Lemma map_conv_comp : forall a g h k ws vs, Forall (fun w => w <> 0) ws ->
  map (fun p => conv1 a h k (fst p) (snd p))
      (combine (map (fun p => conv1 a g h (fst p) (snd p)) (combine vs ws)) ws)
  = map (fun p => conv1 a g k (fst p) (snd p)) (combine vs ws).
Proof.
  intros a g h k. induction ws as [|w ws IH]; intros vs Hn.
  - destruct vs; reflexivity.
  - destruct vs as [|v vs]; [reflexivity|]. inversion Hn; subst. cbn. f_equal.
    + apply conv1_comp; auto.
    + apply IH; auto.
Qed.
Lemma map_conv_id : forall a g ws vs, length vs = length ws ->
  map (fun p => conv1 a g g (fst p) (snd p)) (combine vs ws) = vs.
Proof.
  intros a g. induction ws as [|w ws IH]; intros vs Hl.
  - destruct vs; [reflexivity|discriminate].
  - destruct vs as [|v vs]; [discriminate|]. cbn. f_equal.
    + apply conv1_id.
    + apply IH. cbn in Hl. congruence.
Qed.

Lemma to_flux_compose : forall (s : spectrum RF) (g h k : funit),
  s_vu RF s = Some g -> Forall (fun w => w <> 0) (s_wave RF s) ->
  to s [fname h; fname k] = to s [fname k].
Proof.
  intros s g h k Hv Hn. cbn [Units.to].
  rewrite (to1_flux s g h Hv), (to1_flux s g k Hv). cbn [rbind].
  rewrite (to1_flux _ h k) by reflexivity. cbn [s_wu s_wave s_value rbind].
  rewrite map_conv_comp by auto. reflexivity.
Qed.
Lemma to_flux_id : forall (s : spectrum RF) (g : funit),
  s_vu RF s = Some g -> length (s_value RF s) = length (s_wave RF s) -> to s [fname g] = Ok s.
Proof.
  intros s g Hv Hl. cbn [Units.to]. rewrite (to1_flux s g g Hv). cbn [rbind].
  rewrite map_conv_id by auto. destruct s; cbn in *; subst; reflexivity.
Qed.
Lemma to_flux_round : forall (s : spectrum RF) (g h : funit),
  s_vu RF s = Some g -> Forall (fun w => w <> 0) (s_wave RF s) ->
  length (s_value RF s) = length (s_wave RF s) -> to s [fname h; fname g] = Ok s.
Proof. intros. rewrite (to_flux_compose s g h g) by auto. apply to_flux_id; auto. Qed.

(* ------------------------------------------------------------------ Spectrum.sample in another wave unit *)
Definition Rleb (x y : R) : bool := if Rle_dec x y then true else false.
Lemma Rleb_scale : forall f x y, 0 < f -> Rleb (x * f) (y * f) = Rleb x y.
Proof.
  intros f x y Hf. unfold Rleb. destruct (Rle_dec (x * f) (y * f)) as [A|A], (Rle_dec x y) as [B|B]; auto.
  - exfalso. apply B. apply (Rmult_le_reg_r f); auto.
  - exfalso. apply A. apply Rmult_le_compat_r; lra.
Qed.
(* consecutive samples are distinct (the wave setter demands strictly increasing wavelengths) *)
Fixpoint distinct_adj (ws : list R) : Prop :=
  match ws with
  | w0 :: ((w1 :: _) as t) => w0 <> w1 /\ distinct_adj t
  | _ => True
  end.
Notation interp := (interp_lin RF Rleb).

Lemma interp_scale_density : forall f, 0 < f -> forall ws vs x, distinct_adj ws ->
  interp (scale f ws) (unscale f vs) (x * f) = option_map (fun y => y / f) (interp ws vs x).
Proof.
  intros f Hf. induction ws as [|w0 ws IH]; intros vs x Hd; [reflexivity|].
  destruct vs as [|v0 vs]; [reflexivity|].
  destruct ws as [|w1 ws]; [reflexivity|].
  destruct vs as [|v1 vs]; [reflexivity|].
  destruct Hd as [Hne Hd]. specialize (IH (v1 :: vs) x Hd).
  change (interp (scale f (w0 :: w1 :: ws)) (unscale f (v0 :: v1 :: vs)) (x * f))
    with (if Rleb (w0 * f) (x * f) && Rleb (x * f) (w1 * f)
          then Some (v0 / f + (v1 / f - v0 / f) / (w1 * f - w0 * f) * (x * f - w0 * f))
          else interp (scale f (w1 :: ws)) (unscale f (v1 :: vs)) (x * f)).
  change (interp (w0 :: w1 :: ws) (v0 :: v1 :: vs) x)
    with (if Rleb w0 x && Rleb x w1 then Some (v0 + (v1 - v0) / (w1 - w0) * (x - w0))
          else interp (w1 :: ws) (v1 :: vs) x).
  rewrite !Rleb_scale by auto. destruct (Rleb w0 x && Rleb x w1); [|exact IH].
  assert (w1 - w0 <> 0) by (intro E; apply Hne; lra). assert (f <> 0) by lra.
  assert (w1 * f - w0 * f <> 0) by (replace (w1 * f - w0 * f) with ((w1 - w0) * f) by ring;
                                     apply Rmult_integral_contrapositive_currified; auto).
  cbn [option_map F RF] in *. f_equal. field; auto.
Qed.
Lemma interp_scale_unitless : forall f, 0 < f -> forall ws vs x, distinct_adj ws ->
  interp (scale f ws) vs (x * f) = interp ws vs x.
Proof.
  intros f Hf. induction ws as [|w0 ws IH]; intros vs x Hd; [reflexivity|].
  destruct vs as [|v0 vs]; [reflexivity|].
  destruct ws as [|w1 ws]; [reflexivity|].
  destruct vs as [|v1 vs]; [reflexivity|].
  destruct Hd as [Hne Hd]. specialize (IH (v1 :: vs) x Hd).
  change (interp (scale f (w0 :: w1 :: ws)) (v0 :: v1 :: vs) (x * f))
    with (if Rleb (w0 * f) (x * f) && Rleb (x * f) (w1 * f)
          then Some (v0 + (v1 - v0) / (w1 * f - w0 * f) * (x * f - w0 * f))
          else interp (scale f (w1 :: ws)) (v1 :: vs) (x * f)).
  change (interp (w0 :: w1 :: ws) (v0 :: v1 :: vs) x)
    with (if Rleb w0 x && Rleb x w1 then Some (v0 + (v1 - v0) / (w1 - w0) * (x - w0))
          else interp (w1 :: ws) (v1 :: vs) x).
  rewrite !Rleb_scale by auto. destruct (Rleb w0 x && Rleb x w1); [|exact IH].
  assert (w1 - w0 <> 0) by (intro E; apply Hne; lra). assert (f <> 0) by lra.
  assert (w1 * f - w0 * f <> 0) by (replace (w1 * f - w0 * f) with ((w1 - w0) * f) by ring;
                                     apply Rmult_integral_contrapositive_currified; auto).
  cbn [option_map F RF] in *. f_equal. field; auto.
Qed.

(* sampling in the wave unit b at the points x*f (f the table factor a->b) returns, for a density,
   the samples taken in the spectrum's own unit divided by f; for a unitless spectrum the same samples *)
Lemma sample_unit_independent : forall (s : spectrum RF) (b : wunit) (pts : list R),
  distinct_adj (s_wave RF s) ->
  sample RF H C Rleb s (scale (wf RF (s_wu RF s) b) pts) (wname b)
  = Ok (map (fun x => match s_vu RF s with
                      | Some _ => sample_at RF Rleb (s_wave RF s) (s_value RF s) x / wf RF (s_wu RF s) b
                      | None => sample_at RF Rleb (s_wave RF s) (s_value RF s) x
                      end) pts).
Proof.
  intros s b pts Hd. unfold sample. pose proof (wf_pos (s_wu RF s) b) as Hf.
  destruct (s_vu RF s) as [g|] eqn:Hv.
  - rewrite (to1_wave_density s g b Hv). cbn [rbind s_wave s_value]. f_equal.
    change (scale (wf RF (s_wu RF s) b) pts) with (map (fun x : R => x * wf RF (s_wu RF s) b) pts).
    rewrite map_map. apply map_ext. intros x. unfold sample_at. rewrite interp_scale_density by auto.
    destruct (interp (s_wave RF s) (s_value RF s) x); cbn [option_map f0 RF]; [reflexivity|].
    unfold Rdiv; ring.
  - rewrite (to1_wave_unitless s b Hv). cbn [rbind s_wave s_value]. f_equal.
    change (scale (wf RF (s_wu RF s) b) pts) with (map (fun x : R => x * wf RF (s_wu RF s) b) pts).
    rewrite map_map. apply map_ext. intros x. unfold sample_at. rewrite interp_scale_unitless by auto. reflexivity.
Qed.

(* linear interpolation returns the samples at the samples (strictly increasing grid, >= 2 samples) *)
Fixpoint increasing (ws : list R) : Prop :=
  match ws with
  | w0 :: ((w1 :: _) as t) => w0 < w1 /\ increasing t
  | _ => True
  end.
Lemma increasing_distinct : forall ws, increasing ws -> distinct_adj ws.
Proof.
  induction ws as [|w0 ws IH]; [exact (fun _ => I)|]. destruct ws as [|w1 ws]; [exact (fun _ => I)|].
  intros [A B]. split; [lra|]. apply IH; exact B.
Qed.
Lemma increasing_above : forall ws w0, increasing (w0 :: ws) -> Forall (fun w => w0 < w) ws.
Proof.
  induction ws as [|w1 ws IH]; intros w0 Hi; [constructor|].
  destruct Hi as [A B]. constructor; [exact A|].
  specialize (IH w1 B). eapply Forall_impl; [|exact IH]. cbn. intros; lra.
Qed.
Lemma Rleb_true : forall x y, x <= y -> Rleb x y = true.
Proof. intros x y A. unfold Rleb. destruct (Rle_dec x y); [reflexivity|contradiction]. Qed.
Lemma Rleb_false : forall x y, y < x -> Rleb x y = false.
Proof. intros x y A. unfold Rleb. destruct (Rle_dec x y); [lra|reflexivity]. Qed.

Lemma interp_knots : forall ws vs w0 v0, increasing (w0 :: ws) -> length vs = length ws ->
  map (sample_at RF Rleb (w0 :: ws) (v0 :: vs)) ws = vs.
Proof.
  induction ws as [|w1 ws IH]; intros vs w0 v0 Hi Hl.
  - destruct vs; [reflexivity|discriminate].
  - destruct vs as [|v1 vs]; [discriminate|]. pose proof Hi as [A B]. cbn [map]. f_equal.
    + unfold sample_at.
      change (interp (w0 :: w1 :: ws) (v0 :: v1 :: vs) w1)
        with (if Rleb w0 w1 && Rleb w1 w1 then Some (v0 + (v1 - v0) / (w1 - w0) * (w1 - w0))
              else interp (w1 :: ws) (v1 :: vs) w1).
      rewrite !Rleb_true by lra. cbn [andb F RF] in *. field. lra.
    + assert (Hl' : length vs = length ws) by (simpl in Hl; injection Hl; auto).
      rewrite <- (IH vs w1 v1 B Hl') at 2.
      apply map_ext_in. intros w Hin.
      pose proof (increasing_above _ _ B) as Hab. rewrite Forall_forall in Hab. specialize (Hab w Hin).
      unfold sample_at.
      change (interp (w0 :: w1 :: ws) (v0 :: v1 :: vs) w)
        with (if Rleb w0 w && Rleb w w1 then Some (v0 + (v1 - v0) / (w1 - w0) * (w - w0))
              else interp (w1 :: ws) (v1 :: vs) w).
      rewrite (Rleb_false w w1) by lra. rewrite andb_false_r. reflexivity.
Qed.
Lemma interp_first_knot : forall ws vs w0 v0 w1 v1, w0 < w1 ->
  sample_at RF Rleb (w0 :: w1 :: ws) (v0 :: v1 :: vs) w0 = v0.
Proof.
  intros. unfold sample_at.
  change (interp (w0 :: w1 :: ws) (v0 :: v1 :: vs) w0)
    with (if Rleb w0 w0 && Rleb w0 w1 then Some (v0 + (v1 - v0) / (w1 - w0) * (w0 - w0))
          else interp (w1 :: ws) (v1 :: vs) w0).
  rewrite !Rleb_true by lra. cbn [andb F RF] in *. unfold Rdiv. ring.
Qed.

Lemma interp_all_knots : forall ws vs, increasing ws -> (2 <= length ws)%nat -> length vs = length ws ->
  map (sample_at RF Rleb ws vs) ws = vs.
Proof.
  intros ws vs Hi Hn Hl.
  destruct ws as [|w0 [|w1 ws]]; [simpl in Hn; lia|simpl in Hn; lia|].
  destruct vs as [|v0 [|v1 vs]]; [discriminate|discriminate|].
  pose proof Hi as [A B].
  assert (Hl' : length (v1 :: vs) = length (w1 :: ws)) by (simpl in Hl |- *; injection Hl; auto).
  pose proof (interp_knots (w1 :: ws) (v1 :: vs) w0 v0 Hi Hl') as Kn.
  change (map (sample_at RF Rleb (w0 :: w1 :: ws) (v0 :: v1 :: vs)) (w0 :: w1 :: ws))
    with (sample_at RF Rleb (w0 :: w1 :: ws) (v0 :: v1 :: vs) w0
          :: map (sample_at RF Rleb (w0 :: w1 :: ws) (v0 :: v1 :: vs)) (w1 :: ws)).
  rewrite Kn, interp_first_knot by exact A. reflexivity.
Qed.

(* a density sampled, in another wave unit, on its own grid expressed in that unit: the values are
   the spectrum's values divided by the factor, and the trapezoid integral over the new grid is the
   spectrum's integral *)
Lemma sample_grid_density : forall (s : spectrum RF) (g : funit) (b : wunit),
  s_vu RF s = Some g -> increasing (s_wave RF s) -> (2 <= length (s_wave RF s))%nat ->
  length (s_value RF s) = length (s_wave RF s) ->
  sample_grid RF H C Rleb s (wname b) = Ok (unscale (wf RF (s_wu RF s) b) (s_value RF s))
  /\ trapz (scale (wf RF (s_wu RF s) b) (s_wave RF s)) (unscale (wf RF (s_wu RF s) b) (s_value RF s))
     = trapz (s_wave RF s) (s_value RF s).
Proof.
  intros s g b Hv Hi Hn Hl. split; [|apply trapz_scale; apply wf_neq0].
  pose proof (sample_unit_independent s b (s_wave RF s) (increasing_distinct _ Hi)) as E.
  unfold sample in E. unfold sample_grid. rewrite (to1_wave_density s g b Hv) in *.
  cbn [rbind s_wave s_value] in *. rewrite E, Hv. f_equal.
  rewrite <- (map_map (sample_at RF Rleb (s_wave RF s) (s_value RF s)) (fun y => y / wf RF (s_wu RF s) b)).
  rewrite interp_all_knots by auto. reflexivity.
Qed.

(* ------------------------------------------------------------------ Planck's law *)
Variables Kb cpi : R.
Variable expf : R -> R.
Notation planck_si := (planck_si RF H C Kb expf).
Notation planck_gen := (planck_gen RF H C Kb expf).

(* the SI value (W m^-2 sr^-1 m^-1 at the wavelength in metres) carried to the units (a, g) *)
Definition in_units (coef T : R) (a : wunit) (g : funit) (w : R) : R :=
  flux_conv RF H C Fwlam g (planck_si coef (w * wf RF a Wm) T) (w * wf RF a Wm) / wf RF Wm a.

Lemma Unit_wave_name : forall wn a, wave_name wn = Some a -> Unit wn = Ok (UW a).
Proof. intros wn a; destruct wn; cbn; intros E; inversion E; reflexivity. Qed.
Lemma Unit_flux_name : forall vn g, flux_name vn = Some g -> Unit vn = Ok (UF g).
Proof. intros vn g; destruct vn; cbn; intros E; inversion E; reflexivity. Qed.

Lemma planck_gen_spec : forall coef w T wn vn a g,
  wave_name wn = Some a -> flux_name vn = Some g ->
  planck_gen coef w T wn vn = Ok (in_units coef T a g w).
Proof.
  intros coef w T wn vn a g Hw Hg. unfold Units.planck_gen, in_units.
  rewrite (Unit_wave_name _ _ Hw). cbn [rbind]. unfold wave_to, flux_to. cbn [wave_name rbind]. rewrite Hw.
  destruct vn; cbn in Hg; inversion Hg; subst; cbn [flux_name rbind]; try reflexivity;
  try (rewrite flux_id; reflexivity).
Qed.

Lemma planck_si_linear : forall k coef w T, planck_si (k * coef) w T = k * planck_si coef w T.
Proof. intros. unfold Units.planck_si. cbn [fmul fdiv fsub f1 RF F]. unfold Rdiv. set (D := Rinv _). clearbody D. ring. Qed.

Lemma exitance_pi_radiance : forall w T wn vn a g,
  wave_name wn = Some a -> flux_name vn = Some g -> w <> 0 ->
  exists r, planck_radiance RF H C Kb expf w T wn vn = Ok r
         /\ planck_exitance RF H C Kb cpi expf w T wn vn = Ok (cpi * r).
Proof.
  intros w T wn vn a g Hw Hg Hw0. unfold planck_radiance, planck_exitance.
  rewrite (planck_gen_spec _ w T wn vn a g Hw Hg), (planck_gen_spec _ w T wn vn a g Hw Hg).
  eexists; split; [reflexivity|]. f_equal. unfold in_units.
  change (@fmul RF (fofq (2 # 1)) cpi) with (Q2R (2 # 1) * cpi).
  change (@fofq RF (2 # 1)%Q) with (Q2R (2 # 1)).
  rewrite (Rmult_comm (Q2R (2 # 1)) cpi), planck_si_linear, flux_linear.
  - unfold Rdiv; ring.
  - apply Rmult_integral_contrapositive_currified; auto. apply wf_neq0.
Qed.

(* unit independence: a sample (w, value) of the Planck function in units (a, g), converted to the
   units (b, h) by the rules of Spectrum.to, is the Planck function evaluated directly in (b, h) *)
Lemma in_units_convert : forall coef T a g b h w, w <> 0 ->
  conv1 b g h (in_units coef T a g w / wf RF a b) (w * wf RF a b)
  = in_units coef T b h (w * wf RF a b).
Proof.
  intros coef T a g b h w Hw. unfold conv1, in_units.
  assert (Hm : w * wf RF a b * wf RF b Wm = w * wf RF a Wm) by (rewrite Rmult_assoc, wf_comp; reflexivity).
  rewrite Hm. set (wm := w * wf RF a Wm). set (B := planck_si coef wm T).
  assert (Hwm : wm <> 0) by (apply Rmult_integral_contrapositive_currified; auto; apply wf_neq0).
  replace (fc Fwlam g B wm / wf RF Wm a / wf RF a b / wf RF b Wm) with (fc Fwlam g B wm).
  - rewrite flux_comp by auto. reflexivity.
  - pose proof (wf_neq0 Wm a). pose proof (wf_neq0 a b). pose proof (wf_neq0 b Wm).
    assert (E : wf RF Wm a * wf RF a b * wf RF b Wm = 1) by (rewrite !wf_comp; apply wf_id).
    apply (Rmult_eq_reg_r (wf RF Wm a * wf RF a b * wf RF b Wm)).
    + rewrite E at 1. field; auto.
    + rewrite E. lra.
Qed.

Lemma radiances_spec : forall T wn vn a g ws,
  wave_name wn = Some a -> flux_name vn = Some g ->
  radiances RF H C Kb expf ws T wn vn = Ok (map (in_units (Q2R (2 # 1)) T a g) ws).
Proof.
  intros T wn vn a g ws Hw Hg. induction ws as [|w ws IH]; [reflexivity|].
  cbn [radiances]. unfold planck_radiance. rewrite (planck_gen_spec _ w T wn vn a g Hw Hg).
  cbn [rbind]. rewrite IH. reflexivity.
Qed.
Lemma blackbody_spec : forall T wn vn a g ws,
  wave_name wn = Some a -> flux_name vn = Some g ->
  blackbody RF H C Kb expf ws T wn vn = Ok (mkSpec RF ws (map (in_units (Q2R (2 # 1)) T a g) ws) a (Some g)).
Proof.
  intros T wn vn a g ws Hw Hg. unfold blackbody. rewrite (radiances_spec T wn vn a g ws Hw Hg).
  cbn [rbind]. rewrite (Unit_wave_name _ _ Hw), (Unit_flux_name _ _ Hg). reflexivity.
Qed.

Lemma wave_name_wname : forall a, wave_name (wname a) = Some a.
Proof. destruct a; reflexivity. Qed.
Lemma flux_name_fname : forall g, flux_name (fname g) = Some g.
Proof. destruct g; reflexivity. Qed.

Lemma blackbody_unit_independent : forall T (a b : wunit) (g h : funit) ws s,
  Forall (fun w => w <> 0) ws ->
  blackbody RF H C Kb expf ws T (wname a) (fname g) = Ok s ->
  to s [wname b; fname h] = blackbody RF H C Kb expf (scale (wf RF a b) ws) T (wname b) (fname h).
Proof.
  intros T a b g h ws s Hn Hs.
  rewrite (blackbody_spec T _ _ a g ws (wave_name_wname a) (flux_name_fname g)) in Hs.
  inversion Hs; subst s; clear Hs.
  rewrite (blackbody_spec T _ _ b h _ (wave_name_wname b) (flux_name_fname h)).
  cbn [Units.to]. rewrite (to1_wave_density _ g b) by reflexivity. cbn [rbind s_wu s_wave s_value].
  rewrite (to1_flux _ g h) by reflexivity. cbn [rbind s_wu s_wave s_value]. f_equal. f_equal.
  unfold Units.scale, Units.unscale. rewrite !map_map.
  induction ws as [|w ws IH]; [reflexivity|]. inversion Hn; subst. cbn [map combine fst snd]. f_equal.
  - cbn [fmul fdiv RF]. apply in_units_convert; auto.
  - apply IH; auto.
Qed.

(* vegaflux: the photon flux in SI carried to the requested units, the wavelength to the wave unit *)
Lemma vegaflux_spec : forall w0 jy wn vn a g,
  wave_name wn = Some a -> flux_name vn = Some g ->
  vegaflux RF H C w0 jy wn vn
  = Ok (flux_conv RF H C Fphotlam g (jy * Q2R (1 # 100000000000000000000000000) * C / (w0 * w0) * w0 / (H * C)) w0
          / wf RF Wm a, w0 * wf RF Wm a).
Proof.
  intros w0 jy wn vn a g Hw Hg. unfold vegaflux, wave_to, flux_to. cbn [wave_name]. rewrite Hw.
  destruct vn; cbn in Hg; inversion Hg; subst; cbn [flux_name rbind]; try reflexivity;
  try (rewrite flux_id; reflexivity).
Qed.

End Flux.

(* non-vacuity: the constants of the source satisfy the hypothesis H*C <> 0 *)
Lemma source_constants_ok : Q2R const_H * Q2R const_C <> 0.
Proof.
  rewrite <- Q2R_mult. replace 0 with (Q2R 0) by (unfold Q2R; cbn; field).
  intro E. apply eqR_Qeq in E. revert E. vm_compute. discriminate.
Qed.
