(* The hexagonal lattice walked by lentil.segmented.hex_ring: closed form of the ring, every member
   on the plane q + r + s = 0 at hex distance r, no repetitions; distinct segments of hex_segments
   sit on distinct lattice points and are therefore separated along one of the three axes. *)
From Coq Require Import FinFun.
From LV Require Import Model.Shapes Proofs.ShapesP.

Definition hscale (k : Z) (d : hex) : hex := let '(q, r, s) := d in (k * q, k * r, k * s).
Definition hq (h : hex) : Z := fst (fst h).
Definition hr (h : hex) : Z := snd (fst h).
Definition hs (h : hex) : Z := snd h.
Definition hnorm (h : hex) : Z := Z.max (Z.abs (hq h)) (Z.max (Z.abs (hr h)) (Z.abs (hs h))).

Lemma hex_eq (a b : hex) : hq a = hq b -> hr a = hr b -> hs a = hs b -> a = b.
Proof. destruct a as [[? ?] ?], b as [[? ?] ?]. unfold hq, hr, hs. cbn. intros; subst; reflexivity. Qed.

Lemma hq_add a b : hq (hex_add a b) = hq a + hq b. Proof. destruct a as [[? ?] ?], b as [[? ?] ?]. reflexivity. Qed.
Lemma hr_add a b : hr (hex_add a b) = hr a + hr b. Proof. destruct a as [[? ?] ?], b as [[? ?] ?]. reflexivity. Qed.
Lemma hs_add a b : hs (hex_add a b) = hs a + hs b. Proof. destruct a as [[? ?] ?], b as [[? ?] ?]. reflexivity. Qed.
Lemma hq_scale k d : hq (hscale k d) = k * hq d. Proof. destruct d as [[? ?] ?]. reflexivity. Qed.
Lemma hr_scale k d : hr (hscale k d) = k * hr d. Proof. destruct d as [[? ?] ?]. reflexivity. Qed.
Lemma hs_scale k d : hs (hscale k d) = k * hs d. Proof. destruct d as [[? ?] ?]. reflexivity. Qed.

Definition side (k : nat) (h d : hex) : list hex :=
  map (fun j => hex_add h (hscale (Z.of_nat j) d)) (seq 0 k).

Lemma walk_closed k : forall h d, walk k h d = (side k h d, hex_add h (hscale (Z.of_nat k) d)).
Proof.
  induction k as [|k IH]; intros h d.
  - cbn [walk side seq map]. f_equal. apply hex_eq; rewrite ?hq_add, ?hr_add, ?hs_add, ?hq_scale, ?hr_scale, ?hs_scale; cbn; lia.
  - cbn [walk]. rewrite IH. f_equal.
    + unfold side. cbn [seq map]. f_equal.
      * apply hex_eq; rewrite ?hq_add, ?hr_add, ?hs_add, ?hq_scale, ?hr_scale, ?hs_scale; cbn; lia.
      * rewrite <- seq_shift, map_map. apply map_ext. intros j.
        apply hex_eq; rewrite ?hq_add, ?hr_add, ?hs_add, ?hq_scale, ?hr_scale, ?hs_scale; lia.
    + apply hex_eq; rewrite ?hq_add, ?hr_add, ?hs_add, ?hq_scale, ?hr_scale, ?hs_scale; lia.
Qed.

Lemma ring_loop_cons d t k h :
  ring_loop (d :: t) k h = side k h d ++ ring_loop t k (hex_add h (hscale (Z.of_nat k) d)).
Proof. cbn [ring_loop]. rewrite walk_closed. reflexivity. Qed.

Lemma in_side k h d x : In x (side k h d) <-> exists j, 0 <= j < Z.of_nat k /\ x = hex_add h (hscale j d).
Proof.
  unfold side. rewrite in_map_iff. split.
  - intros (j & <- & Hj). apply in_seq in Hj. exists (Z.of_nat j). split; [lia | reflexivity].
  - intros (j & Hj & ->). exists (Z.to_nat j). split; [f_equal; f_equal; lia | apply in_seq; lia].
Qed.

(* the six sides of ring r in coordinates *)
Definition on_ring (r : Z) (x : hex) : Prop :=
  exists j, 0 <= j < r /\
   (x = (- r + j, r, - j) \/ x = (j, r - j, - r) \/ x = (r, - j, - r + j) \/
    x = (r - j, - r, j) \/ x = (- j, - r + j, r) \/ x = (- r, j, r - j)).

Lemma hex_ring_unfold r : 0 <= r ->
  hex_ring r =
    side (Z.to_nat r) (- r, r, 0) (1, 0, -1) ++ side (Z.to_nat r) (0, r, - r) (1, -1, 0) ++
    side (Z.to_nat r) (r, 0, - r) (0, -1, 1) ++ side (Z.to_nat r) (r, - r, 0) (-1, 0, 1) ++
    side (Z.to_nat r) (0, - r, r) (-1, 1, 0) ++ side (Z.to_nat r) (- r, 0, r) (0, 1, -1).
Proof.
  intros Hr. unfold hex_ring, hex_directions. rewrite !ring_loop_cons. cbn [ring_loop]. rewrite app_nil_r.
  rewrite Z2Nat.id by assumption.
  assert (E1 : hex_add (- r, r, 0) (hscale r (1, 0, -1)) = (0, r, - r)) by (apply hex_eq; cbn; lia).
  rewrite E1.
  assert (E2 : hex_add (0, r, - r) (hscale r (1, -1, 0)) = (r, 0, - r)) by (apply hex_eq; cbn; lia).
  rewrite E2.
  assert (E3 : hex_add (r, 0, - r) (hscale r (0, -1, 1)) = (r, - r, 0)) by (apply hex_eq; cbn; lia).
  rewrite E3.
  assert (E4 : hex_add (r, - r, 0) (hscale r (-1, 0, 1)) = (0, - r, r)) by (apply hex_eq; cbn; lia).
  rewrite E4.
  assert (E5 : hex_add (0, - r, r) (hscale r (-1, 1, 0)) = (- r, 0, r)) by (apply hex_eq; cbn; lia).
  rewrite E5. reflexivity.
Qed.

Lemma hex_ring_members r x : 0 <= r -> (In x (hex_ring r) <-> on_ring r x).
Proof.
  intros Hr. rewrite hex_ring_unfold by assumption. rewrite !in_app_iff, !in_side, Z2Nat.id by assumption.
  unfold on_ring. split.
  - intros [(j & Hj & ->)|[(j & Hj & ->)|[(j & Hj & ->)|[(j & Hj & ->)|[(j & Hj & ->)|(j & Hj & ->)]]]]];
      exists j; (split; [assumption|]).
    + left. apply hex_eq; cbn; lia.
    + right; left. apply hex_eq; cbn; lia.
    + right; right; left. apply hex_eq; cbn; lia.
    + right; right; right; left. apply hex_eq; cbn; lia.
    + right; right; right; right; left. apply hex_eq; cbn; lia.
    + right; right; right; right; right. apply hex_eq; cbn; lia.
  - intros (j & Hj & [->|[->|[->|[->|[->| ->]]]]]).
    + left. exists j. split; [assumption | apply hex_eq; cbn; lia].
    + right; left. exists j. split; [assumption | apply hex_eq; cbn; lia].
    + right; right; left. exists j. split; [assumption | apply hex_eq; cbn; lia].
    + right; right; right; left. exists j. split; [assumption | apply hex_eq; cbn; lia].
    + right; right; right; right; left. exists j. split; [assumption | apply hex_eq; cbn; lia].
    + right; right; right; right; right. exists j. split; [assumption | apply hex_eq; cbn; lia].
Qed.

(* every member of ring r lies on the plane q + r + s = 0 at hex distance exactly r *)
Theorem hex_ring_plane_norm r x : 0 <= r -> In x (hex_ring r) -> hq x + hr x + hs x = 0 /\ hnorm x = r.
Proof.
  intros Hr H. apply hex_ring_members in H; [|assumption].
  destruct H as (j & Hj & [->|[->|[->|[->|[->| ->]]]]]); unfold hnorm, hq, hr, hs; cbn [fst snd]; lia.
Qed.

Lemma nodup_app {A} (l1 l2 : list A) :
  NoDup l1 -> NoDup l2 -> (forall x, In x l1 -> In x l2 -> False) -> NoDup (l1 ++ l2).
Proof.
  induction l1 as [|a l1 IH]; intros H1 H2 Hd; cbn [app]; [assumption|].
  inversion H1; subst. constructor.
  - rewrite in_app_iff. intros [H|H]; [contradiction | apply (Hd a); [left; reflexivity | assumption]].
  - apply IH; try assumption. intros x Hx. apply Hd. right. assumption.
Qed.

Lemma nodup_side k h d : d <> (0, 0, 0) -> NoDup (side k h d).
Proof.
  intros Hd. unfold side. apply Injective_map_NoDup; [|apply seq_NoDup].
  intros i j E. destruct h as [[a b] c], d as [[q r] s]. cbn in E. injection E as E1 E2 E3.
  assert (q <> 0 \/ r <> 0 \/ s <> 0).
  { destruct (Z.eq_dec q 0), (Z.eq_dec r 0), (Z.eq_dec s 0); subst; try tauto. }
  nia.
Qed.

Theorem hex_ring_nodup r : NoDup (hex_ring r).
Proof.
  destruct (Z.le_gt_cases 0 r) as [Hr|Hr].
  2:{ unfold hex_ring. replace (Z.to_nat r) with 0%nat by lia. cbn. constructor. }
  rewrite hex_ring_unfold by assumption.
  repeat (apply nodup_app; [apply nodup_side; discriminate | | ]); try (apply nodup_side; discriminate).
  all: intros x Hx Hy; apply in_side in Hx; destruct Hx as (j & Hj & ->);
       rewrite ?in_app_iff, ?in_side in Hy; rewrite Z2Nat.id in * by assumption;
       repeat (destruct Hy as [Hy|Hy]); destruct Hy as (j2 & Hj2 & E);
       apply (f_equal (fun h => (hq h, hr h, hs h))) in E; cbn in E; injection E as E1 E2 E3; lia.
Qed.


(* ---- all rings together ---- *)
Lemma in_rings n x :
  In x (flat_map (fun k => hex_ring (Z.of_nat k + 1)) (seq 0 n)) <->
  exists r, 1 <= r <= Z.of_nat n /\ In x (hex_ring r).
Proof.
  rewrite in_flat_map. split.
  - intros (k & Hk & Hx). apply in_seq in Hk. exists (Z.of_nat k + 1). split; [lia | assumption].
  - intros (r & Hr & Hx). exists (Z.to_nat (r - 1)). split; [apply in_seq; lia|].
    replace (Z.of_nat (Z.to_nat (r - 1)) + 1) with r by lia. assumption.
Qed.

Lemma rings_nodup n : NoDup (flat_map (fun k => hex_ring (Z.of_nat k + 1)) (seq 0 n)).
Proof.
  induction n as [|n IH]; [constructor|].
  rewrite seq_S, flat_map_app. cbn [flat_map Nat.add]. rewrite app_nil_r.
  apply nodup_app; [assumption | apply hex_ring_nodup |].
  intros x H1 H2. apply in_rings in H1. destruct H1 as (r & Hr & H1).
  apply hex_ring_plane_norm in H1; [|lia]. apply hex_ring_plane_norm in H2; [|lia]. lia.
Qed.

Theorem hex_all_nodup rings : NoDup (hex_all rings).
Proof. apply rings_nodup. Qed.

Theorem hex_all_members rings x : In x (hex_all rings) ->
  hq x + hr x + hs x = 0 /\ 1 <= hnorm x <= rings.
Proof.
  unfold hex_all. intros H. apply in_rings in H. destruct H as (r & Hr & H).
  apply hex_ring_plane_norm in H; [|lia]. lia.
Qed.

Lemma map_snd_combine {A B} (a : list A) : forall (b : list B), length a = length b -> map snd (combine a b) = b.
Proof.
  induction a as [|x a IH]; intros [|y b] H; cbn in *; try reflexivity; try discriminate.
  f_equal. apply IH. lia.
Qed.

Lemma hex_numbered_points rings : map snd (hex_numbered rings) = (0, 0, 0) :: hex_all rings.
Proof.
  unfold hex_numbered, numbered. cbn [map snd]. f_equal.
  apply map_snd_combine. rewrite map_length, seq_length. reflexivity.
Qed.

(* the segments of the aperture sit on pairwise distinct lattice points of the plane q + r + s = 0 *)
Theorem hex_numbered_nodup rings : NoDup (map snd (hex_numbered rings)).
Proof.
  rewrite hex_numbered_points. constructor; [|apply hex_all_nodup].
  intros H. apply hex_all_members in H. unfold hnorm, hq, hr, hs in H. cbn in H. lia.
Qed.

Lemma nodup_map_inj {A B} (f : A -> B) (l : list A) a b :
  NoDup (map f l) -> In a l -> In b l -> f a = f b -> a = b.
Proof.
  induction l as [|x l IH]; intros H Ha Hb E; [destruct Ha|].
  cbn [map] in H. inversion H as [|? ? Hn Hd]; subst.
  destruct Ha as [->|Ha], Hb as [->|Hb]; try reflexivity.
  - exfalso. apply Hn. rewrite E. apply in_map. assumption.
  - exfalso. apply Hn. rewrite <- E. apply in_map. assumption.
  - apply IH; assumption.
Qed.

(* two different segments that hex_segments keeps are separated on the lattice along one of the
   three hexagon axes by at least two half-steps *)
Theorem hex_kept_pairwise_separated rings drop a b :
  In a (hex_kept rings drop) -> In b (hex_kept rings drop) -> a <> b ->
  let dq := hq (snd b) - hq (snd a) in let dr := hr (snd b) - hr (snd a) in
  hs (snd b) - hs (snd a) = - dq - dr /\
  (2 <= Z.abs (2 * dq + dr) \/ 2 <= Z.abs (dq + 2 * dr) \/ 2 <= Z.abs (dr - dq)).
Proof.
  unfold hex_kept. intros Ha Hb Hne. apply filter_In in Ha, Hb. destruct Ha as [Ha _], Hb as [Hb _].
  cbv zeta.
  assert (P : forall p, In p (hex_numbered rings) -> hq (snd p) + hr (snd p) + hs (snd p) = 0).
  { intros p Hp. apply (in_map snd) in Hp. rewrite hex_numbered_points in Hp. destruct Hp as [<-|Hp]; [reflexivity|].
    apply hex_all_members in Hp. lia. }
  pose proof (P _ Ha). pose proof (P _ Hb). split; [lia|].
  apply hex_lattice_separation. intros E. injection E as E1 E2.
  apply Hne. apply (nodup_map_inj snd (hex_numbered rings)); try assumption; [apply hex_numbered_nodup|].
  apply hex_eq; lia.
Qed.
