(* WP-T2, C20: the shape arithmetic of lentil/util.py:rebin, translated from the source text on every check
   (Gen/GeometrySrc.v), equals the model of Model/Geometry.v for all integers. *)
From LV Require Import Model.Geometry Gen.GeometrySrc Proofs.SrcTac.

Lemma src_rebin_reshape_ok : forall (n m f : Z) (cplx : bool),
  src_rebin_reshape (n, m) f cplx = if cplx then Err ValueError else Ok (n / f, f, m / f, f).
Proof. intros; unfold src_rebin_reshape; src_finish. Qed.

Lemma src_rebin_reshape_3d_ok : forall (d n m f : Z) (cplx : bool),
  src_rebin_reshape_3d (d, n, m) f cplx =
  if cplx then Err ValueError else Ok ((d, n / f, m / f), (n / f, f, m / f, f)).
Proof. intros; unfold src_rebin_reshape_3d; src_finish. Qed.

(* the model's rebin produces exactly the shape handed to reshape (where reshape accepts the sizes) *)
Lemma rebin2_shape : forall (S : Scalar) (a : arr S) (f : Z), 0 < f -> reshape_ok (nr a) (nc a) f = true ->
  exists b, rebin2 a f = Ok b /\ nr b = nr a / f /\ nc b = nc a / f.
Proof.
  intros S a f Hf Hr. unfold rebin2. destruct (f <=? 0) eqn:E; [lia|]. rewrite Hr. cbn [negb].
  eexists; split; [reflexivity|]. split; reflexivity.
Qed.

Lemma src_rebin_reshape_model : forall (S : Scalar) (a : arr S) (f : Z), 0 < f ->
  reshape_ok (nr a) (nc a) f = true ->
  match src_rebin_reshape (nr a, nc a) f false with
  | Ok (r, _, c, _) => exists b, rebin2 a f = Ok b /\ nr b = r /\ nc b = c
  | Err _ => False
  end.
Proof. intros. rewrite src_rebin_reshape_ok. apply rebin2_shape; assumption. Qed.

Lemma rebin3_shape : forall (S : Scalar) (c : cube S) (f : Z), 0 < f -> reshape_ok (cr c) (cc c) f = true ->
  exists b, rebin3 c f = Ok b /\ (cd b, cr b, cc b) = (cd c, cr c / f, cc c / f).
Proof.
  intros S c f Hf Hr. unfold rebin3. destruct (f <=? 0) eqn:E; [lia|]. rewrite Hr. cbn [negb].
  rewrite andb_false_r. eexists; split; reflexivity.
Qed.

Lemma src_rebin_reshape_3d_model : forall (S : Scalar) (c : cube S) (f : Z), 0 < f ->
  reshape_ok (cr c) (cc c) f = true ->
  match src_rebin_reshape_3d (cd c, cr c, cc c) f false with
  | Ok (sh, _) => exists b, rebin3 c f = Ok b /\ (cd b, cr b, cc b) = sh
  | Err _ => False
  end.
Proof. intros. rewrite src_rebin_reshape_3d_ok. apply rebin3_shape; assumption. Qed.
