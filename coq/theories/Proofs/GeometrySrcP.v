(* WP-T2, C20: the shape arithmetic of lentil/util.py:rebin, translated from the source text on every check
   (Gen/GeometrySrc.v), equals the model of Model/Geometry.v for all integers. *)
From LV Require Import Model.Geometry Gen.GeometrySrc Proofs.SrcTac.

Lemma src_rebin_reshape_ok : forall (n m f : Z) (cplx : bool),
  src_rebin_reshape (n, m) f cplx = if cplx then Err ValueError else Ok (n / f, f, m / f, f).
Proof. intros; unfold src_rebin_reshape; src_finish. Qed.

Lemma src_rebin_reshape_3d_ok : forall (d n m f : Z) (cplx : bool),
  src_rebin_reshape_3d (d, n, m) f cplx =
  if cplx then Err ValueError else Ok ((d, n / f, m / f), (d, n / f, f, m / f, f)).
Proof. intros; unfold src_rebin_reshape_3d; src_finish. Qed.

(* the model's rebin produces exactly the shape handed to reshape (where reshape accepts the sizes) *)
Lemma rebin2_shape : forall (S : Scalar) (a : arr S) (f : Z), 0 < f -> reshape_ok (nr a) (nc a) f = true ->
  exists b, rebin2 a f = Ok b /\ nr b = nr a / f /\ nc b = nc a / f.
Proof.
  intros S a f Hf Hr. unfold rebin2. destruct (f <=? 0) eqn:E; [lia|]. rewrite Hr. cbn [negb].
  eexists; split; [reflexivity|]. split; reflexivity.
Qed.

Lemma src_rebin_reshape_model : forall (S : Scalar) (a : arr S) (f : Z), 0 < f ->
  reshape_ok (nr a) (nc a) f = true ->
  match src_rebin_reshape (nr a, nc a) f false with
  | Ok (r, _, c, _) => exists b, rebin2 a f = Ok b /\ nr b = r /\ nc b = c
  | Err _ => False
  end.
Proof. intros. rewrite src_rebin_reshape_ok. apply rebin2_shape; assumption. Qed.

Lemma rebin3_shape : forall (S : Scalar) (c : cube S) (f : Z), 0 < f -> reshape_ok (cr c) (cc c) f = true ->
  exists b, rebin3 c f = Ok b /\ (cd b, cr b, cc b) = (cd c, cr c / f, cc c / f).
Proof.
  intros S c f Hf Hr. unfold rebin3. destruct (f <=? 0) eqn:E; [lia|]. rewrite Hr. cbn [negb].
  rewrite andb_false_r. eexists; split; reflexivity.
Qed.

Lemma src_rebin_reshape_3d_model : forall (S : Scalar) (c : cube S) (f : Z), 0 < f ->
  reshape_ok (cr c) (cc c) f = true ->
  match src_rebin_reshape_3d (cd c, cr c, cc c) f false with
  | Ok (sh, _) => exists b, rebin3 c f = Ok b /\ (cd b, cr b, cc b) = sh
  | Err _ => False
  end.
Proof. intros. rewrite src_rebin_reshape_3d_ok. apply rebin3_shape; assumption. Qed.

(* ------------------------------------------------------------------ lentil/segmented.py: the hex lattice *)
From LV Require Import Model.Shapes.

Definition hsum (h : hex) : Z := let '(q, r, s) := h in q + r + s.

(* hex_add with the assertion of Hex(): q + r + s must be 0 *)
Lemma src_hex_add_ok : forall a b : hex,
  src_hex_add a b = if hsum a + hsum b =? 0 then Ok (hex_add a b) else Err AssertionErr.
Proof. intros; destr_prods; unfold src_hex_add, hex_add, hsum; src_finish. Qed.

Lemma hsum_add : forall h d : hex, hsum (hex_add h d) = hsum h + hsum d.
Proof. intros; destr_prods; unfold hex_add, hsum; lia. Qed.

(* one iteration of `for j in range(radius): results.append(hex); hex = hex_neighbor(hex, i)` in direction d *)
Definition ring_step (d : hex) (st : list hex * hex) : result (list hex * hex) :=
  let '(res, h) := st in
  if hsum (hex_add h d) =? 0 then Ok (res ++ [h], hex_add h d) else Err AssertionErr.

Ltac step_tac f := intros; destr_prods; unfold f, ring_step, hex_add, hsum; src_finish.
Lemma src_hex_ring_step_ok : forall st j, src_hex_ring_step st j = ring_step (1, 0, -1) st.
Proof. step_tac src_hex_ring_step. Qed.
Lemma src_hex_ring_step_1_ok : forall st j, src_hex_ring_step_1 st j = ring_step (1, -1, 0) st.
Proof. step_tac src_hex_ring_step_1. Qed.
Lemma src_hex_ring_step_2_ok : forall st j, src_hex_ring_step_2 st j = ring_step (0, -1, 1) st.
Proof. step_tac src_hex_ring_step_2. Qed.
Lemma src_hex_ring_step_3_ok : forall st j, src_hex_ring_step_3 st j = ring_step (-1, 0, 1) st.
Proof. step_tac src_hex_ring_step_3. Qed.
Lemma src_hex_ring_step_4_ok : forall st j, src_hex_ring_step_4 st j = ring_step (-1, 1, 0) st.
Proof. step_tac src_hex_ring_step_4. Qed.
Lemma src_hex_ring_step_5_ok : forall st j, src_hex_ring_step_5 st j = ring_step (0, 1, -1) st.
Proof. step_tac src_hex_ring_step_5. Qed.

Lemma walk_hsum : forall (k : nat) (h d : hex), hsum h = 0 -> hsum d = 0 -> hsum (snd (walk k h d)) = 0.
Proof.
  induction k; intros h d Hh Hd; simpl; [assumption|].
  specialize (IHk (hex_add h d) d). destruct (walk k (hex_add h d) d) as [l e]. simpl in *.
  apply IHk; [rewrite hsum_add; lia | assumption].
Qed.

(* the fold of a step that is [ring_step d] walks k cells in direction d (the assertion never fires on the lattice) *)
Lemma ring_fold : forall (f : list hex * hex -> Z -> result (list hex * hex)) (d : hex),
  (forall st j, f st j = ring_step d st) -> hsum d = 0 ->
  forall (idx : list Z) (res : list hex) (h : hex), hsum h = 0 ->
  fold_left (fun acc i => rbind acc (fun st => f st i)) idx (Ok (res, h)) =
  Ok (res ++ fst (walk (length idx) h d), snd (walk (length idx) h d)).
Proof.
  intros f d Hf Hd. induction idx; intros res h Hh; simpl.
  - rewrite app_nil_r. reflexivity.
  - rewrite Hf. unfold ring_step. rewrite hsum_add, Hh, Hd. simpl.
    rewrite IHidx by (rewrite hsum_add; lia).
    destruct (walk (length idx) (hex_add h d) d) as [l e]. simpl. rewrite <- app_assoc. reflexivity.
Qed.

Lemma ring_loop_cons : forall (d : hex) (t : list hex) (k : nat) (h : hex),
  ring_loop (d :: t) k h = fst (walk k h d) ++ ring_loop t k (snd (walk k h d)).
Proof. intros. simpl. destruct (walk k h d); reflexivity. Qed.

(* hex_ring(radius): the assertions of Hex() never fire and the list is the model's ring *)
Ltac ring_stage Hstep H0 :=
  rewrite (ring_fold _ _ Hstep eq_refl) by exact H0;
  let l := fresh "l" in let q := fresh "q" in let r := fresh "r" in let s := fresh "s" in
  let W := fresh "W" in let H := fresh "Hs" in
  match goal with
  | |- context[walk ?k ?h ?d] =>
      pose proof (walk_hsum k h d H0 eq_refl) as H;
      destruct (walk k h d) as [l [[q r] s]] eqn:W; cbn [fst snd] in H |- *; src_norm
  end.

Lemma src_hex_ring_ok : forall radius : Z, src_hex_ring radius = Ok (hex_ring radius).
Proof.
  intros. unfold src_hex_ring. first [reflexivity | idtac].        (* (reflexivity: the refused fallback) *)
  all: src_norm.
  all: destruct (negb (negb (- radius + radius + 0 =? 0))) eqn:E; [|exfalso; lia].
  all: set (idx := map Z.of_nat (seq 0 (Z.to_nat radius))).
  all: assert (Hl : length idx = Z.to_nat radius) by (subst idx; rewrite map_length, seq_length; reflexivity).
  all: assert (H0 : hsum (- radius, radius, 0) = 0) by (unfold hsum; lia).
  all: ring_stage src_hex_ring_step_ok H0.
  all: ring_stage src_hex_ring_step_1_ok Hs.
  all: ring_stage src_hex_ring_step_2_ok Hs0.
  all: ring_stage src_hex_ring_step_3_ok Hs1.
  all: ring_stage src_hex_ring_step_4_ok Hs2.
  all: ring_stage src_hex_ring_step_5_ok Hs3.
  all: f_equal; unfold hex_ring, hex_directions; rewrite <- Hl.
  all: rewrite ring_loop_cons, W; cbn [fst snd]; rewrite ring_loop_cons, W0; cbn [fst snd].
  all: rewrite ring_loop_cons, W1; cbn [fst snd]; rewrite ring_loop_cons, W2; cbn [fst snd].
  all: rewrite ring_loop_cons, W3; cbn [fst snd]; rewrite ring_loop_cons, W4; cbn [fst snd].
  all: simpl ring_loop; rewrite app_nil_r, ?app_nil_l, <- !app_assoc; reflexivity.
Qed.

(* ------------------------------------------------------------------ lentil/util.py: window(img, shape, slice) *)
Definition window_slice_model (size : Z) (shape : option (Z * Z)) (sl : Z * Z * Z * Z)
  : result (option ((Z * Z) * (Z * Z))) :=
  let '(s0, s1, s2, s3) := sl in
  if size =? 1 then Ok None else
  match shape with
  | Some (h, w) =>
      if negb (s1 - s0 =? h) then Err AssertionErr
      else if negb (s3 - s2 =? w) then Err AssertionErr
      else Ok (Some ((s0, s1), (s2, s3)))
  | None => Ok (Some ((s0, s1), (s2, s3)))
  end.

Lemma src_window_slice_ok : forall (n m : Z) (shape : Z * Z) (sl : Z * Z * Z * Z),
  src_window_slice (n, m) shape sl = window_slice_model (n * m) (Some shape) sl.
Proof. intros; destr_prods; unfold src_window_slice, window_slice_model; src_finish. Qed.

Lemma src_window_slice_noshape_ok : forall (n m : Z) (sl : Z * Z * Z * Z),
  Ok (src_window_slice_noshape (n, m) sl) = window_slice_model (n * m) None sl.
Proof. intros; destr_prods; unfold src_window_slice_noshape, window_slice_model; src_finish. Qed.

Lemma src_window_slice_cube_ok : forall (d n m : Z) (shape : Z * Z) (sl : Z * Z * Z * Z),
  src_window_slice_cube (d, n, m) shape sl = window_slice_model (d * n * m) (Some shape) sl.
Proof. intros; destr_prods; unfold src_window_slice_cube, window_slice_model; src_finish. Qed.

(* the model's window / window3 with a slice are exactly this decision followed by numpy slicing *)
Lemma window_uses_slice_model : forall (S : Scalar) (a : arr S) (shape : option (Z * Z)) (sl : Z * Z * Z * Z),
  window a shape (Some sl) =
  match window_slice_model (nr a * nc a) shape sl with
  | Ok None => Ok a
  | Ok (Some ((r0, r1), (c0, c1))) => Ok (np_slice a r0 r1 c0 c1)
  | Err e => Err e
  end.
Proof.
  intros. destruct sl as [[[s0 s1] s2] s3]. unfold window, window_slice_model.
  destruct (nr a * nc a =? 1); [reflexivity|]. destruct shape as [[h w]|]; [|reflexivity].
  destruct (negb (s1 - s0 =? h)); [reflexivity|]. destruct (negb (s3 - s2 =? w)); reflexivity.
Qed.

Lemma window3_uses_slice_model : forall (S : Scalar) (c : cube S) (shape : option (Z * Z)) (sl : Z * Z * Z * Z),
  window3 c shape (Some sl) =
  match window_slice_model (cd c * cr c * cc c) shape sl with
  | Ok None => Ok c
  | Ok (Some ((r0, r1), (c0, c1))) => Ok (np_slice3 c r0 r1 c0 c1)
  | Err e => Err e
  end.
Proof.
  intros. destruct sl as [[[s0 s1] s2] s3]. unfold window3, window_slice_model.
  destruct (cd c * cr c * cc c =? 1); [reflexivity|]. destruct shape as [[h w]|]; [|reflexivity].
  destruct (negb (s1 - s0 =? h)); [reflexivity|]. destruct (negb (s3 - s2 =? w)); reflexivity.
Qed.

(* ------------------------------------------------------------------ lentil/helper.py: mesh, the origin convention *)
Lemma src_mesh_origin_ok : forall (n m s0 s1 i j : Z),
  src_mesh_origin (n, m) (s0, s1) i j = (i - ctr n - s0, j - ctr m - s1).
Proof. intros; unfold src_mesh_origin, ctr; src_finish. Qed.

(* the same facts in the form Properties/C20Src.v states them *)
Lemma src_window_slice_stmt : forall (n m : Z) (shape : Z * Z) (sl : Z * Z * Z * Z),
  src_window_slice (n, m) shape sl =
  let '(s0, s1, s2, s3) := sl in
  if n * m =? 1 then Ok None
  else if negb (s1 - s0 =? fst shape) then Err AssertionErr
  else if negb (s3 - s2 =? snd shape) then Err AssertionErr
  else Ok (Some ((s0, s1), (s2, s3))).
Proof. intros n m [h w] sl. rewrite src_window_slice_ok. destruct sl as [[[s0 s1] s2] s3]. reflexivity. Qed.

Lemma src_window_slice_noshape_stmt : forall (n m : Z) (sl : Z * Z * Z * Z),
  src_window_slice_noshape (n, m) sl =
  let '(s0, s1, s2, s3) := sl in if n * m =? 1 then None else Some ((s0, s1), (s2, s3)).
Proof. intros; destr_prods; unfold src_window_slice_noshape; src_finish. Qed.

Lemma src_window_slice_cube_stmt : forall (d n m : Z) (shape : Z * Z) (sl : Z * Z * Z * Z),
  src_window_slice_cube (d, n, m) shape sl =
  let '(s0, s1, s2, s3) := sl in
  if d * n * m =? 1 then Ok None
  else if negb (s1 - s0 =? fst shape) then Err AssertionErr
  else if negb (s3 - s2 =? snd shape) then Err AssertionErr
  else Ok (Some ((s0, s1), (s2, s3))).
Proof. intros d n m [h w] sl. rewrite src_window_slice_cube_ok. destruct sl as [[[s0 s1] s2] s3]. reflexivity. Qed.

Lemma src_window_is_window : forall (S : Scalar) (a : arr S) (shape : Z * Z) (sl : Z * Z * Z * Z),
  window a (Some shape) (Some sl) =
  match src_window_slice (nr a, nc a) shape sl with
  | Ok None => Ok a
  | Ok (Some ((r0, r1), (c0, c1))) => Ok (np_slice a r0 r1 c0 c1)
  | Err e => Err e
  end.
Proof. intros. rewrite src_window_slice_ok. apply window_uses_slice_model. Qed.

Lemma src_window_cube_is_window3 : forall (S : Scalar) (c : cube S) (shape : Z * Z) (sl : Z * Z * Z * Z),
  window3 c (Some shape) (Some sl) =
  match src_window_slice_cube (cd c, cr c, cc c) shape sl with
  | Ok None => Ok c
  | Ok (Some ((r0, r1), (c0, c1))) => Ok (np_slice3 c r0 r1 c0 c1)
  | Err e => Err e
  end.
Proof. intros. rewrite src_window_slice_cube_ok. apply window3_uses_slice_model. Qed.
