From LV Require Import Lib.Arr.

Section ArrP.
Variable S : Scalar.

Lemma nth_rows_aux (g : nat -> nat -> S) (m : nat) (d : S) :
  forall (n s i j : nat), (i < n)%nat -> (j < m)%nat ->
  nth (i * m + j) (flat_map (fun i => map (g i) (seq 0 m)) (seq s n)) d = g (s + i)%nat j.
Proof.
  induction n as [|n IH]; intros s i j Hi Hj; [lia|].
  cbn [seq flat_map]. destruct i as [|i].
  - rewrite app_nth1 by (rewrite map_length, seq_length; lia).
    cbn [Nat.mul Nat.add]. rewrite (nth_indep _ d (g s 0%nat)) by (rewrite map_length, seq_length; lia).
    rewrite map_nth, seq_nth by lia. f_equal; lia.
  - rewrite app_nth2 by (rewrite map_length, seq_length; cbn; lia).
    rewrite map_length, seq_length.
    replace (Datatypes.S i * m + j - m)%nat with (i * m + j)%nat by (cbn; lia).
    rewrite IH by lia. f_equal; lia.
Qed.

Lemma nth_rows (g : nat -> nat -> S) n m i j d : (i < n)%nat -> (j < m)%nat ->
  nth (i * m + j) (rows n m g) d = g i j.
Proof. intros. unfold rows. now rewrite nth_rows_aux. Qed.

Lemma rows_length (g : nat -> nat -> S) n m : length (rows n m g) = (n * m)%nat.
Proof. unfold rows. generalize 0%nat at 2. induction n as [|n IH]; intros s; cbn [seq flat_map]; [reflexivity|].
  rewrite app_length, map_length, seq_length, IH. cbn. lia. Qed.

Theorem force_get (a : arr S) i j : 0 <= i < nr a -> 0 <= j < nc a ->
  get (force a) i j = get a i j.
Proof.
  intros Hi Hj. unfold force, of_list, tabulate, inr. cbn [get].
  replace ((0 <=? i) && (i <? nr a) && ((0 <=? j) && (j <? nc a))) with true by lia.
  replace (Z.to_nat (i * nc a + j)) with (Z.to_nat i * Z.to_nat (nc a) + Z.to_nat j)%nat by nia.
  rewrite nth_rows by lia. f_equal; lia.
Qed.
Lemma force_nr (a : arr S) : nr (force a) = nr a. Proof. reflexivity. Qed.
Lemma force_nc (a : arr S) : nc (force a) = nc a. Proof. reflexivity. Qed.
End ArrP.
