(* WP-T2, C02: the integer index arithmetic of lentil/propagate.py:propagate_dft and its helpers, translated from
   the source text on every check (Gen/PropagateSrc.v, harness/gen_src.py), equals the model of
   Model/Propagate.v for all integers.  Floats (alpha, the real shift) are out of scope: the translated terms take
   fix_shift = np.fix(shift) as an integer argument. *)
From LV Require Import Model.Extent Model.Propagate Gen.PropagateSrc Proofs.SrcTac.

(* ---- _mask_shape / _mask_shift ---- *)
Lemma src_mask_shape_ok : forall (xs : Z * Z) (b : extent), src_mask_shape xs b = mask_shape b.
Proof. intros; destr_prods; unfold src_mask_shape, mask_shape; src_finish. Qed.

Lemma src_mask_shift_ok : forall (R C : Z) (b : extent), src_mask_shift (R, C) b = mask_shift R C b.
Proof. intros; destr_prods; unfold src_mask_shift, mask_shift; src_finish. Qed.

(* ---- propagate_dft up to the loop over the fields: shape_out, prop_shape_out, out_extent ---- *)
Definition dft_shapes_model (shape pshape : Z * Z) (os : Z) : (Z * Z) * (Z * Z) * extent :=
  ((fst shape * os, snd shape * os), (fst pshape * os, snd pshape * os),
   array_extent (fst shape * os) (snd shape * os) 0 0).

Lemma src_dft_shapes_ok : forall (wshape shape pshape : Z * Z) (os : Z),
  src_dft_shapes wshape shape pshape os = dft_shapes_model shape pshape os.
Proof. intros; destr_prods; unfold src_dft_shapes, dft_shapes_model, array_extent; src_finish. Qed.

Lemma src_dft_shapes_default_ok : forall (wshape : Z * Z) (os : Z),
  src_dft_shapes_default wshape os = dft_shapes_model wshape wshape os.
Proof. intros; destr_prods; unfold src_dft_shapes_default, dft_shapes_model, array_extent; src_finish. Qed.

(* with a mask: the model's [out_extent] once util.boundary(mask) = b *)
Definition dft_shapes_mask_model (shape pshape : Z * Z) (os : Z) (mshape : Z * Z) (b : extent)
  : result ((Z * Z) * (Z * Z) * extent) :=
  if negb (fst mshape =? fst shape * os) && negb (snd mshape =? snd shape * os) then Err ValueError
  else let '(msr, msc) := mask_shape b in
       let '(mhr, mhc) := mask_shift (fst mshape) (snd mshape) b in
       Ok ((fst shape * os, snd shape * os), (fst pshape * os, snd pshape * os), array_extent msr msc mhr mhc).

Lemma src_dft_shapes_mask_model : forall (wshape shape pshape : Z * Z) (os : Z) (mshape : Z * Z) (b : extent),
  src_dft_shapes_mask wshape shape pshape os mshape b = dft_shapes_mask_model shape pshape os mshape b.
Proof.
  intros; destr_prods; unfold src_dft_shapes_mask, dft_shapes_mask_model, mask_shape, mask_shift, array_extent.
  src_finish.
Qed.

Lemma dft_shapes_mask_model_ok : forall (shape pshape : Z * Z) (os : Z) (m : bmask) (b : extent),
  mask_boundary m = Ok b ->
  match dft_shapes_mask_model shape pshape os (mnr m, mnc m) b with
  | Ok (so, pso, oe) => so = (fst shape * os, snd shape * os) /\ pso = (fst pshape * os, snd pshape * os) /\
                        out_extent (fst shape * os) (snd shape * os) (Some m) = Ok oe
  | Err e => out_extent (fst shape * os) (snd shape * os) (Some m) = Err e
  end.
Proof.
  intros shape pshape os m b Hb. unfold dft_shapes_mask_model, out_extent. cbv beta iota zeta delta [fst snd].
  destruct (negb _ && negb _); [reflexivity|]. rewrite Hb. cbn [rbind].
  destruct (mask_shape b) as [msr msc]. destruct (mask_shift (mnr m) (mnc m) b) as [mhr mhc]. auto.
Qed.

Lemma src_dft_shapes_mask_ok : forall (wshape shape pshape : Z * Z) (os : Z) (m : bmask) (b : extent),
  mask_boundary m = Ok b ->
  match src_dft_shapes_mask wshape shape pshape os (mnr m, mnc m) b with
  | Ok (so, pso, oe) => so = (fst shape * os, snd shape * os) /\ pso = (fst pshape * os, snd pshape * os) /\
                        out_extent (fst shape * os) (snd shape * os) (Some m) = Ok oe
  | Err e => out_extent (fst shape * os) (snd shape * os) (Some m) = Err e
  end.
Proof. intros. rewrite src_dft_shapes_mask_model. apply dft_shapes_mask_model_ok; assumption. Qed.

(* ---- one iteration of the loop: the window of one field ---- *)
Definition prop_window_model (oe : extent) (Pro Pco fxr fxc : Z) : option (option (Z * Z) * (Z * Z) * (Z * Z)) :=
  let pe := array_extent Pro Pco fxr fxc in
  if intersect oe pe then
    let ishape := intersection_shape oe pe in
    let '(isr, isc) := intersection_shift oe pe in
    let '(Ir1, Ic1) := match ishape with Some s => s | None => (1, 1) end in
    let ie := array_extent Ir1 Ic1 isr isc in
    let '(pcr, pcc) := array_center pe in
    let '(icr, icc) := array_center ie in
    Some (ishape, (isr, isc), (pcr - icr, pcc - icc))
  else None.

Lemma src_dft_field_window_ok : forall (wshape : Z * Z) (os : Z) (fix_shift : Z * Z) (oe : extent) (pso : Z * Z),
  src_dft_field_window wshape os fix_shift oe pso =
  prop_window_model oe (fst pso) (snd pso) (fst fix_shift) (snd fix_shift).
Proof.
  intros; destr_prods.
  unfold src_dft_field_window, prop_window_model, intersection_shape, intersection_shift, intersection_extent,
    intersect, array_center, array_extent.
  src_norm; cmp_norm.
  repeat match goal with |- context[?a / 2] => let q := fresh "q" in set (q := a / 2) in * end.
  repeat (destr_inner_if; src_norm); src_close.
Qed.

(* the model's [prop_field] is written with exactly this window: nothing is appended when it is None; otherwise the
   chip has shape ishape, offset (isr, isc) and is evaluated with the shift (psr, psc) + sub-pixel part *)
Lemma prop_field_uses_window : forall (S : Scalar) (sq : Qc -> S) (oe : extent) (Pro Pco : Z)
    (alpha : option (Qc * Qc)) (sh : Qc * Qc) (f : field S),
  prop_field sq oe Pro Pco alpha sh f =
  match prop_window_model oe Pro Pco (qfix (fst sh)) (qfix (snd sh)) with
  | None => Ok None
  | Some (ishape, (isr, isc), (psr, psc)) =>
      match alpha with
      | None => Err TypeError
      | Some (ar, ac) =>
          match ishape, fd f with
          | Some (Ir, Ic), D2 a =>
              Ok (Some (mkField (D2 (dft2 sq a ar ac Ir Ic
                                       (zq psr + (fst sh - zq (qfix (fst sh))))%Qc
                                       (zq psc + (snd sh - zq (qfix (snd sh))))%Qc (offr f) (offc f) true))
                                isr isc []))
          | _, _ => Err ValueError
          end
      end
  end.
Proof.
  intros. unfold prop_field, prop_window_model. cbv zeta.
  destruct (intersect oe _); [|reflexivity].
  destruct (intersection_shift oe _) as [isr isc].
  destruct (intersection_shape oe _) as [[Ir Ic]|];
    destruct (array_center (array_extent Pro Pco _ _)) as [pcr pcc];
    destruct (array_center (array_extent _ _ isr isc)) as [icr icc]; reflexivity.
Qed.
