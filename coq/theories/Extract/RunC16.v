(* Dispatcher for C16: run the detector model (rationals) on an encoded case. *)
From LV Require Import Lib.Codec Model.Detector Model.DetectorQE.
From LV Require Model.Spectrum.
Require Import ExtrOcamlBasic.

(* 2-d array of rationals: nr nc then row-major n/d pairs *)
Definition parrQ : parser (arr QcS) :=
  n <- pZ ;; m <- pZ ;;
  if (n <? 0) || (m <? 0) then pfail else
  l <- prep (Z.to_nat (n * m)) pQ ;; pret (@of_list QcS n m l).
Definition pcubeQ : parser (cube QcS) :=
  k <- pZ ;; n <- pZ ;; m <- pZ ;;
  if (k <? 0) || (n <? 0) || (m <? 0) then pfail else
  l <- prep (Z.to_nat (k * n * m)) pQ ;; pret (cube_of_list QcS k n m l).
(* image: tag 2 = 2-d array, tag 3 = cube *)
Definition pimg : parser (imgrep QcS) :=
  t <- pZ ;;
  if t =? 2 then a <- parrQ ;; pret (Img2 a)
  else if t =? 3 then c <- pcubeQ ;; pret (Img3 c)
  else pfail.
(* efficiency: tag 0 = scalar, tag 1 = vector *)
Definition pqe : parser (qerep QcS) :=
  t <- pZ ;;
  if t =? 0 then q <- pQ ;; pret (@QScalar QcS q)
  else if t =? 1 then l <- plist pQ ;; pret (QVec (vec_of_list QcS l))
  else pfail.
(* gain: tag = ndim (0..3), anything else = higher rank *)
Definition pgain : parser gainrep :=
  t <- pZ ;;
  if t =? 0 then q <- pQ ;; pret (G0 q)
  else if t =? 1 then l <- plist pQ ;; pret (G1 l)
  else if t =? 2 then a <- parrQ ;; pret (G2 a)
  else if t =? 3 then c <- pcubeQ ;; pret (G3 c)
  else pret GN.

Definition earrQ (a : arr QcS) : list Z := nr a :: nc a :: flat_map eQ (tabulate a).
Definition earrZ (a : arr ZS) : list Z := nr a :: nc a :: tabulate a.

Definition bayer_args := (imgrep QcS * Z * qerep QcS * qerep QcS * qerep QcS * list Z * Z * bool)%type.
Definition pbayer : parser bayer_args :=
  i <- pimg ;; nw <- pZ ;; qr <- pqe ;; qg <- pqe ;; qb <- pqe ;; pat <- plist pZ ;; os <- pZ ;;
  fl <- pbool ;; pret (i, nw, qr, qg, qb, pat, os, fl).
Definition run_bayer (a : bayer_args) : list Z :=
  let '(i, nw, qr, qg, qb, pat, os, fl) := a in
  if (os <? 1) || (Z.of_nat (length pat) <? 1) then emalformed else
  if fl : bool then eresult earrQ (collect_charge_bayer i nw qr qg qb pat os)
  else eresult (fun '(r, g, b) => earrQ r ++ earrQ g ++ earrQ b)
               (collect_charge_bayer_channels i nw qr qg qb pat os).

Definition collect_args := (imgrep QcS * Z * qerep QcS)%type.
Definition pcollect : parser collect_args := i <- pimg ;; nw <- pZ ;; q <- pqe ;; pret (i, nw, q).
Definition run_collect (a : collect_args) : list Z :=
  let '(i, nw, q) := a in eresult earrQ (collect_charge i nw q).
Definition adc_args := (arr QcS * gainrep * option Qc * bool)%type.
Definition padc : parser adc_args := i <- parrQ ;; g <- pgain ;; s <- popt pQ ;; w <- pbool ;; pret (i, g, s, w).
Definition run_adc (a : adc_args) : list Z :=
  let '(i, g, s, w) := a in
  eresult (fun '(wn, dn) => (if wn : bool then 1 else 0) :: earrZ dn) (adc i g s w).
(* ---- every kind of efficiency: scalar | vector | Spectrum (unit code 0 m, 1 um, 2 nm, 3 angstrom; wave; values) ---- *)
Definition pwunit : parser Spectrum.wunit :=
  t <- pZ ;;
  if t =? 0 then pret Spectrum.UM else if t =? 1 then pret Spectrum.UUm
  else if t =? 2 then pret Spectrum.UNm else if t =? 3 then pret Spectrum.UAng else pfail.
Definition pqeany : parser qeany :=
  t <- pZ ;;
  if t =? 0 then q <- pQ ;; pret (QEplain (@QScalar QcS q))
  else if t =? 1 then l <- plist pQ ;; pret (QEplain (QVec (vec_of_list QcS l)))
  else if t =? 2 then u <- pwunit ;; w <- plist pQ ;; v <- plist pQ ;;
                      pret (QEspec (Spectrum.mkS w v u Spectrum.VNone))
  else pfail.
(* ZeroDivisionError travels as error code 7 *)
Definition eoutcome {A} (e : A -> list Z) (o : outcome A) : list Z :=
  match o with Returned a => 0 :: e a | Raised k => [1; errcode k] | RaisedZeroDivision => [1; 7] end.
Definition collect_any_args := (imgrep QcS * list Qc * Spectrum.wunit * qeany)%type.
Definition pcollect_any : parser collect_any_args :=
  i <- pimg ;; w <- plist pQ ;; u <- pwunit ;; q <- pqeany ;; pret (i, w, u, q).
Definition run_collect_any (a : collect_any_args) : list Z :=
  let '(i, w, u, q) := a in eresult earrQ (collect_charge_any i w u q).
Definition bayer_any_args := (imgrep QcS * list Qc * Spectrum.wunit * qeany * qeany * qeany * list Z * Z * bool)%type.
Definition pbayer_any : parser bayer_any_args :=
  i <- pimg ;; w <- plist pQ ;; u <- pwunit ;; qr <- pqeany ;; qg <- pqeany ;; qb <- pqeany ;; pat <- plist pZ ;;
  os <- pZ ;; fl <- pbool ;; pret (i, w, u, qr, qg, qb, pat, os, fl).
Definition run_bayer_any (a : bayer_any_args) : list Z :=
  let '(i, w, u, qr, qg, qb, pat, os, fl) := a in
  if fl : bool then eoutcome earrQ (collect_charge_bayer_entry i w u qr qg qb pat os)
  else eoutcome (fun '(r, g, b) => earrQ r ++ earrQ g ++ earrQ b)
                (collect_charge_bayer_channels_entry i w u qr qg qb pat os).

(* one call of a history: tag = the op code of the single call (1, 2, 3, 8, 9); parsed and answered at once *)
Definition pcall : parser (list Z) :=
  t <- pZ ;;
  if t =? 1 then a <- pcollect ;; pret (run_collect a)
  else if t =? 2 then a <- pbayer ;; pret (run_bayer a)
  else if t =? 3 then a <- padc ;; pret (run_adc a)
  else if t =? 8 then a <- pcollect_any ;; pret (run_collect_any a)
  else if t =? 9 then a <- pbayer_any ;; pret (run_bayer_any a)
  else pfail.

Definition run_c16 (inp : list Z) : list Z :=
  match inp with
  | 1 :: rest =>   (* collect_charge(img, wave, qe) *)
    match pall pcollect rest with
    | Some a => run_collect a
    | None => emalformed end
  | 6 :: rest =>   (* a history of collect_charge / collect_charge_bayer / adc calls sharing their argument objects:
                      the model is a pure function, every call is answered from its own arguments *)
    match pall (plist pcall) rest with
    | Some l => 0 :: flat_map (fun o => Z.of_nat (length o) :: o) l
    | None => emalformed end
  | 2 :: rest =>   (* collect_charge_bayer(img, wave, qr, qg, qb, pattern, oversample, flatten) *)
    match pall pbayer rest with
    | Some a => run_bayer a
    | None => emalformed end
  | 5 :: rest =>   (* a sequence of collect_charge_bayer calls in one process: the model is a pure function,
                      every call is answered from its own arguments; each answer is prefixed by its length *)
    match pall (plist pbayer) rest with
    | Some l => 0 :: flat_map (fun a => let o := run_bayer a in Z.of_nat (length o) :: o) l
    | None => emalformed end
  | 3 :: rest =>   (* adc(img, gain, saturation_capacity, warn_saturate) *)
    match pall padc rest with
    | Some a => run_adc a
    | None => emalformed end
  | 8 :: rest =>   (* collect_charge with any kind of efficiency, the cube's wavelengths and their unit *)
    match pall pcollect_any rest with
    | Some a => run_collect_any a
    | None => emalformed end
  | 9 :: rest =>   (* collect_charge_bayer with any kind of efficiency *)
    match pall pbayer_any rest with
    | Some a => run_bayer_any a
    | None => emalformed end
  | 4 :: rest =>   (* format_bayer_string *)
    match pall (plist pZ) rest with
    | Some pat => eresult (fun p => pk p :: tabulate (@mkArr ZS (pk p) (pk p) (pch p))) (format_bayer pat)
    | None => emalformed end
  | _ => emalformed
  end.

Definition run := run_c16.
Extraction "extracted/run_c16.ml" run.
