(* Dispatcher for C12: zernike_fit / zernike_compose / zernike_remove on the rationals.
   The abstract mode family is a table handed in by the harness: entries
   (normalize flag, caller-supplied-coordinates flag, Noll index j, samples of the unmasked mode on
   every pixel, row-major).  A mode the table does not hold evaluates to 0 (the answer then cannot
   agree with the implementation).  [solve] is the validated Gauss solver of Lib/Lsq.v. *)
From LV Require Import Lib.Codec Model.ZernikeFit.
Require Import ExtrOcamlBasic.

Definition tentry := (bool * bool * Z * list Qc)%type.
Definition pentry : parser tentry :=
  nrm <- pbool ;; cf <- pbool ;; j <- pZ ;; l <- plist pQ ;; pret (nrm, cf, j, l).
Definition crdflag (crd : option unit) : bool := match crd with Some _ => true | None => false end.
Definition zp (ncm : Z) (tbl : list tentry) (nrm : bool) (crd : option unit) (j r c : Z) : QS :=
  match find (fun e => match e with (n, f, j', _) => Bool.eqb n nrm && Bool.eqb f (crdflag crd) && (j' =? j) end) tbl with
  | Some (_, _, _, l) => nth (Z.to_nat (r * ncm + c)) l (Q2Qc 0)
  | None => Q2Qc 0
  end.
Definition is0q (q : QS) : bool := qc_is0 q.

Definition parrQ : parser (arr QS) :=
  n <- pZ ;; m <- pZ ;;
  if (n <? 0) || (m <? 0) then pfail else
  l <- prep (Z.to_nat (n * m)) pQ ;; pret (@of_list QS n m l).
Definition earrQ (a : arr QS) : list Z := nr a :: nc a :: flat_map eQ (tabulate a).
(* 0 = neither, 1 = rho and theta, 2 = rho alone, 3 = theta alone *)
Definition pcrd : parser (coordarg unit) :=
  t <- pZ ;; pret (if t =? 1 then CBoth tt else if t =? 2 then CRhoOnly else if t =? 3 then CThetaOnly else CNone).

Definition run1 (inp : list Z) : list Z :=
  match inp with
  | op :: rest =>
    if op =? 1 then
      match pall (opd <- parrQ ;; mask <- parrQ ;; modes <- plist pZ ;; nrm <- pbool ;; crd <- pcrd ;;
                  tbl <- plist pentry ;; pret (opd, mask, modes, nrm, crd, tbl)) rest with
      | Some (opd, mask, modes, nrm, crd, tbl) =>
          eresult (elist eQ) (zernike_fit_a is0q (zp (nc mask) tbl) q_solve opd mask modes nrm crd)
      | None => emalformed end
    else if op =? 2 then
      match pall (mask <- parrQ ;; coeffs <- plist pQ ;; nrm <- pbool ;; crd <- pcrd ;;
                  tbl <- plist pentry ;; pret (mask, coeffs, nrm, crd, tbl)) rest with
      | Some (mask, coeffs, nrm, crd, tbl) =>
          eresult earrQ (zernike_compose_a is0q (zp (nc mask) tbl) mask coeffs nrm crd)
      | None => emalformed end
    else if op =? 3 then
      match pall (opd <- parrQ ;; mask <- parrQ ;; modes <- plist pZ ;; crd <- pcrd ;;
                  tbl <- plist pentry ;; pret (opd, mask, modes, crd, tbl)) rest with
      | Some (opd, mask, modes, crd, tbl) =>
          eresult earrQ (zernike_remove_a is0q (zp (nc mask) tbl) q_solve opd mask modes crd)
      | None => emalformed end
    else if op =? 5 then
      match pall (mask <- parrQ ;; modes <- plist pZ ;; vec <- pbool ;; nrm <- pbool ;; crd <- pcrd ;;
                  tbl <- plist pentry ;; pret (mask, modes, vec, nrm, crd, tbl)) rest with
      | Some (mask, modes, vec, nrm, crd, tbl) =>
          match zernike_basis_a is0q (zp (nc mask) tbl) mask modes vec nrm crd with
          | Ok (Datatypes.inl cube) => 0 :: 0 :: elist earrQ cube
          | Ok (Datatypes.inr B) => 0 :: 1 :: earrQ B
          | Err k => [1; errcode k]
          end
      | None => emalformed end
    else emalformed
  | _ => emalformed
  end.

(* op 4: a history of calls in one case:  4 :: n :: (len_1 :: call_1) ... (len_n :: call_n).  The model is a
   pure function, so every call of a history is answered as if it were the first one in a fresh process;
   the answer is  0 :: n :: (len_1 :: answer_1) ... *)
Fixpoint run_batch (n : nat) (l : list Z) : option (list Z) :=
  match n with
  | O => match l with [] => Some [] | _ => None end
  | Datatypes.S n' =>
      match l with
      | len :: rest =>
          if len <? 0 then None else
          let k := Z.to_nat len in
          if Nat.ltb (length rest) k then None else
          let out := run1 (firstn k rest) in
          match run_batch n' (skipn k rest) with
          | Some o => Some (Z.of_nat (length out) :: out ++ o)
          | None => None end
      | [] => None
      end
  end.

Definition run (inp : list Z) : list Z :=
  match inp with
  | op :: n :: rest =>
      if op =? 4 then
        if n <? 0 then emalformed else
        match run_batch (Z.to_nat n) rest with Some o => 0 :: n :: o | None => emalformed end
      else run1 inp
  | _ => run1 inp
  end.

Extraction "extracted/run_c12.ml" run.
