(* Dispatcher for C02: propagate_dft on the group ring Q(i)[C_L]; the case supplies L.
   The wavefront's fields are given directly, or (flag) as the phasors of the plane it was multiplied by.
   op 1: one propagation; op 2: a propagation followed by a propagation of its result (pupil ->
   image -> pupil); op 3: a history of steps on src (0 = the initial wavefront, j > 0 = the result of step j): a
   propagation, or the multiplication by one more array-valued plane (Field.__mul__ of Model/Field.v); the model is a pure function, so a wavefront propagated several
   times gives what a fresh copy would give; op 4: Wavefront.insert(out, weight).  The square root of the unitary factor is applied by the harness (sq = 1). *)
From LV Require Import Extract.FieldCodec Model.Propagate.
Require Import ExtrOcamlBasic.

Definition pptype : parser wf_ptype :=
  t <- pZ ;; if t =? 0 then pret PtNone else if t =? 1 then pret PtPupil else if t =? 2 then pret PtImage else pfail.
Definition eptype (t : wf_ptype) : list Z := match t with PtNone => [0] | PtPupil => [1] | PtImage => [2] end.

Definition pmask : parser bmask :=
  n <- pZ ;; m <- pZ ;;
  if (n <? 0) || (m <? 0) then pfail else
  l <- prep (Z.to_nat (n * m)) pZ ;;
  pret (mkMask n m (fun i j => if inr n i && inr m j then nth (Z.to_nat (i * m + j)) l 0 >? 0 else false)).

(* Wavefront(...) * Plane: the initial field (0-d, data 1, offset (0,0)) times each phasor of the
   plane (Field.__mul__, Model/Field.v); empty products are not appended *)
Definition wave_times (L : nat) (phasors : list (field (GRS L))) : list (field (GRS L)) :=
  flat_map (fun p => match fmul (S := GRS L) (mkField (D0 (gr1 L : GRS L)) 0 0 []) p with Some f => [f] | None => [] end) phasors.

Definition pwavefront (L : nat) : parser (wavefront (GRS L)) :=
  wl <- pQ ;; ps <- popt (ppair pQ pQ) ;; z <- popt pQ ;; sr <- pZ ;; sc <- pZ ;; pt <- pptype ;;
  mul <- pbool ;; fs <- plist (pfield L) ;;
  pret (mkWf wl ps z (sr, sc) pt (if mul then wave_times L fs else fs)).

Record callargs := mkCall { c_dur : Qc; c_duc : Qc; c_shape : option (Z * Z); c_pshape : option (Z * Z);
                            c_os : Z; c_mask : option bmask }.
Definition pcall : parser callargs :=
  dur <- pQ ;; duc <- pQ ;; sh <- popt (ppair pZ pZ) ;; psh <- popt (ppair pZ pZ) ;; os <- pZ ;;
  mk <- popt pmask ;; pret (mkCall dur duc sh psh os mk).

Definition ewavefront (L : nat) (w : wavefront (GRS L)) : list Z :=
  eQ (wwl w) ++ eopt (fun p => eQ (fst p) ++ eQ (snd p)) (wps w) ++ eopt eQ (wfocal w)
  ++ [fst (wshape w); snd (wshape w)] ++ eptype (wptype w) ++ elist (efield L) (wdata w)
  ++ eresult (earr L) (wfield w) ++ eresult (earr L) (wintensity w).

Definition call (L : nat) (w : wavefront (GRS L)) (c : callargs) : result (wavefront (GRS L)) :=
  propagate_dft (S := GRS L) (fun _ => gr1 L) no_shift w (c_dur c) (c_duc c) (c_shape c) (c_pshape c) (c_os c) (c_mask c).

(* one step of a history: a propagation, or the multiplication by an array-valued plane given by
   its phasors (Plane.multiply: for field in data: for phasor: field * phasor, empty products dropped;
   the result takes the plane's shape and the result type of the multiplication table) *)
Inductive step (L : nat) :=
| StProp (src : Z) (c : callargs)
| StMul (src : Z) (sr sc : Z) (pt : wf_ptype) (ph : list (field (GRS L))).
Arguments StProp {L}. Arguments StMul {L}.

Definition pstep (L : nat) : parser (step L) :=
  t <- pZ ;; src <- pZ ;;
  if src <? 0 then pfail else
  if t =? 0 then (c <- pcall ;; pret (StProp src c))
  else if t =? 1 then (sr <- pZ ;; sc <- pZ ;; pt <- pptype ;; ph <- plist (pfield L) ;; pret (StMul src sr sc pt ph))
  else pfail.

Definition times_plane (L : nat) (sr sc : Z) (pt : wf_ptype) (ph : list (field (GRS L))) (w : wavefront (GRS L))
  : wavefront (GRS L) :=
  mkWf (wwl w) (wps w) (wfocal w) (sr, sc) pt
       (flat_map (fun f => flat_map (fun p => match fmul (S := GRS L) f p with Some x => [x] | None => [] end) ph) (wdata w)).

(* results so far, oldest first *)
Fixpoint history (L : nat) (w0 : wavefront (GRS L)) (steps : list (step L))
         (done : list (result (wavefront (GRS L)))) : list (result (wavefront (GRS L))) :=
  match steps with
  | [] => done
  | st :: rest =>
    let src := match st with StProp s _ => s | StMul s _ _ _ _ => s end in
    let w := if src =? 0 then Ok w0 else nth (Z.to_nat (src - 1)) done (Err IndexError) in
    let r := match st with
             | StProp _ c => rbind w (fun x => call L x c)
             | StMul _ sr sc pt ph => rbind w (fun x => Ok (times_plane L sr sc pt ph x))
             end in
    history L w0 rest (done ++ [r])
  end.

Definition run (inp : list Z) : list Z :=
  match inp with
  | op :: Lz :: rest =>
    if Lz <=? 0 then emalformed else
    let L := Z.to_nat Lz in
    if op =? 1 then
      match pall (w <- pwavefront L ;; c <- pcall ;; pret (w, c)) rest with
      | Some (w, c) => eresult (ewavefront L) (call L w c)
      | None => emalformed end
    else if op =? 2 then
      match pall (w <- pwavefront L ;; c1 <- pcall ;; c2 <- pcall ;; pret (w, c1, c2)) rest with
      | Some (w, c1, c2) => eresult (ewavefront L) (rbind (call L w c1) (fun w1 => call L w1 c2))
      | None => emalformed end
    else if op =? 3 then
      match pall (w <- pwavefront L ;; st <- plist (pstep L) ;; pret (w, st)) rest with
      | Some (w, st) => 0 :: elist (eresult (ewavefront L)) (history L w st [])
      | None => emalformed end
    else if op =? 4 then
      (* Wavefront.insert(out, weight) on a wavefront given by its fields *)
      match pall (fs <- plist (pfield L) ;; out <- parr L ;; wt <- pK L ;; pret (fs, out, wt)) rest with
      | Some (fs, out, wt) =>
          eresult (earr L) (winsert (S := GRS L) (mkWf 0%Qc None None (0, 0) PtNone fs) out wt)
      | None => emalformed end
    else emalformed
  | _ => emalformed
  end.

Extraction "extracted/run_c02.ml" run.
