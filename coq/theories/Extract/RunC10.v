(* Dispatcher for C10: run an encoded call history through the purity model and report, per step,
   the buffers and objects the model says may be written, the identity of the result and the
   buffer ids it is made of (aliasing).  Values are irrelevant here: the kernels are trivial. *)
From LV Require Import Lib.Codec Model.Purity.
Require Import ExtrOcamlBasic.

Definition K0 : kernels :=
  mkkernels (fun _ args _ => match args with a :: _ => a | [] => [0; 0] end)
            (fun _ _ _ => (0, 0))
            (fun r => r + 1).

Definition pkey : parser key := a <- pZ ;; b <- pZ ;; c <- pZ ;; d <- pZ ;; pret (a, b, c, d).
Definition pop : parser op :=
  c <- pZ ;;
  match c with
  | 1 => n <- pnat ;; f <- pbool ;; pret (ONewArr n f)
  | 2 => r <- pnat ;; pret (OPoke r)
  | 3 => k <- pZ ;; a <- popt pnat ;; d <- popt pnat ;; m <- popt pnat ;; n <- pnat ;; pret (OPlane k a d m n)
  | 4 => p <- pnat ;; a <- pnat ;; pret (OSetOpd p a)
  | 5 => p <- pnat ;; a <- pnat ;; pret (OSetAmp p a)
  | 6 => p <- pnat ;; b <- pbool ;; pret (OFitTilt p b)
  | 7 => p <- pnat ;; pret (OCopy p)
  | 8 => p <- pnat ;; pret (ORescale p)
  | 9 => t <- popt (ppair pZ pZ) ;; pret (OWave t)
  | 10 => p <- pnat ;; w <- pnat ;; pret (OMul p w)
  | 11 => w <- pnat ;; z <- pZ ;; ks <- plist pkey ;; pret (OPropDft w z ks)
  | 12 => w <- pnat ;; s <- popt pnat ;; pret (OPropFft w s)
  | 13 => w <- pnat ;; o <- pnat ;; pret (OInsert w o)
  | 14 => w <- pnat ;; b <- pbool ;; pret (OWField w b)
  | 15 => f <- pnat ;; k <- pkey ;; o <- popt pnat ;; i <- pbool ;; ps <- plist pZ ;; pret (ODft2 f k o i ps)
  | 16 => code <- pZ ;; args <- plist pnat ;; ps <- plist pZ ;; pret (OPureFn code args ps)
  | 17 => code <- pZ ;; args <- plist pnat ;; pret (ORandFn code args)
  | 18 => w <- pnat ;; v <- pnat ;; pret (OSpec w v)
  | 19 => s <- pnat ;; pret (OSpecScalar s)
  | 20 => a <- pnat ;; b <- pnat ;; pret (OSpecBin a b)
  | 21 => s <- pnat ;; b <- pbool ;; pret (OSpecTo s b)
  | 22 => s <- pnat ;; pret (OSpecTrim s)
  | 23 => s <- pnat ;; w <- pnat ;; pret (OSpecResample s w)
  | 24 => p <- pnat ;; k <- pnat ;; pret (OPokeAttr p k)
  | 25 => w <- pnat ;; x <- pZ ;; y <- pZ ;; pret (OMulTilt w (x, y))
  | _ => pfail
  end.

Definition enat (n : nat) : list Z := [Z.of_nat n].
Definition eslots (s : state) (j : oid) : list Z :=
  match nth_error (ob s) j with Some o => elist enat (oslots o) | None => [0] end.
(* one step: status, writes, owrites, rng changed, result tag/id/slots, slots of every edited object *)
Definition estep (pre : state) (so : state * outcome) : list Z :=
  let '(s, o) := so in
  o_status o :: elist enat (o_writes o) ++ elist enat (o_owrites o)
  ++ [if rng s =? rng pre then 0 else 1]
  ++ (match o_res o with
      | VNone => [0; 0; 0]
      | VArr a => [1; Z.of_nat a; 1; Z.of_nat a]
      | VObj j => 2 :: Z.of_nat j :: eslots s j
      end)
  ++ elist (fun j => Z.of_nat j :: eslots s j) (o_owrites o).
Fixpoint esteps (pre : state) (l : list (state * outcome)) : list Z :=
  match l with
  | [] => []
  | so :: r => estep pre so ++ esteps (fst so) r
  end.

Definition run_c10 (inp : list Z) : list Z :=
  match inp with
  | 1 :: rest =>
    match pall (plist pop) rest with
    | Some ops => 0 :: Z.of_nat (length ops) :: esteps init (run_ops K0 init ops)
    | None => emalformed
    end
  | _ => emalformed
  end.

Definition run := run_c10.
Extraction "extracted/run_c10.ml" run.
