(* Case codec for planes and wavefronts (Model/Plane.v), shared by the dispatchers of C07 and C03. *)
From LV Require Export Extract.FieldCodec Model.Plane.

Definition gnz (L : nat) (x : GRS L) : bool := negb (forallb cq_is0 x).

Definition p_pix : parser pixraw :=
  t <- pZ ;;
  if t =? 0 then pret PixNone
  else if t =? 1 then (q <- pQ ;; pret (Pix1 q))
  else if t =? 2 then (a <- pQ ;; b <- pQ ;; pret (Pix2 a b))
  else pfail.
Definition pqarr : parser (garr Qc) :=
  n <- pZ ;; m <- pZ ;;
  if (n <? 0) || (m <? 0) then pfail else
  l <- prep (Z.to_nat (n * m)) pQ ;;
  pret (mkP n m (fun i j => if inr n i && inr m j then nth (Z.to_nat (i * m + j)) l 0%Qc else 0%Qc)).
Definition p_amp (L : nat) : parser (aattr (GRS L)) :=
  t <- pZ ;;
  if t =? 0 then (v <- pK L ;; pret (AmpS v))
  else if t =? 2 then (a <- parr L ;; pret (AmpA a)) else pfail.
Definition p_opd : parser oattr :=
  t <- pZ ;;
  if t =? 0 then (q <- pQ ;; pret (OpdS q))
  else if t =? 2 then (a <- pqarr ;; pret (OpdA a)) else pfail.
Definition p_mraw (L : nat) : parser (mraw (GRS L)) :=
  t <- pZ ;;
  if t =? 0 then pret MNone
  else if t =? 1 then (v <- pK L ;; pret (MS v))
  else if t =? 2 then (a <- parr L ;; pret (M2 a))
  else if t =? 3 then (n <- pZ ;; m <- pZ ;; l <- plist (parr L) ;;
                       if forallb (fun a => (nr a =? n) && (nc a =? m)) l then pret (M3 n m l) else pfail)
  else if t =? 4 then pret M4          (* an array of more than three dimensions: only its rank matters *)
  else pfail.
(* one chain element: kind (0 Plane, 1 Pupil, 2 lentil.Tilt), then for a plane: amplitude, opd, mask, pixelscale,
   focal_length (Pupil), tilt list; for a Tilt: the stored attributes self.x, self.y, then its scalar amplitude and opd *)
Definition p_plane0 (L : nat) (k : Z) : parser (result (plane (GRS L))) :=
  a <- p_amp L ;; o <- p_opd ;; m <- p_mraw L ;; px <- p_pix ;; f <- popt pQ ;; tl <- plist ptilt ;;
  pret (plane_init (gnz L) a o m px
          (if k =? 0 then None else Some (match f with Some q => FVal q | None => FNone end)) tl).
Definition p_plane (L : nat) : parser (result (celem (GRS L))) :=
  k <- pZ ;;
  if k =? 2 then
    (tx <- pQ ;; ty <- pQ ;; a <- pK L ;; o <- pQ ;;      (* a tilt-type plane is a Plane: scalar amplitude and opd kwargs *)
     pret (match plane_init (gnz L) (AmpS a) (OpdS o) MNone PixNone None [] with
           | Ok P => Ok (CTilt (TiltAng tx ty) P) | Err e => Err e end))
  else if k =? 3 then       (* a tilt-type plane given Plane kwargs (mask ...): stored x, y, then the plane *)
    (tx <- pQ ;; ty <- pQ ;; r <- p_plane0 L 0 ;;
     pret (match r with Ok P => Ok (CTilt (TiltAng tx ty) P) | Err e => Err e end))
  else if (k =? 0) || (k =? 1) then
    (r <- p_plane0 L k ;; pret (match r with Ok P => Ok (CPlane P) | Err e => Err e end))
  else pfail.

Definition efdata (L : nat) (d : fdata (GRS L)) : list Z :=
  match d with D0 v => 0 :: eK L v | D2 a => 2 :: earr L a end.
Definition efocal (f : focal) : list Z :=
  match f with FInf => [0] | FNone => [1] | FVal q => 2 :: eQ q end.
Definition epix (p : option (Qc * Qc)) : list Z := eopt (fun '(a, b) => eQ a ++ eQ b) p.
Definition efsum (L : nat) (f : field (GRS L)) : list Z :=
  let '(a, b) := dshape (fd f) in
  (match fd f with D0 _ => 0 | D2 _ => 2 end) :: a :: b :: offr f :: offc f :: elist etilt (ftilt f).
(* what is observed of a wavefront *)
Definition ewf (L : nat) (w : pwf (GRS L)) : list Z :=
  eQ (pw_lam w) ++ epix (pw_pix w) ++ efocal (pw_focal w) ++ eopt (fun '(a, b) => [a; b]) (pw_shape w)
  ++ elist (efsum L) (pw_data w)
  ++ eresult (efdata L) (pwf_field w) ++ eresult (efdata L) (pwf_intensity w).
