(* Dispatcher for C20: run the geometry / shape models on an encoded case (rational scalars). *)
From LV Require Import Lib.Codec Model.Geometry Model.Shapes.
Require Import ExtrOcamlBasic.

(* arrays and cubes of rationals: shape, then row-major num/den pairs *)
Definition parrQ : parser (arr QS) :=
  n <- pZ ;; m <- pZ ;;
  if (n <? 0) || (m <? 0) then pfail else
  l <- prep (Z.to_nat (n * m)) pQ ;; pret (@of_list QS n m l).
Definition pcubeQ : parser (cube QS) :=
  d <- pZ ;; n <- pZ ;; m <- pZ ;;
  if (d <? 0) || (n <? 0) || (m <? 0) then pfail else
  l <- prep (Z.to_nat (d * n * m)) pQ ;;
  pret (@mkCube QS d n m (fun k i j => if inr d k && inr n i && inr m j
                                       then nth (Z.to_nat ((k * n + i) * m + j)) l 0%Qc else 0%Qc)).
Definition earrQ (a : arr QS) : list Z := nr a :: nc a :: flat_map eQ (tabulate a).
Definition ecubeQ (c : cube QS) : list Z :=
  cd c :: cr c :: cc c ::
  flat_map (fun k => flat_map eQ (tabulate (cslice c (Z.of_nat k)))) (seq 0 (Z.to_nat (cd c))).
Definition e4 (b : Z * Z * Z * Z) : list Z := let '(a, b, c, d) := b in [a; b; c; d].
Definition e2 (b : Z * Z) : list Z := [fst b; snd b].
Definition p2 : parser (Z * Z) := a <- pZ ;; b <- pZ ;; pret (a, b).
Definition p4 : parser (Z * Z * Z * Z) := a <- pZ ;; b <- pZ ;; c <- pZ ;; d <- pZ ;; pret (a, b, c, d).

Definition bslice_with_offset (a : arr QS) (b : Z * Z * Z * Z) : list Z :=
  let '(r0, r1, c0, c1) := b in e4 b ++ e2 (slice_offset (SlBox r0 r1 c0 c1) (nr a) (nc a)).

(* one drawing call on an n x m array: tag 0 circle, 1 rectangle, 2 hexagon *)
Definition pdraw (n m : Z) : parser (arr QS) :=
  t <- pZ ;;
  if t =? 0 then
    (r <- pQ ;; s0 <- pQ ;; s1 <- pQ ;; aa <- pbool ;; pret (@circle QS qle qsqrt n m r s0 s1 aa))
  else if t =? 1 then
    (w <- pQ ;; h <- pQ ;; s0 <- pQ ;; s1 <- pQ ;; co <- pQ ;; si <- pQ ;; aa <- pbool ;;
     pret (@rectangle QS qle n m w h s0 s1 co si aa))
  else if t =? 2 then
    (r <- pQ ;; s3 <- pQ ;; s0 <- pQ ;; s1 <- pQ ;; ns <- plist (ppair pQ pQ) ;; aa <- pbool ;;
     pret (@hexagon QS qle n m r s3 s0 s1 ns aa))
  else pfail.

Definition run_c20 (inp : list Z) : list Z :=
  match inp with
  | 1 :: rest =>   (* pad, 2-D *)
    match pall (a <- parrQ ;; s <- p2 ;; pret (a, s)) rest with
    | Some (a, (N, M)) => eresult earrQ (pad2 a N M)
    | None => emalformed end
  | 2 :: rest =>   (* pad, cube *)
    match pall (c <- pcubeQ ;; s <- p2 ;; pret (c, s)) rest with
    | Some (c, (N, M)) => eresult ecubeQ (pad3 c N M)
    | None => emalformed end
  | 3 :: rest =>   (* subarray *)
    match pall (a <- parrQ ;; s <- p4 ;; pret (a, s)) rest with
    | Some (a, (sr, sc, shr, shc)) => eresult earrQ (subarray a sr sc shr shc)
    | None => emalformed end
  | 4 :: rest =>   (* window *)
    match pall (a <- parrQ ;; sh <- popt p2 ;; sl <- popt p4 ;; pret (a, sh, sl)) rest with
    | Some (a, sh, sl) => eresult earrQ (window a sh sl)
    | None => emalformed end
  | 5 :: rest =>   (* boundary *)
    match pall (a <- parrQ ;; t <- pQ ;; pret (a, t)) rest with
    | Some (a, t) => eresult e4 (@boundary QS (qlt t) a)
    | None => emalformed end
  | 6 :: rest =>   (* boundary_slice and the slice_offset of its result *)
    match pall (a <- parrQ ;; t <- pQ ;; s <- p2 ;; pret (a, t, s)) rest with
    | Some (a, t, (pr, pc)) => eresult (bslice_with_offset a) (@boundary_slice QS (qlt t) a pr pc)
    | None => emalformed end
  | 7 :: r0 :: r1 :: c0 :: c1 :: n :: m :: [] => 0 :: e2 (slice_offset (SlBox r0 r1 c0 c1) n m)
  | 8 :: n :: m :: [] => 0 :: e2 (slice_offset SlEllipsis n m)
  | 9 :: rest =>   (* centroid *)
    match pall parrQ rest with
    | Some a => let '(r, c) := centroid a in 0 :: eQ r ++ eQ c
    | None => emalformed end
  | 10 :: rest =>  (* rebin, 2-D *)
    match pall (a <- parrQ ;; f <- pZ ;; pret (a, f)) rest with
    | Some (a, f) => eresult earrQ (rebin2 a f)
    | None => emalformed end
  | 11 :: rest =>  (* rebin, cube *)
    match pall (c <- pcubeQ ;; f <- pZ ;; pret (c, f)) rest with
    | Some (c, f) => eresult ecubeQ (rebin3 c f)
    | None => emalformed end
  | 12 :: rest =>  (* window, cube *)
    match pall (c <- pcubeQ ;; sh <- popt p2 ;; sl <- popt p4 ;; pret (c, sh, sl)) rest with
    | Some (c, sh, sl) => eresult ecubeQ (window3 c sh sl)
    | None => emalformed end
  | 20 :: n :: m :: rest =>   (* circle *)
    match pall (r <- pQ ;; s0 <- pQ ;; s1 <- pQ ;; aa <- pbool ;; pret (r, s0, s1, aa)) rest with
    | Some (r, s0, s1, aa) => 0 :: earrQ (@circle QS qle qsqrt n m r s0 s1 aa)
    | None => emalformed end
  | 21 :: n :: m :: rest =>   (* rectangle *)
    match pall (w <- pQ ;; h <- pQ ;; s0 <- pQ ;; s1 <- pQ ;; co <- pQ ;; si <- pQ ;; aa <- pbool ;;
                pret (w, h, s0, s1, co, si, aa)) rest with
    | Some (w, h, s0, s1, co, si, aa) => 0 :: earrQ (@rectangle QS qle n m w h s0 s1 co si aa)
    | None => emalformed end
  | 22 :: n :: m :: rest =>   (* hexagon *)
    match pall (r <- pQ ;; s3 <- pQ ;; s0 <- pQ ;; s1 <- pQ ;; ns <- plist (ppair pQ pQ) ;; aa <- pbool ;;
                pret (r, s3, s0, s1, ns, aa)) rest with
    | Some (r, s3, s0, s1, ns, aa) => 0 :: earrQ (@hexagon QS qle n m r s3 s0 s1 ns aa)
    | None => emalformed end
  | 23 :: rings :: pad :: rest =>   (* hex_segments: array size, segment numbers and shifts *)
    match pall (r <- pQ ;; g <- pQ ;; s3 <- pQ ;; rot <- pbool ;; drop <- plist pZ ;; pret (r, g, s3, rot, drop)) rest with
    | Some (r, g, s3, rot, drop) =>
        0 :: hex_size rings r g s3 pad ::
        elist (fun p : Z * (Qc * Qc) => fst p :: eQ (fst (snd p)) ++ eQ (snd (snd p)))
              (@hex_shifts QS rings r g s3 rot drop)
    | None => emalformed end
  | 25 :: n :: m :: rest =>   (* helper.mesh: the two coordinate grids *)
    match pall (s0 <- pQ ;; s1 <- pQ ;; co <- pQ ;; si <- pQ ;; pret (s0, s1, co, si)) rest with
    | Some (s0, s1, co, si) =>
        0 :: earrQ (@mkArr QS n m (fun i j => fst (@mesh_val QS n m s0 s1 co si i j)))
          ++ earrQ (@mkArr QS n m (fun i j => snd (@mesh_val QS n m s0 s1 co si i j)))
    | None => emalformed end
  | 26 :: n :: m :: rest =>   (* spider *)
    match pall (w <- pQ ;; s2 <- pQ ;; s0 <- pQ ;; s1 <- pQ ;; co <- pQ ;; si <- pQ ;; aa <- pbool ;;
                pret (w, s2, s0, s1, co, si, aa)) rest with
    | Some (w, s2, s0, s1, co, si, aa) => 0 :: earrQ (@spider QS qle n m w s2 s0 s1 co si aa)
    | None => emalformed end
  | 27 :: rest =>   (* rebin entry, 2-D: complex flag first *)
    match pall (cx <- pbool ;; a <- parrQ ;; f <- pZ ;; pret (cx, a, f)) rest with
    | Some (cx, a, f) => eresult earrQ (rebin2_entry cx a f)
    | None => emalformed end
  | 28 :: rest =>   (* rebin entry, cube *)
    match pall (cx <- pbool ;; c <- pcubeQ ;; f <- pZ ;; pret (cx, c, f)) rest with
    | Some (cx, c, f) => eresult ecubeQ (rebin3_entry cx c f)
    | None => emalformed end
  | 29 :: 0 :: s :: [] => 0 :: elist (fun z => [z]) (sanitize_shape (ShScalar s))
  | 29 :: 1 :: rest =>
    match pall (plist pZ) rest with
    | Some l => 0 :: elist (fun z => [z]) (sanitize_shape (ShSeq l))
    | None => emalformed end
  | 30 :: t :: [] =>   (* slice_offset on the Ellipsis forms *)
    eresult e2 (slice_offset_ell (if t =? 0 then EllBare else if t =? 1 then EllAll else EllOther))
  | 24 :: n :: m :: rest =>   (* a history of drawing calls on one array shape: the model has no state *)
    match pall (plist (pdraw n m)) rest with
    | Some l => 0 :: elist earrQ l
    | None => emalformed end
  | _ => emalformed
  end.

Definition run := run_c20.
Extraction "extracted/run_c20.ml" run.
