(* Dispatcher for C04: tilt bookkeeping on exact rationals.
   op 1  Field.shift of a tilt list (+ np.fix / sub-pixel split of the result)
   op 2  Plane.fit_tilt history: fit, then (add an OPD increment, fit)*
   op 3  tilt lists and shifts of the fields of several plane chains (Wavefront(tilt=) * planes ...),
         planes carrying either an explicit .tilt list or the result of a fit history
   op 4  the OPD ramp standing for Tilt(x=a, y=b) on an m x n plane
   op 5  the window propagate_dft evaluates for a field with a given tilt shift, and the shift handed to dft2
   op 6  the propagate_fft guard (NotImplementedError iff some field carries tilt bookkeeping) for several chains
   op 7  the entry of fit_tilt (plane kind, mask present, inplace): plane handed back and receiver afterwards
   op 8  DispersiveTilt's constructor: refused / first order (modelled) / higher order *)
From LV Require Import Extract.FieldCodec Model.Tilt.
Require Import ExtrOcamlBasic.

Definition parrq : parser (arr QS) :=
  n <- pZ ;; m <- pZ ;;
  if (n <? 0) || (m <? 0) then pfail else
  l <- prep (Z.to_nat (n * m)) pQ ;; pret (of_list (S := QS) n m l).
Definition earrq (a : arr QS) : list Z := nr a :: nc a :: flat_map eQ (tabulate a).

(* tilt elements by constructor arguments: 0 = Tilt(x, y), 1 = DispersiveTilt([t0, t1], [d0, d1]) with the
   value of sqrt(1 + t0^2) supplied *)
Definition ptilt_ctor : parser tilt :=
  t <- pZ ;;
  if t =? 0 then (x <- pQ ;; y <- pQ ;; pret (mk_tilt x y))
  else if t =? 1 then (a <- pQ ;; b <- pQ ;; c <- pQ ;; d <- pQ ;; s <- pQ ;; pret (TiltDisp a b c d s))
  else pfail.
Definition pps : parser (option (Qc * Qc)) := popt (ppair pQ pQ).
Definition pix : parser indexing :=
  t <- pZ ;; pret (if t =? 0 then IJ else if t =? 1 then XY else BadIndexing).
Definition pqplane : parser qplane :=
  ps <- pps ;; masks <- plist parrq ;; opd <- popt parrq ;; tl <- plist ptilt ;;
  pret (mkQPlane ps masks opd tl).

Definition eshift (s : Qc * Qc) : list Z :=
  let '(fr, subr) := fix_subpx (fst s) in
  let '(fc, subc) := fix_subpx (snd s) in
  eQ (fst s) ++ eQ (snd s) ++ [fr] ++ eQ subr ++ [fc] ++ eQ subc.
Definition eqplane (p : qplane) : list Z :=
  eopt earrq (qp_opd p) ++ elist etilt (qp_tilt p).

(* chain elements: 0 = Tilt/DispersiveTilt plane, 1 = plane with explicit tilt list,
   2 = plane whose tilt list results from a fit history *)
Definition pcelem : parser (result celem) :=
  t <- pZ ;;
  if t =? 0 then (x <- ptilt_ctor ;; pret (Ok (CTilt x)))
  else if t =? 1 then (size <- pnat ;; tl <- plist ptilt ;; pret (Ok (CPlane size tl)))
  else if t =? 2 then (p <- pqplane ;; ds <- plist parrq ;;
                       pret (rbind (fit_history p ds) (fun q => Ok (CPlane (length (qp_masks q)) (qp_tilt q)))))
  else pfail.
Fixpoint rseq {A} (l : list (result A)) : result (list A) :=
  match l with
  | [] => Ok []
  | x :: r => rbind x (fun a => rbind (rseq r) (fun t => Ok (a :: t)))
  end.
Fixpoint rmap {A B} (f : A -> result B) (l : list A) : result (list B) :=
  match l with
  | [] => Ok []
  | x :: r => rbind (f x) (fun a => rbind (rmap f r) (fun t => Ok (a :: t)))
  end.

Definition run (inp : list Z) : list Z :=
  match inp with
  | 1 :: rest =>
    match pall (tl <- plist ptilt_ctor ;; z <- pQ ;; wl <- pQ ;; ps <- pps ;; os <- pQ ;; ix <- pix ;;
                pret (tl, z, wl, ps, os, ix)) rest with
    | Some (tl, z, wl, ps, os, ix) => eresult (fun s => elist etilt tl ++ eshift s) (field_shift tl z wl ps os ix)
    | None => emalformed end
  | 2 :: rest =>
    match pall (ppair pqplane (plist parrq)) rest with
    | Some (p, ds) => eresult eqplane (fit_history p ds)
    | None => emalformed end
  | 3 :: rest =>
    match pall (z <- pQ ;; wl <- pQ ;; ps <- pps ;; os <- pQ ;;
                cs <- plist (ppair (popt (plist pQ)) (plist pcelem)) ;; pret (z, wl, ps, os, cs)) rest with
    | Some (z, wl, ps, os, cs) =>
        0 :: elist (fun c : option (list Qc) * list (result celem) =>
          eresult (elist (fun x => x))
            (rbind (wavefront_tilt (fst c)) (fun w0 =>
             rbind (rseq (snd c)) (fun es' =>
             rmap (fun tl => rbind (field_shift tl z wl ps os IJ) (fun s => Ok (elist etilt tl ++ eshift s)))
                  (chain_tilts w0 es'))))) cs
    | None => emalformed end
  | 4 :: rest =>
    match pall (a <- pQ ;; b <- pQ ;; dxr <- pQ ;; dxc <- pQ ;; m <- pZ ;; n <- pZ ;; pret (a, b, dxr, dxc, m, n)) rest with
    | Some (a, b, dxr, dxc, m, n) =>
        if (m <? 0) || (n <? 0) then emalformed else
        0 :: earrq (mkArr (S := QS) m n (fun i j => opd_ramp a b dxr dxc (i - m / 2) (j - n / 2)))
    | None => emalformed end
  | 5 :: rest =>
    match pall (e <- pextent ;; pr <- pZ ;; pc <- pZ ;; sr <- pQ ;; sc <- pQ ;; pret (e, pr, pc, sr, sc)) rest with
    | Some (e, pr, pc, sr, sc) =>
        0 :: eopt (fun w : (Z * Z) * (Z * Z) * (Qc * Qc) =>
                     let '((ir, ic), (isr, isc), (shr, shc)) := w in [ir; ic; isr; isc] ++ eQ shr ++ eQ shc)
                  (tilted_window e pr pc sr sc)
    | None => emalformed end
  | 6 :: rest =>   (* propagate_fft guard for several chains *)
    match pall (plist (ppair (popt (plist pQ)) (plist pcelem))) rest with
    | Some cs =>
        0 :: elist (fun c : option (list Qc) * list (result celem) =>
          eresult (fun _ : unit => [])
            (rbind (wavefront_tilt (fst c)) (fun w0 =>
             rbind (rseq (snd c)) (fun es' => fft_guard (chain_tilts w0 es')))) ) cs
    | None => emalformed end
  | 7 :: rest =>   (* the entry of fit_tilt: plane kind, has a 2-d mask, inplace, the plane *)
    match pall (k <- pZ ;; hm <- pbool ;; ip <- pbool ;; p <- pqplane ;; pret (k, hm, ip, p)) rest with
    | Some (k, hm, ip, p) =>
        eresult (fun qr : qplane * qplane => eqplane (fst qr) ++ eqplane (snd qr))
          (fit_tilt_call (if k =? 0 then KPlane else if k =? 1 then KPupil else KImage) hm ip p)
    | None => emalformed end
  | 8 :: rest =>   (* DispersiveTilt constructor *)
    match pall (tr <- plist pQ ;; di <- plist pQ ;; root <- pQ ;; pret (tr, di, root)) rest with
    | Some (tr, di, root) =>
        0 :: match mk_disp tr di root with
             | DispRefused => [0]
             | DispFirst t => 1 :: etilt t
             | DispHigher => [2]
             end
    | None => emalformed end
  | _ => emalformed
  end.

Extraction "extracted/run_c04.ml" run.
