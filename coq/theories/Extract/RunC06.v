(* Dispatcher for C06: run the Field/extent model on an encoded case. *)
From LV Require Import Extract.FieldCodec Model.FieldApi.
Require Import ExtrOcamlBasic.

Definition L1 := 1%nat.
Definition S1 := GRS L1.

Definition ppx : parser px :=
  t <- pZ ;;
  if t =? 0 then pret PxNone else if t =? 1 then (q <- pQ ;; pret (PxS q))
  else if t =? 2 then (a <- pQ ;; b <- pQ ;; pret (PxP a b)) else pfail.
Definition epx (p : px) : list Z :=
  match p with PxNone => [0] | PxS q => 1 :: eQ q | PxP a b => 2 :: eQ a ++ eQ b end.
Definition epfield (fp : pxfield S1) : list Z := efield L1 (fst fp) ++ epx (snd fp).

Definition run_c06 (inp : list Z) : list Z :=
  match inp with
  | 11 :: rest =>  (* merge(a, b, enforce_overlap) on Fields carrying a pixelscale *)
    match pall (a <- pfield L1 ;; pa <- ppx ;; b <- pfield L1 ;; pb <- ppx ;; e <- pbool ;; pret (a, pa, b, pb, e)) rest with
    | Some (a, pa, b, pb, e) => eresult epfield (merge_pub (a, pa) (b, pb) e)
    | None => emalformed end
  | 12 :: rest =>  (* overlap(fields) *)
    match pall (plist (pfield L1)) rest with
    | Some fs => [0; if overlap fs then 1 else 0]
    | None => emalformed end
  | 13 :: rest =>  (* _merge(fields) with the pixelscale check; the empty collection included *)
    match pall (plist (ppair (pfield L1) ppx)) rest with
    | Some fs => eresult epfield (merge_px fs)
    | None => emalformed end
  | 14 :: rest =>  (* array_extent(shape, shift, parent_shape) for shapes of any length *)
    match pall (sh <- plist pZ ;; r <- pZ ;; c <- pZ ;; p <- popt (ppair pZ pZ) ;; pret (sh, r, c, p)) rest with
    | Some (sh, r, c, p) => 0 :: eextent (array_extent_any sh r c p)
    | None => emalformed end
  | 15 :: rest =>  (* Field attributes: shape, size, extent *)
    match pall (pfield L1) rest with
    | Some f => 0 :: eopt (fun '(x, y) => [x; y]) (fshape f) ++ [fsize f] ++ eextent (fextent f)
    | None => emalformed end
  | 1 :: rest =>   (* a * b *)
    match pall (ppair (pfield L1) (pfield L1)) rest with
    | Some (a, b) => 0 :: eopt (efield L1) (fmul a b)
    | None => emalformed end
  | 2 :: rest =>   (* _merge *)
    match pall (plist (pfield L1)) rest with
    | Some fs => 0 :: efield L1 (merge fs)
    | None => emalformed end
  | 3 :: rest =>   (* reduce *)
    match pall (plist (pfield L1)) rest with
    | Some fs => 0 :: elist (efield L1) (reduce fs)
    | None => emalformed end
  | 4 :: rest =>   (* insert(field, out, intensity, weight) *)
    match pall (f <- pfield L1 ;; o <- parr L1 ;; i <- pbool ;; w <- pK L1 ;; pret (f, o, i, w)) rest with
    | Some (f, o, i, w) => eresult (earr L1) (insert (if i then norm2 else fun x => x) f o w)
    | None => emalformed end
  | 5 :: rest =>   (* extent queries *)
    match pall (ppair pextent pextent) rest with
    | Some (a, b) =>
        let '(((ar0, ar1), (ac0, ac1)), ((br0, br1), (bc0, bc1))) := intersection_slices a b in
        0 :: (if intersect a b then 1 else 0)
          :: eopt (fun '(x, y) => [x; y]) (intersection_shape a b)
          ++ eextent (intersection_extent a b)
          ++ [ar0; ar1; ac0; ac1; br0; br1; bc0; bc1]
          ++ (let '(x, y) := intersection_shift a b in [x; y])
          ++ (let '(x, y) := array_center a in [x; y])
    | None => emalformed end
  | 6 :: sr :: sc :: shr :: shc :: [] => 0 :: eextent (array_extent sr sc shr shc)
  | 7 :: rest =>   (* boundary *)
    match pall (plist (pfield L1)) rest with
    | Some fs => 0 :: eextent (boundary fs)
    | None => emalformed end
  | 8 :: n :: m :: rest =>   (* Wavefront.field *)
    match pall (plist (pfield L1)) rest with
    | Some fs => eresult (earr L1) (render fs n m)
    | None => emalformed end
  | 9 :: n :: m :: rest =>   (* Wavefront.intensity *)
    match pall (plist (pfield L1)) rest with
    | Some fs => eresult (earr L1) (intensity fs n m)
    | None => emalformed end
  | _ => emalformed
  end.

(* op 10: a history - k length-prefixed inputs of the operations above, evaluated one by one (every
   operation is a pure function of its arguments: the k-th result does not depend on the calls before it);
   the outputs are returned length-prefixed *)
Fixpoint run_batch (fuel : nat) (l : list Z) : option (list Z) :=
  match fuel with
  | O => match l with [] => Some [] | _ => None end
  | Datatypes.S k =>
      match l with
      | [] => Some []
      | len :: rest =>
          if len <? 0 then None else
          let n := Z.to_nat len in
          if Nat.ltb (length rest) n then None else
          let out := run_c06 (firstn n rest) in
          match run_batch k (skipn n rest) with
          | Some r => Some (Z.of_nat (length out) :: out ++ r)
          | None => None
          end
      end
  end.

Definition run (inp : list Z) : list Z :=
  match inp with
  | 10 :: rest => match run_batch (length rest) rest with Some r => 0 :: r | None => emalformed end
  | _ => run_c06 inp
  end.
Extraction "extracted/run_c06.ml" run.
