(* Dispatcher for C18: run the stochastic-model functions of Model/Noise.v on an encoded case.
   Arrays are over the rationals: nr nc then row-major (numerator, denominator) pairs. *)
From LV Require Import Lib.Codec Model.Noise.
Require Import ExtrOcamlBasic.

Definition parrQ : parser (arr QS) :=
  n <- pZ ;; m <- pZ ;;
  if (n <? 0) || (m <? 0) then pfail else
  l <- prep (Z.to_nat (n * m)) pQ ;; pret (@of_list QS n m l).
Definition earrQ (a : arr QS) : list Z := nr a :: nc a :: flat_map eQ (tabulate a).
Definition earrZ (a : arr ZS) : list Z := nr a :: nc a :: tabulate a.

Definition eshot (r : shot_result) : list Z :=
  match r with
  | ShotOk f => 0 :: earrZ f
  | ShotErr e m => [1; errcode e; match m with MsgNegative => 1 | MsgTooLarge => 2 end]
  end.

Definition pdeposit : parser (deposit QS) :=
  r <- pZ ;; c <- pZ ;; f <- pQ ;; d <- pQ ;; pret (@mkDep QS r c f d).

Definition Qisz (x : QS) : bool := Qc_eq_bool x 0%Qc.

Definition run_one (inp : list Z) : list Z :=
  match inp with
  | 1 :: rest =>      (* shot_noise, method='poisson': img, draw *)
    match pall (ppair parrQ parrQ) rest with
    | Some (img, draw) => eshot (shot_poisson img draw)
    | None => emalformed end
  | 2 :: rest =>      (* shot_noise, method='gaussian': upper_guard, img, draw *)
    match pall (g <- pbool ;; i <- parrQ ;; d <- parrQ ;; pret (g, i, d)) rest with
    | Some (g, img, draw) => eshot (shot_gaussian g img draw)
    | None => emalformed end
  | 3 :: rest =>      (* read_noise: img, draw *)
    match pall (ppair parrQ parrQ) rest with
    | Some (img, draw) => 0 :: earrQ (read_noise img draw)
    | None => emalformed end
  | 4 :: rest =>      (* dark_current: rate, n, m, fpn_factor, draw *)
    match pall (r <- pQ ;; n <- pZ ;; m <- pZ ;; f <- pQ ;; d <- parrQ ;; pret (r, n, m, f, d)) rest with
    | Some (r, n, m, f, d) => 0 :: earrZ (dark_current r n m f d)
    | None => emalformed end
  | 5 :: rest =>      (* power_spectrum after the filtered draw: filt, mask, rms, value of np.sqrt(count/ss) *)
    match pall (f <- parrQ ;; k <- parrQ ;; r <- pQ ;; s <- pQ ;; pret (f, k, r, s)) rest with
    | Some (f, k, r, s) =>
        let opd := force (ps_opd f k) in
        0 :: ps_count Qisz opd :: eQ (ps_ss opd)
          ++ eopt earrQ (power_spectrum_post Qisz (fun _ _ => s) f k r)
    | None => emalformed end
  | 6 :: n :: m :: rest =>      (* cosmic_rays accumulation: shape, deposits per ray *)
    match pall (plist (plist pdeposit)) rest with
    | Some rays => eresult earrQ (cosmic_rays n m rays)
    | None => emalformed end
  | _ => emalformed
  end.

(* a call sequence: [len_1; case_1...; len_2; case_2...; ...] -> [len(out_1); out_1...; len(out_2); ...]
   (the model has no state: every call of a sequence is answered on its own) *)
Fixpoint run_batch (fuel : nat) (inp : list Z) : option (list Z) :=
  match inp with
  | [] => Some []
  | len :: rest =>
    match fuel with
    | O => None
    | Datatypes.S f =>
      if len <? 0 then None else
      let n := Z.to_nat len in
      if (length rest <? n)%nat then None else
      let out := run_one (firstn n rest) in
      match run_batch f (skipn n rest) with
      | Some r => Some (Z.of_nat (length out) :: out ++ r)
      | None => None
      end
    end
  end.

Definition run_c18 (inp : list Z) : list Z :=
  match inp with
  | 7 :: rest => match run_batch (length rest) rest with Some r => 0 :: r | None => emalformed end
  | _ => run_one inp
  end.

Definition run := run_c18.
Extraction "extracted/run_c18.ml" run.
