(* Dispatcher for C18: run the stochastic-model functions of Model/Noise.v on an encoded case.
   Arrays are over the rationals: nr nc then row-major (numerator, denominator) pairs. *)
From LV Require Import Lib.Codec Model.Noise Model.NoiseEntry.
Require Import ExtrOcamlBasic.

Definition parrQ : parser (arr QS) :=
  n <- pZ ;; m <- pZ ;;
  if (n <? 0) || (m <? 0) then pfail else
  l <- prep (Z.to_nat (n * m)) pQ ;; pret (@of_list QS n m l).
Definition earrQ (a : arr QS) : list Z := nr a :: nc a :: flat_map eQ (tabulate a).
Definition earrZ (a : arr ZS) : list Z := nr a :: nc a :: tabulate a.

Definition eshot (r : shot_result) : list Z :=
  match r with
  | ShotOk f => 0 :: earrZ f
  | ShotErr e m => [1; errcode e; match m with MsgNegative => 1 | MsgTooLarge => 2 end]
  end.

Definition pdeposit : parser (deposit QS) :=
  r <- pZ ;; c <- pZ ;; f <- pQ ;; d <- pQ ;; pret (@mkDep QS r c f d).

Definition Qisz (x : QS) : bool := Qc_eq_bool x 0%Qc.

(* ---- entry points (Model/NoiseEntry.v) ---- *)
Definition pseed : parser seed :=
  t <- pZ ;;
  if t =? 0 then z <- pZ ;; pret (SeedInt z)
  else if t =? 1 then l <- plist pZ ;; pret (SeedList l)
  else pret SeedFloat.
Definition pshape : parser shape_arg :=
  t <- pZ ;; if t =? 0 then k <- pZ ;; pret (ShapeInt k) else l <- plist pZ ;; pret (ShapeDims l).
Definition qnth (l : list Qc) (k : Z) : Qc := if k <? 0 then 0%Qc else nth (Z.to_nat k) l 0%Qc.
Definition enframe (f : nframe) : list Z :=
  let n := numel (fdims f) in
  elist (fun d => [d]) (fdims f) ++ map (fun k => fget f (Z.of_nat k)) (seq 0 (Z.to_nat n)).
Definition pray : parser (@ray QS) :=
  u <- pQ ;; segs <- plist (r <- pZ ;; c <- pZ ;; d <- pQ ;; pret (r, c, d)) ;; pret (@mkRay QS u segs).
Definition Qgt09 (u : QS) : bool := Qcltb (Q2Qc (9 # 10)) u.

Definition run_entry (inp : list Z) : option (list Z) :=
  match inp with
  | 8 :: rest =>      (* shot_noise entry: method string, seed, img, draw *)
    match pall (m <- plist pZ ;; s <- pseed ;; i <- parrQ ;; d <- parrQ ;; pret (m, s, i, d)) rest with
    | Some (m, s, img, draw) => Some (eresult earrZ (shot_noise_entry (fun _ _ => draw) img img m s))
    | None => Some emalformed end
  | 9 :: rest =>      (* read_noise entry: seed, img, electrons, draw *)
    match pall (s <- pseed ;; i <- parrQ ;; e <- pQ ;; d <- parrQ ;; pret (s, i, e, d)) rest with
    | Some (s, img, e, draw) => Some (eresult earrQ (read_noise_entry (fun _ _ => draw) img e s))
    | None => Some emalformed end
  | 10 :: rest =>     (* dark_current entry: rate, shape form, fpn_factor, seed, flat draw *)
    match pall (r <- pQ ;; sh <- pshape ;; f <- pQ ;; s <- pseed ;; d <- plist pQ ;; pret (r, sh, f, s, d)) rest with
    | Some (r, sh, f, s, d) => Some (eresult enframe (dark_current_entry (fun _ _ => qnth d) r sh f s))
    | None => Some emalformed end
  | 11 :: rest =>     (* power_spectrum entry: seed, mask.shape, filt, mask, rms, value of np.sqrt(count/ss) *)
    match pall (s <- pseed ;; dm <- plist pZ ;; f <- parrQ ;; k <- parrQ ;; r <- pQ ;; v <- pQ ;; pret (s, dm, f, k, r, v)) rest with
    | Some (s, dm, f, k, r, v) =>
        Some (eresult (eopt earrQ) (power_spectrum_entry Qisz (fun _ _ => v) (fun _ => f) dm k r s))
    | None => Some emalformed end
  | 12 :: n :: m :: rest =>     (* cosmic_rays entry: x, u, fluxes, candidate rays *)
    match pall (x <- pQ ;; u <- pQ ;; a <- pQ ;; p <- pQ ;; rs <- plist pray ;; pret (x, u, a, p, rs)) rest with
    | Some (x, u, a, p, rs) =>
        let '(fr, draws) := cosmic_rays_entry (S := QS) Qgt09 n m x u a p rs in
        Some (eresult earrQ fr ++ [draws; nrays x u])
    | None => Some emalformed end
  | _ => None
  end.

Definition run_kernel (inp : list Z) : list Z :=
  match inp with
  | 1 :: rest =>      (* shot_noise, method='poisson': img, draw *)
    match pall (ppair parrQ parrQ) rest with
    | Some (img, draw) => eshot (shot_poisson img draw)
    | None => emalformed end
  | 2 :: rest =>      (* shot_noise, method='gaussian': upper_guard, img, draw *)
    match pall (g <- pbool ;; i <- parrQ ;; d <- parrQ ;; pret (g, i, d)) rest with
    | Some (g, img, draw) => eshot (shot_gaussian g img draw)
    | None => emalformed end
  | 3 :: rest =>      (* read_noise: img, draw *)
    match pall (ppair parrQ parrQ) rest with
    | Some (img, draw) => 0 :: earrQ (read_noise img draw)
    | None => emalformed end
  | 4 :: rest =>      (* dark_current: rate, n, m, fpn_factor, draw *)
    match pall (r <- pQ ;; n <- pZ ;; m <- pZ ;; f <- pQ ;; d <- parrQ ;; pret (r, n, m, f, d)) rest with
    | Some (r, n, m, f, d) => 0 :: earrZ (dark_current r n m f d)
    | None => emalformed end
  | 5 :: rest =>      (* power_spectrum after the filtered draw: filt, mask, rms, value of np.sqrt(count/ss) *)
    match pall (f <- parrQ ;; k <- parrQ ;; r <- pQ ;; s <- pQ ;; pret (f, k, r, s)) rest with
    | Some (f, k, r, s) =>
        let opd := force (ps_opd f k) in
        0 :: ps_count Qisz opd :: eQ (ps_ss opd)
          ++ eopt earrQ (power_spectrum_post Qisz (fun _ _ => s) f k r)
    | None => emalformed end
  | 6 :: n :: m :: rest =>      (* cosmic_rays accumulation: shape, deposits per ray *)
    match pall (plist (plist pdeposit)) rest with
    | Some rays => eresult earrQ (cosmic_rays n m rays)
    | None => emalformed end
  | _ => emalformed
  end.

Definition run_one (inp : list Z) : list Z :=
  match run_entry inp with Some r => r | None => run_kernel inp end.

(* a call sequence: [len_1; case_1...; len_2; case_2...; ...] -> [len(out_1); out_1...; len(out_2); ...]
   (the model has no state: every call of a sequence is answered on its own) *)
Fixpoint run_batch (fuel : nat) (inp : list Z) : option (list Z) :=
  match inp with
  | [] => Some []
  | len :: rest =>
    match fuel with
    | O => None
    | Datatypes.S f =>
      if len <? 0 then None else
      let n := Z.to_nat len in
      if (length rest <? n)%nat then None else
      let out := run_one (firstn n rest) in
      match run_batch f (skipn n rest) with
      | Some r => Some (Z.of_nat (length out) :: out ++ r)
      | None => None
      end
    end
  end.

Definition run_c18 (inp : list Z) : list Z :=
  match inp with
  | 7 :: rest => match run_batch (length rest) rest with Some r => 0 :: r | None => emalformed end
  | _ => run_one inp
  end.

Definition run := run_c18.
Extraction "extracted/run_c18.ml" run.
