(* Dispatcher for C17: Plane.rescale (op 1) and Plane.resample (op 2) on exact rationals; op 3 = a history:
   count, then (op q plane)* - every call is evaluated on the plane's attributes AT THAT MOMENT (the model has no
   state), output = 0 :: concatenation of the individual results.
   input : op, q (scale | new pixelscale), amplitude fld, opd fld, mask msk, pixelscale option
   fld   : 0 q | 1 arr          msk : 0 q | 1 arr | 2 count arr*          arr : isint nr nc q*
   output: 0 :: ofld ofld omsk psopt   with  oarr = nr nc samp*,  samp = 0 num den | 1 (NonZero) | 2 (Unknown) *)
From LV Require Import Lib.Codec Model.Rescale.
Require Import ExtrOcamlBasic.

Fixpoint chunks (n : nat) (m : nat) (l : list Qc) : list (list Qc) :=
  match n with O => [] | Datatypes.S k => firstn m l :: chunks k m (skipn m l) end.

Definition qarr_of (isint : bool) (n m : Z) (l : list Qc) : qarr :=
  let rows := chunks (Z.to_nat n) (Z.to_nat m) l in
  mkQ n m (fun i j => if inr n i && inr m j then nth (Z.to_nat j) (nth (Z.to_nat i) rows []) (Q2Qc 0) else Q2Qc 0) isint.

Definition pqarr : parser qarr :=
  t <- pbool ;; n <- pZ ;; m <- pZ ;;
  if (n <? 0) || (m <? 0) then pfail else
  l <- prep (Z.to_nat (n * m)) pQ ;; pret (qarr_of t n m l).
Definition pfld : parser fld :=
  t <- pZ ;; if t =? 0 then (v <- pQ ;; pret (FScalar v)) else (a <- pqarr ;; pret (FArr a)).
Definition pmsk : parser msk :=
  t <- pZ ;; if t =? 0 then (v <- pQ ;; pret (MScalar v))
  else if t =? 1 then (a <- pqarr ;; pret (MMono a))
  else (l <- plist pqarr ;; pret (MCube l)).
Definition pplane : parser plane :=
  a <- pfld ;; o <- pfld ;; m <- pmsk ;; ps <- popt (ppair pQ pQ) ;; t <- plist (ppair pQ pQ) ;; pret (mkPlane a o m ps t).

Definition esamp (x : samp) : list Z :=
  match x with Known v => 0 :: eQ v | NonZero => [1] | Unknown => [2] end.
Definition orows (n m : nat) (g : Z -> Z -> samp) : list samp :=
  flat_map (fun i => map (fun j => g (Z.of_nat i) (Z.of_nat j)) (seq 0 m)) (seq 0 n).
Definition eoarr (a : oarr) : list Z :=
  onr a :: onc a :: flat_map esamp (orows (Z.to_nat (onr a)) (Z.to_nat (onc a)) (oget a)).
Definition eofld (f : ofld) : list Z := match f with OScalar v => 0 :: eQ v | OArr a => 1 :: eoarr a end.
Definition eomsk (m : omsk) : list Z := match m with OMono a => 1 :: eoarr a | OCube l => 2 :: elist eoarr l end.
Definition eoplane (P : oplane) : list Z :=
  eofld (o_amp P) ++ eofld (o_opd P) ++ eomsk (o_mask P) ++ eopt (fun p => eQ (fst p) ++ eQ (snd p)) (o_ps P)
  ++ elist (fun p => eQ (fst p) ++ eQ (snd p)) (o_tilt P)
  ++ elist (fun b => match b with (r0, r1, c0, c1) => [r0; r1; c0; c1] end) (o_slice P).

Definition call (op : Z) (q : Qc) (P : plane) : list Z :=
  if op =? 1 then eresult eoplane (plane_rescale P q)
  else if op =? 2 then eresult eoplane (plane_resample P q)
  else emalformed.

Definition pstep : parser (Z * Qc * plane) := op <- pZ ;; q <- pQ ;; P <- pplane ;; pret (op, q, P).

(* op 4: lentil.rescale(img, scale, shape, mask, order, mode, unitary) called directly.
   input: order (0 = (3,'nearest'), 1 = (0,'constant')), scale, img arr, shape (0 | 1 a | 2 a b),
          mask (0 = None | 1 arr eps), unitary flag *)
Definition pshape : parser shapearg :=
  t <- pZ ;; if t =? 0 then pret ShNone else if t =? 1 then (a <- pZ ;; pret (ShScalar a)) else (a <- pZ ;; b <- pZ ;; pret (ShPair a b)).
Definition ppm : parser (option (qarr * Qc)) :=
  t <- pZ ;; if t =? 0 then pret None else (a <- pqarr ;; e <- pQ ;; pret (Some (a, e))).
Definition run_util (rest : list Z) : list Z :=
  match pall (o <- pZ ;; q <- pQ ;; img <- pqarr ;; sh <- pshape ;; pm <- ppm ;; u <- pbool ;; pret (o, q, img, sh, pm, u)) rest with
  | Some (o, q, img, sh, pm, u) =>
      eresult eoarr (rescale_gen (if o =? 0 then Cubic else Nearest0) img q sh pm u)
  | None => emalformed
  end.

Definition run (inp : list Z) : list Z :=
  match inp with
  | op :: rest =>
    if op =? 4 then run_util rest else
    if op =? 3 then
      match pall (plist pstep) rest with
      | Some steps =>
          if forallb (fun x => match x with (o, _, _) => (o =? 1) || (o =? 2) end) steps
          then 0 :: flat_map (fun x => match x with (o, q, P) => call o q P end) steps
          else emalformed
      | None => emalformed
      end
    else
    match pall (q <- pQ ;; P <- pplane ;; pret (q, P)) rest with
    | Some (q, P) => call op q P
    | None => emalformed
    end
  | _ => emalformed
  end.

Extraction "extracted/run_c17.ml" run.
