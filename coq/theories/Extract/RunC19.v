(* Dispatcher for C19.  Ops 1-3: the complex array ifft2(fft2 img * kernel) of pixel / jitter / smear on the group
   ring Q(i)[C_L] (the case supplies L = lcm(rows, cols)); the values of sinc / gauss come from a table
   (argument, value) supplied by the harness, a missing argument poisons the result.  Op 4: the renormalisation
   out * sum(img) / sum(out) on the rationals; op 5: the same as executed: out itself when sum(out) = 0.  The absolute value between the two stages is taken by the harness. *)
From LV Require Import Lib.Codec Model.Blur Model.BlurEntry.
Require Import ExtrOcamlBasic.

(* equality of canonical rationals: numerators and denominators coincide *)
Definition qc_eqb (a b : Qc) : bool := Z.eqb (Qnum (this a)) (Qnum (this b)) && Pos.eqb (Qden (this a)) (Qden (this b)).

Fixpoint lookup (L : nat) (tbl : list (Qc * Qc)) (q : Qc) : GRS L :=
  match tbl with
  | [] => []
  | (k, v) :: r => if qc_eqb k q then gofq L v else lookup L r q
  end.

Definition ptable : parser (list (Qc * Qc)) := plist (ppair pQ pQ).

Definition parrq : parser (arr QS) :=
  n <- pZ ;; m <- pZ ;;
  if (n <? 0) || (m <? 0) then pfail else
  l <- prep (Z.to_nat (n * m)) pQ ;; pret (of_list (S := QS) n m l).
Definition earrq (a : arr QS) : list Z := nr a :: nc a :: flat_map eQ (tabulate a).

Definition nobody (L : nat) : Qc -> GRS L := fun _ => [].

Definition run (inp : list Z) : list Z :=
  match inp with
  | op :: rest0 =>
    if op =? 4 then
      match pall (o <- parrq ;; i <- parrq ;; pret (o, i)) rest0 with
      | Some (o, i) => 0 :: earrq (renorm (S := QS) Qcinv o i)
      | None => emalformed end
    else if op =? 5 then
      match pall (o <- parrq ;; i <- parrq ;; pret (o, i)) rest0 with
      | Some (o, i) => 0 :: earrq (renorm_checked (S := QS) (fun q : Qc => qc_eqb q 0%Qc) Qcinv o i)
      | None => emalformed end
    else
    match rest0 with
    | Lz :: rest =>
      if Lz <=? 0 then emalformed else
      let L := Z.to_nat Lz in
      if op =? 1 then
        match pall (f <- parr L ;; os <- pQ ;; t <- ptable ;; pret (f, os, t)) rest with
        | Some (f, os, t) =>
            0 :: earr L (conv (pixel_mul (lookup L t) os (nr f) (nc f)) f)
        | None => emalformed end
      else if op =? 2 then
        match pall (f <- parr L ;; sc <- pQ ;; ps <- pQ ;; os <- pQ ;; t <- ptable ;; pret (f, sc, ps, os, t)) rest with
        | Some (f, sc, ps, os, t) =>
            0 :: earr L (conv (jitter_mul (lookup L t) sc ps os (nr f) (nc f)) f)
        | None => emalformed end
      else if op =? 3 then
        match pall (f <- parr L ;; d <- pQ ;; sn <- pQ ;; cs <- pQ ;; ps <- pQ ;; os <- pQ ;; t <- ptable ;;
                    pret (f, d, sn, cs, ps, os, t)) rest with
        | Some (f, d, sn, cs, ps, os, t) =>
            0 :: earr L (conv (smear_mul (lookup L t) d sn cs ps os (nr f) (nc f)) f)
        | None => emalformed end
      else emalformed
    | _ => emalformed
    end
  | _ => emalformed
  end.

Extraction "extracted/run_c19.ml" run.
