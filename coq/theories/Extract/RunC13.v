(* Dispatcher for C13: Spectrum arithmetic on exact rationals. *)
From LV Require Import Lib.Codec Model.Spectrum.
Require Import ExtrOcamlBasic.
Open Scope Z_scope.

Definition pwunit : parser wunit :=
  t <- pZ ;; if t =? 0 then pret UM else if t =? 1 then pret UUm else if t =? 2 then pret UNm
             else if t =? 3 then pret UAng else pfail.
Definition pvunit : parser vunit :=
  t <- pZ ;; if t =? 0 then pret VNone else if t =? 1 then pret VPhotlam else if t =? 2 then pret VFlam
             else if t =? 3 then pret VWlam else pfail.
Definition pbinop : parser binop :=
  t <- pZ ;; if t =? 0 then pret OAdd else if t =? 1 then pret OSub else if t =? 2 then pret OMul
             else if t =? 3 then pret ODiv else if t =? 4 then pret OPow else pfail.
Definition psampling : parser sampling :=
  t <- pZ ;; if t =? 0 then pret SMin else if t =? 1 then pret SLeft else if t =? 2 then pret SRight
             else if t =? 3 then (d <- pQ ;; pret (SNum d)) else pfail.
Definition pfill : parser fillv :=
  t <- pZ ;; if t =? 0 then (c <- pQ ;; pret (FScalar c))
             else if t =? 1 then (a <- pQ ;; b <- pQ ;; pret (FPair a b)) else pfail.
(* a spectrum as the constructor receives it: unit, valueunit, wave, value *)
Definition pspec : parser (result spectrum) :=
  u <- pwunit ;; y <- pvunit ;; w <- plist pQ ;; v <- plist pQ ;; pret (mk_spectrum w v u y).

Definition pmeth : parser meth :=
  t <- pZ ;; if t =? 0 then pret MLinear else if t =? 1 then pret MQuadratic else if t =? 2 then pret MCubic
             else if t =? 3 then pret MUnknown else pfail.
Definition psarg : parser sampling_arg :=
  t <- pZ ;; if t =? 4 then pret ABadStr else if t =? 5 then pret ABadOther
             else if t =? 0 then pret (AOk SMin) else if t =? 1 then pret (AOk SLeft) else if t =? 2 then pret (AOk SRight)
             else if t =? 3 then (d <- pQ ;; pret (AOk (SNum d))) else pfail.

Definition ewunit (u : wunit) : Z := match u with UM => 0 | UUm => 1 | UNm => 2 | UAng => 3 end.
Definition evunit (u : vunit) : Z := match u with VNone => 0 | VPhotlam => 1 | VFlam => 2 | VWlam => 3 end.
Definition exval (x : xval) : list Z :=
  match x with XQ q => 0 :: eQ q | XNonFinite => [1] | XUnmodelled => [2] end.
Definition erspec (r : rspectrum) : list Z :=
  ewunit (rwu r) :: evunit (rvu r) :: elist eQ (rwave r) ++ elist exval (rvalue r).
Definition espec (s : spectrum) : list Z :=
  ewunit (wu s) :: evunit (vu s) :: elist eQ (wave s) ++ elist eQ (value s).

Definition run (inp : list Z) : list Z :=
  match inp with
  | op :: rest =>
    if op =? 1 then
      match pall (o <- pbinop ;; m <- psampling ;; f <- pfill ;; s1 <- pspec ;; s2 <- pspec ;;
                  pret (o, m, f, s1, s2)) rest with
      | Some (o, m, f, s1, s2) =>
          eresult erspec (rbind s1 (fun a => rbind s2 (fun b => ufunc o a (PSpectrum b) m f)))
      | None => emalformed end
    else if op =? 2 then
      match pall (refl <- pbool ;; o <- pbinop ;; s <- pspec ;; c <- pQ ;; pret (refl, o, s, c)) rest with
      | Some (refl, o, s, c) =>
          eresult erspec (rbind s (fun a => (if refl then rdunder else dunder) o a (PScalar c)))
      | None => emalformed end
    else if op =? 3 then
      match pall (refl <- pbool ;; o <- pbinop ;; s <- pspec ;; l <- plist pQ ;; pret (refl, o, s, l)) rest with
      | Some (refl, o, s, l) =>
          eresult erspec (rbind s (fun a => (if refl then rdunder else dunder) o a (PVector l)))
      | None => emalformed end
    else if op =? 4 then
      match pall (refl <- pbool ;; o <- pbinop ;; s <- pspec ;; pret (refl, o, s)) rest with
      | Some (refl, o, s) =>
          eresult erspec (rbind s (fun a => (if refl then rdunder else dunder) o a POther))
      | None => emalformed end
    else if op =? 5 then
      match pall pspec rest with
      | Some s => eresult espec s
      | None => emalformed end
    else if op =? 6 then
      match pall (u <- pwunit ;; f <- pfill ;; s <- pspec ;; l <- plist pQ ;; pret (u, f, s, l)) rest with
      | Some (u, f, s, l) => eresult (elist eQ) (rbind s (fun a => Ok (sample a l f u)))
      | None => emalformed end
    else if op =? 7 then
      (* the named methods with every argument form: method kind, sampling form, fill value *)
      match pall (mt <- pmeth ;; o <- pbinop ;; a <- psarg ;; f <- pfill ;; s1 <- pspec ;; s2 <- pspec ;;
                  pret (mt, o, a, f, s1, s2)) rest with
      | Some (mt, o, a, f, s1, s2) =>
          eresult erspec (rbind s1 (fun x => rbind s2 (fun y => method_call mt o x (PSpectrum y) a f)))
      | None => emalformed end
    else if op =? 9 then
      (* Spectrum.sample with every argument form: method kind, fill form (0 number, 1 pair, 2 unusable shape) *)
      match pall (mt <- pmeth ;; u <- pwunit ;;
                  fa <- (t <- pZ ;; if t =? 0 then (c <- pQ ;; pret (FOk (FScalar c)))
                                    else if t =? 1 then (a <- pQ ;; b <- pQ ;; pret (FOk (FPair a b)))
                                    else if t =? 2 then pret FBadShape else pfail) ;;
                  s <- pspec ;; l <- plist pQ ;; pret (mt, u, fa, s, l)) rest with
      | Some (mt, u, fa, s, l) => eresult (elist exval) (rbind s (fun a => sample_call mt a l fa u))
      | None => emalformed end
    else emalformed
  | _ => emalformed
  end.

Extraction "extracted/run_c13.ml" run.
