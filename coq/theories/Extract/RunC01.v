(* Dispatcher for C01: dft2 / idft2 on the group ring Q(i)[C_L]; the case supplies L. *)
From LV Require Import Lib.Codec Model.Dft Model.DftOut Model.DftApi.
Require Import ExtrOcamlBasic.

Definition pout (L : nat) : parser (option (dtype * arr (GRS L))) :=
  t <- pZ ;;
  if t =? 0 then pret None
  else n <- pZ ;; m <- pZ ;;
       pret (Some ((if t =? 1 then Complex128 else if t =? 2 then Float64 else OtherComplex), azeros n m)).

(* argument forms of the public entry points: 0 v = scalar, 1 k v1..vk = sequence, 2 = two or more dimensions *)
Definition pform {A} (p : parser A) : parser (argform A) :=
  t <- pZ ;;
  if t =? 0 then (a <- p ;; pret (FScalar a))
  else if t =? 1 then (l <- plist p ;; pret (FSeq l))
  else pret FNested.
Definition pinput (L : nat) : parser (input (GRS L)) :=
  r <- pZ ;; if r =? 2 then (a <- parr L ;; pret (In2 a)) else pret (InRank r).
Definition poutbuf : parser (option outbuf) :=
  t <- pZ ;;
  if t =? 0 then pret None
  else d <- pZ ;; cg <- pbool ;; n <- pZ ;; m <- pZ ;;
       pret (Some (mkOut (if d =? 0 then OComplex128 else if d =? 1 then ONoComplex else OOther) cg n m)).

Definition run (inp : list Z) : list Z :=
  match inp with
  | op :: Lz :: rest =>
    if Lz <=? 0 then emalformed else
    let L := Z.to_nat Lz in
    let sq := fun _ : Qc => gr1 L in        (* the square root is applied by the harness *)
    if op =? 1 then
      match pall (f <- parr L ;; ar <- pQ ;; ac <- pQ ;; M <- pZ ;; N <- pZ ;; shr <- pQ ;; shc <- pQ ;;
                  offr <- pZ ;; offc <- pZ ;; un <- pbool ;; o <- pout L ;;
                  pret (f, ar, ac, M, N, shr, shc, offr, offc, un, o)) rest with
      | Some (f, ar, ac, M, N, shr, shc, offr, offc, un, o) =>
          if (M <=? 0) || (N <=? 0) then emalformed else
          eresult (earr L) (dft2_out (S := GRS L) sq o f ar ac M N shr shc offr offc un)
      | None => emalformed end
    else if op =? 2 then
      match pall (f <- parr L ;; ar <- pQ ;; ac <- pQ ;; M <- pZ ;; N <- pZ ;; shr <- pQ ;; shc <- pQ ;;
                  un <- pbool ;; o <- pout L ;; pret (f, ar, ac, M, N, shr, shc, un, o)) rest with
      | Some (f, ar, ac, M, N, shr, shc, un, o) =>
          if (M <=? 0) || (N <=? 0) then emalformed else
          eresult (earr L) (idft2_out (S := GRS L) sq o f ar ac M N shr shc un)
      | None => emalformed end
    else if op =? 3 then      (* round trip over one full period: idft2 (dft2 f), alpha = 1/shape *)
      match pall (f <- parr L ;; un <- pbool ;; pret (f, un)) rest with
      | Some (f, un) =>
          let m := nr f in let n := nc f in
          if (m <=? 0) || (n <=? 0) then emalformed else
          let ar := (/ zq m)%Qc in let ac := (/ zq n)%Qc in
          0 :: earr L (idft2 (S := GRS L) sq (dft2 (S := GRS L) sq f ar ac m n 0%Qc 0%Qc 0 0 un) ar ac m n 0%Qc 0%Qc un)
      | None => emalformed end
    else if (op =? 5) || (op =? 6) then   (* the entry points with argument forms, defaults and refusals *)
      match pall (f <- pinput L ;; al <- pform pQ ;; sh <- popt (pform pZ) ;; st <- pform pQ ;; off <- pform pZ ;;
                  un <- pbool ;; o <- poutbuf ;; pret (f, al, sh, st, off, un, o)) rest with
      | Some (f, al, sh, st, off, un, o) =>
          eresult (earr L) (if op =? 5 then dft2_api (S := GRS L) sq f al sh st off un o
                            else idft2_api (S := GRS L) sq f al sh st un o)
      | None => emalformed end
    else emalformed
  | _ => emalformed
  end.

Extraction "extracted/run_c01.ml" run.
