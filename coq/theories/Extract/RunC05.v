(* Dispatcher for C05 on the group ring Q(i)[C_L]:
     op 1: pupil amplitude (+ optional power normalisation) and OPD phases -> pupil field -> unitary dft2
           over one full period (Pr, Pc) -> energies of centred windows;
     op 2: normalize_power on a complex-rational array (L = 1).
   Square roots are supplied by the harness (validated there against the exact ratio the model returns);
   the unitary factor sqrt|alpha_r alpha_c| is applied by the harness (as in RunC01). *)
From LV Require Import Lib.Codec Model.Dft Model.Power.
Require Import ExtrOcamlBasic.

(* reciprocal of a complex rational embedded in the group ring (only coefficient 0 is used) *)
Definition cqinv (c : CQ) : CQ :=
  let d := (fst c * fst c + snd c * snd c)%Qc in (fst c / d, - snd c / d)%Qc.
Definition ginv (L : nat) (x : GRS L) : GRS L :=
  match x with c :: _ => gofc L (cqinv c) | [] => [] end.

Definition pwin : parser (Z * Z) := ppair pZ pZ.

Definition run (inp : list Z) : list Z :=
  match inp with
  | op :: Lz :: rest =>
    if Lz <=? 0 then emalformed else
    let L := Z.to_nat Lz in
    let sq := fun _ : Qc => gr1 L in
    if op =? 1 then
      match pall (amp <- parr L ;; ph <- plist pQ ;; Pr <- pZ ;; Pc <- pZ ;;
                  norm <- popt (ppair pQ pQ) ;; wins <- plist pwin ;;
                  pret (amp, ph, Pr, Pc, norm, wins)) rest with
      | Some (amp, ph, Pr, Pc, norm, wins) =>
          if (Pr <=? 0) || (Pc <=? 0) then emalformed else
          let n := nc amp in
          let a := match norm with
                   | None => amp
                   | Some (p, s) => normalize_power (S := GRS L) (fun _ => gofq L s) (ginv L) amp (gofq L p)
                   end in
          let ratio := match norm with
                       | None => gr1 L
                       | Some (p, s) => @kmul (GRS L) (gofq L p) (ginv L (power amp))
                       end in
          let f := force (pupil_field a (fun x y => nth (Z.to_nat (x * n + y)) ph 0%Qc)) in
          let F := propagate_period (S := GRS L) sq f Pr Pc 0 0 in
          0 :: eK L ratio ++ eK L (power f)
            ++ elist (fun w : Z * Z => eK L (window_energy F (fst w) (snd w))) wins
      | None => emalformed end
    else if op =? 2 then
      match pall (a <- parr L ;; p <- pQ ;; s <- pQ ;; pret (a, p, s)) rest with
      | Some (a, p, s) =>
          0 :: eK L (@kmul (GRS L) (gofq L p) (ginv L (power a)))
            ++ earr L (normalize_power (S := GRS L) (fun _ => gofq L s) (ginv L) a (gofq L p))
      | None => emalformed end
    else if op =? 3 then      (* normalize_power including the calls whose result is not finite *)
      match pall (a <- parr L ;; p <- pQ ;; s <- pQ ;; pret (a, p, s)) rest with
      | Some (a, p, s) =>
          match normalize_power_checked (S := GRS L) (fun _ => gofq L s) (ginv L) (fun x => forallb cq_is0 x) a p with
          | None => [0; 0]
          | Some b => 0 :: 1 :: earr L b
          end
      | None => emalformed end
    else emalformed
  | _ => emalformed
  end.

Extraction "extracted/run_c05.ml" run.
