(* Dispatcher for C11: Noll indexing (closed form in bulk, and the code's list-building), Zernike
   modes on the group ring Q(i)[C_L] at caller-supplied nodes, zernike_coordinates on rationals. *)
From LV Require Import Lib.Codec Model.Zernike.
Require Import ExtrOcamlBasic.

Definition epair (p : Z * Z) : list Z := [fst p; snd p].
Definition ppt : parser (Qc * Qc * Qc) := r <- pQ ;; t <- pQ ;; m <- pQ ;; pret (r, t, m).
Definition parrQ : parser (arr QS) :=
  n <- pZ ;; m <- pZ ;;
  if (n <? 0) || (m <? 0) then pfail else
  l <- prep (Z.to_nat (n * m)) pQ ;; pret (of_list (S := QS) n m l).
Definition ecoords (nr nc : Z) (c : coords) : list Z :=
  eQ (c_origin_r c) ++ eQ (c_origin_c c) ++ eQ (c_rmax2 c)
  ++ flat_map (fun i => flat_map (fun j => eQ (c_rho2 c i j) ++ eQ (c_dirx c i j) ++ eQ (c_diry c i j)) (zrange nc))
              (zrange nr).

(* zernike(mask, j, normalize, rho, theta = 2 pi t) on the group ring; the square root is applied by
   the harness: it receives the square of the factor *)
Definition run_mode (L : nat) (j : Z) (normalize : bool) (pts : list (Qc * Qc * Qc)) : list Z :=
  match noll_exact j with
  | Ok mn =>
      match zernike (S := GRS L) (fun _ => gr1 L) row_exact j normalize pts with
      | Ok vs => 0 :: norm2 (fst mn) (snd mn) normalize :: elist (eK L) vs
      | Err e => [1; errcode e]
      end
  | Err e => [1; errcode e]
  end.

Definition edm (nr nc : Z) (d : default_mode) : list Z :=
  dm_norm2 d :: (if dm_odd d then 1 else 0) :: eQ (dm_rmax2 d)
  ++ flat_map (fun i => flat_map (fun j => eQ (dm_val d i j)) (zrange nc)) (zrange nr).
Definition zargs_of (k : Z) : option zargs :=
  if k =? 0 then Some ArgNone else if k =? 1 then Some ArgRhoOnly else if k =? 2 then Some ArgThetaOnly
  else if k =? 3 then Some ArgBoth else None.

Definition run (inp : list Z) : list Z :=
  match inp with
  | 1 :: lo :: cnt :: nil =>        (* closed form of Noll's ordering for lo <= j < lo + cnt *)
      if (lo <? 1) || (cnt <? 0) then emalformed else
      0 :: flat_map epair (noll_range (Z.to_nat cnt) lo)
  | 2 :: j :: nil =>                (* zernike_index(j), the code's list-building with the exact row *)
      eresult epair (noll_exact j)
  | 3 :: Lz :: j :: nz :: rest =>   (* zernike(mask, j, normalize, rho, theta = 2 pi t) *)
      if Lz <=? 0 then emalformed else
      match pall (plist ppt) rest with
      | Some pts => run_mode (Z.to_nat Lz) j (negb (nz =? 0)) pts
      | None => emalformed end
  | 4 :: rest =>                    (* zernike_coordinates(mask) *)
      match pall parrQ rest with
      | Some mask => eresult (ecoords (nr mask) (nc mask)) (zernike_coordinates mask)
      | None => emalformed end
  | 5 :: rest =>                    (* a history of masks (one buffer refilled in place): a pure function of each *)
      match pall (plist parrQ) rest with
      | Some masks => 0 :: flat_map (fun mask => eresult (ecoords (nr mask) (nc mask)) (zernike_coordinates mask)) masks
      | None => emalformed end
  | 6 :: Lz :: rest =>              (* a sequence of modes evaluated on the same caller-supplied nodes *)
      if Lz <=? 0 then emalformed else
      match pall (calls <- plist (ppair pZ pbool) ;; pts <- plist ppt ;; pret (calls, pts)) rest with
      | Some (calls, pts) => 0 :: flat_map (fun jn => run_mode (Z.to_nat Lz) (fst jn) (snd jn) pts) calls
      | None => emalformed end
  | 7 :: ak :: nz :: kind :: vec :: rest =>   (* zernike / zernike_basis entry: argument branch, shape, default-coordinate modes *)
      match zargs_of ak, pall (modes <- plist pZ ;; mask <- parrQ ;; pret (modes, mask)) rest with
      | Some a, Some (modes, mask) =>
          let shape := zernike_result_shape (negb (kind =? 0)) (Z.of_nat (length modes)) (nr mask) (nc mask) (negb (vec =? 0)) in
          match zernike_branch a with
          | Err e => [1; errcode e]
          | Ok false =>                        (* caller-supplied coordinates: values by op 3 / op 6 *)
              match modes_valid modes with Ok _ => 0 :: 0 :: elist (fun z => [z]) shape | Err e => [1; errcode e] end
          | Ok true =>
              match zernike_basis_default mask modes (negb (nz =? 0)) with
              | Ok ds => 0 :: 1 :: elist (fun z => [z]) shape ++ elist (edm (nr mask) (nc mask)) ds
              | Err e => [1; errcode e]
              end
          end
      | _, _ => emalformed end
  | 8 :: rest =>                    (* zernike_coordinates(mask, shift=(sr, sc)) *)
      match pall (sr <- pQ ;; sc <- pQ ;; mask <- parrQ ;; pret (sr, sc, mask)) rest with
      | Some (sr, sc, mask) => eresult (ecoords (nr mask) (nc mask)) (zernike_coordinates_shift mask sr sc)
      | None => emalformed end
  | _ => emalformed
  end.

Extraction "extracted/run_c11.ml" run.
