(* Case codec for fields and tilt lists, shared by the per-property dispatchers. *)
From LV Require Export Lib.Codec Model.Field.

Definition ptilt : parser tilt :=
  t <- pZ ;;
  if t =? 0 then (x <- pQ ;; y <- pQ ;; pret (TiltAng x y))
  else if t =? 1 then (a <- pQ ;; b <- pQ ;; c <- pQ ;; d <- pQ ;; s <- pQ ;; pret (TiltDisp a b c d s))
  else pfail.
Definition etilt (t : tilt) : list Z :=
  match t with
  | TiltAng x y => 0 :: eQ x ++ eQ y
  | TiltDisp a b c d s => 1 :: eQ a ++ eQ b ++ eQ c ++ eQ d ++ eQ s
  end.

(* field: tag (0 = 0-d data, 2 = 2-d data), data, offset row, offset col, tilt list *)
Definition pfield (L : nat) : parser (field (GRS L)) :=
  t <- pZ ;;
  d <- (if t =? 0 then (v <- pK L ;; pret (D0 v))
        else if t =? 2 then (a <- parr L ;; pret (D2 a)) else pfail) ;;
  r <- pZ ;; c <- pZ ;; ts <- plist ptilt ;; pret (mkField d r c ts).
Definition efield (L : nat) (f : field (GRS L)) : list Z :=
  (match fd f with D0 v => 0 :: eK L v | D2 a => 2 :: earr L a end)
  ++ [offr f; offc f] ++ elist etilt (ftilt f).
Definition pextent : parser extent :=
  a <- pZ ;; b <- pZ ;; c <- pZ ;; d <- pZ ;; pret (a, b, c, d).
Definition eextent (e : extent) : list Z := let '(a, b, c, d) := e in [a; b; c; d].
