(* Dispatcher for C14: the unit model executed on canonical rationals.  H, C, K are the generated
   constants; np.pi and the values of np.exp come with the case (oracle table of pairs (x, exp x)). *)
From LV Require Import Lib.Codec Model.UnitsBase Gen.UnitTable Model.Units.
Require Import ExtrOcamlBasic.
Local Open Scope Z_scope.

Definition cH : Qc := Q2Qc const_H.
Definition cC : Qc := Q2Qc const_C.
Definition cK : Qc := Q2Qc const_K.

Definition uname_of (z : Z) : uname :=
  if z =? 0 then NM else if z =? 1 then NMeter else if z =? 2 then NUm else if z =? 3 then NMicron
  else if z =? 4 then NNm else if z =? 5 then NNanometer else if z =? 6 then NAngstrom
  else if z =? 7 then NPhotlam else if z =? 8 then NFlam else if z =? 9 then NWlam else NOther.
Definition puname : parser uname := z <- pZ ;; pret (uname_of z).
Definition pwunit : parser wunit :=
  z <- pZ ;; if z =? 0 then pret Wm else if z =? 1 then pret Wum else if z =? 2 then pret Wnm
             else if z =? 3 then pret Wangstrom else pfail.
Definition pfunit : parser funit :=
  z <- pZ ;; if z =? 0 then pret Fphotlam else if z =? 1 then pret Fflam else if z =? 2 then pret Fwlam else pfail.
Definition ewunit (a : wunit) : list Z := [match a with Wm => 0 | Wum => 1 | Wnm => 2 | Wangstrom => 3 end].
Definition efunit (a : funit) : list Z := [match a with Fphotlam => 0 | Fflam => 1 | Fwlam => 2 end].

Fixpoint lookup (t : list (Qc * Qc)) (x : Qc) : Qc :=
  match t with
  | [] => 0%Qc
  | (a, b) :: r => if Qc_eq_bool a x then b else lookup r x
  end.

Definition espec (s : spectrum QcF) : list Z :=
  ewunit (s_wu _ s) ++ eopt efunit (s_vu _ s) ++ elist eQ (s_wave _ s) ++ elist eQ (s_value _ s)
  ++ eQ (trapz QcF (s_wave _ s) (s_value _ s)).
Definition qleb (x y : Qc) : bool := Qle_bool (this x) (this y).

Fixpoint samples_of (f : uname -> list Qc -> result (list Qc)) (sm : list (uname * list Qc)) : result (list (list Qc)) :=
  match sm with
  | [] => Ok []
  | (su, pts) :: r => rbind (f su pts) (fun v => rbind (samples_of f r) (fun vs => Ok (v :: vs)))
  end.

Definition run (inp : list Z) : list Z :=
  match inp with
  | op :: rest =>
    if op =? 1 then
      match pall (a <- puname ;; b <- puname ;; pret (a, b)) rest with
      | Some (a, b) =>
          eresult eQ (rbind (Unit a) (fun u => match u with UW w => wave_to QcF w b | UF _ => Err TypeError end))
      | None => emalformed end
    else if op =? 2 then
      match pall (a <- puname ;; b <- puname ;; fl <- pQ ;; w <- pQ ;; pret (a, b, fl, w)) rest with
      | Some (a, b, fl, w) =>
          eresult eQ (rbind (Unit a) (fun u => match u with UF f => flux_to QcF cH cC f fl b w | UW _ => Err TypeError end))
      | None => emalformed end
    else if op =? 3 then
      match pall (wu <- pwunit ;; vu <- popt pfunit ;; ws <- plist pQ ;; vs <- plist pQ ;; args <- plist puname ;;
                  pret (wu, vu, ws, vs, args)) rest with
      | Some (wu, vu, ws, vs, args) =>
          if Nat.eqb (length ws) (length vs)
          then eresult espec (to QcF cH cC (mkSpec QcF ws vs wu vu) args) else emalformed
      | None => emalformed end
    else if op =? 4 then
      match pall (kind <- pZ ;; w <- pQ ;; t <- pQ ;; wn <- puname ;; vn <- puname ;; pi <- pQ ;;
                  tab <- plist (ppair pQ pQ) ;; pret (kind, w, t, wn, vn, pi, tab)) rest with
      | Some (kind, w, t, wn, vn, pi, tab) =>
          if kind =? 0 then eresult eQ (planck_radiance QcF cH cC cK (lookup tab) w t wn vn)
          else if kind =? 1 then eresult eQ (planck_exitance QcF cH cC cK pi (lookup tab) w t wn vn)
          else emalformed
      | None => emalformed end
    else if op =? 5 then
      match pall (w0 <- pQ ;; jy <- pQ ;; wn <- puname ;; vn <- puname ;; pret (w0, jy, wn, vn)) rest with
      | Some (w0, jy, wn, vn) =>
          eresult (fun p => eQ (fst p) ++ eQ (snd p)) (vegaflux QcF cH cC w0 jy wn vn)
      | None => emalformed end
    else if op =? 6 then
      match pall (ws <- plist pQ ;; t <- pQ ;; wn <- puname ;; vn <- puname ;; tab <- plist (ppair pQ pQ) ;;
                  args <- plist puname ;; pret (ws, t, wn, vn, tab, args)) rest with
      | Some (ws, t, wn, vn, tab, args) =>
          eresult espec (rbind (blackbody QcF cH cC cK (lookup tab) ws t wn vn) (fun s => to QcF cH cC s args))
      | None => emalformed end
    else if op =? 7 then
      match pall (wu <- pwunit ;; vu <- popt pfunit ;; ws <- plist pQ ;; vs <- plist pQ ;; wb <- puname ;;
                  mode <- pZ ;; pts <- plist pQ ;; pret (wu, vu, ws, vs, wb, mode, pts)) rest with
      | Some (wu, vu, ws, vs, wb, mode, pts) =>
          if Nat.eqb (length ws) (length vs) then
            if mode =? 0 then eresult (elist eQ) (sample QcF cH cC qleb (mkSpec QcF ws vs wu vu) pts wb)
            else eresult (elist eQ) (sample_grid QcF cH cC qleb (mkSpec QcF ws vs wu vu) wb)
          else emalformed
      | None => emalformed end
    else if op =? 8 then
      (* Spectrum.to as it leaves the object: the final (or partially converted) spectrum and the exception, if any *)
      match pall (wu <- pwunit ;; vu <- popt pfunit ;; ws <- plist pQ ;; vs <- plist pQ ;; args <- plist puname ;;
                  pret (wu, vu, ws, vs, args)) rest with
      | Some (wu, vu, ws, vs, args) =>
          if Nat.eqb (length ws) (length vs)
          then let '(s1, o) := to_st QcF cH cC qleb (mkSpec QcF ws vs wu vu) args in
               0 :: espec s1 ++ eopt (fun e => [errcode e]) o
          else emalformed
      | None => emalformed end
    else if op =? 9 then
      (* Blackbody(...) ; .to(args) ; then .sample(points, unit) for each (unit, points) *)
      match pall (ws <- plist pQ ;; t <- pQ ;; wn <- puname ;; vn <- puname ;; tab <- plist (ppair pQ pQ) ;;
                  args <- plist puname ;; sm <- plist (ppair puname (plist pQ)) ;; pret (ws, t, wn, vn, tab, args, sm)) rest with
      | Some (ws, t, wn, vn, tab, args, sm) =>
          eresult (fun x => x)
            (rbind (blackbody QcF cH cC cK (lookup tab) ws t wn vn) (fun s0 =>
             rbind (to QcF cH cC s0 args) (fun s =>
             rbind (samples_of (fun su pts => bb_sample QcF cH cC cK (lookup tab) s t pts su) sm) (fun ls =>
             Ok (espec s ++ flat_map (elist eQ) ls)))))
      | None => emalformed end
    else if op =? 10 then
      (* Blackbody.vegamag(...) ; .to(args) ; then .sample(points, unit) for each (unit, points) *)
      match pall (w0 <- pQ ;; jy <- pQ ;; pw <- pQ ;; t <- pQ ;; ws <- plist pQ ;; wn <- puname ;; vn <- puname ;;
                  pi <- pQ ;; tab <- plist (ppair pQ pQ) ;; args <- plist puname ;;
                  sm <- plist (ppair puname (plist pQ)) ;; pret (w0, jy, pw, t, ws, wn, vn, pi, tab, args, sm)) rest with
      | Some (w0, jy, pw, t, ws, wn, vn, pi, tab, args, sm) =>
          eresult (fun x => x)
            (rbind (vegamag QcF cH cC cK pi (lookup tab) w0 jy pw t ws wn vn) (fun s0 =>
             rbind (to QcF cH cC s0 args) (fun s =>
             rbind (samples_of (fun su pts => star_sample QcF cH cC cK pi (lookup tab) s w0 jy pw t pts su) sm) (fun ls =>
             Ok (elist eQ (s_value _ s0) ++ espec s ++ flat_map (elist eQ) ls)))))
      | None => emalformed end
    else emalformed
  | _ => emalformed
  end.

Extraction "extracted/run_c14.ml" run.
