(* Dispatcher for C09: a history of propagate_fft calls sharing one scratch buffer, executed on the group
   ring Q(i)[C_L]; the grid (N0, N1) of every call is supplied by the case (read off the implementation).
   op 2: the model's own _fft_shape / scratch_shape on rationals. *)
From LV Require Import Lib.Codec Model.Fft.
Require Import ExtrOcamlBasic.

(* a sample  c * x^p : complex rational times a power of the L-th root of unity *)
Definition pKx (L : nat) : parser (GRS L) :=
  c <- pCQ ;; p <- pZ ;; pret (gmono L (Z.to_nat (p mod Z.of_nat L)) c).
Definition parrx (L : nat) : parser (arr (GRS L)) :=
  n <- pZ ;; m <- pZ ;;
  if (n <? 0) || (m <? 0) then pfail else
  l <- prep (Z.to_nat (n * m)) (pKx L) ;; pret (of_list n m l).
(* field: data, offset, number of tilt entries (their values do not matter to propagate_fft) *)
Definition pfieldx (L : nat) : parser (field (GRS L)) :=
  a <- parrx L ;; r <- pZ ;; c <- pZ ;; nt <- pnat ;;
  pret (mkField (D2 a) r c (repeat (TiltAng 0%Qc 0%Qc) nt)).
Definition pptype : parser ptype :=
  t <- pZ ;; pret (if t =? 1 then PPupil else if t =? 2 then PImage else PNone).
Definition eptype (p : ptype) : Z := match p with PNone => 0 | PPupil => 1 | PImage => 2 end.

Record step (L : nat) := mkStep {
  sN0 : Z; sN1 : Z; sw : wavefront (GRS L); sdu : Qc * Qc; sshape : option (Z * Z); sos : Z; suse : bool }.
Arguments mkStep {L}. Arguments sN0 {L}. Arguments sN1 {L}. Arguments sw {L}. Arguments sdu {L}.
Arguments sshape {L}. Arguments sos {L}. Arguments suse {L}.

Definition pstep (L : nat) : parser (step L) :=
  N0 <- pZ ;; N1 <- pZ ;;
  fs <- plist (pfieldx L) ;; w0 <- pZ ;; w1 <- pZ ;; lam <- pQ ;; dx0 <- pQ ;; dx1 <- pQ ;; z <- pQ ;; pt <- pptype ;;
  du0 <- pQ ;; du1 <- pQ ;; sh <- popt (ppair pZ pZ) ;; os <- pZ ;; use <- pbool ;;
  pret (mkStep N0 N1 (mkWf fs (w0, w1) lam (dx0, dx1) z pt) (du0, du1) sh os use).

Fixpoint run_steps (L : nat) (steps : list (step L)) (scratch : option (arr (GRS L))) : list Z :=
  match steps with
  | [] => []
  | s :: rest =>
    let sq := fun _ : Qc => gr1 L in        (* the square root is applied by the harness *)
    let sc := if suse s then scratch else None in
    match propagate_fft_N (S := GRS L) sq (sN0 s) (sN1 s) (sw s) (sdu s) (sshape s) (sos s) sc with
    | Ok (out, sc') =>
        (0 :: fst (wshape out) :: snd (wshape out) :: eQ (wlam out) ++ eQ (fst (wpix out)) ++ eQ (snd (wpix out))
           ++ eptype (wpt out) :: eresult (earr L) (wfield out))
        ++ run_steps L rest (if suse s then sc' else scratch)
    | Err e => 1 :: errcode e :: run_steps L rest scratch
    end
  end.

Definition run (inp : list Z) : list Z :=
  match inp with
  | 1 :: Lz :: rest =>
    if Lz <=? 0 then emalformed else
    let L := Z.to_nat Lz in
    match pall (sc <- popt (parr L) ;; st <- plist (pstep L) ;; pret (sc, st)) rest with
    | Some (sc, st) =>
        if forallb (fun s => (0 <? sN0 s) && (0 <? sN1 s) && (0 <? sos s)) st
        then 0 :: Z.of_nat (length st) :: run_steps L st sc else emalformed
    | None => emalformed end
  | 2 :: rest =>
    match pall (dx0 <- pQ ;; dx1 <- pQ ;; du0 <- pQ ;; du1 <- pQ ;; z <- pQ ;; wls <- plist pQ ;; os <- pZ ;;
                pret (dx0, dx1, du0, du1, z, wls, os)) rest with
    | Some (dx0, dx1, du0, du1, z, wls, os) =>
        let '(N, lam') := fft_shape (dx0, dx1) (du0, du1) z (qmaxl wls) os in
        let S := scratch_shape wls (dx0, dx1) (du0, du1) z os in
        0 :: fst N :: snd N :: eQ lam' ++ [fst S; snd S]
    | None => emalformed end
  | _ => emalformed
  end.

Extraction "extracted/run_c09.ml" run.
