(* Dispatcher for C07: a wavefront is multiplied through a chain of planes; after every step the
   observable attributes and views are reported; finally Wavefront.insert(out, weight).
   Scalar: the group ring Q(i)[C_L]; the case supplies L (L = 1: complex rationals, no OPD). *)
From LV Require Import Extract.FieldCodec Model.Plane.
Require Import ExtrOcamlBasic.

Definition gnz (L : nat) (x : GRS L) : bool := negb (forallb cq_is0 x).

Definition p_pix : parser pixraw :=
  t <- pZ ;;
  if t =? 0 then pret PixNone
  else if t =? 1 then (q <- pQ ;; pret (Pix1 q))
  else if t =? 2 then (a <- pQ ;; b <- pQ ;; pret (Pix2 a b))
  else pfail.
Definition pqarr : parser (garr Qc) :=
  n <- pZ ;; m <- pZ ;;
  if (n <? 0) || (m <? 0) then pfail else
  l <- prep (Z.to_nat (n * m)) pQ ;;
  pret (mkP n m (fun i j => if inr n i && inr m j then nth (Z.to_nat (i * m + j)) l 0%Qc else 0%Qc)).
Definition p_amp (L : nat) : parser (aattr (GRS L)) :=
  t <- pZ ;;
  if t =? 0 then (v <- pK L ;; pret (AmpS v))
  else if t =? 2 then (a <- parr L ;; pret (AmpA a)) else pfail.
Definition p_opd : parser oattr :=
  t <- pZ ;;
  if t =? 0 then (q <- pQ ;; pret (OpdS q))
  else if t =? 2 then (a <- pqarr ;; pret (OpdA a)) else pfail.
Definition p_mraw (L : nat) : parser (mraw (GRS L)) :=
  t <- pZ ;;
  if t =? 0 then pret MNone
  else if t =? 1 then (v <- pK L ;; pret (MS v))
  else if t =? 2 then (a <- parr L ;; pret (M2 a))
  else if t =? 3 then (n <- pZ ;; m <- pZ ;; l <- plist (parr L) ;;
                       if forallb (fun a => (nr a =? n) && (nc a =? m)) l then pret (M3 n m l) else pfail)
  else pfail.
(* one plane: kind (0 Plane, 1 Pupil), amplitude, opd, mask, pixelscale, focal_length (Pupil), tilt *)
Definition p_plane (L : nat) : parser (result (plane (GRS L))) :=
  k <- pZ ;; a <- p_amp L ;; o <- p_opd ;; m <- p_mraw L ;; px <- p_pix ;; f <- popt pQ ;; tl <- plist ptilt ;;
  pret (plane_init (gnz L) a o m px
          (if k =? 0 then None else Some (match f with Some q => FVal q | None => FNone end)) tl).

Definition efdata (L : nat) (d : fdata (GRS L)) : list Z :=
  match d with D0 v => 0 :: eK L v | D2 a => 2 :: earr L a end.
Definition efocal (f : focal) : list Z :=
  match f with FInf => [0] | FNone => [1] | FVal q => 2 :: eQ q end.
Definition epix (p : option (Qc * Qc)) : list Z := eopt (fun '(a, b) => eQ a ++ eQ b) p.
Definition efsum (L : nat) (f : field (GRS L)) : list Z :=
  let '(a, b) := dshape (fd f) in
  (match fd f with D0 _ => 0 | D2 _ => 2 end) :: a :: b :: offr f :: offc f :: elist etilt (ftilt f).
(* what is observed of a wavefront *)
Definition ewf (L : nat) (w : pwf (GRS L)) : list Z :=
  eQ (pw_lam w) ++ epix (pw_pix w) ++ efocal (pw_focal w) ++ eopt (fun '(a, b) => [a; b]) (pw_shape w)
  ++ elist (efsum L) (pw_data w)
  ++ eresult (efdata L) (pwf_field w) ++ eresult (efdata L) (pwf_intensity w).

(* run the chain; returns the reports of the completed steps and the final wavefront or the error *)
Fixpoint chain (L : nat) (w : pwf (GRS L)) (ps : list (result (plane (GRS L)))) (acc : list Z) (n : Z)
  : Z * list Z * result (pwf (GRS L)) :=
  match ps with
  | [] => (n, acc, Ok w)
  | rp :: r =>
      match rbind rp (fun P => plane_multiply P w) with
      | Ok w' => chain L w' r (acc ++ ewf L w') (n + 1)
      | Err e => (n, acc, Err e)
      end
  end.

Definition run (inp : list Z) : list Z :=
  match inp with
  | op :: Lz :: rest =>
    if Lz <=? 0 then emalformed else
    let L := Z.to_nat Lz in
    if op =? 1 then
      match pall (lam <- pQ ;; px <- p_pix ;; f <- popt pQ ;; tl <- plist ptilt ;; ps <- plist (p_plane L) ;;
                  ins <- popt (ppair (parr L) (pK L)) ;; pret (lam, px, f, tl, ps, ins)) rest with
      | Some (lam, px, f, tl, ps, ins) =>
          let w0 := pwf_init lam px f tl in
          let '(n, acc, r) := chain L w0 ps (ewf L w0) 0 in
          0 :: n :: acc ++
          match r with
          | Err e => [1; errcode e]
          | Ok w => 0 :: match ins with
                         | None => [0]
                         | Some (out, wt) => 1 :: eresult (earr L) (pwf_insert w out wt)
                         end
          end
      | None => emalformed end
    else if op =? 3 then   (* explicit list of fields: Wavefront.field, .intensity, .insert(out, weight) *)
      match pall (n <- pZ ;; m <- pZ ;; fs <- plist (pfield L) ;; out <- parr L ;; wt <- pK L ;;
                  pret (n, m, fs, out, wt)) rest with
      | Some (n, m, fs, out, wt) =>
          let w := mkPwf 1%Qc None FInf (Some (n, m)) fs in
          0 :: eresult (efdata L) (pwf_field w) ++ eresult (efdata L) (pwf_intensity w)
            ++ eresult (earr L) (pwf_insert w out wt)
      | None => emalformed end
    else if op =? 2 then   (* _mul_pixelscale *)
      match pall (ppair p_pix p_pix) rest with
      | Some (a, b) => eresult epix (mul_pixelscale (pix_broadcast a) (pix_broadcast b))
      | None => emalformed end
    else emalformed
  | _ => emalformed
  end.

Extraction "extracted/run_c07.ml" run.
