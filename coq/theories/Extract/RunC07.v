(* Dispatcher for C07: a wavefront is multiplied through a chain of planes; after every step the
   observable attributes and views are reported; finally Wavefront.insert(out, weight).
   Scalar: the group ring Q(i)[C_L]; the case supplies L (L = 1: complex rationals, no OPD). *)
From LV Require Import Extract.PlaneCodec.
Require Import ExtrOcamlBasic.

(* run the chain; returns the reports of the completed steps and the final wavefront or the error *)
Fixpoint chain (L : nat) (w : pwf (GRS L)) (ps : list (result (celem (GRS L)))) (acc : list Z) (n : Z)
  : Z * list Z * result (pwf (GRS L)) :=
  match ps with
  | [] => (n, acc, Ok w)
  | rp :: r =>
      match rbind rp (fun e => elem_multiply e w) with
      | Ok w' => chain L w' r (acc ++ ewf L w') (n + 1)
      | Err e => (n, acc, Err e)
      end
  end.

(* op 5: a history on ONE plane object.  Actions: 0 lam src - multiply (src 0: a fresh Wavefront(lam); src 1: the
   result of the previous multiply) and report the result; 1 - plane.amplitude = value; 2 - plane.opd = value;
   3 - plane.mask[...] = value in place (slices kept).  Every multiply sees the plane's CURRENT attributes. *)
Inductive paction (L : nat) :=
| AMul (lam : Qc) (src : bool) | ASetAmp (a : aattr (GRS L)) | ASetOpd (o : oattr) | ASetMask (m : mraw (GRS L)).
Arguments AMul {L}. Arguments ASetAmp {L}. Arguments ASetOpd {L}. Arguments ASetMask {L}.
Definition p_action (L : nat) : parser (paction L) :=
  t <- pZ ;;
  if t =? 0 then (lam <- pQ ;; b <- pbool ;; pret (AMul lam b))
  else if t =? 1 then (a <- p_amp L ;; pret (ASetAmp a))
  else if t =? 2 then (o <- p_opd ;; pret (ASetOpd o))
  else if t =? 3 then (m <- p_mraw L ;; pret (ASetMask m))
  else pfail.
Fixpoint phist (L : nat) (P : plane (GRS L)) (last : option (pwf (GRS L))) (acts : list (paction L)) : list Z :=
  match acts with
  | [] => []
  | AMul lam src :: r =>
      let w0 := match src, last with true, Some w => w | _, _ => pwf_init lam PixNone None [] end in
      match plane_multiply P w0 with
      | Ok w' => 0 :: ewf L w' ++ phist L P (Some w') r
      | Err e => 1 :: errcode e :: phist L P last r
      end
  | ASetAmp a :: r => phist L (set_amp P a) last r
  | ASetOpd o :: r => phist L (set_opd P o) last r
  | ASetMask m :: r => phist L (set_mask_inplace P (init_mask (gnz L) (pl_amp P) m)) last r
  end.

(* op 6: what a constructed plane shows: amplitude, mask, shape, size, global_mask, pixelscale, focal length *)
Definition egb (a : garr bool) : list Z :=
  pnr a :: pnc a :: flat_map (fun i => map (fun j => zofb (pget a i j)) (zrange (pnc a))) (zrange (pnr a)).
Definition eplane (L : nat) (P : plane (GRS L)) : list Z :=
  (match pl_amp P with AmpS v => 0 :: eK L v | AmpA a => 2 :: earr L a end)
  ++ (match pl_opd P with
      | OpdS q => 0 :: eQ q
      | OpdA a => 2 :: pnr a :: pnc a :: flat_map (fun i => flat_map (fun j => eQ (pget a i j)) (zrange (pnc a))) (zrange (pnr a))
      end)
  ++ (match pl_mask P with PM0 b => [0; zofb b] | PM2 a => 2 :: egb a | PM3 n m l => 3 :: n :: m :: elist egb l end)
  ++ eopt (fun '(a, b) => [a; b]) (plane_dims (pl_mask P)) ++ [Z.of_nat (psize (pl_mask P))]
  ++ (match plane_dims (pl_mask P) with
      | None => [global_mask (pl_mask P) 0 0]
      | Some (n, m) => flat_map (fun i => map (fun j => global_mask (pl_mask P) i j) (zrange m)) (zrange n)
      end)
  ++ epix (pl_pix P) ++ eopt efocal (pl_focal P) ++ [Z.of_nat (length (pl_tilt P))].

Definition run (inp : list Z) : list Z :=
  match inp with
  | op :: Lz :: rest =>
    if Lz <=? 0 then emalformed else
    let L := Z.to_nat Lz in
    if op =? 1 then
      match pall (lam <- pQ ;; px <- p_pix ;; f <- popt pQ ;; tl <- plist ptilt ;; ps <- plist (p_plane L) ;;
                  ins <- popt (ppair (parr L) (pK L)) ;; pret (lam, px, f, tl, ps, ins)) rest with
      | Some (lam, px, f, tl, ps, ins) =>
          let w0 := pwf_init lam px f tl in
          let '(n, acc, r) := chain L w0 ps (ewf L w0) 0 in
          0 :: n :: acc ++
          match r with
          | Err e => [1; errcode e]
          | Ok w => 0 :: match ins with
                         | None => [0]
                         | Some (out, wt) => 1 :: eresult (earr L) (pwf_insert w out wt)
                         end
          end
      | None => emalformed end
    else if op =? 5 then
      match pall (k <- pZ ;; rp <- p_plane0 L k ;; acts <- plist (p_action L) ;; pret (rp, acts)) rest with
      | Some (Ok P, acts) => 0 :: phist L P None acts
      | Some (Err e, _) => [1; errcode e]
      | None => emalformed end
    else if op =? 6 then   (* Plane(amplitude=, amp=, opd=, mask=, pixelscale=) / Pupil(..., focal_length=) *)
      match pall (k <- pZ ;; a <- p_amp L ;; al <- popt (p_amp L) ;; o <- p_opd ;; m <- p_mraw L ;; px <- p_pix ;;
                  f <- popt pQ ;; pret (k, a, al, o, m, px, f)) rest with
      | Some (k, a, al, o, m, px, f) =>
          eresult (eplane L)
            (plane_init_kw (gnz L) a al o m px
               (if k =? 0 then None else Some (match f with Some q => FVal q | None => FNone end)) [])
      | None => emalformed end
    else if op =? 7 then   (* Wavefront(wavelength, pixelscale, focal_length, tilt=...) *)
      match pall (lam <- pQ ;; px <- p_pix ;; f <- popt pQ ;; t <- popt (plist pQ) ;; pret (lam, px, f, t)) rest with
      | Some (lam, px, f, t) => eresult (ewf L) (pwf_init_kw lam px f t)
      | None => emalformed end
    else if op =? 3 then   (* explicit list of fields: Wavefront.field, .intensity, .insert(out, weight) *)
      match pall (n <- pZ ;; m <- pZ ;; fs <- plist (pfield L) ;; out <- parr L ;; wt <- pK L ;;
                  pret (n, m, fs, out, wt)) rest with
      | Some (n, m, fs, out, wt) =>
          let w := mkPwf 1%Qc None FInf (Some (n, m)) fs in
          0 :: eresult (efdata L) (pwf_field w) ++ eresult (efdata L) (pwf_intensity w)
            ++ eresult (earr L) (pwf_insert w out wt)
      | None => emalformed end
    else if op =? 2 then   (* _mul_pixelscale *)
      match pall (ppair p_pix p_pix) rest with
      | Some (a, b) => eresult epix (mul_pixelscale (pix_broadcast a) (pix_broadcast b))
      | None => emalformed end
    else emalformed
  | _ => emalformed
  end.

Extraction "extracted/run_c07.ml" run.
