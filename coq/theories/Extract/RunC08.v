(* Dispatcher for C08: run the program semantics of Model/PType.v over the observed transition
   function on an encoded case.
     1 :: wcode :: ccode :: n :: (kind :: a :: b) * n
         kind 0 = MulType (ptype a) with b = clip + 2 * mism,
         1 = MulClass (class a) with b = clip + 2 * mism + 4 * (0 for no override | 1 + ptype code),
         2 = Propagate (method a), 3 = Fresh (St (wtype a) (content b))
       -> 0 :: n :: outcomes (Yields s -> 0 w c ; Raises e k -> 1 e w c)
     2 :: k  -> 0 :: pcode (observed_class_ptype k)
   The same program over the [documented] machine: first integer 3 instead of 1.
     4 :: a :: b -> 0 :: a * b + (- a)    codec self-test (also keeps Z.add/Z.mul/Z.opp, which the
                                          generic driver needs, in the extracted module) *)
From LV Require Import Model.PTypeSpec.
Require Import ExtrOcamlBasic.

Definition emalformed : list Z := [2].

Definition pop (kind a b : Z) : option (op cls) :=
  match kind with
  | 0 => match ptype_of_code a, bool_of_code (b mod 2), bool_of_code (b / 2) with
         | Some p, Some c, Some m => if b <? 0 then None else Some (MulType p c m) | _, _, _ => None end
  | 1 => match cls_of_code a, bool_of_code (b mod 2), bool_of_code ((b / 2) mod 2) with
         | Some k, Some c, Some m =>
             if b <? 0 then None else
             if b / 4 =? 0 then Some (MulClass k None c m)
             else match ptype_of_code (b / 4 - 1) with
                  | Some p => Some (MulClass k (Some p) c m) | None => None end
         | _, _, _ => None end
  | 2 => match method_of_code a, b with
         | Some m, 0 => Some (Propagate m) | _, _ => None end
  | 3 => match wtype_of_code a, content_of_code b with
         | Some w, Some c => Some (Fresh (St w c)) | _, _ => None end
  | _ => None
  end.

Fixpoint pops (n : nat) (l : list Z) : option (list (op cls)) :=
  match n, l with
  | O, [] => Some []
  | S k, kind :: a :: b :: rest =>
      match pop kind a b, pops k rest with
      | Some o, Some os => Some (o :: os)
      | _, _ => None
      end
  | _, _ => None
  end.

Definition run_on (M : machine cls) (w c n : Z) (rest : list Z) : list Z :=
  if n <? 0 then emalformed else
  match wtype_of_code w, content_of_code c, pops (Z.to_nat n) rest with
  | Some w', Some c', Some ops =>
      let tr := run_program M (St w' c') ops in
      0 :: Z.of_nat (length tr) :: flat_map eoutcome tr
  | _, _, _ => emalformed
  end.

(* ---- the code model of Model/PTypeMeta.v on encoded records ------------------------------------
     rational   n d (d > 0)          option X  0 | 1 X          pixel scale  option (rational rational)
     wavefront  wcode ps focal(option rational, none = inf) wl shape(option (r c)) nfields counts...
     plane      pcode ps shape nseg ntilt kind   kind = 0 Plane | 1 f Pupil (f: 0 attribute None |
                1 inf | 2 n d) | 2 Image | 3 TiltInterface
     5 :: wavefront plane ov-bits (field-major)  -> 0 tag wavefront (tag 1: focal attribute None) | 1 err
     6 :: wavefront du(2 rationals) os shape keep-bits -> 0 wavefront | 1 err       (propagate_dft)
     7 :: wavefront du os shape                  -> 0 wavefront | 1 err              (propagate_fft) *)
Definition P (A : Type) := list Z -> option (A * list Z).
Definition pz : P Z := fun l => match l with x :: r => Some (x, r) | [] => None end.
Definition pb {A B} (p : P A) (f : A -> P B) : P B :=
  fun l => match p l with Some (a, r) => f a r | None => None end.
Definition pr {A} (a : A) : P A := fun l => Some (a, l).
Definition pf {A} : P A := fun _ => None.
Definition pq : P Q := pb pz (fun n => pb pz (fun d => if d <=? 0 then pf else pr (n # Z.to_pos d))).
Definition popt {A} (p : P A) : P (option A) :=
  pb pz (fun t => if t =? 0 then pr None else pb p (fun x => pr (Some x))).
Definition ppair {A B} (p : P A) (q : P B) : P (A * B) := pb p (fun a => pb q (fun b => pr (a, b))).
Fixpoint prep {A} (n : nat) (p : P A) : P (list A) :=
  match n with O => pr [] | S k => pb p (fun x => pb (prep k p) (fun r => pr (x :: r))) end.
Definition plist {A} (p : P A) : P (list A) :=
  pb pz (fun n => if n <? 0 then pf else prep (Z.to_nat n) p).
Definition pwty : P wtype := pb pz (fun z => match wtype_of_code z with Some w => pr w | None => pf end).
Definition ppty : P ptype := pb pz (fun z => match ptype_of_code z with Some w => pr w | None => pf end).
Definition pwmeta : P wmeta :=
  pb pwty (fun t => pb (popt (ppair pq pq)) (fun ps => pb (popt pq) (fun fo => pb pq (fun wl =>
  pb (popt (ppair pz pz)) (fun sh => pb (plist pz) (fun fs => pr (WM t ps fo wl sh fs))))))).
Definition pkindp : P pkind :=
  pb pz (fun k => match k with
    | 0 => pr KindPlane
    | 1 => pb pz (fun f => match f with
                           | 0 => pr (KindPupil None) | 1 => pr (KindPupil (Some None))
                           | 2 => pb pq (fun q => pr (KindPupil (Some (Some q)))) | _ => pf end)
    | 2 => pr KindImage | 3 => pr KindTilt | _ => pf end).
Definition ppmeta : P pmeta :=
  pb ppty (fun t => pb (popt (ppair pq pq)) (fun ps => pb (popt (ppair pz pz)) (fun sh =>
  pb pz (fun ns => pb pz (fun nt => pb pkindp (fun k =>
  if ns <? 0 then pf else pr (PM t ps sh (Z.to_nat ns) nt k))))))).
Definition pall {A} (p : P A) (l : list Z) : option A :=
  match p l with Some (a, []) => Some a | _ => None end.

Definition eq_ (q : Q) : list Z := let r := Qred q in [Qnum r; Zpos (Qden r)].
Definition eopt {A} (e : A -> list Z) (o : option A) : list Z :=
  match o with None => [0] | Some a => 1 :: e a end.
Definition ewmeta (w : wmeta) : list Z :=
  wcode (w_ty w) :: eopt (fun p => eq_ (fst p) ++ eq_ (snd p)) (w_ps w) ++ eopt eq_ (w_focal w)
  ++ eq_ (w_wl w) ++ eopt (fun p => [fst p; snd p]) (w_shape w)
  ++ Z.of_nat (length (w_fields w)) :: w_fields w.
Definition eres (r : result wmeta) : list Z :=
  match r with Ok w => 0 :: ewmeta w | Err e => [1; errcode e] end.
Definition bit (bits : list Z) (k : nat) : bool := negb (nth k bits 0 =? 0).

Definition run_meta (op : Z) (rest : list Z) : list Z :=
  match op with
  | 5 => match pall (pb pwmeta (fun w => pb ppmeta (fun pl =>
                     pb (prep (length (w_fields w) * p_nseg pl) pz) (fun bits => pr (w, pl, bits))))) rest with
         | Some (w, pl, bits) =>
             match multiply pl (fun i n => bit bits (i * p_nseg pl + n)) w with
             | MOk r => 0 :: 0 :: ewmeta r
             | MOkNoFocal r => 0 :: 1 :: ewmeta r
             | MErr e => [1; errcode e]
             end
         | None => emalformed end
  | 6 => match pall (pb pwmeta (fun w => pb (ppair pq pq) (fun du => pb pz (fun os =>
                     pb (popt (ppair pz pz)) (fun sh => pb (prep (length (w_fields w)) pz) (fun bits =>
                     pr (w, du, os, sh, bits))))))) rest with
         | Some (w, du, os, sh, bits) => eres (propagate_dft du os sh (bit bits) w)
         | None => emalformed end
  | 7 => match pall (pb pwmeta (fun w => pb (ppair pq pq) (fun du => pb pz (fun os =>
                     pb (popt (ppair pz pz)) (fun sh => pr (w, du, os, sh)))))) rest with
         | Some (w, du, os, sh) => eres (propagate_fft du os sh w)
         | None => emalformed end
  | _ => emalformed
  end.

Definition run_c08 (inp : list Z) : list Z :=
  match inp with
  | 1 :: w :: t :: n :: rest => run_on observed w t n rest
  | 3 :: w :: t :: n :: rest => run_on documented w t n rest
  | 2 :: k :: [] =>
      match cls_of_code k with
      | Some c => [0; pcode (observed_class_ptype c)]
      | None => emalformed
      end
  | 4 :: a :: b :: [] => [0; a * b + (- a)]
  | 5 :: rest => run_meta 5 rest
  | 6 :: rest => run_meta 6 rest
  | 7 :: rest => run_meta 7 rest
  | _ => emalformed
  end.

Definition run := run_c08.
Extraction "extracted/run_c08.ml" run.
