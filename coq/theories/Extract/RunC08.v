(* Dispatcher for C08: run the program semantics of Model/PType.v over the observed transition
   function on an encoded case.
     1 :: wcode :: ccode :: n :: (kind :: a :: b) * n
         kind 0 = MulType (ptype a) with b = clip + 2 * mism,
         1 = MulClass (class a) with b = clip + 2 * mism + 4 * (0 for no override | 1 + ptype code),
         2 = Propagate (method a), 3 = Fresh (St (wtype a) (content b))
       -> 0 :: n :: outcomes (Yields s -> 0 w c ; Raises e k -> 1 e w c)
     2 :: k  -> 0 :: pcode (observed_class_ptype k)
   The same program over the [documented] machine: first integer 3 instead of 1.
     4 :: a :: b -> 0 :: a * b + (- a)    codec self-test (also keeps Z.add/Z.mul/Z.opp, which the
                                          generic driver needs, in the extracted module) *)
From LV Require Import Model.PTypeSpec.
Require Import ExtrOcamlBasic.

Definition emalformed : list Z := [2].

Definition pop (kind a b : Z) : option (op cls) :=
  match kind with
  | 0 => match ptype_of_code a, bool_of_code (b mod 2), bool_of_code (b / 2) with
         | Some p, Some c, Some m => if b <? 0 then None else Some (MulType p c m) | _, _, _ => None end
  | 1 => match cls_of_code a, bool_of_code (b mod 2), bool_of_code ((b / 2) mod 2) with
         | Some k, Some c, Some m =>
             if b <? 0 then None else
             if b / 4 =? 0 then Some (MulClass k None c m)
             else match ptype_of_code (b / 4 - 1) with
                  | Some p => Some (MulClass k (Some p) c m) | None => None end
         | _, _, _ => None end
  | 2 => match method_of_code a, b with
         | Some m, 0 => Some (Propagate m) | _, _ => None end
  | 3 => match wtype_of_code a, content_of_code b with
         | Some w, Some c => Some (Fresh (St w c)) | _, _ => None end
  | _ => None
  end.

Fixpoint pops (n : nat) (l : list Z) : option (list (op cls)) :=
  match n, l with
  | O, [] => Some []
  | S k, kind :: a :: b :: rest =>
      match pop kind a b, pops k rest with
      | Some o, Some os => Some (o :: os)
      | _, _ => None
      end
  | _, _ => None
  end.

Definition run_on (M : machine cls) (w c n : Z) (rest : list Z) : list Z :=
  if n <? 0 then emalformed else
  match wtype_of_code w, content_of_code c, pops (Z.to_nat n) rest with
  | Some w', Some c', Some ops =>
      let tr := run_program M (St w' c') ops in
      0 :: Z.of_nat (length tr) :: flat_map eoutcome tr
  | _, _, _ => emalformed
  end.

Definition run_c08 (inp : list Z) : list Z :=
  match inp with
  | 1 :: w :: t :: n :: rest => run_on observed w t n rest
  | 3 :: w :: t :: n :: rest => run_on documented w t n rest
  | 2 :: k :: [] =>
      match cls_of_code k with
      | Some c => [0; pcode (observed_class_ptype c)]
      | None => emalformed
      end
  | 4 :: a :: b :: [] => [0; a * b + (- a)]
  | _ => emalformed
  end.

Definition run := run_c08.
Extraction "extracted/run_c08.ml" run.
