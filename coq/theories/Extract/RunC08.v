(* Dispatcher for C08: run the program semantics of Model/PType.v over the observed transition
   function on an encoded case.
     1 :: wcode :: tilted :: n :: (kind :: arg) * n      kind 0 = MulType p, 1 = MulClass k,
                                                          2 = Propagate m
       -> 0 :: n :: outcomes (Yields s -> 0 w t ; Raises e k -> 1 e w t)
     2 :: k  -> 0 :: pcode (observed_class_ptype k)
   The same program over the [documented] machine: first integer 3 instead of 1.
     4 :: a :: b -> 0 :: a * b + (- a)    codec self-test (also keeps Z.add/Z.mul/Z.opp, which the
                                          generic driver needs, in the extracted module) *)
From LV Require Import Model.PTypeSpec.
Require Import ExtrOcamlBasic.

Definition emalformed : list Z := [2].

Definition pop (kind arg : Z) : option (op cls) :=
  match kind with
  | 0 => option_map MulType (ptype_of_code arg)
  | 1 => option_map MulClass (cls_of_code arg)
  | 2 => option_map Propagate (method_of_code arg)
  | _ => None
  end.

Fixpoint pops (n : nat) (l : list Z) : option (list (op cls)) :=
  match n, l with
  | O, [] => Some []
  | S k, kind :: arg :: rest =>
      match pop kind arg, pops k rest with
      | Some o, Some os => Some (o :: os)
      | _, _ => None
      end
  | _, _ => None
  end.

Definition run_on (M : machine cls) (w t n : Z) (rest : list Z) : list Z :=
  if n <? 0 then emalformed else
  match wtype_of_code w, bool_of_code t, pops (Z.to_nat n) rest with
  | Some w', Some t', Some ops =>
      let tr := run_program M (St w' t') ops in
      0 :: Z.of_nat (length tr) :: flat_map eoutcome tr
  | _, _, _ => emalformed
  end.

Definition run_c08 (inp : list Z) : list Z :=
  match inp with
  | 1 :: w :: t :: n :: rest => run_on observed w t n rest
  | 3 :: w :: t :: n :: rest => run_on documented w t n rest
  | 2 :: k :: [] =>
      match cls_of_code k with
      | Some c => [0; pcode (observed_class_ptype c)]
      | None => emalformed
      end
  | 4 :: a :: b :: [] => [0; a * b + (- a)]
  | _ => emalformed
  end.

Definition run := run_c08.
Extraction "extracted/run_c08.ml" run.
