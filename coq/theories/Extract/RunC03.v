(* Dispatcher for C03.
   op 1: Wavefront * P1 * ... * Pk -> lentil.propagate_dft, twice: with the segmented and with the
         monolithic description of every plane.  For each: the views before the propagation, then the
         views after it.
   op 2: propagate_dft of wavefronts given directly by their fields (whole array / cropped sub-arrays
         with offsets), several variants of one plane.
   Scalar: the group ring Q(i)[C_L]; the square root of the unitary factor is applied by the harness. *)
From LV Require Import Extract.PlaneCodec Model.Segment Model.SegmentFft.
From LV Require Model.Fft.
Require Import ExtrOcamlBasic.

Record callargs := mkCall { c_dur : Qc; c_duc : Qc; c_shape : option (Z * Z); c_pshape : option (Z * Z); c_os : Z }.
Definition pcall : parser callargs :=
  dur <- pQ ;; duc <- pQ ;; sh <- popt (ppair pZ pZ) ;; psh <- popt (ppair pZ pZ) ;; os <- pZ ;;
  pret (mkCall dur duc sh psh os).

Definition eviews (L : nat) (w : wavefront (GRS L)) : list Z :=
  [fst (wshape w); snd (wshape w)] ++ eresult (earr L) (wfield w) ++ eresult (earr L) (wintensity w).

(* fields may carry angular tilt (per-segment tilts); for fields without tilt this is the untilted call
   (SegmentP.propagate_dft_shift_ext, ang_shift_untilted) *)
Definition call (L : nat) (w : wavefront (GRS L)) (c : callargs) : result (wavefront (GRS L)) :=
  propagate_dft (S := GRS L) (fun _ => gr1 L) (ang_shift (wfocal w) (c_dur c) (c_duc c) (c_os c)) w
                (c_dur c) (c_duc c) (c_shape c) (c_pshape c) (c_os c) None.

(* one description of the chain: planes (constructor results), then the call *)
Fixpoint chain_r (L : nat) (ps : list (result (celem (GRS L)))) (w : pwf (GRS L)) : result (pwf (GRS L)) :=
  match ps with
  | [] => Ok w
  | rp :: r => rbind (rbind rp (fun e => elem_multiply e w)) (chain_r L r)
  end.
Definition variant (L : nat) (w0 : pwf (GRS L)) (ps : list (result (celem (GRS L)))) (c : callargs) : list Z :=
  match chain_r L ps w0 with
  | Err e => [1; errcode e]
  | Ok w1 =>
      0 :: eresult (efdata L) (pwf_field w1) ++ eresult (efdata L) (pwf_intensity w1)
        ++ eresult (eviews L) (rbind (to_wavefront w1 PtPupil) (fun w2 => call L w2 c))
  end.

(* ---- a relay: chain of pupils -> propagate_dft (image plane) -> optional Image plane (e.g. a focal-plane stop)
   -> propagate_dft back to a pupil plane; the views in every plane, and Wavefront.insert in the last ---- *)
Definition of_wavefront (L : nat) (w : wavefront (GRS L)) : pwf (GRS L) :=
  mkPwf (wwl w) (wps w) (match wfocal w with Some q => FVal q | None => FInf end) (Some (wshape w)) (wdata w).
Definition relay (L : nat) (w0 : pwf (GRS L)) (ps : list (result (celem (GRS L)))) (c1 : callargs)
           (stop : option (result (celem (GRS L)))) (c2 : callargs) (ins : arr (GRS L) * GRS L) : list Z :=
  match chain_r L ps w0 with
  | Err e => [1; errcode e]
  | Ok w1 =>
      0 :: eresult (efdata L) (pwf_field w1) ++ eresult (efdata L) (pwf_intensity w1) ++
      match rbind (to_wavefront w1 PtPupil) (fun w2 => call L w2 c1) with
      | Err e => [1; errcode e]
      | Ok wi =>
          0 :: eviews L wi ++
          match rbind (match stop with
                       | None => Ok (of_wavefront L wi)
                       | Some rp => rbind rp (fun e => elem_multiply e (of_wavefront L wi)) end)
                      (fun w3 => rbind (to_wavefront w3 PtImage) (fun w4 => call L w4 c2)) with
          | Err e => [1; errcode e]
          | Ok wp => 0 :: eviews L wp ++ eresult (earr L) (accumulate (wdata wp) (fst ins) (snd ins))
          end
      end
  end.

(* ---- propagate_fft (Model/Fft.v, property C09) on the wavefront a chain leaves behind; the FFT grid (N0, N1)
   is supplied by the case; scratch: none, or a buffer of the given shape with arbitrary prior content ---- *)
Record fcall := mkFcall { f_N0 : Z; f_N1 : Z; f_du : Qc * Qc; f_shape : option (Z * Z); f_os : Z; f_scratch : option (Z * Z) }.
Definition pfcall : parser fcall :=
  N0 <- pZ ;; N1 <- pZ ;; du0 <- pQ ;; du1 <- pQ ;; sh <- popt (ppair pZ pZ) ;; os <- pZ ;; sc <- popt (ppair pZ pZ) ;;
  pret (mkFcall N0 N1 (du0, du1) sh os sc).
Definition fcall_run (L : nat) (w : Fft.wavefront (GRS L)) (c : fcall) : list Z :=
  let sc := match f_scratch c with
            | Some (a, b) => Some (@aconst (GRS L) a b (gofc L (1%Qc, 1%Qc)))
            | None => None end in
  match Fft.propagate_fft_N (S := GRS L) (fun _ => gr1 L) (f_N0 c) (f_N1 c) w (f_du c) (f_shape c) (f_os c) sc with
  | Ok (out, _) => 0 :: fst (Fft.wshape out) :: snd (Fft.wshape out) :: eresult (earr L) (Fft.wfield out)
  | Err e => [1; errcode e]
  end.
(* to_fft: Model/SegmentFft.v (the glue the theorems C03_fft_* are about) *)
Definition fvariant (L : nat) (w0 : pwf (GRS L)) (ps : list (result (celem (GRS L)))) (c : fcall) : list Z :=
  match rbind (chain_r L ps w0) to_fft with
  | Err e => [1; errcode e]
  | Ok w => 0 :: fcall_run L w c
  end.

Definition run (inp : list Z) : list Z :=
  match inp with
  | op :: Lz :: rest =>
    if Lz <=? 0 then emalformed else
    let L := Z.to_nat Lz in
    if op =? 1 then
      match pall (lam <- pQ ;; tl <- plist ptilt ;; segs <- plist (p_plane L) ;; monos <- plist (p_plane L) ;; c <- pcall ;;
                  pret (lam, tl, segs, monos, c)) rest with
      | Some (lam, tl, segs, monos, c) =>
          let w0 := pwf_init lam PixNone None tl in     (* Wavefront(lam, tilt=[rx, ry]) carries one Tilt *)
          0 :: variant L w0 segs c ++ variant L w0 monos c
      | None => emalformed end
    else if op =? 8 then   (* relay pupil -> image -> (stop) -> pupil, segmented and monolithic *)
      match pall (lam <- pQ ;; segs <- plist (p_plane L) ;; monos <- plist (p_plane L) ;; c1 <- pcall ;;
                  stop <- popt (p_plane L) ;; c2 <- pcall ;; out <- parr L ;; wt <- pK L ;;
                  pret (lam, segs, monos, c1, stop, c2, out, wt)) rest with
      | Some (lam, segs, monos, c1, stop, c2, out, wt) =>
          let w0 := pwf_init lam PixNone None [] in
          0 :: relay L w0 segs c1 stop c2 (out, wt) ++ relay L w0 monos c1 stop c2 (out, wt)
      | None => emalformed end
    else if op =? 7 then   (* the two chains only: the views before any propagation *)
      match pall (lam <- pQ ;; segs <- plist (p_plane L) ;; monos <- plist (p_plane L) ;; pret (lam, segs, monos)) rest with
      | Some (lam, segs, monos) =>
          let w0 := pwf_init lam PixNone None [] in
          let pre := fun ps => match chain_r L ps w0 with
                               | Err e => [1; errcode e]
                               | Ok w1 => 0 :: eresult (efdata L) (pwf_field w1) ++ eresult (efdata L) (pwf_intensity w1) end in
          0 :: pre segs ++ pre monos
      | None => emalformed end
    else if op =? 5 then   (* segmented vs monolithic through propagate_fft *)
      match pall (lam <- pQ ;; segs <- plist (p_plane L) ;; monos <- plist (p_plane L) ;; c <- pfcall ;;
                  pret (lam, segs, monos, c)) rest with
      | Some (lam, segs, monos, c) =>
          let w0 := pwf_init lam PixNone None [] in
          0 :: fvariant L w0 segs c ++ fvariant L w0 monos c
      | None => emalformed end
    else if op =? 6 then   (* whole array vs cropped sub-arrays through propagate_fft *)
      match pall (lam <- pQ ;; dxr <- pQ ;; dxc <- pQ ;; z <- pQ ;; g <- parr L ;;
                  vs <- plist (plist (r0 <- pZ ;; r1 <- pZ ;; c0 <- pZ ;; c1 <- pZ ;; pret (r0, r1, c0, c1))) ;;
                  c <- pfcall ;; pret (lam, dxr, dxc, z, g, vs, c)) rest with
      | Some (lam, dxr, dxc, z, g, vs, c) =>
          let mk := fun '(r0, r1, c0, c1) =>
            let '(orr, occ) := slice_offset (SBox r0 r1 c0 c1) (nr g) (nc g) in
            mkField (D2 (force (aslice g r0 r1 c0 c1))) orr occ [] in
          0 :: elist (fun sl => fcall_run L (Fft.mkWf (map mk sl) (nr g, nc g) lam (dxr, dxc) z Fft.PPupil) c) vs
      | None => emalformed end
    else if op =? 9 then   (* helper.slice_offset(index expression, shape) *)
      match pall (t <- pZ ;; r0 <- pZ ;; r1 <- pZ ;; c0 <- pZ ;; c1 <- pZ ;; n <- pZ ;; m <- pZ ;; pret (t, (r0, r1, c0, c1), (n, m))) rest with
      | Some (t, (r0, r1, c0, c1), (n, m)) =>
          let s := if t =? 0 then SlEllipsis else if t =? 1 then SlEllFull else if t =? 2 then SlEllOther
                   else SlPair r0 r1 c0 c1 in
          eresult (fun '(a, b) => [a; b]) (slice_offset_any s n m)
      | None => emalformed end
    else if op =? 4 then   (* one segmented pupil with per-segment tilts: the views after the propagation *)
      match pall (lam <- pQ ;; segs <- plist (p_plane L) ;; c <- pcall ;; pret (lam, segs, c)) rest with
      | Some (lam, segs, c) => 0 :: variant L (pwf_init lam PixNone None []) segs c
      | None => emalformed end
    else if op =? 2 then
      match pall (lam <- pQ ;; dxr <- pQ ;; dxc <- pQ ;; z <- pQ ;; g <- parr L ;;
                  vs <- plist (plist (r0 <- pZ ;; r1 <- pZ ;; c0 <- pZ ;; c1 <- pZ ;; pret (r0, r1, c0, c1))) ;;
                  c <- pcall ;; pret (lam, dxr, dxc, z, g, vs, c)) rest with
      | Some (lam, dxr, dxc, z, g, vs, c) =>
          (* Field(g[r0:r1, c0:c1], offset=helper.slice_offset(slice, g.shape)) for every slice of a variant *)
          let mk := fun '(r0, r1, c0, c1) =>
            let '(orr, occ) := slice_offset (SBox r0 r1 c0 c1) (nr g) (nc g) in
            mkField (D2 (force (aslice g r0 r1 c0 c1))) orr occ [] in
          0 :: elist (fun sl => eresult (eviews L)
                 (call L (mkWf lam (Some (dxr, dxc)) (Some z) (nr g, nc g) PtPupil (map mk sl)) c)) vs
      | None => emalformed end
    else emalformed
  | _ => emalformed
  end.

Extraction "extracted/run_c03.ml" run.
