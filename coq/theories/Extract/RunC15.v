(* Dispatcher for C15: run the Spectrum integration/binning/resizing model on an encoded case.
   1: Spectrum(w, v) followed by a session of calls on that object (resizing calls, value assignments, integrate and
      bin queries) -> the state, the exception and the answer after each call
   2: integrate   3: bin   4: ends   5: sample *)
From LV Require Import Lib.Codec Model.SpectrumEdit.
Require Import ExtrOcamlBasic.

Definition plq : parser (list Qc) := plist pQ.
Definition pspec : parser spectrum := w <- plq ;; v <- plq ;; pret (mkSp w v).
Definition pmode : parser padmode :=
  t <- pZ ;; if t =? 0 then (a <- pQ ;; b <- pQ ;; pret (PadConst a b)) else pret PadEdge.
Definition pop : parser op :=
  t <- pZ ;;
  if t =? 1 then (a <- pQ ;; b <- pQ ;; pret (OCrop a b))
  else if t =? 2 then (tol <- pQ ;; pret (OTrim tol))
  else if t =? 3 then (e0 <- pQ ;; e1 <- pQ ;; sm <- popt pQ ;; md <- pmode ;; pret (OPad e0 e1 sm md))
  else if t =? 4 then (o <- pspec ;; pret (OAppend o))
  else if t =? 5 then (g <- plq ;; pret (OResample g))
  else pfail.
Definition prule0 : parser rule := t <- pZ ;; pret (if t =? 0 then Trapz else Simps).
Definition pends0 : parser endsmode := t <- pZ ;; pret (if t =? 0 then Symmetric else Inside).
(* calls of a session: 1..5 the resizing calls, 6 value assignment, 7 integrate, 8 bin, 9 append(copy=True), 10 asarray *)
Definition pcall : parser call :=
  t <- pZ ;;
  if t =? 6 then (v <- plq ;; pret (CSetValue v))
  else if t =? 7 then (a <- popt pQ ;; b <- popt pQ ;; r <- prule0 ;; pret (CIntegrate a b r))
  else if t =? 8 then (c <- plq ;; r <- prule0 ;; e <- pends0 ;; p <- pbool ;; pret (CBin c r e p))
  else if t =? 9 then (o <- pspec ;; pret (CAppendCopy o))
  else if t =? 10 then pret CAsArray
  else fun l => match pop (t :: l) with Some (o, rest) => Some (CEdit o, rest) | None => None end.
Definition prule : parser rule := t <- pZ ;; pret (if t =? 0 then Trapz else Simps).
Definition pends : parser endsmode := t <- pZ ;; pret (if t =? 0 then Symmetric else Inside).

Definition elq (l : list Qc) : list Z := elist eQ l.
Definition eoutcome (o : outcome) : list Z :=
  (match snd o with None => 0 | Some e => errcode e end) :: elq (wave (fst o)) ++ elq (value (fst o)).

Definition eanswer (a : answer) : list Z :=
  match a with ANone => [0] | ANum x => 1 :: eQ x | ABins b => 2 :: eopt elq b
  | ASpec s => 3 :: elq (wave s) ++ elq (value s) end.
Definition estep (r : outcome * answer) : list Z := eoutcome (fst r) ++ eanswer (snd r).
(* the other admissible exception class of a refused pad (0: none) *)
Definition ealt (s : spectrum) (c : call) : list Z :=
  match c with
  | CEdit (OPad e0 e1 sm md) => match pad_other_refusal s e0 e1 sm md with Some e => [errcode e] | None => [0] end
  | _ => [0]
  end.
Fixpoint esession (s : spectrum) (cs : list call) : list (list Z) :=
  match cs with [] => [] | c :: t => let r := do_call s c in (estep r ++ ealt s c) :: esession (fst (fst r)) t end.

Definition run_c15 (inp : list Z) : list Z :=
  match inp with
  | 1 :: rest =>
    match pall (w <- plq ;; v <- plq ;; cs <- plist pcall ;; pret (w, v, cs)) rest with
    | Some (w, v, cs) =>
        match make w v with
        | Err e => [1; errcode e]
        | Ok s => 0 :: elist (fun x => x) (esession s cs)
        end
    | None => emalformed end
  | 2 :: rest =>
    match pall (s <- pspec ;; a <- popt pQ ;; b <- popt pQ ;; r <- prule ;; pret (s, a, b, r)) rest with
    | Some (s, a, b, r) => eresult eQ (integrate s a b r)
    | None => emalformed end
  | 3 :: rest =>
    match pall (s <- pspec ;; c <- plq ;; r <- prule ;; e <- pends ;; p <- pbool ;; pret (s, c, r, e, p)) rest with
    | Some (s, c, r, e, p) => eresult (eopt elq) (bin s c r e p)
    | None => emalformed end
  | 4 :: rest =>
    match pall (s <- pspec ;; tol <- pQ ;; pret (s, tol)) rest with
    | Some (s, tol) => eresult (fun ij => [Z.of_nat (fst ij); Z.of_nat (snd ij)]) (ends s tol)
    | None => emalformed end
  | 5 :: rest =>
    match pall (s <- pspec ;; x <- plq ;; pret (s, x)) rest with
    | Some (s, x) => eresult elq (sample s x)
    | None => emalformed end
  | _ => emalformed
  end.

Definition run := run_c15.
Extraction "extracted/run_c15.ml" run.
