(* Dispatcher for C15: run the Spectrum integration/binning/resizing model on an encoded case.
   1: Spectrum(w, v) followed by a sequence of resizing calls -> the state and exception after each call
   2: integrate   3: bin   4: ends   5: sample *)
From LV Require Import Lib.Codec Model.SpectrumEdit.
Require Import ExtrOcamlBasic.

Definition plq : parser (list Qc) := plist pQ.
Definition pspec : parser spectrum := w <- plq ;; v <- plq ;; pret (mkSp w v).
Definition pmode : parser padmode :=
  t <- pZ ;; if t =? 0 then (a <- pQ ;; b <- pQ ;; pret (PadConst a b)) else pret PadEdge.
Definition pop : parser op :=
  t <- pZ ;;
  if t =? 1 then (a <- pQ ;; b <- pQ ;; pret (OCrop a b))
  else if t =? 2 then (tol <- pQ ;; pret (OTrim tol))
  else if t =? 3 then (e0 <- pQ ;; e1 <- pQ ;; sm <- popt pQ ;; md <- pmode ;; pret (OPad e0 e1 sm md))
  else if t =? 4 then (o <- pspec ;; pret (OAppend o))
  else if t =? 5 then (g <- plq ;; pret (OResample g))
  else pfail.
Definition prule : parser rule := t <- pZ ;; pret (if t =? 0 then Trapz else Simps).
Definition pends : parser endsmode := t <- pZ ;; pret (if t =? 0 then Symmetric else Inside).

Definition elq (l : list Qc) : list Z := elist eQ l.
Definition eoutcome (o : outcome) : list Z :=
  (match snd o with None => 0 | Some e => errcode e end) :: elq (wave (fst o)) ++ elq (value (fst o)).

Definition run_c15 (inp : list Z) : list Z :=
  match inp with
  | 1 :: rest =>
    match pall (w <- plq ;; v <- plq ;; ops <- plist pop ;; pret (w, v, ops)) rest with
    | Some (w, v, ops) =>
        match make w v with
        | Err e => [1; errcode e]
        | Ok s => 0 :: elist eoutcome (trace s ops)
        end
    | None => emalformed end
  | 2 :: rest =>
    match pall (s <- pspec ;; a <- popt pQ ;; b <- popt pQ ;; r <- prule ;; pret (s, a, b, r)) rest with
    | Some (s, a, b, r) => eresult eQ (integrate s a b r)
    | None => emalformed end
  | 3 :: rest =>
    match pall (s <- pspec ;; c <- plq ;; r <- prule ;; e <- pends ;; p <- pbool ;; pret (s, c, r, e, p)) rest with
    | Some (s, c, r, e, p) => eresult (eopt elq) (bin s c r e p)
    | None => emalformed end
  | 4 :: rest =>
    match pall (s <- pspec ;; tol <- pQ ;; pret (s, tol)) rest with
    | Some (s, tol) => eresult (fun ij => [Z.of_nat (fst ij); Z.of_nat (snd ij)]) (ends s tol)
    | None => emalformed end
  | 5 :: rest =>
    match pall (s <- pspec ;; x <- plq ;; pret (s, x)) rest with
    | Some (s, x) => eresult elq (sample s x)
    | None => emalformed end
  | _ => emalformed
  end.

Definition run := run_c15.
Extraction "extracted/run_c15.ml" run.
