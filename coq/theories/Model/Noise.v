(* Model of the stochastic models of lentil (property C18):
     lentil/detector.py  shot_noise, read_noise, dark_current, cosmic_rays (accumulation)
     lentil/wfe.py       power_spectrum (everything after the filtered draw)

   The random generator is an ORACLE.  [numpy.random.default_rng(seed)] answers a [request]
   (poisson(lam), normal(loc, scale), normal(loc, scale, size), lognormal(mean, sigma, size)) with an
   array; the model functions take the drawn array as an INPUT and model everything the code does
   around the draw: guards and the errors they raise, floor / integer cast, masking, the RMS
   normalisation.  The seeded wrappers at the end of the file say which request each function issues.
   Contract of the oracle (trusted, see harness/props/c18.py TRUSTED): deterministic in (seed,
   request); Poisson draws are non-negative integers; lognormal draws are positive.

   Every float is a rational: frames are arrays over [Qc].  Definitions only; lemmas are in
   Proofs/NoiseP.v. *)
From LV Require Export Lib.Arr Lib.Instances.
From Coq Require Export Qround.

(* the rationals as a Scalar (ke is unused here) *)
Definition QS : Scalar :=
  mkScalar Qc 0%Qc 1%Qc Qcplus Qcmult Qcminus Qcopp (fun x => x) (fun q => q) (fun _ => 1%Qc).

Definition Qcltb (a b : Qc) : bool := match (a ?= b)%Qc with Lt => true | _ => false end.   (* a < b *)
Definition Qcfloor (q : Qc) : Z := Qfloor q.                                        (* np.floor *)
Definition Qctrunc (q : Qc) : Z := Z.quot (Qnum q) (Zpos (Qden q)).                 (* C cast: toward zero *)

(* ---- reductions over index ranges ---- *)
Fixpoint anyn (n : nat) (p : nat -> bool) : bool :=
  match n with O => false | Datatypes.S k => anyn k p || p k end.
(* np.any(p(a)) over a 2-d array *)
Definition any2 {S : Scalar} (p : S -> bool) (a : arr S) : bool :=
  anyn (Z.to_nat (nr a)) (fun i => anyn (Z.to_nat (nc a)) (fun j => p (get a (Z.of_nat i) (Z.of_nat j)))).
(* number of samples satisfying p *)
Definition count2 {S : Scalar} (p : S -> bool) (a : arr S) : Z :=
  @sumZ ZS (nr a) (fun i => @sumZ ZS (nc a) (fun j => if p (get a i j) then 1 else 0)).

(* ------------------------------------------------------------------------------------------ *)
(** * shot_noise(img, method, seed) *)

(* 9.223372006484771e+18 as a double is exactly this integer (= 2^63 - 30370004992, ten sigma below
   the int64 maximum); it is also numpy's POISSON_LAM_MAX *)
Definition LAM_MAX : Qc := Q2Qc (9223372006484770816 # 1).

Inductive shot_msg := MsgNegative      (* 'Counts must be positive' *)
                    | MsgTooLarge.     (* 'Counts exceed max representable value' *)
Inductive shot_result := ShotOk (frame : arr ZS) | ShotErr (e : errkind) (m : shot_msg).

Definition has_neg (img : arr QS) : bool := any2 (S := QS) (fun x => Qcltb x 0%Qc) img.      (* np.min(img) < 0 *)
Definition has_big (img : arr QS) : bool := any2 (S := QS) (fun x => Qcltb LAM_MAX x) img.   (* np.max(img) > 9.22..e18 *)

(* method='poisson': rng.poisson(img) raises ValueError when a rate is negative or above
   POISSON_LAM_MAX; the handler translates it (negative first).  [draw] = rng.poisson(img)
   (unused on the error paths).  np.floor of the drawn array. *)
Definition shot_poisson (img draw : arr QS) : shot_result :=
  if has_neg img then ShotErr ValueError MsgNegative
  else if has_big img then ShotErr ValueError MsgTooLarge
  else ShotOk (@mkArr ZS (nr img) (nc img) (fun i j => Qcfloor (get draw i j))).

(* np.asarray(x, dtype=int): C conversion double -> int64, truncation toward zero; outside the
   int64 range the conversion is undefined in C, on x86-64 it yields INT64_MIN (observed; numpy
   emits "RuntimeWarning: invalid value encountered in cast") *)
Definition INT64_MIN : Z := - 2 ^ 63.
Definition cast_int64 (x : Qc) : Z :=
  let t := Qctrunc x in if (INT64_MIN <=? t) && (t <? 2 ^ 63) then t else INT64_MIN.

(* method='gaussian': [draw] = rng.normal(loc=img, scale=np.sqrt(img)).
   [upper_guard = true] is the code as it is in /repo: negative guard (fix 6d91c01) and the same upper
   bound as the Poisson path (fix a1d0f6b).  [upper_guard = false] is the code before a1d0f6b, kept
   to state why the guard is needed (Properties/C18.v, C18_shot_gaussian_without_guard_overflows).
   np.floor of an integer array changes nothing. *)
Definition shot_gaussian (upper_guard : bool) (img draw : arr QS) : shot_result :=
  if has_neg img then ShotErr ValueError MsgNegative
  else if upper_guard && has_big img then ShotErr ValueError MsgTooLarge
  else ShotOk (@mkArr ZS (nr img) (nc img) (fun i j => cast_int64 (get draw i j))).

(* ------------------------------------------------------------------------------------------ *)
(** * read_noise(img, electrons, seed):  img + rng.normal(loc=0.0, scale=electrons, size=img.shape) *)
Definition read_noise (img draw : arr QS) : arr QS :=
  @mkArr QS (nr img) (nc img) (fun i j => (get img i j + get draw i j)%Qc).

(* ------------------------------------------------------------------------------------------ *)
(** * dark_current(rate, shape, fpn_factor, seed)
   fpn = rng.lognormal(mean=1.0, sigma=fpn_factor, size=shape) if fpn_factor > 0 else 1;
   dark = np.floor(rate*np.ones(shape)*fpn) *)
Definition dark_fpn (fpn_factor : Qc) (draw : arr QS) (i j : Z) : Qc :=
  if Qcltb 0%Qc fpn_factor then get draw i j else 1%Qc.
Definition dark_current (rate : Qc) (n m : Z) (fpn_factor : Qc) (draw : arr QS) : arr ZS :=
  @mkArr ZS n m (fun i j => Qcfloor (rate * 1 * dark_fpn fpn_factor draw i j)%Qc).

(* ------------------------------------------------------------------------------------------ *)
(** * power_spectrum: the part after the filtered draw
   [filt] = np.real(ifft2(fft2(rng.normal(size=[n, m])) * H)) * sqrt(m*n)  (oracle input: the draw
   after the deterministic linear filter);  opd = filt*mask;
   opd * np.sqrt(np.count_nonzero(opd)/np.sum(np.abs(opd)**2)) * rms.
   Generic in the scalar: [isz x] decides x == 0, [nrm c s] is np.sqrt(c / s).  (np.abs(x)**2 = x*x
   on a real array.)  When the masked draw is identically zero the code divides 0 by 0 and
   returns a frame of NaN: [None]. *)
Section PowerSpectrum.
Variable S : Scalar.
Variable isz : S -> bool.
Variable nrm : Z -> S -> S.

Definition ps_opd (filt mask : arr S) : arr S :=
  mkArr (nr mask) (nc mask) (fun i j => (get filt i j * get mask i j)%K).
Definition ps_count (opd : arr S) : Z := count2 (fun x => negb (isz x)) opd.
Definition ps_ss (opd : arr S) : S :=
  sumZ (nr opd) (fun i => sumZ (nc opd) (fun j => (get opd i j * get opd i j)%K)).
(* the scale factor is computed once (count and sum of squares of the masked draw), then applied *)
Definition ps_scale_with (opd : arr S) (c : Z) (s : S) (rms : S) (i j : Z) : S :=
  (get opd i j * nrm c s * rms)%K.
Definition ps_scale (opd : arr S) (rms : S) (i j : Z) : S :=
  ps_scale_with opd (ps_count opd) (ps_ss opd) rms i j.
Definition power_spectrum_post (filt mask : arr S) (rms : S) : option (arr S) :=
  let opd := ps_opd filt mask in
  let c := ps_count opd in
  if c =? 0 then None
  else let s := ps_ss opd in Some (mkArr (nr mask) (nc mask) (ps_scale_with opd c s rms)).
End PowerSpectrum.
Arguments ps_opd {S}. Arguments ps_count {S}. Arguments ps_ss {S}. Arguments ps_scale {S}. Arguments ps_scale_with {S}.
Arguments power_spectrum_post {S}.

(* ------------------------------------------------------------------------------------------ *)
(** * cosmic_rays: accumulation of the deposits
   One ray deposits electron_flux*dist at img[row, col] for each segment of its path (numpy index
   semantics: a negative index counts from the end, an index outside [-n, n) raises IndexError);
   the frame is the sum of the ray images.  The ray geometry (global generator, ray tracing) is
   the oracle: the list of deposits per ray. *)
Section Cosmic.
Variable S : Scalar.
Record deposit := mkDep { drow : Z; dcol : Z; dflux : S; ddist : S }.

Definition wrap (n i : Z) : Z := if i <? 0 then i + n else i.
Definition dep_ok (n m : Z) (d : deposit) : bool :=
  (- n <=? drow d) && (drow d <? n) && (- m <=? dcol d) && (dcol d <? m).
Definition dep_at (n m i j : Z) (d : deposit) : S :=
  if (wrap n (drow d) =? i) && (wrap m (dcol d) =? j) then (dflux d * ddist d)%K else k0.
Fixpoint lsum (l : list S) : S := match l with [] => k0 | x :: r => (x + lsum r)%K end.
(* _cosmic_ray: img = zeros(shape); img[row, col] += electron_flux*dist per segment *)
Definition ray_image (n m : Z) (ds : list deposit) : arr S :=
  mkArr n m (fun i j => lsum (map (dep_at n m i j) ds)).
(* cosmic_rays: img = zeros(shape); img += _cosmic_ray(...) per ray *)
Definition cosmic_rays (n m : Z) (rays : list (list deposit)) : result (arr S) :=
  if forallb (forallb (dep_ok n m)) rays
  then Ok (mkArr n m (fun i j => lsum (map (fun ds => get (ray_image n m ds) i j) rays)))
  else Err IndexError.
End Cosmic.
Arguments mkDep {S}. Arguments drow {S}. Arguments dcol {S}. Arguments dflux {S}. Arguments ddist {S}.
Arguments dep_ok {S}. Arguments dep_at {S}. Arguments lsum {S}. Arguments ray_image {S}.
Arguments cosmic_rays {S}.

(* ------------------------------------------------------------------------------------------ *)
(** * The seeded functions: which request each one sends to default_rng(seed) *)
Inductive request :=
  | ReqPoisson (lam : arr QS)                       (* rng.poisson(lam) *)
  | ReqNormalArr (loc scale : arr QS)               (* rng.normal(loc=loc, scale=scale) *)
  | ReqNormal (loc scale : Qc) (n m : Z)            (* rng.normal(loc, scale, size=(n, m)) *)
  | ReqLognormal (mean sigma : Qc) (n m : Z).       (* rng.lognormal(mean, sigma, size=(n, m)) *)
Definition generator := Z -> request -> arr QS.     (* seed -> request -> drawn array *)

Inductive method := Poisson | Gaussian.
(* [sqrt_img] = np.sqrt(img), the scale of the Gaussian request (a deterministic function of img) *)
Definition shot_noise_seeded (upper_guard : bool) (rng : generator) (sqrt_img : arr QS)
           (img : arr QS) (mth : method) (seed : Z) : shot_result :=
  match mth with
  | Poisson => shot_poisson img (rng seed (ReqPoisson img))
  | Gaussian => shot_gaussian upper_guard img (rng seed (ReqNormalArr img sqrt_img))
  end.
Definition read_noise_seeded (rng : generator) (img : arr QS) (electrons : Qc) (seed : Z) : arr QS :=
  read_noise img (rng seed (ReqNormal 0%Qc electrons (nr img) (nc img))).
Definition dark_current_seeded (rng : generator) (rate : Qc) (n m : Z) (fpn_factor : Qc) (seed : Z) : arr ZS :=
  dark_current rate n m fpn_factor (rng seed (ReqLognormal 1%Qc fpn_factor n m)).
