(* Model of the tilt bookkeeping of lentil (after fix: commits 367bada and d811417):
     plane.py      Tilt.__init__ / Tilt.shift, DispersiveTilt.shift (first-order analytic branch),
                   Plane.ptt_vector, Plane.fit_tilt (monolithic and segmented), the choice
                   self.tilt[n::self.size] in Plane.multiply, TiltInterface.multiply
     field.py      Field.shift (fold over the tilt list, metres -> oversampled pixels, xy -> ij)
     wavefront.py  Wavefront(tilt=[rx, ry])
     propagate.py  np.fix / sub-pixel split of the shift and the per-field window of propagate_dft
   Floats are rationals.  Definitions only; lemmas are in Proofs/TiltP.v.
   External primitives: sqrt(1 + trace[0]^2) is carried by the TiltDisp element (field [root]);
   np.linalg.lstsq is the parameter [t] of [fit_mono]/[fit_seg] (any solution of the normal equations),
   computed for execution by LsqTilt.solve3 (validated inside the model). *)
From LV Require Export Lib.LsqTilt Model.Field Model.Dft.

Local Open Scope Qc_scope.

(* ---- Tilt(x, y): "y tilt is about the x-axis": self.x = y, self.y = x ---- *)
Definition mk_tilt (x y : Qc) : tilt := TiltAng y x.

(* ---- DispersiveTilt, first order ---- *)
(* _dispersion: dist = (wavelength - dispersion[1]) / dispersion[0] *)
Definition disp_dist (d0 d1 wl : Qc) : Qc := (wl - d1) / d0.
(* _trace: x = dist / sqrt(1 + trace[0]^2); y = polyval(trace, x) *)
Definition disp_trace (t0 t1 root dist : Qc) : Qc * Qc :=
  let x := dist / root in (x, t0 * x + t1).

(* ---- tilt.shift(xs, ys, z, wavelength) ---- *)
Definition tilt_shift (t : tilt) (xs ys z wl : Qc) : Qc * Qc :=
  match t with
  | TiltAng tx ty => (xs - z * tx, ys - z * ty)
  | TiltDisp t0 t1 d0 d1 root =>
      let p := disp_trace t0 t1 root (disp_dist d0 d1 wl) in (fst p + xs, snd p + ys)
  end.
(* the displacement an element contributes by itself *)
Definition tilt_disp (t : tilt) (z wl : Qc) : Qc * Qc := tilt_shift t 0 0 z wl.

(* ---- Field.shift ---- *)
Definition shift_step (z wl : Qc) (acc : Qc * Qc) (t : tilt) : Qc * Qc :=
  tilt_shift t (fst acc) (snd acc) z wl.
Definition fold_tilts (tl : list tilt) (z wl : Qc) : Qc * Qc := fold_left (shift_step z wl) tl (0, 0).

Inductive indexing := IJ | XY | BadIndexing.
(* pixelscale (row, col) of the output plane, already broadcast; None = undefined *)
Definition field_shift (tl : list tilt) (z wl : Qc) (ps : option (Qc * Qc)) (os : Qc) (ix : indexing)
  : result (Qc * Qc) :=
  match ix with
  | BadIndexing => Err ValueError
  | _ =>
    match ps with
    | None => Err ValueError
    | Some (pr, pc) =>
      let xy := fold_tilts tl z wl in
      (* x runs along columns, y along rows *)
      let out := (fst xy / pc * os, snd xy / pr * os) in
      Ok (match ix with IJ => (- snd out, fst out) | _ => out end)
    end
  end.

(* ---- np.fix and the sub-pixel remainder (propagate_dft) ---- *)
Definition qfix (q : Qc) : Z := Z.quot (Qnum (this q)) (Zpos (Qden (this q))).
Definition fix_subpx (s : Qc) : Z * Qc := (qfix s, s - zq (qfix s)).

(* ---- which tilt entries a field receives ---- *)
(* l[n::size] for size >= 1: skip n entries, take one, skip size-1, take one, ... *)
Fixpoint stride_go {A} (size c : nat) (l : list A) : list A :=
  match l with
  | [] => []
  | x :: r => match c with
              | O => x :: stride_go size (size - 1) r
              | Datatypes.S c' => stride_go size c' r
              end
  end.
Definition stride {A} (n size : nat) (l : list A) : list A := stride_go size n l.

(* elements of a plane chain, as far as tilt bookkeeping is concerned *)
Inductive celem :=
| CTilt (t : tilt)                         (* a Tilt / DispersiveTilt plane *)
| CPlane (size : nat) (ptilt : list tilt). (* a masked plane with [size] segments and its .tilt list *)
(* Plane.multiply: every incoming field meets every segment n and receives self.tilt[n::self.size]
   (nothing when self.tilt is empty); TiltInterface.multiply then appends the plane itself *)
Definition chain_step (fields : list (list tilt)) (e : celem) : list (list tilt) :=
  match e with
  | CTilt t => map (fun tl => tl ++ [t]) fields
  | CPlane size pt =>
      flat_map (fun tl => map (fun n => tl ++ stride n size pt) (seq 0 size)) fields
  end.
(* Wavefront(tilt=...): None, or [rx, ry] wrapped as one Tilt; any other length is refused *)
Definition wavefront_tilt (t : option (list Qc)) : result (list tilt) :=
  match t with
  | None => Ok []
  | Some [rx; ry] => Ok [mk_tilt rx ry]
  | Some _ => Err ValueError
  end.
Definition chain_tilts (w0 : list tilt) (es : list celem) : list (list tilt) :=
  fold_left chain_step es [w0].

(* ---- the OPD ramp that stands for an angular tilt Tilt(x=a, y=b) ----
   at plane coordinates (X, Y) = (row, column) counted from the origin sample floor(n/2) *)
Definition opd_ramp (a b dxr dxc : Qc) (X Y : Z) : Qc := a * (zq X * dxr) - b * (zq Y * dxc).
(* propagation sampling, propagate._dft_alpha *)
Definition dft_alpha (dx du wl z os : Qc) : Qc := (dx * du) / (wl * z * os).

(* ---- per-field window of propagate_dft for a field whose tilt shift is (sr, sc) ----
   out_extent: the output box; (Pr, Pc) = prop_shape * oversample.
   Result: None when the shifted propagation window misses the output, else
   (intersect_shape, intersect_shift, the shift handed to dft2). *)
Definition tilted_window (oe : extent) (Pr Pc : Z) (sr sc : Qc)
  : option ((Z * Z) * (Z * Z) * (Qc * Qc)) :=
  let '(fr, subr) := fix_subpx sr in
  let '(fc, subc) := fix_subpx sc in
  let pe := array_extent Pr Pc fr fc in
  if intersect oe pe then
    match intersection_shape oe pe with
    | None => None
    | Some (Ir, Ic) =>
      let '(isr, isc) := intersection_shift oe pe in
      let ie := array_extent Ir Ic isr isc in
      let '(pcr, pcc) := array_center pe in
      let '(icr, icc) := array_center ie in
      Some ((Ir, Ic), (isr, isc), (zq (pcr - icr) + subr, zq (pcc - icc) + subc))
    end
  else None.
Local Close Scope Qc_scope.

(* ---- Plane.ptt_vector and Plane.fit_tilt, generic in the scalar ---- *)
Section Fit.
Variable S : Scalar.
Definition zs (z : Z) : S := kofq (zq z).

(* rows of unmasked_ptt_vector for a plane of shape (m, n) and pixelscale (dxr, dxc):
   1,  r * dxr,  (-c) * dxc   with (r, c) = helper.mesh(shape) *)
Definition ptt_unmasked (m n : Z) (dxr dxc : S) (k i j : Z) : S :=
  if k =? 0 then k1
  else if k =? 1 then (zs (i - m / 2) * dxr)%K
  else (- zs (j - n / 2) * dxc)%K.
(* the OPD ramp of Tilt(x=a, y=b) in the scalar structure, at plane coordinates (X, Y) *)
Definition ramp_s (a b dxr dxc : S) (X Y : Z) : S := (a * (zs X * dxr) - b * (zs Y * dxc))%K.
Definition ptt_masked (m n : Z) (dxr dxc : S) (mask : arr S) (k i j : Z) : S :=
  (ptt_unmasked m n dxr dxc k i j * get mask i j)%K.
(* einsum('ij,i->j', ptt_vector[1:3], t[1:3]) *)
Definition tilt_part (m n : Z) (dxr dxc : S) (mask : arr S) (t : S * S * S) (i j : Z) : S :=
  (ptt_masked m n dxr dxc mask 1 i j * snd (fst t) + ptt_masked m n dxr dxc mask 2 i j * snd t)%K.

(* monolithic: plane.opd -= opd_tilt;  t = lstsq(ptt_vector.T, opd.ravel()) *)
Definition fit_mono (dxr dxc : S) (mask opd : arr S) (t : S * S * S) : arr S :=
  mkArr (nr opd) (nc opd) (fun i j => (get opd i j - tilt_part (nr opd) (nc opd) dxr dxc mask t i j)%K).
(* segmented: opd = sum_seg (opd - seg_tilt) * mask[seg] *)
Definition seg_term (dxr dxc : S) (opd : arr S) (i j : Z) (acc : S) (mt : arr S * (S * S * S)) : S :=
  (acc + (get opd i j - tilt_part (nr opd) (nc opd) dxr dxc (fst mt) (snd mt) i j) * get (fst mt) i j)%K.
Definition fit_seg (dxr dxc : S) (masks : list (arr S)) (opd : arr S) (ts : list (S * S * S)) : arr S :=
  mkArr (nr opd) (nc opd) (fun i j => fold_left (seg_term dxr dxc opd i j) (combine masks ts) k0).
End Fit.
Arguments zs {S}. Arguments ramp_s {S}. Arguments ptt_unmasked {S}. Arguments ptt_masked {S}. Arguments tilt_part {S}.
Arguments fit_mono {S}. Arguments fit_seg {S}. Arguments seg_term {S}.

(* ---- executable fit on the rationals ---- *)
(* np.linalg.lstsq for the three masked basis rows, by the validated Cramer solver *)
Definition lstsq3 (dxr dxc : Qc) (mask opd : arr QS) : result (Qc * Qc * Qc) :=
  let b := ptt_masked (S := QS) (nr opd) (nc opd) dxr dxc mask in
  solve3 (gram (S := QS) (nr opd) (nc opd) b) (rhs (S := QS) (nr opd) (nc opd) b (get opd)).

Fixpoint lstsq_all (dxr dxc : Qc) (masks : list (arr QS)) (opd : arr QS) : result (list (Qc * Qc * Qc)) :=
  match masks with
  | [] => Ok []
  | mk :: r => rbind (lstsq3 dxr dxc mk opd) (fun t =>
               rbind (lstsq_all dxr dxc r opd) (fun ts => Ok (t :: ts)))
  end.

(* the state of a plane that fit_tilt reads and writes *)
Record qplane := mkQPlane {
  qp_ps : option (Qc * Qc);        (* pixelscale *)
  qp_masks : list (arr QS);        (* one 2-d mask (monolithic) or the segment masks *)
  qp_opd : option (arr QS);        (* None: opd of size 1 *)
  qp_tilt : list tilt }.

(* Plane.fit_tilt (the plane has a 2-d shape; planes without a mask return unchanged before this point) *)
Definition fit_tilt (p : qplane) : result qplane :=
  match qp_ps p with
  | None => Err ValueError                       (* ptt_vector: can't create ptt_vector with pixelscale = () *)
  | Some (dxr, dxc) =>
    match qp_opd p with
    | None => Ok p                               (* plane.opd.size == 1: returned as is *)
    | Some opd =>
      match qp_masks p with
      | [mask] =>
          rbind (lstsq3 dxr dxc mask opd) (fun t =>
          Ok (mkQPlane (qp_ps p) (qp_masks p) (Some (force (fit_mono (S := QS) dxr dxc mask opd t)))
                       (qp_tilt p ++ [mk_tilt (snd (fst t)) (snd t)])))
      | masks =>
          rbind (lstsq_all dxr dxc masks opd) (fun ts =>
          Ok (mkQPlane (qp_ps p) (qp_masks p) (Some (force (fit_seg (S := QS) dxr dxc masks opd ts)))
                       (qp_tilt p ++ map (fun t => mk_tilt (snd (fst t)) (snd t)) ts)))
      end
    end
  end.

(* a history: alternately add an increment to the OPD (plane.opd = plane.opd + delta) and fit *)
Definition add_opd (p : qplane) (delta : arr QS) : qplane :=
  match qp_opd p with
  | None => p
  | Some opd => mkQPlane (qp_ps p) (qp_masks p)
                  (Some (force (S := QS) (mkArr (nr opd) (nc opd) (fun i j => (get opd i j + get delta i j)%K)))) (qp_tilt p)
  end.
Definition update_and_fit (r : result qplane) (delta : arr QS) : result qplane :=
  rbind r (fun p => fit_tilt (add_opd p delta)).
Definition fit_history (p : qplane) (deltas : list (arr QS)) : result qplane :=
  fold_left update_and_fit deltas (fit_tilt p).

(* ================================================================================================
   Entry points, refusal paths and early returns around the numeric core (deepen work item)
   ================================================================================================ *)

(* ---- DispersiveTilt.__init__: asserts trace order >= 1 and dispersion order >= 1; the analytic branches are taken
   per polynomial when its order is exactly 1, every other order goes to scipy (outside the model) ---- *)
Inductive disp_kind :=
| DispRefused                  (* AssertionError *)
| DispFirst (t : tilt)         (* both polynomials of first order: the modelled element *)
| DispHigher.                  (* some polynomial of order > 1: numeric branch *)
Definition mk_disp (trace disp : list Qc) (root : Qc) : disp_kind :=
  if (Nat.ltb (length trace) 2) || (Nat.ltb (length disp) 2) then DispRefused
  else match trace, disp with
       | [t0; t1], [d0; d1] => DispFirst (TiltDisp t0 t1 d0 d1 root)
       | _, _ => DispHigher
       end.

(* ---- propagate_fft: _has_tilt(wavefront) -> NotImplementedError ---- *)
Definition is_nil {A} (l : list A) : bool := match l with [] => true | _ => false end.
Definition has_tilt (fields : list (list tilt)) : bool := existsb (fun tl => negb (is_nil tl)) fields.
Definition fft_guard (fields : list (list tilt)) : result unit :=
  if has_tilt fields then Err NotImplementedErr else Ok tt.

(* ---- the entry of fit_tilt: which planes are fitted at all, and what happens to the receiver ---- *)
Inductive pkind := KPlane | KPupil | KImage.
(* returns (the plane handed back, the receiver after the call).
   Image.fit_tilt returns self untouched; a plane without a 2-d mask (shape ()) has ptt_vector None and is handed
   back as is - before the pixelscale is looked at; otherwise Plane.fit_tilt on the plane itself (inplace) or on a copy *)
Definition fit_tilt_call (k : pkind) (has_mask inplace : bool) (p : qplane) : result (qplane * qplane) :=
  match k with
  | KImage => Ok (p, p)
  | _ => if negb has_mask then Ok (p, p)
         else rbind (fit_tilt p) (fun q => Ok (q, if inplace then q else p))
  end.
