(* Model of the FFT propagator of lentil/propagate.py (propagate_fft, scratch_shape, _fft_shape,
   _dft_alpha, _fft2, _has_tilt, _propagate_ptype) and of lentil.util.pad for 2-d arrays, as the
   code stands after the fix: commits cac6dc4, f003478, 10b9a45 and 1b12b57.

   External primitive: np.fft.fft2.  Its contract is numpy's documented definition
       fft2 x [k,l] = sum_{a,b} x[a,b] exp(-2 pi i (a k / N_r + b l / N_c))
   written here as [fft2_plain] (executed row-column, proved equal to the double sum in Proofs/FftP.v);
   fftshift / ifftshift are np.roll by floor(N/2) / -floor(N/2) along both axes; norm='ortho'
   multiplies by 1/sqrt(N_r N_c) (the square root is the parameter [sq], as in Model/Dft.v).
   Floats are rationals; the oversampling factor is a positive integer (the code multiplies shapes
   by it and uses the products as array shapes). *)
From LV Require Export Model.Field Model.Dft.

(* ---- scalar helpers on rationals ---- *)
Definition qleb (a b : Qc) : bool := Qle_bool (this a) (this b).
Definition qmin (a b : Qc) : Qc := if qleb a b then a else b.
Definition qmax (a b : Qc) : Qc := if qleb a b then b else a.
(* np.max of a non-empty sequence (of a scalar: the scalar itself) *)
Definition qmaxl (l : list Qc) : Qc := match l with [] => 0%Qc | x :: r => fold_left qmax r x end.
(* np.round: round half to even *)
Definition round_half_even (q : Qc) : Z :=
  let n := Qnum (this q) in let d := Zpos (Qden (this q)) in
  let f := n / d in let r := n mod d in
  if 2 * r <? d then f else if d <? 2 * r then f + 1 else if Z.even f then f else f + 1.
(* the phase a/n, in turns *)
Definition turn (a n : Z) : Qc := (zq a / zq n)%Qc.

(* ---- _dft_alpha, _fft_shape, scratch_shape ---- *)
Definition dft_alpha (dx du : Qc * Qc) (wavelength z : Qc) (os : Z) : Qc * Qc :=
  ((fst dx * fst du) / (wavelength * z * zq os), (snd dx * snd du) / (wavelength * z * zq os))%Qc.
(* np.min((fft_shape/oversample * dx * du)/z) *)
Definition prop_wavelength (N0 N1 : Z) (dx du : Qc * Qc) (z : Qc) (os : Z) : Qc :=
  qmin ((zq N0 / zq os * fst dx * fst du) / z)%Qc ((zq N1 / zq os * snd dx * snd du) / z)%Qc.
(* _fft_shape(dx, du, z, wavelength, oversample) passes (dx, du, z, wavelength, oversample) positionally to
   _dft_alpha(dx, du, wavelength, z, oversample): the two arguments swap roles, their product is what counts *)
Definition fft_grid (dx du : Qc * Qc) (z wavelength : Qc) (os : Z) : Z * Z :=
  let alpha := dft_alpha dx du z wavelength os in
  (round_half_even (/ fst alpha)%Qc, round_half_even (/ snd alpha)%Qc).
Definition fft_shape (dx du : Qc * Qc) (z wavelength : Qc) (os : Z) : (Z * Z) * Qc :=
  let N := fft_grid dx du z wavelength os in (N, prop_wavelength (fst N) (snd N) dx du z os).
Definition scratch_shape (wavelengths : list Qc) (dx du : Qc * Qc) (z : Qc) (os : Z) : Z * Z :=
  fst (fft_shape dx du z (qmaxl wavelengths) os).

Inductive ptype := PNone | PPupil | PImage.
Definition propagate_ptype (p : ptype) : result ptype :=
  match p with PPupil => Ok PImage | PImage => Ok PPupil | PNone => Err TypeError end.

Section Fft.
Variable S : Scalar.
Variable sq : Qc -> S.        (* sq q = sqrt q, q >= 0 *)

(* ---- lentil.util.pad, 2-d branch: one axis gives (source start, source stop, target start, target stop) ---- *)
Record padax := mkPadax { s_lo : Z; s_hi : Z; t_lo : Z; t_hi : Z }.
Definition pad_axis (n N : Z) : padax :=
  if N - n <=? 0 then mkPadax (n / 2 - N / 2) (n / 2 - N / 2 + N) 0 N
  else mkPadax 0 n (N / 2 - n / 2) (N / 2 - n / 2 + n).
Definition pad2 (a : arr S) (Nr Nc : Z) : arr S :=
  let pr := pad_axis (nr a) Nr in let pc := pad_axis (nc a) Nc in
  force (mkArr Nr Nc (fun i j =>
    if (t_lo pr <=? i) && (i <? t_hi pr) && (t_lo pc <=? j) && (j <? t_hi pc)
    then get a (i - t_lo pr + s_lo pr) (j - t_lo pc + s_lo pc) else k0)).

(* ---- np.fft ---- *)
Definition fft2_plain (x : arr S) : arr S :=
  let Nr := nr x in let Nc := nc x in
  let t := force (mkArr Nr Nc (fun k b => sumZ Nr (fun a => (ke (turn (a * k) Nr) * get x a b)%K))) in
  force (mkArr Nr Nc (fun k l => sumZ Nc (fun b => (get t k b * ke (turn (b * l) Nc))%K))).
Definition fftshift (x : arr S) : arr S :=
  mkArr (nr x) (nc x) (fun i j => get x ((i - nr x / 2) mod nr x) ((j - nc x / 2) mod nc x)).
Definition ifftshift (x : arr S) : arr S :=
  mkArr (nr x) (nc x) (fun i j => get x ((i + nr x / 2) mod nr x) ((j + nc x / 2) mod nc x)).
Definition ortho_scale (Nr Nc : Z) : S := sq (/ zq (Nr * Nc))%Qc.
Definition fft2_ortho (x : arr S) : arr S :=
  amap (fun z => (z * ortho_scale (nr x) (nc x))%K) (fft2_plain x).
(* _fft2 *)
Definition fft2c (x : arr S) : arr S := force (fftshift (fft2_ortho (force (ifftshift x)))).

(* ---- Wavefront: the attributes the propagators read ---- *)
Record wavefront := mkWf {
  wdata : list (field S);
  wshape : Z * Z;
  wlam : Qc;               (* wavelength *)
  wpix : Qc * Qc;          (* pixelscale *)
  wz : Qc;                 (* focal_length *)
  wpt : ptype }.

(* _has_tilt *)
Definition tilted (f : field S) : bool := match ftilt f with [] => false | _ :: _ => true end.
Definition has_tilt (w : wavefront) : bool := existsb tilted (wdata w).

(* numpy basic-slice assignment  buf[0:N0, 0:N1] = v *)
Definition assign_region (buf : arr S) (N0 N1 : Z) (v : arr S) : arr S :=
  mkArr (nr buf) (nc buf) (fun i j =>
    if (0 <=? i) && (i <? N0) && (0 <=? j) && (j <? N1) then get v i j else get buf i j).
(* scratch[0:N0,0:N1] = insert(field, scratch[0:N0,0:N1]) *)
Definition scratch_step (N0 N1 : Z) (acc : result (arr S)) (f : field S) : result (arr S) :=
  rbind acc (fun b => rbind (insert (fun x => x) f (aslice b 0 N0 0 N1) k1)
                            (fun v => Ok (force (assign_region b N0 N1 v)))).
Definition scratch_fill (fs : list (field S)) (N0 N1 : Z) (buf : arr S) : result (arr S) :=
  fold_left (scratch_step N0 N1) fs (Ok (assign_region buf N0 N1 (azeros N0 N1))).

(* the shape argument *)
Definition out_shape (N0 N1 : Z) (shape : option (Z * Z)) (os : Z) : result (Z * Z) :=
  match shape with
  | None => Ok (N0, N1)
  | Some s =>                                     (* np.any(shape > fft_shape/oversample), oversample > 0 *)
    if (N0 <? fst s * os) || (N1 <? snd s * os) then Err ValueError else Ok (fst s * os, snd s * os)
  end.

(* the transformed grid, and the scratch buffer as the call leaves it *)
Definition fft_field (N0 N1 : Z) (w : wavefront) (scratch : option (arr S)) : result (arr S * option (arr S)) :=
  match scratch with
  | Some buf =>
    if negb ((N0 <=? nr buf) && (N1 <=? nc buf)) then Err ValueError
    else rbind (scratch_fill (wdata w) N0 N1 buf)
               (fun b => Ok (fft2c (aslice b 0 N0 0 N1), Some b))
  | None =>
    rbind (render (wdata w) (fst (wshape w)) (snd (wshape w)))
          (fun fld => Ok (fft2c (pad2 fld N0 N1), None))
  end.

(* propagate_fft with the grid (N0, N1) that _fft_shape returned *)
Definition propagate_fft_N (N0 N1 : Z) (w : wavefront) (du : Qc * Qc) (shape : option (Z * Z)) (os : Z)
           (scratch : option (arr S)) : result (wavefront * option (arr S)) :=
  if has_tilt w then Err NotImplementedErr else
  rbind (propagate_ptype (wpt w)) (fun pt =>
  rbind (out_shape N0 N1 shape os) (fun so =>
  rbind (fft_field N0 N1 w scratch) (fun Fs =>
  (* field = lentil.pad(field, shape_out): only the part of the grid the output Wavefront covers is stored (fix 1b12b57) *)
  Ok (mkWf [mkField (D2 (pad2 (fst Fs) (fst so) (snd so))) 0 0 []] so
           (prop_wavelength N0 N1 (wpix w) du (wz w) os)
           (fst du / zq os, snd du / zq os)%Qc (wz w) pt,
      snd Fs)))).

Definition propagate_fft (w : wavefront) (du : Qc * Qc) (shape : option (Z * Z)) (os : Z)
           (scratch : option (arr S)) : result (wavefront * option (arr S)) :=
  let N := fft_grid (wpix w) du (wz w) (wlam w) os in
  propagate_fft_N (fst N) (snd N) w du shape os scratch.

(* Wavefront.field of the result *)
Definition wfield (w : wavefront) : result (arr S) := render (wdata w) (fst (wshape w)) (snd (wshape w)).
End Fft.
Arguments pad_axis : simpl never.
Arguments pad2 {S}. Arguments fft2_plain {S}. Arguments fftshift {S}. Arguments ifftshift {S}.
Arguments ortho_scale {S}. Arguments fft2_ortho {S}. Arguments fft2c {S}.
Arguments mkWf {S}. Arguments wdata {S}. Arguments wshape {S}. Arguments wlam {S}. Arguments wpix {S}.
Arguments wz {S}. Arguments wpt {S}. Arguments tilted {S}. Arguments has_tilt {S}.
Arguments assign_region {S}. Arguments scratch_step {S}. Arguments scratch_fill {S}.
Arguments fft_field {S}. Arguments propagate_fft_N {S}. Arguments propagate_fft {S}. Arguments wfield {S}.
