(* idft2's out= argument (lentil/fourier.py): the buffer is handed to dft2 (same dtype check, same shape
   requirement of np.dot(..., out=)), conjugated in place and, unless unitary, divided in place; the returned
   array IS the buffer, so every cell of the buffer holds the fresh result. *)
From LV Require Export Model.Dft.

Section DftOut.
Variable S : Scalar.
Variable sq : Qc -> S.

Definition idft2_out (out : option (dtype * arr S)) (F : arr S) (ar ac : Qc) (M N : Z) (shr shc : Qc)
           (unitary : bool) : result (arr S) :=
  match out with
  | None => Ok (idft2 sq F ar ac M N shr shc unitary)
  | Some (dt, buf) =>
    match dt with
    | Float64 => Err TypeError
    | _ => if (nr buf =? M) && (nc buf =? N)
           then Ok (idft2 sq F ar ac M N shr shc unitary)
           else Err ValueError
    end
  end.
End DftOut.
Arguments idft2_out {S}.
