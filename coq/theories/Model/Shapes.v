(* Model of lentil/helper.py:mesh, lentil/shape.py (circle, rectangle, hexagon) and
   lentil/segmented.py (hex_segments, hex_ring, hex_to_rc).  Definitions only.
   The drawing code needs an order, a square root and sines/cosines.  The model is generic in a
   scalar structure with a comparison [leb] and a square-root function [sq]; the values of
   sqrt(3), cos/sin of the rotation angle and of the six hexagon normals are parameters (in the
   theorems over the reals they are the real functions, in the executed rational instance they
   are the numbers numpy computed -- every float is a rational). *)
From LV Require Export Lib.Arr Model.Geometry.

Definition hex := (Z * Z * Z)%type.
Definition hex_add (a b : hex) : hex :=
  let '(aq, ar, as_) := a in let '(bq, br, bs) := b in (aq + bq, ar + br, as_ + bs).
Definition hex_directions : list hex :=
  [(1, 0, -1); (1, -1, 0); (0, -1, 1); (-1, 0, 1); (-1, 1, 0); (0, 1, -1)].

(* for j in range(k): results.append(hex); hex = hex_neighbor(hex, i) *)
Fixpoint walk (k : nat) (h d : hex) : list hex * hex :=
  match k with
  | O => ([], h)
  | Datatypes.S k' => let '(l, e) := walk k' (hex_add h d) d in (h :: l, e)
  end.
(* for i in range(6): ... *)
Fixpoint ring_loop (ds : list hex) (k : nat) (h : hex) : list hex :=
  match ds with
  | [] => []
  | d :: t => let '(l, e) := walk k h d in l ++ ring_loop t k e
  end.
Definition hex_ring (radius : Z) : list hex :=
  ring_loop hex_directions (Z.to_nat radius) (- radius, radius, 0).

(* the segments of rings 1..rings in the order hex_segments visits them *)
Definition hex_all (rings : Z) : list hex :=
  flat_map (fun k => hex_ring (Z.of_nat k + 1)) (seq 0 (Z.to_nat rings)).
(* segment numbers: 0 is the centre, then 1, 2, ... ring by ring *)
Definition numbered (l : list hex) : list (Z * hex) :=
  combine (map Z.of_nat (seq 1 (length l))) l.
Definition in_drop (drop : list Z) (s : Z) : bool := existsb (Z.eqb s) drop.
Definition hex_numbered (rings : Z) : list (Z * hex) := (0, (0, 0, 0)) :: numbered (hex_all rings).
Definition hex_kept (rings : Z) (drop : list Z) : list (Z * hex) :=
  filter (fun p => negb (in_drop drop (fst p))) (hex_numbered rings).

Section Shapes.
Variable S : Scalar.
Variable leb : S -> S -> bool.      (* a <= b *)
Variable sq : S -> S.               (* square root *)

Definition kofz (z : Z) : S := kofq (Q2Qc (inject_Z z)).
Definition khalf : S := kofq (Q2Qc (1 # 2)).
Definition k32 : S := kofq (Q2Qc (3 # 2)).
Definition kmax (a b : S) : S := if leb a b then b else a.      (* np.maximum *)
Definition kmin (a b : S) : S := if leb a b then a else b.      (* np.minimum *)
Definition clip (x lo hi : S) : S := kmin (kmax x lo) hi.       (* np.clip *)
Definition kabs (x : S) : S := if leb k0 x then x else (- x)%K.
Definition gtb (a b : S) : bool := negb (leb a b).               (* a > b *)
Definition binarize (x : S) : S := if gtb x k0 then k1 else x.  (* mask[mask > 0] = 1 *)

(* helper.mesh: np.arange(n) - np.floor(n/2.0) - shift, then the rotation *)
Definition mesh1 (n i : Z) (sh : S) : S := (kofz i - kofz (n / 2) - sh)%K.
Definition rot_r (rr cc co si : S) : S := (rr * co + cc * si)%K.
Definition rot_c (rr cc co si : S) : S := (rr * (- si) + cc * co)%K.

(* ---- circle ---- *)
Definition circle_val (n m : Z) (radius sh0 sh1 : S) (aa : bool) (i j : Z) : S :=
  let rr := (rot_r (mesh1 n i k0) (mesh1 m j k0) k1 k0 - sh0)%K in
  let cc := (rot_c (mesh1 n i k0) (mesh1 m j k0) k1 k0 - sh1)%K in
  let v := clip (radius + khalf - sq (rr * rr + cc * cc))%K k0 k1 in
  if aa then v else binarize v.
Definition circle (n m : Z) (radius sh0 sh1 : S) (aa : bool) : arr S :=
  mkArr n m (circle_val n m radius sh0 sh1 aa).

(* ---- rectangle: co, si = cos, sin of deg2rad(angle) ---- *)
Definition rect_val (n m : Z) (width height sh0 sh1 co si : S) (aa : bool) (i j : Z) : S :=
  let rr := rot_r (mesh1 n i sh0) (mesh1 m j sh1) co si in
  let cc := rot_c (mesh1 n i sh0) (mesh1 m j sh1) co si in
  let wc := clip (khalf + width * khalf - kabs cc)%K k0 k1 in
  let hc := clip (khalf + height * khalf - kabs rr)%K k0 k1 in
  let v := kmin (kmin k1 wc) hc in
  if aa then v else binarize v.
Definition rectangle (n m : Z) (width height sh0 sh1 co si : S) (aa : bool) : arr S :=
  mkArr n m (rect_val n m width height sh0 sh1 co si aa).

(* ---- helper.mesh itself: the pair (r, c) of rotated coordinates of sample (i, j) ---- *)
Definition mesh_val (n m : Z) (sh0 sh1 co si : S) (i j : Z) : S * S :=
  (rot_r (mesh1 n i sh0) (mesh1 m j sh1) co si, rot_c (mesh1 n i sh0) (mesh1 m j sh1) co si).

(* ---- spider: 1 - rectangle(shape, len, width, shift', angle); [s2] = sqrt 2.
   len = sqrt(2)*max(shape)/2, the arm is pushed out of the centre by len/2 along the angle:
   shift' = (shift[0] - len/2 * sin, shift[1] + len/2 * cos) ---- *)
Definition spider_len (n m : Z) (s2 : S) : S := (s2 * kofz (Z.max n m) * khalf)%K.
Definition spider_val (n m : Z) (width s2 sh0 sh1 co si : S) (aa : bool) (i j : Z) : S :=
  let len := spider_len n m s2 in
  let dist := (len * khalf)%K in
  (k1 - rect_val n m len width (sh0 + (- dist) * si)%K (sh1 + dist * co)%K co si aa i j)%K.
Definition spider (n m : Z) (width s2 sh0 sh1 co si : S) (aa : bool) : arr S :=
  mkArr n m (spider_val n m width s2 sh0 sh1 co si aa).

(* ---- hexagon: [ns] = the six (sin theta, cos theta); [s3] = sqrt 3 ---- *)
Definition hex_slc (inner : S) (aa : bool) (r c : S) (nrm : S * S) : S :=
  let rho := (r * fst nrm + c * snd nrm)%K in
  if aa then clip (inner + khalf - rho)%K k0 k1
  else if gtb rho inner then k0 else k1.
Definition hex_fold (inner : S) (aa : bool) (r c : S) (ns : list (S * S)) : S :=
  fold_left (fun acc nrm => kmin acc (hex_slc inner aa r c nrm)) ns k1.
Definition hex_val (n m : Z) (radius s3 sh0 sh1 : S) (ns : list (S * S)) (aa : bool) (i j : Z) : S :=
  let r := rot_r (mesh1 n i sh0) (mesh1 m j sh1) k1 k0 in
  let c := rot_c (mesh1 n i sh0) (mesh1 m j sh1) k1 k0 in
  hex_fold (radius * s3 * khalf)%K aa r c ns.
Definition hexagon (n m : Z) (radius s3 sh0 sh1 : S) (ns : list (S * S)) (aa : bool) : arr S :=
  mkArr n m (hex_val n m radius s3 sh0 sh1 ns aa).

(* ---- hex_to_rc(h, radius, rotate) = (-y, x) of hex_to_xy ---- *)
Definition hex_to_rc (h : hex) (rad s3 : S) (rotate : bool) : S * S :=
  let '(q, r, _) := h in
  if rotate
  then ((- (rad * (k32 * kofz r)))%K, (rad * (s3 * kofz q + s3 * khalf * kofz r))%K)
  else ((- (rad * (s3 * khalf * kofz q + s3 * kofz r)))%K, (rad * (k32 * kofz q))%K).

(* the shifts hex_segments passes to hexagon, with the segment numbers, after dropping *)
Definition seg_shift (rad s3 : S) (rotate : bool) (p : Z * hex) : Z * (S * S) :=
  (fst p, if fst p =? 0 then (k0, k0) else hex_to_rc (snd p) rad s3 rotate).
Definition hex_shifts (rings : Z) (seg_radius seg_gap s3 : S) (rotate : bool) (drop : list Z)
  : list (Z * (S * S)) :=
  map (seg_shift (seg_radius + seg_gap * khalf)%K s3 rotate) (hex_kept rings drop).
End Shapes.

Arguments kofz {S}. Arguments khalf {S}. Arguments k32 {S}. Arguments kmax {S}. Arguments kmin {S}.
Arguments clip {S}. Arguments kabs {S}. Arguments gtb {S}. Arguments binarize {S}. Arguments mesh1 {S}.
Arguments rot_r {S}. Arguments rot_c {S}. Arguments circle_val {S}. Arguments circle {S}.
Arguments rect_val {S}. Arguments rectangle {S}. Arguments mesh_val {S}. Arguments spider_len {S}.
Arguments spider_val {S}. Arguments spider {S}. Arguments hex_slc {S}. Arguments hex_fold {S}.
Arguments hex_val {S}. Arguments hexagon {S}. Arguments hex_to_rc {S}. Arguments seg_shift {S}.
Arguments hex_shifts {S}.

(* ---- the executed instance: rationals, exact order, square root rounded down to 2^-60 ---- *)
Definition qsqrt (x : Qc) : Qc :=
  let q := this x in
  Q2Qc (Z.sqrt ((Qnum q * 2 ^ 120) / Zpos (Qden q)) # 2 ^ 60).
(* size = ceil((rings*2+1)*inner_radius*2 + rings*2*seg_gap + pad*2) *)
Definition qceil (x : Qc) : Z := let q := this x in - ((- Qnum q) / Zpos (Qden q)).
Definition hex_size (rings : Z) (seg_radius seg_gap s3 : Qc) (pad : Z) : Z :=
  let inner := (seg_radius * s3 * Q2Qc (1 # 2))%Qc in
  qceil (zq (rings * 2 + 1) * inner * zq 2 + zq (rings * 2) * seg_gap + zq (pad * 2))%Qc.
