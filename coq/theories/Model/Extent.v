(* Model of lentil/extent.py, function by function.  Extents are closed integer boxes
   (rmin, rmax, cmin, cmax); a shape is a pair; the empty tuple () returned by
   intersection_shape is [None]. *)
From LV Require Export Lib.Base.

Definition extent := (Z * Z * Z * Z)%type.

(* array_extent(shape, shift) without parent_shape.  Shapes with fewer than two
   dimensions are treated by the code as (1, 1): callers pass (1,1) for them. *)
Definition array_extent (sr sc shr shc : Z) : extent :=
  let rmin := - (sr / 2) + shr in
  let cmin := - (sc / 2) + shc in
  (rmin, rmin + sr - 1, cmin, cmin + sc - 1).

Definition array_center (e : extent) : Z * Z :=
  let '(rmin, rmax, cmin, cmax) := e in
  let nrow := rmax - rmin + 1 in let ncol := cmax - cmin + 1 in
  (rmin + nrow / 2, cmin + ncol / 2).

Definition intersect (a b : extent) : bool :=
  let '(armin, armax, acmin, acmax) := a in
  let '(brmin, brmax, bcmin, bcmax) := b in
  (armin <=? brmax) && (armax >=? brmin) && (acmin <=? bcmax) && (acmax >=? bcmin).

Definition intersection_extent (a b : extent) : extent :=
  let '(armin, armax, acmin, acmax) := a in
  let '(brmin, brmax, bcmin, bcmax) := b in
  (Z.max armin brmin, Z.min armax brmax, Z.max acmin bcmin, Z.min acmax bcmax).

Definition intersection_shape (a b : extent) : option (Z * Z) :=
  let '(rmin, rmax, cmin, cmax) := intersection_extent a b in
  let n_r := rmax - rmin + 1 in let n_c := cmax - cmin + 1 in
  if (n_r <=? 0) || (n_c <=? 0) then None else Some (n_r, n_c).

(* slices as (start, stop) pairs: ((arow, acol), (brow, bcol)) *)
Definition intersection_slices (a b : extent) : ((Z*Z)*(Z*Z)) * ((Z*Z)*(Z*Z)) :=
  let '(rmin, rmax, cmin, cmax) := intersection_extent a b in
  let '(armin, armax, acmin, acmax) := a in
  let '(brmin, brmax, bcmin, bcmax) := b in
  (((rmin - armin, rmax - armin + 1), (cmin - acmin, cmax - acmin + 1)),
   ((rmin - brmin, rmax - brmin + 1), (cmin - bcmin, cmax - bcmin + 1))).

Definition intersection_shift (a b : extent) : Z * Z :=
  let '(rmin, rmax, cmin, cmax) := intersection_extent a b in
  let nrow := rmax - rmin + 1 in let ncol := cmax - cmin + 1 in
  (rmin + nrow / 2, cmin + ncol / 2).

(* the set of integer pixel coordinates an extent denotes *)
Definition inE (e : extent) (r c : Z) : bool :=
  let '(rmin, rmax, cmin, cmax) := e in inb rmin rmax r && inb cmin cmax c.
Definition ext_shape (e : extent) : Z * Z :=
  let '(rmin, rmax, cmin, cmax) := e in (rmax - rmin + 1, cmax - cmin + 1).
