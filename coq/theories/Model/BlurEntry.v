(* The renormalisation of lentil.jitter / lentil.smear as the code executes it (after fix a520356):
       weight = np.sum(out);  if weight == 0: return out;  return out * np.sum(img) / weight
   out >= 0, so a zero weight means out is identically zero: an empty image stays empty instead of 0 * 0 / 0 = NaN.
   [is0] decides equality with zero on the scalars (exact on the rationals of the execution, classical on C). *)
From LV Require Export Model.Blur.

Section Entry.
Variable S : Scalar.
Variable is0 : S -> bool.
Variables sinc gauss : Qc -> S.
Variable kabs : S -> S.
Variable kinv : S -> S.

Definition renorm_checked (out img : arr S) : arr S :=
  if is0 (asum out) then out else renorm kinv out img.

Definition jitter_checked (img : arr S) (scale pixelscale os : Qc) : arr S :=
  renorm_checked (blur kabs (jitter_mul gauss scale pixelscale os (nr img) (nc img)) img) img.
Definition smear_checked (img : arr S) (distance sn cs pixelscale os : Qc) : arr S :=
  renorm_checked (blur kabs (smear_mul sinc distance sn cs pixelscale os (nr img) (nc img)) img) img.
End Entry.
Arguments renorm_checked {S}. Arguments jitter_checked {S}. Arguments smear_checked {S}.
