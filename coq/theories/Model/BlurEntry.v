(* The renormalisation  out * np.sum(img) / np.sum(out)  of lentil.jitter / lentil.smear as the code executes it:
   when np.sum(out) is zero every sample is 0 * sum(img) / 0 = NaN (numpy emits a RuntimeWarning and returns an
   all-NaN frame; out >= 0, so a zero total means out is identically zero).  [None] stands for that all-NaN frame.
   [is0] decides equality with zero on the scalars (exact on the rationals of the execution, classical on C). *)
From LV Require Export Model.Blur.

Section Entry.
Variable S : Scalar.
Variable is0 : S -> bool.
Variables sinc gauss : Qc -> S.
Variable kabs : S -> S.
Variable kinv : S -> S.

Definition renorm_checked (out img : arr S) : option (arr S) :=
  if is0 (asum out) then None else Some (renorm kinv out img).

Definition jitter_checked (img : arr S) (scale pixelscale os : Qc) : option (arr S) :=
  renorm_checked (blur kabs (jitter_mul gauss scale pixelscale os (nr img) (nc img)) img) img.
Definition smear_checked (img : arr S) (distance sn cs pixelscale os : Qc) : option (arr S) :=
  renorm_checked (blur kabs (smear_mul sinc distance sn cs pixelscale os (nr img) (nc img)) img) img.
End Entry.
Arguments renorm_checked {S}. Arguments jitter_checked {S}. Arguments smear_checked {S}.
