(* Model of the array-geometry helpers of lentil/util.py and lentil/helper.py, function by
   function (current code, i.e. after fix 10b9a45): pad (2-D arrays and cubes), subarray,
   window, boundary, boundary_slice, slice_offset, centroid, rebin (2-D arrays and cubes).
   Definitions only.  Arrays are the pull arrays of Lib/Arr.v; a cube (numpy shape (d, r, c))
   is an index function of three integers.  The origin convention is index floor(n/2) = [ctr n]. *)
From LV Require Export Lib.Arr Model.Extent.

Record cube (S : Scalar) := mkCube { cd : Z; cr : Z; cc : Z; cget : Z -> Z -> Z -> S }.
Arguments mkCube {S}. Arguments cd {S}. Arguments cr {S}. Arguments cc {S}. Arguments cget {S}.

(* ---- one axis of lentil.pad: the four slice bounds computed from the axis length n and the
   requested length N ([dr <= 0] branch = shrink or keep, else grow) ---- *)
Definition pad_src_lo (n N : Z) : Z := if N - n <=? 0 then n / 2 - N / 2 else 0.
Definition pad_src_hi (n N : Z) : Z := if N - n <=? 0 then (n / 2 - N / 2) + N else n.
Definition pad_dst_lo (n N : Z) : Z := if N - n <=? 0 then 0 else N / 2 - n / 2.
Definition pad_dst_hi (n N : Z) : Z := if N - n <=? 0 then N else (N / 2 - n / 2) + n.

(* numpy normalisation of one bound of a basic slice on an axis of length n *)
Definition np_bound (n x : Z) : Z := if x <? 0 then Z.max (x + n) 0 else Z.min x n.

(* first / last index below n at which a predicate holds *)
Fixpoint first_from (k : nat) (i : Z) (f : Z -> bool) : option Z :=
  match k with
  | O => None
  | Datatypes.S k' => if f i then Some i else first_from k' (i + 1) f
  end.
Fixpoint last_below (k : nat) (f : Z -> bool) : option Z :=
  match k with
  | O => None
  | Datatypes.S k' => if f (Z.of_nat k') then Some (Z.of_nat k') else last_below k' f
  end.
Definition first_true (n : Z) (f : Z -> bool) : option Z := first_from (Z.to_nat n) 0 f.
Definition last_true (n : Z) (f : Z -> bool) : option Z := last_below (Z.to_nat n) f.
Definition anyZ (n : Z) (f : Z -> bool) : bool :=
  match first_true n f with Some _ => true | None => false end.

(* the slice arguments slice_offset understands (the property pins a bare Ellipsis and a pair
   of slice objects with integer bounds) *)
Inductive slc := SlEllipsis | SlBox (r0 r1 c0 c1 : Z).

Definition bslice_of (n m pr pc : Z) (b : Z * Z * Z * Z) : Z * Z * Z * Z :=
  let '(r0, r1, c0, c1) := b in
  (Z.max (r0 - pr) 0, Z.min (r1 + pr + 1) n, Z.max (c0 - pc) 0, Z.min (c1 + pc + 1) m).

Section Geometry.
Variable S : Scalar.

Definition cslice (c : cube S) (k : Z) : arr S := mkArr (cr c) (cc c) (cget c k).

(* ---- lentil.pad ---- *)
Definition pad_get (n m N M : Z) (g : Z -> Z -> S) (i j : Z) : S :=
  if (pad_dst_lo n N <=? i) && (i <? pad_dst_hi n N) && (pad_dst_lo m M <=? j) && (j <? pad_dst_hi m M)
  then g (i - pad_dst_lo n N + pad_src_lo n N) (j - pad_dst_lo m M + pad_src_lo m M)
  else k0.
(* np.zeros refuses negative dimensions *)
Definition pad2 (a : arr S) (N M : Z) : result (arr S) :=
  if (N <? 0) || (M <? 0) then Err ValueError
  else Ok (mkArr N M (pad_get (nr a) (nc a) N M (get a))).
(* cube: axis lengths are read from shape[1], shape[2]; every slice is placed the same way *)
Definition pad3 (c : cube S) (N M : Z) : result (cube S) :=
  if (N <? 0) || (M <? 0) then Err ValueError
  else Ok (mkCube (cd c) N M (fun k => pad_get (cr c) (cc c) N M (cget c k))).

(* ---- lentil.subarray (shape entries non-negative) ---- *)
Definition sub_lo (n s sh : Z) : Z := n / 2 - s / 2 + sh.
Definition subarray (a : arr S) (sr sc shr shc : Z) : result (arr S) :=
  let rmin := sub_lo (nr a) sr shr in
  let cmin := sub_lo (nc a) sc shc in
  if (rmin <? 0) || (cmin <? 0) || (rmin + sr >? nr a) || (cmin + sc >? nc a)
  then Err ValueError
  else Ok (aslice a rmin (rmin + sr) cmin (cmin + sc)).

(* numpy basic slicing with arbitrary integer bounds *)
Definition np_slice (a : arr S) (r0 r1 c0 c1 : Z) : arr S :=
  let r0' := np_bound (nr a) r0 in let r1' := np_bound (nr a) r1 in
  let c0' := np_bound (nc a) c0 in let c1' := np_bound (nc a) c1 in
  mkArr (Z.max 0 (r1' - r0')) (Z.max 0 (c1' - c0')) (fun i j => get a (i + r0') (j + c0')).

(* ---- lentil.window ---- *)
Definition window (a : arr S) (shape : option (Z * Z)) (sl : option (Z * Z * Z * Z)) : result (arr S) :=
  if nr a * nc a =? 1 then Ok a else
  match sl with
  | Some (s0, s1, s2, s3) =>
      match shape with
      | Some (h, w) =>
          if negb (s1 - s0 =? h) then Err AssertionErr
          else if negb (s3 - s2 =? w) then Err AssertionErr
          else Ok (np_slice a s0 s1 s2 s3)
      | None => Ok (np_slice a s0 s1 s2 s3)
      end
  | None =>
      match shape with
      | Some (h, w) => pad2 a h w
      | None => Ok a
      end
  end.

(* lentil.window on a cube (depth, rows, cols).  [shape] goes to lentil.pad, which treats axes 1 and 2
   as the image; [slice] = (r_start, r_end, c_start, c_end) indexes the same image axes of every layer.
   (The code before the proposed fix c20-window-slice-cube.patch applies img[s0:s1, s2:s3] to the LEADING
   two axes of a cube: known finding C20-window-slice-cube-axes; the model is the repaired behaviour and
   the check recognises exactly the leading-axes result as that finding.) *)
Definition np_slice3 (c : cube S) (r0 r1 c0 c1 : Z) : cube S :=
  let r0' := np_bound (cr c) r0 in let r1' := np_bound (cr c) r1 in
  let c0' := np_bound (cc c) c0 in let c1' := np_bound (cc c) c1 in
  mkCube (cd c) (Z.max 0 (r1' - r0')) (Z.max 0 (c1' - c0')) (fun k i j => cget c k (i + r0') (j + c0')).
Definition window3 (c : cube S) (shape : option (Z * Z)) (sl : option (Z * Z * Z * Z)) : result (cube S) :=
  if cd c * cr c * cc c =? 1 then Ok c else
  match sl with
  | Some (s0, s1, s2, s3) =>
      match shape with
      | Some (h, w) =>
          if negb (s1 - s0 =? h) then Err AssertionErr
          else if negb (s3 - s2 =? w) then Err AssertionErr
          else Ok (np_slice3 c s0 s1 s2 s3)
      | None => Ok (np_slice3 c s0 s1 s2 s3)
      end
  | None =>
      match shape with
      | Some (h, w) => pad3 c h w
      | None => Ok c
      end
  end.

(* ---- lentil.boundary: [p v] is [v > threshold] ---- *)
Definition row_any (p : S -> bool) (a : arr S) (i : Z) : bool := anyZ (nc a) (fun j => p (get a i j)).
Definition col_any (p : S -> bool) (a : arr S) (j : Z) : bool := anyZ (nr a) (fun i => p (get a i j)).
Definition boundary (p : S -> bool) (a : arr S) : result (Z * Z * Z * Z) :=
  match first_true (nr a) (row_any p a), last_true (nr a) (row_any p a) with
  | Some r0, Some r1 =>
      match first_true (nc a) (col_any p a), last_true (nc a) (col_any p a) with
      | Some c0, Some c1 => Ok (r0, r1, c0, c1)
      | _, _ => Err IndexError
      end
  | _, _ => Err IndexError       (* np.where(rows)[0][[0, -1]] on an empty index list *)
  end.

(* ---- lentil.helper.boundary_slice: half-open slices (r0, r1, c0, c1) ---- *)
Definition boundary_slice (p : S -> bool) (a : arr S) (pr pc : Z) : result (Z * Z * Z * Z) :=
  match boundary p a with
  | Ok b => Ok (bslice_of (nr a) (nc a) pr pc b)
  | Err e => Err e
  end.

(* ---- lentil.rebin (real data, factor >= 1); reshape refuses when the sizes do not match ---- *)
Definition rebin_get (f : Z) (g : Z -> Z -> S) (i j : Z) : S :=
  sumZ f (fun u => sumZ f (fun v => g (i * f + u) (j * f + v))).
Definition reshape_ok (n m f : Z) : bool := (n / f) * f * ((m / f) * f) =? n * m.
Definition rebin2 (a : arr S) (f : Z) : result (arr S) :=
  if f <=? 0 then Err ValueError
  else if negb (reshape_ok (nr a) (nc a) f) then Err ValueError
  else Ok (mkArr (nr a / f) (nc a / f) (rebin_get f (get a))).
Definition rebin3 (c : cube S) (f : Z) : result (cube S) :=
  if f <=? 0 then Err ValueError
  else if (0 <? cd c) && negb (reshape_ok (cr c) (cc c) f) then Err ValueError
  else Ok (mkCube (cd c) (cr c / f) (cc c / f) (fun k => rebin_get f (cget c k))).

(* the public entry: complex data are refused before anything else *)
Definition rebin2_entry (is_complex : bool) (a : arr S) (f : Z) : result (arr S) :=
  if is_complex then Err ValueError else rebin2 a f.
Definition rebin3_entry (is_complex : bool) (c : cube S) (f : Z) : result (cube S) :=
  if is_complex then Err ValueError else rebin3 c f.

Definition csum (c : cube S) : S := sumZ (cd c) (fun k => asum (cslice c k)).
End Geometry.

Arguments cslice {S}. Arguments pad_get {S}. Arguments pad2 {S}. Arguments pad3 {S}.
Arguments subarray {S}. Arguments np_slice {S}. Arguments window {S}. Arguments np_slice3 {S}. Arguments window3 {S}. Arguments row_any {S}.
Arguments col_any {S}. Arguments boundary {S}. Arguments boundary_slice {S}. Arguments rebin_get {S}.
Arguments rebin2 {S}. Arguments rebin3 {S}. Arguments csum {S}. Arguments rebin2_entry {S}. Arguments rebin3_entry {S}.

(* ---- lentil.helper.slice_offset ---- *)
Definition slice_offset (s : slc) (n m : Z) : Z * Z :=
  match s with
  | SlEllipsis => (0, 0)
  | SlBox r0 r1 c0 c1 => (r0 + (r1 - r0) / 2 - n / 2, c0 + (c1 - c0) / 2 - m / 2)
  end.

(* slice_offset on the tuple forms that contain an Ellipsis: (Ellipsis, slice(None, None, None)) is the whole
   array (offset (0, 0)), any other tuple with an Ellipsis is refused with ValueError (the code since fix 394c6f4;
   before it every such tuple raised TypeError because the parameter `slice` shadowed the builtin) *)
Inductive ellform := EllBare | EllAll | EllOther.
Definition slice_offset_ell (e : ellform) : result (Z * Z) :=
  match e with EllBare => Ok (0, 0) | EllAll => Ok (0, 0) | EllOther => Err ValueError end.

(* ---- lentil.util.sanitize_shape: () stays (), a scalar s becomes (s, s), a sequence is kept ---- *)
Inductive shape_arg := ShScalar (s : Z) | ShSeq (l : list Z).
Definition sanitize_shape (a : shape_arg) : list Z :=
  match a with ShScalar s => [s; s] | ShSeq l => l end.

(* ---- the rationals as a Scalar, and lentil.centroid on them ---- *)
Definition QS : Scalar :=
  mkScalar Qc 0%Qc 1%Qc Qcplus Qcmult Qcminus Qcopp (fun x => x) (fun q => q) (fun _ => 1%Qc).
Definition zq (z : Z) : Qc := Q2Qc (inject_Z z).
Definition qle (a b : Qc) : bool := Qle_bool a b.
Definition qlt (a b : Qc) : bool := negb (Qle_bool b a).

(* img = img / sum(img); r = dot(rr, img); c = dot(cc, img)  (sum(img) <> 0) *)
Definition centroid (a : arr QS) : Qc * Qc :=
  let tot : Qc := asum a in
  (sumZ (S := QS) (nr a) (fun i => sumZ (S := QS) (nc a) (fun j => (zq i * (get a i j / tot))%Qc)),
   sumZ (S := QS) (nr a) (fun i => sumZ (S := QS) (nc a) (fun j => (zq j * (get a i j / tot))%Qc))).
