(* Hand-written model of the code that implements the plane-type rules of lentil - as opposed to
   Gen/PTypeObserved.v, which only records what that code was seen to do.  Follows, branch by branch
   and in the order of the checks:

     lentil/ptype.py      ptype(), PType.__init__                  -> [ptype_of_name]
     lentil/wavefront.py  Wavefront.ptype setter                   -> [set_wavefront_ptype]
     lentil/plane.py      _mul_ptype_table, _can_mul_ptype, _mul_result_ptype   -> [hand_table]
                          _mul_pixelscale                          -> [mul_pixelscale]
                          Plane.multiply (everything but the field arithmetic)  -> [plane_multiply]
                          Pupil.multiply, Image.multiply, TiltInterface.multiply -> [multiply]
     lentil/propagate.py  _propagate_ptype                         -> [propagate_ptype]
                          _has_tilt                                -> [has_tilt]
                          _dft_alpha, _fft_shape                   -> [fft_shape]
                          propagate_dft, propagate_fft (metadata of the result, refusals and their
                          order; not the transform)                -> [propagate_dft], [propagate_fft]

   A wavefront is modelled by its metadata and, per field, the number of tilt objects the field
   carries; the samples themselves are the subject of C01/C02/C06/C07.  Two facts about geometry are
   inputs of the model (computed by the harness with lentil's own Field product / taken from the
   result): [ov i n] - field i and segment n of the plane overlap; [keep i] - field i still meets the
   output window of a DFT propagation.
   Every float is a rational.  Definitions only, no proofs. *)
From LV Require Export Model.PType.
From Coq Require Export QArith Qround.
Open Scope Z_scope.

(* ---- lentil/ptype.py ---- *)
Inductive pname := NmNone | NmPupil | NmImage | NmTilt | NmTransform | NmOther.   (* a string *)
(* ptype(x): None -> 'none'; a PType -> itself; a string -> PType(x), TypeError unless in PTYPES *)
Inductive ptype_arg := ArgNoneObj | ArgPType (p : ptype) | ArgStr (s : pname).
Definition ptype_of_name (s : pname) : result ptype :=
  match s with
  | NmNone => Ok PNone | NmPupil => Ok PPupil | NmImage => Ok PImage | NmTilt => Ok PTilt
  | NmTransform => Ok PTransform | NmOther => Err TypeError
  end.
Definition make_ptype (a : ptype_arg) : result ptype :=
  match a with ArgNoneObj => Ok PNone | ArgPType p => Ok p | ArgStr s => ptype_of_name s end.

(* ---- lentil/wavefront.py: the ptype setter accepts none, pupil, image and nothing else ---- *)
Definition wtype_of_ptype (p : ptype) : option wtype :=
  match p with PNone => Some WNone | PPupil => Some WPupil | PImage => Some WImage | _ => None end.
Definition set_wavefront_ptype (a : ptype_arg) : result wtype :=
  match make_ptype a with
  | Err e => Err e
  | Ok p => match wtype_of_ptype p with Some w => Ok w | None => Err TypeError end
  end.

(* ---- lentil/plane.py: _mul_ptype_table (absent key = not allowed) ---- *)
Definition hand_table (w : wtype) (p : ptype) : option wtype :=
  match w, p with
  | WNone, PNone => Some WNone
  | WNone, PPupil => Some WPupil
  | WNone, PImage => Some WImage
  | WNone, PTilt => Some WNone
  | WNone, PTransform => Some WNone
  | WPupil, PPupil => Some WPupil
  | WPupil, PTilt => Some WPupil
  | WPupil, PTransform => Some WPupil
  | WImage, PImage => Some WImage
  | WImage, PTilt => Some WImage
  | WImage, PTransform => Some WImage
  | _, _ => None
  end.

(* a pixel scale: None or (row, column) *)
Definition psc := option (Q * Q).
Definition psc_eqb (a b : Q * Q) : bool := Qeq_bool (fst a) (fst b) && Qeq_bool (snd a) (snd b).
(* _mul_pixelscale(plane, wavefront) *)
Definition mul_pixelscale (a b : psc) : result psc :=
  match a, b with
  | None, None => Ok None
  | None, Some y => Ok (Some y)
  | Some x, None => Ok (Some x)
  | Some x, Some y => if psc_eqb x y then Ok (Some x) else Err ValueError
  end.

(* focal length: None = numpy.inf *)
Record wmeta := WM {
  w_ty : wtype;
  w_ps : psc;
  w_focal : option Q;
  w_wl : Q;
  w_shape : option (Z * Z);         (* () = None *)
  w_fields : list Z                 (* one entry per field: len(field.tilt) *)
}.

(* which multiply() a plane object runs *)
Inductive pkind :=
  | KindPlane                       (* Plane.multiply: Plane, LensletArray, ... *)
  | KindPupil (focal : option (option Q))
      (* Pupil.multiply: the product takes the pupil's focal_length attribute; the attribute is
         None (outer None) when the Pupil was built without one, else Some f / Some None = inf *)
  | KindImage                       (* Image.multiply: forces ptype image on the product *)
  | KindTilt.                       (* TiltInterface.multiply: appends itself to every field's tilt *)

Record pmeta := PM {
  p_ty : ptype;
  p_ps : psc;
  p_shape : option (Z * Z);         (* () = None: scalar mask *)
  p_nseg : nat;                     (* len(plane._slice) *)
  p_ntilt : Z;                      (* tilt objects a segment's phasor carries (fit_tilt); 0 here *)
  p_kind : pkind
}.

Fixpoint seq_from (k : nat) (n : nat) : list nat :=
  match n with O => [] | S m => k :: seq_from (S k) m end.

(* the double loop of Plane.multiply: for field in data: for n, s in enumerate(self._slice):
   res = field * phasor; if res.size > 0: append - the product carries field.tilt + phasor.tilt *)
Fixpoint mul_fields (i : nat) (fs : list Z) (nseg : nat) (pt : Z) (ov : nat -> nat -> bool) : list Z :=
  match fs with
  | [] => []
  | f :: rest =>
      map (fun _ => f + pt) (filter (ov i) (seq_from 0 nseg)) ++ mul_fields (S i) rest nseg pt ov
  end.

(* Plane.multiply *)
Definition plane_multiply (pl : pmeta) (ov : nat -> nat -> bool) (w : wmeta) : result wmeta :=
  match hand_table (w_ty w) (p_ty pl) with
  | None => Err TypeError                                   (* first: the plane-type check *)
  | Some t =>
      match mul_pixelscale (p_ps pl) (w_ps w) with
      | Err e => Err e                                      (* then: the sampling *)
      | Ok ps =>
          Ok {| w_ty := t; w_ps := ps; w_focal := w_focal w; w_wl := w_wl w;
                w_shape := match p_shape pl with None => w_shape w | Some s => Some s end;
                w_fields := mul_fields 0 (w_fields w) (p_nseg pl) (p_ntilt pl) ov |}
      end
  end.

(* the class-specific wrappers: each calls super().multiply first and then edits the product *)
Inductive mul_out := MOk (w : wmeta) | MOkNoFocal (w : wmeta) | MErr (e : errkind).
   (* MOkNoFocal: the product's focal_length attribute is Python None (Pupil built without one) *)
Definition multiply (pl : pmeta) (ov : nat -> nat -> bool) (w : wmeta) : mul_out :=
  match plane_multiply pl ov w with
  | Err e => MErr e
  | Ok r =>
      match p_kind pl with
      | KindPlane => MOk r
      | KindPupil None => MOkNoFocal r
      | KindPupil (Some f) =>
          MOk {| w_ty := w_ty r; w_ps := w_ps r; w_focal := f; w_wl := w_wl r; w_shape := w_shape r;
                 w_fields := w_fields r |}
      | KindImage =>
          MOk {| w_ty := WImage; w_ps := w_ps r; w_focal := w_focal r; w_wl := w_wl r;
                 w_shape := w_shape r; w_fields := w_fields r |}
      | KindTilt =>
          MOk {| w_ty := w_ty r; w_ps := w_ps r; w_focal := w_focal r; w_wl := w_wl r;
                 w_shape := w_shape r; w_fields := map (fun f => f + 1) (w_fields r) |}
      end
  end.

(* ---- lentil/propagate.py ---- *)
(* _propagate_ptype(ptype, 'fraunhofer') *)
Definition propagate_ptype (w : wtype) : result wtype :=
  match w with WNone => Err TypeError | WPupil => Ok WImage | WImage => Ok WPupil end.
(* _has_tilt: any field with a non-empty tilt list *)
Definition has_tilt (fs : list Z) : bool := existsb (fun f => negb (f =? 0)) fs.

Definition qz (z : Z) : Q := inject_Z z.

Fixpoint count_kept (i : nat) (fs : list Z) (keep : nat -> bool) : list Z :=
  match fs with
  | [] => []
  | _ :: rest => (if keep i then [0] else []) ++ count_kept (S i) rest keep
  end.

(* propagate_dft(wavefront, pixelscale=du, shape=shape, oversample=os): the type check comes first;
   the result keeps wavelength and focal length, is sampled at du/oversample, has shape
   shape*oversample (shape defaults to the wavefront's), and one fresh field - without tilt - per
   field whose displaced window still meets the output.  A wavefront without pixel scale cannot be
   propagated (TypeError from subscripting None; outside the harness's domain). *)
Definition propagate_dft (du : Q * Q) (os : Z) (shape : option (Z * Z)) (keep : nat -> bool)
           (w : wmeta) : result wmeta :=
  match propagate_ptype (w_ty w) with
  | Err e => Err e
  | Ok t =>
      match w_ps w with
      | None => Err TypeError
      | Some _ =>
          let sh := match shape with Some s => Some s | None => w_shape w end in
          Ok {| w_ty := t;
                w_ps := Some (fst du / qz os, snd du / qz os)%Q;
                w_focal := w_focal w; w_wl := w_wl w;
                w_shape := match sh with Some (r, c) => Some (r * os, c * os) | None => None end;
                w_fields := count_kept 0 (w_fields w) keep |}
      end
  end.

(* round half to even of a non-negative rational (numpy.round) *)
Definition qfloor (q : Q) : Z := Qfloor q.
Definition round_half_even (q : Q) : Z :=
  let f := qfloor q in
  let r := (q - qz f)%Q in
  match Qcompare r (1 # 2) with
  | Lt => f
  | Gt => f + 1
  | Eq => if Z.even f then f else f + 1
  end.

(* _dft_alpha and _fft_shape for a finite focal length z: alpha = dx*du/(wl*z*os) per axis,
   fft_shape = round(1/alpha), prop_wavelength = min over the axes of fft_shape/os*dx*du/z *)
Definition fft_shape (dx du : Q * Q) (z wl : Q) (os : Z) : (Z * Z) * Q :=
  let ar := (fst dx * fst du / (wl * z * qz os))%Q in
  let ac := (snd dx * snd du / (wl * z * qz os))%Q in
  let nr := round_half_even (/ ar)%Q in
  let nc := round_half_even (/ ac)%Q in
  let lr := (qz nr / qz os * fst dx * fst du / z)%Q in
  let lc := (qz nc / qz os * snd dx * snd du / z)%Q in
  ((nr, nc), if Qle_bool lr lc then lr else lc).

Definition q_gt_z (a : Z) (n : Z) (os : Z) : bool := negb (Qle_bool (qz a) (qz n / qz os)%Q).

(* propagate_fft(wavefront, pixelscale=du, shape=shape, oversample=os), no scratch: fitted tilt is
   refused BEFORE the type is looked at; then the type check; a requested shape larger than
   fft_shape/oversample is a ValueError; the result has the recomputed propagation wavelength, is
   sampled at du/oversample and carries exactly one field without tilt. *)
Definition propagate_fft (du : Q * Q) (os : Z) (shape : option (Z * Z)) (w : wmeta) : result wmeta :=
  if has_tilt (w_fields w) then Err NotImplementedErr else
  match propagate_ptype (w_ty w) with
  | Err e => Err e
  | Ok t =>
      match w_ps w, w_focal w with
      | Some dx, Some z =>
          let '((nr, nc), lam) := fft_shape dx du z (w_wl w) os in
          let out sh := Ok {| w_ty := t; w_ps := Some (fst du / qz os, snd du / qz os)%Q;
                              w_focal := w_focal w; w_wl := lam; w_shape := Some sh;
                              w_fields := [0] |} in
          match shape with
          | None => out (nr, nc)
          | Some (r, c) =>
              if q_gt_z r nr os || q_gt_z c nc os then Err ValueError else out (r * os, c * os)
          end
      | _, _ => Err TypeError       (* no pixel scale / infinite focal length: outside the domain *)
      end
  end.

(* ---- the abstraction to the state machine of Model/PType.v ---- *)
Definition content_of (fs : list Z) : content :=
  match fs with [] => Empty | _ => if has_tilt fs then Tilted else Plain end.
Definition abs_state (w : wmeta) : wstate := St (w_ty w) (content_of (w_fields w)).
Definition exc_of (e : errkind) : exc :=
  match e with
  | ValueError => EValueError | TypeError => ETypeError | IndexError => EIndexError
  | NotImplementedErr => ENotImplementedError | AssertionErr => EAssertionError
  | AttributeErr => EAttributeError
  end.
Definition abs_result (w : wmeta) (r : result wmeta) : outcome :=
  match r with Ok w' => Yields (abs_state w') | Err e => Raises (exc_of e) (abs_state w) end.
Definition abs_mul_out (w : wmeta) (r : mul_out) : outcome :=
  match r with
  | MOk w' | MOkNoFocal w' => Yields (abs_state w')
  | MErr e => Raises (exc_of e) (abs_state w)
  end.

(* all fields carry tilt, or none does (what every wavefront built by the public API looks like:
   Wavefront(tilt=) has one field, Tilt planes tag every field, a propagation clears every field) *)
Definition uniform (fs : list Z) : bool :=
  forallb (fun f => f =? 0) fs || forallb (fun f => negb (f =? 0)) fs.
Definition nonneg (fs : list Z) : bool := forallb (fun f => 0 <=? f) fs.
