(* Model of lentil/zernike.py (zernike_index, R, zernike, zernike_coordinates) and of the helpers
   it calls (lentil.helper.mesh, lentil.util.centroid).  Definitions only.

   - [noll_code rowf j] is zernike_index: the row formula [rowf] followed by the integer
     list-building code and the (negative!) Python index into the list.  It is instantiated
     twice: [noll_float] with the IEEE double expression exactly as written in the source
     ([PrimFloat]), and [noll_exact] with the exact integer square root.  [noll] is the closed form.
   - [radial m n rho] is R(m, n, rho): the factorial sum, over the rationals.
   - [zernike_pt] is one sample of zernike(mask, j, normalize, rho, theta); the square root of the
     normalisation is the parameter [sq], the angle is given in turns (theta = 2 pi t) and the
     azimuthal factor is built from the scalar kernel ke t = exp(-2 pi i t).
   - [zernike_coordinates] on rationals: rho is represented by rho^2 (the square root is monotone,
     so the maximum over the mask is taken on r^2), theta by the direction vector whose argument it is. *)
From Coq Require PrimFloat Uint63.
From LV Require Export Lib.Arr Lib.GRing.

(* ------------------------------------------------------------------------------------------ *)
(** * zernike_index *)

Definition tri (n : Z) : Z := n * (n + 1) / 2.

(* --- the float expression  n = int(np.ceil((-1 + np.sqrt(1 + 8*j)) / 2) - 1) --- *)
Definition f_of_Z (z : Z) : PrimFloat.float :=      (* int -> double, round to nearest (|z| < 2^63) *)
  if z <? 0 then PrimFloat.opp (PrimFloat.of_uint63 (Uint63.of_Z (- z)))
  else PrimFloat.of_uint63 (Uint63.of_Z z).
Definition row_arg_float (j : Z) : PrimFloat.float :=
  PrimFloat.div (PrimFloat.add (PrimFloat.opp PrimFloat.one) (PrimFloat.sqrt (f_of_Z (1 + 8 * j))))
                (f_of_Z 2).
(* k = ceil x  iff  k - 1 < x <= k  (comparisons of doubles; k, k-1 are exactly representable) *)
Definition is_ceil (x : PrimFloat.float) (k : Z) : bool :=
  PrimFloat.ltb (f_of_Z (k - 1)) x && PrimFloat.leb x (f_of_Z k).
(* np.ceil: PrimFloat has no rounding-to-integer primitive; the integer is found by a local search
   from a guess; it stops exactly when [is_ceil x k] *)
Fixpoint ceil_search (fuel : nat) (x : PrimFloat.float) (k : Z) : Z :=
  match fuel with
  | O => k
  | Datatypes.S f =>
      if PrimFloat.ltb (f_of_Z k) x then ceil_search f x (k + 1)
      else if PrimFloat.leb x (f_of_Z (k - 1)) then ceil_search f x (k - 1)
      else k
  end.
Definition ceil_float (j : Z) : Z := ceil_search 6 (row_arg_float j) ((Z.sqrt (1 + 8 * j) - 1) / 2).
Definition row_float (j : Z) : Z := ceil_float j - 1.

(* --- the same expression in exact arithmetic: ceil((-1 + sqrt(1+8j))/2) - 1 --- *)
Definition row_exact (j : Z) : Z :=
  let n := (Z.sqrt (8 * j + 1) - 1) / 2 in if tri n =? j then n - 1 else n.

(* --- the integer part of the code --- *)
(* l[i] with Python's negative indices *)
Definition py_index {A} (l : list A) (i : Z) : result A :=
  let n := Z.of_nat (length l) in
  let k := if i <? 0 then i + n else i in
  if (0 <=? k) && (k <? n)
  then match nth_error l (Z.to_nat k) with Some a => Ok a | None => Err IndexError end
  else Err IndexError.
(* row_m.append(row_m[-1] + 2); row_m.append(row_m[-1]) *)
Definition append2 (l : list Z) : list Z :=
  let l1 := l ++ [last l 0 + 2] in l1 ++ [last l1 0].
Fixpoint grow (i : nat) (l : list Z) : list Z :=
  match i with O => l | Datatypes.S i' => grow i' (append2 l) end.
Definition row_m (n : Z) : list Z := grow (Z.to_nat (n / 2)) (if Z.odd n then [1; 1] else [0]).

(* returns (m, n) like the code *)
Definition noll_code (rowf : Z -> Z) (j : Z) : result (Z * Z) :=
  if j <? 1 then Err ValueError else
  let n := rowf j in
  if n =? 0 then Ok (0, 0) else
  let k := (n + 1) * (n + 2) / 2 in          (* true division of an even product: exact *)
  let r := j - k - 1 in                       (* negative: indexes the list from its end *)
  let sign := if Z.odd j then -1 else 1 in
  rbind (py_index (row_m n) r) (fun a => Ok (a * sign, n)).

Definition noll_float : Z -> result (Z * Z) := noll_code row_float.
Definition noll_exact : Z -> result (Z * Z) := noll_code row_exact.

(* --- closed form of Noll's ordering --- *)
(* |m| at position p (0-based) of row n: 0,2,2,4,4,... or 1,1,3,3,... *)
Definition am (n p : Z) : Z := if Z.even n then 2 * ((p + 1) / 2) else 2 * (p / 2) + 1.
Definition noll (j : Z) : Z * Z :=
  let n := row_exact j in let p := j - tri n - 1 in
  let a := if n =? 0 then 0 else am n p in
  ((if Z.odd j then - a else a), n).
Fixpoint noll_range (cnt : nat) (lo : Z) : list (Z * Z) :=
  match cnt with O => [] | Datatypes.S c => noll lo :: noll_range c (lo + 1) end.

(* ------------------------------------------------------------------------------------------ *)
(** * R(m, n, rho) *)

Definition zQ (z : Z) : Qc := Q2Qc (inject_Z z).
Fixpoint factn (n : nat) : Z := match n with O => 1 | Datatypes.S k => Z.of_nat (Datatypes.S k) * factn k end.
Definition fact (z : Z) : Z := factn (Z.to_nat z).
Definition zrange (n : Z) : list Z := map Z.of_nat (seq 0 (Z.to_nat n)).
Definition qpow (x : Qc) (e : Z) : Qc := Qcpower x (Z.to_nat e).

(* Rk = (-1)**k * factorial(n-k) / (factorial(k) * factorial((n+m)//2-k) * factorial((n-m)//2-k)) *)
Definition rcoef (m n k : Z) : Qc :=
  (zQ ((if Z.even k then 1 else -1) * fact (n - k))
   / zQ (fact k * fact ((n + m) / 2 - k) * fact ((n - m) / 2 - k)))%Qc.
(* the terms (power, coefficient) for k in range((n-m)//2 + 1) *)
Definition radial_terms (m n : Z) : list (Z * Qc) :=
  map (fun k => (n - 2 * k, rcoef m n k)) (zrange ((n - m) / 2 + 1)).
Definition peval (p : list (Z * Qc)) (x : Qc) : Qc :=
  fold_left (fun acc t => (acc + snd t * qpow x (fst t))%Qc) p 0%Qc.
Definition radial (m0 n0 : Z) (rho : Qc) : Qc :=
  let m := Z.abs m0 in let n := Z.abs n0 in
  if Z.odd (n - m) then 0%Qc else peval (radial_terms m n) rho.

(* integral over [0,1] of p(x) q(x) x dx by the power rule: sum c_a d_b / (a + b + 2) *)
Definition pinner (p q : list (Z * Qc)) : Qc :=
  fold_left (fun acc t => fold_left (fun acc' u =>
     (acc' + snd t * snd u / zQ (fst t + fst u + 2))%Qc) q acc) p 0%Qc.

(* Pascal's triangle (no factorials): the textbook coefficient is
   (-1)^k C(n-k, k) C(n-2k, (n-m)/2-k) *)
Fixpoint zip_add (a b : list Z) : list Z :=
  match a, b with x :: r, y :: t => (x + y) :: zip_add r t | _, _ => [] end.
Fixpoint pascal_row (n : nat) : list Z :=
  match n with O => [1] | Datatypes.S n' => let r := pascal_row n' in zip_add (0 :: r) (r ++ [0]) end.
Definition binom (n k : Z) : Z :=
  if (n <? 0) || (k <? 0) then 0 else nth (Z.to_nat k) (pascal_row (Z.to_nat n)) 0.
Definition rcoef_binom (m n k : Z) : Z :=
  (if Z.even k then 1 else -1) * binom (n - k) k * binom (n - 2 * k) ((n - m) / 2 - k).

(* ------------------------------------------------------------------------------------------ *)
(** * zernike(mask, index, normalize, rho, theta), one sample *)

(* the square of the normalisation constant *)
Definition norm2 (m n : Z) (normalize : bool) : Z :=
  if normalize then (if m =? 0 then (if n =? 0 then 1 else n + 1) else 2 * (n + 1)) else 1.

Section Mode.
Variable S : Scalar.
Variable sq : Qc -> S.          (* sq q = sqrt q *)

Definition half : Qc := Q2Qc (1 # 2).
Definition quarter : Qc := Q2Qc (1 # 4).
(* cos(2 pi t) and sin(2 pi t) from the kernel e(t) = exp(-2 pi i t);  -i = e(1/4) *)
Definition kcos (t : Qc) : S := (kofq half * (ke t + ke (- t)%Qc))%K.
Definition ksin (t : Qc) : S := (kofq half * ke quarter * (ke (- t)%Qc - ke t))%K.

Definition kmask (b : bool) : S := if b then k1 else k0.

(* theta = 2 pi t; [mask] is the sample of np.asarray(mask, dtype=bool) *)
Definition zernike_pt (m n : Z) (normalize : bool) (rho t : Qc) (mask : bool) : S :=
  if m =? 0 then
    if n =? 0 then kmask mask
    else if normalize then (sq (zQ (n + 1)) * kofq (radial m n rho) * kmask mask)%K
         else (kofq (radial m n rho) * kmask mask)%K
  else if 0 <? m then
    if normalize
    then (sq (zQ 2) * sq (zQ (n + 1)) * kofq (radial m n rho) * kcos (zQ m * t)%Qc * kmask mask)%K
    else (kofq (radial m n rho) * kcos (zQ m * t)%Qc * kmask mask)%K
  else
    if normalize
    then (sq (zQ 2) * sq (zQ (n + 1)) * kofq (radial m n rho) * ksin (zQ m * t)%Qc * kmask mask)%K
    else (kofq (radial m n rho) * ksin (zQ m * t)%Qc * kmask mask)%K.

(* the normalisation factor as the code multiplies it *)
Definition norm_factor (m n : Z) (normalize : bool) : S :=
  if m =? 0 then (if n =? 0 then k1 else if normalize then sq (zQ (n + 1)) else k1)
  else if normalize then (sq (zQ 2) * sq (zQ (n + 1)))%K else k1.

(* a whole call: samples (rho, t, mask value) in any order *)
Definition mask_bool (q : Qc) : bool := negb (qc_is0 q).        (* np.asarray(mask, dtype=bool) *)
Definition zernike (rowf : Z -> Z) (j : Z) (normalize : bool) (pts : list (Qc * Qc * Qc)) : result (list S) :=
  rbind (noll_code rowf j) (fun mn =>
    Ok (map (fun p => zernike_pt (fst mn) (snd mn) normalize (fst (fst p)) (snd (fst p)) (mask_bool (snd p))) pts)).
End Mode.
Arguments kcos {S}. Arguments ksin {S}. Arguments kmask {S}. Arguments zernike_pt {S}.
Arguments norm_factor {S}. Arguments zernike {S}.

(* ------------------------------------------------------------------------------------------ *)
(** * zernike_coordinates(mask)  (shift=None, rotate=0: the call made by zernike) *)

(* the rationals as a Scalar, to reuse arrays and sums *)
Definition QS : Scalar :=
  mkScalar Qc 0%Qc 1%Qc Qcplus Qcmult Qcminus Qcopp (fun x => x) (fun q => q) (fun _ => 1%Qc).

Definition qmax (a b : Qc) : Qc := if Qle_bool (this a) (this b) then b else a.
Definition qsqr (x : Qc) : Qc := (x * x)%Qc.

(* mask = np.asarray(mask, dtype=bool), as 0/1 *)
Definition mbit (mask : arr QS) (i j : Z) : Qc := if mask_bool (get mask i j) then 1%Qc else 0%Qc.
Definition sum2 (n m : Z) (f : Z -> Z -> Qc) : Qc :=
  sumZ (S := QS) n (fun i => sumZ (S := QS) m (fun j => f i j)).
(* np.sum(mask) *)
Definition mcount (mask : arr QS) : Qc := sum2 (nr mask) (nc mask) (mbit mask).
(* lentil.centroid: img = img/np.sum(img); r = dot(rr.ravel(), img.ravel()), c likewise *)
Definition centroid_r (mask : arr QS) (cnt : Qc) : Qc :=
  sum2 (nr mask) (nc mask) (fun i j => (zQ i * (mbit mask i j / cnt))%Qc).
Definition centroid_c (mask : arr QS) (cnt : Qc) : Qc :=
  sum2 (nr mask) (nc mask) (fun i j => (zQ j * (mbit mask i j / cnt))%Qc).
(* helper.mesh, one axis: arange(n) - floor(n/2.0) - shift *)
Definition mesh1 (n : Z) (shift : Qc) (i : Z) : Qc := (zQ i - zQ (n / 2) - shift)%Qc.
(* r^2 = |rr + i cc|^2 *)
Definition r2_of (rr cc : Z -> Qc) (i j : Z) : Qc := (qsqr (rr i) + qsqr (cc j))%Qc.
(* np.max(r*mask)^2: the largest r^2 over the masked samples (0 over the others) *)
Definition rmax2_of (mask : arr QS) (r2 : Z -> Z -> Qc) : Qc :=
  fold_left qmax (tabulate (mkArr (S := QS) (nr mask) (nc mask) (fun i j => (r2 i j * mbit mask i j)%Qc))) 0%Qc.

Record coords := mkCoords {
  c_origin_r : Qc; c_origin_c : Qc;      (* the centroid (row, column) *)
  c_rmax2 : Qc;                          (* np.max(r*mask)^2 *)
  c_rho2 : Z -> Z -> Qc;                 (* rho^2 *)
  c_dirx : Z -> Z -> Qc;                 (* theta = atan2(c_diry, c_dirx) *)
  c_diry : Z -> Z -> Qc
}.

Definition zernike_coordinates (mask : arr QS) : result coords :=
  (* np.max of an empty array raises ValueError *)
  if (nr mask <=? 0) || (nc mask <=? 0) then Err ValueError else
  let cnt := mcount mask in
  let cr := centroid_r mask cnt in
  let cc := centroid_c mask cnt in
  (* center = shape//2; shift = centroid - center *)
  let sr := (cr - zQ (nr mask / 2))%Qc in
  let sc := (cc - zQ (nc mask / 2))%Qc in
  let rr := mesh1 (nr mask) sr in
  let ccm := mesh1 (nc mask) sc in
  let rm2 := rmax2_of mask (r2_of rr ccm) in
  Ok (mkCoords cr cc rm2
        (fun i j => (r2_of rr ccm i j / rm2)%Qc)        (* rho = r/np.max(r*mask) *)
        (* theta = angle(-rr*e + 1j*cc*e), e = exp(i pi/2) = i:  angle(-cc - i rr) *)
        (fun i j => (- ccm j)%Qc)
        (fun i j => (- rr i)%Qc)).

(* ------------------------------------------------------------------------------------------ *)
(** * The public entry point zernike(mask, index, normalize, rho=None, theta=None): argument
      branches and the default-coordinate path, evaluated exactly *)

(* which of rho, theta the caller passed *)
Inductive zargs := ArgNone | ArgRhoOnly | ArgThetaOnly | ArgBoth.
(*  if rho is None: rho, theta = zernike_coordinates(mask)      (a theta passed alone is ignored)
    else: if theta is None: raise ValueError                     (before the index is looked at) *)
Definition zernike_branch (a : zargs) : result bool :=      (* Ok true = default coordinates *)
  match a with ArgNone | ArgThetaOnly => Ok true | ArgRhoOnly => Err ValueError | ArgBoth => Ok false end.

(* (x + i y)^k *)
Fixpoint cpowq (x y : Qc) (k : nat) : Qc * Qc :=
  match k with
  | O => (1%Qc, 0%Qc)
  | Datatypes.S k' => let w := cpowq x y k' in ((x * fst w - y * snd w)%Qc, (x * snd w + y * fst w)%Qc)
  end.
(* R_n^a(rho) / rho^a as a polynomial in t = rho^2: the code's coefficients on t^((n-a)/2 - k) *)
Definition radial_reduced (a n : Z) (t : Qc) : Qc :=
  fold_left (fun acc k => (acc + rcoef a n k * qpow t ((n - a) / 2 - k))%Qc) (zrange ((n - a) / 2 + 1)) 0%Qc.
(* rho^|m| cos(m theta) resp. rho^|m| sin(m theta) (m < 0) times rmax^|m|, from the direction vector
   (x, y) = r (cos theta, sin theta) *)
Definition az_cart (m : Z) (x y : Qc) : Qc :=
  let w := cpowq x y (Z.to_nat (Z.abs m)) in
  if m =? 0 then 1%Qc else if 0 <? m then fst w else (- snd w)%Qc.
(* one sample of the default-coordinate mode, without the normalisation constant and without the
   factor 1/sqrt(rmax2)^(|m| mod 2) (both irrational; the caller of the model applies them) *)
Definition zernike_default_pt (m n : Z) (c : coords) (i j : Z) (inside : bool) : Qc :=
  if inside
  then (radial_reduced (Z.abs m) n (c_rho2 c i j) * az_cart m (c_dirx c i j) (c_diry c i j)
        / qpow (c_rmax2 c) (Z.abs m / 2))%Qc
  else 0%Qc.

Record default_mode := mkDefaultMode {
  dm_norm2 : Z;               (* square of the normalisation constant *)
  dm_odd : bool;              (* true: the values are still to be divided by sqrt(dm_rmax2) *)
  dm_rmax2 : Qc;
  dm_val : Z -> Z -> Qc
}.
(* zernike(mask, j, normalize) with default coordinates: coordinates first, then the index *)
Definition zernike_default (mask : arr QS) (j : Z) (normalize : bool) : result default_mode :=
  rbind (zernike_coordinates mask) (fun c =>
  rbind (noll_exact j) (fun mn =>
    Ok (mkDefaultMode (norm2 (fst mn) (snd mn) normalize) (Z.odd (fst mn)) (c_rmax2 c)
          (fun i k => zernike_default_pt (fst mn) (snd mn) c i k (mask_bool (get mask i k)))))).

(* zernike_basis(mask, modes, normalize) with default coordinates: one zernike call per mode, in
   order; the first failing mode aborts the call *)
Fixpoint zernike_basis_default (mask : arr QS) (modes : list Z) (normalize : bool) : result (list default_mode) :=
  match modes with
  | [] => Ok []
  | j :: rest =>
      rbind (zernike_default mask j normalize) (fun d =>
      rbind (zernike_basis_default mask rest normalize) (fun ds => Ok (d :: ds)))
  end.

(* with caller-supplied coordinates the only refusal left is an index below 1 (the first one met) *)
Fixpoint modes_valid (modes : list Z) : result unit :=
  match modes with
  | [] => Ok tt
  | j :: rest => rbind (noll_exact j) (fun _ => modes_valid rest)
  end.

(* shape of the result: zernike returns mask.shape; zernike_basis returns modes.shape + mask.shape
   (a scalar mode counts as one row: modes[..., np.newaxis]), reshaped to (rows, -1) when vectorize *)
Definition zernike_result_shape (basis : bool) (nmodes nr nc : Z) (vectorize : bool) : list Z :=
  if basis then (if vectorize then [nmodes; nr * nc] else [nmodes; nr; nc]) else [nr; nc].

(* zernike_coordinates(mask, shift=(sr, sc)): the caller names the origin, center + shift, in
   (row, column) order as the code hands it to helper.mesh (the docstring says "x, y") *)
Definition zernike_coordinates_shift (mask : arr QS) (sr sc : Qc) : result coords :=
  if (nr mask <=? 0) || (nc mask <=? 0) then Err ValueError else
  let rr := mesh1 (nr mask) sr in
  let ccm := mesh1 (nc mask) sc in
  let rm2 := rmax2_of mask (r2_of rr ccm) in
  Ok (mkCoords (zQ (nr mask / 2) + sr)%Qc (zQ (nc mask / 2) + sc)%Qc rm2
        (fun i j => (r2_of rr ccm i j / rm2)%Qc)
        (fun i j => (- ccm j)%Qc)
        (fun i j => (- rr i)%Qc)).
