(* Public entry points of the stochastic models (property C18): argument validation, refusal
   order, shape bookkeeping and the glue between the entry point and the kernels of Model/Noise.v.

     lentil/detector.py  shot_noise (method string, seed, guards), read_noise (seed, scale),
                         dark_current (shape forms, fpn branch, seed only on that branch),
                         cosmic_rays / _nrays / particle choice / generator consumption
     lentil/wfe.py       power_spectrum (seed, mask rank, empty mask, then the kernel)

   Oracle, as in Model/Noise.v: numpy.random.default_rng(seed) and the draws.  Its contract used
   here (trusted, re-queried by the harness on every case): default_rng raises ValueError for a
   negative integer (alone or inside a sequence) and TypeError for a float; Generator.normal raises
   ValueError for a negative scale; np.ones / Generator.lognormal raise ValueError for a negative
   dimension.  Definitions only; lemmas are in Proofs/NoiseEntryP.v. *)
From LV Require Export Model.Noise.

(* ------------------------------------------------------------------------------------------ *)
(** * seeds *)
Inductive seed := SeedInt (z : Z) | SeedList (l : list Z) | SeedFloat.
(* np.random.default_rng(seed) *)
Definition seed_check (s : seed) : result unit :=
  match s with
  | SeedInt z => if z <? 0 then Err ValueError else Ok tt
  | SeedList l => if existsb (fun z => z <? 0) l then Err ValueError else Ok tt
  | SeedFloat => Err TypeError
  end.
Definition egenerator := seed -> request -> arr QS.

(* ------------------------------------------------------------------------------------------ *)
(** * shot_noise(img, method, seed)
   assert method in {'poisson', 'gaussian'};  rng = default_rng(seed);  if method == 'poisson' ... else ...
   The method is a string: its code points.  The comparison is exact (case-sensitive). *)
Definition str_poisson : list Z := [112; 111; 105; 115; 115; 111; 110].          (* 'poisson' *)
Definition str_gaussian : list Z := [103; 97; 117; 115; 115; 105; 97; 110].      (* 'gaussian' *)
Fixpoint str_eqb (a b : list Z) : bool :=
  match a, b with
  | [], [] => true
  | x :: a', y :: b' => (x =? y) && str_eqb a' b'
  | _, _ => false
  end.
Definition parse_method (m : list Z) : option method :=
  if str_eqb m str_poisson then Some Poisson else if str_eqb m str_gaussian then Some Gaussian else None.

Definition shot_to_result (r : shot_result) : result (arr ZS) :=
  match r with ShotOk f => Ok f | ShotErr e _ => Err e end.

Definition shot_noise_entry (rng : egenerator) (sqrt_img img : arr QS) (mstr : list Z) (s : seed)
  : result (arr ZS) :=
  match parse_method mstr with
  | None => Err AssertionErr                                   (* before anything else *)
  | Some mth =>
    match seed_check s with
    | Err e => Err e                                           (* default_rng(seed) comes before the guards *)
    | Ok _ =>
      shot_to_result
        (match mth with
         | Poisson => shot_poisson img (rng s (ReqPoisson img))
         | Gaussian => shot_gaussian true img (rng s (ReqNormalArr img sqrt_img))
         end)
    end
  end.

(* ------------------------------------------------------------------------------------------ *)
(** * read_noise(img, electrons, seed)
   rng = default_rng(seed); rng.normal(loc=0.0, scale=electrons, size=img.shape) (ValueError when
   electrons < 0); img + noise *)
Definition read_noise_entry (rng : egenerator) (img : arr QS) (electrons : Qc) (s : seed) : result (arr QS) :=
  match seed_check s with
  | Err e => Err e
  | Ok _ =>
    if Qcltb electrons 0%Qc then Err ValueError
    else Ok (read_noise img (rng s (ReqNormal 0%Qc electrons (nr img) (nc img))))
  end.

(* ------------------------------------------------------------------------------------------ *)
(** * dark_current(rate, shape=1, fpn_factor=0, seed=None) for every shape form
   shape is an int k (a 1-d frame of k pixels; the default 1) or a sequence of ints (any rank; the
   empty tuple gives a 0-d frame).  Frames of any rank are a list of dimensions and a function of
   the row-major flat index.  The generator - and therefore the seed - is touched only on the
   fpn_factor > 0 branch. *)
Inductive shape_arg := ShapeInt (k : Z) | ShapeDims (l : list Z).
Definition shape_dims (s : shape_arg) : list Z := match s with ShapeInt k => [k] | ShapeDims l => l end.
Definition dims_ok (l : list Z) : bool := forallb (fun d => 0 <=? d) l.
Definition numel (l : list Z) : Z := fold_right Z.mul 1 l.

Record nframe := mkNFrame { fdims : list Z; fget : Z -> Z }.
(* the drawn lognormal array, flat *)
Definition flatdraw := Z -> Qc.
Definition fgenerator := seed -> (Qc * list Z) -> flatdraw.     (* seed -> (sigma, dims) -> rng.lognormal(1.0, sigma, dims) *)

Definition dark_current_entry (rng : fgenerator) (rate : Qc) (shape : shape_arg) (fpn_factor : Qc) (s : seed)
  : result nframe :=
  let dims := shape_dims shape in
  if Qcltb 0%Qc fpn_factor then
    match seed_check s with
    | Err e => Err e
    | Ok _ =>
      if dims_ok dims then
        let draw := rng s (fpn_factor, dims) in
        Ok (mkNFrame dims (fun k => Qcfloor (rate * 1 * draw k)%Qc))
      else Err ValueError                                       (* lognormal(size=...) refuses *)
    end
  else
    if dims_ok dims then Ok (mkNFrame dims (fun _ => Qcfloor (rate * 1 * 1)%Qc))
    else Err ValueError.                                        (* np.ones(shape) refuses *)

(* ------------------------------------------------------------------------------------------ *)
(** * power_spectrum(mask, pixelscale, rms, half_power_freq, exp, seed): entry
   mask = np.asarray(mask); rng = default_rng(seed); n, m = mask.shape (ValueError unless 2-d);
   an empty mask is refused by the FFT (ValueError); then the kernel of Model/Noise.v.
   [mdims] = mask.shape; [filt] = the filtered draw (oracle), used only when the mask is 2-d and
   not empty. *)
Section PSEntry.
Variable S : Scalar.
Variable isz : S -> bool.
Variable nrm : Z -> S -> S.
Definition power_spectrum_entry (filt : seed -> arr S) (mdims : list Z) (mask : arr S) (rms : S) (s : seed)
  : result (option (arr S)) :=
  match seed_check s with
  | Err e => Err e
  | Ok _ =>
    match mdims with
    | [n; m] =>
      if (n =? 0) || (m =? 0) then Err ValueError
      else Ok (power_spectrum_post isz nrm (filt s) (mkArr n m (get mask)) rms)
    | _ => Err ValueError
    end
  end.
End PSEntry.
Arguments power_spectrum_entry {S}.

(* ------------------------------------------------------------------------------------------ *)
(** * cosmic_rays: number of rays, particle choice, consumption of the global generator
   [x] = shape[0]*pixelscale[0]*shape[1]*pixelscale[1]*rate*ts as the code computes it;
   _nrays: if x < 1 one uniform draw u decides between one ray and none, else int(x);
   each ray: uniform (particle: > 0.9 alpha, else proton), rand, rand (position), uniform, uniform
   (direction): five draws.  [rays] are the candidate rays in generation order (particle draw and
   the (row, col, dist) of each path segment); only the first [nrays] of them are used. *)
Definition nrays (x u : Qc) : Z :=
  if Qcltb x 1%Qc then (if Qcltb x u then 0 else 1)          (* u <= x  ->  1 *)
  else Qctrunc x.
Definition draws_consumed (x : Qc) (k : Z) : Z := (if Qcltb x 1%Qc then 1 else 0) + 5 * k.

Section CosmicEntry.
Variable S : Scalar.
Variable gt09 : S -> bool.                                      (* u > 0.9 *)
Record ray := mkRay { rpart : S; rsegs : list (Z * Z * S) }.   (* particle draw; (row, col, dist) *)
Definition ray_deposits (alpha_flux proton_flux : S) (r : ray) : list (deposit S) :=
  let flux := if gt09 (rpart r) then alpha_flux else proton_flux in
  map (fun t => match t with (row, col, d) => mkDep row col flux d end) (rsegs r).
Definition cosmic_rays_entry (n m : Z) (x u : Qc) (alpha_flux proton_flux : S) (rays : list ray)
  : result (arr S) * Z :=
  let k := nrays x u in
  (cosmic_rays n m (map (ray_deposits alpha_flux proton_flux) (firstn (Z.to_nat k) rays)),
   draws_consumed x k).
End CosmicEntry.
Arguments mkRay {S}. Arguments rpart {S}. Arguments rsegs {S}. Arguments ray_deposits {S}.
Arguments cosmic_rays_entry {S}.
