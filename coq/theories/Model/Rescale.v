(* Model of lentil.util.rescale (as Plane.rescale calls it), Plane.rescale and Plane.resample
   on exact rationals.  Definitions only.

   util.rescale(img, scale, shape=None, mask=None, order, mode, unitary=False):
       shape = ceil(img.shape * scale)
       x = (arange(shape[1]) - shape[1]/2.)/scale + img.shape[1]/2.        (same for y)
       post = map_coordinates(img != 0, [yy, xx], order=1, mode='nearest');  post[post < eps] = 0
       out  = map_coordinates(img, [yy, xx], order=order, mode=mode) * post

   scipy.ndimage.map_coordinates is NOT modelled, it is an oracle with the contract (TRUSTED in
   harness/props/c17.py):
     * order=3 (prefilter=True, mode='nearest'): the spline interpolates, i.e. at a coordinate whose
       two components are integer nodes inside the array it returns the sample itself; elsewhere
       the value is finite and otherwise unspecified                      -> [Unknown];
     * order=1, mode='nearest' (the post-mask of the 0/1 array img != 0): bilinear; at a node the
       sample itself; 0 where the (clamped) neighbouring nodes are all 0; at least 1/4 where the
       nearest node holds 1;
     * order=0, mode='constant': input[floor(y+1/2), floor(x+1/2)] for 0 <= y <= n-1, 0 <= x <= m-1
       and 0 (cval) outside.
   Plane.rescale: deep copy; amplitude (only if ndim > 1) = util.rescale(order 3, 'nearest')/scale; opd (only if
   ndim > 1) likewise without the factor; mask (2-d, or each slice of a 3-d cube) = util.rescale(order 0, 'constant'),
   re-binarised, cast to int; _plane_slice (IndexError on an empty mask/segment); pixelscale/scale per axis.
   Plane.resample: ValueError without pixel scale, NotImplementedError if non-uniform, else rescale(ps/new).
   util.rescale first casts an integer/bool image to float (value-preserving), so the dtype flag [qint] of an input
   array has no influence; a scalar (0-d) amplitude is divided by the scale like an array amplitude.
   A sample of the model is therefore [Known v] (the value is pinned), [NonZero] (only v <> 0 is
   pinned: a nearest-neighbour sample times a post-mask weight in [1/4, 1]) or [Unknown]. *)
From Coq Require Export QArith Qcanon Qround.
From LV Require Export Lib.Base.

Definition zq (z : Z) : Qc := Q2Qc (inject_Z z).
Definition qceil (x : Qc) : Z := Qceiling (this x).        (* np.ceil(...).astype(int) *)
Definition qfloor (x : Qc) : Z := Qfloor (this x).
Definition qhalf : Qc := Q2Qc (1 # 2).
Definition qle (x y : Qc) : bool := match (x ?= y)%Qc with Gt => false | _ => true end.
Definition nz (v : Qc) : bool := negb (Qnum (this v) =? 0).     (* v != 0 *)

(* input arrays: shape, samples, and whether the numpy dtype is integer/bool *)
Record qarr := mkQ { qnr : Z; qnc : Z; qget : Z -> Z -> Qc; qint : bool }.

Inductive samp := Known (v : Qc) | NonZero | Unknown.
Record oarr := mkO { onr : Z; onc : Z; oget : Z -> Z -> samp }.

(* ---- lentil.util.rescale ---- *)
Definition rescale_shape (n : Z) (s : Qc) : Z := qceil (zq n * s)%Qc.

(* sampling coordinate of output sample j (of N) in an input axis of n samples *)
Definition coord (n N : Z) (s : Qc) (j : Z) : Qc := ((zq j - zq N / zq 2) / s + zq n / zq 2)%Qc.

(* integer node inside the array *)
Definition node (n : Z) (x : Qc) : option Z :=
  if (Zpos (Qden (this x)) =? 1) && inr n (Qnum (this x)) then Some (Qnum (this x)) else None.

Definition in_closed (n : Z) (x : Qc) : bool := qle (zq 0) x && qle x (zq (n - 1)).
Definition rnd (x : Qc) : Z := qfloor (x + qhalf)%Qc.          (* nearest neighbour, ties up *)
(* mode='nearest': coordinates are clamped to [0, n-1]; the two nodes bilinear interpolation reads *)
Definition clampq (n : Z) (x : Qc) : Qc := if qle x (zq 0) then zq 0 else if qle (zq (n - 1)) x then zq (n - 1) else x.
Definition lo_node (n : Z) (x : Qc) : Z := qfloor (clampq n x).
Definition hi_node (n : Z) (x : Qc) : Z := Z.min (lo_node n x + 1) (n - 1).
(* the post-mask is exactly 0: all four nodes it reads hold 0 *)
Definition zero_cluster (img : qarr) (y x : Qc) : bool :=
  let i0 := lo_node (qnr img) y in let i1 := hi_node (qnr img) y in
  let j0 := lo_node (qnc img) x in let j1 := hi_node (qnc img) x in
  negb (nz (qget img i0 j0)) && negb (nz (qget img i0 j1)) &&
  negb (nz (qget img i1 j0)) && negb (nz (qget img i1 j1)).

(* the two (order, mode) configurations Plane.rescale uses *)
Inductive interp := Cubic      (* order=3, mode='nearest'  *)
                  | Nearest0.  (* order=0, mode='constant' *)

Definition sample (o : interp) (img : qarr) (y x : Qc) : samp :=
  match node (qnr img) y, node (qnc img) x with
  | Some i, Some j =>
      let v := qget img i j in Known (v * (if nz v then 1 else Q2Qc 0))%Qc   (* interpolant * post-mask, both at a node *)
  | _, _ =>
      match o with
      | Cubic => if zero_cluster img y x then Known (Q2Qc 0) else Unknown
      | Nearest0 =>
          if in_closed (qnr img) y && in_closed (qnc img) x
          then (if nz (qget img (rnd y) (rnd x)) then NonZero else Known (Q2Qc 0))
          else Known (Q2Qc 0)
      end
  end.

(* img = np.asarray(img); integer/bool dtypes are cast with .astype(float): the samples keep their (rational) values,
   so [qint img] is not consulted.  The call itself never raises (result type kept for the monadic plumbing). *)
Definition util_rescale (o : interp) (img : qarr) (s : Qc) : result oarr :=
  let N := rescale_shape (qnr img) s in let M := rescale_shape (qnc img) s in
  Ok (mkO N M (fun i j => sample o img (coord (qnr img) N s i) (coord (qnc img) M s j))).

(* ---- lentil.Plane ---- *)
Inductive fld := FScalar (v : Qc) | FArr (a : qarr).                      (* ndim 0 | ndim 2 *)
Inductive msk := MScalar (v : Qc) | MMono (a : qarr) | MCube (l : list qarr).   (* ndim 0 | 2 | 3 *)
(* p_tilt: the Tilt terms book-kept by fit_tilt (angles x, y), carried along by the deep copy *)
Record plane := mkPlane { p_amp : fld; p_opd : fld; p_mask : msk; p_ps : option (Qc * Qc); p_tilt : list (Qc * Qc) }.

Inductive ofld := OScalar (v : Qc) | OArr (a : oarr).
Inductive omsk := OMono (a : oarr) | OCube (l : list oarr).
(* o_slice: plane._slice = _plane_slice(mask): one (rmin, rmax+1, cmin, cmax+1) per mask / segment (helper.boundary_slice) *)
Record oplane := mkOPlane { o_amp : ofld; o_opd : ofld; o_mask : omsk; o_ps : option (Qc * Qc);
                            o_tilt : list (Qc * Qc); o_slice : list (Z * Z * Z * Z) }.

Definition smap (f : Qc -> Qc) (x : samp) : samp :=
  match x with Known v => Known (f v) | NonZero => NonZero | Unknown => Unknown end.
Definition omap (f : samp -> samp) (a : oarr) : oarr := mkO (onr a) (onc a) (fun i j => f (oget a i j)).

(* plane._mask[np.nonzero(plane._mask)] = 1; .astype(int) *)
Definition binarise (x : samp) : samp :=
  match x with Known v => Known (if nz v then 1%Qc else Q2Qc 0) | NonZero => Known 1%Qc | Unknown => Unknown end.

Definition rescale_fld (f : fld) (s : Qc) (post : Qc -> Qc) : result ofld :=
  match f with
  | FScalar v => Ok (OScalar (post v))                (* ndim <= 1: amplitude/scale (the else branch); opd: post = id *)
  | FArr a => rbind (util_rescale Cubic a s) (fun r => Ok (OArr (omap (smap post) r)))
  end.

Fixpoint rescale_masks (l : list qarr) (s : Qc) : result (list oarr) :=
  match l with
  | [] => Ok []
  | a :: t => rbind (util_rescale Nearest0 a s) (fun r =>
              rbind (rescale_masks t s) (fun rt => Ok (r :: rt)))
  end.

Definition rescale_msk0 (m : msk) (s : Qc) : result omsk :=
  match m with
  | MScalar _ => Err TypeError                        (* iteration over a 0-d array *)
  | MMono a => rbind (util_rescale Nearest0 a s) (fun r => Ok (OMono (omap binarise r)))
  | MCube l => rbind (rescale_masks l s) (fun r => Ok (OCube (map (omap binarise) r)))
  end.

(* plane._slice = _plane_slice(plane._mask): helper.boundary_slice raises IndexError on a mask (or a
   segment) without a single non-zero sample *)
Definition zrange (n : Z) : list Z := map Z.of_nat (seq 0 (Z.to_nat n)).
Definition is_one (x : samp) : bool := match x with Known v => nz v | NonZero => true | Unknown => false end.
Definition has_one (a : oarr) : bool :=
  existsb (fun i => existsb (fun j => is_one (oget a i j)) (zrange (onc a))) (zrange (onr a)).
Definition nonempty_msk (m : omsk) : bool :=
  match m with OMono a => has_one a | OCube l => forallb has_one l end.

Definition rescale_msk (m : msk) (s : Qc) : result omsk :=
  rbind (rescale_msk0 m s) (fun m' => if nonempty_msk m' then Ok m' else Err IndexError).

(* util.boundary: first and last row / column holding a non-zero sample *)
Definition row_has (a : oarr) (i : Z) : bool := existsb (fun j => is_one (oget a i j)) (zrange (onc a)).
Definition col_has (a : oarr) (j : Z) : bool := existsb (fun i => is_one (oget a i j)) (zrange (onr a)).
Fixpoint first_from (f : Z -> bool) (start : Z) (fuel : nat) : option Z :=
  match fuel with O => None | Datatypes.S k => if f start then Some start else first_from f (start + 1) k end.
Fixpoint last_from (f : Z -> bool) (start : Z) (fuel : nat) : option Z :=
  match fuel with O => None | Datatypes.S k => if f start then Some start else last_from f (start - 1) k end.
Definition bbox (a : oarr) : Z * Z * Z * Z :=
  match first_from (row_has a) 0 (Z.to_nat (onr a)), last_from (row_has a) (onr a - 1) (Z.to_nat (onr a)),
        first_from (col_has a) 0 (Z.to_nat (onc a)), last_from (col_has a) (onc a - 1) (Z.to_nat (onc a)) with
  | Some r0, Some r1, Some c0, Some c1 => (r0, r1 + 1, c0, c1 + 1)
  | _, _, _, _ => (0, 0, 0, 0)          (* empty mask: the call has already raised IndexError *)
  end.
Definition slices (m : omsk) : list (Z * Z * Z * Z) :=
  match m with OMono a => [bbox a] | OCube l => map bbox l end.

Definition rescale_ps (ps : option (Qc * Qc)) (s : Qc) : option (Qc * Qc) :=
  match ps with None => None | Some (px, py) => Some (px / s, py / s)%Qc end.

Definition plane_rescale (P : plane) (s : Qc) : result oplane :=
  rbind (rescale_fld (p_amp P) s (fun v => v / s)%Qc) (fun a =>
  rbind (rescale_fld (p_opd P) s (fun v => v)) (fun o =>
  rbind (rescale_msk (p_mask P) s) (fun m =>
  Ok (mkOPlane a o m (rescale_ps (p_ps P) s) (p_tilt P) (slices m))))).

(* the float cast of an array / of every array of a plane *)
Definition as_float (a : qarr) : qarr := mkQ (qnr a) (qnc a) (qget a) false.
Definition fld_as_float (f : fld) : fld := match f with FScalar v => FScalar v | FArr a => FArr (as_float a) end.
Definition msk_as_float (m : msk) : msk :=
  match m with MScalar v => MScalar v | MMono a => MMono (as_float a) | MCube l => MCube (map as_float l) end.
Definition plane_as_float (P : plane) : plane :=
  mkPlane (fld_as_float (p_amp P)) (fld_as_float (p_opd P)) (msk_as_float (p_mask P)) (p_ps P) (p_tilt P).

Definition qeqb (x y : Qc) : bool := match (x ?= y)%Qc with Eq => true | _ => false end.

Definition plane_resample (P : plane) (new_ps : Qc) : result oplane :=
  match p_ps P with
  | None => Err ValueError
  | Some (px, py) => if qeqb px py then plane_rescale P (px / new_ps)%Qc else Err NotImplementedErr
  end.

(* ================================================================================================================
   lentil.util.rescale with ALL its arguments (the public lentil.rescale): shape = None | scalar | pair, an explicit
   post-mask, unitary renormalisation; (order, mode) restricted to the two configurations lentil itself uses
   ((3,'nearest'): Plane amplitude/opd, detector.pixelate; (0,'constant'): Plane mask).

       shape = ceil(base * scale)  with base = img.shape | (shape, shape) | shape
       x, y  = (arange(N) - N/2.)/scale + img.shape/2.              (the centre is ALWAYS the image's, whatever [shape])
       post  = map_coordinates(mask, [yy, xx], order=1, mode='nearest');  post[post < finfo(post.dtype).eps] = 0
       out   = map_coordinates(img, [yy, xx], order, mode)
       if unitary: out *= sum(img)/sum(out)                         (BEFORE the post-mask)
       out  *= post
   An explicit mask of integer / bool dtype is cast to float first (like img), so the dtype flag [qint] of the mask
   has no influence and eps is that of float64.  *)
Inductive shapearg := ShNone | ShScalar (a : Z) | ShPair (a b : Z).

Definition gen_shape (img : qarr) (sh : shapearg) (s : Qc) : Z * Z :=
  match sh with
  | ShNone => (rescale_shape (qnr img) s, rescale_shape (qnc img) s)
  | ShScalar a => (rescale_shape a s, rescale_shape a s)
  | ShPair a b => (rescale_shape a s, rescale_shape b s)
  end.

Definition qlt (x y : Qc) : bool := match (x ?= y)%Qc with Lt => true | _ => false end.
Definition thr (eps v : Qc) : Qc := if qlt v eps then Q2Qc 0 else v.        (* post[post < eps] = 0 *)

(* the interpolant before any masking *)
Definition pre_sample (o : interp) (img : qarr) (y x : Qc) : samp :=
  match node (qnr img) y, node (qnc img) x with
  | Some i, Some j => Known (qget img i j)
  | _, _ =>
      match o with
      | Cubic => Unknown
      | Nearest0 => if in_closed (qnr img) y && in_closed (qnc img) x
                    then Known (qget img (rnd y) (rnd x)) else Known (Q2Qc 0)
      end
  end.

(* the thresholded bilinear post-mask of an explicit mask array (its own shape decides what a node is) *)
Definition post_sample (mk : qarr) (eps : Qc) (y x : Qc) : samp :=
  match node (qnr mk) y, node (qnc mk) x with
  | Some i, Some j => Known (thr eps (qget mk i j))
  | _, _ => if zero_cluster mk y x then Known (Q2Qc 0) else Unknown
  end.

(* product of two finite samples *)
Definition smul (a b : samp) : samp :=
  match a, b with
  | Known u, Known v => Known (u * v)%Qc
  | Known u, _ => if nz u then Unknown else Known (Q2Qc 0)
  | _, Known v => if nz v then Unknown else Known (Q2Qc 0)
  | _, _ => Unknown
  end.

Definition sample_gen (o : interp) (img : qarr) (pm : option (qarr * Qc)) (y x : Qc) : samp :=
  match pm with
  | None => sample o img y x                                   (* default mask = (img != 0): as in Plane.rescale *)
  | Some (mk, eps) => smul (pre_sample o img y x) (post_sample mk eps y x)
  end.

(* sums over whole arrays *)
Definition qsum_list (l : list Qc) : Qc := fold_right Qcplus (Q2Qc 0) l.
Definition qsum2 (n m : Z) (f : Z -> Z -> Qc) : Qc :=
  qsum_list (map (fun i => qsum_list (map (fun j => f i j) (zrange m))) (zrange n)).
Definition known_val (x : samp) : option Qc := match x with Known v => Some v | _ => None end.
Definition all_known (n m : Z) (f : Z -> Z -> samp) : bool :=
  forallb (fun i => forallb (fun j => match f i j with Known _ => true | _ => false end) (zrange m)) (zrange n).
Definition val0 (x : samp) : Qc := match x with Known v => v | _ => Q2Qc 0 end.

(* the unitary factor sum(img)/sum(out) is pinned only when every sample of the interpolant is and the total is not 0
   (0/0 and x/0 are nan / inf and poison every sample) *)
Definition unitary_factor (img : qarr) (N M : Z) (pre : Z -> Z -> samp) : option Qc :=
  if all_known N M pre then
    let t := qsum2 N M (fun i j => val0 (pre i j)) in
    if nz t then Some (qsum2 (qnr img) (qnc img) (qget img) / t)%Qc else None
  else None.

Definition rescale_gen (o : interp) (img : qarr) (s : Qc) (sh : shapearg) (pm : option (qarr * Qc))
           (unitary : bool) : result oarr :=
  let '(N, M) := gen_shape img sh s in
  let cy := fun i => coord (qnr img) N s i in
  let cx := fun j => coord (qnc img) M s j in
  if unitary then
    match unitary_factor img N M (fun i j => pre_sample o img (cy i) (cx j)) with
    | Some f => if nz f then Ok (mkO N M (fun i j => smap (fun v => v * f)%Qc (sample_gen o img pm (cy i) (cx j))))
                else Ok (mkO N M (fun _ _ => Known (Q2Qc 0)))          (* sum(img) = 0: every finite sample times 0 *)
    | None => Ok (mkO N M (fun _ _ => Unknown))
    end
  else Ok (mkO N M (fun i j => sample_gen o img pm (cy i) (cx j))).
