(* C13 - model of lentil.radiometry.Spectrum arithmetic (definitions only, no proofs).
   Source: /repo/lentil/radiometry.py  Spectrum.__init__/wave setter, _ufunc, add/subtract/multiply/
   divide/power and the dunder forms, sample, to (wavelength part), _sampling, _intersect,
   _interp_common, numpy.linspace, scipy interp1d(kind='linear').
   Every float is a rational: all quantities are canonical rationals [Qc]; the decimal unit
   factors 1e-3, 1e-6 ... are the exact rationals they stand for (the tie uses a tolerance exactly
   where such a factor enters).  Quadratic/cubic interpolation (scipy splines) are not modelled. *)
From Coq Require Export QArith Qcanon Qround.
From LV Require Export Lib.Base.
Open Scope Qc_scope.

(* ---------------------------------------------------------------- units *)
Inductive wunit := UM | UUm | UNm | UAng.                 (* 'm' 'um' 'nm' 'angstrom' *)
Inductive vunit := VNone | VPhotlam | VFlam | VWlam.      (* valueunit: None or a density unit *)

Definition wunit_eqb (a b : wunit) : bool :=
  match a, b with UM, UM | UUm, UUm | UNm, UNm | UAng, UAng => true | _, _ => false end.

Definition qq (n : Z) (d : positive) : Qc := Q2Qc (n # d).

(* Meter.to / Micron.to / Nanometer.to / Angstrom.to, entry by entry as in the source *)
Definition ufac (from to : wunit) : Qc :=
  match from, to with
  | UM, UM => 1   | UM, UUm => qq 1000000 1 | UM, UNm => qq 1000000000 1 | UM, UAng => qq 10000000000 1
  | UUm, UM => qq 1 1000000 | UUm, UUm => 1 | UUm, UNm => qq 1000 1 | UUm, UAng => qq 10000 1
  | UNm, UM => qq 1 1000000000 | UNm, UUm => qq 1 1000 | UNm, UNm => 1 | UNm, UAng => qq 10 1
  | UAng, UM => qq 1 10000000000 | UAng, UUm => qq 1 10000 | UAng, UNm => qq 1 10 | UAng, UAng => 1
  end.
(* metres per unit: the table above is [mscale from / mscale to] (proved in SpectrumP) *)
Definition mscale (u : wunit) : Qc :=
  match u with UM => 1 | UUm => qq 1 1000000 | UNm => qq 1 1000000000 | UAng => qq 1 10000000000 end.

(* ---------------------------------------------------------------- spectra *)
Record spectrum := mkS { wave : list Qc; value : list Qc; wu : wunit; vu : vunit }.

Definition qc_is0 (x : Qc) : bool := match Qnum x with Z0 => true | _ => false end.
Definition qleb (a b : Qc) : bool := Qle_bool a b.
Definition qltb (a b : Qc) : bool := negb (Qle_bool b a).
Definition qmin (a b : Qc) : Qc := if qleb a b then a else b.
Definition qmax (a b : Qc) : Qc := if qleb a b then b else a.

Fixpoint incrb (w : list Qc) : bool :=
  match w with a :: ((b :: _) as t) => qltb a b && incrb t | _ => true end.

(* Spectrum.__init__: the wave setter refuses non-positive, unsorted or repeated wavelengths, the
   constructor refuses unequal shapes - all ValueError *)
Definition mk_spectrum (w v : list Qc) (u : wunit) (y : vunit) : result spectrum :=
  if forallb (fun x => qltb 0 x) w && incrb w && Nat.eqb (length w) (length v)
  then Ok (mkS w v u y) else Err ValueError.

(* Spectrum.to(<wave unit>): wave * factor; a density value unit divides the values by it *)
Definition to_wu (s : spectrum) (u : wunit) : spectrum :=
  let f := ufac (wu s) u in
  mkS (map (fun x => x * f) (wave s))
      (match vu s with VNone => value s | _ => map (fun y => y / f) (value s) end)
      u (vu s).
(* `if s2.waveunit != waveunit: s2 = s2.copy(); s2.to(waveunit)` *)
Definition conv (s : spectrum) (u : wunit) : spectrum :=
  if wunit_eqb (wu s) u then s else to_wu s u.

(* wave.min() / wave.max(): the setter keeps the array strictly increasing, so these are the
   first and the last sample *)
Definition wmin (w : list Qc) : Qc := hd 0 w.
Definition wmax (w : list Qc) : Qc := last w 0.

(* ---------------------------------------------------------------- _sampling *)
Inductive sampling := SMin | SLeft | SRight | SNum (d : Qc).

Fixpoint diffs (w : list Qc) : list Qc :=          (* np.diff *)
  match w with a :: ((b :: _) as t) => (b - a) :: diffs t | _ => [] end.
(* ndarray.min(): ValueError on an empty array *)
Definition lmin (l : list Qc) : result Qc :=
  match l with [] => Err ValueError | x :: t => Ok (fold_left qmin t x) end.

(* numeric sampling: any non-zero number is taken as it is (a negative one gives a negative ratio below);
   0 is outside the modelled domain: (max-min)/0 is inf -> OverflowError, or nan -> ValueError when the
   range is 0 too; the model answers ValueError and the tie only uses the 0/0 case *)
Definition sampling_of (w1 w2 : list Qc) (m : sampling) : result Qc :=
  match m with
  | SMin => rbind (lmin (diffs w1)) (fun d1 => rbind (lmin (diffs w2)) (fun d2 => Ok (qmin d1 d2)))
  | SLeft => lmin (diffs w1)
  | SRight => lmin (diffs w2)
  | SNum d => if qc_is0 d then Err ValueError else Ok d
  end.

(* ---------------------------------------------------------------- numpy.linspace(a, b, num + 1) *)
Definition zq (z : Z) : Qc := Q2Qc (inject_Z z).
Definition qceil (x : Qc) : Z := Qceiling x.        (* int(np.ceil(x)) *)
Definition zrange (n : Z) : list Z := map Z.of_nat (seq 0 (Z.to_nat n)).   (* 0 .. n-1 *)

Definition linspace (a b : Qc) (num : Z) : list Qc :=
  if (num =? 0)%Z then [a]
  else let step := (b - a) / zq num in
       map (fun i => if (i =? num)%Z then b else zq i * step + a) (zrange (num + 1)).

(* ---------------------------------------------------------------- interp1d(kind='linear') *)
(* value at x of the chord through (w0,v0), (w1,v1): slope*(x - x_lo) + y_lo *)
Definition chord (w0 w1 v0 v1 x : Qc) : Qc := (v1 - v0) / (w1 - w0) * (x - w0) + v0.

(* evaluated only at points inside [wmin, wmax] (see [sample_on]) *)
Fixpoint interp (w v : list Qc) (x : Qc) : Qc :=
  match w, v with
  | w0 :: ((w1 :: _) as wt), v0 :: ((v1 :: _) as vt) =>
      if qleb x w1 then chord w0 w1 v0 v1 x else interp wt vt x
  | _, v0 :: _ => v0
  | _, [] => 0
  end.

(* _intersect: superset >= subset.min() & superset <= subset.max() *)
Definition inrange (w : list Qc) (x : Qc) : bool := qleb (wmin w) x && qleb x (wmax w).

(* ---------------------------------------------------------------- fill value *)
Inductive fillv := FScalar (f : Qc) | FPair (lo hi : Qc).

(* _fill_array(fill_value, wave, commonwave): a scalar fills every slot; a two-element value is
   (below, above) the operand's own range: np.where(commonwave < wave.min(), below, above) *)
Definition fillarr (f : fillv) (w : list Qc) (grid : list Qc) : list Qc :=
  match f with
  | FScalar c => map (fun _ => c) grid
  | FPair lo hi => map (fun x => if qltb x (wmin w) then lo else hi) grid
  end.

Fixpoint map2 {A B C} (f : A -> B -> C) (a : list A) (b : list B) : list C :=
  match a, b with x :: r, y :: t => f x y :: map2 f r t | _, _ => [] end.

(* s_value = fill; s_value[index] = s.sample(commonwave[index]) *)
Definition sample_on (w v : list Qc) (fa : list Qc) (grid : list Qc) : list Qc :=
  map2 (fun x f => if inrange w x then interp w v x else f) grid fa.

(* Spectrum.sample(wave, 'linear', fill_value, waveunit): a copy is converted when the unit differs;
   interp1d(bounds_error=False) puts the fill value (below, above) outside the data range *)
Definition fill_at (f : fillv) (w : list Qc) (x : Qc) : Qc :=
  match f with FScalar c => c | FPair lo hi => if qltb x (wmin w) then lo else hi end.
Definition sample (s : spectrum) (pts : list Qc) (f : fillv) (u : wunit) : list Qc :=
  let s' := conv s u in
  map (fun x => if inrange (wave s') x then interp (wave s') (value s') x else fill_at f (wave s') x) pts.

(* ---------------------------------------------------------------- the five ufuncs *)
Inductive binop := OAdd | OSub | OMul | ODiv | OPow.
(* a float result: a rational, or inf/nan, or a value that is not a rational function of the
   inputs (non-integer exponent) and is therefore not modelled *)
Inductive xval := XQ (x : Qc) | XNonFinite | XUnmodelled.

Definition is_int (x : Qc) : bool := Pos.eqb (Qden x) 1.
(* integer exponents; beyond |n| = 1024 floats overflow/underflow for all but trivial bases: not modelled *)
Definition qpow_z (x : Qc) (n : Z) : xval :=
  if (1024 <? Z.abs n)%Z then XUnmodelled else
  if (0 <=? n)%Z then XQ (x ^ Z.to_nat n)
  else if qc_is0 x then XNonFinite else XQ (/ (x ^ Z.to_nat (- n))).

Definition apply (o : binop) (x y : Qc) : xval :=
  match o with
  | OAdd => XQ (x + y) | OSub => XQ (x - y) | OMul => XQ (x * y)
  | ODiv => if qc_is0 y then XNonFinite else XQ (x / y)
  | OPow => if is_int y then qpow_z x (Qnum y) else XUnmodelled
  end.

(* ---------------------------------------------------------------- _interp_common + _ufunc *)
Record rspectrum := mkR { rwave : list Qc; rvalue : list xval; rwu : wunit; rvu : vunit }.

(* the part of _interp_common that works on plain arrays already expressed in one unit *)
Definition common_grid (w1 w2 : list Qc) (m : sampling) : result (list Qc) :=
  let mn := qmin (wmin w1) (wmin w2) in
  let mx := qmax (wmax w1) (wmax w2) in
  rbind (sampling_of w1 w2 m) (fun dw =>
  let num := qceil ((mx - mn) / dw) in
  (* np.linspace(minwave, maxwave, num + 1): "Number of samples, -k, must be non-negative" *)
  if (num + 1 <? 0)%Z then Err ValueError else Ok (linspace mn mx num)).

Definition core (o : binop) (w1 v1 w2 v2 : list Qc) (m : sampling) (f : fillv)
  : result (list Qc * list xval) :=
  rbind (common_grid w1 w2 m) (fun grid =>
  Ok (grid, map2 (apply o) (sample_on w1 v1 (fillarr f w1 grid) grid)
                           (sample_on w2 v2 (fillarr f w2 grid) grid))).

(* Spectrum (op) Spectrum: the right operand is brought to the left operand's wavelength unit on a
   copy; the result carries the left operand's units *)
Definition spec_op (o : binop) (s1 s2 : spectrum) (m : sampling) (f : fillv)
  : result rspectrum :=
  let s2' := conv s2 (wu s1) in
  rbind (core o (wave s1) (value s1) (wave s2') (value s2') m f) (fun gv =>
  Ok (mkR (fst gv) (snd gv) (wu s1) (vu s1))).

(* Spectrum (op) scalar *)
Definition scalar_op (o : binop) (s : spectrum) (c : Qc) : rspectrum :=
  mkR (wave s) (map (fun v => apply o v c) (value s)) (wu s) (vu s).
(* Spectrum (op) list/tuple/ndarray: numpy broadcasting admits the same length or length one;
   anything else is a ValueError (from the ufunc or from the constructor's shape check) *)
Definition vector_op (o : binop) (s : spectrum) (l : list Qc) : result rspectrum :=
  if Nat.eqb (length l) (length (value s))
  then Ok (mkR (wave s) (map2 (apply o) (value s) l) (wu s) (vu s))
  else match l with
       | [c] => Ok (scalar_op o s c)
       | _ => Err ValueError
       end.

Inductive operand := PScalar (c : Qc) | PVector (l : list Qc) | PSpectrum (s : spectrum) | POther.

Definition ufunc (o : binop) (s : spectrum) (other : operand) (m : sampling) (f : fillv)
  : result rspectrum :=
  match other with
  | PScalar c => Ok (scalar_op o s c)
  | PVector l => vector_op o s l
  | PSpectrum s2 => spec_op o s s2 m f
  | POther => Err TypeError
  end.

(* s + x, s - x, s * x, s / x, s ** x *)
Definition dunder (o : binop) (s : spectrum) (other : operand) : result rspectrum :=
  ufunc o s other SMin (FScalar 0).
(* x (op) s for a non-Spectrum x: the class only defines __rmul__ = __mul__ *)
Definition rdunder (o : binop) (s : spectrum) (other : operand) : result rspectrum :=
  match o with OMul => dunder OMul s other | _ => Err TypeError end.

(* ---------------------------------------------------------------- the public entry points with ALL their arguments
   s.add / subtract / multiply / divide / power (other, sampling=..., method=..., fill_value=...):
   which argument forms are accepted, which are refused and with which exception, in the order the code meets them. *)
(* method: the three documented kinds, or a name scipy's interp1d does not know *)
Inductive meth := MLinear | MQuadratic | MCubic | MUnknown.
(* sampling: a valid form, a string other than 'min'/'left'/'right' (np.isscalar: returned as it is, the division
   of the range by it raises TypeError), or anything else - None, tuple, list, array ('Unknown sampling method') *)
Inductive sampling_arg := AOk (m : sampling) | ABadStr | ABadOther.

(* interp1d(spectrum.wave, spectrum.value, kind=method) inside Spectrum.sample: an unknown kind is refused before
   anything else (NotImplementedError); a spline of order k needs k + 1 samples ("The number of derivatives at
   boundaries does not match"); the linear kind accepts a single sample *)
Definition meth_min_points (mt : meth) : nat :=
  match mt with MLinear => 1 | MQuadratic => 3 | MCubic => 4 | MUnknown => 0 end.
Definition interp_ctor (mt : meth) (w : list Qc) : result unit :=
  match mt with
  | MUnknown => Err NotImplementedErr
  | _ => if Nat.leb (meth_min_points mt) (length w) then Ok tt else Err ValueError
  end.
(* spline kinds: the values inside an operand's range are scipy's (not modelled); where NEITHER operand is
   defined the result is the operator applied to the two fill values, whatever the kind *)
Definition spline_vals (o : binop) (w1 w2 : list Qc) (f : fillv) (grid : list Qc) : list xval :=
  map (fun x => if inrange w1 x || inrange w2 x then XUnmodelled else apply o (fill_at f w1 x) (fill_at f w2 x)) grid.

(* the arguments are met in this order: sampling (its form, then its value and the sample count it gives), then
   the interpolation kind with the left and with the right operand *)
Definition spec_call_args (mt : meth) (o : binop) (s1 s2 : spectrum) (a : sampling_arg) (f : fillv)
  : result rspectrum :=
  let s2' := conv s2 (wu s1) in
  match a with
  | ABadOther => Err ValueError                   (* _sampling: 'Unknown sampling method' *)
  | ABadStr => Err TypeError                      (* (maxwave - minwave) / 'foo' *)
  | AOk m =>
    match mt with
    | MLinear => spec_op o s1 s2 m f
    | _ =>
      rbind (common_grid (wave s1) (wave s2') m) (fun grid =>
      rbind (interp_ctor mt (wave s1)) (fun _ =>
      rbind (interp_ctor mt (wave s2')) (fun _ =>
      Ok (mkR grid (spline_vals o (wave s1) (wave s2') f grid) (wu s1) (vu s1)))))
    end
  end.
Definition spec_call (mt : meth) (o : binop) (s1 s2 : spectrum) (a : sampling_arg) (f : fillv)
  : result rspectrum :=
  match wave s1, wave (conv s2 (wu s1)) with
  | [], _ | _, [] => Err ValueError                 (* s.wave.min() of an empty array, before anything else *)
  | _, _ => spec_call_args mt o s1 s2 a f
  end.

(* Spectrum.sample(wave, method, fill_value, waveunit) with every argument form.  fill_value: a number, a
   (below, above) tuple, or something interp1d cannot broadcast (a two-element list / array, a longer tuple) *)
Inductive fill_arg := FOk (f : fillv) | FBadShape.
Definition sample_call (mt : meth) (s : spectrum) (pts : list Qc) (fa : fill_arg) (u : wunit) : result (list xval) :=
  let s' := conv s u in
  match mt with
  | MUnknown => Err NotImplementedErr               (* the kind is checked before anything else *)
  | _ =>
    if Nat.leb (meth_min_points mt) (length (wave s')) then
      match fa with
      | FBadShape => Err ValueError
      | FOk f => Ok (map (fun x => if inrange (wave s') x
                                   then match mt with MLinear => XQ (interp (wave s') (value s') x) | _ => XUnmodelled end
                                   else XQ (fill_at f (wave s') x)) pts)
      end
    else Err ValueError                             (* an empty table, or fewer samples than the spline order + 1 *)
  end.

(* the named methods: sampling, method and fill_value are looked at ONLY for a Spectrum operand *)
Definition method_call (mt : meth) (o : binop) (s : spectrum) (other : operand) (a : sampling_arg) (f : fillv)
  : result rspectrum :=
  match other with
  | PScalar c => Ok (scalar_op o s c)
  | PVector l => vector_op o s l
  | PSpectrum s2 => spec_call mt o s s2 a f
  | POther => Err TypeError
  end.

(* the result re-expressed in another wavelength unit (valueunit None) *)
Definition rto (r : rspectrum) (u : wunit) : rspectrum :=
  mkR (map (fun x => x * ufac (rwu r) u) (rwave r)) (rvalue r) u (rvu r).
Definition scale_sampling (c : Qc) (m : sampling) : sampling :=
  match m with SNum d => SNum (d * c) | _ => m end.

(* ================================================================ specification vocabulary
   (used only in the statements of Properties/C13.v; nothing below is executed) *)
Definition rmap_res {A B} (g : A -> B) (r : result A) : result B :=
  match r with Ok a => Ok (g a) | Err e => Err e end.
(* strictly increasing wavelengths - what the wave setter enforces *)
Fixpoint incr (w : list Qc) : Prop :=
  match w with a :: ((b :: _) as t) => a < b /\ incr t | _ => True end.
Definition wf (s : spectrum) : Prop := incr (wave s) /\ length (wave s) = length (value s) /\ wave s <> [].
(* m is the smallest element of l *)
Definition is_min_of (l : list Qc) (m : Qc) : Prop := In m l /\ forall y, In y l -> m <= y.
(* y is the value at x of the piecewise-linear interpolant through the samples (w_k, v_k): x lies on a
   segment [w_k, w_k+1] and y on its chord (a one-sample spectrum is defined at its sample only) *)
Definition on_interpolant (w v : list Qc) (x y : Qc) : Prop :=
  (length w = 1%nat /\ x = nth 0 w 0 /\ y = nth 0 v 0) \/
  exists k, (S k < length w)%nat /\ nth k w 0 <= x /\ x <= nth (S k) w 0 /\
            y = nth k v 0 + (nth (S k) v 0 - nth k v 0) * (x - nth k w 0) / (nth (S k) w 0 - nth k w 0).
Definition fill_below (f : fillv) : Qc := match f with FScalar c => c | FPair lo _ => lo end.
Definition fill_above (f : fillv) : Qc := match f with FScalar c => c | FPair _ hi => hi end.
(* the value a spectrum with samples (w, v) denotes at wavelength x under fill value f *)
Definition denotes (w v : list Qc) (f : fillv) (x y : Qc) : Prop :=
  (x < wmin w /\ y = fill_below f) \/ (wmax w < x /\ y = fill_above f) \/
  (wmin w <= x /\ x <= wmax w /\ on_interpolant w v x y).
(* rescaling of values by a constant (what Spectrum.to does to a density value unit) *)
Definition xscale (k : Qc) (x : xval) : xval := match x with XQ q => XQ (q * k) | other => other end.
Definition fscale (k : Qc) (f : fillv) : fillv :=
  match f with FScalar c => FScalar (c * k) | FPair lo hi => FPair (lo * k) (hi * k) end.
(* a result with a density value unit re-expressed in another wavelength unit: grid times the unit
   factor, values divided by it *)
Definition rto_density (r : rspectrum) (u : wunit) : rspectrum :=
  mkR (map (fun x => x * ufac (rwu r) u) (rwave r)) (map (xscale (/ ufac (rwu r) u)) (rvalue r)) u (rvu r).
