(* Model of lentil/field.py (after the fix: commits listed in known_findings.json).
   Field data is either 0-d ([D0 v], numpy shape ()) or 2-d ([D2 a]).  The empty field
   produced by a product without overlap (numpy shape (0,)) is [None] of [option field].
   Only 0-d data is a scalar that broadcasts in a product (Field.__mul__ / _mul_broadcast test
   ndim == 0 since the fix for C07-one-element-array-field); a 1x1 array is an ordinary sized field. *)
From LV Require Export Lib.Arr Model.Extent.

(* tilt elements carried as metadata; their optics is Model/Tilt.v *)
Inductive tilt :=
| TiltAng (tx ty : Qc)                         (* Tilt: attributes self.x, self.y as stored *)
| TiltDisp (trace0 trace1 disp0 disp1 root : Qc). (* first-order DispersiveTilt; root = sqrt(1+trace0^2) oracle *)

Section Field.
Variable S : Scalar.

Inductive fdata := D0 (v : S) | D2 (a : arr S).
Record field := mkField { fd : fdata; offr : Z; offc : Z; ftilt : list tilt }.

Definition dshape (d : fdata) : Z * Z := match d with D0 _ => (1, 1) | D2 a => (nr a, nc a) end.
Definition dsize (d : fdata) : Z := match d with D0 _ => 1 | D2 a => nr a * nc a end.
Definition dget (d : fdata) (i j : Z) : S := match d with D0 v => v | D2 a => get a i j end.
(* numpy shape equality: () vs (m,n) *)
Definition same_shape (a b : fdata) : bool :=
  match a, b with
  | D0 _, D0 _ => true
  | D2 x, D2 y => (nr x =? nr y) && (nc x =? nc y)
  | _, _ => false
  end.

Definition fextent (f : field) : extent :=
  let '(sr, sc) := dshape (fd f) in array_extent sr sc (offr f) (offc f).

(* numpy ndim == 0: only 0-d data is a scalar that broadcasts (fix: a 1x1 array is an ordinary sized field) *)
Definition is0d (d : fdata) : bool := match d with D0 _ => true | D2 _ => false end.

(* ---- Field.__mul__ ---- *)
(* _mul_scalar: both operands 0-d *)
Definition mul_scalar (a b : field) : option field :=
  if (offr a =? offr b) && (offc a =? offc b) then
    Some (mkField (D0 (dget (fd a) 0 0 * dget (fd b) 0 0)%K) (offr a) (offc a) (ftilt a ++ ftilt b))
  else None.

(* the part of _mul_array after broadcasting: two 2-d arrays with offsets *)
Definition toarr (d : fdata) : arr S := match d with D0 v => mkArr 1 1 (fun _ _ => v) | D2 a => a end.
Definition mul_core (da : arr S) (ora oca : Z) (db : arr S) (orb ocb : Z) (tl : list tilt) : option field :=
  let ea := array_extent (nr da) (nc da) ora oca in
  let eb := array_extent (nr db) (nc db) orb ocb in
  if intersect ea eb then
    let '(((ar0, ar1), (ac0, ac1)), ((br0, br1), (bc0, bc1))) := intersection_slices ea eb in
    let '(sr, sc) := intersection_shift ea eb in
    let data := mkArr (ar1 - ar0) (ac1 - ac0)
                  (fun i j => (get da (i + ar0) (j + ac0) * get db (i + br0) (j + bc0))%K) in
    Some (mkField (D2 (force data)) sr sc tl)
  else None.

(* _mul_array with _mul_broadcast: a 0-d operand whose shape differs from the other's is
   broadcast to the other's shape and inherits its offset *)
Definition mul_array (a b : field) : option field :=
  let da := fd a in let db := fd b in
  let diff := negb (same_shape da db) in
  let '(a1, ora, oca) :=
    if diff && is0d da
    then (aconst (fst (dshape db)) (snd (dshape db)) (dget da 0 0), offr b, offc b)
    else (toarr da, offr a, offc a) in
  let '(b1, orb, ocb) :=
    if diff && is0d db
    then (aconst (nr a1) (nc a1) (dget db 0 0), ora, oca)
    else (toarr db, offr b, offc b) in
  mul_core a1 ora oca b1 orb ocb (ftilt a ++ ftilt b).

Definition fmul (a b : field) : option field :=
  if is0d (fd a) && is0d (fd b) then mul_scalar a b else mul_array a b.

(* ---- boundary ---- *)
Definition maxsize : Z := 9223372036854775807.
Definition bstep (acc : extent) (f : field) : extent :=
  let '(rmin, rmax, cmin, cmax) := acc in
  let '(frmin, frmax, fcmin, fcmax) := fextent f in
  (if frmin <? rmin then frmin else rmin, if frmax >? rmax then frmax else rmax,
   if fcmin <? cmin then fcmin else cmin, if fcmax >? cmax then fcmax else cmax).
Definition boundary (fs : list field) : extent :=
  fold_left bstep fs (maxsize, - maxsize, maxsize, - maxsize).

(* _merge_scalars: every field is 0-d and sits at the origin *)
Definition merge_scalars (fs : list field) : bool :=
  forallb (fun f => match fd f with D0 _ => (offr f =? 0) && (offc f =? 0) | D2 _ => false end) fs.

(* ---- _merge (pixelscales are equal in every modelled use) ---- *)
Definition merge (fs : list field) : field :=
  let '(rmin, rmax, cmin, cmax) := boundary fs in
  let n_r := rmax - rmin + 1 in let n_c := cmax - cmin + 1 in
  if merge_scalars fs then
    (* shape (): out = zeros(()); out[...] += data for every field *)
    mkField (D0 (fold_left (fun acc f => (acc + dget (fd f) 0 0)%K) fs k0)) (rmin + n_r / 2) (cmin + n_c / 2) []
  else
    let out := mkArr n_r n_c (fun i j =>
      fold_left (fun acc f =>
                   let '(frmin, frmax, fcmin, fcmax) := fextent f in
                   if inb (frmin - rmin) (frmax - rmin) i && inb (fcmin - cmin) (fcmax - cmin) j
                   then (acc + dget (fd f) (i - (frmin - rmin)) (j - (fcmin - cmin)))%K else acc)
                fs k0) in
    mkField (D2 (force out)) (rmin + n_r / 2) (cmin + n_c / 2) [].

(* ---- _reduce / _disjoint: first intersecting pair in itertools.combinations order ---- *)
Definition group := (list field * extent)%type.
Fixpoint find_n (e : extent) (tl : list group) : option nat :=
  match tl with [] => None
  | g :: r => if intersect e (snd g) then Some O else option_map Datatypes.S (find_n e r) end.
Fixpoint find_pair (l : list group) : option (nat * nat) :=
  match l with [] => None
  | g :: r => match find_n (snd g) r with
              | Some k => Some (O, Datatypes.S k)
              | None => option_map (fun '(m, n) => (Datatypes.S m, Datatypes.S n)) (find_pair r) end end.
Fixpoint remove_nth {A} (n : nat) (l : list A) : list A :=
  match n, l with _, [] => [] | O, _ :: r => r | Datatypes.S k, x :: r => x :: remove_nth k r end.
Fixpoint update_nth {A} (n : nat) (f : A -> A) (l : list A) : list A :=
  match n, l with _, [] => [] | O, x :: r => f x :: r | Datatypes.S k, x :: r => x :: update_nth k f r end.
Definition merge_step (l : list group) (m n : nat) : list group :=
  let gn := nth n l ([], (0,0,0,0)) in
  let l' := update_nth m (fun gm => let fs := fst gm ++ fst gn in (fs, boundary fs)) l in
  remove_nth n l'.
Fixpoint disjoint (fuel : nat) (l : list group) : list group :=
  match fuel with O => l
  | Datatypes.S k => match find_pair l with None => l | Some (m, n) => disjoint k (merge_step l m n) end end.
Definition reduce_groups (fs : list field) : list group :=
  let l := map (fun f => ([f], fextent f)) fs in disjoint (length l) l.

Definition reduce (fs : list field) : list field :=
  map (fun g : group => match fst g with [f] => f | l => merge l end) (reduce_groups fs).

(* ---- insert ---- *)
Record clip := mkClip { o_lo : Z; o_hi : Z; f_lo : Z; f_hi : Z }.
Definition reconcile (R h ul : Z) : clip :=
  let f_lo := 0 in let f_hi := h in let o_lo := ul in let o_hi := ul + h in
  let '(f_lo, o_lo) := if o_lo <? 0 then (- o_lo, 0) else (f_lo, o_lo) in
  let '(f_hi, o_hi) := if o_hi >? R then (f_hi - (o_hi - R), R) else (f_hi, o_hi) in
  mkClip o_lo o_hi f_lo f_hi.
Definition clip_nonempty (c : clip) := o_lo c <? o_hi c.

(* insert(field, out, intensity, weight): [g] is applied to each sample before weighting
   (identity, or |.|^2 when intensity=True) *)
Definition insert (g : S -> S) (f : field) (out : arr S) (w : S) : result (arr S) :=
  match fd f with
  | D0 _ => Err ValueError     (* shape () does not broadcast against the (2,) output shape *)
  | D2 d =>
    if (nr d =? nr out) && (nc d =? nc out) && (offr f =? 0) && (offc f =? 0) then
      Ok (mkArr (nr out) (nc out) (fun i j => (get out i j + g (get d i j) * w)%K))
    else
      let cr := reconcile (nr out) (nr d) (nr out / 2 - nr d / 2 + offr f) in
      let cc := reconcile (nc out) (nc d) (nc out / 2 - nc d / 2 + offc f) in
      if negb (clip_nonempty cr) || negb (clip_nonempty cc) then Ok out
      else Ok (mkArr (nr out) (nc out) (fun i j =>
                 if (o_lo cr <=? i) && (i <? o_hi cr) && (o_lo cc <=? j) && (j <? o_hi cc)
                 then (get out i j + g (get d (i - o_lo cr + f_lo cr) (j - o_lo cc + f_lo cc)) * w)%K
                 else get out i j))
  end.

(* ---- the embedding of a field into the infinite plane ---- *)
Definition embed (f : field) (r c : Z) : S :=
  let '(rmin, rmax, cmin, cmax) := fextent f in
  if inb rmin rmax r && inb cmin cmax c then dget (fd f) (r - rmin) (c - cmin) else k0.
(* a 0-d field read as an infinite constant *)
Definition embed_const (f : field) (r c : Z) : S :=
  if is0d (fd f) then dget (fd f) 0 0 else embed f r c.
Definition embed_opt (o : option field) (r c : Z) : S :=
  match o with Some f => embed f r c | None => k0 end.
Definition embed_sum (fs : list field) (r c : Z) : S :=
  fold_left (fun acc f => (acc + embed f r c)%K) fs k0.

(* Wavefront.field / Wavefront.intensity / Wavefront.insert for a 2-d shape *)
Definition render (fs : list field) (n m : Z) : result (arr S) :=
  fold_left (fun acc f => rbind acc (fun o => rbind (insert (fun x => x) f o k1) (fun o' => Ok (force o'))))
            fs (Ok (azeros n m)).
Definition accumulate (fs : list field) (out : arr S) (w : S) : result (arr S) :=
  fold_left (fun acc f => rbind acc (fun o => rbind (insert norm2 f o w) (fun o' => Ok (force o'))))
            (reduce fs) (Ok out).
Definition intensity (fs : list field) (n m : Z) : result (arr S) := accumulate fs (azeros n m) k1.
End Field.
Arguments D0 {S}. Arguments D2 {S}. Arguments mkField {S}. Arguments fd {S}. Arguments offr {S}.
Arguments offc {S}. Arguments ftilt {S}. Arguments dshape {S}. Arguments dsize {S}. Arguments dget {S}. Arguments is0d {S}.
Arguments fextent {S}. Arguments fmul {S}. Arguments mul_scalar {S}. Arguments mul_array {S}.
Arguments boundary {S}. Arguments bstep {S}. Arguments merge {S}. Arguments reduce {S}. Arguments reduce_groups {S}.
Arguments insert {S}. Arguments embed {S}. Arguments embed_const {S}. Arguments embed_opt {S}.
Arguments embed_sum {S}. Arguments render {S}. Arguments accumulate {S}. Arguments intensity {S}.
Arguments same_shape {S}. Arguments toarr {S}. Arguments mul_core {S}. Arguments find_pair {S}. Arguments find_n {S}. Arguments merge_step {S}.
Arguments disjoint {S}. Arguments group {S}. Arguments merge_scalars {S}.
Arguments reconcile : simpl never.
