(* Model of lentil/plane.py (Plane.__init__, _plane_slice, Plane.multiply, _mul_pixelscale,
   Pupil.multiply), lentil/helper.py (boundary_slice, slice_offset), lentil/util.py (boundary) and of
   the Wavefront attributes they read and write (lentil/wavefront.py: __init__, empty, field,
   intensity, insert), statement by statement.  Floats are rationals; the complex exponential is the
   scalar structure's kernel:  exp(+2 pi i opd / wavelength) = ke (-(opd / wavelength)).
   The plane-type table (_mul_ptype_table) is C08's model (Model/PType.v) and is not repeated here:
   this model describes the multiplications that table permits.
   Definitions only, no proofs. *)
From LV Require Export Model.Field.

(* arrays of non-scalar values (OPD in metres: rationals; binary masks: booleans) *)
Record garr (A : Type) := mkP { pnr : Z; pnc : Z; pget : Z -> Z -> A }.
Arguments mkP {A}. Arguments pnr {A}. Arguments pnc {A}. Arguments pget {A}.

(* an index expression: Ellipsis, or a pair of slices [r0:r1, c0:c1] *)
Inductive pslice := SAll | SBox (r0 r1 c0 c1 : Z).

Definition zrange (n : Z) : list Z := map Z.of_nat (seq 0 (Z.to_nat n)).

(* np.where(v)[0][0] / np.where(v)[0][-1]; None = empty selection (IndexError) *)
Fixpoint pl_first (p : Z -> bool) (i : Z) (fuel : nat) : option Z :=
  match fuel with O => None | Datatypes.S k => if p i then Some i else pl_first p (i + 1) k end.
Fixpoint pl_last (p : Z -> bool) (n : nat) : option Z :=
  match n with O => None | Datatypes.S k => if p (Z.of_nat k) then Some (Z.of_nat k) else pl_last p k end.

(* lentil.util.boundary(x) for a binarised array (x > 0  <=>  x = 1) *)
Definition util_boundary (m : garr bool) : result extent :=
  let rows := fun i => existsb (fun j => pget m i j) (zrange (pnc m)) in
  let cols := fun j => existsb (fun i => pget m i j) (zrange (pnr m)) in
  match pl_first rows 0 (Z.to_nat (pnr m)), pl_last rows (Z.to_nat (pnr m)),
        pl_first cols 0 (Z.to_nat (pnc m)), pl_last cols (Z.to_nat (pnc m)) with
  | Some rmin, Some rmax, Some cmin, Some cmax => Ok (rmin, rmax, cmin, cmax)
  | _, _, _, _ => Err IndexError
  end.

(* helper.boundary_slice(x) with pad = (0, 0) *)
Definition boundary_slice (m : garr bool) : result pslice :=
  match util_boundary m with
  | Ok (rmin, rmax, cmin, cmax) =>
      Ok (SBox (Z.max (rmin - 0) 0) (Z.min (rmax + 0 + 1) (pnr m))
               (Z.max (cmin - 0) 0) (Z.min (cmax + 0 + 1) (pnc m)))
  | Err e => Err e
  end.

(* helper.slice_offset(slice, shape) *)
Definition slice_offset (s : pslice) (sr sc : Z) : Z * Z :=
  match s with
  | SAll => (0, 0)
  | SBox r0 r1 c0 c1 => (r0 + (r1 - r0) / 2 - sr / 2, c0 + (c1 - c0) / 2 - sc / 2)
  end.

(* tilt[n::size] *)
Fixpoint take_every {A} (k : nat) (i : nat) (l : list A) : list A :=
  match l with
  | [] => []
  | x :: r => match i with O => x :: take_every k (Nat.pred k) r | Datatypes.S j => take_every k j r end
  end.

Fixpoint rmapM {A B} (f : A -> result B) (l : list A) : result (list B) :=
  match l with
  | [] => Ok []
  | x :: r => rbind (f x) (fun y => rbind (rmapM f r) (fun t => Ok (y :: t)))
  end.

(* focal length of a wavefront: np.inf, None (inherited from a Pupil built without one), or a number *)
Inductive focal := FInf | FNone | FVal (q : Qc).
(* `focal_length if focal_length else np.inf`  (Wavefront.__init__, reached through Wavefront.empty) *)
Definition focal_truthy (f : focal) : focal :=
  match f with FVal q => if Qc_eq_bool q 0%Qc then FInf else FVal q | _ => FInf end.

(* _mul_pixelscale(a_pixelscale, b_pixelscale) *)
Definition mul_pixelscale (a b : option (Qc * Qc)) : result (option (Qc * Qc)) :=
  match a, b with
  | None, None => Ok None
  | None, Some y => Ok (Some y)
  | Some x, None => Ok (Some x)
  | Some x, Some y =>
      if Qc_eq_bool (fst x) (fst y) && Qc_eq_bool (snd x) (snd y) then Ok (Some x) else Err ValueError
  end.

(* pixelscale argument: None, a scalar or a pair; np.broadcast_to(pixelscale, (2,)) *)
Inductive pixraw := PixNone | Pix1 (q : Qc) | Pix2 (qr qc : Qc).
Definition pix_broadcast (p : pixraw) : option (Qc * Qc) :=
  match p with PixNone => None | Pix1 q => Some (q, q) | Pix2 a b => Some (a, b) end.

Section Plane.
Variable S : Scalar.
Variable nz : S -> bool.            (* x != 0 *)

Definition kofb (b : bool) : S := if b then k1 else k0.

(* ---- constructor arguments ---- *)
Inductive aattr := AmpS (v : S) | AmpA (a : arr S).                  (* amplitude: 0-d or 2-d *)
Inductive oattr := OpdS (q : Qc) | OpdA (o : garr Qc).               (* opd: 0-d or 2-d *)
Inductive mraw := MNone | MS (v : S) | M2 (a : arr S) | M3 (n m : Z) (l : list (arr S))   (* mask: None, 0-d, 2-d, cube (k, n, m) *)
              | M4.                                                                  (* an array of rank >= 4 *)

(* ---- the mask as stored: binary ---- *)
Inductive pmask := PM0 (b : bool) | PM2 (m : garr bool) | PM3 (n m : Z) (l : list (garr bool)).
Definition binarise (a : arr S) : garr bool := mkP (nr a) (nc a) (fun i j => nz (get a i j)).

Record plane := mkPlane {
  pl_amp : aattr; pl_opd : oattr; pl_mask : pmask;
  pl_slices : list pslice;               (* Plane._slice *)
  pl_pix : option (Qc * Qc);
  pl_tilt : list tilt;                   (* Plane.tilt *)
  pl_focal : option focal                (* Some f: a Pupil with focal_length f (FNone if not given); None: plain Plane *)
}.

(* mask = np.copy(amplitude) if mask is None else np.array(mask);  mask[mask != 0] = 1 *)
Definition init_mask (amp : aattr) (mask : mraw) : pmask :=
  match mask with
  | MNone => match amp with AmpS v => PM0 (nz v) | AmpA a => PM2 (binarise a) end
  | MS v => PM0 (nz v)
  | M2 a => PM2 (binarise a)
  | M3 n m l => PM3 n m (map binarise l)
  | M4 => PM0 false            (* never used: _plane_slice refuses the rank *)
  end.

(* _plane_slice(mask) *)
Definition plane_slice (m : pmask) : result (list pslice) :=
  match m with
  | PM0 _ => Ok [SAll]
  | PM2 a => rbind (boundary_slice a) (fun s => Ok [s])
  | PM3 _ _ l => rmapM boundary_slice l
  end.

(* Plane.__init__ / Pupil.__init__ (tilt starts empty; the attribute is public and may be assigned) *)
Definition plane_init (amp : aattr) (opd : oattr) (mask : mraw) (pix : pixraw) (foc : option focal)
           (tl : list tilt) : result plane :=
  match mask with
  | M4 => Err ValueError         (* _plane_slice: 'mask has invalid dimensions' *)
  | _ =>
    let m := init_mask amp mask in
    rbind (plane_slice m) (fun sl => Ok (mkPlane amp opd m sl (pix_broadcast pix) tl foc))
  end.

(* the `amp=` alias of `amplitude=`:  if 'amp' in kwargs: if amplitude != 1: raise TypeError; amplitude = kwargs['amp'].
   `amplitude != 1` on an array with more than one element has no truth value (numpy raises ValueError) *)
Definition amp_kw (amplitude : aattr) (alias : option aattr) : result aattr :=
  match alias with
  | None => Ok amplitude
  | Some a' =>
      match amplitude with
      | AmpS v => if nz (v - k1)%K then Err TypeError else Ok a'
      | AmpA A => if nr A * nc A =? 1 then (if nz (get A 0 0 - k1)%K then Err TypeError else Ok a') else Err ValueError
      end
  end.
Definition plane_init_kw (amplitude : aattr) (alias : option aattr) (opd : oattr) (mask : mraw) (pix : pixraw)
           (foc : option focal) (tl : list tilt) : result plane :=
  rbind (amp_kw amplitude alias) (fun a => plane_init a opd mask pix foc tl).

(* Plane.global_mask: the mask itself below rank 3, else the sum over the segments (a count) *)
Definition zofb (b : bool) : Z := if b then 1 else 0.
Definition global_mask (mk : pmask) (i j : Z) : Z :=
  match mk with
  | PM0 b => zofb b
  | PM2 a => zofb (pget a i j)
  | PM3 _ _ l => fold_right (fun a acc => zofb (pget a i j) + acc) 0 l
  end.

(* Plane.size *)
Definition psize (m : pmask) : nat := match m with PM3 _ _ l => length l | _ => 1%nat end.
(* Plane.shape: the mask's shape if mask.ndim < 3 (() for a 0-d mask), else the trailing two dimensions
   of the cube (fix: a one-layer cube is a segmented plane with one segment) *)
Inductive pshape := Sh0 | Sh2 (n m : Z).
Definition plane_shape (m : pmask) : pshape :=
  match m with
  | PM0 _ => Sh0
  | PM2 a => Sh2 (pnr a) (pnc a)
  | PM3 n m l => Sh2 n m
  end.

(* ---- the wavefront ---- *)
Record pwf := mkPwf {
  pw_lam : Qc;                          (* wavelength *)
  pw_pix : option (Qc * Qc);
  pw_focal : focal;
  pw_shape : option (Z * Z);            (* None = () *)
  pw_data : list (field S)
}.

(* Wavefront(wavelength, pixelscale, focal_length, tilt): one 0-d field 1+0j at the origin *)
Definition pwf_init (lam : Qc) (pix : pixraw) (foc : option Qc) (tl : list tilt) : pwf :=
  mkPwf lam (pix_broadcast pix) (focal_truthy (match foc with Some q => FVal q | None => FNone end)) None
        [mkField (D0 k1) 0 0 tl].

(* Wavefront(..., tilt=[rx, ry]): anything but two entries is refused; Tilt(x=rx, y=ry) stores self.x = ry, self.y = rx *)
Definition pwf_init_kw (lam : Qc) (pix : pixraw) (foc : option Qc) (tilt_arg : option (list Qc)) : result pwf :=
  match tilt_arg with
  | None => Ok (pwf_init lam pix foc [])
  | Some [rx; ry] => Ok (pwf_init lam pix foc [TiltAng ry rx])
  | Some _ => Err ValueError
  end.

(* ---- Plane.multiply: the phasor of segment n ---- *)
(* mask seen by the loop body: self.mask if mask.ndim < 3 else self.mask[n] *)
Inductive msk1 := MK0 (b : bool) | MK2 (m : garr bool).

(* amp = amplitude * mask if mask.size == 1 else amplitude * mask[s]     (amplitude.size == 1; fix: a
                                                                          one-element mask is applied too)
   amp = amplitude[s] * mask[s]                                          (otherwise)
   Array attributes are required to have the shape of the mask; numpy's behaviour for other shapes
   (clipped slices, broadcasting) is outside the model: ValueError. *)
Definition amp_data (a : aattr) (mk : msk1) (s : pslice) : result (fdata S) :=
  match a with
  | AmpS v =>
      match mk with
      | MK0 b => Ok (D0 (v * kofb b)%K)
      | MK2 m =>
          (* a 1 x 1 mask has the bounding slice [0:1, 0:1]: amplitude * mask and amplitude * mask[s] coincide *)
          match s with
          | SBox r0 r1 c0 c1 =>
              Ok (D2 (mkArr (r1 - r0) (c1 - c0) (fun i j => (v * kofb (pget m (i + r0) (j + c0)))%K)))
          | SAll => Err ValueError
          end
      end
  | AmpA A =>
      match mk, s with
      | MK0 b, _ => Ok (D2 (mkArr (nr A) (nc A) (fun i j => (get A i j * kofb b)%K)))
      | MK2 m, SBox r0 r1 c0 c1 =>
          if (nr A =? pnr m) && (nc A =? pnc m)
          then Ok (D2 (mkArr (r1 - r0) (c1 - c0)
                         (fun i j => (get A (i + r0) (j + c0) * kofb (pget m (i + r0) (j + c0)))%K)))
          else Err ValueError
      | MK2 _, SAll => Err ValueError
      end
  end.

(* np.exp(2*np.pi*1j*opd/wavelength) with opd = self.opd or self.opd[s] *)
Definition phase (lam q : Qc) : S := ke (- (q / lam))%Qc.
Definition opd_data (o : oattr) (lam : Qc) (mk : msk1) (s : pslice) : result (fdata S) :=
  match o with
  | OpdS q => Ok (D0 (phase lam q))
  | OpdA oa =>
      match s with
      | SAll => Ok (D2 (mkArr (pnr oa) (pnc oa) (fun i j => phase lam (pget oa i j))))
      | SBox r0 r1 c0 c1 =>
          match mk with
          | MK2 m =>
              if (pnr oa =? pnr m) && (pnc oa =? pnc m)
              then Ok (D2 (mkArr (r1 - r0) (c1 - c0) (fun i j => phase lam (pget oa (i + r0) (j + c0)))))
              else Err ValueError
          | MK0 _ => Err ValueError
          end
      end
  end.

(* numpy product of two 0-d/2-d operands of equal 2-d shapes *)
Definition dmul (x y : fdata S) : result (fdata S) :=
  match x, y with
  | D0 a, D0 b => Ok (D0 (a * b)%K)
  | D0 a, D2 B => Ok (D2 (mkArr (nr B) (nc B) (fun i j => (a * get B i j)%K)))
  | D2 A, D0 b => Ok (D2 (mkArr (nr A) (nc A) (fun i j => (get A i j * b)%K)))
  | D2 A, D2 B => if (nr A =? nr B) && (nc A =? nc B)
                  then Ok (D2 (mkArr (nr A) (nc A) (fun i j => (get A i j * get B i j)%K)))
                  else Err ValueError
  end.
Definition dforce (d : fdata S) : fdata S := match d with D0 v => D0 v | D2 a => D2 (force a) end.

Definition phasor (P : plane) (lam : Qc) (sr sc : Z) (n : nat) (mk : msk1) (s : pslice) : result (field S) :=
  rbind (amp_data (pl_amp P) mk s) (fun a =>
  rbind (opd_data (pl_opd P) lam mk s) (fun o =>
  rbind (dmul a o) (fun d =>
  let '(orr, occ) := slice_offset s sr sc in
  Ok (mkField (dforce d) orr occ
        (match pl_tilt P with [] => [] | tl => take_every (psize (pl_mask P)) n tl end))))).

Fixpoint phasors_from (P : plane) (lam : Qc) (sr sc : Z) (n : nat) (mks : list msk1) (sl : list pslice)
  : result (list (field S)) :=
  match mks, sl with
  | mk :: mr, s :: sr' =>
      rbind (phasor P lam sr sc n mk s) (fun p =>
      rbind (phasors_from P lam sr sc (Datatypes.S n) mr sr') (fun r => Ok (p :: r)))
  | _, _ => Ok []
  end.

(* the phasors of all segments, in the order of `enumerate(self._slice)` *)
Definition plane_phasors (P : plane) (lam : Qc) : result (list (field S)) :=
  match pl_mask P with
  | PM0 b => phasors_from P lam 0 0 0 [MK0 b] (pl_slices P)
  | PM2 m => phasors_from P lam (pnr m) (pnc m) 0 [MK2 m] (pl_slices P)
  | PM3 n m l => phasors_from P lam n m 0 (map MK2 l) (pl_slices P)
  end.

(* for field in data: for n, s in enumerate(self._slice): res = field * phasor; keep if res.size > 0 *)
Definition keep (o : option (field S)) : list (field S) := match o with Some x => [x] | None => [] end.
Definition mul_fields (phs fs : list (field S)) : list (field S) :=
  flat_map (fun f => flat_map (fun p => keep (fmul f p)) phs) fs.

Definition plane_multiply (P : plane) (w : pwf) : result pwf :=
  rbind (mul_pixelscale (pl_pix P) (pw_pix w)) (fun px =>
  let shape := match plane_shape (pl_mask P) with Sh0 => pw_shape w | Sh2 n m => Some (n, m) end in
  rbind (match pw_data w with [] => Ok [] | _ => plane_phasors P (pw_lam w) end) (fun phs =>
  Ok (mkPwf (pw_lam w) px
            (match pl_focal P with Some f => f | None => focal_truthy (pw_focal w) end)   (* Pupil.multiply *)
            shape (mul_fields phs (pw_data w))))).

(* ---- lentil.Tilt(x, y) as a plane (TiltInterface.multiply): the default plane (amplitude 1, opd 0, no
   mask), then `field.tilt.append(self)` for every field of the result ---- *)
Definition append_tilt (t : tilt) (w : pwf) : pwf :=
  mkPwf (pw_lam w) (pw_pix w) (pw_focal w) (pw_shape w)
        (map (fun f => mkField (fd f) (offr f) (offc f) (ftilt f ++ [t])) (pw_data w)).
(* an element of an optical chain *)
Inductive celem := CPlane (P : plane) | CTilt (t : tilt) (P : plane).
Definition elem_multiply (e : celem) (w : pwf) : result pwf :=
  match e with
  | CPlane P => plane_multiply P w
  | CTilt t P => match plane_multiply P w with Ok w' => Ok (append_tilt t w') | Err e => Err e end
  end.

(* ---- attribute updates on a live plane object ---- *)
(* plane.amplitude = value / plane.amplitude[...] = value: the mask and the slices computed by the constructor stay *)
Definition set_amp (P : plane) (a : aattr) : plane :=
  mkPlane a (pl_opd P) (pl_mask P) (pl_slices P) (pl_pix P) (pl_tilt P) (pl_focal P).
Definition set_opd (P : plane) (o : oattr) : plane :=
  mkPlane (pl_amp P) o (pl_mask P) (pl_slices P) (pl_pix P) (pl_tilt P) (pl_focal P).
(* plane.mask[...] = value (in place): Plane._slice is NOT recomputed *)
Definition set_mask_inplace (P : plane) (m : pmask) : plane :=
  mkPlane (pl_amp P) (pl_opd P) m (pl_slices P) (pl_pix P) (pl_tilt P) (pl_focal P).

(* ---- Wavefront.field / .intensity / .insert ---- *)
(* insertion into a 0-d array: only 0-d data at offset (0, 0) fits (the Ellipsis path) *)
Definition insert0 (g : S -> S) (f : field S) (out w : S) : result S :=
  match fd f with
  | D0 v => if (offr f =? 0) && (offc f =? 0) then Ok (out + g v * w)%K else Err ValueError
  | D2 _ => Err ValueError
  end.
Definition fold0 (g : S -> S) (fs : list (field S)) (w : S) : result S :=
  fold_left (fun acc f => rbind acc (fun o => insert0 g f o w)) fs (Ok k0).

Definition pwf_field (w : pwf) : result (fdata S) :=
  match pw_shape w with
  | Some (n, m) => match render (pw_data w) n m with Ok a => Ok (D2 a) | Err e => Err e end
  | None => match fold0 (fun x => x) (pw_data w) k1 with Ok v => Ok (D0 v) | Err e => Err e end
  end.
Definition pwf_intensity (w : pwf) : result (fdata S) :=
  match pw_shape w with
  | Some (n, m) => match intensity (pw_data w) n m with Ok a => Ok (D2 a) | Err e => Err e end
  | None => match fold0 norm2 (reduce (pw_data w)) k1 with Ok v => Ok (D0 v) | Err e => Err e end
  end.
(* Wavefront.insert(out, weight) for a 2-d array out *)
Definition pwf_insert (w : pwf) (out : arr S) (weight : S) : result (arr S) := accumulate (pw_data w) out weight.

(* ---- specification side: the pointwise transmission of a plane with an array mask ---- *)
Definition amp_at (a : aattr) (i j : Z) : S := match a with AmpS v => v | AmpA A => get A i j end.
Definition opd_at (o : oattr) (i j : Z) : Qc := match o with OpdS q => q | OpdA oa => pget oa i j end.
(* a mask read at an arbitrary index: not set outside the array *)
Definition mask_at (a : garr bool) (i j : Z) : bool := inr (pnr a) i && inr (pnc a) j && pget a i j.
(* number of segment masks that contain sample (i, j), as a scalar *)
Definition cover (ms : list (garr bool)) (i j : Z) : S :=
  fold_right (fun m acc => (kofb (mask_at m i j) + acc)%K) k0 ms.
Definition masks_of (m : pmask) : list (garr bool) :=
  match m with PM0 _ => [] | PM2 a => [a] | PM3 _ _ l => l end.
(* amplitude * exp(2 pi i opd / lambda) * [mask] at plane coordinate (r, c) (origin = sample floor(n/2)) *)
Definition transmission (P : plane) (lam : Qc) (sr sc : Z) (r c : Z) : S :=
  let i := r + sr / 2 in let j := c + sc / 2 in
  (amp_at (pl_amp P) i j * phase lam (opd_at (pl_opd P) i j) * cover (masks_of (pl_mask P)) i j)%K.

(* ---- vocabulary of the theorems (Proofs/PlaneP.v, Properties/C07.v, Properties/C03.v) ---- *)
(* data of positive dimensions (0-d data always) *)
Definition fwell (f : field S) : Prop :=
  match fd f with D0 _ => True | D2 a => 0 < nr a /\ 0 < nc a end.
(* a field with 2-d data of positive dimensions *)
Definition fsized (f : field S) : Prop :=
  match fd f with D2 d => 0 < nr d /\ 0 < nc d | D0 _ => False end.

(* array attributes have the shape of the mask *)
Definition attr_compat (P : plane) (n m : Z) : Prop :=
  (match pl_amp P with AmpA A => nr A = n /\ nc A = m | AmpS _ => True end) /\
  (match pl_opd P with OpdA o => pnr o = n /\ pnc o = m | OpdS _ => True end).

(* shape of a plane with an array mask *)
Definition plane_dims (mk : pmask) : option (Z * Z) :=
  match mk with
  | PM0 _ => None
  | PM2 a => Some (pnr a, pnc a)
  | PM3 n m l => Some (n, m)
  end.

(* a plane with an array mask whose slices are those computed from the mask (the constructor's
   invariant) and whose array attributes have the mask's shape *)
Record plane_ok (P : plane) (n m : Z) : Prop := {
  ok_dims : plane_dims (pl_mask P) = Some (n, m);
  ok_slices : plane_slice (pl_mask P) = Ok (pl_slices P);
  ok_layers : forall a, In a (masks_of (pl_mask P)) -> pnr a = n /\ pnc a = m;
  ok_attr : attr_compat P n m
}.

(* the attribute array's shape (both arrays must agree), None when amplitude and opd are scalars *)
Definition attr_shape (P : plane) : option (Z * Z) :=
  match pl_amp P, pl_opd P with
  | AmpA A, _ => Some (nr A, nc A)
  | AmpS _, OpdA o => Some (pnr o, pnc o)
  | AmpS _, OpdS _ => None
  end.
Definition smask_plane (P : plane) (b : bool) (n m : Z) : Prop :=
  pl_mask P = PM0 b /\ pl_slices P = [SAll] /\ attr_shape P = Some (n, m) /\ 0 < n /\ 0 < m /\
  (match pl_amp P, pl_opd P with AmpA A, OpdA o => pnr o = nr A /\ pnc o = nc A | _, _ => True end).
(* amplitude * [mask] * exp(2 pi i opd / lambda) inside the attribute array, nothing outside it *)
Definition smask_transmission (P : plane) (b : bool) lam n m r c : S :=
  if inr n (r + n / 2) && inr m (c + m / 2)
  then (amp_at (pl_amp P) (r + n / 2) (c + m / 2) * kofb b * phase lam (opd_at (pl_opd P) (r + n / 2) (c + m / 2)))%K
  else k0.


(* sum of the fields, 0-d fields (the plane wave of a fresh Wavefront) read as infinite constants *)
Definition ec_sum (fs : list (field S)) (r c : Z) : S :=
  fold_right (fun f acc => (embed_const f r c + acc)%K) k0 fs.

Definition plane_scalar (P : plane) (v : S) (q : Qc) (b : bool) : Prop :=
  pl_amp P = AmpS v /\ pl_opd P = OpdS q /\ pl_mask P = PM0 b /\ pl_slices P = [SAll].

(* 0-d fields of the wavefront sit at the origin (the plane wave of a fresh Wavefront) *)
Definition origin_consts (fs : list (field S)) : Prop :=
  forall f, In f fs -> is0d (fd f) = true -> offr f = 0 /\ offc f = 0.

Definition disjoint_masks (l : list (garr bool)) : Prop :=
  ForallOrdPairs (fun a b => forall i j, mask_at a i j && mask_at b i j = false) l.

(* the segmented and the monolithic description of one aperture: segment masks pairwise disjoint
   (bounding boxes may overlap), the global mask their union, same amplitude and OPD *)
Definition partition_of (Pseg Pmono : plane) (n m : Z) : Prop :=
  pl_pix Pseg = pl_pix Pmono /\ pl_focal Pseg = pl_focal Pmono /\
  pl_amp Pseg = pl_amp Pmono /\ pl_opd Pseg = pl_opd Pmono /\
  plane_ok Pseg n m /\ plane_ok Pmono n m /\
  disjoint_masks (masks_of (pl_mask Pseg)) /\
  exists g, pl_mask Pmono = PM2 g /\
    forall i j, mask_at g i j = existsb (fun a => mask_at a i j) (masks_of (pl_mask Pseg)).

(* Wavefront(...) * P1 * ... * Pk *)
Fixpoint chain_multiply (ps : list plane) (w : pwf) : result pwf :=
  match ps with
  | [] => Ok w
  | P :: r => rbind (plane_multiply P w) (chain_multiply r)
  end.

Definition same_optics (P1 P2 : plane) : Prop :=
  pl_pix P1 = pl_pix P2 /\ pl_focal P1 = pl_focal P2 /\
  exists n m, plane_ok P1 n m /\ plane_ok P2 n m /\
    forall lam r c, transmission P1 lam n m r c = transmission P2 lam n m r c.
Definition wf_equiv (w1 w2 : pwf) : Prop :=
  pw_lam w1 = pw_lam w2 /\ pw_shape w1 = pw_shape w2 /\ pw_pix w1 = pw_pix w2 /\ pw_focal w1 = pw_focal w2 /\
  (forall f, In f (pw_data w1) -> fwell f) /\ (forall f, In f (pw_data w2) -> fwell f) /\
  forall r c, ec_sum (pw_data w1) r c = ec_sum (pw_data w2) r c.
End Plane.

Arguments AmpS {S}. Arguments AmpA {S}. Arguments MNone {S}. Arguments MS {S}. Arguments M2 {S}. Arguments M3 {S}.
Arguments mkPlane {S}. Arguments pl_amp {S}. Arguments pl_opd {S}. Arguments pl_mask {S}. Arguments pl_slices {S}.
Arguments pl_pix {S}. Arguments pl_tilt {S}. Arguments pl_focal {S}.
Arguments mkPwf {S}. Arguments pw_lam {S}. Arguments pw_pix {S}. Arguments pw_focal {S}. Arguments pw_shape {S}.
Arguments pw_data {S}. Arguments kofb {S}. Arguments binarise {S}. Arguments init_mask {S}.
Arguments plane_init {S}. Arguments amp_kw {S}. Arguments plane_init_kw {S}. Arguments pwf_init_kw {S}. Arguments M4 {S}. Arguments pwf_init {S}. Arguments amp_data {S}. Arguments opd_data {S}. Arguments phase {S}.
Arguments dmul {S}. Arguments dforce {S}. Arguments phasor {S}. Arguments phasors_from {S}. Arguments plane_phasors {S}.
Arguments keep {S}. Arguments mul_fields {S}. Arguments plane_multiply {S}. Arguments insert0 {S}. Arguments fold0 {S}.
Arguments append_tilt {S}. Arguments CPlane {S}. Arguments CTilt {S}. Arguments elem_multiply {S}.
Arguments set_amp {S}. Arguments set_opd {S}. Arguments set_mask_inplace {S}.
Arguments pwf_field {S}. Arguments pwf_intensity {S}. Arguments pwf_insert {S}. Arguments amp_at {S}.
Arguments cover {S}. Arguments transmission {S}.
Arguments mask_at : simpl never.
Arguments fwell {S}. Arguments fsized {S}. Arguments attr_compat {S}. Arguments plane_ok {S}. Arguments ec_sum {S}.
Arguments attr_shape {S}. Arguments smask_plane {S}. Arguments smask_transmission {S}.
Arguments plane_scalar {S}. Arguments origin_consts {S}. Arguments partition_of {S}. Arguments chain_multiply {S}.
Arguments same_optics {S}. Arguments wf_equiv {S}.
