(* Model of the detector chain of lentil/detector.py (current tree: adc clips a copy with
   np.minimum whenever a capacity is given, builds the powers by repeated multiplication, the Bayer mosaic is built with np.tile + np.repeat):
     qe_asarray, collect_charge, format_bayer_string, collect_charge_bayer, adc.
   Charge collection needs ring operations only and is generic over [S : Scalar]; digitisation
   needs order and floor and lives on the rationals (every float is a rational).
   A Spectrum-valued efficiency is sampled by lentil.radiometry (qe.sample(wave, waveunit), C13/C14);
   here it enters as the sampled vector, the tie exercises the sampling through the implementation.
   Definitions only; the lemmas are in Proofs/DetectorP.v. *)
From LV Require Export Lib.Arr Lib.Instances.
From Coq Require Export Qround.

(* (nwave, nrows, ncols) arrays and 1-d arrays, as pull arrays *)
Record cube (S : Scalar) := mkCube { cnk : Z; cnr : Z; cnc : Z; cget : Z -> Z -> Z -> S }.
Arguments mkCube {S}. Arguments cnk {S}. Arguments cnr {S}. Arguments cnc {S}. Arguments cget {S}.
Record vec (S : Scalar) := mkVec { vn : Z; vget : Z -> S }.
Arguments mkVec {S}. Arguments vn {S}. Arguments vget {S}.

(* numpy broadcasting of one axis: equal lengths, or one of them is 1 *)
Definition bdim (a b : Z) : result Z :=
  if a =? b then Ok a else if a =? 1 then Ok b else if b =? 1 then Ok a else Err ValueError.
(* index into an axis of length n that may have been broadcast *)
Definition bidx (n i : Z) : Z := if n =? 1 then 0 else i.

(* ---- format_bayer_string: the string is a list of channel codes 0 = 'R', 1 = 'G', 2 = 'B'
   (upper() makes the letter case irrelevant), any other character is a code outside 0..2 ---- *)
Record pattern := mkPat { pk : Z; pch : Z -> Z -> Z }.
Definition chan_ok (c : Z) : bool := (0 <=? c) && (c <=? 2).
Definition format_bayer (l : list Z) : result pattern :=
  if forallb chan_ok l then                      (* len(s.strip('RGB')) == 0 *)
    let n := Z.of_nat (length l) in
    let dim := Z.sqrt n in                        (* np.sqrt(size).astype(int) *)
    if n =? dim * dim then Ok (mkPat dim (fun i j => nth (Z.to_nat (i * dim + j)) l 0))   (* reshape((dim, dim)) *)
    else Err ValueError
  else Err ValueError.

Section Collect.
Variable S : Scalar.

Inductive imgrep := Img2 (a : arr S) | Img3 (c : cube S).
(* img[np.newaxis, ...] for a 2-d image *)
Definition as_cube (x : imgrep) : cube S :=
  match x with Img2 a => mkCube 1 (nr a) (nc a) (fun _ i j => get a i j) | Img3 c => c end.

(* quantum efficiency: scalar (shape ()) or vector; [nw] = wave.size *)
Inductive qerep := QScalar (q : S) | QVec (v : vec S).
Definition qe_asarray (qe : qerep) (nw : Z) : result (vec S) :=
  match qe with
  | QScalar q => Ok (mkVec nw (fun _ => (q * k1)%K))          (* qe*np.ones(wave.size) *)
  | QVec v => if vn v =? nw then Ok v else Err AssertionErr     (* assert qe.size == wave.size *)
  end.

(* np.einsum('ijk,i->jk', img, qe); einsum broadcasts an axis of length 1 *)
Definition einsum_ki (img : cube S) (qe : vec S) : result (arr S) :=
  rbind (bdim (cnk img) (vn qe)) (fun n =>
    Ok (mkArr (cnr img) (cnc img)
          (fun i j => sumZ n (fun k => (cget img (bidx (cnk img) k) i j * vget qe (bidx (vn qe) k))%K)))).

Definition collect_charge (img : imgrep) (nw : Z) (qe : qerep) : result (arr S) :=
  rbind (qe_asarray qe nw) (fun q => einsum_ki (as_cube img) q).

(* ---- colour filter array ---- *)
(* np.where(bayer_pattern == ch, 1, 0) *)
Definition kernel (p : pattern) (ch : Z) : arr S :=
  mkArr (pk p) (pk p) (fun i j => if pch p i j =? ch then k1 else k0).
(* np.tile(a, (ry, rx)): ry x rx copies side by side; sample i of an axis is sample (i mod n) of a *)
Definition tile (a : arr S) (ry rx : Z) : arr S :=
  mkArr (nr a * ry) (nc a * rx) (fun i j => get a (i mod nr a) (j mod nc a)).
(* np.repeat(np.repeat(a, os, axis=0), os, axis=1): every sample replicated os x os *)
Definition repeat2 (a : arr S) (os : Z) : arr S :=
  mkArr (nr a * os) (nc a * os) (fun i j => get a (i / os) (j / os)).
Definition mosaic (p : pattern) (ch nrow ncol os : Z) : arr S :=
  repeat2 (tile (kernel p ch) (nrow / pk p) (ncol / pk p)) os.
(* a * b with numpy broadcasting *)
Definition bmul (a b : arr S) : result (arr S) :=
  rbind (bdim (nr a) (nr b)) (fun n => rbind (bdim (nc a) (nc b)) (fun m =>
    Ok (mkArr n m (fun i j => (get a (bidx (nr a) i) (bidx (nc a) j) * get b (bidx (nr b) i) (bidx (nc b) j))%K)))).
Definition channel_e (c : cube S) (q : vec S) (mos : arr S) : result (arr S) :=
  rbind (einsum_ki c q) (fun e => bmul e mos).

(* flatten=False: the three channel images (R, G, B).  [os >= 1] and a non-empty pattern are the
   modelled domain (oversample = 0 or an empty pattern string raise ZeroDivisionError in the code,
   which [errkind] does not have; such inputs are never sent to the model) *)
Definition collect_charge_bayer_channels (img : imgrep) (nw : Z) (qr qg qb : qerep) (pat : list Z) (os : Z)
  : result (arr S * arr S * arr S) :=
  rbind (qe_asarray qr nw) (fun vr => rbind (qe_asarray qg nw) (fun vg => rbind (qe_asarray qb nw) (fun vb =>
  rbind (format_bayer pat) (fun p =>
  if (os <? 1) || (pk p <? 1) then Err ValueError else
  let c := as_cube img in
  let nrow := cnr c / os in let ncol := cnc c / os in
  rbind (channel_e c vr (mosaic p 0 nrow ncol os)) (fun r =>
  rbind (channel_e c vg (mosaic p 1 nrow ncol os)) (fun g =>
  rbind (channel_e c vb (mosaic p 2 nrow ncol os)) (fun b => Ok (r, g, b)))))))).
(* flatten=True: red_e + green_e + blue_e *)
Definition flatten3 (t : arr S * arr S * arr S) : arr S :=
  let '(r, g, b) := t in mkArr (nr r) (nc r) (fun i j => (get r i j + get g i j + get b i j)%K).
Definition collect_charge_bayer (img : imgrep) (nw : Z) (qr qg qb : qerep) (pat : list Z) (os : Z) : result (arr S) :=
  rbind (collect_charge_bayer_channels img nw qr qg qb pat os) (fun t => Ok (flatten3 t)).

(* ---- vocabulary of the statements ---- *)
Definition arr_eq (a b : arr S) : Prop :=
  nr a = nr b /\ nc a = nc b /\ forall i j, 0 <= i < nr a -> 0 <= j < nc a -> get a i j = get b i j.
Definition cube_add (a b : cube S) : cube S :=
  mkCube (cnk a) (cnr a) (cnc a) (fun k i j => (cget a k i j + cget b k i j)%K).
Definition cube_scale (s : S) (a : cube S) : cube S :=
  mkCube (cnk a) (cnr a) (cnc a) (fun k i j => (s * cget a k i j)%K).
Definition vec_add (a b : vec S) : vec S := mkVec (vn a) (fun k => (vget a k + vget b k)%K).
Definition vec_scale (s : S) (a : vec S) : vec S := mkVec (vn a) (fun k => (s * vget a k)%K).
(* sum over wavelength slices of photons times efficiency at one pixel *)
Definition charge_at (c : cube S) (q : vec S) (i j : Z) : S :=
  sumZ (cnk c) (fun k => (cget c k i j * vget q k)%K).
(* the efficiency of a colour *)
Definition qe_of (ch : Z) (vr vg vb : vec S) : vec S := if ch =? 0 then vr else if ch =? 1 then vg else vb.
End Collect.
Arguments Img2 {S}. Arguments Img3 {S}. Arguments as_cube {S}. Arguments QScalar {S}. Arguments QVec {S}.
Arguments qe_asarray {S}. Arguments einsum_ki {S}. Arguments collect_charge {S}. Arguments kernel {S}.
Arguments tile {S}. Arguments repeat2 {S}. Arguments mosaic {S}. Arguments bmul {S}. Arguments channel_e {S}.
Arguments collect_charge_bayer_channels {S}. Arguments flatten3 {S}. Arguments collect_charge_bayer {S}.
Arguments arr_eq {S}. Arguments cube_add {S}. Arguments cube_scale {S}. Arguments vec_add {S}.
Arguments vec_scale {S}. Arguments charge_at {S}. Arguments qe_of {S}.

(* ====================================================================================
   adc: analog to digital conversion, on the rationals
   ==================================================================================== *)
Definition QcS : Scalar :=
  mkScalar Qc (Q2Qc 0) 1%Qc Qcplus Qcmult Qcminus Qcopp (fun x => x) (fun q => q) (fun _ => 1%Qc).

Definition qgt (x y : Qc) : bool := match (x ?= y)%Qc with Gt => true | _ => false end.   (* x > y *)
Definition qmin (x y : Qc) : Qc := if qgt x y then y else x.                                (* np.minimum *)
Definition qfloor (x : Qc) : Z := Qfloor (this x).                                          (* np.floor *)

(* the four documented gain forms by ndim, and anything of higher rank *)
Inductive gainrep :=
| G0 (g : Qc)               (* scalar *)
| G1 (l : list Qc)          (* polynomial coefficients, applied to every pixel *)
| G2 (a : arr QcS)          (* pixel-by-pixel scalar gain *)
| G3 (c : cube QcS)         (* pixel-by-pixel polynomial: first axis = coefficients *)
| GN.                       (* ndim >= 4 *)

(* `if saturation_capacity is not None:` - every capacity, 0 included, switches saturation on *)
Definition sat_active (sat : option Qc) : option Qc := sat.
(* img = np.minimum(img, saturation_capacity) *)
Definition clip (sat : option Qc) (e : Qc) : Qc :=
  match sat_active sat with Some s => qmin e s | None => e end.

Fixpoint anyn (n : nat) (f : nat -> bool) : bool :=
  match n with O => false | Datatypes.S k => anyn k f || f k end.
Definition anyZ (n : Z) (f : Z -> bool) : bool := anyn (Z.to_nat n) (fun i => f (Z.of_nat i)).
(* np.any(img > saturation_capacity), evaluated only when saturation is active *)
Definition saturated (sat : option Qc) (img : arr QcS) : bool :=
  match sat_active sat with
  | Some s => anyZ (nr img) (fun i => anyZ (nc img) (fun j => qgt (get img i j) s))
  | None => false
  end.

(* model_order; gain[..., np.newaxis] turns the scalar into a one-coefficient polynomial *)
Definition gorder (g : gainrep) : Z :=
  match g with G0 _ => 1 | G1 l => Z.of_nat (length l) | G2 _ => 1 | G3 c => cnk c | GN => 0 end.
(* the pixel axes of the gain, if it has any *)
Definition gdims (g : gainrep) : option (Z * Z) :=
  match g with G2 a => Some (nr a, nc a) | G3 c => Some (cnr c, cnc c) | _ => None end.
(* the factor of power-cube slice d at pixel (i,j) in the three einsum forms *)
Definition gcoef (g : gainrep) (d i j : Z) : Qc :=
  match g with
  | G0 v => v
  | G1 l => nth (Z.to_nat d) l (Q2Qc 0)
  | G2 a => get a i j
  | G3 c => cget c d i j
  | GN => Q2Qc 0
  end.
(* img_cube: the last slice is img itself, slice d = slice (d+1) * img = img ** (n - d) for d = n-2 .. 0 (the loop) *)
Definition power_slice (n d : Z) (e : Qc) : Qc := if d <? n - 1 then Qcpower e (Z.to_nat (n - d)) else e.
(* sum over the first einsum axis *)
Definition gain_model (n : Z) (coef : Z -> Qc) (e : Qc) : Qc :=
  @sumZ QcS n (fun d => (power_slice n d e * coef d)%Qc).

(* the DN frame of shape r x c: np.floor, then img[img < 0] = 0; (gr, gc) = pixel axes of the gain *)
Definition adc_frame (img : arr QcS) (g : gainrep) (sat : option Qc) (r c gr gc : Z) : arr ZS :=
  @mkArr ZS r c (fun i j =>
    let e := clip sat (get img (bidx (nr img) i) (bidx (nc img) j)) in
    Z.max 0 (qfloor (gain_model (gorder g) (fun d => gcoef g d (bidx gr i) (bidx gc j)) e))).
(* returns (warning emitted?, DN frame); einsum broadcasts pixel axes of length 1 *)
Definition adc (img : arr QcS) (g : gainrep) (sat : option Qc) (warn : bool) : result (bool * arr ZS) :=
  let w := warn && saturated sat img in
  match g with
  | GN => Err ValueError
  | _ =>
    match gdims g with
    | None => Ok (w, adc_frame img g sat (nr img) (nc img) 0 0)
    | Some (gr, gc) =>
        rbind (bdim (nr img) gr) (fun r => rbind (bdim (nc img) gc) (fun c =>
          Ok (w, adc_frame img g sat r c gr gc)))
    end
  end.

(* ---- vocabulary of the statements ---- *)
(* np.polyval: Horner, highest power first *)
Definition polyval (l : list Qc) (x : Qc) : Qc := fold_left (fun acc c => (acc * x + c)%Qc) l (Q2Qc 0).
(* range 0 .. n-1 *)
Definition zrange (n : Z) : list Z := map Z.of_nat (seq 0 (Z.to_nat n)).
(* the gain polynomial of pixel (i,j): coefficients highest power first, without constant term *)
Definition gain_poly (g : gainrep) (i j : Z) : list Qc :=
  match g with
  | G0 v => [v]
  | G1 l => l
  | G2 a => [get a i j]
  | G3 c => map (fun d => cget c d i j) (zrange (cnk c))
  | GN => []
  end.
(* the gain carries exactly one value / one polynomial per pixel of an r x c frame *)
Definition gain_fits (g : gainrep) (r c : Z) : Prop :=
  match g with
  | G0 _ | G1 _ => True
  | G2 a => nr a = r /\ nc a = c
  | G3 cu => cnr cu = r /\ cnc cu = c /\ 0 <= cnk cu
  | GN => False
  end.
(* the electron count clipped to the saturation capacity, as the property states it: every capacity clips *)
Definition clip_spec (sat : option Qc) (e : Qc) : Qc :=
  match sat with Some s => qmin e s | None => e end.
(* the digital number the property prescribes *)
Definition dn_spec (coefs : list Qc) (sat : option Qc) (e : Qc) : Z :=
  Z.max 0 (qfloor (polyval (coefs ++ [Q2Qc 0]) (clip_spec sat e))).
(* some pixel holds more electrons than the capacity *)
Definition exceeds (sat : option Qc) (img : arr QcS) : Prop :=
  match sat with
  | Some s => exists i j, 0 <= i < nr img /\ 0 <= j < nc img /\ (s < get img i j)%Qc
  | None => False
  end.

(* ---- arrays read from row-major lists (the test cases) ---- *)
Definition cube_of_list (S : Scalar) (k r c : Z) (l : list S) : cube S :=
  mkCube k r c (fun d i j => nth (Z.to_nat ((d * r + i) * c + j)) l k0).
Definition vec_of_list (S : Scalar) (l : list S) : vec S :=
  mkVec (Z.of_nat (length l)) (fun k => nth (Z.to_nat k) l k0).
