(* Model of lentil/propagate.py:propagate_dft (and _dft_alpha, _mask_shape, _mask_shift,
   _propagate_ptype, util.boundary on the output mask), statement by statement.

   A wavefront is what propagate_dft consumes: wavelength, pixelscale (per axis, or None), focal
   length, shape, plane type and the list of Fields (Model/Field.v).  Floats are rationals.
   The shift of a field caused by its tilt list (Field.shift, property C04) is a PARAMETER
   [shift_of : field -> Qc * Qc] (row, column), so that Model/Tilt.v can be plugged in; for a field
   with an empty tilt list Field.shift returns (0, 0).  np.fix and the sub-pixel split are modelled
   on the rationals.  The square root of the unitary factor is the parameter [sq] of Model/Dft.v.
   Definitions only, no proofs. *)
From LV Require Export Model.Field Model.Dft.

(* the plane type of a Wavefront: lentil.none, lentil.pupil or lentil.image (the Wavefront.ptype
   setter accepts nothing else) *)
Inductive wf_ptype := PtNone | PtPupil | PtImage.

(* np.fix: rounding toward zero *)
Definition qfix (q : Qc) : Z := Z.quot (Qnum (this q)) (Zpos (Qden (this q))).

(* ---- the output mask: a 2-d array seen through  x > threshold  (threshold = 0) ---- *)
Record bmask := mkMask { mnr : Z; mnc : Z; mget : Z -> Z -> bool }.

(* np.any over 0 <= k < n *)
Fixpoint any_upto (n : nat) (p : Z -> bool) : bool :=
  match n with O => false | Datatypes.S k => any_upto k p || p (Z.of_nat k) end.
Definition anyZ (n : Z) (p : Z -> bool) : bool := any_upto (Z.to_nat n) p.
(* np.where(v)[0][0] and np.where(v)[0][-1]; None = empty selection (IndexError) *)
Fixpoint first_from (fuel : nat) (i : Z) (p : Z -> bool) : option Z :=
  match fuel with O => None | Datatypes.S k => if p i then Some i else first_from k (i + 1) p end.
Definition first_true (n : Z) (p : Z -> bool) : option Z := first_from (Z.to_nat n) 0 p.
Fixpoint last_upto (n : nat) (p : Z -> bool) : option Z :=
  match n with O => None | Datatypes.S k => if p (Z.of_nat k) then Some (Z.of_nat k) else last_upto k p end.
Definition last_true (n : Z) (p : Z -> bool) : option Z := last_upto (Z.to_nat n) p.

(* lentil.util.boundary(mask, threshold=0) *)
Definition mask_boundary (m : bmask) : result extent :=
  let rows := fun i => anyZ (mnc m) (fun j => mget m i j) in
  let cols := fun j => anyZ (mnr m) (fun i => mget m i j) in
  match first_true (mnr m) rows, last_true (mnr m) rows, first_true (mnc m) cols, last_true (mnc m) cols with
  | Some rmin, Some rmax, Some cmin, Some cmax => Ok (rmin, rmax, cmin, cmax)
  | _, _, _, _ => Err IndexError
  end.

(* _mask_shape / _mask_shift from the boundary b of a mask of shape (R, C) *)
Definition mask_shape (b : extent) : Z * Z :=
  let '(rmin, rmax, cmin, cmax) := b in (rmax - rmin + 1, cmax - cmin + 1).
Definition mask_shift (R C : Z) (b : extent) : Z * Z :=
  let '(rmin, rmax, cmin, cmax) := b in
  let rc_full := R / 2 in let cc_full := C / 2 in
  let sh0 := rmax - rmin + 1 in let sh1 := cmax - cmin + 1 in
  let rc_extent := rmin + sh0 / 2 in let cc_extent := cmin + sh1 / 2 in
  (rc_extent - rc_full, cc_extent - cc_full).

(* the bounding box, in array indices, of the samples the caller asks for: the whole output
   array without a mask, util.boundary(mask) with one *)
Definition mask_bbox (mask : option bmask) (Ro Co : Z) : result extent :=
  match mask with None => Ok (0, Ro - 1, 0, Co - 1) | Some m => mask_boundary m end.

(* _propagate_ptype(ptype, 'fraunhofer') *)
Definition propagate_ptype (t : wf_ptype) : result wf_ptype :=
  match t with PtNone => Err TypeError | PtPupil => Ok PtImage | PtImage => Ok PtPupil end.

(* _dft_alpha: one axis.  focal length None = np.inf (a finite number divided by inf is 0.0) *)
Definition dft_alpha1 (dx du wavelength : Qc) (z : option Qc) (os : Z) : Qc :=
  match z with
  | Some zz => ((dx * du) / (wavelength * zz * zq os))%Qc
  | None => 0%Qc
  end.

Section Propagate.
Variable S : Scalar.
Variable sq : Qc -> S.

Record wavefront := mkWf {
  wwl : Qc;                       (* wavelength *)
  wps : option (Qc * Qc);         (* pixelscale (row, col); None if never set *)
  wfocal : option Qc;             (* focal length; None = np.inf *)
  wshape : Z * Z;                 (* shape of the plane the fields live in *)
  wptype : wf_ptype;
  wdata : list (field S)
}.

(* Wavefront.__init__:  self.focal_length = focal_length if focal_length else np.inf *)
Definition init_focal (z : option Qc) : option Qc :=
  match z with Some zz => if Qc_eq_bool zz 0%Qc then None else Some zz | None => None end.

(* the body of the loop over wavefront.data for one field; None = the propagated chip does not
   meet the output window (nothing appended) *)
Definition prop_field (oe : extent) (Pro Pco : Z) (alpha : option (Qc * Qc)) (sh : Qc * Qc)
           (f : field S) : result (option (field S)) :=
  let fxr := qfix (fst sh) in let fxc := qfix (snd sh) in           (* fix_shift *)
  let sbr := (fst sh - zq fxr)%Qc in let sbc := (snd sh - zq fxc)%Qc in   (* subpx_shift *)
  let pe := array_extent Pro Pco fxr fxc in                          (* prop_extent *)
  if intersect oe pe then
    let ishape := intersection_shape oe pe in
    let '(isr, isc) := intersection_shift oe pe in
    let '(Ir1, Ic1) := match ishape with Some s => s | None => (1, 1) end in   (* array_extent((), .) *)
    let ie := array_extent Ir1 Ic1 isr isc in                       (* intersect_extent *)
    let '(pcr, pcc) := array_center pe in
    let '(icr, icc) := array_center ie in
    let psr := pcr - icr in let psc := pcc - icc in                  (* prop_shift *)
    match alpha with
    | None => Err TypeError                                          (* dx[0] on None *)
    | Some (ar, ac) =>
      match ishape, fd f with
      | Some (Ir, Ic), D2 a =>
          let data := dft2 sq a ar ac Ir Ic (zq psr + sbr)%Qc (zq psc + sbc)%Qc (offr f) (offc f) true in
          Ok (Some (mkField (D2 data) isr isc []))
      | _, _ => Err ValueError      (* 0-d data: m, n = f.shape fails; shape (): broadcast fails *)
      end
    end
  else Ok None.

Fixpoint prop_fields (shift_of : field S -> Qc * Qc) (oe : extent) (Pro Pco : Z) (alpha : option (Qc * Qc))
         (fs : list (field S)) : result (list (field S)) :=
  match fs with
  | [] => Ok []
  | f :: r =>
    rbind (prop_field oe Pro Pco alpha (shift_of f) f) (fun o =>
    rbind (prop_fields shift_of oe Pro Pco alpha r) (fun l =>
    Ok (match o with Some g => g :: l | None => l end)))
  end.

(* the output window: centred shape*oversample box, or the mask's bounding box *)
Definition out_extent (Ro Co : Z) (mask : option bmask) : result extent :=
  match mask with
  | None => Ok (array_extent Ro Co 0 0)
  | Some m =>
    if negb (mnr m =? Ro) && negb (mnc m =? Co) then Err ValueError   (* np.all(mask.shape != shape_out) *)
    else rbind (mask_boundary m) (fun b =>
         let '(msr, msc) := mask_shape b in
         let '(mhr, mhc) := mask_shift (mnr m) (mnc m) b in
         Ok (array_extent msr msc mhr mhc))
  end.

(* propagate_dft(wavefront, pixelscale=(dur, duc), shape, prop_shape, oversample, mask) *)
Definition propagate_dft (shift_of : field S -> Qc * Qc) (w : wavefront) (dur duc : Qc)
           (shape prop_shape : option (Z * Z)) (os : Z) (mask : option bmask) : result wavefront :=
  rbind (propagate_ptype (wptype w)) (fun ptype_out =>
  let '(Sr, Sc) := match shape with None => wshape w | Some s => s end in
  let '(Pr, Pc) := match prop_shape with None => (Sr, Sc) | Some p => p end in
  let Ro := Sr * os in let Co := Sc * os in            (* shape_out *)
  let Pro := Pr * os in let Pco := Pc * os in          (* prop_shape_out *)
  rbind (out_extent Ro Co mask) (fun oe =>
  let alpha := match wps w with
               | None => None
               | Some (dxr, dxc) => Some (dft_alpha1 dxr dur (wwl w) (wfocal w) os,
                                          dft_alpha1 dxc duc (wwl w) (wfocal w) os)
               end in
  rbind (prop_fields shift_of oe Pro Pco alpha (wdata w)) (fun l =>
  Ok (mkWf (wwl w) (Some ((dur / zq os)%Qc, (duc / zq os)%Qc)) (init_focal (wfocal w)) (Ro, Co) ptype_out l)))).

(* Wavefront.field and Wavefront.intensity *)
Definition wfield (w : wavefront) : result (arr S) := render (wdata w) (fst (wshape w)) (snd (wshape w)).
Definition wintensity (w : wavefront) : result (arr S) := intensity (wdata w) (fst (wshape w)) (snd (wshape w)).

(* ---- specification vocabulary (not code) ----
   the Fraunhofer sum of an infinite plane g supported in the box [-B, B]^2, optical axis at
   coordinate (0, 0), evaluated at output coordinates (U, V) *)
Definition plane_fraunhofer (B : Z) (g : Z -> Z -> S) (ar ac : Qc) (U V : Qc) : S :=
  sumZ (2 * B + 1) (fun x => sumZ (2 * B + 1) (fun y =>
    (g (x - B)%Z (y - B)%Z * ke (ar * zq (x - B) * U + ac * zq (y - B) * V)%Qc)%K)).

(* Wavefront.insert(out, weight): every reduced field adds weight * |field|^2 into the caller's array *)
Definition winsert (w : wavefront) (out : arr S) (weight : S) : result (arr S) := accumulate (wdata w) out weight.

(* specification vocabulary: the field with every sample multiplied by the constant c (amplitude scaling) *)
Definition fscale (c : S) (f : field S) : field S :=
  mkField (match fd f with
           | D2 a => D2 (mkArr (nr a) (nc a) (fun x y => (c * get a x y)%K))
           | D0 v => D0 (c * v)%K
           end) (offr f) (offc f) (ftilt f).

(* Field.shift for a field without tilt elements *)
Definition no_shift (f : field S) : Qc * Qc := (0%Qc, 0%Qc).
End Propagate.

Arguments mkWf {S}. Arguments wwl {S}. Arguments wps {S}. Arguments wfocal {S}. Arguments wshape {S}.
Arguments wptype {S}. Arguments wdata {S}. Arguments prop_field {S}. Arguments prop_fields {S}.
Arguments propagate_dft {S}. Arguments plane_fraunhofer {S}. Arguments wfield {S}. Arguments wintensity {S}. Arguments winsert {S}. Arguments fscale {S}. Arguments no_shift {S}.
