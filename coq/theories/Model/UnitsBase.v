(* C14 - base vocabulary shared by the generated table (Gen/UnitTable.v) and the hand-written
   model (Model/Units.v): the unit names and the record of field operations the generated
   flux-conversion terms are written over.  Definitions only. *)
From Coq Require Export QArith Qcanon.

(* wavelength units accepted by lentil.radiometry.Unit (canonical names m, um, nm, angstrom) *)
Inductive wunit := Wm | Wum | Wnm | Wangstrom.
(* flux units (photlam, flam, wlam) *)
Inductive funit := Fphotlam | Fflam | Fwlam.

Definition all_wunits : list wunit := (Wm :: Wum :: Wnm :: Wangstrom :: nil)%list.
Definition all_funits : list funit := (Fphotlam :: Fflam :: Fwlam :: nil)%list.

(* a carrier with the operations of a field and an injection of the rationals (for the numeric
   literals of the source).  No laws here: theorems take them from the instance. *)
Record Fld := mkFld {
  F :> Type;
  f0 : F; f1 : F;
  fadd : F -> F -> F; fmul : F -> F -> F; fsub : F -> F -> F; fdiv : F -> F -> F;
  fopp : F -> F;
  fofq : Q -> F
}.
Arguments f0 {f}. Arguments f1 {f}. Arguments fadd {f}. Arguments fmul {f}. Arguments fsub {f}.
Arguments fdiv {f}. Arguments fopp {f}. Arguments fofq {f}.

Declare Scope F_scope. Delimit Scope F_scope with F.
Notation "x + y" := (fadd x y) : F_scope.
Notation "x * y" := (fmul x y) : F_scope.
Notation "x - y" := (fsub x y) : F_scope.
Notation "x / y" := (fdiv x y) : F_scope.
Notation "- x" := (fopp x) : F_scope.

(* execution instance: canonical rationals (every float is one) *)
Definition QcF : Fld := mkFld Qc 0%Qc 1%Qc Qcplus Qcmult Qcminus Qcdiv Qcopp Q2Qc.
(* the theorem instance (the real numbers, [RF]) is defined in Proofs/UnitsP.v so that model and
   extraction files do not load the Reals *)
