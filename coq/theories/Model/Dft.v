(* Model of lentil/fourier.py: dft2 (matrix triple product) and idft2, following the code:
     E1[u,x] = e(alpha_r (x - floor(m/2) + offset_r) (u - floor(M/2) - shift_r))      (the transposed outer product)
     E2[y,v] = e(alpha_c (y - floor(n/2) + offset_c) (v - floor(N/2) - shift_c))
     F = (E1 . f) . E2,  times sqrt|alpha_r alpha_c| when unitary.
   e t = exp(-2 pi i t) is the scalar structure's kernel [ke]; alpha and shift are rationals (every
   float is one), offsets and shapes integers.  The square root is the parameter [sq]. *)
From LV Require Export Lib.Arr.

Definition zq (z : Z) : Qc := Q2Qc (inject_Z z).
Definition qabs (q : Qc) : Qc := if Qle_bool (this q) 0 then (- q)%Qc else q.

Section Dft.
Variable S : Scalar.
Variable sq : Qc -> S.        (* sq q = sqrt q, q >= 0 *)

(* phase (in turns) of matrix entry: alpha * (input coordinate) * (output coordinate) *)
Definition phase (alpha : Qc) (n off x : Z) (shift : Qc) (Nn u : Z) : Qc :=
  (alpha * zq (x - n / 2 + off) * (zq (u - Nn / 2) - shift))%Qc.

Definition dft2_raw (f : arr S) (ar ac : Qc) (M N : Z) (shr shc : Qc) (offr offc : Z) : arr S :=
  let m := nr f in let n := nc f in
  let t := force (mkArr M n (fun u y => sumZ m (fun x => (ke (phase ar m offr x shr M u) * get f x y)%K))) in
  force (mkArr M N (fun u v => sumZ n (fun y => (get t u y * ke (phase ac n offc y shc N v))%K))).

Definition unitary_scale (unitary : bool) (ar ac : Qc) : S :=
  if unitary then sq (qabs (ar * ac)%Qc) else k1.

Definition dft2 (f : arr S) (ar ac : Qc) (M N : Z) (shr shc : Qc) (offr offc : Z) (unitary : bool) : arr S :=
  let F := dft2_raw f ar ac M N shr shc offr offc in
  if unitary then amap (fun z => (z * unitary_scale true ar ac)%K) F else F.

(* idft2(F, alpha, shape, shift, unitary): conj, forward transform (no offset), conj, and division
   by the number of input samples unless unitary (fix: commit d3fa362) *)
Definition idft2 (F : arr S) (ar ac : Qc) (M N : Z) (shr shc : Qc) (unitary : bool) : arr S :=
  let G := dft2 (amap kconj F) ar ac M N shr shc 0 0 unitary in
  let G' := amap kconj G in
  if unitary then G' else amap (fun z => (z * kofq (/ zq (nr F * nc F))%Qc)%K) G'.

(* the out= argument: a caller-supplied buffer of a given dtype and shape, any content *)
Inductive dtype := Complex128 | Float64 | OtherComplex.
Definition dft2_out (out : option (dtype * arr S)) (f : arr S) (ar ac : Qc) (M N : Z) (shr shc : Qc)
           (offr offc : Z) (unitary : bool) : result (arr S) :=
  match out with
  | None => Ok (dft2 f ar ac M N shr shc offr offc unitary)
  | Some (dt, buf) =>
    match dt with
    | Float64 => Err TypeError                         (* cannot cast complex to the buffer's dtype *)
    | _ => if (nr buf =? M) && (nc buf =? N)
           then Ok (dft2 f ar ac M N shr shc offr offc unitary)   (* every cell overwritten *)
           else Err ValueError
    end
  end.

(* the defining Fourier sum at output coordinates (U, V) *)
Definition fourier_sum (f : arr S) (ar ac : Qc) (offr offc : Z) (U V : Qc) : S :=
  sumZ (nr f) (fun x => sumZ (nc f) (fun y =>
    (get f x y * ke (ar * zq (x - nr f / 2 + offr) * U + ac * zq (y - nc f / 2 + offc) * V)%Qc)%K)).
End Dft.
Arguments phase : simpl never.
Arguments dft2_raw {S}. Arguments dft2 {S}. Arguments idft2 {S}. Arguments dft2_out {S}.
Arguments fourier_sum {S}. Arguments unitary_scale {S}.
