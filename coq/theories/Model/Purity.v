(* C10 - purity model: an explicit heap of array buffers, objects holding buffer ids, registers,
   the private [_dft2_coords] cache and the global numpy generator as state components.

   The model is about ALIASING and STATE, not about values: every numeric result is produced by
   an opaque kernel [kf code inputs params] (a section variable of record type [kernels]).  What
   each operation's body writes down - as read off the current source - is
     * which arguments are aliased            (np.asarray of an ndarray: the id is stored),
     * which are copied                        (np.copy / np.array / deepcopy / arithmetic: [alloc]),
     * which are written in place              (index assignment, -=, +=, out=: [wr]),
     * which hidden state is read or advanced  (cache, global generator).
   Definitions only; the lemmas are in Proofs/PurityP.v. *)
From LV Require Import Lib.Base.

Definition aid := nat.                      (* id of an array buffer (views share the id of their base) *)
Definition oid := nat.                      (* id of a Plane / Wavefront / Spectrum object *)
Definition arrv := list Z.                  (* flattened contents; [length = 1] <-> ndarray.size == 1 *)
Record cell := mkcell { cval : arrv; cfrozen : bool }.   (* cfrozen: setflags(write=False) *)
Definition heap := list cell.               (* buffer i is the i-th cell; allocation appends *)

Definition tilt := (Z * Z)%type.            (* a fitted Tilt(x, y), values abstract *)
Record field := mkfield { f_data : aid; f_tilt : list tilt }.
Inductive obj :=
| Plane (amp opd mask : aid) (tl : list tilt) (nseg : nat) (kind : Z)   (* kind 0 Plane, 1 Pupil, 2 Image *)
| Wave (fs : list field)
| Spec (wave value : aid).
Inductive value := VArr (a : aid) | VObj (o : oid) | VNone.

Definition key := (Z * Z * Z * Z)%type.     (* (m, n, M, N): the arguments of _dft2_coords *)
Definition cent := (aid * aid * aid * aid)%type.   (* the cached R, S, U, V arrays *)

Record state := mkstate {
  hp : heap;                    (* every ndarray buffer alive in the interpreter *)
  ob : list obj;                (* objects, by id *)
  env : list value;             (* caller's variables: register k = result of step k *)
  cache : list (key * cent);    (* functools.lru_cache(maxsize=32) of _dft2_coords, most recent first *)
  rng : Z                       (* state of the global generator np.random, opaque *)
}.

Record kernels := mkkernels {
  kf : Z -> list arrv -> list Z -> arrv;    (* numeric kernels: code, array inputs, scalar parameters *)
  kt : arrv -> arrv -> nat -> tilt;         (* least-squares tilt of a segment: opd, mask, segment *)
  krng : Z -> Z                             (* the global generator after a draw *)
}.

Record outcome := mkout {
  o_status : Z;                 (* 0 ok, 1 ValueError (read-only destination), 4 NotImplementedError, 9 bad register *)
  o_writes : list aid;          (* buffers the call assigns into (in place) *)
  o_owrites : list oid;         (* objects whose attributes the call rebinds *)
  o_res : value
}.

(* ---- public operations; arguments are registers ---- *)
Inductive op :=
| ONewArr (len : nat) (frozen : bool)              (* the caller creates an array *)
| OPoke (r : nat)                                  (* the caller assigns into its own array between calls *)
| OPlane (kind : Z) (amp opd mask : option nat) (nseg : nat)   (* Plane/Pupil/Image(amplitude, opd, mask); None = scalar / default *)
| OSetOpd (p a : nat)                              (* plane.opd = a *)
| OSetAmp (p a : nat)                              (* plane.amplitude = a *)
| OFitTilt (p : nat) (inplace : bool)
| OCopy (p : nat)                                  (* Plane.copy *)
| ORescale (p : nat)                               (* Plane.rescale / resample *)
| OWave (t : option tilt)                          (* Wavefront(wavelength, tilt=[rx, ry]) *)
| OMul (p w : nat)                                 (* plane.multiply(w) / w * plane *)
| OPropDft (w : nat) (z : Z) (keys : list key)     (* propagate_dft; keys: the _dft2_coords key of each field *)
| OPropFft (w : nat) (scratch : option nat)        (* propagate_fft(scratch=) *)
| OInsert (w out : nat)                            (* Wavefront.insert(out) *)
| OWField (w : nat) (intensity : bool)             (* Wavefront.field / .intensity *)
| ODft2 (f : nat) (k : key) (out : option nat) (inverse : bool) (params : list Z)   (* fourier.dft2 / idft2 *)
| OPureFn (code : Z) (args : list nat) (params : list Z)   (* adc, collect_charge, collect_charge_bayer, pixel, pixelate, jitter, smear(angle=a),
                                                      charge_diffusion, util.rescale, shot_noise/read_noise/
                                                      dark_current/power_spectrum with a seed, Spectrum.sample *)
| ORandFn (code : Z) (args : list nat)             (* smear(angle=None), cosmic_rays: draw from np.random *)
| OSpec (wave value : nat)                         (* Spectrum(wave, value) *)
| OSpecScalar (s : nat)                            (* spectrum op number (add, sub, mul, div, pow) *)
| OSpecBin (s1 s2 : nat)                           (* spectrum op spectrum *)
| OSpecTo (s : nat) (flux : bool)                  (* Spectrum.to(unit): edits the spectrum *)
| OSpecTrim (s : nat)                              (* Spectrum.trim(): edits the spectrum (views) *)
| OSpecResample (s wave : nat)                     (* Spectrum.resample(wave): edits the spectrum *)
| OPokeAttr (p : nat) (slot : nat)                 (* the caller assigns into obj.attr[...] (plane.opd[...] = x, plane.mask[...] = x, ...) *)
| OMulTilt (w : nat) (t : tilt).                   (* wavefront * lentil.Tilt(x, y) / DispersiveTilt: TiltInterface.multiply *)

(* ---- state plumbing ---- *)
Definition with_hp (s : state) (h : heap) := mkstate h (ob s) (env s) (cache s) (rng s).
Definition with_ob (s : state) (o : list obj) := mkstate (hp s) o (env s) (cache s) (rng s).
Definition with_env (s : state) (e : list value) := mkstate (hp s) (ob s) e (cache s) (rng s).
Definition with_cache (s : state) (c : list (key * cent)) := mkstate (hp s) (ob s) (env s) c (rng s).
Definition with_rng (s : state) (r : Z) := mkstate (hp s) (ob s) (env s) (cache s) r.

Definition hget (h : heap) (i : aid) : option cell := nth_error h i.
Definition valof (s : state) (i : aid) : arrv :=
  match hget (hp s) i with Some c => cval c | None => [] end.
Definition scalar (s : state) (i : aid) : bool := Nat.eqb (length (valof s i)) 1.

Fixpoint lset {A} (l : list A) (i : nat) (x : A) : list A :=
  match l, i with
  | [], _ => []
  | _ :: t, O => x :: t
  | y :: t, S k => y :: lset t k x
  end.

(* a fresh writable buffer *)
Definition alloc1 (s : state) (v : arrv) : state * aid :=
  (with_hp s (hp s ++ [mkcell v false]), length (hp s)).
Definition alloc_list (s : state) (vs : list arrv) : state * list aid :=
  (with_hp s (hp s ++ map (fun v => mkcell v false) vs), seq (length (hp s)) (length vs)).
(* assignment into an existing buffer: refused by numpy when the array is read-only *)
Definition wr (s : state) (a : aid) (v : arrv) : option state :=
  match hget (hp s) a with
  | Some c => if cfrozen c then None else Some (with_hp s (lset (hp s) a (mkcell v false)))
  | None => None
  end.

Definition getarr (s : state) (r : nat) : option aid :=
  match nth_error (env s) r with Some (VArr a) => Some a | _ => None end.
Definition getobj (s : state) (r : nat) : option (oid * obj) :=
  match nth_error (env s) r with
  | Some (VObj j) => match nth_error (ob s) j with Some o => Some (j, o) | None => None end
  | _ => None
  end.
Definition push_obj (s : state) (o : obj) : state * oid := (with_ob s (ob s ++ [o]), length (ob s)).
Definition set_obj (s : state) (j : oid) (o : obj) : state := with_ob s (lset (ob s) j o).

Definition oslots (o : obj) : list aid :=
  match o with
  | Plane a d m _ _ _ => [a; d; m]
  | Wave fs => map f_data fs
  | Spec w v => [w; v]
  end.
Definition vslots (v : value) : list aid := match v with VArr a => [a] | _ => [] end.
(* every buffer id the caller can get hold of: its variables and the attributes of its objects *)
Definition visible (s : state) : list aid := flat_map vslots (env s) ++ flat_map oslots (ob s).

Definition ret (s : state) (ws : list aid) (ows : list oid) (v : value) : state * outcome :=
  (with_env s (env s ++ [v]), mkout 0 ws ows v).
Definition fail (s : state) (code : Z) (ws : list aid) : state * outcome :=
  (with_env s (env s ++ [VNone]), mkout code ws [] VNone).

(* ---- the coordinate cache ---- *)
Definition coords1 (n : Z) : arrv := map (fun i => Z.of_nat i - n / 2) (seq 0 (Z.to_nat n)).
Definition coords (k : key) : arrv * arrv * arrv * arrv :=
  let '(m, n, M, N) := k in (coords1 m, coords1 n, coords1 M, coords1 N).
Definition key_eqb (a b : key) : bool :=
  let '(a1, a2, a3, a4) := a in let '(b1, b2, b3, b4) := b in
  (a1 =? b1) && (a2 =? b2) && (a3 =? b3) && (a4 =? b4).
Fixpoint clookup (k : key) (c : list (key * cent)) : option cent :=
  match c with [] => None | (k', e) :: r => if key_eqb k k' then Some e else clookup k r end.
Definition cremove (k : key) (c : list (key * cent)) : list (key * cent) :=
  filter (fun e => negb (key_eqb k (fst e))) c.
Definition cache_size : nat := 32.

(* _dft2_coords(m, n, M, N): a hit returns the cached arrays, a miss builds and stores them
   (least recently used entry dropped when full).  Returns the four arrays' current contents. *)
Definition cache_get (s : state) (k : key) : state * (arrv * arrv * arrv * arrv) :=
  match clookup k (cache s) with
  | Some (a, b, c, d) =>
      (with_cache s ((k, (a, b, c, d)) :: cremove k (cache s)),
       (valof s a, valof s b, valof s c, valof s d))
  | None =>
      let '(cR, cS, cU, cV) := coords k in
      let n0 := length (hp s) in
      let s1 := with_hp s (hp s ++ [mkcell cR false; mkcell cS false; mkcell cU false; mkcell cV false]) in
      (with_cache s1 (firstn cache_size ((k, (n0, S n0, S (S n0), S (S (S n0)))) :: cache s)),
       (cR, cS, cU, cV))
  end.
Fixpoint cache_get_list (s : state) (ks : list key) : state * list (arrv * arrv * arrv * arrv) :=
  match ks with
  | [] => (s, [])
  | k :: r => let '(s1, c) := cache_get s k in
              let '(s2, cs) := cache_get_list s1 r in (s2, c :: cs)
  end.

(* ---- tilt bookkeeping ---- *)
(* plane.tilt[n::size] *)
Fixpoint stride_aux {A} (l : list A) (i n size : nat) : list A :=
  match l with
  | [] => []
  | x :: r => if Nat.eqb (Nat.modulo i size) n then x :: stride_aux r (S i) n size else stride_aux r (S i) n size
  end.
Definition stride {A} (l : list A) (n size : nat) : list A := stride_aux l 0 n size.
(* Field.shift: x, y = 0, 0; for tilt in self.tilt: x, y = tilt.shift(xs=x, ys=y, z=z)  with
   Tilt.shift: x = xs - z*self.x; y = ys - z*self.y *)
Definition shift_step (z : Z) (acc : Z * Z) (t : tilt) : Z * Z := (fst acc - z * fst t, snd acc - z * snd t).
Definition shift_of (z : Z) (tl : list tilt) : Z * Z := fold_left (shift_step z) tl (0, 0).

(* the contents of the fields of a wavefront result *)
Definition result_values (s : state) (out : outcome) : option (list arrv) :=
  match o_res out with
  | VObj j => match nth_error (ob s) j with
              | Some (Wave fs) => Some (map (fun f => valof s (f_data f)) fs)
              | _ => None end
  | _ => None
  end.

Section Purity.
Variable K : kernels.

(* contents an argument register exposes to a function that only reads it *)
Definition argvals (s : state) (r : nat) : list arrv :=
  match nth_error (env s) r with
  | Some (VArr a) => [valof s a]
  | Some (VObj j) => match nth_error (ob s) j with Some o => map (valof s) (oslots o) | None => [] end
  | _ => []
  end.

(* copy.deepcopy of a plane's arrays: one fresh buffer per distinct buffer (the memo keeps sharing) *)
Definition dcopy (s : state) (a d m : aid) : state * (aid * aid * aid) :=
  let '(s1, a') := alloc1 s (valof s a) in
  let '(s2, d') := if Nat.eqb d a then (s1, a') else alloc1 s1 (valof s d) in
  let '(s3, m') := if Nat.eqb m a then (s2, a') else if Nat.eqb m d then (s2, d') else alloc1 s2 (valof s m) in
  (s3, (a', d', m')).

(* Plane.__init__: _amplitude = np.asarray(amplitude); _opd = np.asarray(opd);
   mask = np.copy(_amplitude) if mask is None else np.array(mask); mask[mask != 0] = 1 *)
Definition arr_or_scalar (s : state) (x : option nat) (v : arrv) : option (state * aid) :=
  match x with
  | Some r => option_map (fun a => (s, a)) (getarr s r)      (* np.asarray(ndarray): the same buffer *)
  | None => Some (alloc1 s v)                                 (* np.asarray(number): a fresh 0-d array *)
  end.
Definition do_plane (s : state) (kind : Z) (amp opd mask : option nat) (nseg : nat) : state * outcome :=
  match arr_or_scalar s amp [1] with
  | None => fail s 9 []
  | Some (s1, a) =>
    match arr_or_scalar s1 opd [0] with
    | None => fail s 9 []
    | Some (s2, d) =>
      match (match mask with Some r => getarr s2 r | None => Some a end) with
      | None => fail s 9 []
      | Some m0 =>
        let '(s3, m) := alloc1 s2 (kf K 2 [valof s2 m0] []) in
        let '(s4, j) := push_obj s3 (Plane a d m [] nseg kind) in
        ret s4 [] [] (VObj j)
      end
    end
  end.

(* Plane.fit_tilt *)
Definition do_fit_tilt (s : state) (p : nat) (inplace : bool) : state * outcome :=
  match getobj s p with
  | Some (j, Plane a d m tl nseg kind) =>
    if kind =? 2 then ret s [] [] (VObj j)                 (* Image.fit_tilt returns self *)
    else
      (* plane = self if inplace else self.copy() *)
      let '(s1, jt, a1, d1, m1) :=
        if inplace then (s, j, a, d, m)
        else let '(sc, (a', d', m')) := dcopy s a d m in
             let '(sp, j') := push_obj sc (Plane a' d' m' tl nseg kind) in (sp, j', a', d', m') in
      let ows := if inplace then [j] else [] in
      if scalar s1 m1 || scalar s1 d1 then ret s1 [] [] (VObj jt)     (* ptt_vector is None or opd.size == 1 *)
      else if Nat.leb nseg 1 then
        (* plane.opd = plane.opd - opd_tilt.reshape(...): a fresh array is bound to the attribute, the old buffer (the
           caller's constructor array, possibly read-only or of integer dtype) is only read; plane.tilt.append(Tilt(...)) *)
        let '(s2, d2) := alloc1 s1 (kf K 20 [valof s1 d1; valof s1 m1] []) in
        ret (set_obj s2 jt (Plane a1 d2 m1 (tl ++ [kt K (valof s1 d1) (valof s1 m1) 0]) nseg kind))
            [] ows (VObj jt)
      else
        (* plane.opd = np.sum(opd_no_tilt, axis=0); plane.tilt.extend([...]) *)
        let '(s2, d2) := alloc1 s1 (kf K 21 [valof s1 d1; valof s1 m1] []) in
        ret (set_obj s2 jt (Plane a1 d2 m1 (tl ++ map (kt K (valof s1 d1) (valof s1 m1)) (seq 0 nseg)) nseg kind))
            [] ows (VObj jt)
  | _ => fail s 9 []
  end.

(* Plane.rescale: plane = self.copy(); amplitude/opd replaced when ndim > 1; mask replaced *)
Definition do_rescale (s : state) (p : nat) : state * outcome :=
  match getobj s p with
  | Some (_, Plane a d m tl nseg kind) =>
    let '(s1, (a1, d1, m1)) := dcopy s a d m in
    let '(s2, a2) := alloc1 s1 (kf K 30 [valof s1 a1] []) in    (* rescaled array, or scalar/scale *)
    let '(s3, d2) := if scalar s2 d1 then (s2, d1) else alloc1 s2 (kf K 31 [valof s2 d1] []) in
    let '(s4, m2) := alloc1 s3 (kf K 32 [valof s3 m1] []) in
    let '(s5, j) := push_obj s4 (Plane a2 d2 m2 tl nseg kind) in
    ret s5 [] [] (VObj j)
  | _ => fail s 9 []
  end.

(* Plane.multiply: one fresh field per (input field, segment); tilt = field.tilt + plane.tilt[n::size] *)
Definition mul_fields (s : state) (a d m : aid) (tl : list tilt) (nseg : nat) (fs : list field)
  : list (arrv * list tilt) :=
  flat_map (fun f => map (fun n => (kf K 40 [valof s (f_data f); valof s a; valof s m; valof s d] [Z.of_nat n],
                                    f_tilt f ++ stride tl n (Nat.max nseg 1)))
                         (seq 0 (Nat.max nseg 1))) fs.
Definition do_mul (s : state) (p w : nat) : state * outcome :=
  match getobj s p, getobj s w with
  | Some (_, Plane a d m tl nseg _), Some (_, Wave fs) =>
    let prods := mul_fields s a d m tl nseg fs in
    let '(s1, ids) := alloc_list s (map fst prods) in
    let '(s2, j) := push_obj s1 (Wave (map (fun x => mkfield (fst x) (snd x)) (combine ids (map snd prods)))) in
    ret s2 [] [] (VObj j)
  | _, _ => fail s 9 []
  end.

(* propagate_dft: per field dft2(field.data, shift = f(field.shift(...))); the coordinate vectors come
   from the cache (phase 1, [cvs]); results are fresh fields without tilt *)
Definition cv_list (c : arrv * arrv * arrv * arrv) : list arrv :=
  let '(cR, cS, cU, cV) := c in [cR; cS; cU; cV].
Definition prop_vals (s : state) (z : Z) (fs : list field) (cvs : list (arrv * arrv * arrv * arrv)) : list arrv :=
  map (fun fc => let sh := shift_of z (f_tilt (fst fc)) in
                 kf K 50 (valof s (f_data (fst fc)) :: cv_list (snd fc)) [fst sh; snd sh])
      (combine fs cvs).
Definition do_prop_dft (s : state) (w : nat) (z : Z) (cvs : list (arrv * arrv * arrv * arrv)) : state * outcome :=
  match getobj s w with
  | Some (_, Wave fs) =>
    let '(s1, ids) := alloc_list s (prop_vals s z fs cvs) in
    let '(s2, j) := push_obj s1 (Wave (map (fun i => mkfield i []) ids)) in
    ret s2 [] [] (VObj j)
  | _ => fail s 9 []
  end.

(* propagate_fft: refuses fitted tilt; scratch[...] = 0 and scratch[...] = insert(...) when given *)
Definition has_tilt (fs : list field) : bool := existsb (fun f => negb (Nat.eqb (length (f_tilt f)) 0)) fs.
Definition do_prop_fft (s : state) (w : nat) (scratch : option nat) : state * outcome :=
  match getobj s w with
  | Some (_, Wave fs) =>
    if has_tilt fs then fail s 4 [] else
    let fvals := map (fun f => valof s (f_data f)) fs in
    match scratch with
    | Some r =>
      match getarr s r with
      | Some a =>
        match wr s a (kf K 60 (valof s a :: fvals) []) with
        | None => fail s 1 [a]
        | Some s1 =>
          let '(s2, i) := alloc1 s1 (kf K 61 [valof s1 a] []) in
          let '(s3, j) := push_obj s2 (Wave [mkfield i []]) in
          ret s3 [a] [] (VObj j)
        end
      | None => fail s 9 []
      end
    | None =>
      let '(s2, i) := alloc1 s (kf K 62 fvals []) in
      let '(s3, j) := push_obj s2 (Wave [mkfield i []]) in
      ret s3 [] [] (VObj j)
    end
  | _ => fail s 9 []
  end.

(* Wavefront.insert(out): out[slice] += ... for every (reduced) field, returns out itself *)
Definition do_insert (s : state) (w out : nat) : state * outcome :=
  match getobj s w, getarr s out with
  | Some (_, Wave fs), Some a =>
    match fs with
    | [] => ret s [] [] (VArr a)
    | _ =>
      match wr s a (kf K 70 (valof s a :: map (fun f => valof s (f_data f)) fs) []) with
      | None => fail s 1 [a]
      | Some s1 => ret s1 [a] [] (VArr a)
      end
    end
  | _, _ => fail s 9 []
  end.

Definition do_wfield (s : state) (w : nat) (intensity : bool) : state * outcome :=
  match getobj s w with
  | Some (_, Wave fs) =>
    let '(s1, i) := alloc1 s (kf K 71 (map (fun f => valof s (f_data f)) fs) [if intensity then 1 else 0]) in
    ret s1 [] [] (VArr i)
  | _ => fail s 9 []
  end.

(* dft2(f, alpha, shape, shift, offset, unitary, out): F = np.dot(E1.dot(f), E2, out=out);
   np.multiply(F, c, out=F).  idft2: dft2(np.conj(F), ..., out=out); np.conj(F, out=F); np.divide(F, N, out=F) *)
Definition do_dft2 (s : state) (f : nat) (out : option nat) (inverse : bool) (params : list Z)
                   (cv : arrv * arrv * arrv * arrv) : state * outcome :=
  match getarr s f with
  | Some a =>
    let v := kf K 50 ((if inverse then kf K 51 [valof s a] [] else valof s a) :: cv_list cv)
                (params ++ [if inverse then 1 else 0]) in
    match out with
    | Some r =>
      match getarr s r with
      | Some o =>
        match wr s o v with
        | None => fail s 1 [o]
        | Some s1 => ret s1 [o] [] (VArr o)
        end
      | None => fail s 9 []
      end
    | None => let '(s1, i) := alloc1 s v in ret s1 [] [] (VArr i)
    end
  | None => fail s 9 []
  end.

Definition do_spec_edit (s : state) (r : nat) (f : state -> aid -> aid -> state * obj) : state * outcome :=
  match getobj s r with
  | Some (j, Spec w v) => let '(s1, o) := f s w v in ret (set_obj s1 j o) [] [j] VNone
  | _ => fail s 9 []
  end.

(* phase 2 of a call: everything except the cache look-ups *)
Definition main (s : state) (o : op) (cvs : list (arrv * arrv * arrv * arrv)) : state * outcome :=
  match o with
  | ONewArr len frozen =>
      (with_env (with_hp s (hp s ++ [mkcell (repeat 0 len) frozen])) (env s ++ [VArr (length (hp s))]),
       mkout 0 [] [] (VArr (length (hp s))))
  | OPoke r =>
      match getarr s r with
      | Some a => match wr s a (kf K 1 [valof s a] []) with
                  | Some s1 => ret s1 [a] [] VNone
                  | None => fail s 1 [a] end
      | None => fail s 9 []
      end
  | OPlane kind amp opd mask nseg => do_plane s kind amp opd mask nseg
  | OSetOpd p r =>
      match getobj s p, getarr s r with
      | Some (j, Plane a d m tl nseg kind), Some x => ret (set_obj s j (Plane a x m tl nseg kind)) [] [j] VNone
      | _, _ => fail s 9 []
      end
  | OSetAmp p r =>
      match getobj s p, getarr s r with
      | Some (j, Plane a d m tl nseg kind), Some x => ret (set_obj s j (Plane x d m tl nseg kind)) [] [j] VNone
      | _, _ => fail s 9 []
      end
  | OFitTilt p inplace => do_fit_tilt s p inplace
  | OCopy p =>
      match getobj s p with
      | Some (_, Plane a d m tl nseg kind) =>
        let '(s1, (a1, d1, m1)) := dcopy s a d m in
        let '(s2, j) := push_obj s1 (Plane a1 d1 m1 tl nseg kind) in ret s2 [] [] (VObj j)
      | _ => fail s 9 []
      end
  | ORescale p => do_rescale s p
  | OWave t =>
      let '(s1, i) := alloc1 s [1] in
      let '(s2, j) := push_obj s1 (Wave [mkfield i (match t with Some x => [x] | None => [] end)]) in ret s2 [] [] (VObj j)
  | OMul p w => do_mul s p w
  | OPropDft w z _ => do_prop_dft s w z cvs
  | OPropFft w scratch => do_prop_fft s w scratch
  | OInsert w out => do_insert s w out
  | OWField w intensity => do_wfield s w intensity
  | ODft2 f _ out inverse params => do_dft2 s f out inverse params (hd ([], [], [], []) cvs)
  | OPureFn code args params =>
      let '(s1, i) := alloc1 s (kf K code (flat_map (argvals s) args) params) in ret s1 [] [] (VArr i)
  | ORandFn code args =>
      let '(s1, i) := alloc1 s (kf K code (flat_map (argvals s) args) [rng s]) in
      ret (with_rng s1 (krng K (rng s))) [] [] (VArr i)
  | OSpec w v =>
      match getarr s w, getarr s v with
      | Some a, Some b => let '(s1, j) := push_obj s (Spec a b) in ret s1 [] [] (VObj j)
      | _, _ => fail s 9 []
      end
  | OSpecScalar r =>
      (* _ufunc with a number: wave = self.wave (the same array), value = ufunc(self.value, other) *)
      match getobj s r with
      | Some (_, Spec w v) =>
        let '(s1, i) := alloc1 s (kf K 300 [valof s v] []) in
        let '(s2, j) := push_obj s1 (Spec w i) in ret s2 [] [] (VObj j)
      | _ => fail s 9 []
      end
  | OSpecBin r1 r2 =>
      match getobj s r1, getobj s r2 with
      | Some (_, Spec w1 v1), Some (_, Spec w2 v2) =>
        let '(s1, i) := alloc1 s (kf K 301 [valof s w1; valof s w2] []) in
        let '(s2, k) := alloc1 s1 (kf K 302 [valof s w1; valof s v1; valof s w2; valof s v2] []) in
        let '(s3, j) := push_obj s2 (Spec i k) in ret s3 [] [] (VObj j)
      | _, _ => fail s 9 []
      end
  | OSpecTo r flux =>
      (* self.wave = self.wave * c; (flux units) self.value = self.value / c *)
      do_spec_edit s r (fun s w v =>
        let '(s1, i) := alloc1 s (kf K 304 [valof s w] []) in
        if flux then let '(s2, k) := alloc1 s1 (kf K 305 [valof s v] []) in (s2, Spec i k)
        else (s1, Spec i v))
  | OSpecTrim r =>
      (* self.wave = self.wave[a:b]; self.value = self.value[a:b] : views of the same buffers *)
      do_spec_edit s r (fun s w v => (s, Spec w v))
  | OSpecResample r rw =>
      (* self.value = self.sample(wave); self.wave = wave (np.asarray of the caller's array) *)
      match getarr s rw with
      | Some x => do_spec_edit s r (fun s w v =>
                    let '(s1, i) := alloc1 s (kf K 306 [valof s w; valof s v; valof s x] []) in (s1, Spec x i))
      | None => fail s 9 []
      end
  | OPokeAttr p k =>
      match getobj s p with
      | Some (_, o) =>
        match nth_error (oslots o) k with
        | Some a => match wr s a (kf K 1 [valof s a] []) with
                    | Some s1 => ret s1 [a] [] VNone
                    | None => fail s 1 [a] end
        | None => fail s 9 []
        end
      | None => fail s 9 []
      end
  | OMulTilt w t =>
      (* Plane.multiply with the scalar phasor of the tilt plane: field * phasor is a fresh array and
         tilt = field.tilt + [] a fresh list; then field.tilt.append(self) on the product *)
      match getobj s w with
      | Some (_, Wave fs) =>
        let '(s1, ids) := alloc_list s (map (fun f => kf K 41 [valof s (f_data f)] []) fs) in
        let '(s2, j) := push_obj s1 (Wave (map (fun x => mkfield (fst x) (f_tilt (snd x) ++ [t])) (combine ids fs))) in
        ret s2 [] [] (VObj j)
      | _ => fail s 9 []
      end
  end.

(* phase 1: the _dft2_coords calls of the operation *)
Definition cache_phase (s : state) (o : op) : state * list (arrv * arrv * arrv * arrv) :=
  match o with
  | ODft2 _ k _ _ _ => cache_get_list s [k]
  | OPropDft w _ keys =>
      match getobj s w with
      | Some (_, Wave fs) => cache_get_list s (firstn (length fs) keys)
      | _ => (s, [])
      end
  | _ => (s, [])
  end.

Definition step (s : state) (o : op) : state * outcome :=
  let '(s1, cvs) := cache_phase s o in main s1 o cvs.

Fixpoint run_ops (s : state) (ops : list op) : list (state * outcome) :=
  match ops with
  | [] => []
  | o :: r => let so := step s o in so :: run_ops (fst so) r
  end.

(* ---- vocabulary of the theorems (definitions only) ---- *)
(* states reachable by any history of public calls *)
Inductive reachable : state -> Prop :=
| reach_init : reachable (mkstate [] [] [] [] 0)
| reach_step s o : reachable s -> reachable (fst (step s o)).

(* what dft2/idft2 must return: a function of the argument's contents, the shapes and the scalar parameters *)
Definition dft_spec (fv : arrv) (k : key) (inverse : bool) (params : list Z) : arrv :=
  kf K 50 ((if inverse then kf K 51 [fv] [] else fv) :: cv_list (coords k)) (params ++ [if inverse then 1 else 0]).

(* a history with, for every call, the state before and the state/outcome after *)
Fixpoint trace (s : state) (ops : list op) : list (state * op * (state * outcome)) :=
  match ops with
  | [] => []
  | o :: r => (s, o, step s o) :: trace (fst (step s o)) r
  end.
Definition dft_ok (x : state * op * (state * outcome)) : Prop :=
  let '(pre, o, (post, out)) := x in
  match o with
  | ODft2 f k dst inverse params =>
      forall a, getarr pre f = Some a -> o_status out = 0 ->
      exists i, o_res out = VArr i /\ valof post i = dft_spec (valof pre a) k inverse params
  | _ => True
  end.

(* multiply a wavefront by a plane, then propagate the product: the field contents that come out *)
Definition propagated (z : Z) (keys : list key) (s : state) (p w : nat) : option (list arrv) :=
  let sa := fst (step s (OMul p w)) in
  let r := step sa (OPropDft (length (env s)) z keys) in
  result_values (fst r) (snd r).

End Purity.

Definition init : state := mkstate [] [] [] [] 0.

(* ---- specification side: what the documentation allows an operation to modify ---- *)
Definition documented (s : state) (o : op) : list aid :=
  match o with
  | OPoke r => match getarr s r with Some a => [a] | None => [] end               (* the caller's own assignment *)
  | OPropFft _ (Some r) => match getarr s r with Some a => [a] | None => [] end  (* scratch *)
  | OInsert _ r => match getarr s r with Some a => [a] | None => [] end          (* accumulate into array *)
  | ODft2 _ _ (Some r) _ _ => match getarr s r with Some a => [a] | None => [] end   (* explicit output buffer *)
  | OPokeAttr p k => match getobj s p with                                          (* the caller's own assignment *)
                     | Some (_, o) => match nth_error (oslots o) k with Some a => [a] | None => [] end
                     | None => [] end
  | _ => []
  end.
Definition odocumented (s : state) (o : op) : list oid :=
  let ob1 r := match getobj s r with Some (j, _) => [j] | None => [] end in
  match o with
  | OSetOpd p _ | OSetAmp p _ => ob1 p           (* attribute assignment by the caller *)
  | OFitTilt p true => ob1 p                     (* in-place tilt fit: the plane's opd attribute and tilt list; no buffer is written *)
  | OSpecTo r _ | OSpecTrim r | OSpecResample r _ => ob1 r    (* the spectrum editing methods *)
  | _ => []
  end.
(* an array the call may not assign into: read-only (or not there at all) *)
Definition frozen_at (s : state) (a : aid) : bool :=
  match hget (hp s) a with Some c => cfrozen c | None => true end.
(* calls whose result IS one of their arguments: fit_tilt(inplace=True) returns the plane, Image.fit_tilt always returns self *)
Definition returns_self (s : state) (o : op) : option oid :=
  match o with
  | OFitTilt p inplace =>
      match getobj s p with
      | Some (j, Plane _ _ _ _ _ kind) => if kind =? 2 then Some j else if inplace then Some j else None
      | _ => None
      end
  | _ => None
  end.
(* the buffers a result is made of *)
Definition res_slots (s : state) (v : value) : list aid :=
  match v with
  | VArr a => [a]
  | VObj j => match nth_error (ob s) j with Some o => oslots o | None => [] end
  | VNone => []
  end.
(* the caller buffers a result may be made of (everything else in a result is a new buffer): a plane keeps the arrays it
   is constructed from, fit_tilt may return (a plane on) the input's arrays, insert / dft2(out=) return the buffer they
   were given, a spectrum keeps its constructor arrays and spectrum-by-number arithmetic keeps the operand's wave array *)
Definition may_alias (s : state) (o : op) : list aid :=
  let arr r := match getarr s r with Some a => [a] | None => [] end in
  match o with
  | OPlane _ amp opd _ _ => (match amp with Some r => arr r | None => [] end) ++ (match opd with Some r => arr r | None => [] end)
  | OFitTilt p _ => match getobj s p with Some (_, ob) => oslots ob | None => [] end
  | OInsert _ r => arr r
  | ODft2 _ _ (Some r) _ _ => arr r
  | OSpec w v => arr w ++ arr v
  | OSpecScalar r => match getobj s r with Some (_, Spec w _) => [w] | _ => [] end
  | _ => []
  end.

(* calls documented to hand back a plane of their own: copy, rescale/resample, fit_tilt(inplace=False) of a non-Image plane *)
Definition makes_new_plane (s : state) (o : op) : bool :=
  match o with
  | OCopy _ | ORescale _ => true
  | OFitTilt p false => match getobj s p with Some (_, Plane _ _ _ _ _ kind) => negb (kind =? 2) | _ => false end
  | _ => false
  end.

(* operations that are specified to draw from the global generator (they take no seed) *)
Definition uses_global_rng (o : op) : bool := match o with ORandFn _ _ => true | _ => false end.

(* caller-visible ids are allocated *)
Definition wf (s : state) : Prop := forall i, In i (visible s) -> (i < length (hp s))%nat.
(* a cache entry holds exactly the coordinate vectors of its key, in buffers the caller cannot reach *)
Definition cell_is (s : state) (a : aid) (v : arrv) : Prop :=
  hget (hp s) a = Some (mkcell v false) /\ ~ In a (visible s).
Definition centry_ok (s : state) (e : key * cent) : Prop :=
  let '(k, (a, b, c, d)) := e in let '(cR, cS, cU, cV) := coords k in
  cell_is s a cR /\ cell_is s b cS /\ cell_is s c cU /\ cell_is s d cV.
Definition cache_ok (s : state) : Prop := forall e, In e (cache s) -> centry_ok s e.
Definition inv (s : state) : Prop := wf s /\ cache_ok s.
(* what a plane / a wavefront is, as far as multiply and propagate can tell: array contents, and the tilt
   list only through its per-segment sum / the accumulated shift *)
Definition tsum (tl : list tilt) : Z * Z := fold_left (fun acc t => (fst acc + fst t, snd acc + snd t)) tl (0, 0).
Definition plane_obs (s : state) (o : obj) : option (arrv * arrv * arrv * nat * list (Z * Z)) :=
  match o with
  | Plane a d m tl nseg _ =>
      Some (valof s a, valof s d, valof s m, Nat.max nseg 1,
            map (fun n => tsum (stride tl n (Nat.max nseg 1))) (seq 0 (Nat.max nseg 1)))
  | _ => None
  end.
Definition field_obs (z : Z) (s : state) (f : field) : arrv * (Z * Z) := (valof s (f_data f), shift_of z (f_tilt f)).
Definition wave_obs (z : Z) (s : state) (o : obj) : option (list (arrv * (Z * Z))) :=
  match o with Wave fs => Some (map (field_obs z s) fs) | _ => None end.
(* operations with a _dft2_coords phase; a state with the hidden components forgotten *)
Definition uses_cache (o : op) : bool := match o with ODft2 _ _ _ _ _ | OPropDft _ _ _ => true | _ => false end.
Definition forget (s : state) (r : Z) : state := mkstate (hp s) (ob s) (env s) [] r.
