(* Glue between the plane model (Model/Plane.v) and the FFT propagator (Model/Fft.v, property C09): the wavefront a
   chain of pupil planes leaves behind, handed to lentil.propagate_fft.  Definitions only. *)
From LV Require Export Model.Plane.
From LV Require Model.Fft.

Section SegmentFft.
Variable S : Scalar.

(* the attributes propagate_fft reads: a 2-d shape, a pixel scale and a finite focal length *)
Definition to_fft (w : pwf S) : result (Fft.wavefront S) :=
  match pw_shape w, pw_pix w, pw_focal w with
  | Some sh, Some px, FVal z => Ok (Fft.mkWf (pw_data w) sh (pw_lam w) px z Fft.PPupil)
  | _, _, _ => Err ValueError
  end.

(* lentil.propagate_fft(Wavefront(...) * P1 * ... * Pk, pixelscale, shape, oversample, scratch) on the FFT grid N0 x N1
   (the grid lentil derives from pixel scales, focal length and wavelength: Fft.fft_grid) *)
Definition chain_propagate_fft (sq : Qc -> S) (ps : list (plane S)) (w : pwf S) (N0 N1 : Z) (du : Qc * Qc)
           (shape : option (Z * Z)) (os : Z) (scratch : option (arr S)) : result (Fft.wavefront S * option (arr S)) :=
  rbind (chain_multiply ps w) (fun w1 =>
  rbind (to_fft w1) (fun w2 => Fft.propagate_fft_N sq N0 N1 w2 du shape os scratch)).
End SegmentFft.
Arguments to_fft {S}. Arguments chain_propagate_fft {S}.
