(* The Spectrum branch of lentil.detector.qe_asarray and the public entry points seen with every documented
   kind of quantum efficiency:  scalar | vector | lentil.radiometry.Spectrum.
     qe_asarray(qe, wave, waveunit):  isinstance(qe, Spectrum) -> qe.sample(wave, waveunit=waveunit)
   (method 'linear', fill_value 0: the defaults).  Spectrum.sample itself is the model of C13
   (Model/Spectrum.v: conversion of a copy to the requested unit, interp1d inside the table, the fill
   value outside); here it is composed with the charge collection of Model/Detector.v on the rationals.
   Definitions only; lemmas in Proofs/DetectorQEP.v. *)
From LV Require Import Model.Detector.
From LV Require Model.Spectrum.

Inductive qeany := QEplain (q : qerep QcS) | QEspec (s : Spectrum.spectrum).

(* the default fill value of Spectrum.sample *)
Definition fill0 : Spectrum.fillv := Spectrum.FScalar (Q2Qc 0).

(* [wave] = the wavelengths of the cube slices as numbers in unit [u] (the `waveunit` argument) *)
Definition qe_asarray_any (qe : qeany) (wave : list Qc) (u : Spectrum.wunit) : result (vec QcS) :=
  match qe with
  | QEplain q => qe_asarray q (Z.of_nat (length wave))
  | QEspec s => Ok (vec_of_list QcS (Spectrum.sample s wave fill0 u))
  end.

Definition collect_charge_any (img : imgrep QcS) (wave : list Qc) (u : Spectrum.wunit) (qe : qeany) : result (arr QcS) :=
  rbind (qe_asarray_any qe wave u) (fun q => einsum_ki (as_cube img) q).

(* the three efficiencies are normalised first (red, green, blue: the first failure is the one raised),
   then the pattern string is read and the mosaics are built *)
Definition collect_charge_bayer_channels_any (img : imgrep QcS) (wave : list Qc) (u : Spectrum.wunit)
    (qr qg qb : qeany) (pat : list Z) (os : Z) : result (arr QcS * arr QcS * arr QcS) :=
  rbind (qe_asarray_any qr wave u) (fun vr => rbind (qe_asarray_any qg wave u) (fun vg =>
  rbind (qe_asarray_any qb wave u) (fun vb =>
    collect_charge_bayer_channels img (Z.of_nat (length wave)) (QVec vr) (QVec vg) (QVec vb) pat os))).
Definition collect_charge_bayer_any (img : imgrep QcS) (wave : list Qc) (u : Spectrum.wunit)
    (qr qg qb : qeany) (pat : list Z) (os : Z) : result (arr QcS) :=
  rbind (collect_charge_bayer_channels_any img wave u qr qg qb pat os) (fun t => Ok (flatten3 t)).

(* ---- vocabulary of the statements ---- *)
(* the efficiency a spectrum denotes at wavelength x (a number in unit u): the value of the piecewise-linear
   interpolant of the table expressed in unit u, and 0 outside the table *)
Definition qe_at (s : Spectrum.spectrum) (u : Spectrum.wunit) (x y : Qc) : Prop :=
  let s' := Spectrum.conv s u in Spectrum.denotes (Spectrum.wave s') (Spectrum.value s') fill0 x y.
