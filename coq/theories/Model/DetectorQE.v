(* The Spectrum branch of lentil.detector.qe_asarray and the public entry points seen with every documented
   kind of quantum efficiency:  scalar | vector | lentil.radiometry.Spectrum.
     qe_asarray(qe, wave, waveunit):  isinstance(qe, Spectrum) -> qe.sample(wave, waveunit=waveunit)
   (method 'linear', fill_value 0: the defaults).  Spectrum.sample itself is the model of C13
   (Model/Spectrum.v: conversion of a copy to the requested unit, interp1d inside the table, the fill
   value outside); here it is composed with the charge collection of Model/Detector.v on the rationals.
   Definitions only; lemmas in Proofs/DetectorQEP.v. *)
From LV Require Import Model.Detector.
From LV Require Model.Spectrum.

Inductive qeany := QEplain (q : qerep QcS) | QEspec (s : Spectrum.spectrum).

(* the default fill value of Spectrum.sample *)
Definition fill0 : Spectrum.fillv := Spectrum.FScalar (Q2Qc 0).

(* [wave] = the wavelengths of the cube slices as numbers in unit [u] (the `waveunit` argument) *)
Definition qe_asarray_any (qe : qeany) (wave : list Qc) (u : Spectrum.wunit) : result (vec QcS) :=
  match qe with
  | QEplain q => qe_asarray q (Z.of_nat (length wave))
  | QEspec s => Ok (vec_of_list QcS (Spectrum.sample s wave fill0 u))
  end.

Definition collect_charge_any (img : imgrep QcS) (wave : list Qc) (u : Spectrum.wunit) (qe : qeany) : result (arr QcS) :=
  rbind (qe_asarray_any qe wave u) (fun q => einsum_ki (as_cube img) q).

(* the three efficiencies are normalised first (red, green, blue: the first failure is the one raised),
   then the pattern string is read and the mosaics are built *)
Definition collect_charge_bayer_channels_any (img : imgrep QcS) (wave : list Qc) (u : Spectrum.wunit)
    (qr qg qb : qeany) (pat : list Z) (os : Z) : result (arr QcS * arr QcS * arr QcS) :=
  rbind (qe_asarray_any qr wave u) (fun vr => rbind (qe_asarray_any qg wave u) (fun vg =>
  rbind (qe_asarray_any qb wave u) (fun vb =>
    collect_charge_bayer_channels img (Z.of_nat (length wave)) (QVec vr) (QVec vg) (QVec vb) pat os))).
Definition collect_charge_bayer_any (img : imgrep QcS) (wave : list Qc) (u : Spectrum.wunit)
    (qr qg qb : qeany) (pat : list Z) (os : Z) : result (arr QcS) :=
  rbind (collect_charge_bayer_channels_any img wave u qr qg qb pat os) (fun t => Ok (flatten3 t)).

(* ---- vocabulary of the statements ---- *)
(* the efficiency a spectrum denotes at wavelength x (a number in unit u): the value of the piecewise-linear
   interpolant of the table expressed in unit u, and 0 outside the table *)
Definition qe_at (s : Spectrum.spectrum) (u : Spectrum.wunit) (x y : Qc) : Prop :=
  let s' := Spectrum.conv s u in Spectrum.denotes (Spectrum.wave s') (Spectrum.value s') fill0 x y.

(* ---- the Bayer entry point as it is called, oversample <= 0 and the empty pattern included ----
   Python raises ZeroDivisionError there, which the shared [errkind] does not have: the outcome type adds it.
   After the three efficiencies and the pattern string have been accepted,
     nrow = img.shape[1] // oversample           divides by zero for oversample = 0,
     np.tile(kernel, (nrow // kernel.shape[0], ..))   divides by zero for the empty pattern ('' is accepted by
                                                      format_bayer_string: a 0 x 0 array),
   a negative oversample gives negative repetition counts, which np.tile refuses with ValueError. *)
Inductive outcome (A : Type) := Returned (a : A) | Raised (e : errkind) | RaisedZeroDivision.
Arguments Returned {A} a. Arguments Raised {A} e. Arguments RaisedZeroDivision {A}.
Definition lift {A} (r : result A) : outcome A := match r with Ok a => Returned a | Err e => Raised e end.
Definition omap {A B} (f : A -> B) (o : outcome A) : outcome B :=
  match o with Returned a => Returned (f a) | Raised e => Raised e | RaisedZeroDivision => RaisedZeroDivision end.

Definition collect_charge_bayer_channels_entry (img : imgrep QcS) (wave : list Qc) (u : Spectrum.wunit)
    (qr qg qb : qeany) (pat : list Z) (os : Z) : outcome (arr QcS * arr QcS * arr QcS) :=
  match qe_asarray_any qr wave u, qe_asarray_any qg wave u, qe_asarray_any qb wave u, format_bayer pat with
  | Ok _, Ok _, Ok _, Ok p =>
      if (os =? 0) || (pk p =? 0) then RaisedZeroDivision
      else lift (collect_charge_bayer_channels_any img wave u qr qg qb pat os)
  | _, _, _, _ => lift (collect_charge_bayer_channels_any img wave u qr qg qb pat os)
  end.
Definition collect_charge_bayer_entry (img : imgrep QcS) (wave : list Qc) (u : Spectrum.wunit)
    (qr qg qb : qeany) (pat : list Z) (os : Z) : outcome (arr QcS) :=
  omap flatten3 (collect_charge_bayer_channels_entry img wave u qr qg qb pat os).
