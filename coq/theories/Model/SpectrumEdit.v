(* Model of the integration, binning and resizing methods of lentil.radiometry.Spectrum
   (current tree): the [wave] setter, Spectrum(...), sample (linear, fill_value = 0), integrate
   (trapz and scipy's simpson), bin (both rules, both end treatments, preserve_power), ends, trim,
   crop, pad, append, resample, and the state machine [exec] over sequences of resizing calls.
   Floats are exact rationals [Qc]; a Python exception is [Err kind]; the mutating methods return
   the state they LEAVE BEHIND together with the exception they raised, if any (a refused call does
   not always leave the object untouched: see [crop]).
   Wavelength unit is 'nm' throughout (units are C14's business). Definitions only; the lemmas are in
   Proofs/SpectrumEditP.v. *)
From LV Require Export Lib.Scalar.
From Coq Require Export Qround.

(* ---- rationals: boolean comparisons and a few constants ---- *)
Definition qlt (a b : Qc) : bool := match (a ?= b)%Qc with Lt => true | _ => false end.
Definition qle (a b : Qc) : bool := match (a ?= b)%Qc with Gt => false | _ => true end.
Definition qeqb (a b : Qc) : bool := match (a ?= b)%Qc with Eq => true | _ => false end.
Definition qmin (a b : Qc) : Qc := if qle a b then a else b.
Definition qmax (a b : Qc) : Qc := if qle a b then b else a.
Definition ofZ (z : Z) : Qc := Q2Qc (inject_Z z).
Definition two : Qc := ofZ 2.
Definition three : Qc := ofZ 3.
Definition four : Qc := ofZ 4.
Definition six : Qc := ofZ 6.
Definition qsum (l : list Qc) : Qc := fold_right Qcplus 0%Qc l.

Local Open Scope Qc_scope.

Record spectrum := mkSp { wave : list Qc; value : list Qc }.

(* ---- the wave setter: three checks, each a ValueError ---- *)
Definition any_nonpos (w : list Qc) : bool := existsb (fun x => qle x 0) w.     (* np.any(w <= 0) *)
Fixpoint is_sorted (w : list Qc) : bool :=            (* np.all(np.sort(w) == w): non-decreasing *)
  match w with a :: ((b :: _) as t) => qle a b && is_sorted t | _ => true end.
Fixpoint has_dup (w : list Qc) : bool :=              (* np.any(w[1:] - w[:-1] == 0) *)
  match w with a :: ((b :: _) as t) => qeqb (b - a) 0 || has_dup t | _ => false end.
Definition wave_check (w : list Qc) : result (list Qc) :=
  if any_nonpos w then Err ValueError
  else if negb (is_sorted w) then Err ValueError
  else if has_dup w then Err ValueError
  else Ok w.

(* Spectrum(wave, value): setter, then the shape comparison *)
Definition make (w v : list Qc) : result spectrum :=
  rbind (wave_check w) (fun w' =>
    if (length w' =? length v)%nat then Ok (mkSp w' v) else Err ValueError).

(* ---- sample: scipy interp1d(kind='linear', bounds_error=False, fill_value=0) = np.interp(left=right=0):
        below the first or above the last sample 0, at a sample its value, between two samples the chord ---- *)
Fixpoint interp_from (w v : list Qc) (x : Qc) : Qc :=     (* precondition: head of w <= x *)
  match w, v with
  | x0 :: ((x1 :: _) as wt), y0 :: ((y1 :: _) as vt) =>
      if qlt x x1 then y0 + ((y1 - y0) / (x1 - x0)) * (x - x0) else interp_from wt vt x
  | x0 :: _, y0 :: _ => if qeqb x x0 then y0 else 0
  | _, _ => 0
  end.
Definition interp (w v : list Qc) (x : Qc) : Qc :=
  match w with [] => 0 | x0 :: _ => if qlt x x0 then 0 else interp_from w v x end.
(* interp1d refuses an empty table and tables of different lengths *)
Definition sample (s : spectrum) (xs : list Qc) : result (list Qc) :=
  if (length (wave s) =? 0)%nat then Err ValueError
  else if negb (length (wave s) =? length (value s))%nat then Err ValueError
  else Ok (map (interp (wave s) (value s)) xs).

(* ---- quadrature on a table of (wavelength, value) pairs ---- *)
(* np.trapz(y, x) = sum(diff(x) * (y[1:] + y[:-1]) / 2) *)
Fixpoint trapz (p : list (Qc * Qc)) : Qc :=
  match p with
  | (x0, y0) :: (((x1, y1) :: _) as t) => (x1 - x0) * (y1 + y0) / two + trapz t
  | _ => 0
  end.
(* scipy.integrate.simpson(x=, y=) (scipy 1.17, _quadrature.py): one parabolic panel over three
   samples with spacings h0, h1 ... *)
Definition simpson_panel (x0 y0 x1 y1 x2 y2 : Qc) : Qc :=
  let h0 := x1 - x0 in let h1 := x2 - x1 in
  let hsum := h0 + h1 in let hprod := h0 * h1 in let r := h0 / h1 in
  hsum / six * (y0 * (two - 1 / r) + y1 * (hsum * (hsum / hprod)) + y2 * (two - r)).
(* ... _basic_simpson: panels starting at every second sample; a trailing single interval is left over *)
Fixpoint simpson_basic (p : list (Qc * Qc)) : Qc :=
  match p with
  | (x0, y0) :: (x1, y1) :: (((x2, y2) :: _) as t) => simpson_panel x0 y0 x1 y1 x2 y2 + simpson_basic t
  | _ => 0
  end.
(* ... and, for an even number of samples, Cartwright's correction for the last interval, computed from
   the last three samples *)
Definition simpson_last (x0 y0 x1 y1 x2 y2 : Qc) : Qc :=
  let h0 := x1 - x0 in let h1 := x2 - x1 in
  let alpha := (two * (h1 * h1) + three * h0 * h1) / (six * (h1 + h0)) in
  let beta := (h1 * h1 + three * h0 * h1) / (six * h0) in
  let eta := (h1 * h1 * h1) / (six * h0 * (h0 + h1)) in
  alpha * y2 + beta * y1 - eta * y0.
Definition last3 (p : list (Qc * Qc)) : option (Qc * Qc * (Qc * Qc) * (Qc * Qc)) :=
  match rev p with c :: b :: a :: _ => Some (a, b, c) | _ => None end.
Definition simpson (p : list (Qc * Qc)) : result Qc :=
  match p with
  | [] => Err ValueError                                   (* squeeze of an empty difference *)
  | [(x0, y0); (x1, y1)] => Ok ((1 / two) * (x1 - x0) * (y1 + y0))
  | _ =>
    if Nat.even (length p) then
      match last3 p with
      | Some ((xa, ya), (xb, yb), (xc, yc)) =>
          Ok (simpson_basic (removelast p) + simpson_last xa ya xb yb xc yc)
      | None => Err ValueError end
    else Ok (simpson_basic p)
  end.

Inductive rule := Trapz | Simps.

(* ---- integrate(start, end, method): the samples inside the CLOSED range, then the rule on those
        samples only (nothing is interpolated at the bounds) ---- *)
Definition in_range (lo hi x : Qc) : bool := qle lo x && qle x hi.
Definition select (lo hi : Qc) (p : list (Qc * Qc)) : list (Qc * Qc) :=
  filter (fun q => in_range lo hi (fst q)) p.
Fixpoint qminl (l : list Qc) : result Qc :=       (* np.min: ValueError on an empty array *)
  match l with [] => Err ValueError | [a] => Ok a
  | a :: t => rbind (qminl t) (fun m => Ok (qmin a m)) end.
Fixpoint qmaxl (l : list Qc) : result Qc :=
  match l with [] => Err ValueError | [a] => Ok a
  | a :: t => rbind (qmaxl t) (fun m => Ok (qmax a m)) end.
Definition samples (s : spectrum) : list (Qc * Qc) := combine (wave s) (value s).
Definition quad (r : rule) (p : list (Qc * Qc)) : result Qc :=
  match r with Trapz => Ok (trapz p) | Simps => simpson p end.
Definition integrate (s : spectrum) (start stop : option Qc) (r : rule) : result Qc :=
  rbind (match start with Some a => Ok a | None => qminl (wave s) end) (fun lo =>
  rbind (match stop with Some b => Ok b | None => qmaxl (wave s) end) (fun hi =>
  quad r (select lo hi (samples s)))).

(* ---- bin(centres, interp_method, ends, preserve_power) ---- *)
Inductive endsmode := Symmetric | Inside.
Fixpoint halfdiffs (c : list Qc) : list Qc :=           (* np.diff(c)/2 *)
  match c with a :: ((b :: _) as t) => (b - a) / two :: halfdiffs t | _ => [] end.
Fixpoint mids (c : list Qc) : list Qc :=                (* c[0:-1] + np.diff(c)/2 *)
  match c with a :: ((b :: _) as t) => (a + (b - a) / two) :: mids t | _ => [] end.
(* x[0::2] = c, x[1::2] = mids: c0 m0 c1 m1 ... c_last *)
Fixpoint interleave (c m : list Qc) : list Qc :=
  match c, m with a :: ct, b :: mt => a :: b :: interleave ct mt | _, _ => c end.
Definition bin_edges_trapz (e : endsmode) (c : list Qc) : list Qc :=
  let dx := halfdiffs c in
  let c0 := hd 0 c in let cl := last c 0 in
  match e with
  | Symmetric => (c0 - hd 0 dx) :: mids c ++ [cl + last dx 0]
  | Inside => c0 :: mids c ++ [cl]
  end.
(* np.insert(x, 1, ...) and np.insert(x, -1, ...) *)
Definition insert_before_last (x : list Qc) (v : Qc) : list Qc := removelast x ++ [v; last x 0].
Definition bin_nodes_simps (e : endsmode) (c : list Qc) : list Qc :=
  let dx := halfdiffs c in
  let x := interleave c (mids c) in
  match e with
  | Symmetric => (hd 0 c - hd 0 dx) :: x ++ [last c 0 + last dx 0]
  | Inside =>
      let x1 := match x with a :: ((b :: _) as t) => a :: (a + (b - a) / two) :: t | _ => x end in
      let xl := last x1 0 in let xp := last (removelast x1) 0 in
      insert_before_last x1 (xl + (xp - xl) / two)
  end.
(* chained trapezoid: one bin per pair of neighbouring edges *)
Fixpoint chain_trapz (p : list (Qc * Qc)) : list Qc :=
  match p with
  | (x0, f0) :: (((x1, f1) :: _) as t) => (1 / two) * (f0 + f1) * (x1 - x0) :: chain_trapz t
  | _ => []
  end.
(* chained Simpson: one bin per (edge, node, edge) triple, stepping by two *)
Fixpoint chain_simps (p : list (Qc * Qc)) : list Qc :=
  match p with
  | (x0, f0) :: (x1, f1) :: (((x2, f2) :: _) as t) =>
      ((x2 - x0) / six) * (f0 + four * f1 + f2) :: chain_simps t
  | _ => []
  end.
Definition raw_bins (s : spectrum) (c : list Qc) (r : rule) (e : endsmode) : result (list Qc) :=
  if (length c <? 2)%nat then Err ValueError else
  let x := match r with Trapz => bin_edges_trapz e c | Simps => bin_nodes_simps e c end in
  rbind (sample s x) (fun f =>
  Ok (match r with Trapz => chain_trapz (combine x f) | Simps => chain_simps (combine x f) end)).
(* [None]: the float computation divides by a zero bin sum; the result is not finite (nan/inf), no exception *)
Definition bin (s : spectrum) (c : list Qc) (r : rule) (e : endsmode) (preserve : bool)
  : result (option (list Qc)) :=
  rbind (raw_bins s c r e) (fun b =>
  if preserve then
    rbind (qminl c) (fun lo => rbind (qmaxl c) (fun hi =>
    rbind (integrate s (Some lo) (Some hi) r) (fun tot =>
    let sb := qsum b in
    if qeqb sb 0 then Ok None else Ok (Some (map (fun x => x * (tot / sb)) b)))))
  else Ok (Some b)).

(* ---- ends(tol) / trim(tol) ---- *)
Fixpoint find_first (f : Qc -> bool) (l : list Qc) (i : nat) : option nat :=
  match l with [] => None | a :: t => if f a then Some i else find_first f t (Datatypes.S i) end.
Fixpoint find_last (f : Qc -> bool) (l : list Qc) (i : nat) : option nat :=
  match l with [] => None
  | a :: t => match find_last f t (Datatypes.S i) with Some j => Some j | None => if f a then Some i else None end end.
Definition ends (s : spectrum) (tol : Qc) : result (nat * nat) :=
  rbind (qmaxl (value s)) (fun m =>                  (* max(self.value): ValueError on an empty sequence *)
  if qle m 0 then Err ValueError else
  let above := fun v => qlt tol (v / m) in
  match find_first above (value s) 0, find_last above (value s) 0 with
  | Some i, Some j => Ok (i, j)
  | _, _ => Err IndexError                           (* np.where(...)[0][0] on an empty index array *)
  end).
Definition slice {A} (l : list A) (i j : nat) : list A := firstn (j - i) (skipn i l).   (* l[i:j] *)

(* ---- the mutating methods: (state left behind, exception raised) ---- *)
Definition outcome := (spectrum * option errkind)%type.

Definition trim (s : spectrum) (tol : Qc) : outcome :=
  if forallb (fun v => qeqb v 0) (value s) then (s, None)     (* not self.value.any(): nothing to do *)
  else match ends s tol with
       | Err e => (s, Some e)
       | Ok (i, j) =>
           match wave_check (slice (wave s) i (Datatypes.S j)) with
           | Err e => (s, Some e)
           | Ok w => (mkSp w (slice (value s) i (Datatypes.S j)), None)
           end
       end.

(* np.delete(self.wave, where(drop(wave))), np.delete(self.value, same indices) *)
Definition keep_values (keep : Qc -> bool) (w v : list Qc) : list Qc :=
  map snd (filter (fun q => keep (fst q)) (combine w v)).
Definition delete_where (drop : Qc -> bool) (s : spectrum) : outcome :=
  let keep := fun x => negb (drop x) in
  match wave_check (filter keep (wave s)) with
  | Err e => (s, Some e)
  | Ok w => (mkSp w (keep_values keep (wave s) (value s)), None)
  end.
Definition crop (s : spectrum) (a b : Qc) : outcome :=
  match wave s with
  | [] => (s, Some IndexError)                               (* self.wave[0] *)
  | w0 :: _ =>
    let '(s1, e1) := if qlt w0 a then delete_where (fun x => qlt x a) s else (s, None) in
    match e1 with Some e => (s1, Some e) | None =>
    match wave s1 with
    | [] => (s1, Some IndexError)                            (* self.wave[-1] after everything was deleted *)
    | w1 :: _ => if qlt b (last (wave s1) w1) then delete_where (fun x => qlt b x) s1 else (s1, None)
    end end
  end.

Inductive padmode := PadConst (v0 v1 : Qc) | PadEdge.
Fixpoint min_diff (w : list Qc) : result Qc :=      (* np.diff(w).min() *)
  match w with
  | a :: ((b :: t') as t) => match t' with [] => Ok (b - a) | _ => rbind (min_diff t) (fun m => Ok (qmin (b - a) m)) end
  | _ => Err ValueError
  end.
(* np.linspace(a, b, n) for n >= 1: a + i*((b-a)/(n-1)) *)
Definition linspace (a b : Qc) (n : Z) : list Qc :=
  if (n =? 1)%Z then [a]
  else map (fun i => a + ofZ (Z.of_nat i) * ((b - a) / ofZ (n - 1))) (seq 0 (Z.to_nat n)).
Definition pad (s : spectrum) (e0 e1 : Qc) (sampling : option Qc) (mode : padmode) : outcome :=
  match (match mode with
         | PadConst a b => Ok (a, b)
         | PadEdge => match value s with [] => Err IndexError | y0 :: _ => Ok (y0, last (value s) y0) end
         end) with
  | Err e => (s, Some e)
  | Ok (v0, v1) =>
    match (match sampling with Some d => Ok d | None => min_diff (wave s) end) with
    | Err e => (s, Some e)
    | Ok dw =>
      match wave s with
      | [] => (s, Some ValueError)                           (* self.wave.min() *)
      | w0 :: _ =>
        let wl := last (wave s) w0 in
        let nleft := (Qceiling ((w0 - e0) / dw) + 1)%Z in
        let nright := (Qceiling ((e1 - wl) / dw) + 1)%Z in
        if (nleft <? 0)%Z then (s, Some ValueError)          (* np.linspace: negative number of samples *)
        else if (nleft =? 0)%Z then (s, Some IndexError)     (* np.delete([], -1) *)
        else if (nright <? 0)%Z then (s, Some ValueError)
        else if (nright =? 0)%Z then (s, Some IndexError)
        else
          let left := removelast (linspace e0 w0 nleft) in
          let right := tl (linspace wl e1 nright) in
          match wave_check (left ++ wave s ++ right) with
          | Err e => (s, Some e)
          | Ok w => (mkSp w (repeat v0 (length left) ++ value s ++ repeat v1 (length right)), None)
          end
      end
    end
  end.

(* pad refuses a sample count below 1 on either side; the code evaluates the LEFT side first. When BOTH counts are
   refused and with different exception classes, [pad_other_refusal] is the class the right side would raise: C15 does
   not pin which of two refusals fires (the object is untouched either way), so the tie accepts either class *)
Definition count_refusal (n : Z) : option errkind :=
  if (n <? 0)%Z then Some ValueError else if (n =? 0)%Z then Some IndexError else None.
Definition pad_counts (s : spectrum) (e0 e1 : Qc) (sampling : option Qc) (mode : padmode) : option (Z * Z) :=
  match (match mode with PadConst _ _ => true | PadEdge => match value s with [] => false | _ => true end end),
        (match sampling with Some d => Ok d | None => min_diff (wave s) end), wave s with
  | true, Ok dw, w0 :: _ =>
      let wl := last (wave s) w0 in
      Some ((Qceiling ((w0 - e0) / dw) + 1)%Z, (Qceiling ((e1 - wl) / dw) + 1)%Z)
  | _, _, _ => None
  end.
Definition pad_other_refusal (s : spectrum) (e0 e1 : Qc) (sampling : option Qc) (mode : padmode) : option errkind :=
  match pad_counts s e0 e1 sampling mode with
  | Some (nl, nr) =>
      match count_refusal nl, count_refusal nr with
      | Some a, Some b => if (errcode a =? errcode b)%Z then None else Some b
      | _, _ => None
      end
  | None => None
  end.

(* np.any(a <= b) with numpy broadcasting of two 1-d arrays *)
Definition bcast_any_le (a b : list Qc) : result bool :=
  if (length a =? length b)%nat then Ok (existsb (fun q => qle (fst q) (snd q)) (combine a b))
  else match a, b with
       | [x], _ => Ok (existsb (fun y => qle x y) b)
       | _, [y] => Ok (existsb (fun x => qle x y) a)
       | _, _ => Err ValueError
       end.
Definition append (s o : spectrum) : outcome :=
  match bcast_any_le (wave o) (wave s) with
  | Err e => (s, Some e)
  | Ok true => (s, Some ValueError)
  | Ok false =>
      match wave_check (wave s ++ wave o) with
      | Err e => (s, Some e)
      | Ok w => (mkSp w (value s ++ value o), None)
      end
  end.

(* value = self.sample(grid); self.wave = grid (validated by the setter); self.value = value
   -- the grid is checked BEFORE anything is assigned (fix 732bed0): a refused resample leaves the object as it was *)
Definition resample (s : spectrum) (g : list Qc) : outcome :=
  match sample s g with
  | Err e => (s, Some e)
  | Ok v => match wave_check g with Err e => (s, Some e) | Ok w => (mkSp w v, None) end
  end.

(* ---- the state machine ---- *)
Inductive op :=
| OCrop (a b : Qc) | OTrim (tol : Qc) | OPad (e0 e1 : Qc) (sampling : option Qc) (mode : padmode)
| OAppend (o : spectrum) | OResample (g : list Qc).
Definition exec (s : spectrum) (o : op) : outcome :=
  match o with
  | OCrop a b => crop s a b
  | OTrim tol => trim s tol
  | OPad e0 e1 sm md => pad s e0 e1 sm md
  | OAppend o' => append s o'
  | OResample g => resample s g
  end.
Definition step (s : spectrum) (o : op) : result spectrum :=
  match exec s o with (s', None) => Ok s' | (_, Some e) => Err e end.
(* the object after a sequence of calls, accepted or refused *)
Definition run (s : spectrum) (ops : list op) : spectrum := fold_left (fun s o => fst (exec s o)) ops s.
(* the states after each call, with the exception raised *)
Fixpoint trace (s : spectrum) (ops : list op) : list outcome :=
  match ops with [] => [] | o :: t => let r := exec s o in r :: trace (fst r) t end.

(* what an operation must satisfy to be covered: appended spectra have one value per wavelength *)
Definition op_ok (o : op) : Prop :=
  match o with OAppend o' => length (wave o') = length (value o') | _ => True end.

(* ---- a session on one live object: the resizing calls above, assignments of new values on the same grid (the
        [value] setter: np.asarray, no check at all) and the two queries integrate / bin. A query returns a number /
        bins computed from the object's CURRENT wave and value and leaves the object alone: the model has no other
        state, so any memo the implementation keeps between calls must be invisible ---- *)
Inductive call :=
| CEdit (o : op)
| CSetValue (v : list Qc)
| CIntegrate (a b : option Qc) (r : rule)
| CBin (c : list Qc) (r : rule) (e : endsmode) (pp : bool)
| CAppendCopy (o : spectrum)        (* append(other, copy=True): returns the joined spectrum, the caller is not touched *)
| CAsArray.                         (* asarray(): np.array((wave, value)) *)
Inductive answer :=
| ANone
| ANum (x : Qc)
| ABins (b : option (list Qc))
| ASpec (s : spectrum).
Definition set_value (s : spectrum) (v : list Qc) : spectrum := mkSp (wave s) v.
Definition do_call (s : spectrum) (c : call) : outcome * answer :=
  match c with
  | CEdit o => (exec s o, ANone)
  | CSetValue v => ((set_value s v, None), ANone)
  | CIntegrate a b r =>
      match integrate s a b r with Ok x => ((s, None), ANum x) | Err e => ((s, Some e), ANone) end
  | CBin c r e pp =>
      match bin s c r e pp with Ok b => ((s, None), ABins b) | Err e => ((s, Some e), ANone) end
  | CAppendCopy o =>
      match append s o with (s', None) => ((s, None), ASpec s') | (_, Some e) => ((s, Some e), ANone) end
  | CAsArray =>
      (* np.array of two rows of different lengths is refused (ragged); on a well-formed object it is (wave, value) *)
      if (length (wave s) =? length (value s))%nat then ((s, None), ASpec s) else ((s, Some ValueError), ANone)
  end.
Fixpoint session (s : spectrum) (cs : list call) : list (outcome * answer) :=
  match cs with [] => [] | c :: t => let r := do_call s c in r :: session (fst (fst r)) t end.
Definition after_session (s : spectrum) (cs : list call) : spectrum :=
  fold_left (fun s c => fst (fst (do_call s c))) cs s.
(* what a call must satisfy to be covered, given the object it is applied to *)
Definition call_ok (s : spectrum) (c : call) : Prop :=
  match c with
  | CEdit o => op_ok o
  | CAppendCopy o => length (wave o) = length (value o)
  | CSetValue v => length v = length (wave s)
  | _ => True
  end.
Fixpoint session_ok (s : spectrum) (cs : list call) : Prop :=
  match cs with [] => True | c :: t => call_ok s c /\ session_ok (fst (fst (do_call s c))) t end.

(* ---- specification-level notions ---- *)
(* well-formed: positive, strictly increasing grid, one value per wavelength *)
Fixpoint increasing (w : list Qc) : Prop :=
  match w with a :: ((b :: _) as t) => a < b /\ increasing t | _ => True end.
Definition wf (s : spectrum) : Prop :=
  increasing (wave s) /\ Forall (fun x => 0 < x) (wave s) /\ length (wave s) = length (value s).
(* the values a*v + b*u on a common grid *)
Definition lincomb (a : Qc) (v : list Qc) (b : Qc) (u : list Qc) : list Qc :=
  map (fun p => a * fst p + b * snd p) (combine v u).
(* the exact integral of the straight line al*x + be between two edges, and per pair of neighbouring edges
   (trapezoid bins) / per (edge, node, edge) triple (Simpson bins) *)
Definition line_integral (al be x0 x1 : Qc) : Qc := al * (x1 * x1 - x0 * x0) / two + be * (x1 - x0).
Fixpoint line_bins (al be : Qc) (x : list Qc) : list Qc :=
  match x with x0 :: ((x1 :: _) as t) => line_integral al be x0 x1 :: line_bins al be t | _ => [] end.
Fixpoint line_bins2 (al be : Qc) (x : list Qc) : list Qc :=
  match x with x0 :: x1 :: ((x2 :: _) as t) => line_integral al be x0 x2 :: line_bins2 al be t | _ => [] end.
(* centres with a common spacing h *)
Fixpoint uniform_step (h : Qc) (c : list Qc) : Prop :=
  match c with a :: ((b :: _) as t) => b - a = h /\ uniform_step h t | _ => True end.
(* the value recorded for wavelength x, if x is a sample *)
Fixpoint lookup (p : list (Qc * Qc)) (x : Qc) : option Qc :=
  match p with [] => None | (a, y) :: t => if qeqb x a then Some y else lookup t x end.
(* the integral of the piecewise-linear interpolant of a table between two arbitrary bounds, from the
   antiderivative of each linear piece: on [x0, x1] the interpolant is y0 + m (x - x0), m = (y1-y0)/(x1-x0),
   and  int_l^h = y0 (h - l) + m ((h - x0)^2 - (l - x0)^2)/2;  outside the table the interpolant is 0 *)
Definition piece (x0 y0 x1 y1 l h : Qc) : Qc :=
  y0 * (h - l) + ((y1 - y0) / (x1 - x0)) * ((h - x0) * (h - x0) - (l - x0) * (l - x0)) / two.
Fixpoint pl_integral (p : list (Qc * Qc)) (lo hi : Qc) : Qc :=
  match p with
  | (x0, y0) :: (((x1, y1) :: _) as t) =>
      let l := qmax lo x0 in let h := qmin hi x1 in
      (if qlt l h then piece x0 y0 x1 y1 l h else 0) + pl_integral t lo hi
  | _ => 0
  end.
