(* The public entry points lentil.fourier.dft2 / idft2 as callers see them: argument forms, defaults, refusals
   (which exception, in which order) and the glue to the numeric kernel of Model/Dft.v.

     alpha_row, alpha_col = np.broadcast_to(alpha, (2,))          a scalar / 0-d value, a sequence of 1 or 2 values;
                                                                  anything else (empty, 3+ values, >= 2-d) ValueError
     f = np.asarray(f);  m, n = f.shape                           ndim != 2: ValueError (unpacking)
     shape None -> [m, n];  M, N = np.broadcast_to(shape, (2,))
     shift, offset: np.broadcast_to(., (2,))
     out given and not np.can_cast(complex, out.dtype): TypeError (before any work, whatever its shape)
     np.dot(E1.dot(f), E2, out=out): out must be complex128, C-contiguous and of shape (len(arange(M)), len(arange(N)))
                                     else ValueError;  np.arange(M) is empty for M <= 0
   The checks happen in exactly this order.  idft2 hands conj(F), alpha, shape, shift, unitary, out to dft2 (no offset),
   conjugates in place and divides by F.size unless unitary. *)
From LV Require Export Model.Dft.

(* the forms an array_like argument broadcast to (2,) can take *)
Inductive argform (A : Type) :=
| FScalar (a : A)            (* Python scalar or 0-d array *)
| FSeq (l : list A)          (* 1-d sequence / array *)
| FNested.                   (* two or more dimensions *)
Arguments FScalar {A}. Arguments FSeq {A}. Arguments FNested {A}.

Definition bcast2 {A} (x : argform A) : result (A * A) :=
  match x with
  | FScalar a => Ok (a, a)
  | FSeq [a] => Ok (a, a)
  | FSeq [a; b] => Ok (a, b)
  | _ => Err ValueError
  end.

(* the input array: a 2-d array, or an array of another rank *)
Inductive input (S : Scalar) := In2 (a : arr S) | InRank (ndim : Z).
Arguments In2 {S}. Arguments InRank {S}.

(* what matters of a caller-supplied buffer: its dtype class, its memory layout and its shape (never its content) *)
Inductive odtype :=
| OComplex128                 (* the dtype of the product *)
| ONoComplex                  (* float, int, bool, complex64: np.can_cast(complex, dtype) is False *)
| OOther.                     (* clongdouble, object: complex can be cast into it, but np.dot refuses it *)
Record outbuf := mkOut { o_dt : odtype; o_contig : bool; o_nr : Z; o_nc : Z }.

Section DftApi.
Variable S : Scalar.
Variable sq : Qc -> S.

Definition check_out (out : option outbuf) (M N : Z) : result unit :=
  match out with
  | None => Ok tt
  | Some o =>
    match o_dt o with
    | ONoComplex => Err TypeError
    | OOther => Err ValueError
    | OComplex128 => if o_contig o && (o_nr o =? M) && (o_nc o =? N) then Ok tt else Err ValueError
    end
  end.
Definition dft2_api (f : input S) (alpha : argform Qc) (shape : option (argform Z)) (shift : argform Qc)
           (offset : argform Z) (unitary : bool) (out : option outbuf) : result (arr S) :=
  rbind (bcast2 alpha) (fun a =>
  match f with
  | InRank _ => Err ValueError
  | In2 g =>
    rbind (match shape with None => Ok (nr g, nc g) | Some s => bcast2 s end) (fun sh =>
    rbind (bcast2 shift) (fun st =>
    rbind (bcast2 offset) (fun off =>
    let M := Z.max 0 (fst sh) in let N := Z.max 0 (snd sh) in
    rbind (check_out out M N) (fun _ =>
    Ok (dft2 sq g (fst a) (snd a) M N (fst st) (snd st) (fst off) (snd off) unitary)))))
  end).

Definition input_conj (F : input S) : input S :=
  match F with In2 a => In2 (amap kconj a) | InRank r => InRank r end.
(* F.size (any rank; for rank != 2 the value is never used: dft2 refuses first) *)
Definition input_size (F : input S) : Z := match F with In2 a => nr a * nc a | InRank _ => 0 end.

Definition idft2_api (F : input S) (alpha : argform Qc) (shape : option (argform Z)) (shift : argform Qc)
           (unitary : bool) (out : option outbuf) : result (arr S) :=
  rbind (dft2_api (input_conj F) alpha shape shift (FSeq [0; 0]) unitary out) (fun G =>
  let G' := amap kconj G in
  Ok (if unitary then G' else amap (fun z => (z * kofq (/ zq (input_size F))%Qc)%K) G')).
End DftApi.
Arguments check_out : simpl never.
Arguments dft2_api {S}. Arguments idft2_api {S}. Arguments input_conj {S}. Arguments input_size {S}.

(* ---- vocabulary of the statements about the entry points ---- *)
Definition formb {A} (x : argform A) : bool :=
  match x with FScalar _ => true | FSeq [_] => true | FSeq [_; _] => true | _ => false end.

(* the buffer is acceptable for an M x N result *)
Definition out_accept (out : option outbuf) (M N : Z) : Prop :=
  match out with None => True
  | Some o => o_dt o = OComplex128 /\ o_contig o = true /\ o_nr o = M /\ o_nc o = N end.
Definition out_notype (out : option outbuf) : Prop := exists o, out = Some o /\ o_dt o = ONoComplex.
(* complex can be cast into it, but np.dot refuses it: wrong dtype, layout or shape *)
Definition out_badvalue (out : option outbuf) (M N : Z) : Prop :=
  exists o, out = Some o /\ (o_dt o = OOther \/ (o_dt o = OComplex128 /\ (o_contig o = false \/ o_nr o <> M \/ o_nc o <> N))).

Section DftApiSpec.
Variable S : Scalar.
(* the shape a call asks for: the input's own shape when shape is None *)
Definition req_shape (g : arr S) (shape : option (argform Z)) : result (Z * Z) :=
  match shape with None => Ok (nr g, nc g) | Some s => bcast2 s end.
Definition shape_formb (shape : option (argform Z)) : bool :=
  match shape with None => true | Some s => formb s end.
(* every argument has an acceptable form and the input is 2-d *)
Definition args_ok (f : input S) (alpha : argform Qc) (shape : option (argform Z)) (shift : argform Qc)
           (offset : argform Z) : bool :=
  formb alpha && match f with In2 _ => true | InRank _ => false end && shape_formb shape && formb shift && formb offset.

End DftApiSpec.
Arguments req_shape {S}. Arguments args_ok {S}.
